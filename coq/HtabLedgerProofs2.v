(* HtabLedgerProofs2.v -- C16 (hash-table internals): Get / operator[], remove, Rename,
   copy / move assignment, merge by copy and by move. *)
From Coq Require Import List Arith Bool Lia.
From Qv Require Import SeqModel HtabModel HtabProofsBase HtabLedgerModel HtabLedgerProofs.
Import ListNotations.

Lemma l_get_ok h t k own g F : bal h (table_ids t) F -> fresh h -> table_wf t -> good F (l_get h t k own g).
Proof.
  intros Hb Hf Hw. unfold l_get.
  destruct (l_alloc_opt h own) as (h1, tko) eqn:E1. destruct (bal_alloc_opt h h1 tko own _ F E1 Hb Hf) as (Hb1 & Hf1).
  apply bal_shift in Hb1.
  destruct (l_grow_ok h1 t g _ Hb1 Hf1 Hw) as (h2 & t1 & -> & Hb2 & Hf2 & Hs2). rb.
  apply bal_shift in Hb2.
  rewrite (touch_table' h2 t1 _ F Hb2). rb.
  destruct (lfind (lslots t1) k) as [n|] eqn:Efind.
  - destruct (bal_free_opt h2 _ (table_ids t1) F tko Hb2 Hf2) as (h3 & -> & Hb3 & Hf3); [intros x; apply cnt_app|].
    rb. exists h3, t1. split; [reflexivity|]. split; [exact Hb3|]. split; [exact Hf3|]. intros E. contradiction.
  - destruct tko as [b|].
    + eexists. eexists. split; [reflexivity|]. split; [|split; [exact Hf2|apply wf_keep; exact Hs2]].
      eapply bal_perm; [exact Hb2|]. intros x. cnorm. lia.
    + destruct (lalloc h2) as (h3, tk) eqn:E3. destruct (bal_alloc h2 h3 tk _ F E3 Hb2 Hf2) as (Hb3 & Hf3).
      eexists. eexists. split; [reflexivity|]. split; [|split; [exact Hf3|apply wf_keep; exact Hs2]].
      eapply bal_perm; [exact Hb3|]. intros x. cnorm. lia.
Qed.

Lemma wf_set t n s : table_wf t -> table_wf (mkLT (stor t) (set_slot (lslots t) n s)).
Proof. intros Hw E. simpl in *. rewrite (Hw E). reflexivity. Qed.

Lemma l_kill_ok h t n F : bal h (table_ids t) F -> fresh h -> table_wf t -> n < length (lslots t) -> good F (l_kill h t n).
Proof.
  intros Hb Hf Hw Hn. unfold l_kill. destruct (nth n (lslots t) None) as [y|] eqn:Hy.
  - destruct (bal_free h _ (opt_ids (vtok y) ++ opt_ids (stor t) ++ slots_ids (set_slot (lslots t) n None)) F (ktok y) Hb Hf) as (h1 & -> & Hb1 & Hf1).
    { intros x. pose proof (slot_split x (lslots t) n y Hn Hy). cnorm. lia. }
    rb. destruct (bal_free_opt h1 _ (opt_ids (stor t) ++ slots_ids (set_slot (lslots t) n None)) F (vtok y) Hb1 Hf1) as (h2 & -> & Hb2 & Hf2).
    { intros x. apply cnt_app. }
    rb. eexists. eexists. split; [reflexivity|]. split; [exact Hb2|]. split; [exact Hf2|apply wf_set; exact Hw].
  - exists h, t. auto.
Qed.

Lemma l_remove_ok h t k F : bal h (table_ids t) F -> fresh h -> table_wf t -> good F (l_remove h t k).
Proof.
  intros Hb Hf Hw. unfold l_remove. destruct (no_slots (lslots t)); [exists h, t; auto|].
  rewrite (touch_table h t F Hb). rb. destruct (lfind (lslots t) k) as [n|] eqn:Efind; [|exists h, t; auto].
  apply l_kill_ok; auto. apply (lfind_some _ _ _ Efind).
Qed.
Lemma l_remove_index_ok h t n F : bal h (table_ids t) F -> fresh h -> table_wf t -> good F (l_remove_index h t n).
Proof.
  intros Hb Hf Hw. unfold l_remove_index. destruct (n <? length (lslots t)) eqn:E; [|exists h, t; auto].
  rewrite (touch_table h t F Hb). rb. apply l_kill_ok; auto. apply Nat.ltb_lt. exact E.
Qed.

Lemma l_rename_ok h t k k2 F : bal h (table_ids t) F -> fresh h -> table_wf t -> good F (l_rename h t k k2).
Proof.
  intros Hb Hf Hw. unfold l_rename.
  destruct (lalloc h) as (h1, tk2) eqn:E1. destruct (bal_alloc h h1 tk2 _ F E1 Hb Hf) as (Hb1 & Hf1).
  assert (Hdrop : good F (h2 <- lfree h1 tk2 ;; Ok (h2, t))).
  { destruct (bal_free h1 _ (table_ids t) F tk2 Hb1 Hf1) as (h2 & -> & Hb2 & Hf2); [intros x; cnorm; lia|].
    rb. exists h2, t. auto. }
  destruct (no_slots (lslots t)); [exact Hdrop|].
  assert (Ht : ltouch h1 (stor t) = Ok tt).
  { eapply bal_touch; [exact Hb1|]. intros b Eb. right. apply stor_in. exact Eb. }
  rewrite Ht. rb.
  destruct (lfind (lslots t) k) as [n|] eqn:Ef1; [|exact Hdrop].
  destruct (lfind (lslots t) k2) as [m|] eqn:Ef2; [exact Hdrop|].
  destruct (lfind_some _ _ _ Ef1) as (Hn & y & Hy). rewrite Hy.
  destruct (bal_free h1 _ (tk2 :: opt_ids (vtok y) ++ opt_ids (stor t) ++ slots_ids (set_slot (lslots t) n None)) F (ktok y) Hb1 Hf1) as (h2 & -> & Hb2 & Hf2).
  { intros x. pose proof (slot_split x (lslots t) n y Hn Hy). cnorm. lia. }
  rb. eexists. eexists. split; [reflexivity|]. split; [|split; [exact Hf2|apply wf_set; exact Hw]].
  eapply bal_perm; [exact Hb2|]. intros x.
  pose proof (cnt_set_slot_from_none x (lslots t) n (Some (mkLI k2 tk2 (vtok y))) Hn) as Hc. cnorm. lia.
Qed.

(* ---------- copy ---------- *)
Lemma l_copy_items_ok ce : forall sl h ids F, bal h ids F -> fresh h ->
  bal (fst (l_copy_items ce h sl)) (slots_ids (snd (l_copy_items ce h sl)) ++ ids) F /\ fresh (fst (l_copy_items ce h sl)).
Proof.
  induction sl as [|[y|] sl IH]; intros h ids F Hb Hf; cbn [l_copy_items].
  - simpl. auto.
  - destruct (lalloc h) as (h1, tk) eqn:E1. destruct (bal_alloc h h1 tk _ F E1 Hb Hf) as (Hb1 & Hf1).
    destruct (l_alloc_opt h1 _) as (h2, tv) eqn:E2. destruct (bal_alloc_opt h1 h2 tv _ _ F E2 Hb1 Hf1) as (Hb2 & Hf2).
    specialize (IH h2 _ F Hb2 Hf2). destruct (l_copy_items ce h2 sl) as (h3, r'). simpl in *. destruct IH as (Hb3 & Hf3).
    split; [|exact Hf3]. eapply bal_perm; [exact Hb3|]. intros x. cnorm. lia.
  - apply IH; auto.
Qed.

(* binary operations: the target and the source *)
Definition good2 (F : nat -> nat) (src' : ltable) (r : res (lheap * ltable)) : Prop :=
  exists h' t', r = Ok (h', t') /\ bal h' (table_ids t' ++ table_ids src') F /\ fresh h' /\ table_wf t'.

Lemma l_copy_ok ce h ti tj F : bal h (table_ids ti ++ table_ids tj) F -> fresh h -> table_wf ti -> table_wf tj ->
  good2 F tj (l_copy ce h ti tj).
Proof.
  intros Hb Hf Hwi Hwj. unfold l_copy.
  rewrite (touch_table' h tj _ F Hb). rb.
  assert (Hnew : exists h1 tnew, (if no_slots (lslots tj) then (h, ltable0)
            else let (h', nb) := lalloc h in let (h'', sl) := l_copy_items ce h' (lslots tj) in (h'', mkLT (Some nb) sl)) = (h1, tnew) /\
            bal h1 (table_ids tnew ++ table_ids ti ++ table_ids tj) F /\ fresh h1 /\ table_wf tnew).
  { destruct (no_slots (lslots tj)).
    - exists h, ltable0. split; [reflexivity|]. split; [exact Hb|]. split; [exact Hf|apply wf_table0].
    - destruct (lalloc h) as (h', nb) eqn:E1. destruct (bal_alloc h h' nb _ F E1 Hb Hf) as (Hb1 & Hf1).
      pose proof (l_copy_items_ok ce (lslots tj) h' _ F Hb1 Hf1) as (Hb2 & Hf2).
      destruct (l_copy_items ce h' (lslots tj)) as (h'', sl). simpl in *.
      exists h'', (mkLT (Some nb) sl). split; [reflexivity|]. split; [|split; [exact Hf2|apply wf_some]].
      eapply bal_perm; [exact Hb2|]. intros x. cnorm. lia. }
  destruct Hnew as (h1 & tnew & -> & Hb1 & Hf1 & Hwn).
  assert (Ht : ltouch h1 (stor ti) = Ok tt).
  { eapply bal_touch; [exact Hb1|]. intros b Eb. apply in_or_app. right. apply in_or_app. left. apply stor_in. exact Eb. }
  rewrite Ht. rb.
  destruct (l_dispose_ok h1 (lslots ti) (opt_ids (stor ti) ++ table_ids tnew ++ table_ids tj) F) as (h2 & -> & Hb2 & Hf2); auto.
  { eapply bal_perm; [exact Hb1|]. intros x. cnorm. lia. }
  rb. destruct (bal_free_opt h2 _ (table_ids tnew ++ table_ids tj) F (stor ti) Hb2 Hf2) as (h3 & -> & Hb3 & Hf3).
  { intros x. apply cnt_app. }
  rb. exists h3, tnew. auto.
Qed.

Lemma l_move_ok h ti tj F : bal h (table_ids ti ++ table_ids tj) F -> fresh h -> table_wf ti -> table_wf tj ->
  good2 F ltable0 (l_move h ti tj).
Proof.
  intros Hb Hf Hwi Hwj. unfold l_move.
  assert (Ht : ltouch h (stor ti) = Ok tt).
  { eapply bal_touch; [exact Hb|]. intros b Eb. apply in_or_app. left. apply stor_in. exact Eb. }
  rewrite Ht. rb.
  destruct (l_dispose_ok h (lslots ti) (opt_ids (stor ti) ++ table_ids tj) F) as (h1 & -> & Hb1 & Hf1); auto.
  { eapply bal_perm; [exact Hb|]. intros x. cnorm. lia. }
  rb. destruct (bal_free_opt h1 _ (table_ids tj) F (stor ti) Hb1 Hf1) as (h2 & -> & Hb2 & Hf2).
  { intros x. apply cnt_app. }
  rb. exists h2, tj. split; [reflexivity|]. split; [|auto].
  eapply bal_perm; [exact Hb2|]. intros x. cnorm. lia.
Qed.

(* ---------- merge loops ---------- *)
Lemma wf_of_stor t : stor t <> None -> table_wf t.
Proof. intros Hs E. contradiction. Qed.

Lemma l_merge_copy_loop_ok ce : forall src h td F,
  bal h (table_ids td) F -> fresh h -> (stor td <> None \/ src = []) -> table_wf td ->
  exists h' td', l_merge_copy_loop ce h td src = Ok (h', td') /\ bal h' (table_ids td') F /\ fresh h' /\ table_wf td'.
Proof.
  induction src as [|[x|] src IH]; intros h td F Hb Hf Hs Hw; cbn [l_merge_copy_loop].
  - exists h, td. auto.
  - destruct Hs as [Hs|Hs]; [|discriminate].
    rewrite (touch_table h td F Hb). rb.
    destruct (lfind (lslots td) (lkey x)) as [n|] eqn:Efind.
    + destruct (lfind_some _ _ _ Efind) as (Hn & y & Hy). rewrite Hy.
      destruct (bal_free_opt h _ (opt_ids (stor td) ++ [ktok y] ++ slots_ids (set_slot (lslots td) n None)) F (vtok y) Hb Hf) as (h1 & -> & Hb1 & Hf1).
      { intros z. pose proof (slot_split z (lslots td) n y Hn Hy). cnorm. lia. }
      rb. destruct (l_alloc_opt h1 _) as (h2, tv) eqn:E2. destruct (bal_alloc_opt h1 h2 tv _ _ F E2 Hb1 Hf1) as (Hb2 & Hf2).
      apply IH; auto.
      * eapply bal_perm; [exact Hb2|]. intros z.
        pose proof (cnt_set_slot_from_none z (lslots td) n (Some (mkLI (lkey y) (ktok y) tv)) Hn) as Hc. cnorm. lia.
      * apply wf_keep. exact Hs.
    + destruct (lalloc h) as (h1, tk) eqn:E1. destruct (bal_alloc h h1 tk _ F E1 Hb Hf) as (Hb1 & Hf1).
      destruct (l_alloc_opt h1 _) as (h2, tv) eqn:E2. destruct (bal_alloc_opt h1 h2 tv _ _ F E2 Hb1 Hf1) as (Hb2 & Hf2).
      apply IH; auto.
      * eapply bal_perm; [exact Hb2|]. intros z. cnorm. lia.
      * apply wf_keep. exact Hs.
  - apply IH; auto. destruct Hs as [Hs|Hs]; [auto|discriminate].
Qed.

(* the code: dispose_key = true *)
Lemma l_merge_move_loop_ok : forall src h td F,
  bal h (table_ids td ++ slots_ids src) F -> fresh h -> (stor td <> None \/ src = []) -> table_wf td ->
  exists h' td', l_merge_move_loop true h td src = Ok (h', td') /\ bal h' (table_ids td') F /\ fresh h' /\ table_wf td'.
Proof.
  induction src as [|[x|] src IH]; intros h td F Hb Hf Hs Hw; cbn [l_merge_move_loop].
  - exists h, td. split; [reflexivity|]. split; [|auto]. eapply bal_perm; [exact Hb|]. intros z. cnorm. lia.
  - destruct Hs as [Hs|Hs]; [|discriminate].
    rewrite (touch_table' h td (slots_ids (Some x :: src)) F).
    2:{ eapply bal_perm; [exact Hb|]. intros z. cnorm. lia. }
    rb. destruct (lfind (lslots td) (lkey x)) as [n|] eqn:Efind.
    + destruct (lfind_some _ _ _ Efind) as (Hn & y & Hy). rewrite Hy.
      destruct (bal_free_opt h _ (ktok x :: opt_ids (vtok x) ++ opt_ids (stor td) ++ [ktok y] ++ slots_ids (set_slot (lslots td) n None) ++ slots_ids src) F (vtok y) Hb Hf) as (h1 & -> & Hb1 & Hf1).
      { intros z. pose proof (slot_split z (lslots td) n y Hn Hy). cnorm. lia. }
      rb. destruct (bal_free h1 _ (opt_ids (vtok x) ++ opt_ids (stor td) ++ [ktok y] ++ slots_ids (set_slot (lslots td) n None) ++ slots_ids src) F (ktok x) Hb1 Hf1) as (h2 & -> & Hb2 & Hf2).
      { intros z. cnorm. lia. }
      rb. apply IH; auto.
      * eapply bal_perm; [exact Hb2|]. intros z.
        pose proof (cnt_set_slot_from_none z (lslots td) n (Some (mkLI (lkey y) (ktok y) (vtok x))) Hn) as Hc. cnorm. lia.
      * apply wf_keep. exact Hs.
    + apply IH; auto.
      * eapply bal_perm; [exact Hb|]. intros z. cnorm. lia.
      * apply wf_keep. exact Hs.
  - apply IH; auto. destruct Hs as [Hs|Hs]; [auto|discriminate].
Qed.

Lemma merge_pre h ti tj g F : bal h (table_ids ti) F -> fresh h -> table_wf ti -> table_wf tj ->
  exists h1 t1, (if merge_grows ti tj g then l_resize h ti else Ok (h, ti)) = Ok (h1, t1) /\
     bal h1 (table_ids t1) F /\ fresh h1 /\ table_wf t1 /\ (stor t1 <> None \/ lslots tj = []).
Proof.
  intros Hb Hf Hwi Hwj. destruct (merge_grows ti tj g) eqn:E.
  - destruct (l_resize_ok h ti F Hb Hf) as ((h1 & t1 & Er & Hb1 & Hf1 & Hw1) & Hs). exists h1, t1.
    split; [exact Er|]. repeat split; auto. left. eapply Hs; eauto.
  - exists h, ti. split; [reflexivity|]. repeat split; auto.
    unfold merge_grows in E. apply orb_false_iff in E. destruct E as (_ & E). apply andb_false_iff in E.
    unfold no_stor, no_slots in E. destruct (stor ti); [left; discriminate|]. destruct (lslots tj); [right; reflexivity|].
    destruct E; discriminate.
Qed.

Lemma l_merge_copy_ok ce h ti tj g F : bal h (table_ids ti ++ table_ids tj) F -> fresh h -> table_wf ti -> table_wf tj ->
  good2 F tj (l_merge_copy ce h ti tj g).
Proof.
  intros Hb Hf Hwi Hwj. unfold l_merge_copy. rewrite (touch_table' h tj _ F Hb). rb.
  assert (Hb' : bal h (table_ids ti) (fun x => cnt x (table_ids tj) + F x)).
  { intros x. specialize (Hb x). rewrite cnt_app in Hb. lia. }
  destruct (merge_pre h ti tj g _ Hb' Hf Hwi Hwj) as (h1 & t1 & -> & Hb1 & Hf1 & Hw1 & Hs1). rb. cbn [fst snd].
  destruct (l_merge_copy_loop_ok ce (lslots tj) h1 t1 _ Hb1 Hf1 Hs1 Hw1) as (h2 & t2 & -> & Hb2 & Hf2 & Hw2).
  exists h2, t2. split; [reflexivity|]. split; [|auto].
  intros x. specialize (Hb2 x). rewrite cnt_app. simpl in Hb2. lia.
Qed.

Lemma l_merge_move_ok h ti tj g F : bal h (table_ids ti ++ table_ids tj) F -> fresh h -> table_wf ti -> table_wf tj ->
  good2 F ltable0 (l_merge_move h ti tj g).
Proof.
  intros Hb Hf Hwi Hwj. unfold l_merge_move, l_merge_move_gen. rewrite (touch_table' h tj _ F Hb). rb.
  assert (Hb' : bal h (table_ids ti) (fun x => cnt x (table_ids tj) + F x)).
  { intros x. specialize (Hb x). rewrite cnt_app in Hb. lia. }
  destruct (merge_pre h ti tj g _ Hb' Hf Hwi Hwj) as (h1 & t1 & -> & Hb1 & Hf1 & Hw1 & Hs1). rb. cbn [fst snd].
  assert (Hb1' : bal h1 (table_ids t1 ++ slots_ids (lslots tj)) (fun x => cnt x (opt_ids (stor tj)) + F x)).
  { intros x. specialize (Hb1 x). simpl in Hb1. unfold table_ids in Hb1 at 2. rewrite !cnt_app in *. lia. }
  destruct (l_merge_move_loop_ok (lslots tj) h1 t1 _ Hb1' Hf1 Hs1 Hw1) as (h2 & t2 & -> & Hb2 & Hf2 & Hw2). rb. cbn [fst snd].
  destruct (bal_free_opt h2 (opt_ids (stor tj) ++ table_ids t2) (table_ids t2) F (stor tj)) as (h3 & -> & Hb3 & Hf3); auto.
  { apply bal_shift. exact Hb2. }
  { intros x. apply cnt_app. }
  rb. exists h3, t2. split; [reflexivity|]. split; [|auto].
  eapply bal_perm; [exact Hb3|]. intros x. cnorm. lia.
Qed.
