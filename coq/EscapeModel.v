(* EscapeModel.v -- executable model of StringUtils::EscapeHTMLSpecialChars
   (Include/StringUtils.hpp) and the specification-side decoder.  Definitions
   only; the proofs live in EscapeProofs.v so that the model still builds and
   extracts when a proof breaks.

   Code units are [N].  The entity strings, their declared lengths, the
   semicolon character and the auto-escape switch come from gen/Tables.v, which
   is regenerated from the headers of the current tree on every run. *)
From Coq Require Import NArith List Bool.
From Qv Require Import gen.Tables.
Import ListNotations.
Local Open Scope N_scope.

Definition ch_amp  : N := 38.  (* ampersand *)
Definition ch_lt   : N := 60.  (* less-than *)
Definition ch_gt   : N := 62.  (* greater-than *)
Definition ch_quot : N := 34.  (* double quote *)
Definition ch_apos : N := 39.  (* single quote *)

Fixpoint list_eqb (a b : list N) : bool :=
  match a, b with
  | [], [] => true
  | x :: a', y :: b' => N.eqb x y && list_eqb a' b'
  | _, _ => false
  end.

(* (rem_length > k) && (n_str[k] == c) *)
Definition nth_is (s : list N) (k : nat) (c : N) : bool :=
  match nth_error s k with Some x => N.eqb x c | None => false end.

(* StringUtils::IsEqual(n_str, ENT, k): the first k units of both agree.  Only
   used under nth_is s k _, i.e. when s has more than k units. *)
Definition pfx_eq (k : nat) (s ent : list N) : bool :=
  list_eqb (firstn k s) (firstn k ent).

(* What stream.Write(ENT, ENTLength) appends: the first ENTLength units. *)
Definition wr (ent : list N) (len : N) : list N := firstn (N.to_nat len) ent.

Section Width.
  (* one instance per character width; see the four instances below *)
  Variables (e_amp e_lt e_gt e_quot e_apos : list N).
  Variables (l_amp l_lt l_gt l_quot l_apos : N).
  Variable semi : N.

  (* [esc skip s]: the text appended for the remaining input [s]; [skip] is the
     number of units still to be copied unchanged because the scanner jumped
     over a recognised entity (index += 6/5/4 without flushing: the units stay
     in the pending range [offset, index) and are written verbatim later). *)
  Fixpoint esc (skip : nat) (s : list N) : list N :=
    match s with
    | [] => []
    | c :: t =>
      match skip with
      | S k => c :: esc k t
      | O =>
        if N.eqb c ch_amp then
          if nth_is s 5 semi && (pfx_eq 5 s e_quot || pfx_eq 5 s e_apos) then c :: esc 5 t
          else if nth_is s 4 semi && pfx_eq 4 s e_amp then c :: esc 4 t
          else if nth_is s 3 semi && (pfx_eq 3 s e_lt || pfx_eq 3 s e_gt) then c :: esc 3 t
          else wr e_amp l_amp ++ esc 0 t
        else if N.eqb c ch_lt then wr e_lt l_lt ++ esc 0 t
        else if N.eqb c ch_gt then wr e_gt l_gt ++ esc 0 t
        else if N.eqb c ch_quot then wr e_quot l_quot ++ esc 0 t
        else if N.eqb c ch_apos then wr e_apos l_apos ++ esc 0 t
        else c :: esc 0 t
      end
    end.

  Definition escape_on (s : list N) : list N := esc 0 s.
End Width.

Definition escape_c8 := escape_on html_amp_c8 html_lt_c8 html_gt_c8 html_quot_c8 html_apos_c8
  html_amp_len_c8 html_lt_len_c8 html_gt_len_c8 html_quot_len_c8 html_apos_len_c8 html_semicolon_c8.
Definition escape_c16 := escape_on html_amp_c16 html_lt_c16 html_gt_c16 html_quot_c16 html_apos_c16
  html_amp_len_c16 html_lt_len_c16 html_gt_len_c16 html_quot_len_c16 html_apos_len_c16 html_semicolon_c16.
Definition escape_c32 := escape_on html_amp_c32 html_lt_c32 html_gt_c32 html_quot_c32 html_apos_c32
  html_amp_len_c32 html_lt_len_c32 html_gt_len_c32 html_quot_len_c32 html_apos_len_c32 html_semicolon_c32.
Definition escape_wc := escape_on html_amp_wc html_lt_wc html_gt_wc html_quot_wc html_apos_wc
  html_amp_len_wc html_lt_len_wc html_gt_len_wc html_quot_len_wc html_apos_len_wc html_semicolon_wc.

(* width selector used by the extracted driver: 0 = char, 1 = char16_t, 2 = char32_t, 3 = wchar_t *)
Definition escape_w (w : N) (s : list N) : list N :=
  match w with
  | 0 => escape_c8 s | 1 => escape_c16 s | 2 => escape_c32 s | _ => escape_wc s
  end.

(* What a {var:} tag emits for a string, and what {raw:} emits.  With
   QENTEM_AUTO_ESCAPE_HTML off the escaper is the identity (the [else] branch). *)
Definition var_text (w : N) (s : list N) : list N :=
  if cfg_auto_escape_html then escape_w w s else s.
Definition raw_text (s : list N) : list N := s.

(* ------------------------------------------------------------------ *)
(* Specification side: the five entities as the HTML standard spells them,
   independent of the headers, and the left-to-right decoder. *)
Definition std_amp  : list N := [38; 97; 109; 112; 59].
Definition std_lt   : list N := [38; 108; 116; 59].
Definition std_gt   : list N := [38; 103; 116; 59].
Definition std_quot : list N := [38; 113; 117; 111; 116; 59].
Definition std_apos : list N := [38; 97; 112; 111; 115; 59].
Definition std_entities : list (list N * N) :=
  [(std_amp, ch_amp); (std_lt, ch_lt); (std_gt, ch_gt); (std_quot, ch_quot); (std_apos, ch_apos)].

Definition is_prefix (p s : list N) : bool := list_eqb (firstn (length p) s) p.

Fixpoint dec (skip : nat) (s : list N) : list N :=
  match s with
  | [] => []
  | c :: t =>
    match skip with
    | S k => dec k t
    | O =>
      if is_prefix std_amp s then ch_amp :: dec 4 t
      else if is_prefix std_lt s then ch_lt :: dec 3 t
      else if is_prefix std_gt s then ch_gt :: dec 3 t
      else if is_prefix std_quot s then ch_quot :: dec 5 t
      else if is_prefix std_apos s then ch_apos :: dec 5 t
      else c :: dec 0 t
    end
  end.
Definition decode (s : list N) : list N := dec 0 s.

Definition special (c : N) : bool :=
  N.eqb c ch_lt || N.eqb c ch_gt || N.eqb c ch_quot || N.eqb c ch_apos.

(* [Safe t]: t is a concatenation of units that are neither special nor '&'
   and of complete standard entities. *)
Inductive Safe : list N -> Prop :=
| Safe_nil : Safe []
| Safe_plain c t : special c = false -> c <> ch_amp -> Safe t -> Safe (c :: t)
| Safe_ent e t : In e (map fst std_entities) -> Safe t -> Safe (e ++ t).

(* boolean oracle used by the correspondence check on the implementation's
   output (decides Safe; proved equivalent in EscapeProofs.v) *)
Fixpoint safeb (skip : nat) (s : list N) : bool :=
  match s with
  | [] => match skip with O => true | _ => false end
  | c :: t =>
    match skip with
    | S k => safeb k t
    | O =>
      if N.eqb c ch_amp then
        if is_prefix std_amp s then safeb 4 t
        else if is_prefix std_lt s then safeb 3 t
        else if is_prefix std_gt s then safeb 3 t
        else if is_prefix std_quot s then safeb 5 t
        else if is_prefix std_apos s then safeb 5 t
        else false
      else if special c then false
      else safeb 0 t
    end
  end.

(* The oracle applied to an implementation output [out] for input [s]. *)
Definition c03_oracle (s out : list N) : bool :=
  safeb 0 out && list_eqb (decode out) (decode s).

(* ------------------------------------------------------------------ *)
(* Routing model: what each text-printing tag position emits for a string
   (Template.hpp: renderVariable, renderRawVariable, renderSuperVariable).
   Used by the correspondence check to tie "every {var:} path goes through
   the escaper" to the code.  [auto] is Config::AutoEscapeHTML: the default
   build takes it from the generated tables, the second build of the driver
   (-DQENTEM_AUTO_ESCAPE_HTML=0) is compared with [auto = false]. *)
Definition ch_lbrace : N := 123.
Definition ch_rbrace : N := 125.
Definition ch_v : N := 118.
Definition ch_zero : N := 48.
Definition src_var_v : list N := [123; 118; 97; 114; 58; 118; 125].       (* the tag text "{var:v}" *)
Definition src_var_open : list N := [123; 118; 97; 114; 58].              (* "{var:" *)
Definition pre_stream : list N := [60; 38; 62].

Definition var_text_cfg (auto : bool) (w : N) (s : list N) : list N :=
  if auto then escape_w w s else s.

Section Routing.
  Variable auto : bool.
  Variable w : N.
  Let vt := var_text_cfg auto w.

  (* renderSuperVariable's scan of the phrase [s]: [pend] is the pending piece
     (reversed), [nodet] the number of following units the scanner steps over
     without testing them for an opening brace.  [subs] are the renderings of
     the sub tags.  Every piece goes through the escaper separately. *)
  Fixpoint svar_go (subs : list (list N)) (s pend : list N) (nodet : nat) : list N :=
    match s with
    | [] => vt (rev pend)
    | c :: t =>
      match nodet with
      | S k => svar_go subs t (c :: pend) k
      | O =>
        if N.eqb c ch_lbrace then
          vt (rev pend) ++
          match t with
          | d :: c2 :: t' =>
            if N.eqb c2 ch_rbrace then
              if N.leb ch_zero d && N.ltb (d - ch_zero) (N.of_nat (length subs))
              then nth (N.to_nat (d - ch_zero)) subs [] ++ svar_go subs t' [] 0
              else svar_go subs t [c] 3
            else svar_go subs t [c] 2
          | _ => svar_go subs t [c] 2
          end
        else svar_go subs t (c :: pend) 0
      end
    end.

  (* kinds as in cpp/drv_escape.cpp *)
  Definition c03_emit_cfg (kind : N) (s : list N) : list N :=
    match kind with
    | 0 => vt s
    | 1 => vt s
    | 2 => raw_text s
    | 3 => match s with [] => vt src_var_v | _ => vt s end
    | 4 => svar_go [vt s] s [] 0
    | 5 => vt (src_var_open ++ s ++ [ch_rbrace])
    | 6 => pre_stream ++ vt s
    | 7 | 8 => vt s                 (* the string reached through a pointer-to-value *)
    | 10 => vt (src_var_open ++ [ch_v] ++ s ++ [ch_rbrace])   (* a loop variable that does not resolve, item without key: echoed *)
    | _ => raw_text s               (* 9: {raw:} through a pointer *)
    end.

  (* the specification oracle per kind, applied to the implementation's output *)
  Definition c03_oracle_cfg (kind : N) (s out : list N) : bool :=
    if auto then
      match kind with
      | 0 | 1 => c03_oracle s out
      | 2 => list_eqb out s
      | 3 => match s with [] => c03_oracle src_var_v out | _ => c03_oracle s out end
      | 4 => safeb 0 out
      | 5 => c03_oracle (src_var_open ++ s ++ [ch_rbrace]) out
      | 6 => list_eqb (firstn 3 out) pre_stream && c03_oracle s (skipn 3 out)
      | 7 | 8 => c03_oracle s out
      | 10 => c03_oracle (src_var_open ++ [ch_v] ++ s ++ [ch_rbrace]) out
      | _ => list_eqb out s
      end
    else
      match kind with
      | 3 => match s with [] => list_eqb out src_var_v | _ => list_eqb out s end
      | 4 => true
      | 5 => list_eqb out (src_var_open ++ s ++ [ch_rbrace])
      | 10 => list_eqb out (src_var_open ++ [ch_v] ++ s ++ [ch_rbrace])
      | 6 => list_eqb out (pre_stream ++ s)
      | _ => list_eqb out s
      end.
End Routing.

(* auto: 0 = configured off, 1 = configured on, 2 = as the generated tables say *)
Definition auto_of (a : N) : bool :=
  match a with 0 => false | 1 => true | _ => cfg_auto_escape_html end.
Definition c03_emit (a kind w : N) (s : list N) : list N := c03_emit_cfg (auto_of a) w kind s.
Definition c03_oracle_kind (a kind w : N) (s out : list N) : bool := c03_oracle_cfg (auto_of a) kind s out.
