(* Extract_tparse.v -- extraction of the template parser model (ExtrOcamlBasic only). *)
From Coq Require Import Extraction ExtrOcamlBasic NArith ZArith.
From Qv Require Import TparseModel.
Extraction Language OCaml.
Set Extraction Optimize.
Extraction "model_tparse.ml"
  N.add N.mul N.sub N.div_eucl N.compare Z.add Z.mul Z.sub Z.div_eucl Z.compare Z.of_N Z.to_N Z.opp
  TparseModel.parse_model TparseModel.tree_okb.
