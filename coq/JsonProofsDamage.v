(* JsonProofsDamage.v -- C07: a printed container document in which ONE closing bracket is replaced
   by the other kind, or ONE separator (comma or colon) is blanked, is rejected.
   [Dmg w c t]: [t] is the text of the well-formed tree [c] with exactly one such damage, anywhere
   in the tree.  The reader fails at the damaged place and the failure reaches the top (D2). *)
From Coq Require Import NArith ZArith List Bool Lia.
From Qv Require Import gen.Tables_json JsonModel JsonSpec JsonProofsBase JsonProofsStr JsonProofsNum JsonProofsParse
  JsonProofsComplete JsonProofsDoc JsonProofsCst JsonProofsInt JsonProofsC06 JsonProofsPrefix.
Import ListNotations.
Local Open Scope N_scope.

Section Damage.
Variable w : N.

Definition iok (it : list N * cval * list N) : Prop :=
  match it with (wb, x, wa) => ws_wf wb = true /\ ws_wf wa = true /\ cval_wf w x = true /\ reals_ok x end.
Definition mok (m : list N * list cchar * list N * list N * cval * list N) : Prop :=
  match m with (wb, k, w1, w2, x, wa) =>
    ws_wf wb = true /\ forallb (cchar_wf w) k = true /\ ws_wf w1 = true /\ ws_wf w2 = true /\ ws_wf wa = true /\
    cval_wf w x = true /\ reals_ok x end.

(* what follows an item / a member: the closing bracket, or a comma and the remaining ones *)
Definition arr_tail (l : list (list N * cval * list N)) : list N :=
  match l with [] => [jc_esquare] | _ => jc_comma :: items_text w l ++ [jc_esquare] end.
Definition obj_tail (l : list (list N * list cchar * list N * list N * cval * list N)) : list N :=
  match l with [] => [jc_ecurly] | _ => jc_comma :: members_text w l ++ [jc_ecurly] end.

Inductive Dmg : cval -> list N -> Prop :=
| D_arr_empty_swap w0 : ws_wf w0 = true -> Dmg (CArr w0 []) (jc_ssquare :: w0 ++ [jc_ecurly])
| D_arr w0 items t : ws_wf w0 = true -> DArr items t -> Dmg (CArr w0 items) (jc_ssquare :: w0 ++ t)
| D_obj_empty_swap w0 : ws_wf w0 = true -> Dmg (CObj w0 []) (jc_scurly :: w0 ++ [jc_esquare])
| D_obj w0 ms t : ws_wf w0 = true -> DObj ms t -> Dmg (CObj w0 ms) (jc_scurly :: w0 ++ t)
with DArr : list (list N * cval * list N) -> list N -> Prop :=
| DA_swap wb x wa :                     (* the closing bracket of this array becomes a brace *)
    iok (wb, x, wa) -> DArr [(wb, x, wa)] (wb ++ cprint w x ++ wa ++ [jc_ecurly])
| DA_blank wb x wa it2 l :              (* the comma after this element becomes a space *)
    iok (wb, x, wa) -> iok it2 ->
    DArr ((wb, x, wa) :: it2 :: l) (wb ++ cprint w x ++ wa ++ ws_space :: items_text w (it2 :: l) ++ [jc_esquare])
| DA_child wb x wa tx l :               (* the damage is inside this element *)
    ws_wf wb = true -> Dmg x tx -> DArr ((wb, x, wa) :: l) (wb ++ tx ++ wa ++ arr_tail l)
| DA_later it it2 l t :                 (* the damage is further right *)
    iok it -> DArr (it2 :: l) t -> DArr (it :: it2 :: l) (item_text w it ++ jc_comma :: t)
with DObj : list (list N * list cchar * list N * list N * cval * list N) -> list N -> Prop :=
| DO_swap wb k w1 w2 x wa :             (* the closing brace of this object becomes a bracket *)
    mok (wb, k, w1, w2, x, wa) -> DObj [(wb, k, w1, w2, x, wa)] (member_text w (wb, k, w1, w2, x, wa) ++ [jc_esquare])
| DO_colon wb k w1 w2 x wa l :          (* the colon of this member becomes a space *)
    mok (wb, k, w1, w2, x, wa) ->
    DObj ((wb, k, w1, w2, x, wa) :: l) (wb ++ cstr_print w k ++ w1 ++ ws_space :: w2 ++ cprint w x ++ wa ++ obj_tail l)
| DO_comma wb k w1 w2 x wa wb2 k2 w12 w22 x2 wa2 l :   (* the comma after this member becomes a space *)
    mok (wb, k, w1, w2, x, wa) -> ws_wf wb2 = true ->
    DObj ((wb, k, w1, w2, x, wa) :: (wb2, k2, w12, w22, x2, wa2) :: l)
         (member_text w (wb, k, w1, w2, x, wa) ++ ws_space :: members_text w ((wb2, k2, w12, w22, x2, wa2) :: l) ++ [jc_ecurly])
| DO_child wb k w1 w2 x wa tx l :       (* the damage is inside this member's value *)
    ws_wf wb = true -> forallb (cchar_wf w) k = true -> ws_wf w1 = true -> ws_wf w2 = true -> Dmg x tx ->
    DObj ((wb, k, w1, w2, x, wa) :: l) (wb ++ cstr_print w k ++ w1 ++ [jc_colon] ++ w2 ++ tx ++ wa ++ obj_tail l)
| DO_later m m2 l t :
    mok m -> DObj (m2 :: l) t -> DObj (m :: m2 :: l) (member_text w m ++ jc_comma :: t).

Scheme Dmg_mind := Minimality for Dmg Sort Prop
  with DArr_mind := Minimality for DArr Sort Prop
  with DObj_mind := Minimality for DObj Sort Prop.
Combined Scheme Dmg_mutind from Dmg_mind, DArr_mind, DObj_mind.

Hypothesis Hstr : str_ok_stmt w.

(* the first unit of a value *)
Lemma val_head_class : forall r v r', Val w r v r' ->
  exists c t, r = c :: t /\ is_ws c = false /\ (c =? jc_comma) = false /\ (c =? jc_colon) = false /\
              (c =? jc_esquare) = false /\ (c =? jc_ecurly) = false.
Proof.
  intros r v r' H. destruct H; try (eexists; eexists; split; [reflexivity|repeat split; reflexivity]).
  exists c, t. split; [reflexivity|].
  assert (Hn : n <> NumNaN) by (intros E; subst n; discriminate).
  pose proof (scan_first c t n H0 Hn) as Hc.
  repeat (apply orb_true_iff in Hc; destruct Hc as [Hc|Hc]); try (apply N.eqb_eq in Hc; subst c; repeat split; reflexivity).
  unfold is_dig19 in Hc. apply andb_true_iff in Hc. destruct Hc as [Hd1 Hd2]. apply N.ltb_lt in Hd1. apply N.leb_le in Hd2.
  change dc_zero with 48 in Hd1. change dc_nine with 57 in Hd2.
  repeat split; try (apply N.eqb_neq; change jc_comma with 44; change jc_colon with 58; change jc_esquare with 93; change jc_ecurly with 125; lia).
  unfold is_ws. change ws_space with 32. change ws_line with 10. change ws_tab with 9. change ws_cr with 13.
  repeat (apply orb_false_iff; split); apply N.eqb_neq; lia.
Qed.

Lemma full_val : forall x y f, cval_wf w x = true -> reals_ok x -> num_follow y = true ->
  (2 * (length (cprint w x) + length y) < f)%nat ->
  pval f w [] (cprint w x ++ y) = JOk (cdenote w x, y, []).
Proof.
  intros x y f Hw Hr Hy Hf. apply val_pval.
  - apply (cst_val w Hstr nat_ok neg_ok (S (csize x)) x (Nat.lt_succ_diag_r _) Hw Hr). right. exact Hy.
  - rewrite app_length. lia.
Qed.

Lemma head_of_val : forall x y, cval_wf w x = true -> reals_ok x ->
  exists c t, cprint w x ++ y = c :: t /\ is_ws c = false /\ (c =? jc_comma) = false /\ (c =? jc_colon) = false /\
              (c =? jc_esquare) = false /\ (c =? jc_ecurly) = false.
Proof.
  intros x y Hw Hr.
  pose proof (cst_val w Hstr nat_ok neg_ok (S (csize x)) x (Nat.lt_succ_diag_r _) Hw Hr [] (or_intror eq_refl)) as Hv.
  rewrite app_nil_r in Hv. destruct (val_head_class _ _ _ Hv) as (c & t & E & H).
  exists c, (t ++ y). rewrite E. split; [reflexivity|exact H].
Qed.

(* damaged texts begin with their opening bracket *)
Lemma dmg_head : forall x t, Dmg x t -> exists c r, t = c :: r /\ is_ws c = false /\ (c =? jc_esquare) = false /\ (c =? jc_ecurly) = false /\ (c =? jc_comma) = false /\ (c =? jc_colon) = false.
Proof. intros x t H. destruct H; eexists; eexists; (split; [reflexivity|repeat split; reflexivity]). Qed.

Lemma trim_to_val : forall ws x Y, ws_wf ws = true -> cval_wf w x = true -> reals_ok x ->
  trim (ws ++ cprint w x ++ Y) = cprint w x ++ Y.
Proof.
  intros ws x Y Hws Hw Hr. destruct (head_of_val x Y Hw Hr) as (c & t & E & Hc & _). rewrite E.
  apply trim_ws_then; assumption.
Qed.

Lemma trim_to_dmg : forall ws x tx Y, Dmg x tx -> ws_wf ws = true -> trim (ws ++ tx ++ Y) = tx ++ Y.
Proof.
  intros ws x tx Y Hd Hws. destruct (dmg_head x tx Hd) as (c & r & E & Hc & _). rewrite E. cbn [app].
  apply trim_ws_then; assumption.
Qed.

Lemma follow_ws_then : forall wa c z, ws_wf wa = true ->
  (is_ws c || (c =? jc_comma) || (c =? jc_esquare) || (c =? jc_ecurly)) = true -> num_follow (wa ++ c :: z) = true.
Proof.
  intros wa c z Hwa Hc. destruct wa as [|a wa]; cbn [app num_follow]; [exact Hc|].
  cbn in Hwa. apply andb_true_iff in Hwa. destruct Hwa as [Ha _]. rewrite Ha. reflexivity.
Qed.

Lemma scan_nan_ecurly : forall y, scan_number (jc_ecurly :: y) = JOk NumNaN.
Proof. reflexivity. Qed.
Lemma scan_nan_esquare : forall y, scan_number (jc_esquare :: y) = JOk NumNaN.
Proof. reflexivity. Qed.

Lemma items_text_head : forall wb x wa l R, exists Z, items_text w ((wb, x, wa) :: l) ++ R = wb ++ cprint w x ++ Z.
Proof. intros. destruct l; cbn [items_text item_text]; eexists; repeat (rewrite <- !app_assoc; cbn [app]); reflexivity. Qed.

Lemma members_text_head : forall wb k w1 w2 x wa l R, exists Z, members_text w ((wb, k, w1, w2, x, wa) :: l) ++ R = wb ++ jc_quote :: Z.
Proof. intros. destruct l; cbn [members_text member_text]; unfold cstr_print; eexists; repeat (rewrite <- !app_assoc; cbn [app]); reflexivity. Qed.

Definition P_dmg (x : cval) (t : list N) : Prop :=
  forall y f, (2 * (length t + length y) + 2 < f)%nat -> failres (pval f w [] (t ++ y)).
Definition P_arr (items : list (list N * cval * list N)) (t : list N) : Prop :=
  forall pre acc y f, ws_wf pre = true -> (2 * (length pre + length t + length y) + 3 < f)%nat ->
    (exists c r, trim (pre ++ t ++ y) = c :: r /\ (c =? jc_esquare) = false) /\
    failres (arr_loop f w acc [] (trim (pre ++ t ++ y))).
Definition P_obj (ms : list (list N * list cchar * list N * list N * cval * list N)) (t : list N) : Prop :=
  forall pre acc y f, ws_wf pre = true -> (2 * (length pre + length t + length y) + 3 < f)%nat ->
    (exists r, trim (pre ++ t ++ y) = jc_quote :: r) /\
    failres (obj_loop f w acc [] (trim (pre ++ t ++ y))).

Ltac len_eq Etxt :=
  let HL := fresh "HL" in
  pose proof (f_equal (@length N) Etxt) as HL;
  repeat (rewrite ?app_length in HL; cbn [length] in HL);
  repeat (rewrite ?app_length; cbn [length]); lia.

Lemma app_len3 : forall (a b c : list N), length (a ++ b ++ c) = (length a + length b + length c)%nat.
Proof. intros. rewrite !app_length. lia. Qed.

Lemma dmg_arr_cases : (forall x t, Dmg x t -> P_dmg x t) /\ (forall l t, DArr l t -> P_arr l t) /\ (forall l t, DObj l t -> P_obj l t).
Proof.
  apply Dmg_mutind.
  - (* [} *)
    intros w0 Hw0 y f Hf. cbn [app length] in *. rewrite app_length in Hf. cbn [length] in Hf.
    destruct f as [|[|[|f]]]; try lia.
    cbn [pval has negb rd bind adv]. change (jc_ssquare =? jc_scurly) with false. rewrite N.eqb_refl. cbn iota.
    rewrite <- app_assoc. cbn [app]. rewrite trim_ws_then by (try assumption; reflexivity).
    cbn [has negb rd bind]. change (jc_ecurly =? jc_esquare) with false. cbn iota.
    rewrite arr_loop_eq. cbn [has]. cbn [pval has negb rd bind].
    change (jc_ecurly =? jc_scurly) with false. change (jc_ecurly =? jc_ssquare) with false. change (jc_ecurly =? jc_quote) with false.
    change (jc_ecurly =? jc_t) with false. change (jc_ecurly =? jc_f) with false. change (jc_ecurly =? jc_n) with false. cbn iota.
    rewrite scan_nan_ecurly. cbn [bind pfail trim has]. apply failres_pfail.
  - (* array with damaged items *)
    intros w0 items t Hw0 Hd IH y f Hf. cbn [app length] in *. rewrite app_length in Hf.
    destruct f as [|f]; [lia|].
    cbn [pval has negb rd bind adv]. change (jc_ssquare =? jc_scurly) with false. rewrite N.eqb_refl. cbn iota.
    rewrite <- app_assoc.
    destruct (IH w0 [] y f Hw0 ltac:(lia)) as [(c & r & Et & Hc) Hfail].
    rewrite Et in *. cbn [has negb rd bind]. rewrite Hc. cbn [bind]. exact Hfail.
  - (* {] *)
    intros w0 Hw0 y f Hf. cbn [app length] in *. rewrite app_length in Hf. cbn [length] in Hf.
    destruct f as [|[|f]]; try lia.
    cbn [pval has negb rd bind adv]. rewrite N.eqb_refl. cbn iota.
    rewrite <- app_assoc. cbn [app]. rewrite trim_ws_then by (try assumption; reflexivity).
    cbn [has negb rd bind]. change (jc_esquare =? jc_ecurly) with false. cbn iota.
    rewrite obj_loop_eq. cbn [has rd bind]. change (jc_esquare =? jc_quote) with false. cbn [bind]. apply failres_pfail.
  - (* object with damaged members *)
    intros w0 ms t Hw0 Hd IH y f Hf. cbn [app length] in *. rewrite app_length in Hf.
    destruct f as [|f]; [lia|].
    cbn [pval has negb rd bind adv]. rewrite N.eqb_refl. cbn iota.
    rewrite <- app_assoc.
    destruct (IH w0 [] y f Hw0 ltac:(lia)) as [(r & Et) Hfail].
    rewrite Et in *. cbn [has negb rd bind]. change (jc_quote =? jc_ecurly) with false. cbn [bind]. exact Hfail.
  - (* DA_swap *)
    intros wb x wa (Hwb & Hwa & Hwx & Hrx) pre acc y f Hpre Hf.
    assert (Etxt : pre ++ (wb ++ cprint w x ++ wa ++ [jc_ecurly]) ++ y = (pre ++ wb) ++ cprint w x ++ wa ++ jc_ecurly :: y)
      by (repeat (rewrite <- !app_assoc; cbn [app]); reflexivity).
    rewrite Etxt. rewrite trim_to_val by (try apply ws_wf_app; assumption).
    destruct (head_of_val x (wa ++ jc_ecurly :: y) Hwx Hrx) as (c & r & E & _ & _ & _ & Hc & _).
    split; [rewrite E; eauto|].
    rewrite !app_length in Hf. cbn [length] in Hf.
    destruct f as [|f]; [lia|]. rewrite arr_loop_eq. rewrite E at 1. cbn [has].
    rewrite full_val; [|assumption|assumption|apply follow_ws_then; [assumption|rewrite N.eqb_refl; rewrite ?orb_true_r; reflexivity]|rewrite app_length; cbn [length]; lia].
    cbn [bind]. rewrite trim_ws_then by (try assumption; reflexivity). cbn [has rd bind].
    change (jc_ecurly =? jc_comma) with false. change (jc_ecurly =? jc_esquare) with false. cbn iota. apply failres_pfail.
  - (* DA_blank *)
    intros wb x wa [[wb2 x2] wa2] l (Hwb & Hwa & Hwx & Hrx) (Hwb2 & Hwa2 & Hwx2 & Hrx2) pre acc y f Hpre Hf.
    destruct (items_text_head wb2 x2 wa2 l ([jc_esquare] ++ y)) as [Z EZ].
    assert (Etxt : pre ++ (wb ++ cprint w x ++ wa ++ ws_space :: items_text w ((wb2, x2, wa2) :: l) ++ [jc_esquare]) ++ y
                   = (pre ++ wb) ++ cprint w x ++ (wa ++ [ws_space] ++ wb2) ++ cprint w x2 ++ Z).
    { replace ((wa ++ [ws_space] ++ wb2) ++ cprint w x2 ++ Z) with (wa ++ [ws_space] ++ (wb2 ++ cprint w x2 ++ Z))
        by (repeat (rewrite <- !app_assoc; cbn [app]); reflexivity).
      rewrite <- EZ. repeat (rewrite <- !app_assoc; cbn [app]). reflexivity. }
    rewrite Etxt. rewrite trim_to_val by (try apply ws_wf_app; assumption).
    set (Y := (wa ++ [ws_space] ++ wb2) ++ cprint w x2 ++ Z).
    destruct (head_of_val x Y Hwx Hrx) as (c & r & E & _ & _ & _ & Hc & _).
    split; [rewrite E; eauto|].
    assert (Hlen : (length (cprint w x) + length Y <= length pre + length (wb ++ cprint w x ++ wa ++ ws_space :: items_text w ((wb2, x2, wa2) :: l) ++ [jc_esquare]) + length y)%nat).
    { unfold Y. len_eq Etxt. }
    destruct f as [|f]; [lia|]. rewrite arr_loop_eq. rewrite E at 1. cbn [has].
    assert (HwsY : ws_wf (wa ++ [ws_space] ++ wb2) = true) by (repeat apply ws_wf_app; try assumption; reflexivity).
    rewrite full_val; [|assumption|assumption| |lia].
    2:{ unfold Y. destruct (head_of_val x2 Z Hwx2 Hrx2) as (c2 & r2 & E2 & _). rewrite E2.
        destruct (wa ++ [ws_space] ++ wb2) as [|a q] eqn:Eq; [destruct wa; discriminate|].
        cbn [app num_follow]. cbn in HwsY. apply andb_true_iff in HwsY. destruct HwsY as [Ha _]. rewrite Ha. reflexivity. }
    cbn [bind]. unfold Y. rewrite trim_to_val by assumption.
    destruct (head_of_val x2 Z Hwx2 Hrx2) as (c2 & r2 & E2 & _ & Hc2a & _ & Hc2b & _). rewrite E2. cbn [has rd bind].
    rewrite Hc2a, Hc2b. apply failres_pfail.
  - (* DA_child *)
    intros wb x wa tx l Hwb Hd IH pre acc y f Hpre Hf.
    assert (Etxt : pre ++ (wb ++ tx ++ wa ++ arr_tail l) ++ y = (pre ++ wb) ++ tx ++ (wa ++ arr_tail l ++ y))
      by (repeat (rewrite <- !app_assoc; cbn [app]); reflexivity).
    rewrite Etxt. rewrite (trim_to_dmg _ x) by (try apply ws_wf_app; assumption).
    destruct (dmg_head x tx Hd) as (c & r & E & _ & Hc & _).
    split; [rewrite E; cbn [app]; eauto|].
    rewrite !app_length in Hf.
    destruct f as [|f]; [lia|].
    assert (Hb : (2 * (length tx + length (wa ++ arr_tail l ++ y)) + 2 < f)%nat) by (rewrite !app_length; clear -Hf; lia).
    rewrite arr_loop_eq. rewrite E at 1. cbn [app has].
    destruct (IH (wa ++ arr_tail l ++ y) f Hb) as [st Ep]. rewrite Ep.
    cbn [bind trim has]. apply failres_pfail.
  - (* DA_later *)
    intros [[wb x] wa] it2 l t (Hwb & Hwa & Hwx & Hrx) Hd IH pre acc y f Hpre Hf.
    assert (Etxt : pre ++ (item_text w (wb, x, wa) ++ jc_comma :: t) ++ y = (pre ++ wb) ++ cprint w x ++ wa ++ jc_comma :: t ++ y)
      by (cbn [item_text]; repeat (rewrite <- !app_assoc; cbn [app]); reflexivity).
    rewrite Etxt. rewrite trim_to_val by (try apply ws_wf_app; assumption).
    destruct (head_of_val x (wa ++ jc_comma :: t ++ y) Hwx Hrx) as (c & r & E & _ & _ & _ & Hc & _).
    split; [rewrite E; eauto|].
    cbn [item_text] in Hf. rewrite !app_length in Hf. cbn [length] in Hf.
    destruct f as [|f]; [lia|]. rewrite arr_loop_eq. rewrite E at 1. cbn [has].
    rewrite full_val; [|assumption|assumption|apply follow_ws_then; [assumption|rewrite N.eqb_refl; rewrite ?orb_true_r; reflexivity]|rewrite !app_length; cbn [length]; rewrite app_length; lia].
    cbn [bind]. rewrite trim_ws_then by (try assumption; reflexivity). cbn [has rd bind adv]. rewrite N.eqb_refl. cbn [bind].
    change (t ++ y) with ([] ++ t ++ y).
    apply (IH [] (acc ++ [cdenote w x]) y f eq_refl). cbn [length]. lia.
  - (* DO_swap *)
    intros wb k w1 w2 x wa (Hwb & Hk & Hw1 & Hw2 & Hwa & Hwx & Hrx) pre acc y f Hpre Hf.
    pose proof (Hstr k Hk) as HS. set (body := flat_map (cchar_print w) k) in *.
    assert (Etxt : pre ++ (member_text w (wb, k, w1, w2, x, wa) ++ [jc_esquare]) ++ y
                   = (pre ++ wb) ++ jc_quote :: body ++ jc_quote :: (w1 ++ jc_colon :: (w2 ++ cprint w x ++ wa ++ jc_esquare :: y))).
    { cbn [member_text]. unfold cstr_print, body. repeat (rewrite <- !app_assoc; cbn [app]). reflexivity. }
    rewrite Etxt. rewrite trim_ws_then by (try apply ws_wf_app; try assumption; reflexivity).
    split; [eauto|].
    assert (Hlen : (length body + length w1 + length w2 + length (cprint w x) + length wa + length y + 4 <= length pre + length (member_text w (wb, k, w1, w2, x, wa) ++ [jc_esquare]) + length y)%nat).
    { len_eq Etxt. }
    destruct f as [|f]; [lia|]. rewrite obj_loop_eq. cbn [has rd bind adv]. rewrite N.eqb_refl. cbn [bind].
    rewrite (pstring_complete w body _ _ HS). cbn [bind].
    rewrite trim_ws_then by (try assumption; reflexivity). cbn [has rd bind adv]. rewrite N.eqb_refl. cbn [bind].
    rewrite trim_to_val by assumption.
    rewrite full_val; [|assumption|assumption|apply follow_ws_then; [assumption|rewrite N.eqb_refl; rewrite ?orb_true_r; reflexivity]|rewrite app_length; cbn [length]; lia].
    cbn [bind]. rewrite trim_ws_then by (try assumption; reflexivity). cbn [has rd bind].
    change (jc_esquare =? jc_comma) with false. change (jc_esquare =? jc_ecurly) with false. cbn iota. apply failres_pfail.
  - (* DO_colon *)
    intros wb k w1 w2 x wa l (Hwb & Hk & Hw1 & Hw2 & Hwa & Hwx & Hrx) pre acc y f Hpre Hf.
    pose proof (Hstr k Hk) as HS. set (body := flat_map (cchar_print w) k) in *.
    assert (Etxt : pre ++ (wb ++ cstr_print w k ++ w1 ++ ws_space :: w2 ++ cprint w x ++ wa ++ obj_tail l) ++ y
                   = (pre ++ wb) ++ jc_quote :: body ++ jc_quote :: ((w1 ++ [ws_space] ++ w2) ++ cprint w x ++ (wa ++ obj_tail l ++ y))).
    { unfold cstr_print, body. repeat (rewrite <- !app_assoc; cbn [app]). reflexivity. }
    rewrite Etxt. rewrite trim_ws_then by (try apply ws_wf_app; try assumption; reflexivity).
    split; [eauto|].
    destruct f as [|f]; [lia|]. rewrite obj_loop_eq. cbn [has rd bind adv]. rewrite N.eqb_refl. cbn [bind].
    rewrite (pstring_complete w body _ _ HS). cbn [bind].
    rewrite trim_to_val by (try (repeat apply ws_wf_app); try assumption; reflexivity).
    destruct (head_of_val x (wa ++ obj_tail l ++ y) Hwx Hrx) as (c & r & E & _ & _ & Hc & _). rewrite E.
    cbn [has rd bind]. rewrite Hc. cbn [bind]. apply failres_pfail.
  - (* DO_comma *)
    intros wb k w1 w2 x wa wb2 k2 w12 w22 x2 wa2 l (Hwb & Hk & Hw1 & Hw2 & Hwa & Hwx & Hrx) Hwb2 pre acc y f Hpre Hf.
    pose proof (Hstr k Hk) as HS. set (body := flat_map (cchar_print w) k) in *.
    destruct (members_text_head wb2 k2 w12 w22 x2 wa2 l ([jc_ecurly] ++ y)) as [Z EZ].
    assert (Etxt : pre ++ (member_text w (wb, k, w1, w2, x, wa) ++ ws_space :: members_text w ((wb2, k2, w12, w22, x2, wa2) :: l) ++ [jc_ecurly]) ++ y
                   = (pre ++ wb) ++ jc_quote :: body ++ jc_quote :: (w1 ++ jc_colon :: (w2 ++ cprint w x ++ ((wa ++ [ws_space] ++ wb2) ++ jc_quote :: Z)))).
    { replace ((wa ++ [ws_space] ++ wb2) ++ jc_quote :: Z) with (wa ++ [ws_space] ++ (wb2 ++ jc_quote :: Z))
        by (repeat (rewrite <- !app_assoc; cbn [app]); reflexivity).
      rewrite <- EZ. cbn [member_text]. unfold cstr_print, body. repeat (rewrite <- !app_assoc; cbn [app]). reflexivity. }
    rewrite Etxt. rewrite trim_ws_then by (try apply ws_wf_app; try assumption; reflexivity).
    split; [eauto|].
    assert (Hlen : (length body + length w1 + length w2 + length (cprint w x) + length ((wa ++ [ws_space] ++ wb2) ++ jc_quote :: Z) + 3 <=
                    length pre + length (member_text w (wb, k, w1, w2, x, wa) ++ ws_space :: members_text w ((wb2, k2, w12, w22, x2, wa2) :: l) ++ [jc_ecurly]) + length y)%nat).
    { len_eq Etxt. }
    assert (HwsY : ws_wf (wa ++ [ws_space] ++ wb2) = true) by (repeat apply ws_wf_app; try assumption; reflexivity).
    destruct f as [|f]; [lia|]. rewrite obj_loop_eq. cbn [has rd bind adv]. rewrite N.eqb_refl. cbn [bind].
    rewrite (pstring_complete w body _ _ HS). cbn [bind].
    rewrite trim_ws_then by (try assumption; reflexivity). cbn [has rd bind adv]. rewrite N.eqb_refl. cbn [bind].
    rewrite trim_to_val by assumption.
    rewrite full_val; [|assumption|assumption| |lia].
    2:{ destruct (wa ++ [ws_space] ++ wb2) as [|a q] eqn:Eq; [destruct wa; discriminate|].
        cbn [app num_follow]. cbn in HwsY. apply andb_true_iff in HwsY. destruct HwsY as [Ha _]. rewrite Ha. reflexivity. }
    cbn [bind]. rewrite trim_ws_then by (try assumption; reflexivity). cbn [has rd bind].
    change (jc_quote =? jc_comma) with false. change (jc_quote =? jc_ecurly) with false. cbn iota. apply failres_pfail.
  - (* DO_child *)
    intros wb k w1 w2 x wa tx l Hwb Hk Hw1 Hw2 Hd IH pre acc y f Hpre Hf.
    pose proof (Hstr k Hk) as HS. set (body := flat_map (cchar_print w) k) in *.
    assert (Etxt : pre ++ (wb ++ cstr_print w k ++ w1 ++ [jc_colon] ++ w2 ++ tx ++ wa ++ obj_tail l) ++ y
                   = (pre ++ wb) ++ jc_quote :: body ++ jc_quote :: (w1 ++ jc_colon :: (w2 ++ tx ++ (wa ++ obj_tail l ++ y)))).
    { unfold cstr_print, body. repeat (rewrite <- !app_assoc; cbn [app]). reflexivity. }
    rewrite Etxt. rewrite trim_ws_then by (try apply ws_wf_app; try assumption; reflexivity).
    split; [eauto|].
    assert (Hlen : (length tx + length (wa ++ obj_tail l ++ y) + 3 <= length pre + length (wb ++ cstr_print w k ++ w1 ++ [jc_colon] ++ w2 ++ tx ++ wa ++ obj_tail l) + length y)%nat).
    { len_eq Etxt. }
    destruct f as [|f]; [lia|]. rewrite obj_loop_eq. cbn [has rd bind adv]. rewrite N.eqb_refl. cbn [bind].
    rewrite (pstring_complete w body _ _ HS). cbn [bind].
    rewrite trim_ws_then by (try assumption; reflexivity). cbn [has rd bind adv]. rewrite N.eqb_refl. cbn [bind].
    rewrite (trim_to_dmg _ x) by assumption.
    destruct (IH (wa ++ obj_tail l ++ y) f ltac:(lia)) as [st Ep]. rewrite Ep.
    cbn [bind trim has]. apply failres_pfail.
  - (* DO_later *)
    intros [[[[[wb k] w1] w2] x] wa] m2 l t (Hwb & Hk & Hw1 & Hw2 & Hwa & Hwx & Hrx) Hd IH pre acc y f Hpre Hf.
    pose proof (Hstr k Hk) as HS. set (body := flat_map (cchar_print w) k) in *.
    assert (Etxt : pre ++ (member_text w (wb, k, w1, w2, x, wa) ++ jc_comma :: t) ++ y
                   = (pre ++ wb) ++ jc_quote :: body ++ jc_quote :: (w1 ++ jc_colon :: (w2 ++ cprint w x ++ (wa ++ jc_comma :: t ++ y)))).
    { cbn [member_text]. unfold cstr_print, body. repeat (rewrite <- !app_assoc; cbn [app]). reflexivity. }
    rewrite Etxt. rewrite trim_ws_then by (try apply ws_wf_app; try assumption; reflexivity).
    split; [eauto|].
    assert (Hlen : (length (cprint w x) + length (wa ++ jc_comma :: t ++ y) + 3 <= length pre + length (member_text w (wb, k, w1, w2, x, wa) ++ jc_comma :: t) + length y)%nat
                   /\ (length t + length y + 4 <= length pre + length (member_text w (wb, k, w1, w2, x, wa) ++ jc_comma :: t) + length y)%nat).
    { len_eq Etxt. }
    destruct Hlen as [Hl1 Hl2].
    destruct f as [|f]; [lia|]. rewrite obj_loop_eq. cbn [has rd bind adv]. rewrite N.eqb_refl. cbn [bind].
    rewrite (pstring_complete w body _ _ HS). cbn [bind].
    rewrite trim_ws_then by (try assumption; reflexivity). cbn [has rd bind adv]. rewrite N.eqb_refl. cbn [bind].
    rewrite trim_to_val by assumption.
    rewrite full_val; [|assumption|assumption|apply follow_ws_then; [assumption|rewrite N.eqb_refl; rewrite ?orb_true_r; reflexivity]|lia].
    cbn [bind]. rewrite trim_ws_then by (try assumption; reflexivity). cbn [has rd bind adv]. rewrite N.eqb_refl. cbn [bind].
    change (t ++ y) with ([] ++ t ++ y).
    apply (IH [] (obj_insert acc (cstr_denote w k) (cdenote w x)) y f eq_refl). cbn [length]. lia.
Qed.

(* C07: a document with one closing bracket of the wrong kind, or one separator blanked, is rejected *)
Theorem damaged_rejected : forall c t ws1 ws2, Dmg c t -> ws_wf ws1 = true -> parse w (ws1 ++ t ++ ws2) = JOk JUndef.
Proof.
  intros c t ws1 ws2 Hd Hws. destruct dmg_arr_cases as [Hc _].
  unfold parse, parse_fuel.
  destruct (dmg_head c t Hd) as (c0 & r0 & E & Hnw & _).
  destruct (length (ws1 ++ t ++ ws2) =? 0)%nat eqn:El; [reflexivity|].
  rewrite (trim_to_dmg ws1 c t ws2 Hd Hws).
  destruct (Hc c t Hd ws2 (2 * length (ws1 ++ t ++ ws2) + 4)%nat) as [st Ep].
  { rewrite !app_length. lia. }
  rewrite Ep. cbn [bind trim has]. reflexivity.
Qed.

End Damage.

Theorem damaged_rejected_all : forall w c t ws1 ws2, Dmg w c t -> ws_wf ws1 = true -> parse w (ws1 ++ t ++ ws2) = JOk JUndef.
Proof. intros w. apply (damaged_rejected w (str_ok w)). Qed.

(* non-vacuity:  [{"a":1},true]  with the inner brace turned into a bracket, the comma blanked, the colon blanked *)
Definition dmg_ex_inner : cval := CObj [] [([], [CRaw 97], [], [], CNatD [49], [])].
Definition dmg_ex : cval := CArr [] [([], dmg_ex_inner, []); ([], CTrue, [])].
Example dmg_ex_text : cprint 0 dmg_ex = [91; 123; 34; 97; 34; 58; 49; 125; 44; 116; 114; 117; 101; 93].
Proof. reflexivity. Qed.
Example dmg_ex_swap : parse 0 [91; 123; 34; 97; 34; 58; 49; 93; 44; 116; 114; 117; 101; 93] = JOk JUndef.
Proof.
  refine (damaged_rejected_all 0 dmg_ex [91; 123; 34; 97; 34; 58; 49; 93; 44; 116; 114; 117; 101; 93] [] [] _ eq_refl).
  refine (D_arr 0 [] _ [123; 34; 97; 34; 58; 49; 93; 44; 116; 114; 117; 101; 93] eq_refl _).
  refine (DA_child 0 [] dmg_ex_inner [] [123; 34; 97; 34; 58; 49; 93] [([], CTrue, [])] eq_refl _).
  refine (D_obj 0 [] _ [34; 97; 34; 58; 49; 93] eq_refl _).
  refine (DO_swap 0 [] [CRaw 97] [] [] (CNatD [49]) [] _). cbn. repeat split.
Qed.
Example dmg_ex_comma : parse 0 [91; 123; 34; 97; 34; 58; 49; 125; 32; 116; 114; 117; 101; 93] = JOk JUndef.
Proof.
  refine (damaged_rejected_all 0 dmg_ex [91; 123; 34; 97; 34; 58; 49; 125; 32; 116; 114; 117; 101; 93] [] [] _ eq_refl).
  refine (D_arr 0 [] _ [123; 34; 97; 34; 58; 49; 125; 32; 116; 114; 117; 101; 93] eq_refl _).
  refine (DA_blank 0 [] dmg_ex_inner [] ([], CTrue, []) [] _ _); cbn; repeat split.
Qed.
Example dmg_ex_colon : parse 0 [91; 123; 34; 97; 34; 32; 49; 125; 44; 116; 114; 117; 101; 93] = JOk JUndef.
Proof.
  refine (damaged_rejected_all 0 dmg_ex [91; 123; 34; 97; 34; 32; 49; 125; 44; 116; 114; 117; 101; 93] [] [] _ eq_refl).
  refine (D_arr 0 [] _ [123; 34; 97; 34; 32; 49; 125; 44; 116; 114; 117; 101; 93] eq_refl _).
  refine (DA_child 0 [] dmg_ex_inner [] [123; 34; 97; 34; 32; 49; 125] [([], CTrue, [])] eq_refl _).
  refine (D_obj 0 [] _ [34; 97; 34; 32; 49; 125] eq_refl _).
  refine (DO_colon 0 [] [CRaw 97] [] [] (CNatD [49]) [] [] _). cbn. repeat split.
Qed.
