(* LedgerProofsTop.v -- C16: the ledger lifted to all histories of String and StringStream
   (Array: LedgerProofsArray.v), the meaning of the model's release errors, non-vacuity examples. *)
From Coq Require Import NArith List Arith Bool Lia.
From Qv Require Import SeqModel SeqProofs SeqProofsTop LedgerModel LedgerProofs LedgerProofsTactics LedgerProofsArray LedgerProofsString LedgerProofsStream.
Import ListNotations.

Section Lift.
Context {Op : Type} (step : wN -> Op -> res (wN * @out N)) (okp : Op -> Prop) (idx : Op -> list nat).
Hypothesis step_ledger : forall (w w' : wN) op o, ledger_inv w -> okp op -> step w op = Ok (w', o) ->
  ledger_inv w' /\ forall k, ~ In k (idx op) -> ob w' k = ob w k.

Theorem run_ledger : forall ops (w w' : wN) outs, ledger_inv w -> Forall okp ops -> run step ops w = Ok (w', outs) ->
  ledger_inv w' /\ forall n, within idx n ops -> pool_within n w -> pool_within n w'.
Proof.
  induction ops as [|op r IH]; intros w w' outs Hl Hok H; cbn [run] in H.
  - injection H as <- <-. split; [assumption|auto].
  - apply bind_ok in H as (x & E1 & H). apply bind_ok in H as (y & E2 & H). injection H as <- <-.
    destruct x as (w1, o1). cbn [fst snd] in *. inversion Hok as [|? ? Hop Hr]; subst.
    destruct (step_ledger w w1 op o1 Hl Hop E1) as (Hl1 & Hf1).
    destruct y as (w2, o2). cbn [fst] in *.
    destruct (IH w1 w2 o2 Hl1 Hr E2) as (Hl2 & Hp2). split; [assumption|].
    intros n Hw Hp. inversion Hw as [|? ? Hidx Hwr]; subst. apply Hp2; [assumption|].
    intros k Hk. rewrite Hf1; [now apply Hp|]. intros Hin. rewrite Forall_forall in Hidx. specialize (Hidx k Hin). lia.
Qed.
End Lift.

Lemma pool_within0 : forall n, pool_within n (@world0 N).
Proof. intros n k _. reflexivity. Qed.

(* C16 for String histories from the empty pool *)
Theorem string_ledger : forall (ops : list sop) n, Forall sop_ok ops -> within sidx n ops ->
  exists w outs w', run sstep ops world0 = Ok (w, outs) /\ ledger_inv w /\
    destroy_all n w = Ok w' /\ live_blocks (hp w') = [] /\ next (hp w') = next (hp w).
Proof.
  intros ops n Hok Hw. destruct (string_history ops Hok) as (w & Hrun & _).
  destruct (run_ledger sstep sop_ok sidx sstep_ledger ops world0 w _ ledger_inv0 Hok Hrun) as (Hl & Hp).
  pose proof (Hp n Hw (pool_within0 n)) as Hpw.
  destruct (destroy_all_empty n w Hl Hpw) as (w' & Ed & Hlive & _ & Hn).
  exists w, (snd (spec_run sspec ops spec0)), w'. auto.
Qed.

(* C16 for StringStream histories from the empty pool *)
Theorem stream_ledger : forall (ops : list top) n, Forall top_ok ops -> within tidx n ops ->
  exists w outs w', run tstep ops world0 = Ok (w, outs) /\ ledger_inv w /\
    destroy_all n w = Ok w' /\ live_blocks (hp w') = [] /\ next (hp w') = next (hp w).
Proof.
  intros ops n Hok Hw. destruct (stream_history ops Hok) as (w & Hrun & _).
  destruct (run_ledger tstep top_ok tidx tstep_ledger ops world0 w _ ledger_inv0 Hok Hrun) as (Hl & Hp).
  pose proof (Hp n Hw (pool_within0 n)) as Hpw.
  destruct (destroy_all_empty n w Hl Hpw) as (w' & Ed & Hlive & _ & Hn).
  exists w, (snd (spec_run tspec ops spec0)), w'. auto.
Qed.

(* every live block has exactly one owner *)
Theorem live_block_one_owner : forall (A : Type) (w : @world A) b, ledger_inv w ->
  (In b (live_blocks (hp w)) <-> exists! k, blk (ob w k) = Some b).
Proof.
  intros A w b Hl. rewrite (live_blocks_spec w b Hl). split.
  - intros (k & Hk). exists k. split; [assumption|]. intros k' Hk'. exact (li_one_owner w Hl k k' b Hk Hk').
  - intros (k & Hk & _). now exists k.
Qed.

(* ---------- what the model's errors mean for releases ---------- *)
Section Meaning.
Context {A : Type} (junk : A).

(* releasing a block that is not live (released before, or never handed out) is an error of the model *)
Theorem free_not_live_is_error : forall (h : @heap A) b, al h b = false -> free h (Some b) = Error UAF.
Proof. intros h b H. unfold free, al in *. destruct (cells_of h b); [discriminate|reflexivity]. Qed.

(* a successful release targets a live block, which is not live afterwards: it cannot succeed twice *)
Theorem free_once : forall (h h' : @heap A) b, free h (Some b) = Ok h' -> al h b = true /\ al h' b = false /\ free h' (Some b) = Error UAF.
Proof.
  intros h h' b H. apply free_inv in H as (_ & Ha & Hl). split; [now apply Hl|].
  assert (Hd : al h' b = false) by (rewrite Ha; cbn [pis]; rewrite Nat.eqb_refl; apply andb_false_r).
  split; [exact Hd|now apply free_not_live_is_error].
Qed.

(* an allocation hands out an id that is not live and was never handed out before *)
Theorem alloc_fresh : forall (w : @world A) n, ledger_inv w ->
  al (hp w) (snd (alloc junk (hp w) n)) = false /\ next (fst (alloc junk (hp w) n)) = S (next (hp w)).
Proof. intros w n Hl. cbn [alloc fst snd next]. split; [apply (li_fresh w Hl); lia|reflexivity]. Qed.
End Meaning.

(* ---------- non-vacuity: concrete histories ---------- *)
Definition ex_sops : list sop :=
  [SNewCopy 0 [97; 98]%N; SCopyCtor 1 0; SAppendObj 0 0; SMoveAssign 2 1; SAssignOwn 0 1; SPlus 1 0 2 true; SAppendMove 1 0].
(* after the history one block is live (destroying no object leaves it live), destroying the three objects
   leaves nothing; 6 blocks were handed out in total *)
Example ex_string_ledger :
  match run sstep ex_sops world0 with
  | Ok (w, _) =>
      match destroy_all 3 w, destroy_all 0 w with
      | Ok w3, Ok w0 => (length (live_blocks (hp w)), live_blocks (hp w3), length (live_blocks (hp w0)), next (hp w3)) = (1, [], 1, 6)
      | _, _ => False
      end
  | Error _ => False
  end.
Proof. vm_compute. reflexivity. Qed.

Definition ex_tops : list top :=
  [TAppendExt 0 [97; 98; 99]%N; TCopyCtor 1 0; TAppendObj 0 0; TMoveAssign 2 0; TGetString 1; TAppendChar 0 120%N; TCopyAssign 1 2].
Example ex_stream_ledger :
  match run tstep ex_tops world0 with
  | Ok (w, _) =>
      match destroy_all 3 w, destroy_all 1 w with
      | Ok w3, Ok w1 => (length (live_blocks (hp w)), live_blocks (hp w3), length (live_blocks (hp w1))) = (3, [], 2)
      | _, _ => False
      end
  | Error _ => False
  end.
Proof. vm_compute. reflexivity. Qed.

Definition ex_aops : list (@aop N) :=
  [AAppendItem 0 5%N; AAppendItem 0 6%N; AAppendCopy 1 0; AAppendCopy 0 0; AAppendOwn 0 1; AMoveAssign 2 0; AAppendMove 1 2; ACopyCtor 0 1; AResize 1 2].
Example ex_array_ledger :
  match run (astep junkN 0%N) ex_aops world0 with
  | Ok (w, _) =>
      match destroy_all 3 w with
      | Ok w3 => (length (live_blocks (hp w)), live_blocks (hp w3)) = (2, [])
      | _ => False
      end
  | Error _ => False
  end.
Proof. vm_compute. reflexivity. Qed.

(* a release discipline the ledger rejects: a second release of the same block is an error of the model *)
Example ex_double_release :
  let '(h1, b) := alloc junkN (@empty_heap N) 4 in
  match free h1 (Some b) with
  | Ok h2 => free h2 (Some b) = Error UAF /\ live_blocks h1 = [0] /\ live_blocks h2 = []
  | Error _ => False
  end.
Proof. vm_compute. auto. Qed.
