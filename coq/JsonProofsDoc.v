(* JsonProofsDoc.v -- C06: every document printed from a concrete syntax tree is accepted with
   the value the tree denotes (induction on the tree; whitespace at every gap, every spelling
   of every character, duplicate keys).  Strings and integers are proved facts (JsonProofsCst.v,
   JsonProofsInt.v); real numerals enter through the predicate [real_numeral]. *)
From Coq Require Import NArith ZArith List Bool Lia Wf_nat.
From Qv Require Import gen.Tables_json JsonModel JsonSpec JsonProofsBase JsonProofsStr JsonProofsNum JsonProofsParse JsonProofsComplete.
Import ListNotations.
Local Open Scope N_scope.

(* what may follow a value inside a document: nothing, whitespace, a comma or a closing bracket *)
Definition num_follow (rest : list N) : bool :=
  match rest with
  | [] => true
  | c :: _ => is_ws c || (c =? jc_comma) || (c =? jc_esquare) || (c =? jc_ecurly)
  end.

(* a real numeral: the scanner takes exactly this text and classifies it as a real (C09's part) *)
Definition real_numeral (txt : list N) : Prop :=
  txt <> [] /\ forall rest, num_follow rest = true -> scan_number (txt ++ rest) = JOk (NumReal rest).

Fixpoint reals_ok (c : cval) : Prop :=
  match c with
  | CRealT txt => real_numeral txt
  | CArr _ items =>
    (fix go (l : list (list N * cval * list N)) : Prop :=
       match l with [] => True | (_, x, _) :: t => reals_ok x /\ go t end) items
  | CObj _ ms =>
    (fix go (l : list (list N * list cchar * list N * list N * cval * list N)) : Prop :=
       match l with [] => True | (_, _, _, _, x, _) :: t => reals_ok x /\ go t end) ms
  | _ => True
  end.

Fixpoint csize (c : cval) : nat :=
  match c with
  | CArr _ items =>
    S ((fix go (l : list (list N * cval * list N)) : nat :=
          match l with [] => O | (_, x, _) :: t => (csize x + go t)%nat end) items)
  | CObj _ ms =>
    S ((fix go (l : list (list N * list cchar * list N * list N * cval * list N)) : nat :=
          match l with [] => O | (_, _, _, _, x, _) :: t => (csize x + go t)%nat end) ms)
  | _ => 1%nat
  end.

Definition str_ok_stmt (w : N) : Prop :=
  forall s, forallb (cchar_wf w) s = true -> SBody w (flat_map (cchar_print w) s) (cstr_denote w s).
Definition nat_ok_stmt : Prop :=
  forall ds rest, digits_wf ds = true -> dval ds < 18446744073709551616 -> num_follow rest = true ->
    scan_number (ds ++ rest) = JOk (NumNat (dval ds) rest).
Definition neg_ok_stmt : Prop :=
  forall ds rest, digits_wf ds = true -> 0 < dval ds -> dval ds <= int_min_abs -> num_follow rest = true ->
    scan_number (dc_neg :: ds ++ rest) = JOk (NumInt (Z.opp (Z.of_N (dval ds))) rest).

Lemma val_head_nonws : forall w r v r', Val w r v r' -> exists c t, r = c :: t /\ is_ws c = false.
Proof.
  intros w r v r' H. destruct H; try (eexists; eexists; split; [reflexivity|reflexivity]).
  exists c, t. split; [reflexivity|].
  assert (Hn : n <> NumNaN) by (intros E; subst n; discriminate).
  pose proof (scan_first c t n H0 Hn) as Hc.
  destruct (is_ws c) eqn:E; [|reflexivity].
  unfold is_ws in E. repeat (apply orb_true_iff in E; destruct E as [E|E]); apply N.eqb_eq in E; subst c; discriminate.
Qed.

Lemma ws_wf_Forall : forall ws, ws_wf ws = true -> Forall (fun c => is_ws c = true) ws.
Proof. intros ws H. apply Forall_forall. unfold ws_wf in H. rewrite forallb_forall in H. exact H. Qed.

Lemma trim_ws_then : forall ws c t, ws_wf ws = true -> is_ws c = false -> trim (ws ++ c :: t) = c :: t.
Proof. intros ws c t Hw Hc. rewrite trim_ws_app by (apply ws_wf_Forall; assumption). apply trim_nonws. assumption. Qed.

Lemma trim_val : forall w ws r v r', ws_wf ws = true -> Val w r v r' -> trim (ws ++ r) = r.
Proof.
  intros w ws r v r' Hw Hv. destruct (val_head_nonws _ _ _ _ Hv) as (c & t & E & Hc). subst r.
  apply trim_ws_then; assumption.
Qed.

Lemma num_follow_ws : forall ws c t, num_follow (c :: t) = true -> num_follow (ws ++ c :: t) = true.
Proof. intros ws c t H. destruct ws as [|x ws]; [exact H|]. cbn. Abort.

Lemma num_follow_app : forall ws c t, ws_wf ws = true ->
  (c =? jc_comma) || (c =? jc_esquare) || (c =? jc_ecurly) = true -> num_follow (ws ++ c :: t) = true.
Proof.
  intros ws c t Hw Hc. destruct ws as [|x ws]; cbn.
  - rewrite <- !orb_assoc. rewrite <- !orb_assoc in Hc. rewrite Hc. apply orb_true_r.
  - cbn in Hw. apply andb_true_iff in Hw. destruct Hw as [Hx _]. rewrite Hx. reflexivity.
Qed.

Section Doc.
Variable w : N.
Hypothesis str_ok : str_ok_stmt w.
Hypothesis nat_ok : nat_ok_stmt.
Hypothesis neg_ok : neg_ok_stmt.

(* the value property carried through the induction *)
Definition vprop (x : cval) : Prop :=
  forall rest, (is_container x = true \/ num_follow rest = true) -> Val w (cprint w x ++ rest) (cdenote w x) rest.

Definition item_text (it : list N * cval * list N) : list N :=
  match it with (wb, x, wa) => wb ++ cprint w x ++ wa end.
Fixpoint items_text (l : list (list N * cval * list N)) : list N :=
  match l with
  | [] => []
  | [it] => item_text it
  | it :: t => item_text it ++ [jc_comma] ++ items_text t
  end.
Definition item_ok (it : list N * cval * list N) : Prop :=
  match it with (wb, x, wa) => ws_wf wb = true /\ ws_wf wa = true /\ vprop x end.

Lemma items_text_eq : forall l, sep_concat [jc_comma] (map (fun it => match it with (wb, x, wa) => wb ++ cprint w x ++ wa end) l) = items_text l.
Proof.
  induction l as [|it t IH]; [reflexivity|]. cbn [map sep_concat items_text]. rewrite IH.
  destruct t; [destruct it as [[? ?] ?]; reflexivity|]. destruct it as [[? ?] ?]. reflexivity.
Qed.

Lemma arr_elems : forall items, Forall item_ok items -> items <> [] ->
  forall acc rest pre, ws_wf pre = true ->
  Elems w (trim (pre ++ items_text items ++ jc_esquare :: rest)) acc
        (acc ++ map (fun it => match it with (_, x, _) => cdenote w x end) items) rest.
Proof.
  induction items as [|[[wb x] wa] more IH]; intros Hall Hne acc rest pre Hpre; [congruence|].
  inversion Hall as [|? ? Hit Hmore]; subst. cbn [item_ok] in Hit. destruct Hit as [Hwb [Hwa Hx]].
  destruct more as [|it2 more'].
  - (* last element *)
    cbn [items_text item_text map]. 
    assert (Hv : Val w (cprint w x ++ wa ++ jc_esquare :: rest) (cdenote w x) (wa ++ jc_esquare :: rest)).
    { apply Hx. right. apply num_follow_app; [assumption|]. rewrite N.eqb_refl. rewrite orb_true_r. reflexivity. }
    replace (pre ++ (wb ++ cprint w x ++ wa) ++ jc_esquare :: rest)
      with ((pre ++ wb) ++ cprint w x ++ wa ++ jc_esquare :: rest) by (rewrite <- !app_assoc; reflexivity).
    assert (Hpw : ws_wf (pre ++ wb) = true) by (unfold ws_wf in *; rewrite forallb_app, Hpre, Hwb; reflexivity).
    rewrite (trim_val w (pre ++ wb) _ _ _ Hpw Hv).
    eapply E_last; [exact Hv|]. apply trim_ws_then; [assumption|reflexivity].
  - (* more elements *)
    set (tailtxt := items_text (it2 :: more')) in *.
    assert (Hv : Val w (cprint w x ++ wa ++ jc_comma :: tailtxt ++ jc_esquare :: rest) (cdenote w x)
                       (wa ++ jc_comma :: tailtxt ++ jc_esquare :: rest)).
    { apply Hx. right. apply num_follow_app; [assumption|]. rewrite N.eqb_refl. reflexivity. }
    change (items_text ((wb, x, wa) :: it2 :: more')) with (item_text (wb, x, wa) ++ [jc_comma] ++ tailtxt).
    cbn [item_text].
    replace (pre ++ ((wb ++ cprint w x ++ wa) ++ [jc_comma] ++ tailtxt) ++ jc_esquare :: rest)
      with ((pre ++ wb) ++ cprint w x ++ wa ++ jc_comma :: tailtxt ++ jc_esquare :: rest)
      by (repeat (rewrite <- !app_assoc; cbn [app]); reflexivity).
    assert (Hpw : ws_wf (pre ++ wb) = true) by (unfold ws_wf in *; rewrite forallb_app, Hpre, Hwb; reflexivity).
    rewrite (trim_val w (pre ++ wb) _ _ _ Hpw Hv).
    eapply E_more; [exact Hv|apply trim_ws_then; [assumption|reflexivity]|].
    specialize (IH Hmore ltac:(discriminate) (acc ++ [cdenote w x]) rest [] eq_refl). cbn [app] in IH.
    rewrite <- app_assoc in IH. exact IH.
Qed.

Definition member_text (m : list N * list cchar * list N * list N * cval * list N) : list N :=
  match m with (wb, k, w1, w2, x, wa) => wb ++ cstr_print w k ++ w1 ++ [jc_colon] ++ w2 ++ cprint w x ++ wa end.
Fixpoint members_text (l : list (list N * list cchar * list N * list N * cval * list N)) : list N :=
  match l with
  | [] => []
  | [m] => member_text m
  | m :: t => member_text m ++ [jc_comma] ++ members_text t
  end.
Definition member_ok (m : list N * list cchar * list N * list N * cval * list N) : Prop :=
  match m with (wb, k, w1, w2, x, wa) =>
    ws_wf wb = true /\ forallb (cchar_wf w) k = true /\ ws_wf w1 = true /\ ws_wf w2 = true /\ ws_wf wa = true /\ vprop x end.

Lemma members_text_eq : forall l,
  sep_concat [jc_comma] (map (fun m => match m with (wb, k, w1, w2, x, wa) =>
     wb ++ cstr_print w k ++ w1 ++ [jc_colon] ++ w2 ++ cprint w x ++ wa end) l) = members_text l.
Proof.
  induction l as [|m t IH]; [reflexivity|]. cbn [map sep_concat members_text]. rewrite IH.
  destruct t; destruct m as [[[[[? ?] ?] ?] ?] ?]; reflexivity.
Qed.

Definition ins (acc : list (list N * jv)) (m : list N * list cchar * list N * list N * cval * list N) :=
  match m with (_, k, _, _, x, _) => obj_insert acc (cstr_denote w k) (cdenote w x) end.

Lemma obj_members : forall ms, Forall member_ok ms -> ms <> [] ->
  forall acc rest pre, ws_wf pre = true ->
  Members w (trim (pre ++ members_text ms ++ jc_ecurly :: rest)) acc (fold_left ins ms acc) rest.
Proof.
  induction ms as [|[[[[[wb k] w1] w2] x] wa] more IH]; intros Hall Hne acc rest pre Hpre; [congruence|].
  inversion Hall as [|? ? Hit Hmore]; subst. cbn [member_ok] in Hit. destruct Hit as [Hwb [Hk [Hw1 [Hw2 [Hwa Hx]]]]].
  pose proof (str_ok k Hk) as HS.
  unfold cstr_print.
  destruct more as [|m2 more'].
  - cbn [members_text member_text fold_left ins].
    assert (Hv : Val w (cprint w x ++ wa ++ jc_ecurly :: rest) (cdenote w x) (wa ++ jc_ecurly :: rest)).
    { apply Hx. right. apply num_follow_app; [assumption|]. rewrite N.eqb_refl. rewrite !orb_true_r. reflexivity. }
    unfold cstr_print.
    replace (pre ++ (wb ++ ([jc_quote] ++ flat_map (cchar_print w) k ++ [jc_quote]) ++ w1 ++ [jc_colon] ++ w2 ++ cprint w x ++ wa) ++ jc_ecurly :: rest)
      with ((pre ++ wb) ++ jc_quote :: flat_map (cchar_print w) k ++ jc_quote :: (w1 ++ jc_colon :: (w2 ++ cprint w x ++ wa ++ jc_ecurly :: rest)))
      by (repeat (rewrite <- !app_assoc; cbn [app]); reflexivity).
    rewrite trim_ws_then; [|unfold ws_wf in *; rewrite forallb_app, Hpre, Hwb; reflexivity|reflexivity].
    eapply M_last; [exact HS|apply trim_ws_then; [assumption|reflexivity]| | ].
    + rewrite (trim_val w w2 _ _ _ Hw2 Hv). exact Hv.
    + apply trim_ws_then; [assumption|reflexivity].
  - set (tailtxt := members_text (m2 :: more')) in *.
    assert (Hv : Val w (cprint w x ++ wa ++ jc_comma :: tailtxt ++ jc_ecurly :: rest) (cdenote w x)
                       (wa ++ jc_comma :: tailtxt ++ jc_ecurly :: rest)).
    { apply Hx. right. apply num_follow_app; [assumption|]. rewrite N.eqb_refl. reflexivity. }
    change (members_text ((wb, k, w1, w2, x, wa) :: m2 :: more')) with (member_text (wb, k, w1, w2, x, wa) ++ [jc_comma] ++ tailtxt).
    cbn [member_text fold_left]. unfold cstr_print.
    replace (pre ++ ((wb ++ ([jc_quote] ++ flat_map (cchar_print w) k ++ [jc_quote]) ++ w1 ++ [jc_colon] ++ w2 ++ cprint w x ++ wa) ++ [jc_comma] ++ tailtxt) ++ jc_ecurly :: rest)
      with ((pre ++ wb) ++ jc_quote :: flat_map (cchar_print w) k ++ jc_quote :: (w1 ++ jc_colon :: (w2 ++ cprint w x ++ wa ++ jc_comma :: tailtxt ++ jc_ecurly :: rest)))
      by (repeat (rewrite <- !app_assoc; cbn [app]); reflexivity).
    rewrite trim_ws_then; [|unfold ws_wf in *; rewrite forallb_app, Hpre, Hwb; reflexivity|reflexivity].
    eapply M_more; [exact HS|apply trim_ws_then; [assumption|reflexivity]| | | ].
    + rewrite (trim_val w w2 _ _ _ Hw2 Hv). exact Hv.
    + apply trim_ws_then; [assumption|reflexivity].
    + specialize (IH Hmore ltac:(discriminate) (ins acc (wb, k, w1, w2, x, wa)) rest [] eq_refl). cbn [app] in IH. exact IH.
Qed.

Lemma is_dig_num_start : forall c, is_dig c = true -> num_start c = true.
Proof.
  intros c H. unfold is_dig in H. apply andb_true_iff in H. destruct H as [H1 H2].
  apply N.leb_le in H1. apply N.leb_le in H2. change dc_zero with 48 in H1. change dc_nine with 57 in H2.
  unfold num_start.
  replace (c =? jc_scurly) with false by (symmetry; apply N.eqb_neq; change jc_scurly with 123; lia).
  replace (c =? jc_ssquare) with false by (symmetry; apply N.eqb_neq; change jc_ssquare with 91; lia).
  replace (c =? jc_quote) with false by (symmetry; apply N.eqb_neq; change jc_quote with 34; lia).
  replace (c =? jc_t) with false by (symmetry; apply N.eqb_neq; change jc_t with 116; lia).
  replace (c =? jc_f) with false by (symmetry; apply N.eqb_neq; change jc_f with 102; lia).
  replace (c =? jc_n) with false by (symmetry; apply N.eqb_neq; change jc_n with 110; lia).
  reflexivity.
Qed.

Lemma scan_first_num_start : forall c t n, scan_number (c :: t) = JOk n -> n <> NumNaN -> num_start c = true.
Proof.
  intros c t n H Hn. pose proof (scan_first c t n H Hn) as Hc.
  repeat (apply orb_true_iff in Hc; destruct Hc as [Hc|Hc]);
    try (apply N.eqb_eq in Hc; subst c; reflexivity).
  apply is_dig_num_start. unfold is_dig19 in Hc. unfold is_dig. apply andb_true_iff in Hc. destruct Hc as [H1 H2].
  rewrite H2. apply N.ltb_lt in H1. replace (dc_zero <=? c) with true by (symmetry; apply N.leb_le; lia). reflexivity.
Qed.

Lemma items_forall : forall (P : cval -> Prop) n items,
  ((fix go (l : list (list N * cval * list N)) : nat :=
      match l with [] => O | (_, x, _) :: t => (csize x + go t)%nat end) items < n)%nat ->
  forallb (fun it => match it with (wb, x, wa) => ws_wf wb && cval_wf w x && ws_wf wa end) items = true ->
  (fix go (l : list (list N * cval * list N)) : Prop :=
     match l with [] => True | (_, x, _) :: t => reals_ok x /\ go t end) items ->
  (forall x, (csize x < n)%nat -> cval_wf w x = true -> reals_ok x -> P x) ->
  Forall (fun it => match it with (wb, x, wa) => ws_wf wb = true /\ ws_wf wa = true /\ P x end) items.
Proof.
  intros P n items. induction items as [|[[wb x] wa] t IH]; intros Hs Hw Hr HP; [constructor|].
  cbn [forallb] in Hw. apply andb_true_iff in Hw. destruct Hw as [Hw1 Hw2].
  apply andb_true_iff in Hw1. destruct Hw1 as [Hw1 Hwa]. apply andb_true_iff in Hw1. destruct Hw1 as [Hwb Hx].
  destruct Hr as [Hr1 Hr2].
  constructor.
  - repeat split; auto. apply HP; auto. lia.
  - apply IH; auto. lia.
Qed.

Lemma members_forall : forall (P : cval -> Prop) n ms,
  ((fix go (l : list (list N * list cchar * list N * list N * cval * list N)) : nat :=
      match l with [] => O | (_, _, _, _, x, _) :: t => (csize x + go t)%nat end) ms < n)%nat ->
  forallb (fun m => match m with (wb, k, w1, w2, x, wa) =>
             ws_wf wb && forallb (cchar_wf w) k && ws_wf w1 && ws_wf w2 && cval_wf w x && ws_wf wa end) ms = true ->
  (fix go (l : list (list N * list cchar * list N * list N * cval * list N)) : Prop :=
     match l with [] => True | (_, _, _, _, x, _) :: t => reals_ok x /\ go t end) ms ->
  (forall x, (csize x < n)%nat -> cval_wf w x = true -> reals_ok x -> P x) ->
  Forall (fun m => match m with (wb, k, w1, w2, x, wa) =>
     ws_wf wb = true /\ forallb (cchar_wf w) k = true /\ ws_wf w1 = true /\ ws_wf w2 = true /\ ws_wf wa = true /\ P x end) ms.
Proof.
  intros P n ms. induction ms as [|[[[[[wb k] w1] w2] x] wa] t IH]; intros Hs Hw Hr HP; [constructor|].
  cbn [forallb] in Hw. apply andb_true_iff in Hw. destruct Hw as [Hw1 Hw2].
  repeat (apply andb_true_iff in Hw1; destruct Hw1 as [Hw1 ?]).
  destruct Hr as [Hr1 Hr2].
  constructor.
  - repeat split; auto. apply HP; auto. lia.
  - apply IH; auto. lia.
Qed.

Lemma cst_val : forall n c, (csize c < n)%nat -> cval_wf w c = true -> reals_ok c -> vprop c.
Proof.
  induction n as [|n IH]; intros c Hn Hw Hr; [lia|].
  destruct c as [| | |ds|ds|txt|s|w0 items|w0 ms]; intros rest Hrest; cbn [cprint cdenote].
  - apply V_null.
  - apply V_true.
  - apply V_false.
  - destruct Hrest as [Hrest|Hrest]; [discriminate|].
    cbn [cval_wf] in Hw. apply andb_true_iff in Hw. destruct Hw as [Hd Hv]. apply N.ltb_lt in Hv.
    pose proof (nat_ok ds rest Hd Hv Hrest) as Hs.
    destruct ds as [|c t]; [discriminate|]. cbn [app] in *.
    eapply V_num; [|exact Hs|reflexivity].
    apply is_dig_num_start. unfold digits_wf in Hd. apply andb_true_iff in Hd. destruct Hd as [Hd _].
    cbn [forallb] in Hd. apply andb_true_iff in Hd. tauto.
  - destruct Hrest as [Hrest|Hrest]; [discriminate|].
    cbn [cval_wf] in Hw. apply andb_true_iff in Hw. destruct Hw as [Hw Hv2]. apply andb_true_iff in Hw. destruct Hw as [Hd Hv1].
    apply N.ltb_lt in Hv1. apply N.leb_le in Hv2.
    pose proof (neg_ok ds rest Hd Hv1 Hv2 Hrest) as Hs. cbn [app].
    eapply V_num; [reflexivity|exact Hs|reflexivity].
  - destruct Hrest as [Hrest|Hrest]; [discriminate|].
    cbn [reals_ok] in Hr. destruct Hr as [Hne Hs]. specialize (Hs rest Hrest).
    destruct txt as [|c t]; [congruence|]. cbn [app] in *.
    eapply V_num; [|exact Hs|].
    + eapply scan_first_num_start; [exact Hs|discriminate].
    + cbn [num_value]. f_equal. f_equal. f_equal.
      change (c :: t ++ rest) with ((c :: t) ++ rest). rewrite app_length.
      replace (length (c :: t) + length rest - length rest)%nat with (length (c :: t)) by lia.
      apply firstn_app_exact.
  - cbn [cval_wf] in Hw. unfold cstr_print. rewrite <- !app_assoc. cbn [app].
    apply V_str. apply str_ok. assumption.
  - cbn [cval_wf] in Hw. apply andb_true_iff in Hw. destruct Hw as [Hw0 Hit].
    cbn [csize] in Hn. cbn [reals_ok] in Hr.
    rewrite items_text_eq. cbn [app]. rewrite <- !app_assoc.
    destruct items as [|it items'].
    + cbn [items_text map app]. apply V_arr0. apply trim_ws_then; [assumption|reflexivity].
    + apply V_arr.
      change (map (fun it0 => let '(_, x, _) := it0 in cdenote w x) (it :: items'))
        with ([] ++ map (fun it0 => match it0 with (_, x, _) => cdenote w x end) (it :: items')).
      apply arr_elems; [|discriminate|assumption].
      apply (items_forall vprop n); auto. lia.
  - cbn [cval_wf] in Hw. apply andb_true_iff in Hw. destruct Hw as [Hw0 Hit].
    cbn [csize] in Hn. cbn [reals_ok] in Hr.
    rewrite members_text_eq. cbn [app]. rewrite <- !app_assoc.
    destruct ms as [|m ms'].
    + cbn [members_text fold_left app]. apply V_obj0. apply trim_ws_then; [assumption|reflexivity].
    + apply V_obj.
      change (fold_left (fun acc m0 => let '(_, k, _, _, x, _) := m0 in obj_insert acc (cstr_denote w k) (cdenote w x)) (m :: ms') [])
        with (fold_left ins (m :: ms') []).
      apply obj_members; [|discriminate|assumption].
      apply (members_forall vprop n); auto. lia.
Qed.

(* C06 *)
Theorem parse_print : forall c ws1 ws2, cval_wf w c = true -> reals_ok c -> is_container c = true ->
  ws_wf ws1 = true -> ws_wf ws2 = true ->
  parse w (ws1 ++ cprint w c ++ ws2) = JOk (cdenote w c).
Proof.
  intros c ws1 ws2 Hw Hr Hc H1 H2. apply parse_complete.
  pose proof (cst_val (S (csize c)) c (Nat.lt_succ_diag_r _) Hw Hr ws2 (or_introl Hc)) as Hv.
  exists ws2. split.
  - rewrite (trim_val w ws1 _ _ _ H1 Hv). exact Hv.
  - rewrite <- (app_nil_r ws2). rewrite trim_ws_app by (apply ws_wf_Forall; assumption). reflexivity.
Qed.

(* C07: a complete document followed by anything that is not whitespace is rejected *)
Theorem print_suffix_rejected : forall c ws1 x rest, cval_wf w c = true -> reals_ok c -> is_container c = true ->
  ws_wf ws1 = true -> trim (x :: rest) <> [] ->
  parse w (ws1 ++ cprint w c ++ x :: rest) = JOk JUndef.
Proof.
  intros c ws1 x rest Hw Hr Hc H1 Hx.
  pose proof (cst_val (S (csize c)) c (Nat.lt_succ_diag_r _) Hw Hr (x :: rest) (or_introl Hc)) as Hv.
  unfold parse, parse_fuel.
  destruct (val_head _ _ _ _ Hv) as (c0 & t0 & E0 & _).
  destruct (length (ws1 ++ cprint w c ++ x :: rest) =? 0)%nat eqn:E.
  { apply Nat.eqb_eq in E. rewrite !app_length in E. cbn in E. lia. }
  rewrite (trim_val w ws1 _ _ _ H1 Hv).
  destruct (pcomplete_all w) as [Hcomp _].
  rewrite (Hcomp _ _ _ Hv).
  2:{ rewrite !app_length. cbn. lia. }
  cbn [bind]. destruct (trim (x :: rest)); [congruence|reflexivity].
Qed.

End Doc.
