(* DigitProofsSafety.v -- C10 / C01: the carry / rounding helpers of the formatters never
   leave the digit run, for ARBITRARY digit runs (this is where D33 and D48 lived):
     round_string_number  (Digit::roundStringNumber)  reads and writes only inside the
                          stream, or appends the carry; the index it returns is inside;
     skip_zeros / skip_nines                           never read outside;
     restore_zeros        (the give-back of integer zeros) without a carry always
                          succeeds and ends exactly at the decimal point (D48).
   The full statement "real_to_string never returns a model error" is NOT proved (it needs
   the relation between the digit run and fraction_length that realToString establishes
   numerically); it is covered by the correspondence run (0 errors in > 500k cases). *)
From Coq Require Import NArith ZArith List Bool Lia ZifyBool ZifyN ZifyNat.
From Qv Require Import gen.Tables_digit DigitModel.
Import ListNotations.
Local Open Scope N_scope.
Ltac Zify.zify_post_hook ::= Z.div_mod_to_equations.

Lemma getc_in : forall site buf i, i < blen buf -> exists c, getc site buf i = Ok c.
Proof.
  intros site buf i H. unfold getc, blen in *.
  destruct (nth_error buf (N.to_nat i)) as [c|] eqn:E; [eauto|].
  apply nth_error_None in E. lia.
Qed.

Lemma upd_length : forall l i x, length (upd l i x) = length l.
Proof. induction l as [|h t IH]; intros [|j] x; cbn; auto. Qed.

Lemma setc_in : forall site buf i c, i < blen buf -> exists b, setc site buf i c = Ok b /\ blen b = blen buf.
Proof.
  intros site buf i c H. unfold setc. fold (blen buf).
  assert (E : (i <? blen buf) = true) by (apply N.ltb_lt; exact H). rewrite E.
  eexists. split; [reflexivity|]. unfold blen. rewrite upd_length. reflexivity.
Qed.

Lemma getc_nth : forall site buf i c, getc site buf i = Ok c -> nth_error buf (N.to_nat i) = Some c.
Proof. intros site buf i c H. unfold getc in H. destruct (nth_error buf (N.to_nat i)); inversion H; reflexivity. Qed.

Lemma skip_nines_safe : forall fuel buf index,
  blen buf <= index + N.of_nat fuel -> fuel <> O ->
  exists pos, skip_nines fuel buf index = Ok pos /\ index <= pos /\ (pos = index \/ pos < blen buf)
    /\ (pos + 1 < blen buf -> forall c, nth_error buf (N.to_nat pos) = Some c -> (c =? ch_nine) = false).
Proof.
  induction fuel as [|f IH]; intros buf index Hf Hne; [congruence|].
  cbn [skip_nines]. destruct (index + 1 <? blen buf) eqn:E.
  - apply N.ltb_lt in E. destruct (getc_in 2 buf index ltac:(lia)) as [c Hc]. rewrite Hc. cbn [bind].
    destruct (c =? ch_nine) eqn:E9.
    + destruct f as [|f']; [rewrite Nat2N.inj_succ in Hf; cbn in Hf; lia|].
      destruct (IH buf (index + 1)) as [pos [H1 [H2 [H3 H4]]]]; [rewrite Nat2N.inj_succ in Hf; lia|discriminate|].
      exists pos. split; [exact H1|]. split; [lia|]. split; [right; destruct H3 as [->|H3]; lia|exact H4].
    + exists index. split; [reflexivity|]. split; [lia|]. split; [left; reflexivity|].
      intros _ c' Hc'. apply getc_nth in Hc. rewrite Hc in Hc'. inversion Hc'; subst. exact E9.
  - apply N.ltb_ge in E. exists index. split; [reflexivity|]. split; [lia|]. split; [left; reflexivity|]. intros H. lia.
Qed.

Lemma skip_zeros_safe : forall fuel buf index,
  blen buf <= index + N.of_nat fuel -> fuel <> O ->
  exists pos, skip_zeros fuel buf index = Ok pos /\ index <= pos /\ (pos = index \/ pos < blen buf).
Proof.
  induction fuel as [|f IH]; intros buf index Hf Hne; [congruence|].
  cbn [skip_zeros]. destruct (index + 1 <? blen buf) eqn:E.
  - apply N.ltb_lt in E. destruct (getc_in 1 buf index ltac:(lia)) as [c Hc]. rewrite Hc. cbn [bind].
    destruct (c =? ch_zero).
    + destruct f as [|f']; [rewrite Nat2N.inj_succ in Hf; cbn in Hf; lia|].
      destruct (IH buf (index + 1)) as [pos [H1 [H2 H3]]]; [rewrite Nat2N.inj_succ in Hf; lia|discriminate|].
      exists pos. split; [exact H1|]. split; [lia|]. right. destruct H3 as [->|H3]; lia.
    + exists index. split; [reflexivity|]. split; [lia|left; reflexivity].
  - exists index. split; [reflexivity|]. split; [lia|left; reflexivity].
Qed.

(* Digit::roundStringNumber on any stream and any index inside it *)
Theorem round_string_number_safe : forall buf started_at index ru,
  index < blen buf -> blen buf < 2 ^ 32 ->
  exists b i p, round_string_number buf started_at index ru = Ok (b, i, p)
    /\ index < i /\ i <= blen b
    /\ (blen b = blen buf \/ (blen b = blen buf + 1 /\ p = true /\ i = blen buf))
    /\ (p = true -> blen b <= i + 1).
Proof.
  intros buf started_at index ru Hi H32. unfold round_string_number.
  destruct (getc_in 3 buf index Hi) as [c Hc]. rewrite Hc. cbn [bind].
  assert (Ha : add32 index 1 = index + 1).
  { unfold add32, two32. change (2 ^ 32) with 4294967296 in H32. lia. }
  rewrite Ha.
  set (lower := firstn (N.to_nat (index - started_at)) (skipn (N.to_nat started_at) buf)).
  set (ru' := ru || ((c =? ch_five) && existsb (fun x => negb (x =? ch_zero)) lower)).
  (* the parity read *)
  assert (Hodd : exists o, (if (c =? ch_five) && negb ru' && (index <? blen buf - 1)
                            then do c1 <- getc 4 buf (index + 1); Ok (N.land (sub32 c1 ch_zero) 1 =? 1)
                            else Ok false) = Ok o).
  { destruct ((c =? ch_five) && negb ru' && (index <? blen buf - 1)) eqn:E; [|eauto].
    apply andb_prop in E. destruct E as [_ E]. apply N.ltb_lt in E.
    destruct (getc_in 4 buf (index + 1) ltac:(lia)) as [c1 Hc1]. rewrite Hc1. cbn [bind]. eauto. }
  destruct Hodd as [o Ho]. rewrite Ho. cbn [bind].
  destruct ((ch_five <? c) || ((c =? ch_five) && (ru' || o))).
  - destruct (skip_nines_safe (S (length buf)) buf (index + 1)) as [pos [Hp [Hge [Hpos H9]]]];
      [unfold blen in *; lia|discriminate|].
    rewrite Hp. cbn [bind].
    destruct (blen buf - 1 <? pos) eqn:El.
    + apply N.ltb_lt in El.
      assert (pos = blen buf) by (destruct Hpos as [->|H]; lia). subst pos.
      exists (buf ++ [ch_one]), (blen buf), true. split; [reflexivity|].
      unfold blen in *. rewrite app_length. cbn [length]. repeat split; try lia.
    + apply N.ltb_ge in El. assert (Hpl : pos < blen buf) by lia.
      destruct (getc_in 5 buf pos Hpl) as [c2 Hc2]. rewrite Hc2. cbn [bind].
      destruct (c2 =? ch_nine) eqn:E9.
      * destruct (setc_in 6 buf pos ch_one Hpl) as [b [Hb Hlb]]. rewrite Hb. cbn [bind].
        exists b, pos, true. split; [reflexivity|]. rewrite Hlb. repeat split; try lia.
        intros _. destruct (N.le_gt_cases (blen buf) (pos + 1)) as [H|H]; [exact H|exfalso].
        apply getc_nth in Hc2. specialize (H9 H c2 Hc2). congruence.
      * destruct (setc_in 7 buf pos (c2 + 1) Hpl) as [b [Hb Hlb]]. rewrite Hb. cbn [bind].
        exists b, pos, false. split; [reflexivity|]. rewrite Hlb. repeat split; try lia; try discriminate.
  - exists buf, (index + 1), false. split; [reflexivity|]. repeat split; try lia; try discriminate.
Qed.

(* writing zeros downwards from [index] stays inside the stream iff there is room *)
Lemma write_zeros_down_safe : forall fuel buf index zeros,
  zeros <= index -> index <= blen buf -> (N.to_nat zeros < fuel)%nat ->
  exists b, write_zeros_down fuel buf index zeros = Ok (b, index - zeros) /\ blen b = blen buf.
Proof.
  induction fuel as [|f IH]; intros buf index zeros Hz Hi Hf; [lia|].
  cbn [write_zeros_down]. destruct (zeros =? 0) eqn:E0.
  - apply N.eqb_eq in E0. subst zeros. rewrite N.sub_0_r. eauto.
  - apply N.eqb_neq in E0. assert (Ei : (index =? 0) = false) by (apply N.eqb_neq; lia). rewrite Ei.
    destruct (setc_in 9 buf (index - 1) ch_zero ltac:(lia)) as [b [Hb Hlb]]. rewrite Hb. cbn [bind].
    destruct (IH b (index - 1) (zeros - 1)) as [b' [H1 H2]]; [lia|lia|lia|].
    exists b'. split; [rewrite H1; f_equal; f_equal; lia|lia].
Qed.

(* D48: without a carry the zeros given back are exactly those between the decimal point and
   the index: always inside the stream, and the index ends at the decimal point *)
Theorem restore_zeros_no_carry_safe : forall buf dot_index index nl fl,
  dot_index <= index -> index <= blen buf -> blen buf <= 100000 ->
  exists b, restore_zeros buf dot_index index nl fl false = Ok (b, dot_index) /\ blen b = blen buf.
Proof.
  intros buf dot_index index nl fl Hd Hi Hl. unfold restore_zeros.
  assert (Hs : sub32 index dot_index = index - dot_index).
  { unfold sub32, two32. lia. }
  rewrite Hs.
  assert (E : (100000 <? index - dot_index) = false) by (apply N.ltb_ge; lia). rewrite E.
  destruct (write_zeros_down_safe (S (N.to_nat (index - dot_index))) buf index (index - dot_index)) as [b [H1 H2]]; [lia|lia|lia|].
  exists b. split; [rewrite H1; f_equal; f_equal; lia|exact H2].
Qed.

(* with a carry: number_length - fraction_length zeros are written; safe when that many
   positions exist below the index (the carry sits on the leading digit) *)
Theorem restore_zeros_carry_safe : forall buf dot_index index nl fl,
  fl <= nl -> nl - fl <= index -> index <= blen buf -> blen buf <= 100000 -> nl <= 100000 ->
  exists b, restore_zeros buf dot_index index nl fl true = Ok (b, index - (nl - fl)) /\ blen b = blen buf.
Proof.
  intros buf dot_index index nl fl Hfl Hz Hi Hl Hn. unfold restore_zeros.
  assert (Hs : sub32 nl fl = nl - fl) by (unfold sub32, two32; lia).
  rewrite Hs.
  assert (E : (100000 <? nl - fl) = false) by (apply N.ltb_ge; lia). rewrite E.
  destruct (write_zeros_down_safe (S (N.to_nat (nl - fl))) buf index (nl - fl)) as [b [H1 H2]]; [lia|lia|lia|].
  exists b. split; [exact H1|exact H2].
Qed.

(* non-vacuity: the D33 witnesses on the helper itself *)
Example round_examples :
  (* "9" rounded at its only digit: the carry is appended, nothing is written past the end *)
  round_string_number [57] 0 0 false = Ok ([57; 49], 1, true)
  (* "5" alone, nothing dropped: a tie, no digit above to read -> stays (even) *)
  /\ round_string_number [53] 0 0 false = Ok ([53], 1, false)
  (* reversed "995": rounding at the 5 with a sticky flag carries into the last 9 *)
  /\ round_string_number [53; 57; 57] 0 0 true = Ok ([53; 57; 49], 2, true).
Proof. repeat (match goal with |- _ /\ _ => split end); vm_compute; reflexivity. Qed.
