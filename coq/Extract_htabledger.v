(* Extract_htabledger.v -- extraction of the HashTable ownership model (coq/HtabLedgerModel.v) to OCaml
   (ExtrOcamlBasic only; nat, positive, N, Z stay the extracted inductive types). *)
From Coq Require Import Extraction ExtrOcamlBasic NArith ZArith.
From Qv Require Import HtabLedgerModel.
Extraction Language OCaml.
Set Extraction Optimize.
Extraction "model_htabledger.ml"
  N.add N.mul N.sub N.div_eucl N.compare Z.add Z.mul Z.sub Z.div_eucl Z.compare Z.of_N Z.to_N Z.opp
  HtabLedgerModel.lstate0 HtabLedgerModel.lstep_obs HtabLedgerModel.lfinal_live HtabLedgerModel.llive_ids.
