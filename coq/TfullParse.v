(* TfullParse.v -- C02 on the faithful models, parser half: the parser model (TparseModel.v) returns, for the
   printed text of a well-formed AST (TfullModel.wf_template: text, {var:}, {raw:}, <loop> with its four
   attributes, nested), exactly the tree [tree_of_full ast]. *)
From Coq Require Import NArith ZArith List Bool Arith Lia ZifyBool ZifyNat ZifyN.
From Qv Require Import gen.Tables gen.Tables_tmpl gen.Tables_expr gen.Tables_tparse EscapeModel FinderModel FinderProofs
  TmplModel TmplRender TmplProofs TparseModel TparseFinder TparseRound TrenderModel TfullModel TfullSem.
Import ListNotations.
Ltac Zify.zify_post_hook ::= Z.div_mod_to_equations.

(* ---- reading a known piece of the text ---- *)
Definition at_ (content : list N) (o : nat) (s : list N) : Prop :=
  forall k, k < length s -> nth_error content (o + k) = nth_error s k.

Lemma at_split : forall content a s b, content = a ++ s ++ b -> at_ content (length a) s.
Proof. intros content a s b H k Hk. rewrite H. apply nth_mid. exact Hk. Qed.

Lemma at_app : forall content o s t, at_ content o (s ++ t) -> at_ content o s /\ at_ content (o + length s) t.
Proof.
  intros content o s t H. split; intros k Hk.
  - rewrite (H k) by (rewrite app_length; lia). apply nth_error_app1. exact Hk.
  - replace (o + length s + k) with (o + (length s + k)) by lia. rewrite (H (length s + k)) by (rewrite app_length; lia).
    rewrite nth_error_app2 by lia. f_equal. lia.
Qed.

Lemma at_nth : forall content o s, at_ content o s -> forall k c, nth_error s k = Some c -> forall i, i = o + k -> nth_error content i = Some c.
Proof.
  intros content o s H k c Hk i ->. rewrite (H k); [exact Hk|]. apply nth_error_Some. rewrite Hk. discriminate.
Qed.

Lemma at_sub : forall content o s, at_ content o s -> forall a t b, s = a ++ t ++ b -> forall i, i = o + length a -> at_ content i t.
Proof.
  intros content o s H a t b -> i ->. apply at_app in H. destruct H as [_ H]. apply at_app in H. exact (proj1 H).
Qed.

Lemma at_len : forall content o s, at_ content o s -> s <> [] -> o + length s <= length content.
Proof.
  intros content o s H Hs. destruct s as [|x s]; [contradiction|].
  assert (Hk : nth_error content (o + length s) <> None).
  { rewrite (H (length s)) by (cbn; lia). apply nth_error_Some. cbn; lia. }
  apply nth_error_Some in Hk. cbn [length]. lia.
Qed.

Section Scan.
  Variable content : list N.

  Lemma rd_at : forall site i c, nth_error content i = Some c -> rd content site i = Ok c.
  Proof. intros site i c H. unfold rd. rewrite H. reflexivity. Qed.

  Lemma skip_while_run : forall site p s fuel o e c,
    at_ content o s -> forallb p s = true -> nth_error content (o + length s) = Some c -> p c = false ->
    o + length s < e -> length s < fuel -> skip_while content site p fuel o e = Ok (o + length s).
  Proof.
    intros site p s; induction s as [|x s IH]; intros fuel o e c Hs Hp Hc Hpc He Hf.
    - cbn [length] in *. rewrite Nat.add_0_r in *. destruct fuel as [|f]; [lia|]. cbn [skip_while].
      destruct (Nat.ltb_spec o e); [|lia]. rewrite (rd_at _ _ _ Hc). cbn [bind]. rewrite Hpc. reflexivity.
    - cbn [length forallb] in *. apply andb_prop in Hp. destruct Hp as [Hx Hp].
      destruct fuel as [|f]; [lia|]. cbn [skip_while]. destruct (Nat.ltb_spec o e); [|lia].
      assert (H0 : nth_error content o = Some x) by (apply (at_nth _ _ _ Hs 0 x eq_refl); lia).
      rewrite (rd_at _ _ _ H0). cbn [bind]. rewrite Hx.
      replace (o + S (length s)) with (S o + length s) by lia.
      apply (IH f (S o) e c); try assumption; try lia.
      + intros k Hk. replace (S o + k) with (o + S k) by lia. apply (Hs (S k)). cbn; lia.
      + rewrite <- Hc. f_equal. lia.
  Qed.

  Lemma skip_ne_run : forall site c s o e,
    at_ content o s -> ~ In c s -> nth_error content (o + length s) = Some c -> o + length s < e ->
    skip_ne content site c o e = Ok (o + length s).
  Proof.
    intros site c s o e Hs Hn Hc He. unfold skip_ne. apply (skip_while_run site (fun ch => negb (N.eqb ch c)) s (e - o) o e c); try assumption; try lia.
    apply forallb_forall. intros x Hx. apply negb_true_iff. apply N.eqb_neq. intros ->. contradiction.
  Qed.

  Lemma skip_eq_stop : forall site c d o e, nth_error content o = Some d -> d <> c -> o < e -> skip_eq content site c o e = Ok o.
  Proof.
    intros site c d o e Hd Hdc He. unfold skip_eq.
    replace o with (o + length (@nil N)) at 3 by (cbn; lia).
    apply (skip_while_run site (fun ch => N.eqb ch c) [] (e - o) o e d); try (cbn [length]; lia).
    - intros k Hk. cbn in Hk. lia.
    - reflexivity.
    - cbn [length]. rewrite Nat.add_0_r. exact Hd.
  Qed.

  Lemma is_equal_at_true : forall site word o, at_ content o word -> is_equal_at content site o word = Ok true.
  Proof.
    intros site word; induction word as [|x r IH]; intros o H; [reflexivity|].
    cbn [is_equal_at]. rewrite (rd_at site o x) by (apply (at_nth _ _ _ H 0 x eq_refl); lia). cbn [bind].
    rewrite N.eqb_refl. apply IH. intros k Hk. replace (S o + k) with (o + S k) by lia. apply (H (S k)). cbn; lia.
  Qed.

  (* checkLoopVariable's comparison against a value name: the text at [a] is [pp] followed by a unit no name holds *)
  Lemma is_equal_cc_pfx : forall site nm pp c a b,
    at_ content b nm -> at_ content a (pp ++ [c]) -> ~ In c nm ->
    is_equal_cc content site a b (length nm) = Ok (is_pfx nm pp).
  Proof.
    intros site nm; induction nm as [|x nm IH]; intros pp c a b Hb Ha Hc; [reflexivity|].
    cbn [length is_equal_cc].
    assert (Hx : nth_error content b = Some x) by (apply (at_nth _ _ _ Hb 0 x eq_refl); lia).
    assert (Hb' : at_ content (S b) nm).
    { intros k Hk. replace (S b + k) with (b + S k) by lia. apply (Hb (S k)). cbn; lia. }
    destruct pp as [|y pp].
    - assert (Hy : nth_error content a = Some c) by (apply (at_nth _ _ _ Ha 0 c eq_refl); lia).
      rewrite (rd_at site a c Hy), (rd_at site b x Hx). cbn [bind].
      destruct (N.eqb_spec c x) as [E|E]; [exfalso; apply Hc; left; symmetry; exact E|reflexivity].
    - assert (Hy : nth_error content a = Some y) by (apply (at_nth _ _ _ Ha 0 y eq_refl); lia).
      rewrite (rd_at site a y Hy), (rd_at site b x Hx). cbn [bind is_pfx]. rewrite (N.eqb_sym x y).
      destruct (N.eqb y x); [|reflexivity]. cbn [andb].
      apply (IH pp c (S a) (S b) Hb'); [|intros Hin; apply Hc; right; exact Hin].
      intros k Hk. replace (S a + k) with (a + S k) by lia. apply (Ha (S k)). cbn [length app] in *. lia.
  Qed.

  (* the enclosing loops: value name in the text, ValueLength *)
  Definition env_in (env : list (list N * loopinfo)) : Prop :=
    Forall (fun e => li_vlen (snd e) = N.of_nat (length (fst e)) /\
                     at_ content (li_off (snd e) + N.to_nat (li_voff (snd e))) (fst e) /\ wf_name (fst e) = true) env.

  Lemma clv_annot : forall env off ln pp c,
    env_in env -> at_ content off (pp ++ [c]) -> namec c = false ->
    check_loop_variable content (mkV off ln 0 0) (map snd env) = Ok (mkV off ln (fst (annot env pp)) (snd (annot env pp))).
  Proof.
    intros env off ln pp c He Ha Hc. induction He as [|[nm li] env (Hv & Hat & Hw) He IH]; [reflexivity|].
    cbn [map snd fst check_loop_variable annot v_off v_len] in *.
    destruct nm as [|x nm'].
    - rewrite Hv. cbn [length N.of_nat N.eqb]. exact IH.
    - destruct (N.eqb_spec (li_vlen li) 0) as [Z|_]; [rewrite Hv in Z; cbn [length] in Z; lia|].
      rewrite Hv, Nat2N.id.
      rewrite (is_equal_cc_pfx 10 (x :: nm') pp c off _ Hat Ha).
      + cbn [bind]. destruct (is_pfx (x :: nm') pp); [reflexivity|exact IH].
      + intros Hin. unfold wf_name in Hw. rewrite forallb_forall in Hw. rewrite (Hw c Hin) in Hc. discriminate Hc.
  Qed.

  Lemma skip_ne_stop : forall site c o e, nth_error content o = Some c -> o < e -> skip_ne content site c o e = Ok o.
  Proof.
    intros site c o e Hc He. replace o with (o + length (@nil N)) at 2 by (cbn; lia).
    apply skip_ne_run; [intros k Hk; cbn in Hk; lia|intros []|cbn [length]; rewrite Nat.add_0_r; exact Hc|cbn [length]; lia].
  Qed.

  (* ---- one attribute of a loop head ---- *)
  Definition cont (f o e : nat) (att : N) (l : looprec) : res looprec :=
    if o <? e then loop_attrs content f o e att l else Ok l.

  Lemma attr_set : forall f o e att l v,
    at_ content o (s_set_attr ++ v ++ [34%N]) -> ~ In 34%N v -> o + 6 + length v + 1 <= e ->
    loop_attrs content (S f) o e att l =
    bind (set_attr content l 1 (o + 6) (o + 6 + length v)) (fun l' => cont f (o + 6 + length v + 1) e 1 l').
  Proof.
    intros f o e att l v Ha Hv He. cbn [loop_attrs].
    assert (Rk : forall k c, nth_error (s_set_attr ++ v ++ [34%N]) k = Some c -> nth_error content (o + k) = Some c)
      by (intros k c Hk; apply (at_nth _ _ _ Ha k c Hk); reflexivity).
    unfold skip_eq at 1.
    rewrite (skip_while_run 51 (fun ch => N.eqb ch tpp_SpaceChar) [32%N] (e - o) o e 115%N);
      [|apply (at_sub _ _ _ Ha [] [32%N] ([115;101;116;61;34]%N ++ v ++ [34%N])); [reflexivity|cbn; lia]
       |reflexivity|apply (Rk 1 115%N); reflexivity|reflexivity|cbn [length]; lia|cbn [length]; lia].
    cbn [bind length].
    destruct (Nat.ltb_spec (o + 1) e) as [_|X]; [|lia].
    unfold loop_attr_name. rewrite (rd_at 46 (o + 1) 115%N) by (apply (Rk 1 115%N); reflexivity). cbn [bind].
    change (N.eqb 115 tpp_SetSortChar) with true. cbv iota.
    unfold word_at at 1. change (length tpp_Set) with 3. destruct (Nat.ltb_spec 3 (e - (o + 1))) as [_|X]; [|lia].
    rewrite is_equal_at_true
      by (apply (at_sub _ _ _ Ha [32%N] tpp_Set ([61;34]%N ++ v ++ [34%N])); [reflexivity|cbn; lia]).
    cbn [bind]. unfold tpp_SetLength. replace (o + 1 + 3) with (o + 4) by lia.
    rewrite (skip_ne_stop 52 tpp_EqualChar (o + 4) e); [|apply (Rk 4 61%N); reflexivity|lia].
    cbn [bind]. unfold skip_eq_do. replace (S (o + 4)) with (o + 5) by lia.
    rewrite (skip_eq_stop 53 tpp_SpaceChar 34%N (o + 5) e); [|apply (Rk 5 34%N); reflexivity|discriminate|lia].
    cbn [bind]. destruct (Nat.ltb_spec (o + 5) e) as [_|X]; [|lia].
    rewrite (rd_at 54 (o + 5) 34%N) by (apply (Rk 5 34%N); reflexivity).
    cbn [bind]. unfold skip_ne_do. replace (S (o + 5)) with (o + 6) by lia.
    rewrite (skip_ne_run 55 34%N v (o + 6) e).
    - cbn [bind]. unfold cont.
      replace (S (o + 6 + length v)) with (o + 6 + length v + 1) by lia. reflexivity.
    - apply (at_sub _ _ _ Ha s_set_attr v [34%N]); [reflexivity|cbn; lia].
    - exact Hv.
    - replace (o + 6 + length v) with (o + (6 + length v)) by lia. apply Rk.
      change s_set_attr with ([32;115;101;116;61;34]%N). cbn [app].
      change (6 + length v) with (S (S (S (S (S (S (length v))))))). cbn [nth_error].
      rewrite nth_error_app2 by lia. rewrite Nat.sub_diag. reflexivity.
    - lia.
  Qed.

  Lemma attr_value : forall f o e att l v,
    at_ content o (s_value_attr ++ v ++ [34%N]) -> ~ In 34%N v -> o + 8 + length v + 1 <= e ->
    loop_attrs content (S f) o e att l =
    bind (set_attr content l 2 (o + 8) (o + 8 + length v)) (fun l' => cont f (o + 8 + length v + 1) e 2 l').
  Proof.
    intros f o e att l v Ha Hv He. cbn [loop_attrs].
    assert (Rk : forall k c, nth_error (s_value_attr ++ v ++ [34%N]) k = Some c -> nth_error content (o + k) = Some c)
      by (intros k c Hk; apply (at_nth _ _ _ Ha k c Hk); reflexivity).
    unfold skip_eq at 1.
    rewrite (skip_while_run 51 (fun ch => N.eqb ch tpp_SpaceChar) [32%N] (e - o) o e 118%N);
      [|apply (at_sub _ _ _ Ha [] [32%N] ([118;97;108;117;101;61;34]%N ++ v ++ [34%N])); [reflexivity|cbn; lia]
       |reflexivity|apply (Rk 1 118%N); reflexivity|reflexivity|cbn [length]; lia|cbn [length]; lia].
    cbn [bind length].
    destruct (Nat.ltb_spec (o + 1) e) as [_|X]; [|lia].
    unfold loop_attr_name. rewrite (rd_at 46 (o + 1) 118%N) by (apply (Rk 1 118%N); reflexivity). cbn [bind].
    change (N.eqb 118 tpp_SetSortChar) with false. change (N.eqb 118 tpp_ValueChar) with true. cbv iota.
    unfold word_at at 1. change (length tpp_Value) with 5. destruct (Nat.ltb_spec 5 (e - (o + 1))) as [_|X]; [|lia].
    rewrite is_equal_at_true
      by (apply (at_sub _ _ _ Ha [32%N] tpp_Value ([61;34]%N ++ v ++ [34%N])); [reflexivity|cbn; lia]).
    cbn [bind]. unfold tpp_ValueLength.
    cbn [bind]. replace (o + 1 + 5) with (o + 6) by lia.
    rewrite (skip_ne_stop 52 tpp_EqualChar (o + 6) e); [|apply (Rk 6 61%N); reflexivity|lia].
    cbn [bind]. unfold skip_eq_do. replace (S (o + 6)) with (o + 7) by lia.
    rewrite (skip_eq_stop 53 tpp_SpaceChar 34%N (o + 7) e); [|apply (Rk 7 34%N); reflexivity|discriminate|lia].
    cbn [bind]. destruct (Nat.ltb_spec (o + 7) e) as [_|X]; [|lia].
    rewrite (rd_at 54 (o + 7) 34%N) by (apply (Rk 7 34%N); reflexivity).
    cbn [bind]. unfold skip_ne_do. replace (S (o + 7)) with (o + 8) by lia.
    rewrite (skip_ne_run 55 34%N v (o + 8) e).
    - cbn [bind]. unfold cont.
      replace (S (o + 8 + length v)) with (o + 8 + length v + 1) by lia. reflexivity.
    - apply (at_sub _ _ _ Ha s_value_attr v [34%N]); [reflexivity|cbn; lia].
    - exact Hv.
    - replace (o + 8 + length v) with (o + (8 + length v)) by lia. apply Rk.
      change s_value_attr with ([32;118;97;108;117;101;61;34]%N). cbn [app].
      change (8 + length v) with (S (S (S (S (S (S (S (S (length v))))))))). cbn [nth_error].
      rewrite nth_error_app2 by lia. rewrite Nat.sub_diag. reflexivity.
    - lia.
  Qed.

  Lemma attr_group : forall f o e att l v,
    at_ content o (s_group_attr ++ v ++ [34%N]) -> ~ In 34%N v -> o + 8 + length v + 1 <= e ->
    loop_attrs content (S f) o e att l =
    bind (set_attr content l 4 (o + 8) (o + 8 + length v)) (fun l' => cont f (o + 8 + length v + 1) e 4 l').
  Proof.
    intros f o e att l v Ha Hv He. cbn [loop_attrs].
    assert (Rk : forall k c, nth_error (s_group_attr ++ v ++ [34%N]) k = Some c -> nth_error content (o + k) = Some c)
      by (intros k c Hk; apply (at_nth _ _ _ Ha k c Hk); reflexivity).
    unfold skip_eq at 1.
    rewrite (skip_while_run 51 (fun ch => N.eqb ch tpp_SpaceChar) [32%N] (e - o) o e 103%N);
      [|apply (at_sub _ _ _ Ha [] [32%N] ([103;114;111;117;112;61;34]%N ++ v ++ [34%N])); [reflexivity|cbn; lia]
       |reflexivity|apply (Rk 1 103%N); reflexivity|reflexivity|cbn [length]; lia|cbn [length]; lia].
    cbn [bind length].
    destruct (Nat.ltb_spec (o + 1) e) as [_|X]; [|lia].
    unfold loop_attr_name. rewrite (rd_at 46 (o + 1) 103%N) by (apply (Rk 1 103%N); reflexivity). cbn [bind].
    change (N.eqb 103 tpp_SetSortChar) with false. change (N.eqb 103 tpp_ValueChar) with false. change (N.eqb 103 tpp_GroupChar) with true. cbv iota.
    unfold word_at at 1. change (length tpp_Group) with 5. destruct (Nat.ltb_spec 5 (e - (o + 1))) as [_|X]; [|lia].
    rewrite is_equal_at_true
      by (apply (at_sub _ _ _ Ha [32%N] tpp_Group ([61;34]%N ++ v ++ [34%N])); [reflexivity|cbn; lia]).
    cbn [bind]. unfold tpp_GroupLength.
    cbn [bind]. replace (o + 1 + 5) with (o + 6) by lia.
    rewrite (skip_ne_stop 52 tpp_EqualChar (o + 6) e); [|apply (Rk 6 61%N); reflexivity|lia].
    cbn [bind]. unfold skip_eq_do. replace (S (o + 6)) with (o + 7) by lia.
    rewrite (skip_eq_stop 53 tpp_SpaceChar 34%N (o + 7) e); [|apply (Rk 7 34%N); reflexivity|discriminate|lia].
    cbn [bind]. destruct (Nat.ltb_spec (o + 7) e) as [_|X]; [|lia].
    rewrite (rd_at 54 (o + 7) 34%N) by (apply (Rk 7 34%N); reflexivity).
    cbn [bind]. unfold skip_ne_do. replace (S (o + 7)) with (o + 8) by lia.
    rewrite (skip_ne_run 55 34%N v (o + 8) e).
    - cbn [bind]. unfold cont.
      replace (S (o + 8 + length v)) with (o + 8 + length v + 1) by lia. reflexivity.
    - apply (at_sub _ _ _ Ha s_group_attr v [34%N]); [reflexivity|cbn; lia].
    - exact Hv.
    - replace (o + 8 + length v) with (o + (8 + length v)) by lia. apply Rk.
      change s_group_attr with ([32;103;114;111;117;112;61;34]%N). cbn [app].
      change (8 + length v) with (S (S (S (S (S (S (S (S (length v))))))))). cbn [nth_error].
      rewrite nth_error_app2 by lia. rewrite Nat.sub_diag. reflexivity.
    - lia.
  Qed.

  Definition s_sort_pre : list N := [32; 115; 111; 114; 116; 61; 34]%N.

  Lemma attr_sort : forall f o e att l v,
    at_ content o (s_sort_pre ++ v ++ [34%N]) -> ~ In 34%N v -> o + 7 + length v + 1 <= e ->
    loop_attrs content (S f) o e att l =
    bind (set_attr content l 3 (o + 7) (o + 7 + length v)) (fun l' => cont f (o + 7 + length v + 1) e 3 l').
  Proof.
    intros f o e att l v Ha Hv He. cbn [loop_attrs].
    assert (Rk : forall k c, nth_error (s_sort_pre ++ v ++ [34%N]) k = Some c -> nth_error content (o + k) = Some c)
      by (intros k c Hk; apply (at_nth _ _ _ Ha k c Hk); reflexivity).
    unfold skip_eq at 1.
    rewrite (skip_while_run 51 (fun ch => N.eqb ch tpp_SpaceChar) [32%N] (e - o) o e 115%N);
      [|apply (at_sub _ _ _ Ha [] [32%N] ([115;111;114;116;61;34]%N ++ v ++ [34%N])); [reflexivity|cbn; lia]
       |reflexivity|apply (Rk 1 115%N); reflexivity|reflexivity|cbn [length]; lia|cbn [length]; lia].
    cbn [bind length].
    destruct (Nat.ltb_spec (o + 1) e) as [_|X]; [|lia].
    unfold loop_attr_name. rewrite (rd_at 46 (o + 1) 115%N) by (apply (Rk 1 115%N); reflexivity). cbn [bind].
    change (N.eqb 115 tpp_SetSortChar) with true. cbv iota.
    unfold word_at at 1. change (length tpp_Set) with 3. destruct (Nat.ltb_spec 3 (e - (o + 1))) as [_|X]; [|lia].
    change tpp_Set with [115;101;116]%N. cbn [is_equal_at].
    rewrite (rd_at 47 (o + 1) 115%N) by (apply (Rk 1 115%N); reflexivity). cbn [bind]. change (N.eqb 115 115) with true. cbv iota.
    rewrite (rd_at 47 (S (o + 1)) 111%N) by (replace (S (o + 1)) with (o + 2) by lia; apply (Rk 2 111%N); reflexivity).
    cbn [bind]. change (N.eqb 111 101) with false. cbv iota.
    unfold word_at at 1. change (length tpp_Sort) with 4. destruct (Nat.ltb_spec 4 (e - (o + 1))) as [_|X]; [|lia].
    rewrite is_equal_at_true
      by (apply (at_sub _ _ _ Ha [32%N] tpp_Sort ([61;34]%N ++ v ++ [34%N])); [reflexivity|cbn; lia]).
    cbn [bind]. unfold tpp_SortLength.
    cbn [bind]. replace (o + 1 + 4) with (o + 5) by lia.
    rewrite (skip_ne_stop 52 tpp_EqualChar (o + 5) e); [|apply (Rk 5 61%N); reflexivity|lia].
    cbn [bind]. unfold skip_eq_do. replace (S (o + 5)) with (o + 6) by lia.
    rewrite (skip_eq_stop 53 tpp_SpaceChar 34%N (o + 6) e); [|apply (Rk 6 34%N); reflexivity|discriminate|lia].
    cbn [bind]. destruct (Nat.ltb_spec (o + 6) e) as [_|X]; [|lia].
    rewrite (rd_at 54 (o + 6) 34%N) by (apply (Rk 6 34%N); reflexivity).
    cbn [bind]. unfold skip_ne_do. replace (S (o + 6)) with (o + 7) by lia.
    rewrite (skip_ne_run 55 34%N v (o + 7) e).
    - cbn [bind]. unfold cont.
      replace (S (o + 7 + length v)) with (o + 7 + length v + 1) by lia. reflexivity.
    - apply (at_sub _ _ _ Ha s_sort_pre v [34%N]); [reflexivity|cbn; lia].
    - exact Hv.
    - replace (o + 7 + length v) with (o + (7 + length v)) by lia. apply Rk.
      change s_sort_pre with ([32;115;111;114;116;61;34]%N). cbn [app].
      change (7 + length v) with (S (S (S (S (S (S (S (length v)))))))). cbn [nth_error].
      rewrite nth_error_app2 by lia. rewrite Nat.sub_diag. reflexivity.
    - lia.
  Qed.
End Scan.

Lemma t16_small : forall n, n <= 255 -> t16 n = N.of_nat n.
Proof. intros n H. unfold t16. lia. Qed.

(* ---- the whole head of a printed loop ---- *)
Definition up_set (l : looprec) (v : vtag) : looprec :=
  mkL (l_off l) (l_end l) (l_coff l) (l_voff l) (l_vlen l) (l_goff l) (l_glen l) (l_opts l) (l_level l) v (l_parent l).
Definition up_val (l : looprec) (a b : N) : looprec :=
  mkL (l_off l) (l_end l) (l_coff l) a b (l_goff l) (l_glen l) (l_opts l) (l_level l) (l_set l) (l_parent l).
Definition up_grp (l : looprec) (a b : N) : looprec :=
  mkL (l_off l) (l_end l) (l_coff l) (l_voff l) (l_vlen l) a b (l_opts l) (l_level l) (l_set l) (l_parent l).
Definition up_opts (l : looprec) (o : N) : looprec :=
  mkL (l_off l) (l_end l) (l_coff l) (l_voff l) (l_vlen l) (l_goff l) (l_glen l) o (l_level l) (l_set l) (l_parent l).

Definition r_sort (sort : N) (l : looprec) : looprec :=
  match sort with 0%N => l | 1%N => up_opts l (N.lor (l_opts l) 2) | _ => up_opts l (N.lor (l_opts l) 4) end.
Definition r_grp (o : nat) (group : list N) (l : looprec) : looprec :=
  match group with [] => l | _ => up_grp l (t8 (o + 8 - l_off l)) (t8 (length group)) end.
Definition r_val (o : nat) (val : list N) (l : looprec) : looprec :=
  match val with [] => l | _ => up_val l (t8 (o + 8 - l_off l)) (t8 (length val)) end.
Definition r_set (env : list (list N * loopinfo)) (o : nat) (set : option path) (l : looprec) : looprec :=
  match set with Some p => up_set l (vt_of env (o + 6) p) | None => l end.

Lemma wf_name_no34 : forall s, wf_name s = true -> ~ In 34%N s.
Proof.
  intros s H Hin. unfold wf_name in H. rewrite forallb_forall in H. destruct (namec_not _ (H _ Hin)) as (_ & _ & _ & _ & _ & X & _).
  apply X. reflexivity.
Qed.

Section Head.
  Variable content : list N.
  Variable e : nat.

  Lemma tail_end : forall f att l, cont content f e e att l = Ok l.
  Proof. intros. unfold cont. rewrite Nat.ltb_irrefl. reflexivity. Qed.

  Lemma tail_sort : forall sort f o att l,
    at_ content o (hp_sort sort ++ [62%N]) -> e = o + length (hp_sort sort) -> e - o < f ->
    cont content f o e att l = Ok (r_sort sort l).
  Proof.
    intros sort f o att l Ha He Hf.
    destruct sort as [|[q|q|]].
    - cbn [hp_sort length] in He. rewrite Nat.add_0_r in He. subst o. apply tail_end.
    - change (hp_sort (N.pos q~1)) with (s_sort_pre ++ [100;101;115;99;101;110;100]%N ++ [34%N]) in *.
      cbn [length app s_sort_pre] in He.
      unfold cont. destruct (Nat.ltb_spec o e) as [_|X]; [|lia]. destruct f as [|f]; [lia|].
      apply at_app in Ha. destruct Ha as [Ha _].
      rewrite (attr_sort content f o e att l [100;101;115;99;101;110;100]%N Ha); [| |cbn [length]; lia].
      2:{ cbn. intros H. repeat (destruct H as [H|H]; [discriminate H|]). exact H. }
      unfold set_attr. rewrite (rd_at content 43 (o + 7) 100%N).
      2:{ apply (at_nth _ _ _ Ha 7 100%N); reflexivity. }
      cbn [bind]. change (N.eqb 100 tpp_SortAscendChar) with false. cbv iota.
      cbn [length]. replace (o + 7 + 7 + 1) with e by lia. rewrite tail_end. reflexivity.
    - change (hp_sort (N.pos q~0)) with (s_sort_pre ++ [100;101;115;99;101;110;100]%N ++ [34%N]) in *.
      cbn [length app s_sort_pre] in He.
      unfold cont. destruct (Nat.ltb_spec o e) as [_|X]; [|lia]. destruct f as [|f]; [lia|].
      apply at_app in Ha. destruct Ha as [Ha _].
      rewrite (attr_sort content f o e att l [100;101;115;99;101;110;100]%N Ha); [| |cbn [length]; lia].
      2:{ cbn. intros H. repeat (destruct H as [H|H]; [discriminate H|]). exact H. }
      unfold set_attr. rewrite (rd_at content 43 (o + 7) 100%N).
      2:{ apply (at_nth _ _ _ Ha 7 100%N); reflexivity. }
      cbn [bind]. change (N.eqb 100 tpp_SortAscendChar) with false. cbv iota.
      cbn [length]. replace (o + 7 + 7 + 1) with e by lia. rewrite tail_end. reflexivity.
    - change (hp_sort 1) with (s_sort_pre ++ [97;115;99;101;110;100]%N ++ [34%N]) in *.
      cbn [length app s_sort_pre] in He.
      unfold cont. destruct (Nat.ltb_spec o e) as [_|X]; [|lia]. destruct f as [|f]; [lia|].
      apply at_app in Ha. destruct Ha as [Ha _].
      rewrite (attr_sort content f o e att l [97;115;99;101;110;100]%N Ha); [| |cbn [length]; lia].
      2:{ cbn. intros H. repeat (destruct H as [H|H]; [discriminate H|]). exact H. }
      unfold set_attr. rewrite (rd_at content 43 (o + 7) 97%N).
      2:{ apply (at_nth _ _ _ Ha 7 97%N); reflexivity. }
      cbn [bind]. change (N.eqb 97 tpp_SortAscendChar) with true. cbv iota.
      cbn [length]. replace (o + 7 + 6 + 1) with e by lia. rewrite tail_end. reflexivity.
  Qed.

  Lemma tail_grp : forall group sort f o att l,
    at_ content o (hp_grp group ++ hp_sort sort ++ [62%N]) -> e = o + length (hp_grp group) + length (hp_sort sort) ->
    wf_name group = true -> l_off l <= o -> e - o < f ->
    cont content f o e att l = Ok (r_sort sort (r_grp o group l)).
  Proof.
    intros group sort f o att l Ha He Hw Hlo Hf.
    destruct group as [|g0 gr].
    - cbn [hp_grp app length] in *. apply (tail_sort sort f o att l Ha); lia.
    - set (g := g0 :: gr) in *.
      change (hp_grp g) with (s_group_attr ++ g ++ [34%N]) in *.
      repeat rewrite app_length in He. cbn [length s_group_attr] in He.
      unfold cont. destruct (Nat.ltb_spec o e) as [_|X]; [|lia]. destruct f as [|f]; [lia|].
      pose proof (at_app _ _ _ _ Ha) as [Ha1 Ha2].
      rewrite (attr_group content f o e att l g Ha1 (wf_name_no34 g Hw)) by lia.
      unfold set_attr. rewrite csub_eq by lia. cbn [bind]. rewrite csub_eq by lia. cbn [bind].
      replace (o + 8 + length g - (o + 8)) with (length g) by lia.
      rewrite (tail_sort sort f (o + 8 + length g + 1) 4).
      + reflexivity.
      + repeat rewrite app_length in Ha2. cbn [length s_group_attr] in Ha2.
        replace (o + 8 + length g + 1) with (o + (8 + (length g + 1))) by lia. exact Ha2.
      + lia.
      + lia.
  Qed.

  Lemma tail_val : forall val group sort f o att l,
    at_ content o (hp_val val ++ hp_grp group ++ hp_sort sort ++ [62%N]) ->
    e = o + length (hp_val val) + length (hp_grp group) + length (hp_sort sort) ->
    wf_name val = true -> wf_name group = true -> l_off l <= o -> e - o < f ->
    cont content f o e att l = Ok (r_sort sort (r_grp (o + length (hp_val val)) group (r_val o val l))).
  Proof.
    intros val group sort f o att l Ha He Hwv Hw Hlo Hf.
    destruct val as [|v0 vr].
    - cbn [hp_val app length] in *. rewrite Nat.add_0_r. apply (tail_grp group sort f o att l Ha); try assumption; lia.
    - set (v := v0 :: vr) in *.
      change (hp_val v) with (s_value_attr ++ v ++ [34%N]) in *.
      repeat rewrite app_length in He. repeat rewrite app_length. cbn [length s_value_attr] in He |- *.
      unfold cont. destruct (Nat.ltb_spec o e) as [_|X]; [|lia]. destruct f as [|f]; [lia|].
      pose proof (at_app _ _ _ _ Ha) as [Ha1 Ha2].
      rewrite (attr_value content f o e att l v Ha1 (wf_name_no34 v Hwv)) by lia.
      unfold set_attr. rewrite csub_eq by lia. cbn [bind]. rewrite csub_eq by lia. cbn [bind].
      replace (o + 8 + length v - (o + 8)) with (length v) by lia.
      replace (o + (8 + (length v + 1))) with (o + 8 + length v + 1) by lia.
      rewrite (tail_grp group sort f (o + 8 + length v + 1) 2).
      + reflexivity.
      + repeat rewrite app_length in Ha2. cbn [length s_value_attr] in Ha2.
        replace (o + 8 + length v + 1) with (o + (8 + (length v + 1))) by lia. exact Ha2.
      + lia.
      + exact Hw.
      + cbn [l_off]. lia.
      + lia.
  Qed.
End Head.

Lemma print_idx_chars : forall idx c, forallb wf_name idx = true -> In c (print_idx idx) -> c = 91%N \/ c = 93%N \/ namec c = true.
Proof.
  intros idx; induction idx as [|i r IH]; intros c Hw Hin; [destruct Hin|].
  cbn [forallb] in Hw. apply andb_prop in Hw. destruct Hw as [Hi Hr].
  cbn [print_idx] in Hin. unfold ch_lbr, ch_rbr in Hin.
  destruct Hin as [E|Hin]; [left; symmetry; exact E|].
  apply in_app_or in Hin. destruct Hin as [Hin|Hin].
  - right. right. unfold wf_name in Hi. rewrite forallb_forall in Hi. apply Hi. exact Hin.
  - destruct Hin as [E|Hin]; [right; left; symmetry; exact E|]. apply IH; assumption.
Qed.

Lemma print_path_chars : forall p c, TfullModel.wf_path p = true -> In c (print_path p) -> c = 91%N \/ c = 93%N \/ namec c = true.
Proof.
  intros [nm idx] c Hw Hin. unfold TfullModel.wf_path in Hw. cbn [fst snd] in Hw.
  apply andb_prop in Hw. destruct Hw as [Hw _]. apply andb_prop in Hw. destruct Hw as [Hw Hidx].
  apply andb_prop in Hw. destruct Hw as [Hnm _].
  change (print_path (nm, idx)) with (nm ++ print_idx idx) in Hin. apply in_app_or in Hin. destruct Hin as [Hin|Hin].
  - right. right. unfold wf_name in Hnm. rewrite forallb_forall in Hnm. apply Hnm. exact Hin.
  - apply (print_idx_chars idx c Hidx Hin).
Qed.

Lemma print_path_no : forall p c, TfullModel.wf_path p = true -> c <> 91%N -> c <> 93%N -> namec c = false -> ~ In c (print_path p).
Proof.
  intros p c Hw H1 H2 H3 Hin. destruct (print_path_chars p c Hw Hin) as [E|[E|E]]; [contradiction|contradiction|].
  rewrite E in H3. discriminate H3.
Qed.

Section Head2.
  Variable content : list N.
  Variable e : nat.

  Lemma tail_set : forall env set val group sort f o att l,
    at_ content o (hp_set set ++ hp_val val ++ hp_grp group ++ hp_sort sort ++ [62%N]) ->
    e = o + length (hp_set set) + length (hp_val val) + length (hp_grp group) + length (hp_sort sort) ->
    match set with Some p => TfullModel.wf_path p = true | None => True end ->
    wf_name val = true -> wf_name group = true -> l_off l <= o -> e - o < f ->
    env_in content env -> l_parent l = map snd env -> l_set l = mkV 0 0 0 0 ->
    cont content f o e att l =
    Ok (r_sort sort (r_grp (o + length (hp_set set) + length (hp_val val)) group (r_val (o + length (hp_set set)) val (r_set env o set l)))).
  Proof.
    intros env set val group sort f o att l Ha He Hws Hwv Hw Hlo Hf Henv Hpar Hset.
    destruct set as [p|].
    - set (pp := print_path p) in *.
      change (hp_set (Some p)) with (s_set_attr ++ pp ++ [34%N]) in *.
      repeat rewrite app_length in He. repeat rewrite app_length. cbn [length s_set_attr] in He |- *.
      pose proof (wf_path_len p Hws) as Hpl. fold pp in Hpl.
      unfold cont. destruct (Nat.ltb_spec o e) as [_|X]; [|lia]. destruct f as [|f]; [lia|].
      pose proof (at_app _ _ _ _ Ha) as [Ha1 Ha2].
      assert (H34 : ~ In 34%N pp) by (apply print_path_no; [exact Hws|discriminate|discriminate|reflexivity]).
      rewrite (attr_set content f o e att l pp Ha1 H34) by lia.
      unfold set_attr. rewrite csub_eq by lia. cbn [bind].
      replace (o + 6 + length pp - (o + 6)) with (length pp) by lia.
      rewrite Hset, Hpar. cbn [v_idlen v_level]. rewrite t16_small by lia.
      rewrite (clv_annot content env (o + 6) (N.of_nat (length pp)) pp 34%N Henv); [| |reflexivity].
      2:{ apply (at_sub _ _ _ Ha1 s_set_attr (pp ++ [34%N]) []); [rewrite app_nil_r; reflexivity|cbn; lia]. }
      cbn [bind].
      replace (o + (6 + (length pp + 1))) with (o + 6 + length pp + 1) by lia.
      rewrite (tail_val content e val group sort f (o + 6 + length pp + 1) 1).
      + unfold r_set, vt_of, up_set. fold pp. rewrite Hpar. reflexivity.
      + repeat rewrite app_length in Ha2. cbn [length s_set_attr] in Ha2.
        replace (o + 6 + length pp + 1) with (o + (6 + (length pp + 1))) by lia. exact Ha2.
      + lia.
      + exact Hwv.
      + exact Hw.
      + cbn [l_off]. lia.
      + lia.
    - cbn [hp_set app length r_set] in *. rewrite Nat.add_0_r in *.
      apply (tail_val content e val group sort f o att l Ha); try assumption; lia.
  Qed.

  Lemma loop_attrs_at_end : forall f att l, loop_attrs content (S f) e e att l = Ok l.
  Proof.
    intros f att l. cbn [loop_attrs]. unfold skip_eq, skip_ne, skip_eq_do, skip_eq. rewrite Nat.sub_diag. cbn [skip_while].
    rewrite Nat.ltb_irrefl. cbn [bind]. rewrite Nat.ltb_irrefl. cbn [bind]. rewrite Nat.sub_diag. cbn [skip_while].
    rewrite Nat.ltb_irrefl. cbn [bind].
    replace (e - S e) with 0 by lia. cbn [skip_while].
    destruct (Nat.ltb_spec (S e) e) as [X|_]; [lia|]. cbn [bind].
    destruct (Nat.ltb_spec (S e) e) as [X|_]; [lia|]. reflexivity.
  Qed.

  Lemma loop_attrs_cont : forall f o att l, o <= e -> loop_attrs content (S f) o e att l = cont content (S f) o e att l.
  Proof.
    intros f o att l H. unfold cont. destruct (Nat.ltb_spec o e) as [_|X]; [reflexivity|].
    assert (o = e) by lia. subst o. apply loop_attrs_at_end.
  Qed.
End Head2.

(* ---- the characters of a printed head ---- *)
Definition okc (c : N) : bool := negb (N.eqb c 62) && plain_char c.

Lemma namec_okc : forall c, namec c = true -> okc c = true.
Proof.
  intros c H. destruct (namec_not c H) as (A & B & C & D & E & F & G). unfold okc, plain_char.
  repeat (apply andb_true_intro; split); apply negb_true_iff; apply N.eqb_neq; assumption.
Qed.
Lemma name_okc : forall s, wf_name s = true -> forallb okc s = true.
Proof.
  intros s H. apply forallb_forall. intros c Hc. apply namec_okc. unfold wf_name in H. rewrite forallb_forall in H. apply H. exact Hc.
Qed.
Lemma path_okc : forall p, TfullModel.wf_path p = true -> forallb okc (print_path p) = true.
Proof.
  intros p H. apply forallb_forall. intros c Hc. destruct (print_path_chars p c H Hc) as [->|[->|E]]; [reflexivity|reflexivity|].
  apply namec_okc. exact E.
Qed.

Definition attrs (set : option path) (val group : list N) (sort : N) : list N := hp_set set ++ hp_val val ++ hp_grp group ++ hp_sort sort.

Lemma attrs_okc : forall set val group sort,
  match set with Some p => TfullModel.wf_path p = true | None => True end -> wf_name val = true -> wf_name group = true ->
  forallb okc (attrs set val group sort) = true.
Proof.
  intros set val group sort Hs Hv Hg. unfold attrs. repeat rewrite forallb_app.
  repeat (apply andb_true_intro; split).
  - destruct set as [p|]; [|reflexivity]. unfold hp_set. repeat rewrite forallb_app. rewrite (path_okc p Hs). reflexivity.
  - destruct val as [|v0 vr]; [reflexivity|]. unfold hp_val. repeat rewrite forallb_app. rewrite (name_okc _ Hv). reflexivity.
  - destruct group as [|g0 gr]; [reflexivity|]. unfold hp_grp. repeat rewrite forallb_app. rewrite (name_okc _ Hg). reflexivity.
  - destruct sort as [|[q|q|]]; reflexivity.
Qed.

Lemma loop_head_attrs : forall set val group sort, loop_head set val group sort = s_loop_open ++ attrs set val group sort ++ [62%N].
Proof. intros. rewrite loop_head_parts. unfold attrs. repeat rewrite <- app_assoc. reflexivity. Qed.

Definition up_end (l : looprec) (x : nat) : looprec :=
  mkL (l_off l) x (l_coff l) (l_voff l) (l_vlen l) (l_goff l) (l_glen l) (l_opts l) (l_level l) (l_set l) (l_parent l).
Definition up_coff (l : looprec) (x : N) : looprec :=
  mkL (l_off l) (l_end l) x (l_voff l) (l_vlen l) (l_goff l) (l_glen l) (l_opts l) (l_level l) (l_set l) (l_parent l).

Lemma head_rec : forall env depth off set val group sort bl,
  head_len set val group sort <= 255 ->
  up_coff (r_sort sort (r_grp (off + 5 + length (hp_set set) + length (hp_val val)) group
            (r_val (off + 5 + length (hp_set set)) val
              (r_set env (off + 5) set (mkL off 0 0 0 0 0 0 0 (N.of_nat depth) (mkV 0 0 0 0) (map snd env))))))
          (t16 (length (loop_head set val group sort)))
  = up_end (loop_rec env depth off set val group sort bl) 0.
Proof.
  intros env depth off set val group sort bl H. unfold head_len in H. rewrite loop_head_parts in *.
  destruct set as [p|], val as [|v0 vr], group as [|g0 gr], sort as [|[q|q|]];
    unfold hp_set, hp_val, hp_grp, hp_sort in *; repeat rewrite app_length in *;
    cbn [length s_loop_open s_set_attr s_quote s_value_attr s_group_attr s_sort_asc s_sort_desc s_gt app] in *;
    unfold loop_rec, up_end, up_coff, r_sort, r_grp, r_val, r_set, up_opts, up_grp, up_val, up_set, tpp_SortAscend, tpp_SortDescend;
    cbn [l_off l_end l_coff l_voff l_vlen l_goff l_glen l_opts l_level l_set l_parent length];
    rewrite ?t8_small by lia; rewrite ?t16_small by lia;
    f_equal; try reflexivity; try (f_equal; lia); try lia.
Qed.

Lemma okc_plain : forall s, forallb okc s = true -> forallb plain_char s = true.
Proof.
  intros s H. apply forallb_forall. intros c Hc. rewrite forallb_forall in H. specialize (H c Hc). unfold okc in H.
  apply andb_prop in H. exact (proj2 H).
Qed.
Lemma okc_no62 : forall s, forallb okc s = true -> ~ In 62%N s.
Proof. intros s H Hin. rewrite forallb_forall in H. specialize (H _ Hin). discriminate H. Qed.

Lemma next_spec_c8_ge : forall s off, off <= snd (next_spec_c8 s off).
Proof.
  intros s off. destruct (next_spec_c8 s off) as [m o] eqn:E.
  destruct (next_spec_facts _ _ _ c8_single_not_first c8_words_ok _ _ _ _ E) as (F1 & _). exact F1.
Qed.

Section Sim.
  Variable numf : list N -> N * N * nat.
  Variable w : N.
  Variable content : list N.

  Lemma do_loop_sim : forall env depth stk cur pre set val group sort rest bl fm,
    content = pre ++ loop_head set val group sort ++ rest ->
    match set with Some p => TfullModel.wf_path p = true | None => True end -> wf_name val = true -> wf_name group = true ->
    head_len set val group sort <= 255 -> depth <= 255 -> length stk = depth -> env_in content env ->
    do_loop w content (mkS (length pre + 5) fm stk cur false (map snd env)) =
    let l2 := up_end (loop_rec env depth (length pre) set val group sort bl) 0 in
    let mo := next_spec_c8 rest (length pre + length (loop_head set val group sort)) in
    Ok (mkS (snd mo) (fst mo) ((cur ++ [PLoop l2 []]) :: stk) [] false (info_of l2 :: map snd env)).
  Proof.
    intros env depth stk cur pre set val group sort rest bl fm Hc Hs Hv Hg Hhl Hd Hstk Henv.
    set (at0 := attrs set val group sort).
    assert (Hok : forallb okc at0 = true) by (apply attrs_okc; assumption).
    assert (Hhead : loop_head set val group sort = s_loop_open ++ at0 ++ [62%N]) by apply loop_head_attrs.
    assert (Hhl' : length (loop_head set val group sort) = 5 + length at0 + 1)
      by (rewrite Hhead; repeat rewrite app_length; cbn [length s_loop_open]; lia).
    unfold head_len in Hhl.
    assert (Hc2 : content = (pre ++ s_loop_open) ++ (at0 ++ [62%N]) ++ rest) by (rewrite Hc, Hhead; repeat rewrite <- app_assoc; reflexivity).
    assert (Hat : at_ content (length pre + 5) (at0 ++ [62%N])).
    { replace (length pre + 5) with (length (pre ++ s_loop_open)) by (rewrite app_length; reflexivity). apply (at_split _ _ _ _ Hc2). }
    cbv zeta. unfold do_loop. cbn [ps_fo ps_stack ps_chain ps_child].
    rewrite csub_eq by (unfold tpp_LoopPrefixLength; lia). cbn [bind].
    replace (length pre + 5 - tpp_LoopPrefixLength) with (length pre) by (unfold tpp_LoopPrefixLength; lia).
    assert (Hfn : fnext w content (length pre + 5) = Ok (next_spec_c8 rest (length pre + length (loop_head set val group sort)))).
    { replace (length pre + 5) with (length (pre ++ s_loop_open)) by (rewrite app_length; reflexivity).
      rewrite Hc2 at 1. rewrite fnext_at. rewrite spec_plain.
      - replace (length (pre ++ s_loop_open) + length (at0 ++ [62%N])) with (length pre + length (loop_head set val group sort))
          by (rewrite Hhl'; repeat rewrite app_length; cbn [length s_loop_open]; lia).
        destruct (next_spec_c8 rest (length pre + length (loop_head set val group sort))); reflexivity.
      - rewrite forallb_app. rewrite (okc_plain _ Hok). reflexivity. }
    rewrite Hfn. cbn [bind].
    pose proof (next_spec_c8_ge rest (length pre + length (loop_head set val group sort))) as Hge.
    destruct (next_spec_c8 rest (length pre + length (loop_head set val group sort))) as [m o'] eqn:Emo. cbn [fst snd] in *.
    pose proof (at_app _ _ _ _ Hat) as [Hat1 Hat2].
    rewrite (skip_ne_run content 106 tpp_MultiLineLastChar at0 (length pre + 5) o' Hat1 (okc_no62 _ Hok));
      [|apply (at_nth _ _ _ Hat2 0 62%N eq_refl); lia|lia].
    cbn [bind]. set (e := length pre + 5 + length at0).
    destruct (Nat.ltb_spec e o') as [_|X]; [|unfold e in X; lia].
    cbn [ps_stack andb]. destruct (Nat.leb_spec (length stk) 255) as [_|X]; [|lia].
    unfold parse_loop_attributes. cbn [l_off]. unfold tpp_LoopPrefixLength.
    rewrite (loop_attrs_cont content e) by (unfold e; lia).
    rewrite (tail_set content e env set val group sort _ (length pre + 5) 0%N); try assumption; try reflexivity.
    - cbn [bind]. rewrite csub_eq by (unfold e, tpp_MultiLineSuffixLength; lia). cbn [bind].
      replace (e + tpp_MultiLineSuffixLength - length pre) with (length (loop_head set val group sort))
        by (unfold e, tpp_MultiLineSuffixLength; lia).
      unfold push_tag, with_finder. cbn [ps_fo ps_fm ps_stack ps_cur ps_child ps_chain fst snd].
      rewrite Hstk. rewrite t8_small by lia.
      pose proof (head_rec env depth (length pre) set val group sort bl Hhl) as Hrec.
      unfold up_coff in Hrec at 1. rewrite Hrec. reflexivity.
    - unfold attrs in at0. fold at0. repeat rewrite <- app_assoc in Hat. unfold at0 in Hat. unfold attrs in Hat.
      repeat rewrite <- app_assoc in Hat. exact Hat.
    - unfold e, at0, attrs. repeat rewrite app_length. lia.
    - cbn [l_off]. lia.
    - unfold e. lia.
  Qed.

  Definition tok (pre suf : list N) : N * nat := next_spec_c8 suf (length pre).
  Definition stt (mo : N * nat) (stk : list (list tag)) (cur : list tag) (chain : list loopinfo) : pstate :=
    mkS (snd mo) (fst mo) stk cur false chain.

  Lemma fnext_tok : forall pre suf, content = pre ++ suf -> fnext w content (length pre) = Ok (tok pre suf).
  Proof. intros pre suf H. rewrite H at 1. rewrite fnext_at. unfold tok. destruct (next_spec_c8 suf (length pre)); reflexivity. Qed.

  Lemma main_loop_step : forall f st, ps_fm st <> 0%N -> main_loop numf w content (S f) st = bind (step numf w content st) (main_loop numf w content f).
  Proof. intros f st H. cbn [main_loop]. destruct (N.eqb_spec (ps_fm st) 0) as [E|_]; [contradiction|reflexivity]. Qed.

  Lemma split_last_snoc : forall A (l : list A) x, split_last (l ++ [x]) = Some (l, x).
  Proof. intros A l x; induction l as [|y l IH]; [reflexivity|]. cbn [app split_last]. rewrite IH. reflexivity. Qed.

  (* case VariableID / RawVariableID on a printed variable *)
  Lemma do_var_sim2 : forall mk env stk cur pre op p post fm,
    content = pre ++ (op ++ print_path p ++ s_close) ++ post -> length op = 5 ->
    TfullModel.wf_path p = true -> env_in content env ->
    do_var w content mk (mkS (length pre + 5) fm stk cur false (map snd env)) =
    Ok (stt (tok (pre ++ op ++ print_path p ++ s_close) post) stk (cur ++ [mk (vt_of env (length pre + 5) p)]) (map snd env)).
  Proof.
    intros mk env stk cur pre op p post fm Hc Hop Hw Henv.
    set (pp := print_path p) in *. pose proof (wf_path_len p Hw) as Hpl. fold pp in Hpl.
    assert (Hplain : forallb plain_char pp = true) by (apply okc_plain; apply path_okc; exact Hw).
    assert (Hc5 : content = (pre ++ op) ++ pp ++ s_close ++ post) by (rewrite Hc; repeat rewrite <- app_assoc; reflexivity).
    assert (Hl5 : length (pre ++ op) = length pre + 5) by (rewrite app_length; lia).
    assert (Hfn : fnext w content (length pre + 5) = Ok (1%N, S (length pre + 5 + length pp))).
    { rewrite <- Hl5. rewrite Hc5 at 1. rewrite fnext_at, spec_plain by exact Hplain. rewrite spec_close. rewrite Hl5. reflexivity. }
    assert (Hc6 : content = (pre ++ op ++ pp ++ s_close) ++ post) by (rewrite Hc; repeat rewrite <- app_assoc; reflexivity).
    assert (Hl6 : length (pre ++ op ++ pp ++ s_close) = S (length pre + 5 + length pp))
      by (repeat rewrite app_length; cbn [length s_close]; lia).
    unfold do_var. cbn [ps_fo ps_cur ps_chain]. rewrite Hfn. cbn [bind fst snd].
    change (N.eqb 1 tpp_LineEndID) with true. cbv iota.
    rewrite csub_eq by lia. cbn [bind].
    replace (S (length pre + 5 + length pp) - (length pre + 5)) with (S (length pp)) by lia.
    rewrite csub_eq by (unfold tpp_InLineSuffixLength; lia). cbn [bind].
    replace (S (length pp) - tpp_InLineSuffixLength) with (length pp) by (unfold tpp_InLineSuffixLength; lia).
    rewrite t8_small by lia.
    destruct (N.eqb_spec (N.of_nat (length pp)) 0) as [E|_]; [lia|].
    rewrite (clv_annot content env (length pre + 5) (N.of_nat (length pp)) pp 125%N Henv); [| |reflexivity].
    2:{ rewrite <- Hl5. apply (at_split content (pre ++ op) (pp ++ [125%N]) post). rewrite Hc5. repeat rewrite <- app_assoc. reflexivity. }
    cbn [bind]. rewrite <- Hl6. rewrite (fnext_tok _ post Hc6). cbn [bind].
    unfold with_finder, with_cur, stt, vt_of. cbn [ps_stack ps_cur ps_child ps_chain ps_fo ps_fm]. fold pp. reflexivity.
  Qed.

  (* case LoopEndID, then finder.Next() *)
  Lemma do_loop_end_sim : forall env depth stk cur pre set val group sort body post subs,
    content = pre ++ (loop_head set val group sort ++ print_nodes body ++ s_loop_end) ++ post ->
    let off := length pre in
    let lr := loop_rec env depth off set val group sort (length (print_nodes body)) in
    let l2 := up_end lr 0 in
    let fo := off + length (loop_head set val group sort) + length (print_nodes body) + 7 in
    then_next w content (do_loop_end (mkS fo 8 ((cur ++ [PLoop l2 []]) :: stk) subs false (info_of l2 :: map snd env))) =
    Ok (stt (tok (pre ++ loop_head set val group sort ++ print_nodes body ++ s_loop_end) post) stk (cur ++ [PLoop lr subs]) (map snd env)).
  Proof.
    intros env depth stk cur pre set val group sort body post subs Hc off lr l2 fo.
    pose proof (loop_rec_fields env depth off set val group sort (length (print_nodes body))) as F.
    cbv zeta in F. fold lr in F. destruct F as (F1 & F2 & F3 & F4 & F5 & F6 & F7 & F8).
    unfold do_loop_end. cbn [ps_chain ps_stack ps_fo ps_fm ps_cur ps_child]. rewrite split_last_snoc.
    rewrite csub_eq by (unfold fo, tpp_LoopSuffixLength; lia). cbn [bind].
    unfold l2, up_end. cbn [l_off l_coff l_voff l_vlen l_goff l_glen l_opts l_level l_set l_parent].
    rewrite F1, F3.
    replace (fo - tpp_LoopSuffixLength) with (l_end lr) by (rewrite F2; unfold fo, tpp_LoopSuffixLength; lia).
    destruct (Nat.ltb_spec (l_end lr) (off + length (loop_head set val group sort))) as [X|_]; [rewrite F2 in X; lia|].
    unfold then_next. cbn [bind ps_fo].
    assert (Hfo : fo = length (pre ++ loop_head set val group sort ++ print_nodes body ++ s_loop_end))
      by (unfold fo, off; repeat rewrite app_length; cbn [length s_loop_end]; lia).
    rewrite Hfo. rewrite (fnext_tok _ post) by (rewrite Hc; repeat rewrite <- app_assoc; reflexivity). cbn [bind].
    unfold with_finder, stt. cbn [ps_stack ps_cur ps_child ps_chain].
    replace (mkL (l_off lr) (l_end lr) (l_coff lr) (l_voff lr) (l_vlen lr) (l_goff lr) (l_glen lr) (l_opts lr) (l_level lr) (l_set lr) (l_parent lr))
      with lr by (unfold lr, loop_rec; reflexivity).
    replace (l_parent lr) with (map snd env) by (unfold lr, loop_rec; reflexivity).
    reflexivity.
  Qed.
End Sim.

(* ---- texts without tokens ---- *)
Lemma clash_no_prefix : forall wd r rest, clash wd r = true -> is_prefix_l wd (r ++ rest) = false.
Proof.
  intros wd; induction wd as [|x wd IH]; intros r rest H; [discriminate H|].
  destruct r as [|y r]; [discriminate H|]. cbn [clash] in H. cbn [app is_prefix_l].
  destruct (N.eqb x y); [|reflexivity]. cbn [negb orb andb] in *. apply IH. exact H.
Qed.
Lemma free_after_none : forall g r rest, free_after g r = true -> first_word g (r ++ rest) = None.
Proof.
  intros g; induction g as [|[id wd] g IH]; intros r rest H; [reflexivity|].
  unfold free_after in H. cbn [forallb snd] in H. apply andb_prop in H. destruct H as [H1 H2].
  cbn [first_word]. rewrite (clash_no_prefix wd r rest H1). apply IH. exact H2.
Qed.
Lemma spec_text : forall s r off, wf_text s = true -> next_spec_c8 (s ++ r) off = next_spec_c8 r (off + length s).
Proof.
  intros s; induction s as [|c s IH]; intros r off H; [cbn [app length]; rewrite Nat.add_0_r; reflexivity|].
  cbn [wf_text] in H. apply andb_prop in H. destruct H as [Hc Hs].
  cbn [app length]. unfold next_spec_c8. rewrite next_spec_cons.
  cbn [index_of finder_first_chars_c8]. unfold finder_single_char_c8.
  fold next_spec_c8. replace (off + S (length s)) with (S off + length s) by lia.
  destruct (N.eqb_spec c 125) as [E125|N125]; [discriminate Hc|].
  destruct (N.eqb_spec c 123) as [E123|N123].
  - subst c. cbn [N.eqb Pos.eqb]. rewrite (free_after_none _ s r Hc). apply IH. exact Hs.
  - destruct (N.eqb_spec c 60) as [E60|N60].
    + subst c. cbn [N.eqb Pos.eqb]. rewrite (free_after_none _ s r Hc). apply IH. exact Hs.
    + destruct (N.eqb_spec 123 c) as [X|_]; [congruence|]. destruct (N.eqb_spec 60 c) as [X|_]; [congruence|].
      apply IH. exact Hs.
Qed.

