(* ValueProofs.v -- the Value model refines the abstract document specification:
   node-level commutation lemmas (abs is a homomorphism for every operation),
   lifted to paths, states, steps and histories. *)
From Coq Require Import NArith ZArith List Bool Lia.
From Qv Require Import gen.Tables_value ValueModel.
Import ListNotations.

(* ---- induction principle for the nested type ---- *)
Definition slotP (P : value -> Prop) (o : option (str * value)) : Prop :=
  match o with Some kv => P (snd kv) | None => True end.

Section ValueInd.
  Variable P : value -> Prop.
  Hypothesis HU : forall s, P (Undef s).
  Hypothesis HP : forall i, P (Ptr i).
  Hypothesis HS : forall s, P (Sc s).
  Hypothesis HA : forall l, Forall P l -> P (Arr l).
  Hypothesis HO : forall sl, Forall (slotP P) sl -> P (Obj sl).
  Fixpoint value_ind' (v : value) : P v :=
    match v with
    | Undef s => HU s
    | Ptr i => HP i
    | Sc s => HS s
    | Arr l => HA l ((fix go (l : list value) : Forall P l :=
                        match l with
                        | [] => Forall_nil _
                        | x :: r => Forall_cons _ (value_ind' x) (go r)
                        end) l)
    | Obj sl => HO sl ((fix go (l : slots) : Forall (slotP P) l :=
                          match l with
                          | [] => Forall_nil _
                          | o :: r =>
                            @Forall_cons _ (slotP P) o r
                              (match o return slotP P o with
                               | None => Logic.I
                               | Some kv => value_ind' (snd kv)
                               end) (go r)
                          end) sl)
    end.
End ValueInd.

(* members of an object under abstraction *)
Definition absm (sl : slots) : members := map (fun kv => (fst kv, abs (snd kv))) (live sl).

Lemma abs_obj : forall sl, abs (Obj sl) = DObj (has_hole sl) (absm sl).
Proof.
  intros sl. unfold absm. cbn [abs]. f_equal.
  induction sl as [|[[k x]|] r IH]; cbn [live map fst snd]; [reflexivity| |exact IH].
  f_equal. exact IH.
Qed.

Lemma abs_is_undef : forall v, d_is_undef (abs v) = is_undef v.
Proof. intros [s|i|s|l|sl]; reflexivity. Qed.

Lemma absm_cons_some : forall k x r, absm (Some (k, x) :: r) = (k, abs x) :: absm r.
Proof. reflexivity. Qed.
Lemma absm_cons_none : forall r, absm (None :: r) = absm r.
Proof. reflexivity. Qed.

Lemma find_abs : forall k sl, m_find k (absm sl) = option_map abs (slot_find k sl).
Proof.
  intros k sl. induction sl as [|[[k' x]|] r IH].
  - reflexivity.
  - rewrite absm_cons_some. cbn [m_find slot_find]. destruct (str_eqb k k'); [reflexivity|exact IH].
  - exact IH.
Qed.

Lemma put_abs : forall k f f' sl,
    (forall o, abs (f o) = f' (option_map abs o)) ->
    absm (slot_put k f sl) = m_put k f' (absm sl).
Proof.
  intros k f f' sl Hf. induction sl as [|[[k' x]|] r IH].
  - cbn. rewrite (Hf None). reflexivity.
  - rewrite absm_cons_some. cbn [slot_put m_put]. destruct (str_eqb k k').
    + rewrite absm_cons_some, (Hf (Some x)). reflexivity.
    + rewrite absm_cons_some, IH. reflexivity.
  - cbn [slot_put]. rewrite !absm_cons_none. exact IH.
Qed.

Lemma put_hole : forall k f sl, has_hole (slot_put k f sl) = has_hole sl.
Proof.
  intros k f sl. induction sl as [|[[k' x]|] r IH]; cbn [slot_put].
  - reflexivity.
  - destruct (str_eqb k k'); cbn [has_hole existsb] in *; [reflexivity|exact IH].
  - reflexivity.
Qed.

Lemma remove_abs : forall k sl,
    absm (slot_remove k sl) = snd (m_remove k (absm sl))
    /\ has_hole (slot_remove k sl) = has_hole sl || fst (m_remove k (absm sl)).
Proof.
  intros k sl. induction sl as [|[[k' x]|] r [IH1 IH2]].
  - split; reflexivity.
  - rewrite absm_cons_some. cbn [slot_remove m_remove]. destruct (str_eqb k k').
    + split; [reflexivity|]. cbn. rewrite orb_true_r. reflexivity.
    + rewrite absm_cons_some. destruct (m_remove k (absm r)) as [b m'] eqn:E. cbn [fst snd] in *.
      split; [rewrite IH1; reflexivity|]. cbn [has_hole existsb] in *. exact IH2.
  - cbn [slot_remove]. rewrite !absm_cons_none. split; [exact IH1|]. reflexivity.
Qed.

(* ---- copy and compress ---- *)
Lemma copy_abs : forall v, abs (copy_value v) = d_copy (abs v).
Proof.
  induction v as [s|i|s|l IH|sl IH] using value_ind'; try reflexivity.
  - cbn [copy_value abs d_copy]. f_equal. rewrite !map_map.
    induction IH as [|x r Hx Hr IHr]; [reflexivity|]. cbn [map]. rewrite Hx, IHr. reflexivity.
  - change (copy_value (Obj sl)) with
        (Obj ((fix go (l : slots) : slots :=
                 match l with [] => [] | None :: r => go r | Some (k, x) :: r => Some (k, copy_value x) :: go r end) sl)).
    rewrite !abs_obj. cbn [d_copy]. f_equal.
    + induction sl as [|[[k x]|] r IHr]; [reflexivity| |].
      * inversion IH; subst. cbn [has_hole existsb]. apply IHr; assumption.
      * inversion IH; subst. cbn [has_hole existsb]. apply IHr; assumption.
    + induction sl as [|[[k x]|] r IHr]; [reflexivity| |]; inversion IH as [|? ? Hx Hr]; subst.
      * rewrite !absm_cons_some. cbn [map fst snd]. rewrite Hx, (IHr Hr). reflexivity.
      * rewrite absm_cons_none. exact (IHr Hr).
Qed.

Lemma compress_abs : forall v, abs (compress v) = d_compact (abs v).
Proof.
  induction v as [s|i|s|l IH|sl IH] using value_ind'; try reflexivity.
  - change (compress (Arr l)) with
        (Arr ((fix go (l : list value) : list value :=
                 match l with [] => [] | x :: r => if is_undef x then go r else compress x :: go r end) l)).
    cbn [abs d_compact]. f_equal.
    induction IH as [|x r Hx Hr IHr]; [reflexivity|]. cbn [map]. rewrite abs_is_undef.
    destruct (is_undef x); [exact IHr|]. cbn [map]. rewrite Hx, IHr. reflexivity.
  - change (compress (Obj sl)) with
        (Obj ((fix go (l : slots) : slots :=
                 match l with [] => [] | None :: r => go r | Some (k, x) :: r => Some (k, compress x) :: go r end) sl)).
    rewrite !abs_obj. cbn [d_compact]. f_equal.
    + induction sl as [|[[k x]|] r IHr]; [reflexivity| |]; inversion IH; subst; cbn [has_hole existsb]; apply IHr; assumption.
    + induction sl as [|[[k x]|] r IHr]; [reflexivity| |]; inversion IH as [|? ? Hx Hr]; subst.
      * rewrite !absm_cons_some. cbn [map fst snd]. rewrite Hx, (IHr Hr). reflexivity.
      * rewrite absm_cons_none. exact (IHr Hr).
Qed.

(* ---- arrays, positional access ---- *)
Lemma map_repeat_undef : forall n, map abs (repeat (Undef 0) n) = repeat DUndef n.
Proof. induction n as [|n IH]; [reflexivity|]. cbn. rewrite IH. reflexivity. Qed.

Lemma extend_abs : forall l i, map abs (arr_extend l i) = d_extend (map abs l) i.
Proof.
  intros l i. unfold arr_extend, d_extend. rewrite map_app, map_repeat_undef, map_length. reflexivity.
Qed.

Lemma set_nth_abs : forall i y l, map abs (set_nth i y l) = d_set_nth i (abs y) (map abs l).
Proof.
  induction i as [|i IH]; intros y [|x r]; try reflexivity.
  cbn [set_nth d_set_nth map]. rewrite IH. reflexivity.
Qed.

Lemma nohole_live : forall sl, has_hole sl = false -> length (absm sl) = length sl.
Proof.
  induction sl as [|[[k x]|] r IH]; intros H; [reflexivity| |discriminate].
  rewrite absm_cons_some. cbn [length]. rewrite IH; [reflexivity|exact H].
Qed.

Lemma set_slot_abs : forall i y sl, has_hole sl = false ->
    absm (set_slot_value i y sl) = m_set_nth i (abs y) (absm sl)
    /\ has_hole (set_slot_value i y sl) = false.
Proof.
  induction i as [|i IH]; intros y [|[[k x]|] r] H; try discriminate; try (split; reflexivity).
  - split; [reflexivity|exact H].
  - cbn [set_slot_value]. rewrite !absm_cons_some. cbn [m_set_nth].
    destruct (IH y r H) as [E1 E2]. rewrite E1. split; [reflexivity|exact E2].
Qed.

Lemma clear_slot_abs : forall i sl, has_hole sl = false ->
    absm (clear_slot i sl) = m_drop_nth i (absm sl)
    /\ has_hole (clear_slot i sl) = Nat.ltb i (length sl).
Proof.
  induction i as [|i IH]; intros [|[[k x]|] r] H; try discriminate; try (split; reflexivity).
  cbn [clear_slot]. rewrite !absm_cons_some. cbn [m_drop_nth].
  destruct (IH r H) as [E1 E2]. rewrite E1. split; [reflexivity|].
  change (has_hole (Some (k, x) :: clear_slot i r)) with (has_hole (clear_slot i r)).
  rewrite E2. reflexivity.
Qed.

Definition oabs (o : option value) : option doc := option_map abs o.

Lemma put_nth_abs : forall (x : option value) l i,
    map abs (match x with Some y => set_nth i y l | None => l end)
    = match oabs x with Some y => d_set_nth i y (map abs l) | None => map abs l end.
Proof. intros [y|] l i; [apply set_nth_abs|reflexivity]. Qed.

Lemma idx_fresh_abs : forall (x : option value) l i,
    abs (Arr (match x with Some y => set_nth i y (arr_extend l i) | None => arr_extend l i end))
    = DArr (match oabs x with Some y => d_set_nth i y (d_extend (map abs l) i) | None => d_extend (map abs l) i end).
Proof. intros x l i. cbn [abs]. rewrite put_nth_abs, extend_abs. reflexivity. Qed.

Lemma idx_write_abs : forall v i x,
    oabs (idx_write v i x) = d_idx_write (abs v) i (oabs x).
Proof.
  intros v i x. destruct v as [s|j|s|l|sl].
  1-3: unfold idx_write, d_idx_write; cbn [oabs option_map]; rewrite (idx_fresh_abs x [] i); reflexivity.
  - unfold idx_write, d_idx_write; cbn [oabs option_map]. rewrite (idx_fresh_abs x l i). reflexivity.
  - unfold idx_write. rewrite abs_obj. cbn [d_idx_write].
    destruct (has_hole sl) eqn:Hh; [reflexivity|].
    rewrite (nohole_live sl Hh). destruct (Nat.ltb i (length sl)).
    + destruct x as [y|]; cbn [oabs option_map].
      * rewrite abs_obj. destruct (set_slot_abs i y sl Hh) as [E1 E2]. rewrite E1, E2. reflexivity.
      * rewrite abs_obj, Hh. reflexivity.
    + cbn [oabs option_map]. rewrite (idx_fresh_abs x [] i). reflexivity.
Qed.

Lemma remove_index_abs : forall v i, oabs (remove_index v i) = d_remove_index (abs v) i.
Proof.
  intros v i. destruct v as [s|j|s|l|sl]; try reflexivity.
  - cbn [remove_index oabs option_map abs d_remove_index]. rewrite map_length.
    destruct (Nat.ltb i (length l)); [|reflexivity]. cbn [abs]. rewrite set_nth_abs. reflexivity.
  - unfold remove_index. rewrite abs_obj. cbn [d_remove_index].
    destruct (has_hole sl) eqn:Hh; [reflexivity|]. cbn [oabs option_map].
    rewrite abs_obj. destruct (clear_slot_abs i sl Hh) as [E1 E2]. rewrite E1, E2, (nohole_live sl Hh).
    destruct (Nat.ltb i (length sl)) eqn:Hl; [reflexivity|].
    (* index beyond the end: nothing removed *)
    f_equal. f_equal.
    clear E1 E2. revert i Hl. induction sl as [|[[k x]|] r IH]; intros i Hl; try discriminate.
    + destruct i; reflexivity.
    + destruct i as [|i]; [discriminate|]. rewrite absm_cons_some. cbn [m_drop_nth]. f_equal.
      apply IH; [exact Hh|exact Hl].
Qed.

Lemma key_write_abs : forall v k x, abs (key_write v k x) = d_key_write (abs v) k (oabs x).
Proof.
  intros v k x. unfold key_write, d_key_write. rewrite abs_obj, put_hole.
  assert (Hs : forall w, has_hole (obj_slots w) = d_dirty (abs w) /\ absm (obj_slots w) = d_members (abs w)).
  { intros [s|j|s|l|sl]; try (split; reflexivity). rewrite abs_obj. split; reflexivity. }
  destruct (Hs v) as [E1 E2]. rewrite E1, <- E2. f_equal.
  apply put_abs. intros o. destruct x as [y|]; [reflexivity|]. destruct o; reflexivity.
Qed.

Lemma obj_slots_abs : forall w, has_hole (obj_slots w) = d_dirty (abs w) /\ absm (obj_slots w) = d_members (abs w).
Proof. intros [s|j|s|l|sl]; try (split; reflexivity). rewrite abs_obj. split; reflexivity. Qed.

Lemma arr_items_abs : forall w, map abs (arr_items w) = d_items (abs w).
Proof. intros [s|j|s|l|sl]; reflexivity. Qed.

Lemma append_abs : forall v x, abs (append_value v x) = d_append (abs v) (abs x).
Proof. intros v x. unfold append_value, d_append. cbn [abs]. rewrite map_app, arr_items_abs. reflexivity. Qed.

Definition absp (m : list (str * value)) : members := map (fun kv => (fst kv, abs (snd kv))) m.

Lemma merge_abs : forall src dst,
    absm (slot_merge dst src) = m_merge (absm dst) (absp src)
    /\ has_hole (slot_merge dst src) = has_hole dst.
Proof.
  unfold slot_merge, m_merge. induction src as [|[k x] r IH]; intros dst; [split; reflexivity|].
  cbn [fold_left absp map fst snd]. destruct (IH (slot_put k (fun _ => x) dst)) as [E1 E2].
  rewrite E1, E2, put_hole. split; [|reflexivity]. f_equal. apply put_abs. reflexivity.
Qed.

Lemma copy_members_abs : forall m, absp (copy_members m) = d_copy_members (absp m).
Proof.
  induction m as [|[k x] r IH]; [reflexivity|]. unfold absp, copy_members, d_copy_members in *.
  cbn [map fst snd]. rewrite copy_abs. f_equal. exact IH.
Qed.

Lemma absm_live : forall sl, absm sl = absp (live sl).
Proof. reflexivity. Qed.

Definition abs2 (p : value * value) : doc * doc := (abs (fst p), abs (snd p)).

Lemma append_v_abs : forall mv v1 v2, abs2 (append_v mv v1 v2) = d_append_v mv (abs v1) (abs v2).
Proof.
  intros mv v1 v2. unfold append_v, d_append_v.
  destruct v1 as [s|j|s|l|s1]; destruct v2 as [s'|j'|s'|l'|s2];
    try (destruct mv; unfold abs2; cbn [fst snd]; rewrite ?append_abs, ?copy_abs, ?abs_obj; reflexivity).
  rewrite !abs_obj. destruct mv; unfold abs2; cbn [fst snd]; rewrite abs_obj.
  - destruct (merge_abs (live s2) s1) as [E1 E2]. rewrite E1, E2. reflexivity.
  - destruct (merge_abs (copy_members (live s2)) s1) as [E1 E2]. rewrite E1, E2, copy_members_abs, abs_obj. reflexivity.
Qed.

Lemma filter_abs : forall l, map abs (filter not_undef l) = filter d_not_undef (map abs l).
Proof.
  induction l as [|x r IH]; [reflexivity|]. cbn [filter map]. unfold not_undef, d_not_undef in *.
  rewrite abs_is_undef. destruct (is_undef x); cbn [negb map]; rewrite IH; reflexivity.
Qed.

Lemma merge_v_abs : forall mv v1 v2, abs2 (merge_v mv v1 v2) = d_merge_v mv (abs v1) (abs v2).
Proof.
  intros mv v1 v2. unfold merge_v, d_merge_v, abs2. cbn [fst snd]. rewrite abs_is_undef.
  assert (H2 : abs (if mv then Undef 0 else v2) = (if mv then DUndef else abs v2)) by (destruct mv; reflexivity).
  rewrite H2. f_equal.
  assert (Hc : forall l, map abs (map copy_value (filter not_undef l)) = map d_copy (filter d_not_undef (map abs l))).
  { intros l. rewrite <- filter_abs, !map_map. apply map_ext. intros a. apply copy_abs. }
  destruct (is_undef v1) eqn:Hu.
  - destruct v2 as [s'|j'|s'|l'|s2]; try reflexivity.
    destruct mv; cbn [abs app]; f_equal; [apply filter_abs|apply Hc].
  - destruct v1 as [s|j|s|l|s1]; try discriminate;
      destruct v2 as [s'|j'|s'|l'|s2]; try reflexivity.
    + cbn [abs]. f_equal. rewrite map_app. f_equal. destruct mv; [apply filter_abs|apply Hc].
    + rewrite !abs_obj. destruct mv.
      * destruct (merge_abs (live s2) s1) as [E1 E2]. rewrite E1, E2. reflexivity.
      * destruct (merge_abs (copy_members (live s2)) s1) as [E1 E2]. rewrite E1, E2, copy_members_abs. reflexivity.
Qed.

Lemma insert_v_abs : forall v1 k v2, abs2 (insert_v v1 k v2) = d_insert_v (abs v1) k (abs v2).
Proof.
  intros v1 k v2. unfold insert_v, d_insert_v, abs2. cbn [fst snd]. rewrite abs_obj, put_hole.
  destruct (obj_slots_abs v1) as [E1 E2]. rewrite E1, <- E2. f_equal. f_equal. apply put_abs. reflexivity.
Qed.

Lemma remove_key_abs : forall v k, abs (remove_key v k) = d_remove_key (abs v) k.
Proof.
  intros v k. destruct v as [s|j|s|l|sl]; try reflexivity.
  unfold remove_key. rewrite !abs_obj. cbn [d_remove_key].
  destruct (remove_abs k sl) as [E1 E2]. rewrite E1, E2.
  destruct (m_remove k (absm sl)); reflexivity.
Qed.

Lemma set_ptr_abs : forall id, abs (set_ptr id) = d_set_ptr id.
Proof. intros [i|]; reflexivity. Qed.

Lemma empty_of_kind_abs : forall k, abs (empty_of_kind k) = d_empty_of_kind k.
Proof.
  intros k. unfold empty_of_kind, d_empty_of_kind.
  repeat match goal with |- context [N.eqb k ?c] => destruct (N.eqb k c) end; reflexivity.
Qed.

Lemma assign_cont_abs : forall v1 v2, abs2 (assign_cont v1 v2) = d_assign_cont (abs v1) (abs v2).
Proof.
  intros v1 v2. unfold assign_cont, d_assign_cont, abs2. cbn [fst snd].
  destruct v2 as [s|j|s|l|sl]; try reflexivity.
  - rewrite copy_abs. reflexivity.
  - rewrite copy_abs, abs_obj. reflexivity.
Qed.

Lemma append_cont_abs : forall v1 v2, abs2 (append_cont v1 v2) = d_append_cont (abs v1) (abs v2).
Proof.
  intros v1 v2. unfold append_cont, d_append_cont, abs2. cbn [fst snd].
  destruct v2 as [s|j|s|l|s2]; try reflexivity.
  - destruct l as [|x l]; [rewrite append_abs; reflexivity|].
    change (abs (Arr (x :: l))) with (DArr (abs x :: map abs l)). cbv iota beta.
    change (abs x :: map abs l) with (map abs (x :: l)).
    generalize (x :: l). intros l'. cbn [abs]. rewrite map_app, arr_items_abs, !map_map. f_equal. apply f_equal. apply f_equal.
    apply map_ext. intros a. apply copy_abs.
  - rewrite (abs_obj s2). destruct v1 as [s|j|s|l|s1];
      try (rewrite append_abs, copy_abs, abs_obj; reflexivity).
    rewrite !abs_obj. destruct (merge_abs (copy_members (live s2)) s1) as [E1 E2].
    rewrite E1, E2, copy_members_abs. reflexivity.
Qed.

(* ---- paths ---- *)
Lemma get_at_abs : forall p v, oabs (get_at p v) = d_get_at p (abs v).
Proof.
  induction p as [|[k|i] r IH]; intros v; [reflexivity| |].
  - destruct v as [s|j|s|l|sl]; try reflexivity.
    rewrite abs_obj. cbn [get_at d_get_at]. rewrite find_abs.
    destruct (slot_find k sl) as [x|]; [|reflexivity]. cbn [option_map]. rewrite abs_is_undef.
    destruct (is_undef x); [reflexivity|apply IH].
  - destruct v as [s|j|s|l|sl]; try reflexivity.
    cbn [get_at d_get_at abs]. rewrite nth_error_map.
    destruct (nth_error l i) as [x|]; [|reflexivity]. cbn [option_map]. rewrite abs_is_undef.
    destruct (is_undef x); [reflexivity|apply IH].
Qed.

Lemma upd_slot_abs : forall k g g' sl,
    (forall x, oabs (g x) = g' (abs x)) ->
    option_map (fun s => (has_hole s, absm s)) (upd_slot k g sl)
    = option_map (fun m => (has_hole sl, m)) (d_upd_member k g' (absm sl)).
Proof.
  intros k g g' sl Hg. induction sl as [|[[k' x]|] r IH]; [reflexivity| |].
  - rewrite absm_cons_some. cbn [upd_slot d_upd_member]. destruct (str_eqb k k').
    + rewrite abs_is_undef. destruct (is_undef x); [reflexivity|].
      rewrite <- Hg. destruct (g x) as [y|]; reflexivity.
    + destruct (upd_slot k g r) as [r'|]; destruct (d_upd_member k g' (absm r)) as [m'|];
        cbn [option_map] in *; try discriminate; [|reflexivity].
      injection IH as E1 E2. rewrite absm_cons_some, E2.
      change (has_hole (Some (k', x) :: r')) with (has_hole r'). rewrite E1. reflexivity.
  - cbn [upd_slot]. rewrite absm_cons_none.
    destruct (upd_slot k g r) as [r'|]; destruct (d_upd_member k g' (absm r)) as [m'|];
      cbn [option_map] in *; try discriminate; [|reflexivity].
    injection IH as E1 E2. rewrite absm_cons_none, E2. reflexivity.
Qed.

Lemma upd_nth_abs : forall i g g' l,
    (forall x, oabs (g x) = g' (abs x)) ->
    option_map (map abs) (upd_nth i g l) = d_upd_nth i g' (map abs l).
Proof.
  induction i as [|i IH]; intros g g' [|x r] Hg; try reflexivity.
  - cbn [upd_nth d_upd_nth map]. rewrite abs_is_undef. destruct (is_undef x); [reflexivity|].
    rewrite <- Hg. destruct (g x); reflexivity.
  - cbn [upd_nth d_upd_nth map]. rewrite <- (IH g g' r Hg). destruct (upd_nth i g r); reflexivity.
Qed.

Lemma upd_at_abs : forall p f f',
    (forall x, oabs (f x) = f' (abs x)) ->
    forall v, oabs (upd_at p f v) = d_upd_at p f' (abs v).
Proof.
  induction p as [|[k|i] r IH]; intros f f' Hf v; [apply Hf| |].
  - destruct v as [s|j|s|l|sl]; try reflexivity.
    rewrite abs_obj. cbn [upd_at d_upd_at].
    pose proof (upd_slot_abs k (upd_at r f) (d_upd_at r f') sl (IH f f' Hf)) as H.
    destruct (upd_slot k (upd_at r f) sl) as [s'|]; destruct (d_upd_member k (d_upd_at r f') (absm sl)) as [m'|];
      cbn [option_map oabs] in *; try discriminate; [|reflexivity].
    injection H as E1 E2. rewrite abs_obj, E1, E2. reflexivity.
  - destruct v as [s|j|s|l|sl]; try reflexivity.
    cbn [upd_at d_upd_at abs]. rewrite <- (upd_nth_abs i (upd_at r f) (d_upd_at r f') l (IH f f' Hf)).
    destruct (upd_nth i (upd_at r f) l); reflexivity.
Qed.

(* ---- states ---- *)
Definition abss (st : state) : dstate := map abs st.

Lemma set_var_abs : forall i x st, abss (set_var i x st) = d_set_var i (abs x) (abss st).
Proof. induction i as [|i IH]; intros x [|y r]; try reflexivity. cbn. f_equal. apply IH. Qed.

Lemma st_get_abs : forall st t, oabs (st_get st t) = ds_get (abss st) t.
Proof.
  intros st t. unfold st_get, ds_get, abss. rewrite nth_error_map.
  destruct (nth_error st (fst t)); [apply get_at_abs|reflexivity].
Qed.

Lemma st_upd_abs : forall st t f f',
    (forall x, oabs (f x) = f' (abs x)) ->
    option_map abss (st_upd st t f) = ds_upd (abss st) t f'.
Proof.
  intros st t f f' Hf. unfold st_upd, ds_upd, abss. rewrite nth_error_map.
  destruct (nth_error st (fst t)) as [v|]; [|reflexivity]. cbn [option_map].
  rewrite <- (upd_at_abs (snd t) f f' Hf v). destruct (upd_at (snd t) f v); [|reflexivity].
  cbn [oabs option_map]. f_equal. apply set_var_abs.
Qed.

Lemma st_set_abs : forall st t x, option_map abss (st_set st t x) = ds_set (abss st) t (abs x).
Proof. intros st t x. apply st_upd_abs. reflexivity. Qed.

(* outcomes *)
Definition oc_abs (o : outcome state) : outcome dstate :=
  match o with
  | Done st out => Done (abss st) out
  | Skipped => Skipped
  | Unspec => Unspec
  end.

Lemma unary_abs : forall st t f f',
    (forall x, oabs (f x) = f' (abs x)) ->
    oc_abs (unary st t f) = d_unary (abss st) t f'.
Proof.
  intros st t f f' Hf. unfold unary, d_unary. rewrite <- st_get_abs.
  destruct (st_get st t) as [v|]; [|reflexivity]. cbn [oabs option_map].
  rewrite <- Hf. destruct (f v) as [v'|]; [|reflexivity]. cbn [oabs option_map].
  rewrite <- st_set_abs. destruct (st_set st t v'); reflexivity.
Qed.

Lemma binary_abs : forall st t1 t2 g g',
    (forall a b, abs2 (g a b) = g' (abs a) (abs b)) ->
    oc_abs (binary st t1 t2 g) = d_binary (abss st) t1 t2 g'.
Proof.
  intros st t1 t2 g g' Hg. unfold binary, d_binary. destruct (related t1 t2); [reflexivity|].
  rewrite <- !st_get_abs. destruct (st_get st t1) as [v1|]; [|reflexivity].
  destruct (st_get st t2) as [v2|]; [|reflexivity]. cbn [oabs option_map].
  rewrite <- Hg. destruct (g v1 v2) as [d s]. unfold abs2. cbn [fst snd].
  rewrite <- st_set_abs. destruct (st_set st t2 s) as [st1|]; [|reflexivity]. cbn [option_map].
  rewrite <- st_set_abs. destruct (st_set st1 t1 d); reflexivity.
Qed.

Lemma assign_op_abs : forall st t1 t2 mv ctor,
    oc_abs (assign_op st t1 t2 mv ctor) = d_assign_op (abss st) t1 t2 mv ctor.
Proof.
  intros st t1 t2 mv ctor. unfold assign_op, d_assign_op. rewrite <- !st_get_abs.
  destruct (st_get st t1) as [v1|]; [|reflexivity].
  destruct (st_get st t2) as [v2|]; [|reflexivity]. cbn [oabs option_map].
  destruct (same_target t1 t2).
  - destruct (ctor && negb mv); [|reflexivity].
    rewrite <- copy_abs, <- st_set_abs. destruct (st_set st t1 (copy_value v2)); reflexivity.
  - destruct mv.
    + destruct (src_is_ancestor t1 t2); [reflexivity|].
      change DUndef with (abs (Undef (stale_of v2))). rewrite <- st_set_abs.
      destruct (st_set st t2 (Undef (stale_of v2))) as [st1|]; [|reflexivity]. cbn [option_map].
      rewrite <- st_set_abs. destruct (st_set st1 t1 v2); reflexivity.
    + rewrite <- copy_abs, <- st_set_abs. destruct (st_set st t1 (copy_value v2)); reflexivity.
Qed.

(* ---- one step: every state-changing operation family ---- *)
Definition is_observer (o : op) : bool :=
  match o with ORead _ | OGroupBy _ _ _ | ORender _ _ => true | _ => false end.

Lemma step_abs_core : forall st o, is_observer o = false ->
    oc_abs (step st o) = d_step (abss st) o.
Proof.
  intros st o Ho. destruct o; try discriminate; unfold d_step; cbn [step d_step_g].
  - reflexivity.
  - apply unary_abs. reflexivity.
  - apply unary_abs. intros x. cbn [oabs option_map]. rewrite key_write_abs. destruct p; reflexivity.
  - apply unary_abs. intros x. rewrite idx_write_abs. destruct p; reflexivity.
  - apply unary_abs. intros x. cbn [oabs option_map]. rewrite append_abs. reflexivity.
  - apply binary_abs. apply append_v_abs.
  - apply binary_abs. apply merge_v_abs.
  - apply binary_abs. intros a b. apply insert_v_abs.
  - apply unary_abs. intros x. cbn [oabs option_map]. rewrite remove_key_abs. reflexivity.
  - apply unary_abs. intros x. apply remove_index_abs.
  - apply unary_abs. reflexivity.
  - apply unary_abs. intros x. cbn [oabs option_map]. rewrite compress_abs. reflexivity.
  - apply assign_op_abs.
  - apply assign_op_abs.
  - apply unary_abs. intros x. cbn [oabs option_map]. rewrite set_ptr_abs. reflexivity.
  - apply unary_abs. intros x. cbn [oabs option_map]. rewrite append_abs, set_ptr_abs. reflexivity.
  - apply unary_abs. reflexivity.
  - apply unary_abs. intros x. cbn [oabs option_map]. rewrite empty_of_kind_abs. reflexivity.
  - apply binary_abs. apply assign_cont_abs.
  - apply binary_abs. apply append_cont_abs.
Qed.
