(* HtabLedgerProofsTop.v -- C16 (hash-table internals): every operation on a pool of tables keeps
   the ownership ledger; all histories; destroying every table leaves nothing live; what the ledger
   means; and the seeded mutation (merge by move forgetting to dispose the key it does not adopt) leaks. *)
From Coq Require Import List Arith Bool Lia.
From Qv Require Import SeqModel HtabModel HtabProofsBase HtabLedgerModel HtabLedgerProofs HtabLedgerProofs2.
Import ListNotations.

Lemma Forall_upd' {A} (P : A -> Prop) (l : list A) i x : Forall P l -> P x -> Forall P (upd l i x).
Proof.
  revert i; induction l as [|a l IH]; intros [|i] Hl Hx; simpl; auto; inversion Hl; subst; constructor; auto.
Qed.
Lemma Forall_nth' {A} (P : A -> Prop) (l : list A) i d : Forall P l -> P d -> P (nth i l d).
Proof.
  revert i; induction l as [|a l IH]; intros [|i] Hl Hd; simpl; auto; inversion Hl; subst; auto.
Qed.

Definition others1 (p : list ltable) (i : nat) (x : nat) : nat := cnt x (pool_ids (upd p i ltable0)).
Lemma pool_split1 p i x : i < length p -> cnt x (pool_ids p) = cnt x (table_ids (tb p i)) + others1 p i x.
Proof.
  intros Hi. unfold others1, tb, pool_ids. pose proof (cnt_flat_upd table_ids x p i ltable0 ltable0 Hi) as Hc.
  simpl in Hc. lia.
Qed.
Lemma pool_join1 p i t x : i < length p -> cnt x (pool_ids (upd p i t)) = cnt x (table_ids t) + others1 p i x.
Proof.
  intros Hi. unfold others1, pool_ids.
  pose proof (cnt_flat_upd table_ids x p i ltable0 ltable0 Hi) as H0.
  pose proof (cnt_flat_upd table_ids x p i t ltable0 Hi) as H1. simpl in *. lia.
Qed.

Lemma on1_ok (st : lstate) i f :
  lledger st ->
  (forall F t, bal (fst st) (table_ids t) F -> fresh (fst st) -> table_wf t -> good F (f (fst st) t)) ->
  exists st', on1 st i f = Ok st' /\ lledger st' /\ length (snd st') = length (snd st).
Proof.
  destruct st as (h, p). intros [Hc Hf Hw] Hgood. unfold on1. cbn [fst snd] in *.
  destruct (i <? length p) eqn:Ei; [|exists (h, p); repeat split; auto].
  apply Nat.ltb_lt in Ei.
  destruct (Hgood (others1 p i) (tb p i)) as (h' & t' & -> & Hb' & Hf' & Hw').
  - intros x. rewrite <- Hc. symmetry. apply pool_split1. exact Ei.
  - exact Hf.
  - unfold tb. apply Forall_nth'; [exact Hw|apply wf_table0].
  - cbn [SeqModel.bind fst snd]. eexists. split; [reflexivity|]. split; [|apply length_upd].
    split; cbn [fst snd].
    + intros x. rewrite pool_join1 by exact Ei. apply Hb'.
    + exact Hf'.
    + apply Forall_upd'; auto.
Qed.

Lemma on2_ok (st : lstate) i j f src' :
  lledger st ->
  (forall t, table_wf t -> table_wf (src' t)) ->
  (forall F ti tj, bal (fst st) (table_ids ti ++ table_ids tj) F -> fresh (fst st) -> table_wf ti -> table_wf tj ->
                   good2 F (src' tj) (f (fst st) ti tj)) ->
  exists st', on2 st i j f src' = Ok st' /\ lledger st' /\ length (snd st') = length (snd st).
Proof.
  destruct st as (h, p). intros [Hc Hf Hw] Hsrc Hgood. unfold on2. cbn [fst snd] in *.
  destruct ((i <? length p) && (j <? length p) && negb (i =? j)) eqn:E; [|exists (h, p); repeat split; auto].
  apply andb_true_iff in E. destruct E as (E & Eij). apply andb_true_iff in E. destruct E as (Ei & Ej).
  apply Nat.ltb_lt in Ei. apply Nat.ltb_lt in Ej. apply negb_true_iff in Eij. apply Nat.eqb_neq in Eij.
  set (p1 := upd p i ltable0).
  assert (Ej1 : j < length p1) by (unfold p1; rewrite length_upd; exact Ej).
  assert (Etj : tb p1 j = tb p j) by (unfold tb, p1; apply nth_upd_other; exact Eij).
  destruct (Hgood (others1 p1 j) (tb p i) (tb p j)) as (h' & t' & -> & Hb' & Hf' & Hw').
  - intros x. rewrite <- Hc, cnt_app. pose proof (pool_split1 p i x Ei) as H1. pose proof (pool_split1 p1 j x Ej1) as H2.
    rewrite Etj in H2. change (others1 p i x) with (cnt x (pool_ids p1)) in H1. lia.
  - exact Hf.
  - unfold tb. apply Forall_nth'; [exact Hw|apply wf_table0].
  - unfold tb. apply Forall_nth'; [exact Hw|apply wf_table0].
  - cbn [SeqModel.bind fst snd]. eexists. split; [reflexivity|]. split; [|cbn [fst snd]; rewrite !length_upd; reflexivity].
    split; cbn [fst snd].
    + intros x. specialize (Hb' x). rewrite cnt_app in Hb'.
      set (q := upd p i t').
      assert (Ejq : j < length q) by (unfold q; rewrite length_upd; exact Ej).
      rewrite (pool_join1 q j (src' (tb p j)) x Ejq).
      assert (Eo : others1 q j x = cnt x (table_ids t') + others1 p1 j x).
      { unfold others1. unfold q, p1.
        assert (Ei2 : i < length (upd p j ltable0)) by (rewrite length_upd; exact Ei).
        replace (upd (upd p i t') j ltable0) with (upd (upd p j ltable0) i t').
        2:{ clear - Eij. revert i j Eij. induction p as [|a p IH]; intros [|i] [|j] Eij; simpl; auto; try lia. f_equal. apply IH. lia. }
        replace (upd (upd p i ltable0) j ltable0) with (upd (upd p j ltable0) i ltable0).
        2:{ clear - Eij. revert i j Eij. induction p as [|a p IH]; intros [|i] [|j] Eij; simpl; auto; try lia. f_equal. apply IH. lia. }
        rewrite (pool_join1 (upd p j ltable0) i t' x Ei2), (pool_join1 (upd p j ltable0) i ltable0 x Ei2). simpl. lia. }
      rewrite Eo. lia.
    + exact Hf'.
    + apply Forall_upd'; [apply Forall_upd'; auto|]. apply Hsrc. unfold tb. apply Forall_nth'; [exact Hw|apply wf_table0].
Qed.

(* ---------- every operation, from every ledger state ---------- *)
Lemma good_of_destroy h t F : bal h (table_ids t) F -> fresh h -> table_wf t -> good F (l_destroy h t).
Proof.
  intros Hb Hf Hw. destruct (l_destroy_ok h t F Hb Hf Hw) as (h' & -> & Hb' & Hf').
  exists h', ltable0. split; [reflexivity|]. split; [exact Hb'|]. split; [exact Hf'|apply wf_table0].
Qed.

Lemma lstep_ledger st o : lledger st -> exists st', lstep st o = Ok st' /\ lledger st' /\ length (snd st') = length (snd st).
Proof.
  intros HL. destruct o; unfold lstep, lstep_gen.
  - apply on1_ok; auto. intros F t. apply l_insert_ok.
  - apply on1_ok; auto. intros F t. apply l_get_ok.
  - apply on1_ok; auto. intros F t. apply l_remove_ok.
  - apply on1_ok; auto. intros F t. apply l_remove_index_ok.
  - apply on1_ok; auto. intros F t. apply l_rename_ok.
  - apply on1_ok; auto. intros F t. apply l_resize_pub_ok.
  - apply on1_ok; auto. intros F t Hb Hf Hw. destruct grow; [apply (l_resize_ok _ t F Hb Hf)|exists (fst st), t; auto].
  - apply on1_ok; auto. intros F t. apply l_compress_ok.
  - apply on1_ok; auto. intros F t. apply l_clear_ok.
  - apply on1_ok; auto. intros F t. apply l_reset_ok.
  - apply on1_ok; auto. intros F t. apply l_reserve_ok.
  - apply on1_ok; auto. intros F t. apply l_sort_ok.
  - apply on2_ok; auto. intros F ti tj. apply l_copy_ok.
  - apply on2_ok; auto; [intros; apply wf_table0|]. intros F ti tj. apply l_move_ok.
  - apply on2_ok; auto. intros F ti tj. apply l_merge_copy_ok.
  - apply on2_ok; auto; [intros; apply wf_table0|]. intros F ti tj. apply l_merge_move_ok.
  - apply on1_ok; auto. intros F t. apply good_of_destroy.
Qed.

Lemma lrun_ledger : forall ops st, lledger st ->
  exists st', lrun ops st = Ok st' /\ lledger st' /\ length (snd st') = length (snd st).
Proof.
  induction ops as [|o r IH]; intros st HL; unfold lrun in *; simpl.
  - exists st. auto.
  - destruct (lstep_ledger st o HL) as (st1 & E1 & HL1 & Hlen1). unfold lstep in E1. rewrite E1. cbn [SeqModel.bind].
    destruct (IH st1 HL1) as (st' & E' & HL' & Hlen'). exists st'. split; [exact E'|]. split; [exact HL'|]. congruence.
Qed.

Lemma pool_ids_repeat0 n : pool_ids (repeat ltable0 n) = [].
Proof. induction n; simpl; auto. Qed.
Lemma lledger_init n : lledger (lstate0 n).
Proof.
  split; simpl.
  - intros x. rewrite pool_ids_repeat0. reflexivity.
  - intros x _. reflexivity.
  - apply Forall_forall. intros t Ht. apply repeat_spec in Ht. subst. apply wf_table0.
Qed.

(* ---------- destroying every table ---------- *)
Lemma destroy_step st k : lledger st -> k < length (snd st) ->
  exists st', lstep st (LDestroy k) = Ok st' /\ lledger st' /\ snd st' = upd (snd st) k ltable0.
Proof.
  destruct st as (h, p). intros [Hc Hf Hw] Hk. cbn [fst snd] in *. unfold lstep, lstep_gen, on1. cbn [fst snd].
  assert (Hk' : (k <? length p) = true) by (apply Nat.ltb_lt; exact Hk). rewrite Hk'.
  destruct (l_destroy_ok h (tb p k) (others1 p k)) as (h' & -> & Hb' & Hf').
  - intros x. rewrite <- Hc. symmetry. apply pool_split1. exact Hk.
  - exact Hf.
  - unfold tb. apply Forall_nth'; [exact Hw|apply wf_table0].
  - cbn [SeqModel.bind fst snd]. eexists. split; [reflexivity|]. split; [|reflexivity]. split; cbn [fst snd].
    + intros x. rewrite pool_join1 by exact Hk. apply Hb'.
    + exact Hf'.
    + apply Forall_upd'; [exact Hw|apply wf_table0].
Qed.

Lemma destroy_pool_ok : forall ks st, lledger st -> (forall k, In k ks -> k < length (snd st)) ->
  exists st', l_destroy_pool ks st = Ok st' /\ lledger st' /\ length (snd st') = length (snd st) /\
    (forall k, In k ks -> tb (snd st') k = ltable0) /\ (forall k, ~ In k ks -> tb (snd st') k = tb (snd st) k).
Proof.
  induction ks as [|k ks IH]; intros st HL Hk; cbn [l_destroy_pool].
  - exists st. split; [reflexivity|]. split; [exact HL|]. split; [reflexivity|]. split; [intros k []|auto].
  - destruct (destroy_step st k HL (Hk k (or_introl eq_refl))) as (st1 & -> & HL1 & Hp1). cbn [SeqModel.bind].
    destruct (IH st1 HL1) as (st' & -> & HL' & Hlen' & Hin' & Hout').
    { intros k' Hk'. rewrite Hp1, length_upd. apply Hk. right. exact Hk'. }
    exists st'. split; [reflexivity|]. split; [exact HL'|]. split; [rewrite Hlen', Hp1, length_upd; reflexivity|]. split.
    + intros k' [<-|Hk']; [|apply Hin'; exact Hk'].
      destruct (in_dec Nat.eq_dec k ks) as [Hi|Hi]; [apply Hin'; exact Hi|].
      rewrite (Hout' k Hi), Hp1. unfold tb. apply nth_upd_same. apply Hk. left. reflexivity.
    + intros k' Hk'. assert (Hn : ~ In k' ks) by (intros Hi; apply Hk'; right; exact Hi).
      rewrite (Hout' k' Hn), Hp1. unfold tb. apply nth_upd_other. intros ->. apply Hk'. left. reflexivity.
Qed.

Lemma llive_ids_in (h : lheap) x : In x (llive_ids h) <-> x < nx h /\ lv h x = true.
Proof. unfold llive_ids. rewrite filter_In, in_seq. split; intros (H1 & H2); split; auto; lia. Qed.

Lemma all_empty_pool p : (forall k, k < length p -> tb p k = ltable0) -> pool_ids p = [].
Proof.
  induction p as [|t p IH]; intros Hk; simpl; auto.
  pose proof (Hk 0 ltac:(simpl; lia)) as H0. unfold tb in H0. simpl in H0. subst t. simpl. apply IH.
  intros k Hlt. apply (Hk (S k)). simpl. lia.
Qed.

Lemma destroy_all_ok st : lledger st ->
  exists st', l_destroy_all st = Ok st' /\ lledger st' /\ llive_ids (fst st') = [] /\
              (forall x, lv (fst st') x = false) /\ snd st' = repeat ltable0 (length (snd st)).
Proof.
  intros HL. unfold l_destroy_all.
  destruct (destroy_pool_ok (seq 0 (length (snd st))) st HL) as (st' & E & HL' & Hlen & Hin & _).
  { intros k Hk. apply in_seq in Hk. lia. }
  exists st'. split; [exact E|]. split; [exact HL'|].
  assert (Hp : pool_ids (snd st') = []).
  { apply all_empty_pool. intros k Hk. apply Hin. apply in_seq. lia. }
  assert (Hdead : forall x, lv (fst st') x = false).
  { intros x. pose proof (ll_count st' HL' x) as Hc. rewrite Hp in Hc. simpl in Hc. destruct (lv (fst st') x); [discriminate|reflexivity]. }
  split; [|split; [exact Hdead|]].
  - destruct (llive_ids (fst st')) as [|x l] eqn:El; [reflexivity|].
    assert (Hx : In x (llive_ids (fst st'))) by (rewrite El; left; reflexivity).
    apply llive_ids_in in Hx. rewrite Hdead in Hx. destruct Hx. discriminate.
  - apply nth_ext with (d := ltable0) (d' := ltable0); [rewrite repeat_length; exact Hlen|].
    intros k Hk. rewrite nth_repeat. apply Hin. apply in_seq. lia.
Qed.

(* all histories on a pool of n tables *)
Lemma htab_ledger n ops :
  exists st st', lrun ops (lstate0 n) = Ok st /\ lledger st /\
    l_destroy_all st = Ok st' /\ llive_ids (fst st') = [] /\ snd st' = repeat ltable0 n.
Proof.
  destruct (lrun_ledger ops (lstate0 n) (lledger_init n)) as (st & Er & HL & Hlen).
  destruct (destroy_all_ok st HL) as (st' & Ed & _ & Hlive & _ & Hp).
  exists st, st'. split; [exact Er|]. split; [exact HL|]. split; [exact Ed|]. split; [exact Hlive|].
  rewrite Hp, Hlen. unfold lstate0. cbn [snd]. rewrite repeat_length. reflexivity.
Qed.

(* ---------- what the ledger means ---------- *)
Lemma lledger_meaning st : lledger st ->
  NoDup (pool_ids (snd st)) /\
  (forall x, lv (fst st) x = true <-> In x (pool_ids (snd st))) /\
  (forall x, In x (llive_ids (fst st)) <-> In x (pool_ids (snd st))).
Proof.
  intros [Hc Hf Hw].
  assert (Hlive : forall x, lv (fst st) x = true <-> In x (pool_ids (snd st))).
  { intros x. rewrite <- cnt_in, Hc. unfold bn. destruct (lv (fst st) x); split; intros; auto; try lia; discriminate. }
  split; [|split; [exact Hlive|]].
  - apply cnt_nodup. intros x. rewrite Hc. unfold bn. destruct (lv (fst st) x); lia.
  - intros x. rewrite llive_ids_in, <- Hlive. split; [tauto|]. intros Hl. split; [|exact Hl].
    destruct (Nat.lt_ge_cases x (nx (fst st))) as [Hlt|Hge]; [exact Hlt|]. rewrite (Hf x Hge) in Hl. discriminate.
Qed.

(* what the model's errors mean *)
Lemma lfree_not_live_is_error h b : lv h b = false -> lfree h b = Error UAF.
Proof. intros E. unfold lfree. rewrite E. reflexivity. Qed.
Lemma lfree_once h h' b : lfree h b = Ok h' -> lv h b = true /\ lv h' b = false /\ lfree h' b = Error UAF.
Proof.
  unfold lfree. destruct (lv h b) eqn:E; [|discriminate]. intros E'. inversion E'; subst. simpl.
  rewrite Nat.eqb_refl. simpl. auto.
Qed.
Lemma ltouch_released_is_error h b : lv h b = false -> ltouch h (Some b) = Error UAF.
Proof. intros E. simpl. rewrite E. reflexivity. Qed.
Lemma lalloc_fresh st : lledger st -> lv (fst st) (snd (lalloc (fst st))) = false /\ ~ In (snd (lalloc (fst st))) (pool_ids (snd st)).
Proof.
  intros HL. pose proof (ll_fresh st HL (nx (fst st)) (le_n _)) as Hfr. split; [exact Hfr|].
  intros Hin. apply (proj1 (proj2 (lledger_meaning st HL))) in Hin. simpl in Hin. rewrite Hfr in Hin. discriminate.
Qed.

(* ---------- the seeded mutation: merge by move that forgets Dispose(&src_item->Key) ---------- *)
(* both tables hold key 7; table 0 += Move(table 1) *)
Definition leak_ops : list lop := [LInsert 0 7 true false; LInsert 1 7 true false; LMergeMove 0 1 false].

(* the code as it stands: nothing is left after destroying both tables *)
Example merge_move_code_is_clean :
  exists st st', lrun leak_ops (lstate0 2) = Ok st /\ l_destroy_all st = Ok st' /\ llive_ids (fst st') = [].
Proof. eexists. eexists. split; [vm_compute; reflexivity|]. split; [vm_compute; reflexivity|]. vm_compute. reflexivity. Qed.

(* the mutated loop: the run itself reports nothing, but the source's key token (id 3) is owned by
   nobody -- the ledger is broken -- and it is still live when every table is gone: a leak *)
Example merge_move_forgetting_dispose_leaks :
  exists st st', lrun_gen false leak_ops (lstate0 2) = Ok st /\ ~ lledger st /\
    lv (fst st) 3 = true /\ ~ In 3 (pool_ids (snd st)) /\
    l_destroy_all st = Ok st' /\ llive_ids (fst st') = [3].
Proof.
  eexists. eexists. split; [vm_compute; reflexivity|].
  split.
  - intros HL. pose proof (ll_count _ HL 3) as Hc. vm_compute in Hc. discriminate.
  - split; [vm_compute; reflexivity|]. split.
    + vm_compute. intuition discriminate.
    + split; [vm_compute; reflexivity|]. vm_compute. reflexivity.
Qed.
