(* TparseIif.v -- pure facts about the tree specification (TparseModel.wf_tags, leaf_seq, iif_ok):
   monotonicity, snoc, sublists, and the partition lemma of an inline if: ordered sub tags, each inside one
   of two disjoint slices, split by the start id into the tags of the first and of the second slice. *)
From Coq Require Import NArith ZArith List Bool Arith Lia ZifyBool ZifyNat ZifyN.
From Qv Require Import gen.Tables_tparse TparseModel.
Import ListNotations.
Ltac Zify.zify_post_hook ::= Z.div_mod_to_equations.

Section WF.
  Variable tl : nat.

  Lemma wf_tag_le : forall lv t, wf_tag tl lv t -> tstart t <= tend t.
  Proof.
    intros lv t H. destruct t as [v|v|o e ex|o e v sb|i c sb|l sb|o e cs]; cbn [wf_tag tstart tend] in *;
      unfold tpp_VariablePrefixLength, tpp_InLineSuffixLength, tpp_LoopSuffixLength in *; try lia;
      destruct H as [H _]; lia.
  Qed.

  Lemma wf_tags_le : forall lv l lo hi, wf_tags tl lv lo hi l -> lo <= hi.
  Proof.
    intros lv l; induction l as [|x r IH]; intros lo hi H; [exact H|].
    cbn [wf_tags] in H. destruct H as (H1 & H2 & H3). apply wf_tag_le in H2. apply IH in H3. lia.
  Qed.

  Lemma wf_tags_mono : forall lv l lo hi hi', wf_tags tl lv lo hi l -> hi <= hi' -> wf_tags tl lv lo hi' l.
  Proof.
    intros lv l; induction l as [|x r IH]; intros lo hi hi' H Hh; cbn [wf_tags] in *; [lia|].
    destruct H as (H1 & H2 & H3). split; [exact H1|split; [exact H2|eapply IH; eassumption]].
  Qed.

  Lemma wf_tags_lo : forall lv l lo lo' hi, wf_tags tl lv lo hi l -> lo' <= lo -> wf_tags tl lv lo' hi l.
  Proof.
    intros lv l lo lo' hi H Hl. destruct l as [|x r]; cbn [wf_tags] in *; [lia|].
    destruct H as (H1 & H2 & H3). split; [lia|split; assumption].
  Qed.

  Lemma wf_tags_snoc : forall lv l lo t hi,
    wf_tags tl lv lo (tstart t) l -> wf_tag tl lv t -> tend t <= hi -> wf_tags tl lv lo hi (l ++ [t]).
  Proof.
    intros lv l; induction l as [|x r IH]; intros lo t hi H Ht He; cbn [wf_tags app] in *.
    - split; [exact H|split; [exact Ht|exact He]].
    - destruct H as (H1 & H2 & H3). split; [exact H1|split; [exact H2|apply IH; assumption]].
  Qed.

  Lemma wf_tags_removelast : forall lv l lo hi, wf_tags tl lv lo hi l -> wf_tags tl lv lo hi (removelast l).
  Proof.
    intros lv l; induction l as [|x r IH]; intros lo hi H; [exact H|].
    cbn [wf_tags] in H. destruct H as (H1 & H2 & H3). cbn [removelast]. destruct r as [|y r'].
    - cbn [wf_tags] in *. apply wf_tag_le in H2. lia.
    - cbn [wf_tags]. split; [exact H1|split; [exact H2|apply (IH _ _ H3)]].
  Qed.

  Lemma wf_cases_snoc : forall lv cs e' lo co ce cc sb,
    wf_cases tl lv co lo cs -> wf_tags tl lv co ce sb -> ce <= e' -> wf_cases tl lv e' lo (cs ++ [PCase co ce cc sb]).
  Proof.
    intros lv cs; induction cs as [|[co0 ce0 cc0 sb0] r IH]; intros e' lo co ce cc sb H Hs He; cbn [wf_cases app] in *.
    - split; [exact H|split; [exact Hs|exact He]].
    - destruct H as (H1 & H2 & H3). split; [exact H1|split; [exact H2|eapply IH; eassumption]].
  Qed.

  (* the nested fixpoints inside wf_tag are wf_tags / wf_cases *)
  Lemma wf_tag_if : forall lv o e cs, o <= e -> wf_cases tl lv e o cs -> wf_tag tl lv (PIf o e cs).
  Proof.
    intros lv o e cs H1 H2. cbn [wf_tag]. split; [exact H1|]. clear H1. revert o H2.
    induction cs as [|[co ce cc sb] r IH]; intros lo H2; [exact H2|].
    cbn [wf_cases] in H2. destruct H2 as (A & B & C). split; [exact A|split; [exact B|]]. apply (IH ce C).
  Qed.

  (* every tag of a well-formed list starts at or after the lower bound and ends at or before the upper *)
  Lemma wf_tags_bounds : forall lv l lo hi s, wf_tags tl lv lo hi l -> In s l -> lo <= tstart s /\ tend s <= hi.
  Proof.
    intros lv l; induction l as [|x r IH]; intros lo hi s H Hin; [destruct Hin|].
    cbn [wf_tags] in H. destruct H as (H1 & H2 & H3). pose proof (wf_tag_le _ _ H2). pose proof (wf_tags_le _ _ _ _ H3).
    destruct Hin as [<-|Hin]; [lia|]. destruct (IH _ _ _ H3 Hin). lia.
  Qed.

  Lemma wf_tags_firstn : forall lv k l lo hi, wf_tags tl lv lo hi l -> wf_tags tl lv lo hi (firstn k l).
  Proof.
    intros lv k; induction k as [|k IH]; intros l lo hi H; [cbn; eapply wf_tags_le; exact H|].
    destruct l as [|x r]; [exact H|]. cbn [firstn wf_tags] in *. destruct H as (H1 & H2 & H3).
    split; [exact H1|split; [exact H2|apply IH; exact H3]].
  Qed.

  Lemma wf_tags_skipn : forall lv k l lo hi, wf_tags tl lv lo hi l -> wf_tags tl lv lo hi (skipn k l).
  Proof.
    intros lv k; induction k as [|k IH]; intros l lo hi H; [exact H|].
    destruct l as [|x r]; [exact H|]. cbn [skipn]. cbn [wf_tags] in H. destruct H as (H1 & H2 & H3).
    apply wf_tag_le in H2. eapply wf_tags_lo; [apply IH; exact H3|lia].
  Qed.
End WF.

(* ---- inline if ---- *)
Definition is_leaf (t : tag) : Prop := match t with PVar _ | PRaw _ | PMath _ _ _ => True | _ => False end.
Definition key (t : tag) : nat := match t with PVar v | PRaw v => v_off v | PMath o _ _ => o | _ => 0 end.

Lemma leaf_key : forall tl lv t, is_leaf t -> wf_tag tl lv t -> tstart t <= key t /\ key t < tend t /\ leaf_wf lv t.
Proof.
  intros tl lv t Hl H. destruct t as [v|v|o e ex| | | |]; try destruct Hl; cbn [wf_tag tstart tend key leaf_wf] in *;
    unfold tpp_VariablePrefixLength, tpp_InLineSuffixLength in *; (split; [lia|split; [lia|exact H]]).
Qed.

(* ordered leaves that all lie inside [xs, xe] form a leaf_seq of that slice *)
Lemma seq_inside : forall tl lv l lo hi xs xe,
  wf_tags tl lv lo hi l -> xs <= xe ->
  (forall s, In s l -> is_leaf s /\ xs <= tstart s /\ tend s <= xe) -> leaf_seq lv xs xe l.
Proof.
  intros tl lv l; induction l as [|x r IH]; intros lo hi xs xe H Hx Hall; [exact Hx|].
  cbn [wf_tags] in H. destruct H as (H1 & H2 & H3).
  destruct (Hall x (or_introl eq_refl)) as (L1 & L2 & L3).
  cbn [leaf_seq]. split; [exact L2|split; [apply (leaf_key tl lv x L1 H2)|]].
  apply (IH (tend x) hi (tend x) xe H3 L3). intros s Hs.
  destruct (Hall s (or_intror Hs)) as (M1 & M2 & M3). split; [exact M1|split; [|exact M3]].
  apply (wf_tags_bounds _ _ _ _ _ _ H3 Hs).
Qed.

(* what the start-id scan computes *)
Lemma startid_scan_spec : forall subs fo a id, startid_scan subs fo a = Some id ->
  exists k, id = a + k /\ k <= length subs /\
    (forall s, In s (firstn k subs) -> is_leaf s /\ key s < fo) /\
    match skipn k subs with s0 :: _ => is_leaf s0 /\ fo <= key s0 | [] => True end.
Proof.
  intros subs; induction subs as [|s r IH]; intros fo a id H; cbn [startid_scan] in H.
  - injection H as <-. exists 0. cbn. split; [lia|split; [lia|split; [intros s []|exact I]]].
  - assert (Hk : forall off, (match s with PVar v | PRaw v => Some (v_off v) | PMath o _ _ => Some o | _ => None end) = Some off ->
                   is_leaf s /\ key s = off).
    { intros off E. destruct s as [v|v|o e ex| | | |]; try discriminate E; injection E as <-; cbn; auto. }
    destruct (match s with PVar v | PRaw v => Some (v_off v) | PMath o _ _ => Some o | _ => None end) as [off|] eqn:E; [|discriminate H].
    destruct (Hk off eq_refl) as [Hl Hkey].
    destruct (Nat.leb_spec fo off) as [Hge|Hlt].
    + injection H as <-. exists 0. cbn [firstn skipn length]. split; [lia|split; [lia|split; [intros s0 []|]]].
      split; [exact Hl|lia].
    + destruct (IH _ _ _ H) as (k & E1 & E2 & E3 & E4). exists (S k). cbn [firstn skipn length].
      split; [lia|split; [lia|split; [|exact E4]]].
      intros s0 [<-|Hin]; [split; [exact Hl|lia]|apply E3; exact Hin].
Qed.

(* what the validity test establishes *)
Definition inside_t (i : iifrec) (s : tag) : Prop :=
  i_toff i <> 0%N /\ i_off i + N.to_nat (i_toff i) <= tstart s /\ tend s <= i_off i + N.to_nat (i_toff i) + N.to_nat (i_tlen i).
Definition inside_f (i : iifrec) (s : tag) : Prop :=
  i_foff i <> 0%N /\ i_off i + N.to_nat (i_foff i) <= tstart s /\ tend s <= i_off i + N.to_nat (i_foff i) + N.to_nat (i_flen i).

Lemma sub_tags_valid_spec : forall i subs, sub_tags_valid i subs = Ok true ->
  forall s, In s subs -> is_leaf s /\ (inside_t i s \/ inside_f i s).
Proof.
  intros i subs; induction subs as [|x r IH]; intros H s Hin; [destruct Hin|].
  cbn [sub_tags_valid] in H.
  assert (Hins : forall st e,
     ((negb (N.eqb (i_toff i) 0) && (i_off i + N.to_nat (i_toff i) <=? st) && (e <=? i_off i + N.to_nat (i_toff i) + N.to_nat (i_tlen i))) ||
      (negb (N.eqb (i_foff i) 0) && (i_off i + N.to_nat (i_foff i) <=? st) && (e <=? i_off i + N.to_nat (i_foff i) + N.to_nat (i_flen i)))) = true ->
     (i_toff i <> 0%N /\ i_off i + N.to_nat (i_toff i) <= st /\ e <= i_off i + N.to_nat (i_toff i) + N.to_nat (i_tlen i)) \/
     (i_foff i <> 0%N /\ i_off i + N.to_nat (i_foff i) <= st /\ e <= i_off i + N.to_nat (i_foff i) + N.to_nat (i_flen i))) by (intros; lia).
  destruct x as [v|v|o e ex| | | |]; try discriminate H.
  - unfold csub in H. destruct (Nat.leb_spec tpp_VariablePrefixLength (v_off v)) as [Hle|]; [|discriminate H]. cbn [bind] in H.
    match type of H with (if ?c then _ else _) = _ => destruct c eqn:Ec; [|discriminate H] end.
    destruct Hin as [<-|Hin]; [|apply (IH H s Hin)]. split; [exact I|]. apply Hins in Ec. exact Ec.
  - unfold csub in H. destruct (Nat.leb_spec tpp_VariablePrefixLength (v_off v)) as [Hle|]; [|discriminate H]. cbn [bind] in H.
    match type of H with (if ?c then _ else _) = _ => destruct c eqn:Ec; [|discriminate H] end.
    destruct Hin as [<-|Hin]; [|apply (IH H s Hin)]. split; [exact I|]. apply Hins in Ec. exact Ec.
  - match type of H with (if ?c then _ else _) = _ => destruct c eqn:Ec; [|discriminate H] end.
    destruct Hin as [<-|Hin]; [|apply (IH H s Hin)]. split; [exact I|]. apply Hins in Ec. exact Ec.
Qed.

(* the slices the attribute scan leaves: inside the tag, and apart when both are set *)
Definition slices_ok (e : nat) (i : iifrec) : Prop :=
  let ts := i_off i + N.to_nat (i_toff i) in let te := ts + N.to_nat (i_tlen i) in
  let fs := i_off i + N.to_nat (i_foff i) in let fe := fs + N.to_nat (i_flen i) in
  (i_toff i = 0%N /\ i_tlen i = 0%N \/ te < e) /\ (i_foff i = 0%N /\ i_flen i = 0%N \/ fe < e) /\
  (i_toff i <> 0%N -> i_foff i <> 0%N -> te < fs \/ fe < ts).

Lemma in_firstn : forall A k (l : list A) x, In x (firstn k l) -> In x l.
Proof. intros A k l x H. rewrite <- (firstn_skipn k l). apply in_or_app. left. exact H. Qed.
Lemma in_skipn : forall A k (l : list A) x, In x (skipn k l) -> In x l.
Proof. intros A k l x H. rewrite <- (firstn_skipn k l). apply in_or_app. right. exact H. Qed.

Section Partition.
  Variables (tl : nat) (lv : list N).

  (* an earlier slice A (possibly not set) and a later slice B *)
  Lemma part : forall subs lo hi id (setA : Prop) xa ea xb eb,
    wf_tags tl lv lo hi subs ->
    (forall s, In s subs -> is_leaf s /\ ((setA /\ xa <= tstart s /\ tend s <= ea) \/ (xb <= tstart s /\ tend s <= eb))) ->
    (setA -> ea <= xb) -> xa <= ea -> xb <= eb ->
    (forall s, In s (firstn id subs) -> key s < xb) ->
    match skipn id subs with s0 :: _ => xb <= key s0 | [] => True end ->
    leaf_seq lv xa ea (firstn id subs) /\ leaf_seq lv xb eb (skipn id subs).
  Proof.
    intros subs lo hi id setA xa ea xb eb Hwf Hall Hab Ha Hb Hbefore Hafter. split.
    - apply (seq_inside tl lv _ lo hi); [apply wf_tags_firstn; exact Hwf|exact Ha|].
      intros s Hs. destruct (Hall s (in_firstn _ _ _ _ Hs)) as [Hl [HA|HB]]; [split; [exact Hl|apply HA]|].
      exfalso. pose proof (Hbefore s Hs) as Hk.
      pose proof (wf_tags_bounds _ _ _ _ _ _ Hwf (in_firstn _ _ _ _ Hs)) as _.
      assert (Hw : wf_tag tl lv s).
      { clear - Hwf Hs. apply in_firstn in Hs. revert lo Hwf. induction subs as [|x r IH]; intros lo Hwf; [destruct Hs|].
        cbn [wf_tags] in Hwf. destruct Hwf as (_ & H2 & H3). destruct Hs as [<-|Hs]; [exact H2|apply (IH Hs _ H3)]. }
      destruct (leaf_key tl lv s Hl Hw) as (K1 & K2 & _). lia.
    - pose proof (wf_tags_skipn tl lv id _ _ _ Hwf) as Hw.
      destruct (skipn id subs) as [|s0 r] eqn:Esk; [exact Hb|].
      assert (Hsub : forall s, In s (s0 :: r) -> In s subs) by (intros s Hs; apply (in_skipn _ id); rewrite Esk; exact Hs).
      cbn [wf_tags] in Hw. destruct Hw as (W1 & W2 & W3).
      destruct (Hall s0 (Hsub s0 (or_introl eq_refl))) as [Hl0 Hin0].
      destruct (leaf_key tl lv s0 Hl0 W2) as (K1 & K2 & _).
      assert (HB0 : xb <= tstart s0 /\ tend s0 <= eb) by (destruct Hin0 as [(S1 & S2 & S3)|HB]; [specialize (Hab S1); lia|exact HB]).
      apply (seq_inside tl lv _ lo hi); [cbn [wf_tags]; split; [exact W1|split; [exact W2|exact W3]]|exact Hb|].
      intros s [<-|Hs]; [split; [exact Hl0|exact HB0]|].
      destruct (Hall s (Hsub s (or_intror Hs))) as [Hl [(S1 & S2 & S3)|HB]]; [|split; [exact Hl|exact HB]].
      exfalso. specialize (Hab S1). destruct (wf_tags_bounds _ _ _ _ _ _ W3 Hs) as [B1 B2].
      assert (Hws : wf_tag tl lv s).
      { clear - W3 Hs. revert W3. generalize (tend s0). induction r as [|x r IH]; intros lo W3; [destruct Hs|].
        cbn [wf_tags] in W3. destruct W3 as (_ & H2 & H3). destruct Hs as [<-|Hs]; [exact H2|apply (IH Hs _ H3)]. }
      apply wf_tag_le in Hws. lia.
  Qed.

  (* sub tags [subs], start id [id] found with the start of the later slice *)
  Lemma iif_partition : forall i subs lo hi id e,
    wf_tags tl lv lo hi subs -> sub_tags_valid i subs = Ok true ->
    slices_ok e i -> e <= i_off i + N.to_nat (i_len i) ->
    (i_toff i <> 0%N \/ i_foff i <> 0%N) ->
    startid_scan subs (N.to_nat (if N.ltb (i_toff i) (i_foff i) then i_foff i else i_toff i) + i_off i) 0 = Some id ->
    (if N.ltb (i_toff i) (i_foff i) then N.to_nat (i_fid i) = id else N.to_nat (i_tid i) = id) ->
    iif_ok lv i subs.
  Proof.
    intros i subs lo hi id e Hwf Hval (St & Sf & Sd) He Hset Hscan Hid.
    pose proof (sub_tags_valid_spec _ _ Hval) as Hv.
    destruct (startid_scan_spec _ _ _ _ Hscan) as (k & Ek & Hk & Hbefore & Hafter). cbn in Ek. subst k.
    unfold iif_ok. unfold inside_t, inside_f in Hv.
    set (ts := i_off i + N.to_nat (i_toff i)) in *. set (te := ts + N.to_nat (i_tlen i)) in *.
    set (fs := i_off i + N.to_nat (i_foff i)) in *. set (fe := fs + N.to_nat (i_flen i)) in *.
    assert (Hte : te <= i_off i + N.to_nat (i_len i)) by (destruct St as [[A B]|A]; [unfold te, ts; rewrite A, B; lia|lia]).
    assert (Hfe : fe <= i_off i + N.to_nat (i_len i)) by (destruct Sf as [[A B]|A]; [unfold fe, fs; rewrite A, B; lia|lia]).
    destruct (N.ltb_spec (i_toff i) (i_foff i)) as [Hlt|Hge].
    - (* true slice first *)
      assert (Hf0 : i_foff i <> 0%N) by lia.
      destruct (N.ltb_spec (i_foff i) (i_toff i)) as [Hx|_]; [lia|].
      destruct (part subs lo hi id (i_toff i <> 0%N) ts te fs fe Hwf) as [P1 P2].
      + intros s Hs. destruct (Hv s Hs) as [Hl [HA|(_ & HB)]]; (split; [exact Hl|]); [left; exact HA|right; exact HB].
      + intros Ht0. destruct (Sd Ht0 Hf0) as [D|D]; unfold te, ts, fe, fs in *; lia.
      + unfold te; lia.
      + unfold fe; lia.
      + intros s Hs. destruct (Hbefore s Hs) as [_ Hk2]. unfold fs. lia.
      + destruct (skipn id subs) as [|s0 r]; [exact I|]. destruct Hafter as [_ Hk2]. unfold fs. lia.
      + rewrite Hid. repeat split; try assumption; lia.
    - (* false slice first (or only the true slice set) *)
      assert (Hne : i_toff i <> i_foff i).
      { intros E. destruct Hset as [Hs|Hs]; [assert (Hf0 : i_foff i <> 0%N) by (rewrite <- E; exact Hs)|assert (Ht0 : i_toff i <> 0%N) by (rewrite E; exact Hs)];
          [destruct (Sd Hs Hf0) as [D|D]|destruct (Sd Ht0 Hs) as [D|D]]; unfold te, ts, fe, fs in *; lia. }
      assert (Ht0 : i_toff i <> 0%N) by lia.
      destruct (N.ltb_spec (i_foff i) (i_toff i)) as [Hx|Hx]; [|lia].
      destruct (part subs lo hi id (i_foff i <> 0%N) fs fe ts te Hwf) as [P1 P2].
      + intros s Hs. destruct (Hv s Hs) as [Hl [(_ & HA)|HB]]; (split; [exact Hl|]); [right; exact HA|left; exact HB].
      + intros Hf0. destruct (Sd Ht0 Hf0) as [D|D]; unfold te, ts, fe, fs in *; lia.
      + unfold fe; lia.
      + unfold te; lia.
      + intros s Hs. destruct (Hbefore s Hs) as [_ Hk2]. unfold ts. lia.
      + destruct (skipn id subs) as [|s0 r]; [exact I|]. destruct Hafter as [_ Hk2]. unfold ts. lia.
      + rewrite Hid. repeat split; try assumption; lia.
  Qed.
End Partition.
