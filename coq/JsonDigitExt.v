(* JsonDigitExt.v -- the verdict of the number scanner on a numeral does not depend on what follows the
   numeral, as long as what follows may follow a value in a JSON text (nothing, whitespace, a comma, a
   closing bracket):  scan_number l = n  ->  scan_number (l ++ rest) = n with rest appended to what is left.
   Consequence: the predicate real_numeral (used by the C06 / C08 theorems) is decided by running the scanner
   on the numeral text alone. *)
From Coq Require Import NArith ZArith List Bool Lia.
From Qv Require Import gen.Tables_json JsonModel JsonSpec JsonProofsBase JsonProofsNum JsonProofsDoc JsonProofsInt.
Import ListNotations.
Local Open Scope N_scope.

(* a unit that may follow a value *)
Definition fchar (c : N) : Prop := (is_ws c || (c =? jc_comma) || (c =? jc_esquare) || (c =? jc_ecurly)) = true.

Lemma fchar_facts : forall c, fchar c ->
  is_dig c = false /\ is_dig19 c = false /\ is_dee c = false /\ (c =? dc_dot) = false /\ (c =? dc_zero) = false /\
  (c =? dc_x) = false /\ (c =? dc_ux) = false /\ (c =? dc_pos) = false /\ (c =? dc_neg) = false /\
  (c =? dc_e) = false /\ (c =? dc_ue) = false /\ hexval c = None.
Proof.
  intros c H. unfold fchar, is_ws in H.
  repeat (apply orb_true_iff in H; destruct H as [H|H]); apply N.eqb_eq in H; subst c; repeat split; reflexivity.
Qed.

Section Ext.
Variables (c : N) (rt : list N).
Hypothesis Hc : fchar c.
Let R := c :: rt.

Definition extres (n : numres) : numres :=
  match n with
  | NumNaN => NumNaN
  | NumNat x r => NumNat x (r ++ R)
  | NumInt z r => NumInt z (r ++ R)
  | NumReal r => NumReal (r ++ R)
  end.

Lemma skip_zeros_ext : forall l i d i' r' d', skip_zeros i l d = (i', r', d') ->
  exists d2, skip_zeros i (l ++ R) d = (i', r' ++ R, d2) /\ (r' <> [] -> d2 = d') /\ (r' = [] -> d2 = c) /\ (i' = i -> r' = l).
Proof.
  destruct (fchar_facts c Hc) as (_ & _ & _ & _ & Hz & _).
  induction l as [|a t IH]; intros i d i' r' d' H; cbn [skip_zeros app] in *.
  - inversion H; subst. unfold R at 1. cbn [skip_zeros]. rewrite Hz. exists c. repeat split; auto; congruence.
  - destruct (a =? dc_zero) eqn:E.
    + destruct (IH _ _ _ _ _ H) as (d2 & H1 & H2 & H3 & H4). exists d2. repeat split; auto.
      intros Hi. exfalso. clear -H Hi. assert (Hge : forall l i d i' r' d', skip_zeros i l d = (i', r', d') -> (i <= i')%nat).
      { induction l as [|b q IHq]; intros i0 d0 i1 r1 d1 Hq; cbn in Hq; [inversion Hq; lia|].
        destruct (b =? dc_zero); [apply IHq in Hq; lia|inversion Hq; lia]. }
      apply Hge in H. lia.
    + inversion H; subst i' r' d'. exists a. repeat split; auto; congruence.
Qed.

Lemma hex_loop_ext : forall l n n' r', hex_loop l n = (n', r') -> hex_loop (l ++ R) n = (n', r' ++ R).
Proof.
  destruct (fchar_facts c Hc) as (_ & _ & _ & _ & _ & _ & _ & _ & _ & _ & _ & Hh).
  induction l as [|a t IH]; intros n n' r' H; cbn [hex_loop app] in *.
  - inversion H; subst. unfold R. cbn [hex_loop]. rewrite Hh. reflexivity.
  - destruct (hexval a); [apply IH; exact H|inversion H; subst; reflexivity].
Qed.

Lemma pexp_digits_ext : forall l i ex i' r' ex', pexp_digits i l ex = (i', r', ex') -> pexp_digits i (l ++ R) ex = (i', r' ++ R, ex').
Proof.
  destruct (fchar_facts c Hc) as (Hd & _).
  induction l as [|a t IH]; intros i ex i' r' ex' H; cbn [pexp_digits app] in *.
  - inversion H; subst. unfold R. cbn [pexp_digits]. rewrite Hd. reflexivity.
  - destruct (is_dig a); [apply IH; exact H|inversion H; subst; reflexivity].
Qed.

Lemma pexp_tail_ext : forall neg i l ok ex ng i' r', pexp_tail neg i l = (ok, ex, ng, i', r') ->
  pexp_tail neg i (l ++ R) = (ok, ex, ng, i', r' ++ R).
Proof.
  intros neg i l ok ex ng i' r' H. unfold pexp_tail in *.
  destruct (pexp_digits i l 0) as [[i2 r2] ex2] eqn:E. rewrite (pexp_digits_ext _ _ _ _ _ _ E). inversion H; subst. reflexivity.
Qed.

(* parseExponent: same verdict; when it succeeds, same fields *)
Lemma pexp_ext : forall i l ok ex ng i' r', pexp i l = (ok, ex, ng, i', r') ->
  exists ex2 ng2 i2 r2, pexp i (l ++ R) = (ok, ex2, ng2, i2, r2) /\ (ok = true -> ex2 = ex /\ ng2 = ng /\ i2 = i' /\ r2 = r' ++ R).
Proof.
  destruct (fchar_facts c Hc) as (Hd & _ & _ & _ & _ & _ & _ & Hp & Hn & _).
  intros i l ok ex ng i' r' H. unfold pexp in *.
  destruct l as [|a t].
  - inversion H; subst. cbn [app]. unfold R at 1. rewrite Hp, Hn. cbn [orb].
    unfold pexp_tail, R. cbn [pexp_digits]. rewrite Hd. rewrite Nat.eqb_refl. cbn [negb]. do 4 eexists. split; [reflexivity|discriminate].
  - cbn [app]. destruct ((a =? dc_pos) || (a =? dc_neg)).
    + destruct t as [|a2 t2].
      * inversion H; subst. cbn [app]. unfold R at 1. rewrite Hp, Hn. cbn [orb].
        unfold pexp_tail, R. cbn [pexp_digits]. rewrite Hd. rewrite Nat.eqb_refl. cbn [negb]. do 4 eexists. split; [reflexivity|discriminate].
      * cbn [app]. destruct ((a2 =? dc_pos) || (a2 =? dc_neg)).
        -- inversion H; subst. do 4 eexists. split; [reflexivity|discriminate].
        -- change (a2 :: t2 ++ R) with ((a2 :: t2) ++ R). rewrite (pexp_tail_ext _ _ _ _ _ _ _ _ H). do 4 eexists. split; [reflexivity|auto].
    + change (a :: t ++ R) with ((a :: t) ++ R). rewrite (pexp_tail_ext _ _ _ _ _ _ _ _ H). do 4 eexists. split; [reflexivity|auto].
Qed.

Definition ext_t (t : tst) : tst :=
  {| t_i := t_i t; t_r := t_r t ++ R; t_hasdot := t_hasdot t; t_dot := t_dot t; t_expoff := t_expoff t; t_exp := t_exp t; t_negexp := t_negexp t |}.

Lemma tail_loop_ext : forall l i hd dot eo,
  tail_loop i (l ++ R) hd dot eo = match tail_loop i l hd dot eo with Some t => Some (ext_t t) | None => None end.
Proof.
  destruct (fchar_facts c Hc) as (Hd & _ & _ & Hdot & _ & _ & _ & _ & _ & He & Hue & _).
  induction l as [|a t IH]; intros i hd dot eo; cbn [tail_loop app].
  - unfold R at 1. cbn [tail_loop]. rewrite Hd, Hdot, He, Hue. reflexivity.
  - destruct (is_dig a); [apply IH|].
    destruct (a =? dc_dot); [destruct (negb hd); [apply IH|reflexivity]|].
    destruct ((a =? dc_e) || (a =? dc_ue)); [|reflexivity].
    destruct (pexp (S i) t) as [[[[ok ex] ng] i'] r'] eqn:E.
    destruct (pexp_ext _ _ _ _ _ _ _ E) as (ex2 & ng2 & i2 & r2 & E2 & Hok). rewrite E2.
    destruct ok; [|reflexivity]. destruct (Hok eq_refl) as (-> & -> & -> & ->). reflexivity.
Qed.

Lemma real_tail_ext : forall num i l hd fo dot start tmp,
  real_tail num i (l ++ R) hd fo dot start tmp = extres (real_tail num i l hd fo dot start tmp).
Proof.
  intros. unfold real_tail. rewrite tail_loop_ext.
  destruct (tail_loop i l hd dot 0) as [t|]; [|reflexivity].
  cbn [ext_t t_i t_r t_hasdot t_dot t_expoff t_exp t_negexp].
  repeat match goal with
         | |- context [let '(_, _) := ?x in _] => destruct x
         end.
  repeat match goal with
         | |- context [if ?b then _ else _] => destruct b
         end; try reflexivity.
  all: destruct (DigitModel.power_of_positive_ten _ _) as [[?|]|?]; reflexivity.
Qed.

(* two runs: window m1 on l, window m2 on l ++ R; either the same window, or the first one ends with the text *)
Lemma digits_upto_ext : forall l m1 m2 i d n i' r' d' n',
  digits_upto m1 i l d n = JOk (i', r', d', n') -> (m1 <= m2)%nat -> (m1 = m2 \/ m1 = (i + length l)%nat) ->
  exists d2, digits_upto m2 i (l ++ R) d n = JOk (i', r' ++ R, d2, n') /\
             (d2 = d' \/ (r' = [] /\ d2 = c /\ (is_dig d' = true \/ l = []))) /\
             (m1 = m2 \/ m1 = (i' + length r')%nat).
Proof.
  destruct (fchar_facts c Hc) as (Hd & _).
  induction l as [|a t IH]; intros m1 m2 i d n i' r' d' n' H Hle HW; cbn [digits_upto app] in *.
  - destruct (i <? m1)%nat eqn:E1; [discriminate|]. inversion H; subst i' r' d' n'. unfold R at 1. cbn [digits_upto].
    destruct (i <? m2)%nat eqn:E2.
    + rewrite Hd. exists c. split; [reflexivity|]. split; [right; auto|]. exact HW.
    + exists d. split; [reflexivity|]. split; [left; reflexivity|exact HW].
  - destruct (i <? m1)%nat eqn:E1.
    + apply Nat.ltb_lt in E1. replace (i <? m2)%nat with true by (symmetry; apply Nat.ltb_lt; lia).
      destruct (is_dig a) eqn:Ea.
      * destruct (IH m1 m2 (S i) a _ _ _ _ _ H Hle) as (d2 & H1 & H2 & H3).
        { destruct HW as [HW|HW]; [left; exact HW|right; cbn [length] in HW; lia]. }
        exists d2. split; [exact H1|]. split; [|exact H3].
        destruct H2 as [H2|(H2 & H2b & H2c)]; [left; exact H2|right]. repeat split; auto.
        destruct H2c as [H2c|H2c]; [left; exact H2c|]. subst t. cbn [digits_upto] in H.
        destruct (S i <? m1)%nat; [discriminate|]. inversion H; subst d'. left. exact Ea.
      * inversion H; subst i' r' d' n'. exists a. split; [reflexivity|]. split; [left; reflexivity|]. exact HW.
    + apply Nat.ltb_ge in E1. inversion H; subst i' r' d' n'.
      destruct HW as [HW|HW]; [|cbn [length] in HW; lia]. subst m2.
      replace (i <? m1)%nat with false by (symmetry; apply Nat.ltb_ge; lia).
      exists d. split; [reflexivity|]. split; [left; reflexivity|left; reflexivity].
Qed.

Definition exts_d (s : mst) (d : N) : mst :=
  {| m_i := m_i s; m_r := m_r s ++ R; m_digit := d; m_num := m_num s; m_hasdot := m_hasdot s; m_real := m_real s; m_dot := m_dot s |}.

Definition stext (st1 st2 : mstep) : Prop :=
  match st1 with
  | MNaN => st2 = MNaN
  | MCont a => st2 = MCont (exts_d a (m_digit a))
  | MBreak a => exists d2, st2 = MBreak (exts_d a d2)
  end.

Lemma mant_iter_ext : forall m1 m2 s st1, mant_iter m1 s = JOk st1 -> m_r s <> [] ->
  (m1 <= m2)%nat -> (m1 = m2 \/ m1 = (m_i s + length (m_r s))%nat) ->
  exists st2, mant_iter m2 (exts_d s (m_digit s)) = JOk st2 /\ stext st1 st2 /\
    match st1 with MCont a => (m1 = m2 \/ m1 = (m_i a + length (m_r a))%nat) /\ m_r a <> [] | _ => True end.
Proof.
  destruct (fchar_facts c Hc) as (Hd & Hd19 & _ & Hdot & Hz & _).
  intros m1 m2 s st1 H Hne Hle HW. unfold mant_iter in *. cbn [exts_d m_i m_r m_digit m_num m_hasdot m_real m_dot].
  destruct (digits_upto m1 (m_i s) (m_r s) (m_digit s) (m_num s)) as [[[[i1 r1] dg1] n1]|e] eqn:E; cbn [bind] in H; [|discriminate].
  destruct (digits_upto_ext _ _ _ _ _ _ _ _ _ _ E Hle HW) as (d2 & E2 & Hd2 & HW2). rewrite E2. cbn [bind].
  destruct Hd2 as [->|(Hr1 & -> & Hdig)].
  - (* the same unit decides *)
    destruct (dg1 =? dc_dot) eqn:Edot.
    2:{ inversion H; subst. eexists. split; [reflexivity|]. split; [eexists; reflexivity|exact I]. }
    destruct (negb (m_hasdot s)) eqn:Eh.
    2:{ inversion H; subst. eexists. split; [reflexivity|]. split; [reflexivity|exact I]. }
    destruct r1 as [|c1 t1]; [cbn in H; discriminate|]. cbn [adv bind app] in *.
    destruct (S i1 <? m1)%nat eqn:E3.
    + apply Nat.ltb_lt in E3. replace (S i1 <? m2)%nat with true by (symmetry; apply Nat.ltb_lt; lia).
      destruct t1 as [|d t2]; [cbn in H; discriminate|]. cbn [rd bind app] in *.
      destruct (is_dig19 d).
      { inversion H; subst. eexists. split; [reflexivity|]. split; [reflexivity|].
        cbn [m_i m_r]. split; [|discriminate]. destruct HW2 as [HW2|HW2]; [left; exact HW2|right; cbn [length] in *; lia]. }
      destruct ((d =? dc_zero) && (S (S i1) <? m1)%nat) eqn:E4.
      * apply andb_true_iff in E4. destruct E4 as [E4a E4b]. apply Nat.ltb_lt in E4b.
        rewrite E4a. replace (S (S i1) <? m2)%nat with true by (symmetry; apply Nat.ltb_lt; lia). cbn [andb tl].
        destruct t2 as [|d3 t3]; [cbn in H; discriminate|]. cbn [tl rd bind app] in *.
        destruct (is_dig d3); inversion H; subst; eexists; (split; [reflexivity|]); (split; [try reflexivity; eexists; reflexivity|]); try exact I.
        cbn [m_i m_r]. split; [|discriminate]. destruct HW2 as [HW2|HW2]; [left; exact HW2|right; cbn [length] in *; lia].
      * inversion H; subst.
        destruct ((d =? dc_zero) && (S (S i1) <? m2)%nat) eqn:E5.
        -- apply andb_true_iff in E5. destruct E5 as [E5a E5b]. apply Nat.ltb_lt in E5b. rewrite E5a in E4. cbn [andb] in E4. apply Nat.ltb_ge in E4.
           (* the first window ends here, hence so does the text: the unit after the zero is the follower *)
           destruct HW2 as [HW2|HW2]; [lia|]. cbn [length] in HW2.
           destruct t2 as [|d3 t3]; [|cbn [length] in HW2; lia].
           cbn [tl app]. unfold R. cbn [rd bind].
           eexists. split; [rewrite Hd; reflexivity|]. split; [eexists; reflexivity|exact I].
        -- eexists. split; [reflexivity|]. split; [eexists; reflexivity|exact I].
    + apply Nat.ltb_ge in E3. inversion H; subst.
      destruct (S i1 <? m2)%nat eqn:E6.
      * apply Nat.ltb_lt in E6. destruct HW2 as [HW2|HW2]; [lia|]. cbn [length] in HW2.
        destruct t1 as [|d t2]; [|cbn [length] in HW2; lia].
        cbn [app]. unfold R. cbn [rd bind].
        eexists. split; [rewrite Hd19, Hz; cbn [andb]; reflexivity|]. split; [eexists; reflexivity|exact I].
      * eexists. split; [reflexivity|]. split; [eexists; reflexivity|exact I].
  - (* run 1 ran out of text after at least one digit; run 2 reads the follower *)
    subst r1. rewrite Hdot.
    assert (Hnd : (dg1 =? dc_dot) = false).
    { destruct Hdig as [Hdig|Hdig]; [|congruence]. apply N.eqb_neq. intros ->. discriminate. }
    rewrite Hnd in H. inversion H; subst. eexists. split; [reflexivity|]. split; [eexists; reflexivity|exact I].
Qed.

Lemma mant_loop_ext : forall f m1 m2 s dd st1, mant_loop f m1 s = JOk st1 ->
  (m_r s <> [] -> dd = m_digit s) ->
  (m1 <= m2)%nat -> (m1 = m2 \/ m1 = (m_i s + length (m_r s))%nat) -> (m_r s = [] -> (m_i s < m2)%nat) ->
  exists st2, mant_loop f m2 (exts_d s dd) = JOk st2 /\
    match st1 with MNaN => st2 = MNaN | MBreak a => exists d2, st2 = MBreak (exts_d a d2) | MCont _ => False end.
Proof.
  destruct (fchar_facts c Hc) as (Hd & _ & _ & Hdot & _).
  induction f as [|f IH]; intros m1 m2 s dd st1 H Hdd Hle HW Hlt; [discriminate|].
  cbn [mant_loop] in *.
  destruct (m_r s) as [|a t] eqn:Er.
  - cbn [has] in H. inversion H; subst st1. unfold exts_d at 1. cbn [m_r]. rewrite Er. cbn [app]. unfold R at 1. cbn [has].
    (* run 2 performs one iteration on the follower and breaks *)
    unfold mant_iter. unfold exts_d. cbn [m_i m_r m_digit m_num m_hasdot m_real m_dot]. rewrite Er. cbn [app]. unfold R. cbn [digits_upto].
    replace (m_i s <? m2)%nat with true by (symmetry; apply Nat.ltb_lt; apply Hlt; reflexivity). rewrite Hd. cbn [bind]. rewrite Hdot.
    eexists. split; [reflexivity|]. exists c. unfold exts_d. rewrite ?Er. reflexivity.
  - cbn [has] in H.
    assert (Hne : m_r s <> []) by (rewrite Er; discriminate).
    assert (Edd : dd = m_digit s) by (apply Hdd; discriminate). rewrite Edd.
    assert (Hhas : has (m_r (exts_d s (m_digit s))) = true) by (cbn [exts_d m_r]; rewrite Er; reflexivity).
    rewrite Hhas.
    destruct (mant_iter m1 s) as [st|e] eqn:Ei; cbn [bind] in H; [|discriminate].
    destruct (mant_iter_ext m1 m2 s st Ei Hne Hle) as (st2 & E2 & Hrel & HW2); [rewrite Er; exact HW|].
    rewrite E2. cbn [bind].
    destruct st as [s'|s'|]; cbn [stext] in Hrel.
    + subst st2. destruct HW2 as [HW2 Hne2]. apply (IH m1 m2 s' (m_digit s') st1 H); auto. intros E0. congruence.
    + inversion H; subst st1. destruct Hrel as [d2 ->]. eexists. split; [reflexivity|]. exists d2. reflexivity.
    + inversion H; subst st1. subst st2. eexists. split; [reflexivity|reflexivity].
Qed.

Lemma window_W : forall i r,
  (window i r <= window i (r ++ R))%nat /\ (window i r = window i (r ++ R) \/ window i r = (i + length r)%nat) /\
  (i + 1 <= window i (r ++ R))%nat /\ (length r + 1 <= 19 -> i + length r + 1 <= window i (r ++ R))%nat.
Proof.
  intros i r. unfold window. rewrite app_length. unfold R. cbn [length].
  destruct (Nat.ltb_spec (length r) 19); destruct (Nat.ltb_spec (length r + S (length rt)) 19); repeat split; lia.
Qed.

Lemma scan_go_ext : forall neg s m1 m2 fo start dd n, scan_go neg s m1 fo start = JOk n ->
  (m_r s <> [] -> dd = m_digit s) ->
  (m1 <= m2)%nat -> (m1 = m2 \/ m1 = (m_i s + length (m_r s))%nat) -> (m_r s = [] -> (m_i s < m2)%nat) ->
  scan_go neg (exts_d s dd) m2 fo start = JOk (extres n).
Proof.
  destruct (fchar_facts c Hc) as (Hd & _ & Hdee & _).
  intros neg s m1 m2 fo start dd n H Hdd Hle HW Hlt. unfold scan_go in *.
  destruct (mant_loop 3 m1 s) as [st1|e] eqn:E1; cbn [bind] in H; [|discriminate].
  destruct (mant_loop_ext 3 m1 m2 s dd st1 E1 Hdd Hle HW Hlt) as (st2 & E2 & Hrel). rewrite E2. cbn [bind].
  destruct st1 as [a|a|]; [contradiction| |subst st2; inversion H; reflexivity].
  destruct Hrel as [d2 ->]. cbn [exts_d m_i m_r m_num m_real m_hasdot m_dot].
  (* the 20th-digit step *)
  assert (Hstep : forall X,
     (if negb (m_real a) && has (m_r a)
      then dg <- rd 3363 (m_r a);;
           (if is_dee dg then JOk (m_i a, m_r a, m_num a, m_i a, true)
            else if is_dig dg
                 then if (nat_max_div10 <? m_num a) || (m_num a =? nat_max_div10) && (dc_five <? dg)
                      then JOk (m_i a, m_r a, m_num a, m_i a, true)
                      else r' <- adv 3384 (m_r a);;
                           (if has r'
                            then dg2 <- rd 3388 r';;
                                 JOk (S (m_i a), r', m64 (m_num a * 10 + dg - dc_zero), S (m_i a), is_dee dg2 || is_dig dg2)
                            else JOk (S (m_i a), r', m64 (m_num a * 10 + dg - dc_zero), S (m_i a), false))
                 else JOk (m_i a, m_r a, m_num a, m_i a, false))
      else JOk (m_i a, m_r a, m_num a, m_i a, m_real a)) = JOk X ->
     (if negb (m_real a) && has (m_r a ++ R)
      then dg <- rd 3363 (m_r a ++ R);;
           (if is_dee dg then JOk (m_i a, m_r a ++ R, m_num a, m_i a, true)
            else if is_dig dg
                 then if (nat_max_div10 <? m_num a) || (m_num a =? nat_max_div10) && (dc_five <? dg)
                      then JOk (m_i a, m_r a ++ R, m_num a, m_i a, true)
                      else r' <- adv 3384 (m_r a ++ R);;
                           (if has r'
                            then dg2 <- rd 3388 r';;
                                 JOk (S (m_i a), r', m64 (m_num a * 10 + dg - dc_zero), S (m_i a), is_dee dg2 || is_dig dg2)
                            else JOk (S (m_i a), r', m64 (m_num a * 10 + dg - dc_zero), S (m_i a), false))
                 else JOk (m_i a, m_r a ++ R, m_num a, m_i a, false))
      else JOk (m_i a, m_r a ++ R, m_num a, m_i a, m_real a))
     = match X with (i2, r2, num2, tmp2, real2) => JOk (i2, r2 ++ R, num2, tmp2, real2) end).
  { intros X HX. destruct (m_real a); cbn [negb andb] in *; [inversion HX; reflexivity|].
    destruct (m_r a) as [|dg t]; cbn [has app] in *.
    - inversion HX; subst. unfold R. cbn [has rd bind]. rewrite Hdee, Hd. reflexivity.
    - cbn [rd bind] in *. destruct (is_dee dg); [inversion HX; reflexivity|].
      destruct (is_dig dg); [|inversion HX; reflexivity].
      destruct ((nat_max_div10 <? m_num a) || (m_num a =? nat_max_div10) && (dc_five <? dg)); [inversion HX; reflexivity|].
      cbn [adv bind] in *. destruct t as [|dg2 t2]; cbn [has app rd bind] in *.
      + inversion HX; subst. unfold R. cbn [has rd bind]. rewrite Hdee, Hd. reflexivity.
      + inversion HX; reflexivity. }
  match type of H with (bind ?x _) = _ => destruct x as [[[[[i2 r2] num2] tmp2] real2]|e] eqn:E3 end; cbn [bind] in H; [|discriminate].
  rewrite (Hstep _ eq_refl). cbn [bind].
  destruct (negb real2 && negb neg); [inversion H; reflexivity|].
  destruct (negb real2 && (num2 =? 0)); [inversion H; reflexivity|].
  destruct (negb real2 && (num2 <=? int_min_abs)); [inversion H; reflexivity|].
  destruct (negb (num2 =? 0) || real2); [|inversion H; reflexivity].
  inversion H. rewrite real_tail_ext. reflexivity.
Qed.

Lemma lone_zero_exact : forall neg i,
  scan_go neg {| m_i := i; m_r := [dc_zero]; m_digit := dc_zero; m_num := 0; m_hasdot := false; m_real := false; m_dot := O |}
          (window i [dc_zero]) false O = JOk (if neg then NumReal [] else NumNat 0 []).
Proof.
  intros neg i.
  assert (Hw : window i [dc_zero] = S i) by (unfold window; cbn; lia).
  rewrite Hw.
  assert (Hm : mant_loop 3 (S i) {| m_i := i; m_r := [dc_zero]; m_digit := dc_zero; m_num := 0; m_hasdot := false; m_real := false; m_dot := O |}
               = JOk (MBreak {| m_i := S i; m_r := []; m_digit := dc_zero; m_num := 0; m_hasdot := false; m_real := false; m_dot := O |})).
  { cbn [mant_loop m_r has]. unfold mant_iter. cbn [m_i m_r m_digit m_num m_hasdot m_real m_dot digits_upto].
    assert (E1 : (i <? S i)%nat = true) by (apply Nat.ltb_lt; lia).
    assert (E2 : (S i <? S i)%nat = false) by (apply Nat.ltb_irrefl).
    rewrite E1. change (is_dig dc_zero) with true. cbn iota. rewrite E2. cbn [bind].
    change (dc_zero =? dc_dot) with false. cbn iota. reflexivity. }
  unfold scan_go. rewrite Hm. cbn [bind m_r m_i m_num m_real m_hasdot m_dot has negb andb].
  destruct neg; vm_compute; reflexivity.
Qed.

Lemma zero_follow_exact : forall neg i,
  scan_go neg {| m_i := S i; m_r := R; m_digit := c; m_num := 0; m_hasdot := false; m_real := false; m_dot := O |}
          (window (S i) R) false O = JOk (if neg then NumReal R else NumNat 0 R).
Proof.
  destruct (fchar_facts c Hc) as (Hd & _ & Hdee & Hdot & _).
  intros neg i.
  assert (Hw : (S i <? window (S i) R)%nat = true).
  { apply Nat.ltb_lt. unfold window, R. cbn [length]. destruct (S (length rt) <? 19)%nat; lia. }
  set (m := window (S i) R) in *.
  unfold scan_go. cbn [mant_loop m_r]. unfold R. cbn [has]. unfold mant_iter.
  cbn [m_i m_r m_digit m_num m_hasdot m_real m_dot]. cbn [digits_upto]. rewrite Hw, Hd. cbn [bind]. rewrite Hdot. cbn [bind].
  cbn [m_i m_r m_num m_real m_hasdot m_dot negb andb]. cbn [has rd bind]. rewrite Hdee, Hd. cbn [bind negb andb].
  destruct neg; reflexivity.
Qed.

Lemma nd_class : forall d, (d =? dc_dot) = true -> ((d <? dc_zero) || (dc_nine <? d)) = true.
Proof. intros d H. apply N.eqb_eq in H. subst d. reflexivity. Qed.

Lemma scan_unsigned_ext : forall neg i l n, scan_unsigned neg i l = JOk n -> scan_unsigned neg i (l ++ R) = JOk (extres n).
Proof.
  destruct (fchar_facts c Hc) as (Hd & Hd19 & Hdee & Hdot & Hz & Hx & Hux & _).
  intros neg i l n H. unfold scan_unsigned in *.
  destruct l as [|d t].
  { cbn [has negb] in H. inversion H; subst n. cbn [app]. unfold R at 1 2. cbn [has negb rd bind]. rewrite Hd19, Hz, Hdot. reflexivity. }
  cbn [app has negb rd bind] in *.
  destruct (is_dig19 d) eqn:E19.
  { cbn [adv bind] in *. destruct (window_W i (d :: t)) as (W1 & W2 & W3 & W4).
    change (d :: t ++ R) with ((d :: t) ++ R).
    apply (scan_go_ext neg _ (window i (d :: t)) (window i ((d :: t) ++ R)) false i d n H); cbn [m_r m_i m_digit]; auto.
    - destruct W2 as [W2|W2]; [left; exact W2|right; cbn [length] in W2; lia].
    - intros Et. subst t. cbn [length] in W4. lia. }
  destruct ((d =? dc_zero) || (d =? dc_dot)) eqn:Ezd; [|inversion H; reflexivity].
  unfold scan_zero in *. cbn [tl] in *.
  destruct (d =? dc_zero) eqn:Ez0; cbn [andb] in *.
  - (* a leading zero *)
    destruct t as [|d1 t2].
    + (* the numeral is just "0": run 1 has no look-ahead, run 2 looks at the follower *)
      cbn [has bind app] in *. apply N.eqb_eq in Ez0. subst d. change (dc_zero =? dc_dot) with false in H. cbn iota in H.
      unfold R. cbn [has adv rd bind]. rewrite Hx, Hux, Hd. cbn [orb bind]. rewrite Hdot. fold R.
      rewrite lone_zero_exact in H. rewrite zero_follow_exact. inversion H; subst n. destruct neg; reflexivity.
    + cbn [has app adv rd bind] in *.
      destruct ((d1 =? dc_x) || (d1 =? dc_ux)).
      { cbn [adv bind] in *. destruct (hex_loop t2 0) as [hn hr] eqn:Eh. rewrite (hex_loop_ext _ _ _ _ Eh).
        inversion H; subst n. reflexivity. }
      destruct (is_dig d1); cbn [bind] in *; [inversion H; reflexivity|].
      destruct (d1 =? dc_dot) eqn:Ed1.
      * cbn [adv bind] in *. destruct (skip_zeros (S (S i)) t2 d1) as [[i3 r3] d3] eqn:Es.
        destruct (skip_zeros_ext _ _ _ _ _ _ Es) as (d3' & Es2 & Hd3a & Hd3b & Hd3c). rewrite Es2.
        replace (S i =? i)%nat with false in * by (symmetry; apply Nat.eqb_neq; lia). rewrite andb_false_r in *. cbn [andb] in *.
        destruct (window_W i3 r3) as (W1 & W2 & W3 & W4).
        apply (scan_go_ext neg _ (window i3 r3) (window i3 (r3 ++ R)) true i3 d3' n H); cbn [m_r m_i m_digit]; auto.
        intros Er. lia.
      * destruct (window_W (S i) (d1 :: t2)) as (W1 & W2 & W3 & W4).
        change (d1 :: t2 ++ R) with ((d1 :: t2) ++ R).
        apply (scan_go_ext neg _ (window (S i) (d1 :: t2)) (window (S i) ((d1 :: t2) ++ R)) false O d1 n H); cbn [m_r m_i m_digit]; auto.
        intros Er. discriminate.
  - (* a leading dot *)
    cbn [orb] in Ezd. cbn [bind] in *. rewrite Ezd in *. cbn [adv bind] in *.
    destruct (skip_zeros (S i) t d) as [[i3 r3] d3] eqn:Es.
    destruct (skip_zeros_ext _ _ _ _ _ _ Es) as (d3' & Es2 & Hd3a & Hd3b & Hd3c). rewrite Es2.
    rewrite Nat.eqb_refl in *. rewrite andb_true_r in *.
    assert (Hcls : ((S i =? i3)%nat && ((d3' <? dc_zero) || (dc_nine <? d3'))) = ((S i =? i3)%nat && ((d3 <? dc_zero) || (dc_nine <? d3)))).
    { destruct (S i =? i3)%nat eqn:Ei; [|reflexivity]. cbn [andb]. apply Nat.eqb_eq in Ei.
      destruct r3 as [|x r3'].
      - rewrite (Hd3b eq_refl).
        assert (Ht : t = []) by (symmetry; apply Hd3c; symmetry; exact Ei). subst t. cbn in Es. inversion Es; subst d3.
        rewrite (nd_class d Ezd). destruct (fchar_facts c Hc) as (Hdc & _). unfold is_dig in Hdc.
        apply andb_false_iff in Hdc. destruct Hdc as [Hdc|Hdc].
        + apply N.leb_gt in Hdc. replace (c <? dc_zero) with true by (symmetry; apply N.ltb_lt; exact Hdc). reflexivity.
        + apply N.leb_gt in Hdc. replace (dc_nine <? c) with true by (symmetry; apply N.ltb_lt; exact Hdc). apply orb_true_r.
      - rewrite Hd3a by discriminate. reflexivity. }
    rewrite Hcls.
    destruct ((S i =? i3)%nat && ((d3 <? dc_zero) || (dc_nine <? d3))); [inversion H; reflexivity|].
    destruct (window_W i3 r3) as (W1 & W2 & W3 & W4).
    apply (scan_go_ext neg _ (window i3 r3) (window i3 (r3 ++ R)) true i3 d3' n H); cbn [m_r m_i m_digit]; auto.
    intros Er. lia.
Qed.

Theorem scan_number_ext_c : forall l n, scan_number l = JOk n -> scan_number (l ++ R) = JOk (extres n).
Proof.
  destruct (fchar_facts c Hc) as (_ & _ & _ & _ & _ & _ & _ & Hp & Hn & _).
  intros l n H. unfold scan_number in *. destruct l as [|d0 t].
  - cbn [has negb] in H. inversion H; subst n. cbn [app]. unfold R at 1 2. cbn [has negb rd bind]. rewrite Hn, Hp.
    change (c :: rt) with ([] ++ R). apply (scan_unsigned_ext false O [] NumNaN). reflexivity.
  - cbn [app has negb rd bind] in *.
    destruct (d0 =? dc_neg); [cbn [adv bind] in *; apply scan_unsigned_ext; exact H|].
    destruct (d0 =? dc_pos); [cbn [adv bind] in *; apply scan_unsigned_ext; exact H|].
    change (d0 :: t ++ R) with ((d0 :: t) ++ R). apply scan_unsigned_ext. exact H.
Qed.

End Ext.

(* the verdict of the scanner on a numeral does not depend on what follows the numeral *)
Definition ext_rest (n : numres) (rest : list N) : numres :=
  match n with
  | NumNaN => NumNaN
  | NumNat x r => NumNat x (r ++ rest)
  | NumInt z r => NumInt z (r ++ rest)
  | NumReal r => NumReal (r ++ rest)
  end.

Theorem scan_number_ext : forall l rest n, num_follow rest = true -> scan_number l = JOk n ->
  scan_number (l ++ rest) = JOk (ext_rest n rest).
Proof.
  intros l rest n Hf H. destruct rest as [|c rt].
  - rewrite app_nil_r. rewrite H. destruct n; cbn [ext_rest]; rewrite ?app_nil_r; reflexivity.
  - apply (scan_number_ext_c c rt Hf l n H).
Qed.

(* real_numeral is decided by running the scanner on the numeral alone *)
Definition real_wholeb (txt : list N) : bool :=
  match scan_number txt with JOk (NumReal []) => negb (match txt with [] => true | _ => false end) | _ => false end.

Theorem real_numeral_decided : forall txt, real_wholeb txt = true -> real_numeral txt.
Proof.
  intros txt H. unfold real_wholeb in H.
  destruct (scan_number txt) as [[| | |r]|] eqn:E; try discriminate. destruct r; [|discriminate].
  split; [destruct txt; [discriminate|discriminate]|].
  intros rest Hf. rewrite (scan_number_ext txt rest _ Hf E). reflexivity.
Qed.
