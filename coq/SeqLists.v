(* SeqLists.v -- C14: list lemmas shared by the Seq proofs. *)
From Coq Require Import List Arith Lia.
Import ListNotations.

Lemma skipn_skipn' : forall (T : Type) a b (l : list T), skipn a (skipn b l) = skipn (b + a) l.
Proof.
  intros T a b. induction b as [|b IH]; intros l; cbn.
  - reflexivity.
  - destruct l as [|x l]; [now rewrite skipn_nil | apply IH].
Qed.

Lemma firstn_add_skipn : forall (T : Type) (l : list T) p len,
  firstn p l ++ firstn len (skipn p l) = firstn (p + len) l.
Proof.
  intros T l p len. revert l. induction p as [|p IH]; intros l; cbn.
  - reflexivity.
  - destruct l as [|x l]; cbn.
    + now rewrite firstn_nil.
    + now rewrite IH.
Qed.

Lemma firstn1_skipn_nth : forall (T : Type) (d : T) (l : list T) k,
  k < length l -> firstn 1 (skipn k l) = [nth k l d].
Proof.
  intros T d l. induction l as [|y l IH]; intros k Hk; cbn in Hk; [lia|].
  destruct k as [|k]; [reflexivity|]. cbn [skipn nth]. apply IH. lia.
Qed.
