(* CmpProofsDbl.v -- C15: the bit-pattern model of double comparison used by
   CmpModel.v (sign-magnitude reading of the 64-bit pattern, NaN unordered) is
   Coq's SpecFloat.SFcompare on the decoded binary64 values, for every pair of
   patterns; hence the Value model meets the Value specification (oracle) on
   every pair of values, NaN included. *)
From Coq Require Import NArith ZArith List Bool Lia.
From Coq Require Import Floats.SpecFloat.
From Qv Require Import gen.Tables_cmp CmpModel CmpProofs CmpProofsValue.
Import ListNotations.
Local Open Scope N_scope.

Lemma bits_split : forall b, b < 2 ^ 64 ->
  exists s e m, s < 2 /\ e < 2 ^ 11 /\ m < 2 ^ 52 /\ b = s * 2 ^ 63 + e * 2 ^ 52 + m
    /\ (b / 2 ^ 63) mod 2 = s /\ (b / 2 ^ 52) mod 2 ^ 11 = e /\ b mod 2 ^ 52 = m /\ b mod 2 ^ 63 = e * 2 ^ 52 + m.
Proof.
  intros b Hb. exists ((b / 2 ^ 63) mod 2), ((b / 2 ^ 52) mod 2 ^ 11), (b mod 2 ^ 52).
  change (2 ^ 64) with 18446744073709551616 in *. change (2 ^ 63) with 9223372036854775808.
  change (2 ^ 52) with 4503599627370496. change (2 ^ 11) with 2048.
  pose proof (N.div_mod b 9223372036854775808 ltac:(discriminate)) as E1.
  pose proof (N.mod_lt b 9223372036854775808 ltac:(discriminate)) as L1.
  pose proof (N.div_mod b 4503599627370496 ltac:(discriminate)) as E2.
  pose proof (N.mod_lt b 4503599627370496 ltac:(discriminate)) as L2.
  pose proof (N.div_mod (b / 4503599627370496) 2048 ltac:(discriminate)) as E3.
  pose proof (N.mod_lt (b / 4503599627370496) 2048 ltac:(discriminate)) as L3.
  pose proof (N.div_mod (b / 9223372036854775808) 2 ltac:(discriminate)) as E4.
  pose proof (N.mod_lt (b / 9223372036854775808) 2 ltac:(discriminate)) as L4.
  set (q1 := b / 9223372036854775808) in *. set (r1 := b mod 9223372036854775808) in *.
  set (q2 := b / 4503599627370496) in *. set (r2 := b mod 4503599627370496) in *.
  set (q3 := q2 / 2048) in *. set (e := q2 mod 2048) in *.
  set (q4 := q1 / 2) in *. set (s := q1 mod 2) in *.
  clearbody q1 r1 q2 r2 q3 e q4 s.
  repeat split; try lia.
Qed.


Definition sf_parts (sg : bool) (e m : N) : spec_float :=
  if e =? 0 then
    match m with
    | N0 => S754_zero sg
    | Npos p => S754_finite sg p (-1074)
    end
  else if e =? 2047 then
    (if m =? 0 then S754_infinity sg else S754_nan)
  else
    match m + 4503599627370496 with
    | N0 => S754_nan
    | Npos p => S754_finite sg p (Z.of_N e - 1075)
    end.
Definition nan_parts (e m : N) : bool := (e =? 2047) && negb (m =? 0).
Definition key_parts (sg : bool) (e m : N) : Z :=
  if sg then (- Z.of_N (e * 4503599627370496 + m))%Z else Z.of_N (e * 4503599627370496 + m).

Inductive view (sg : bool) (e m : N) : spec_float -> Prop :=
| V_zero : e = 0 -> m = 0 -> view sg e m (S754_zero sg)
| V_sub : forall p, e = 0 -> m = Npos p -> view sg e m (S754_finite sg p (-1074))
| V_inf : e = 2047 -> m = 0 -> view sg e m (S754_infinity sg)
| V_nan : e = 2047 -> m <> 0 -> view sg e m S754_nan
| V_norm : forall q, 0 < e -> e < 2047 -> Npos q = m + 4503599627370496 -> view sg e m (S754_finite sg q (Z.of_N e - 1075)).

Lemma sf_parts_view : forall sg e m, e < 2048 -> view sg e m (sf_parts sg e m).
Proof.
  intros sg e m He. unfold sf_parts.
  destruct (N.eqb_spec e 0) as [E0|E0].
  - destruct m as [|p]; [apply V_zero|apply V_sub]; auto.
  - destruct (N.eqb_spec e 2047) as [E1|E1].
    + destruct (N.eqb_spec m 0) as [M0|M0]; [apply V_inf|apply V_nan]; auto.
    + destruct (m + 4503599627370496) as [|q] eqn:Q; [lia|]. apply V_norm; lia.
Qed.

Lemma pcmp : forall x y, Pos.compare_cont Eq x y = (Z.pos x ?= Z.pos y)%Z.
Proof. reflexivity. Qed.

Lemma parts_cmp : forall sa ea ma sb eb mb, ea < 2048 -> ma < 4503599627370496 -> eb < 2048 -> mb < 4503599627370496 ->
  SFcompare (sf_parts sa ea ma) (sf_parts sb eb mb) =
  if nan_parts ea ma || nan_parts eb mb then None else Some (key_parts sa ea ma ?= key_parts sb eb mb)%Z.
Proof.
  intros sa ea ma sb eb mb Hea Hma Heb Hmb.
  pose proof (sf_parts_view sa ea ma Hea) as Va. pose proof (sf_parts_view sb eb mb Heb) as Vb.
  unfold nan_parts, key_parts.
  destruct Va as [A1 A2|pa A1 A2|A1 A2|A1 A2|qa A1 A2 A3]; destruct Vb as [B1 B2|pb B1 B2|B1 B2|B1 B2|qb B1 B2 B3];
  unfold SFcompare; rewrite ?pcmp;
  destruct (N.eqb_spec ea 2047); try lia; destruct (N.eqb_spec eb 2047); try lia;
  destruct (N.eqb_spec ma 0); try lia; destruct (N.eqb_spec mb 0); try lia;
  cbn [andb orb negb]; try reflexivity; f_equal;
  destruct sa; destruct sb; symmetry;
  repeat match goal with
  | |- _ = ?rhs => match rhs with context [(?x ?= ?y)%Z] => destruct (Z.compare_spec x y) end
  end; cbn [CompOpp];
  try (apply Z.compare_eq_iff; lia); try (apply Z.compare_lt_iff; lia); try (apply Z.compare_gt_iff; lia); try lia.
Qed.

(** the bit-pattern model of double comparison used by CmpModel.v is Coq's
    SpecFloat comparison of the decoded binary64 values, for every pair of patterns *)
Theorem dbl_model_is_specfloat : forall a b, a < 2 ^ 64 -> b < 2 ^ 64 ->
  sf_cmp a b = if dbl_isnan a || dbl_isnan b then None else Some (dbl_key a ?= dbl_key b)%Z.
Proof.
  intros a b Ha Hb.
  destruct (bits_split a Ha) as [sa [ea [ma [Hsa [Hea [Hma [_ [A1 [A2 [A3 A4]]]]]]]]]].
  destruct (bits_split b Hb) as [sb [eb [mb [Hsb [Heb [Hmb [_ [B1 [B2 [B3 B4]]]]]]]]]].
  unfold sf_cmp, sf_of_bits, dbl_isnan, dbl_key.
  rewrite A1, A2, A3, A4, B1, B2, B3, B4.
  exact (parts_cmp (sa =? 1) ea ma (sb =? 1) eb mb Hea Hma Heb Hmb).
Qed.

(* the five double operators of the model, read off SFcompare *)
Corollary d_op_specfloat : forall op a b, a < 2 ^ 64 -> b < 2 ^ 64 ->
  d_op op a b = match sf_cmp a b with
                | Some Lt => match op with OpLt | OpLe => true | _ => false end
                | Some Eq => match op with OpLe | OpGe | OpEq => true | _ => false end
                | Some Gt => match op with OpGt | OpGe => true | _ => false end
                | None => false
                end.
Proof.
  intros op a b Ha Hb. rewrite (dbl_model_is_specfloat a b Ha Hb).
  unfold d_op, dbl_lt, dbl_gt, dbl_le, dbl_ge, dbl_eq, dbl_ord.
  destruct (dbl_isnan a); [destruct op; reflexivity|]. destruct (dbl_isnan b); [destruct op; reflexivity|].
  cbn [negb andb orb].
  destruct op; unfold Z.ltb, Z.leb; try rewrite (Z.compare_antisym (dbl_key a) (dbl_key b));
  try (destruct (dbl_key a ?= dbl_key b)%Z; reflexivity).
  destruct (Z.compare_spec (dbl_key a) (dbl_key b)) as [E|E|E].
  - rewrite E. apply Z.eqb_refl.
  - apply Z.eqb_neq. lia.
  - apply Z.eqb_neq. lia.
Qed.

(* ------------------------------------------------------------------ *)
(** * The Value model meets the Value specification on every pair *)

Definition v_wf (v : value) : Prop := match deref v with VDbl b => b < 2 ^ 64 | _ => True end.

Lemma ops_vops : forall c,
  bools_eqb [op_of_cmp OpLt c; op_of_cmp OpGt c; op_of_cmp OpLe c; op_of_cmp OpGe c; op_of_cmp OpEq c]
            (vops_of_cmp (Some c)) = true.
Proof. destruct c; reflexivity. Qed.

Theorem value_model_meets_spec : forall w a b, v_wf a -> v_wf b ->
  val_pair_oracle w a b (v_ops w a b) = true.
Proof.
  intros w a b Wa Wb. unfold val_pair_oracle, v_ops, v_lt, v_gt, v_le, v_ge, v_eq, vspec_cmp.
  rewrite !v_op_deref. unfold v_wf in Wa, Wb.
  pose proof (deref_nonptr a) as Pa. pose proof (deref_nonptr b) as Pb.
  destruct (deref a); try contradiction; destruct (deref b); try contradiction;
  cbn [v_core]; try reflexivity;
  try (rewrite !n_op_cmp; apply ops_vops);
  try (rewrite !z_op_cmp; apply ops_vops);
  try (rewrite !s_op_cmp; apply ops_vops).
  rewrite !d_op_specfloat by assumption.
  destruct (sf_cmp bits bits0) as [[| |]|]; reflexivity.
Qed.
