(* JsonDigitShape.v -- the form of the text of a double (JsonDigitForm.v, from the formatter model) meets the reader:
   if the text starts with a digit (after the optional minus) it is a numeral in the sense of JsonDigitRfc.RfcNum, so
   the number scanner takes it WHOLE, whatever follows it in the document; if moreover it has a point or an exponent
   the verdict is Real, or NaN by the range tests. *)
From Coq Require Import NArith ZArith List Bool Lia.
From Qv Require Import gen.Tables_json JsonModel JsonSpec JsonProofsBase JsonProofsNum JsonProofsDoc JsonProofsInt JsonDigitExt JsonDigitRfc JsonDigitC08.
From Qv Require gen.Tables_digit DigitModel JsonDigitAlpha JsonDigitForm.
Import ListNotations.
Local Open Scope N_scope.

Lemma D_digs : forall l, JsonDigitAlpha.D l -> digs l.
Proof.
  intros l H. unfold digs. apply forallb_forall. intros x Hx. unfold JsonDigitAlpha.D in H. rewrite Forall_forall in H. exact (H x Hx).
Qed.

Lemma EPf_ExpPart : forall ep, JsonDigitForm.EPf ep -> ExpPart ep.
Proof.
  intros ep [->|(s & ds & -> & Hs & Hd & Hne)]; [constructor|].
  change (Tables_digit.ch_e :: s :: ds) with (dc_e :: [s] ++ ds). constructor.
  - left. reflexivity.
  - destruct Hs as [->| ->]; [right; left|right; right]; reflexivity.
  - apply D_digs. exact Hd.
  - exact Hne.
Qed.

Lemma Form_cases : forall l, JsonDigitForm.Form l ->
  l = [] \/ (exists d rem, l = d :: rem /\ is_dig d = true /\ Shape false rem) \/ (exists t, l = dc_e :: t).
Proof.
  intros l (body & ep & -> & (a & b & Ha & Hb & Hbody) & Hep).
  pose proof (EPf_ExpPart ep Hep) as HEP.
  destruct a as [|d a'].
  - destruct Hbody as [->|[_ Hne]]; [|congruence]. cbn [app].
    destruct Hep as [->|(s & ds & -> & _)]; [left; reflexivity|right; right; eexists; reflexivity].
  - right. left. apply D_digs in Ha. destruct (digs_cons _ _ Ha) as [Hd Ha']. apply D_digs in Hb.
    destruct Hbody as [->|[-> _]].
    + exists d, (a' ++ ep). split; [reflexivity|]. split; [exact Hd|]. exists a', ep. split; [exact Ha'|]. split; [exact HEP|left; reflexivity].
    + exists d, (a' ++ dc_dot :: b ++ ep). split; [cbn [app]; rewrite <- app_assoc; reflexivity|]. split; [exact Hd|].
      exists a', ep. split; [exact Ha'|]. split; [exact HEP|]. right. split; [reflexivity|]. exists b. split; [exact Hb|reflexivity].
Qed.

(* the one thing not proved about the start of the text: after the optional minus comes a digit *)
Definition head_digitb (txt : list N) : bool :=
  match txt with
  | c :: t => if c =? dc_neg then match t with c2 :: _ => is_dig c2 | [] => false end else is_dig c
  | [] => false
  end.

Theorem form_rfcnum : forall sg l, (sg = [] \/ sg = [dc_neg]) -> JsonDigitForm.Form l -> head_digitb (sg ++ l) = true -> RfcNum (sg ++ l).
Proof.
  intros sg l Hsg Hf Hh. destruct (Form_cases l Hf) as [->|[(d & rem & -> & Hd & Hs)|(t & ->)]].
  - destruct Hsg as [->| ->]; discriminate.
  - exists sg, d, rem. auto.
  - destruct Hsg as [->| ->]; discriminate.
Qed.

Definition finite_bits := JsonDigitAlpha.finite_bits.

Theorem dtext_rfcnum : forall bits, finite_bits bits = true -> head_digitb (dtext bits) = true -> RfcNum (dtext bits).
Proof.
  intros bits Hfin Hh. unfold dtext in *.
  destruct (DigitModel.real_to_string DigitModel.finfo_double [] bits 17 Tables_digit.rf_default) as [t|e] eqn:E; [|discriminate].
  assert (Hne : N.land bits (DigitModel.fi_expmask DigitModel.finfo_double) <> DigitModel.fi_expmask DigitModel.finfo_double).
  { unfold finite_bits, JsonDigitAlpha.finite_bits in Hfin. apply negb_true_iff in Hfin. apply N.eqb_neq in Hfin. exact Hfin. }
  destruct (JsonDigitForm.real_to_string_form _ _ _ _ E Hne) as (sg & l & -> & Hsg & Hf).
  apply form_rfcnum; assumption.
Qed.

(* the reader takes the text of a double whole, whatever may follow a number in a document *)
Theorem dtext_taken_whole : forall bits, finite_bits bits = true -> head_digitb (dtext bits) = true ->
  exists n, scan_number (dtext bits) = JOk n /\ whole n /\
    forall rest, num_follow rest = true -> scan_number (dtext bits ++ rest) = JOk (ext_rest n rest).
Proof.
  intros bits Hfin Hh. destruct (scan_number_rfc_whole _ (dtext_rfcnum bits Hfin Hh)) as (n & E & Hw).
  exists n. split; [exact E|]. split; [exact Hw|]. intros rest Hr. apply scan_number_ext; assumption.
Qed.

(* with a point or an exponent in it: Real, or rejected by the range tests *)
Definition has_pointb (txt : list N) : bool := existsb (fun c => negb (is_dig c || (c =? dc_neg))) txt.

Lemma digs_no_point : forall l, digs l -> existsb (fun c => negb (is_dig c || (c =? dc_neg))) l = false.
Proof.
  induction l as [|c t IH]; intros H; [reflexivity|]. destruct (digs_cons _ _ H) as [Hc Ht]. cbn [existsb]. rewrite Hc. cbn [orb negb]. apply IH. exact Ht.
Qed.

Theorem dtext_real : forall bits, finite_bits bits = true -> head_digitb (dtext bits) = true -> has_pointb (dtext bits) = true ->
  scan_number (dtext bits) = JOk (NumReal []) \/ scan_number (dtext bits) = JOk NumNaN.
Proof.
  intros bits Hfin Hh Hp. apply scan_number_rfc_real.
  destruct (dtext_rfcnum bits Hfin Hh) as (sg & d & rem & Hsg & Hd & Hs & E).
  exists sg, d, rem. split; [exact Hsg|]. split; [exact Hd|]. split; [exact Hs|]. split; [|exact E].
  intros Hdr. rewrite E in Hp. unfold has_pointb in Hp. rewrite existsb_app in Hp. cbn [existsb] in Hp.
  rewrite Hd in Hp. cbn [orb negb] in Hp. rewrite (digs_no_point rem Hdr) in Hp.
  destruct Hsg as [->| ->]; cbn in Hp; discriminate.
Qed.

(* so for such a text the reader-side half of the leaf guard is the range test alone *)
Theorem dtext_wholeb : forall bits, finite_bits bits = true -> head_digitb (dtext bits) = true -> has_pointb (dtext bits) = true ->
  real_wholeb (dtext bits) = real_in_range (dtext bits).
Proof.
  intros bits Hfin Hh Hp. unfold real_wholeb, real_in_range.
  destruct (dtext_real bits Hfin Hh Hp) as [E|E]; rewrite E; [|reflexivity].
  destruct (dtext bits); [discriminate|reflexivity].
Qed.

(* non-vacuity: the six doubles of bits_ex *)
Example shape_ex : forallb (fun b => finite_bits b && head_digitb (dtext b) && has_pointb (dtext b)) bits_ex = true.
Proof. vm_compute. reflexivity. Qed.
