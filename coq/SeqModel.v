(* SeqModel.v -- C14: executable Gallina model of Array / String / StringStream /
   StringView (Include/Array.hpp, String.hpp, StringStream.hpp, StringView.hpp)
   and of Memory::Copy / Memory::SetToZero (Include/Memory.hpp), with the plain
   list specification.  Definitions only; proofs are in SeqProofs*.v.

   The model describes the code AFTER findings D18, D19, D20, D25, D50, D51.

   Heap model: a block id per allocation; a block is a list of cells or
   Freed; every read / write names block + offset (+ count) and is
     Error UAF   on a freed / never allocated block,
     Error OOB   beyond the block,
     Error NullDeref through the null pointer,
   except that a transfer of 0 cells touches nothing (Memory::Copy(.., 0)).
   Memory::Copy between containers is modelled at cell granularity as
   "read n cells, then write n cells" (source and destination ranges are
   disjoint at every call site); its byte-level SIMD structure is modelled
   separately ([copy_blocks], [zero_blocks]).
   A container object is {blk; size; cap}; a pool of objects is a function
   nat -> obj (the drivers use objects 0..2). *)
From Coq Require Import NArith List Arith Bool.
Import ListNotations.

Inductive err := UAF | OOB | NullDeref.
Inductive res (T : Type) := Ok (t : T) | Error (e : err).
Arguments Ok {T}. Arguments Error {T}.
Definition bind {T U} (r : res T) (f : T -> res U) : res U :=
  match r with Ok t => f t | Error e => Error e end.
Notation "x <- r ;; k" := (bind r (fun x => k)) (at level 61, r at next level, right associativity).

Definition upd {T} (f : nat -> T) (i : nat) (v : T) : nat -> T :=
  fun k => if k =? i then v else f k.

(* ------------------------------------------------------------------ *)
(* heap *)
Section Heap.
Context {A : Type} (junk : A).

Record heap := mkHeap { cells_of : nat -> option (list A); next : nat }.
Definition ptr := option nat.          (* None = nullptr *)

Definition empty_heap : heap := mkHeap (fun _ => None) 0.

(* Memory::Allocate<T>(n): raw storage *)
Definition alloc (h : heap) (n : nat) : heap * nat :=
  (mkHeap (upd (cells_of h) (next h) (Some (repeat junk n))) (S (next h)), next h).

(* Memory::Deallocate(p): nullptr is a no-op; a stale pointer is an error *)
Definition free (h : heap) (p : ptr) : res heap :=
  match p with
  | None => Ok h
  | Some b => match cells_of h b with
              | Some _ => Ok (mkHeap (upd (cells_of h) b None) (next h))
              | None => Error UAF
              end
  end.

Definition rd_range (h : heap) (p : ptr) (off n : nat) : res (list A) :=
  match n with
  | 0 => Ok []
  | _ => match p with
         | None => Error NullDeref
         | Some b => match cells_of h b with
                     | None => Error UAF
                     | Some c => if off + n <=? length c then Ok (firstn n (skipn off c)) else Error OOB
                     end
         end
  end.

Definition splice (c : list A) (off : nat) (l : list A) : list A :=
  firstn off c ++ l ++ skipn (off + length l) c.

Definition wr_range (h : heap) (p : ptr) (off : nat) (l : list A) : res heap :=
  match l with
  | [] => Ok h
  | _ => match p with
         | None => Error NullDeref
         | Some b => match cells_of h b with
                     | None => Error UAF
                     | Some c => if off + length l <=? length c
                                 then Ok (mkHeap (upd (cells_of h) b (Some (splice c off l))) (next h))
                                 else Error OOB
                     end
         end
  end.

Definition rd1 (h : heap) (p : ptr) (off : nat) : res A :=
  l <- rd_range h p off 1 ;; match l with x :: _ => Ok x | [] => Error OOB end.
Definition wr1 (h : heap) (p : ptr) (off : nat) (x : A) : res heap := wr_range h p off [x].

(* a source of cells: a pointer into the heap, or caller-owned immutable data *)
Inductive src := SPtr (p : ptr) (off : nat) | SExt (l : list A).
Definition src_null (s : src) : bool := match s with SPtr None _ => true | _ => false end.
Definition rd_src (h : heap) (s : src) (n : nat) : res (list A) :=
  match s with
  | SPtr p off => rd_range h p off n
  | SExt l => if n <=? length l then Ok (firstn n l) else Error OOB
  end.
(* Memory::Copy(dst + doff, s, n cells) *)
Definition copy_in (h : heap) (dst : ptr) (doff : nat) (s : src) (n : nat) : res heap :=
  l <- rd_src h s n ;; wr_range h dst doff l.
Definition mcopy (h : heap) (dst : ptr) (doff : nat) (sp : ptr) (soff n : nat) : res heap :=
  copy_in h dst doff (SPtr sp soff) n.

Record obj := mkObj { blk : ptr; size : nat; cap : nat }.
Definition null_obj := mkObj None 0 0.
Record world := mkW { hp : heap; ob : nat -> obj }.
Definition world0 : world := mkW empty_heap (fun _ => null_obj).

(* what an observer sees of object k: its [size] leading cells *)
Definition dump (w : world) (k : nat) : res (list A) :=
  rd_range (hp w) (blk (ob w k)) 0 (size (ob w k)).

Inductive out := ONone | OBool (b : bool) | OStr (l : list A) (terminated : bool).

(* ------------------------------------------------------------------ *)
(* Array<Type_T>  (Array.hpp); [d] is Type_T{} *)
Section ArrayModel.
Context (d : A).

Inductive aop :=
| ANewSized (i n : nat) (init : bool)  (* destroy object i; Array(n, init) in its place *)
| ACopyCtor (i j : nat)                (* destroy i; Array(const Array& j)   (i <> j) *)
| AMoveCtor (i j : nat)                (* destroy i; Array(Array&& j)        (i <> j) *)
| AMoveAssign (i j : nat)
| ACopyAssign (i j : nat)
| AAppendMove (i j : nat)              (* i += Move(j)  (i <> j) *)
| AAppendCopy (i j : nat)              (* i += j, j = i allowed *)
| AAppendItem (i : nat) (x : A)        (* i += x / Insert(x), copy and move overloads *)
| AAppendOwn (i k : nat)               (* if k < Size(): i += i[k] *)
| AClear (i : nat) | AReset (i : nat) | ADetach (i : nat)
| AReserve (i n : nat) (init : bool)
| AResize (i n : nat) | AResizeInit (i n : nat)
| AExpect (i n : nat) | ACompress (i : nat) | ADrop (i n : nat)
| ASwap (i k1 k2 : nat)                (* if k1, k2 < Size(): Swap(Storage()[k1], Storage()[k2]) *)
| AIter (i : nat).                     (* range-for over begin() .. end(), const and non-const *)

(* Array::resize: setCapacity; allocate; Memory::Copy(des, src, Size()); Deallocate(src) *)
Definition arr_resize (w : world) (i new_cap : nat) : res world :=
  let o := ob w i in
  let '(h1, b) := alloc (hp w) new_cap in
  h2 <- mcopy h1 (Some b) 0 (blk o) 0 (size o) ;;
  h3 <- free h2 (blk o) ;;
  Ok (mkW h3 (upd (ob w) i (mkObj (Some b) (size o) new_cap))).

(* Array(size, initialize) on a dead slot *)
Definition arr_construct (h : heap) (obs : nat -> obj) (i n : nat) (init : bool) : res world :=
  match n with
  | 0 => Ok (mkW h (upd obs i null_obj))
  | _ => let '(h2, b) := alloc h n in
         if init then
           h3 <- wr_range h2 (Some b) 0 (repeat d n) ;;
           Ok (mkW h3 (upd obs i (mkObj (Some b) n n)))
         else Ok (mkW h2 (upd obs i (mkObj (Some b) 0 n)))
  end.

(* copyArray into a fresh exact-size storage, or the empty state *)
Definition arr_copy_of (h : heap) (oj : obj) : res (heap * obj) :=
  match size oj with
  | 0 => Ok (h, null_obj)
  | _ => let '(h2, b) := alloc h (size oj) in
         h3 <- mcopy h2 (Some b) 0 (blk oj) 0 (size oj) ;;
         Ok (h3, mkObj (Some b) (size oj) (size oj))
  end.

Definition arr_reset (w : world) (i : nat) : res world :=
  h1 <- free (hp w) (blk (ob w i)) ;; Ok (mkW h1 (upd (ob w) i null_obj)).

Definition arr_Resize (w : world) (i n : nat) : res world :=
  match n with
  | 0 => arr_reset w i
  | _ => let o := ob w i in
         let w1 := if n <? size o then mkW (hp w) (upd (ob w) i (mkObj (blk o) n (cap o))) else w in
         arr_resize w1 i n
  end.

Definition arr_append_item (w : world) (i : nat) (x : A) : res world :=
  let o := ob w i in
  w1 <- (if size o =? cap o then arr_resize w i (cap o + 1) else Ok w) ;;
  let o1 := ob w1 i in
  h2 <- wr1 (hp w1) (blk o1) (size o1) x ;;
  Ok (mkW h2 (upd (ob w1) i (mkObj (blk o1) (size o1 + 1) (cap o1)))).

Definition astep (w : world) (op : aop) : res (world * out) :=
  match op with
  | ANewSized i n init =>
      h1 <- free (hp w) (blk (ob w i)) ;;
      w2 <- arr_construct h1 (ob w) i n init ;; Ok (w2, ONone)
  | ACopyCtor i j =>
      h1 <- free (hp w) (blk (ob w i)) ;;
      r <- arr_copy_of h1 (ob w j) ;;
      Ok (mkW (fst r) (upd (ob w) i (snd r)), ONone)
  | AMoveCtor i j =>
      h1 <- free (hp w) (blk (ob w i)) ;;
      Ok (mkW h1 (upd (upd (ob w) i (ob w j)) j null_obj), ONone)
  | AMoveAssign i j =>
      if i =? j then Ok (w, ONone) else
      let old := blk (ob w i) in
      let obs := upd (upd (ob w) i (ob w j)) j null_obj in
      h1 <- free (hp w) old ;; Ok (mkW h1 obs, ONone)
  | ACopyAssign i j =>
      if i =? j then Ok (w, ONone) else
      let old := blk (ob w i) in
      r <- arr_copy_of (hp w) (ob w j) ;;
      h2 <- free (fst r) old ;;
      Ok (mkW h2 (upd (ob w) i (snd r)), ONone)
  | AAppendMove i j =>
      let oi := ob w i in let oj := ob w j in
      match cap oi with
      | 0 => Ok (mkW (hp w) (upd (upd (ob w) i oj) j null_obj), ONone)
      | _ =>
        let n_size := size oi + size oj in
        w1 <- (if cap oi <? n_size then arr_resize w i n_size else Ok w) ;;
        let oi1 := ob w1 i in let oj1 := ob w1 j in
        h2 <- mcopy (hp w1) (blk oi1) (size oi1) (blk oj1) 0 (size oj1) ;;
        h3 <- free h2 (blk oj1) ;;
        Ok (mkW h3 (upd (upd (ob w1) i (mkObj (blk oi1) n_size (cap oi1))) j null_obj), ONone)
      end
  | AAppendCopy i j =>
      let sz := size (ob w i) in let src_size := size (ob w j) in
      let n_size := sz + src_size in
      w1 <- (if cap (ob w i) <? n_size then arr_resize w i n_size else Ok w) ;;
      let oi1 := ob w1 i in let oj1 := ob w1 j in
      h2 <- mcopy (hp w1) (blk oi1) sz (blk oj1) 0 src_size ;;
      Ok (mkW h2 (upd (ob w1) i (mkObj (blk oi1) n_size (cap oi1))), ONone)
  | AAppendItem i x => w1 <- arr_append_item w i x ;; Ok (w1, ONone)
  | AAppendOwn i k =>
      if k <? size (ob w i) then
        x <- rd1 (hp w) (blk (ob w i)) k ;;
        w1 <- arr_append_item w i x ;; Ok (w1, ONone)
      else Ok (w, ONone)
  | AClear i => let o := ob w i in Ok (mkW (hp w) (upd (ob w) i (mkObj (blk o) 0 (cap o))), ONone)
  | AReset i => w1 <- arr_reset w i ;; Ok (w1, ONone)
  | ADetach i => w1 <- arr_reset w i ;; Ok (w1, ONone)   (* the caller releases the detached storage *)
  | AReserve i n init =>
      w1 <- arr_reset w i ;;
      w2 <- arr_construct (hp w1) (ob w1) i n init ;; Ok (w2, ONone)
  | AResize i n => w1 <- arr_Resize w i n ;; Ok (w1, ONone)
  | AResizeInit i n =>
      w1 <- arr_Resize w i n ;;
      let o1 := ob w1 i in
      h2 <- (if size o1 <? n then wr_range (hp w1) (blk o1) (size o1) (repeat d (n - size o1)) else Ok (hp w1)) ;;
      Ok (mkW h2 (upd (ob w1) i (mkObj (blk o1) (cap o1) (cap o1))), ONone)
  | AExpect i n =>
      let o := ob w i in
      w1 <- (if cap o <? n + size o then arr_resize w i (n + size o) else Ok w) ;; Ok (w1, ONone)
  | ACompress i => w1 <- arr_Resize w i (size (ob w i)) ;; Ok (w1, ONone)
  | ADrop i n =>
      let o := ob w i in
      if n <=? size o then Ok (mkW (hp w) (upd (ob w) i (mkObj (blk o) (size o - n) (cap o))), ONone)
      else Ok (w, ONone)
  | ASwap i k1 k2 =>
      (* Memory::Swap: item = Move(item1); item1 = Move(item2); item2 = Move(item) *)
      let o := ob w i in
      if (k1 <? size o) && (k2 <? size o) then
        x <- rd1 (hp w) (blk o) k1 ;;
        y <- rd1 (hp w) (blk o) k2 ;;
        h1 <- wr1 (hp w) (blk o) k1 y ;;
        h2 <- wr1 h1 (blk o) k2 x ;;
        Ok (mkW h2 (ob w), ONone)
      else Ok (w, ONone)
  | AIter i =>
      c <- rd_range (hp w) (blk (ob w i)) 0 (size (ob w i)) ;; Ok (w, OStr c true)
  end.

(* specification: plain lists *)
Definition aspec (s : nat -> list A) (op : aop) : (nat -> list A) * out :=
  match op with
  | ANewSized i n init => (upd s i (if init then repeat d n else []), ONone)
  | ACopyCtor i j | ACopyAssign i j => (upd s i (s j), ONone)
  | AMoveCtor i j => (upd (upd s i (s j)) j [], ONone)
  | AMoveAssign i j => (if i =? j then s else upd (upd s i (s j)) j [], ONone)
  | AAppendMove i j => (upd (upd s i (s i ++ s j)) j [], ONone)
  | AAppendCopy i j => (upd s i (s i ++ s j), ONone)
  | AAppendItem i x => (upd s i (s i ++ [x]), ONone)
  | AAppendOwn i k => (if k <? length (s i) then upd s i (s i ++ [nth k (s i) d]) else s, ONone)
  | AClear i | AReset i | ADetach i => (upd s i [], ONone)
  | AReserve i n init => (upd s i (if init then repeat d n else []), ONone)
  | AResize i n => (upd s i (firstn n (s i)), ONone)
  | AResizeInit i n => (upd s i (firstn n (s i) ++ repeat d (n - length (s i))), ONone)
  | AExpect i n => (s, ONone)
  | ACompress i => (s, ONone)
  | ADrop i n => (if n <=? length (s i) then upd s i (firstn (length (s i) - n) (s i)) else s, ONone)
  | ASwap i k1 k2 =>
      (if (k1 <? length (s i)) && (k2 <? length (s i))
       then upd s i (splice (splice (s i) k1 [nth k2 (s i) d]) k2 [nth k1 (s i) d]) else s, ONone)
  | AIter i => (s, OStr (s i) true)
  end.

(* operations whose C++ precondition is "two distinct objects" *)
Definition aop_ok (op : aop) : Prop :=
  match op with
  | ACopyCtor i j | AMoveCtor i j | AAppendMove i j => i <> j
  | _ => True
  end.

End ArrayModel.
End Heap.

Arguments Ok {T}. Arguments Error {T}.

(* ------------------------------------------------------------------ *)
(* code units *)
Local Open Scope N_scope.
Definition junkN : N := 221.             (* what raw storage holds in the model *)
Definition hN := @heap N.
Definition wN := @world N.

Fixpoint list_eqb (a b : list N) : bool :=
  match a, b with
  | [], [] => true
  | x :: a', y :: b' => (x =? y) && list_eqb a' b'
  | _, _ => false
  end.

(* StringUtils::Count on a caller's buffer [l ++ [0]] *)
Fixpoint cstr_len (l : list N) : nat :=
  match l with
  | [] => O
  | x :: r => if x =? 0 then O else S (cstr_len r)
  end.

Definition is_ws (c : N) : bool := (c =? 32) || (c =? 10) || (c =? 9) || (c =? 13).
Fixpoint take_while (p : N -> bool) (l : list N) : list N :=
  match l with [] => [] | x :: r => if p x then x :: take_while p r else [] end.
Fixpoint drop_while (p : N -> bool) (l : list N) : list N :=
  match l with [] => [] | x :: r => if p x then drop_while p r else l end.

(* StringUtils::Trim on the cells [c]: (offset, length) *)
Definition trim_bounds (c : list N) : nat * nat :=
  match c with
  | [] => (O, O)
  | _ => let off := length (take_while is_ws c) in           (* TrimLeft *)
         let r := skipn off c in
         (off, (length r - length (take_while is_ws (rev r)))%nat) (* TrimRight, not below offset *)
  end.
Definition trim_spec (l : list N) : list N := rev (drop_while is_ws (rev (drop_while is_ws l))).

(* the swap loop of String::Reverse / StringStream::Reverse on the cells *)
Definition swap_cells (c : list N) (a b : nat) : list N :=
  let x := nth a c 0 in let y := nth b c 0 in
  splice (splice c a [y]) b [x].
Fixpoint rev_loop (fuel : nat) (index e : nat) (c : list N) : list N :=
  match fuel with
  | O => c
  | S f => if (index <? e)%nat then rev_loop f (S index) (e - 1)%nat (swap_cells c index (e - 1)%nat) else c
  end.
Definition reverse_spec (idx : nat) (l : list N) : list N := firstn idx l ++ rev (skipn idx l).

(* the shifting loop of InsertAt (index < length): new cells and the carried-out last unit *)
Definition insert_shift (c : list N) (ch : N) (idx : nat) : list N * N :=
  (firstn idx c ++ ch :: firstn (length c - 1 - idx) (skipn idx c), nth (length c - 1) c 0).
Definition insert_spec (l : list N) (ch : N) (idx : nat) : list N :=
  if (idx <? length l)%nat then firstn idx l ++ ch :: skipn idx l else l.

Definition terminated (h : hN) (o : obj) : res bool :=
  match blk o with
  | None => Ok true
  | Some _ => x <- rd1 h (blk o) (size o) ;; Ok (x =? 0)
  end.

(* ------------------------------------------------------------------ *)
(* String<Char_T>  (String.hpp).  [cap] is not a field of String; kept 0. *)
Inductive sop :=
| SDefault (i : nat)                   (* destroy i; String() *)
| SNewLen (i : nat) (l : list N)       (* String(len) then the caller fills Storage()[0..len) with l *)
| SNewCopy (i : nat) (l : list N)      (* String(cstr, len) *)
| SNewCstr (i : nat) (l : list N)      (* String(cstr) on the buffer l ++ [0] *)
| SNewAdopt (i : nat) (l : list N)     (* String(buf, len) adopting a buffer l ++ [0] *)
| SCopyCtor (i j : nat) | SMoveCtor (i j : nat)       (* i <> j *)
| SMoveAssign (i j : nat) | SCopyAssign (i j : nat)
| SAssignCstr (i : nat) (l : list N)
| SAssignOwn (i off : nat)             (* if Storage() != nullptr && off <= Length(): i = i.First() + off *)
| SAppendMove (i j : nat)              (* i += Move(j), i <> j *)
| SAppendObj (i j : nat)               (* i += j / i << j, j = i allowed *)
| SAppendCstr (i : nat) (l : list N)   (* i += cstr / i << cstr *)
| SAppendChar (i : nat) (c : N)
| SWrite (i : nat) (l : list N)        (* Write(ptr, len) *)
| SPlus (i j k : nat) (mv : bool)      (* i = j + k / Merge(j, k);  mv: i = j + Move(k) *)
| SPlusCstr (i j : nat) (l : list N)   (* i = j + cstr *)
| STrim (i j : nat)                    (* i = String::Trim(j) *)
| SEqObj (i j : nat) | SEqCstr (i : nat) (l : list N) | SEqNull (i : nat) | SIsEqual (i : nat) (l : list N)
| SReset (i : nat) | SDetach (i : nat)
| SStepBack (i n : nat) | SReverse (i idx : nat) | SInsertAt (i : nat) (c : N) (idx : nat)
| SIter (i : nat)                      (* range-for over begin() .. end(), const and non-const *)
| SLast (i : nat)                      (* Last(): nullptr or the last unit *)
| SIsEmpty (i : nat)                   (* IsEmpty() / IsNotEmpty() *)
| SStreamOut (i : nat).                (* sink << string (operator<<(Stream_T&, const String&)): a C-string insertion *)

(* copyString: allocate(len + 1) (sets storage), Copy, terminator, setLength *)
Definition s_copy_string (h : hN) (s : @src N) (len : nat) : res (hN * obj) :=
  let '(h1, b) := alloc junkN h (len + 1) in
  h2 <- copy_in h1 (Some b) 0 s len ;;
  h3 <- wr1 h2 (Some b) len 0 ;;
  Ok (h3, mkObj (Some b) len 0).

(* String::Write *)
Definition s_write (w : wN) (i : nat) (s : @src N) (len : nat) : res wN :=
  if src_null s || (len =? 0)%nat then Ok w else
  let o := ob w i in
  let src_len := size o in
  let '(h1, b) := alloc junkN (hp w) (src_len + len + 1) in
  h2 <- copy_in h1 (Some b) src_len s len ;;
  h3 <- wr1 h2 (Some b) (src_len + len) 0 ;;
  h5 <- match blk o with
        | None => Ok h3
        | Some _ => h4 <- mcopy h3 (Some b) 0 (blk o) 0 src_len ;; free h4 (blk o)
        end ;;
  Ok (mkW h5 (upd (ob w) i (mkObj (Some b) (src_len + len) 0))).

(* String::merge *)
Definition s_merge (h : hN) (s1 : @src N) (len1 : nat) (s2 : @src N) (len2 : nat) : res (hN * obj) :=
  match (len1 + len2)%nat with
  | O => Ok (h, null_obj)
  | S _ =>
    let '(h1, b) := alloc junkN h (len1 + len2 + 1) in
    h2 <- wr1 h1 (Some b) (len1 + len2) 0 ;;
    h3 <- (if (len1 =? 0)%nat then Ok h2 else copy_in h2 (Some b) 0 s1 len1) ;;
    h4 <- (if (len2 =? 0)%nat then Ok h3 else copy_in h3 (Some b) len1 s2 len2) ;;
    Ok (h4, mkObj (Some b) (len1 + len2) 0)
  end.

(* operator=(String&&) from a temporary [t] *)
Definition s_take (h : hN) (obs : nat -> obj) (i : nat) (t : obj) : res wN :=
  h1 <- free h (blk (obs i)) ;; Ok (mkW h1 (upd obs i t)).

Definition s_eq_ext (w : wN) (i : nat) (l : list N) (len : nat) : res bool :=
  let o := ob w i in
  if (size o =? len)%nat then
    a <- rd_range (hp w) (blk o) 0 len ;; Ok (list_eqb a (firstn len l))
  else Ok false.

Definition sstep (w : wN) (op : sop) : res (wN * @out N) :=
  match op with
  | SDefault i => h1 <- free (hp w) (blk (ob w i)) ;; Ok (mkW h1 (upd (ob w) i null_obj), ONone)
  | SNewLen i l =>
      h1 <- free (hp w) (blk (ob w i)) ;;
      match length l with
      | O => Ok (mkW h1 (upd (ob w) i null_obj), ONone)
      | S _ => let '(h2, b) := alloc junkN h1 (length l + 1) in
               h3 <- wr1 h2 (Some b) (length l) 0 ;;
               h4 <- wr_range h3 (Some b) 0 l ;;
               Ok (mkW h4 (upd (ob w) i (mkObj (Some b) (length l) 0)), ONone)
      end
  | SNewCopy i l =>
      h1 <- free (hp w) (blk (ob w i)) ;;
      r <- s_copy_string h1 (SExt l) (length l) ;;
      Ok (mkW (fst r) (upd (ob w) i (snd r)), ONone)
  | SNewCstr i l =>
      h1 <- free (hp w) (blk (ob w i)) ;;
      r <- s_copy_string h1 (SExt (l ++ [0])) (cstr_len l) ;;
      Ok (mkW (fst r) (upd (ob w) i (snd r)), ONone)
  | SNewAdopt i l =>
      h1 <- free (hp w) (blk (ob w i)) ;;
      let '(h2, b) := alloc junkN h1 (length l + 1) in
      h3 <- wr_range h2 (Some b) 0 (l ++ [0]) ;;
      Ok (mkW h3 (upd (ob w) i (mkObj (Some b) (length l) 0)), ONone)
  | SCopyCtor i j =>
      h1 <- free (hp w) (blk (ob w i)) ;;
      r <- s_copy_string h1 (SPtr (blk (ob w j)) 0) (size (ob w j)) ;;
      Ok (mkW (fst r) (upd (ob w) i (snd r)), ONone)
  | SMoveCtor i j =>
      h1 <- free (hp w) (blk (ob w i)) ;;
      Ok (mkW h1 (upd (upd (ob w) i (ob w j)) j null_obj), ONone)
  | SMoveAssign i j =>
      if (i =? j)%nat then Ok (w, ONone) else
      h1 <- free (hp w) (blk (ob w i)) ;;
      Ok (mkW h1 (upd (upd (ob w) i (ob w j)) j null_obj), ONone)
  | SCopyAssign i j =>
      if (i =? j)%nat then Ok (w, ONone) else
      h1 <- free (hp w) (blk (ob w i)) ;;
      r <- s_copy_string h1 (SPtr (blk (ob w j)) 0) (size (ob w j)) ;;
      Ok (mkW (fst r) (upd (ob w) i (snd r)), ONone)
  | SAssignCstr i l =>
      let old := blk (ob w i) in
      r <- s_copy_string (hp w) (SExt (l ++ [0])) (cstr_len l) ;;
      h2 <- free (fst r) old ;;
      Ok (mkW h2 (upd (ob w) i (snd r)), ONone)
  | SAssignOwn i off =>
      let o := ob w i in
      match blk o with
      | None => Ok (w, ONone)
      | Some _ =>
        if (off <=? size o)%nat then
          (* Count scans own cells from off up to the terminator *)
          c <- rd_range (hp w) (blk o) off (size o + 1 - off) ;;
          let len := cstr_len c in
          r <- s_copy_string (hp w) (SPtr (blk o) off) len ;;
          h2 <- free (fst r) (blk o) ;;
          Ok (mkW h2 (upd (ob w) i (snd r)), ONone)
        else Ok (w, ONone)
      end
  | SAppendMove i j =>
      w1 <- s_write w i (SPtr (blk (ob w j)) 0) (size (ob w j)) ;;
      h2 <- free (hp w1) (blk (ob w1 j)) ;;
      Ok (mkW h2 (upd (ob w1) j null_obj), ONone)
  | SAppendObj i j =>
      w1 <- s_write w i (SPtr (blk (ob w j)) 0) (size (ob w j)) ;; Ok (w1, ONone)
  | SAppendCstr i l => w1 <- s_write w i (SExt (l ++ [0])) (cstr_len l) ;; Ok (w1, ONone)
  | SAppendChar i c => w1 <- s_write w i (SExt [c]) 1 ;; Ok (w1, ONone)
  | SWrite i l => w1 <- s_write w i (SExt l) (length l) ;; Ok (w1, ONone)
  | SPlus i j k mv =>
      r <- s_merge (hp w) (SPtr (blk (ob w j)) 0) (size (ob w j)) (SPtr (blk (ob w k)) 0) (size (ob w k)) ;;
      (if mv then
         h2 <- free (fst r) (blk (ob w k)) ;;
         w3 <- s_take h2 (upd (ob w) k null_obj) i (snd r) ;; Ok (w3, ONone)
       else w3 <- s_take (fst r) (ob w) i (snd r) ;; Ok (w3, ONone))
  | SPlusCstr i j l =>
      r <- s_merge (hp w) (SPtr (blk (ob w j)) 0) (size (ob w j)) (SExt (l ++ [0])) (cstr_len l) ;;
      w3 <- s_take (fst r) (ob w) i (snd r) ;; Ok (w3, ONone)
  | STrim i j =>
      let oj := ob w j in
      c <- rd_range (hp w) (blk oj) 0 (size oj) ;;
      let '(off, len) := trim_bounds c in
      r <- s_copy_string (hp w) (SPtr (blk oj) off) len ;;
      w3 <- s_take (fst r) (ob w) i (snd r) ;; Ok (w3, ONone)
  | SEqObj i j =>
      let oi := ob w i in let oj := ob w j in
      if (size oi =? size oj)%nat then
        a <- rd_range (hp w) (blk oi) 0 (size oi) ;;
        b <- rd_range (hp w) (blk oj) 0 (size oi) ;;
        Ok (w, OBool (list_eqb a b))
      else Ok (w, OBool false)
  | SEqCstr i l => b <- s_eq_ext w i (l ++ [0]) (cstr_len l) ;; Ok (w, OBool b)
  | SEqNull i => Ok (w, OBool (size (ob w i) =? 0)%nat)
  | SIsEqual i l => b <- s_eq_ext w i l (length l) ;; Ok (w, OBool b)
  | SReset i | SDetach i => h1 <- free (hp w) (blk (ob w i)) ;; Ok (mkW h1 (upd (ob w) i null_obj), ONone)
  | SStepBack i n =>
      let o := ob w i in
      if (n <=? size o)%nat then
        let new_len := (size o - n)%nat in
        h1 <- match blk o with None => Ok (hp w) | Some _ => wr1 (hp w) (blk o) new_len 0 end ;;
        Ok (mkW h1 (upd (ob w) i (mkObj (blk o) new_len 0)), ONone)
      else Ok (w, ONone)
  | SReverse i idx =>
      let o := ob w i in
      c <- rd_range (hp w) (blk o) 0 (size o) ;;
      h1 <- wr_range (hp w) (blk o) 0 (rev_loop (size o) idx (size o) c) ;;
      Ok (mkW h1 (ob w), ONone)
  | SInsertAt i ch idx =>
      let o := ob w i in
      if (idx <? size o)%nat then
        c <- rd_range (hp w) (blk o) 0 (size o) ;;
        let '(c', tmp) := insert_shift c ch idx in
        h1 <- wr_range (hp w) (blk o) 0 c' ;;
        w2 <- s_write (mkW h1 (ob w)) i (SExt [tmp]) 1 ;; Ok (w2, ONone)
      else Ok (w, ONone)
  | SIter i => c <- rd_range (hp w) (blk (ob w i)) 0 (size (ob w i)) ;; Ok (w, OStr c true)
  | SLast i =>
      let o := ob w i in
      c <- rd_range (hp w) (blk o) (size o - 1) (if (size o =? 0)%nat then 0 else 1)%nat ;; Ok (w, OStr c true)
  | SIsEmpty i => Ok (w, OBool (size (ob w i) =? 0)%nat)
  | SStreamOut i =>
      (* out << src.First(): the units up to the first NUL (nothing for the null storage) *)
      let o := ob w i in
      match blk o with
      | None => Ok (w, OStr [] true)
      | Some _ => c <- rd_range (hp w) (blk o) 0 (size o + 1) ;; Ok (w, OStr (firstn (cstr_len c) c) true)
      end
  end.

Definition sspec (s : nat -> list N) (op : sop) : (nat -> list N) * @out N :=
  match op with
  | SDefault i | SReset i | SDetach i => (upd s i [], ONone)
  | SNewLen i l | SNewCopy i l | SNewAdopt i l => (upd s i l, ONone)
  | SNewCstr i l | SAssignCstr i l => (upd s i (firstn (cstr_len l) l), ONone)
  | SCopyCtor i j => (upd s i (s j), ONone)
  | SMoveCtor i j => (upd (upd s i (s j)) j [], ONone)
  | SMoveAssign i j => (if (i =? j)%nat then s else upd (upd s i (s j)) j [], ONone)
  | SCopyAssign i j => (upd s i (s j), ONone)
  | SAssignOwn i off =>
      (if (off <=? length (s i))%nat then upd s i (firstn (cstr_len (skipn off (s i))) (skipn off (s i))) else s, ONone)
  | SAppendMove i j => (upd (upd s i (s i ++ s j)) j [], ONone)
  | SAppendObj i j => (upd s i (s i ++ s j), ONone)
  | SAppendCstr i l => (upd s i (s i ++ firstn (cstr_len l) l), ONone)
  | SAppendChar i c => (upd s i (s i ++ [c]), ONone)
  | SWrite i l => (upd s i (s i ++ l), ONone)
  | SPlus i j k mv => (upd (if mv then upd s k [] else s) i (s j ++ s k), ONone)
  | SPlusCstr i j l => (upd s i (s j ++ firstn (cstr_len l) l), ONone)
  | STrim i j => (upd s i (trim_spec (s j)), ONone)
  | SEqObj i j => (s, OBool (list_eqb (s i) (s j)))
  | SEqCstr i l => (s, OBool (list_eqb (s i) (firstn (cstr_len l) l)))
  | SEqNull i => (s, OBool (length (s i) =? 0)%nat)
  | SIsEqual i l => (s, OBool (list_eqb (s i) l))
  | SStepBack i n => (if (n <=? length (s i))%nat then upd s i (firstn (length (s i) - n) (s i)) else s, ONone)
  | SReverse i idx => (upd s i (reverse_spec idx (s i)), ONone)
  | SInsertAt i c idx => (upd s i (insert_spec (s i) c idx), ONone)
  | SIter i => (s, OStr (s i) true)
  | SLast i => (s, OStr (skipn (length (s i) - 1) (s i)) true)
  | SIsEmpty i => (s, OBool (length (s i) =? 0)%nat)
  | SStreamOut i => (s, OStr (firstn (cstr_len (s i)) (s i)) true)
  end.

Definition sop_ok (op : sop) : Prop :=
  match op with
  | SCopyCtor i j | SMoveCtor i j | SAppendMove i j => i <> j
  | _ => True
  end.

(* ------------------------------------------------------------------ *)
(* StringStream<Char_T>  (StringStream.hpp) *)
Inductive top :=
| TNew (i n : nat)                     (* destroy i; StringStream(n) *)
| TCopyCtor (i j : nat) | TMoveCtor (i j : nat)      (* i <> j *)
| TMoveAssign (i j : nat) | TCopyAssign (i j : nat)
| TAssignExt (i : nat) (l : list N)    (* = String / = StringView: Clear; write(ptr, len) *)
| TAssignCstr (i : nat) (l : list N)
| TAppendChar (i : nat) (c : N)
| TAppendObj (i j : nat)               (* i += j / i << j, j = i allowed *)
| TAppendExt (i : nat) (l : list N)    (* += String / StringView, <<, Write(ptr, len) *)
| TAppendCstr (i : nat) (l : list N)
| TEqObj (i j : nat) | TEqExt (i : nat) (l : list N) | TEqCstr (i : nat) (l : list N)
| TClear (i : nat) | TReset (i : nat) | TDetach (i : nat)
| TStepBack (i n : nat) | TReverse (i idx : nat) | TInsertAt (i : nat) (c : N) (idx : nat)
| TSetLength (i n : nat) (c : N)       (* SetLength(n); the caller fills the new cells with c *)
| TBuffer (i : nat) (l : list N)       (* p = Buffer(len); the caller writes l to p *)
| TExpect (i n : nat) | TReserve (i n : nat)
| TGetString (i : nat) | TGetStringView (i : nat) | TInsertNull (i : nat)
| TIter (i : nat)                      (* range-for over begin() .. end(), const and non-const *)
| TStreamOut (i : nat).                (* sink << stream (operator<<(Stream_T&, const StringStream&)): unit by unit *)

(* grow: allocate, relocate, return the old storage still allocated (D19 fix) *)
Definition t_grow (w : wN) (i new_cap : nat) : res (wN * @ptr) :=
  let o := ob w i in
  let '(h1, b) := alloc junkN (hp w) new_cap in
  h2 <- mcopy h1 (Some b) 0 (blk o) 0 (size o) ;;
  Ok (mkW h2 (upd (ob w) i (mkObj (Some b) (size o) new_cap)), blk o).
Definition t_expand (w : wN) (i new_cap : nat) : res wN :=
  r <- t_grow w i new_cap ;;
  h1 <- free (hp (fst r)) (snd r) ;; Ok (mkW h1 (ob (fst r))).
Definition t_ensure (w : wN) (i need : nat) : res wN :=
  if (cap (ob w i) <? need)%nat then t_expand w i need else Ok w.

Definition t_write (w : wN) (i : nat) (s : @src N) (len : nat) : res wN :=
  let new_length := (size (ob w i) + len)%nat in
  r <- (if (cap (ob w i) <? new_length)%nat then t_grow w i new_length else Ok (w, None)) ;;
  let w1 := fst r in let o1 := ob w1 i in
  h2 <- copy_in (hp w1) (blk o1) (size o1) s len ;;
  h3 <- free h2 (snd r) ;;
  Ok (mkW h3 (upd (ob w1) i (mkObj (blk o1) new_length (cap o1)))).

Definition t_set_size (w : wN) (i n : nat) : wN :=
  let o := ob w i in mkW (hp w) (upd (ob w) i (mkObj (blk o) n (cap o))).

Definition t_reset (w : wN) (i : nat) : res wN :=
  h1 <- free (hp w) (blk (ob w i)) ;; Ok (mkW h1 (upd (ob w) i null_obj)).

Definition t_alloc_obj (h : hN) (n : nat) : hN * obj :=
  match n with
  | O => (h, null_obj)
  | _ => let '(h1, b) := alloc junkN h n in (h1, mkObj (Some b) 0 n)
  end.

Definition t_append_char (w : wN) (i : nat) (c : N) : res wN :=
  let o := ob w i in
  w1 <- (if (cap o =? size o)%nat then t_expand w i (size o + 1) else Ok w) ;;
  let o1 := ob w1 i in
  h2 <- wr1 (hp w1) (blk o1) (size o1) c ;;
  Ok (mkW h2 (upd (ob w1) i (mkObj (blk o1) (size o1 + 1) (cap o1)))).

Definition t_eq_ext (w : wN) (i : nat) (l : list N) (len : nat) : res bool :=
  let o := ob w i in
  if (size o =? len)%nat then
    a <- rd_range (hp w) (blk o) 0 len ;; Ok (list_eqb a (firstn len l))
  else Ok false.

Definition t_insert_null (w : wN) (i : nat) : res wN :=
  let o := ob w i in
  w1 <- (if (cap o =? size o)%nat then t_expand w i (size o + 1) else Ok w) ;;
  h2 <- wr1 (hp w1) (blk (ob w1 i)) (size (ob w1 i)) 0 ;;
  Ok (mkW h2 (ob w1)).

Definition tstep (w : wN) (op : top) : res (wN * @out N) :=
  match op with
  | TNew i n =>
      h1 <- free (hp w) (blk (ob w i)) ;;
      let '(h2, o) := t_alloc_obj h1 n in Ok (mkW h2 (upd (ob w) i o), ONone)
  | TCopyCtor i j =>
      h1 <- free (hp w) (blk (ob w i)) ;;
      let oj := ob w j in
      match size oj with
      | O => Ok (mkW h1 (upd (ob w) i null_obj), ONone)
      | _ => let '(h2, o) := t_alloc_obj h1 (size oj) in
             w3 <- t_write (mkW h2 (upd (ob w) i o)) i (SPtr (blk oj) 0) (size oj) ;; Ok (w3, ONone)
      end
  | TMoveCtor i j =>
      h1 <- free (hp w) (blk (ob w i)) ;;
      Ok (mkW h1 (upd (upd (ob w) i (ob w j)) j null_obj), ONone)
  | TMoveAssign i j =>
      if (i =? j)%nat then Ok (w, ONone) else
      h1 <- free (hp w) (blk (ob w i)) ;;
      Ok (mkW h1 (upd (upd (ob w) i (ob w j)) j null_obj), ONone)
  | TCopyAssign i j =>
      if (i =? j)%nat then Ok (w, ONone) else
      w1 <- t_write (t_set_size w i 0) i (SPtr (blk (ob w j)) 0) (size (ob w j)) ;; Ok (w1, ONone)
  | TAssignExt i l => w1 <- t_write (t_set_size w i 0) i (SExt l) (length l) ;; Ok (w1, ONone)
  | TAssignCstr i l => w1 <- t_write (t_set_size w i 0) i (SExt (l ++ [0])) (cstr_len l) ;; Ok (w1, ONone)
  | TAppendChar i c => w1 <- t_append_char w i c ;; Ok (w1, ONone)
  | TAppendObj i j => w1 <- t_write w i (SPtr (blk (ob w j)) 0) (size (ob w j)) ;; Ok (w1, ONone)
  | TAppendExt i l => w1 <- t_write w i (SExt l) (length l) ;; Ok (w1, ONone)
  | TAppendCstr i l => w1 <- t_write w i (SExt (l ++ [0])) (cstr_len l) ;; Ok (w1, ONone)
  | TEqObj i j =>
      let oi := ob w i in let oj := ob w j in
      if (size oi =? size oj)%nat then
        a <- rd_range (hp w) (blk oi) 0 (size oi) ;;
        b <- rd_range (hp w) (blk oj) 0 (size oi) ;;
        Ok (w, OBool (list_eqb a b))
      else Ok (w, OBool false)
  | TEqExt i l => b <- t_eq_ext w i l (length l) ;; Ok (w, OBool b)
  | TEqCstr i l => b <- t_eq_ext w i (l ++ [0]) (cstr_len l) ;; Ok (w, OBool b)
  | TClear i => Ok (t_set_size w i 0, ONone)
  | TReset i | TDetach i => w1 <- t_reset w i ;; Ok (w1, ONone)
  | TStepBack i n =>
      if (n <=? size (ob w i))%nat then Ok (t_set_size w i (size (ob w i) - n), ONone) else Ok (w, ONone)
  | TReverse i idx =>
      let o := ob w i in
      c <- rd_range (hp w) (blk o) 0 (size o) ;;
      h1 <- wr_range (hp w) (blk o) 0 (rev_loop (size o) idx (size o) c) ;;
      Ok (mkW h1 (ob w), ONone)
  | TInsertAt i ch idx =>
      let o := ob w i in
      if (idx <? size o)%nat then
        c <- rd_range (hp w) (blk o) 0 (size o) ;;
        let '(c', tmp) := insert_shift c ch idx in
        h1 <- wr_range (hp w) (blk o) 0 c' ;;
        w2 <- t_append_char (mkW h1 (ob w)) i tmp ;; Ok (w2, ONone)
      else Ok (w, ONone)
  | TSetLength i n c =>
      let old := size (ob w i) in
      w1 <- t_ensure w i n ;;
      h2 <- wr_range (hp w1) (blk (ob w1 i)) old (repeat c (n - old)) ;;
      Ok (t_set_size (mkW h2 (ob w1)) i n, ONone)
  | TBuffer i l =>
      let old := size (ob w i) in
      w1 <- t_ensure w i (old + length l) ;;
      let w2 := t_set_size w1 i (old + length l) in
      h3 <- wr_range (hp w2) (blk (ob w2 i)) old l ;;
      Ok (mkW h3 (ob w2), ONone)
  | TExpect i n => w1 <- t_ensure w i (n + size (ob w i)) ;; Ok (w1, ONone)
  | TReserve i n =>
      w1 <- t_reset w i ;;
      let '(h2, o) := t_alloc_obj (hp w1) n in Ok (mkW h2 (upd (ob w1) i o), ONone)
  | TGetString i =>
      let o := ob w i in
      if (size o <? cap o)%nat then
        (* terminator in place; the String adopts the storage and is released by the caller *)
        h1 <- wr1 (hp w) (blk o) (size o) 0 ;;
        c <- rd_range h1 (blk o) 0 (size o) ;;
        t <- terminated h1 o ;;
        h2 <- free h1 (blk o) ;;
        Ok (mkW h2 (upd (ob w) i null_obj), OStr c t)
      else
        r <- s_copy_string (hp w) (SPtr (blk o) 0) (size o) ;;
        w1 <- t_reset (mkW (fst r) (ob w)) i ;;
        c <- rd_range (hp w1) (blk (snd r)) 0 (size (snd r)) ;;
        t <- terminated (hp w1) (snd r) ;;
        h2 <- free (hp w1) (blk (snd r)) ;;
        Ok (mkW h2 (ob w1), OStr c t)
  | TGetStringView i =>
      w1 <- t_insert_null w i ;;
      c <- rd_range (hp w1) (blk (ob w1 i)) 0 (size (ob w1 i)) ;;
      t <- terminated (hp w1) (ob w1 i) ;;
      Ok (w1, OStr c t)
  | TInsertNull i => w1 <- t_insert_null w i ;; Ok (w1, ONone)
  | TIter i | TStreamOut i => c <- rd_range (hp w) (blk (ob w i)) 0 (size (ob w i)) ;; Ok (w, OStr c true)
  end.

Definition tspec (s : nat -> list N) (op : top) : (nat -> list N) * @out N :=
  match op with
  | TNew i _ | TClear i | TReset i | TDetach i | TReserve i _ => (upd s i [], ONone)
  | TCopyCtor i j | TCopyAssign i j => (upd s i (s j), ONone)
  | TMoveCtor i j => (upd (upd s i (s j)) j [], ONone)
  | TMoveAssign i j => (if (i =? j)%nat then s else upd (upd s i (s j)) j [], ONone)
  | TAssignExt i l => (upd s i l, ONone)
  | TAssignCstr i l => (upd s i (firstn (cstr_len l) l), ONone)
  | TAppendChar i c => (upd s i (s i ++ [c]), ONone)
  | TAppendObj i j => (upd s i (s i ++ s j), ONone)
  | TAppendExt i l | TBuffer i l => (upd s i (s i ++ l), ONone)
  | TAppendCstr i l => (upd s i (s i ++ firstn (cstr_len l) l), ONone)
  | TEqObj i j => (s, OBool (list_eqb (s i) (s j)))
  | TEqExt i l => (s, OBool (list_eqb (s i) l))
  | TEqCstr i l => (s, OBool (list_eqb (s i) (firstn (cstr_len l) l)))
  | TStepBack i n => (if (n <=? length (s i))%nat then upd s i (firstn (length (s i) - n) (s i)) else s, ONone)
  | TReverse i idx => (upd s i (reverse_spec idx (s i)), ONone)
  | TInsertAt i c idx => (upd s i (insert_spec (s i) c idx), ONone)
  | TSetLength i n c => (upd s i (firstn n (s i) ++ repeat c (n - length (s i))), ONone)
  | TExpect i _ | TInsertNull i => (s, ONone)
  | TGetString i => (upd s i [], OStr (s i) true)
  | TGetStringView i => (s, OStr (s i) true)
  | TIter i | TStreamOut i => (s, OStr (s i) true)
  end.

Definition top_ok (op : top) : Prop :=
  match op with
  | TCopyCtor i j | TMoveCtor i j => i <> j
  | _ => True
  end.

(* ------------------------------------------------------------------ *)
(* StringView<Char_T>: a non-owning (pointer, length); the viewed buffers are
   caller-owned blocks that stay allocated *)
Inductive vop :=
| VNew (i : nat) (l : list N)          (* StringView(ptr, len) on a new caller buffer l *)
| VNewCstr (i : nat) (l : list N)      (* StringView(cstr) / = cstr on the buffer l ++ [0] *)
| VCopy (i j : nat)                    (* copy ctor / copy assignment *)
| VMove (i j : nat)                    (* move ctor (i <> j) / move assignment *)
| VReset (i : nat)
| VEqObj (i j : nat) | VEqCstr (i : nat) (l : list N) | VIsEqual (i : nat) (l : list N)
| VIter (i : nat)                      (* range-for over begin() .. end() *)
| VStreamOut (i : nat)                 (* sink << view (operator<<(Stream_T&, const StringView&)): unit by unit *)
| VIsEmpty (i : nat).                  (* IsEmpty() / IsNotEmpty() *)

Definition vstep (w : wN) (op : vop) : res (wN * @out N) :=
  match op with
  | VNew i l =>
      let '(h1, b) := alloc junkN (hp w) (length l) in
      h2 <- wr_range h1 (Some b) 0 l ;;
      Ok (mkW h2 (upd (ob w) i (mkObj (Some b) (length l) 0)), ONone)
  | VNewCstr i l =>
      let '(h1, b) := alloc junkN (hp w) (length l + 1) in
      h2 <- wr_range h1 (Some b) 0 (l ++ [0]) ;;
      Ok (mkW h2 (upd (ob w) i (mkObj (Some b) (cstr_len l) 0)), ONone)
  | VCopy i j => Ok (mkW (hp w) (upd (ob w) i (ob w j)), ONone)
  | VMove i j => if (i =? j)%nat then Ok (w, ONone) else Ok (mkW (hp w) (upd (upd (ob w) i (ob w j)) j null_obj), ONone)
  | VReset i => Ok (mkW (hp w) (upd (ob w) i null_obj), ONone)
  | VEqObj i j =>
      let oi := ob w i in let oj := ob w j in
      if (size oi =? size oj)%nat then
        a <- rd_range (hp w) (blk oi) 0 (size oi) ;;
        b <- rd_range (hp w) (blk oj) 0 (size oi) ;;
        Ok (w, OBool (list_eqb a b))
      else Ok (w, OBool false)
  | VEqCstr i l => b <- t_eq_ext w i (l ++ [0]) (cstr_len l) ;; Ok (w, OBool b)
  | VIsEqual i l => b <- t_eq_ext w i l (length l) ;; Ok (w, OBool b)
  | VIter i | VStreamOut i => c <- rd_range (hp w) (blk (ob w i)) 0 (size (ob w i)) ;; Ok (w, OStr c true)
  | VIsEmpty i => Ok (w, OBool (size (ob w i) =? 0)%nat)
  end.

Definition vspec (s : nat -> list N) (op : vop) : (nat -> list N) * @out N :=
  match op with
  | VNew i l => (upd s i l, ONone)
  | VNewCstr i l => (upd s i (firstn (cstr_len l) l), ONone)
  | VCopy i j => (upd s i (s j), ONone)
  | VMove i j => (if (i =? j)%nat then s else upd (upd s i (s j)) j [], ONone)
  | VReset i => (upd s i [], ONone)
  | VEqObj i j => (s, OBool (list_eqb (s i) (s j)))
  | VEqCstr i l => (s, OBool (list_eqb (s i) (firstn (cstr_len l) l)))
  | VIsEqual i l => (s, OBool (list_eqb (s i) l))
  | VIter i | VStreamOut i => (s, OStr (s i) true)
  | VIsEmpty i => (s, OBool (length (s i) =? 0)%nat)
  end.

(* ------------------------------------------------------------------ *)
(* histories *)
Section Run.
Context {W S Op O : Type} (step : W -> Op -> res (W * O)) (spec : S -> Op -> S * O).
Fixpoint run (ops : list Op) (w : W) : res (W * list O) :=
  match ops with
  | [] => Ok (w, [])
  | op :: r => x <- step w op ;; y <- run r (fst x) ;; Ok (fst y, snd x :: snd y)
  end.
Fixpoint spec_run (ops : list Op) (s : S) : S * list O :=
  match ops with
  | [] => (s, [])
  | op :: r => let x := spec s op in let y := spec_run r (fst x) in (fst y, snd x :: snd y)
  end.
End Run.

Definition spec0 {A} : nat -> list A := fun _ => [].

(* ------------------------------------------------------------------ *)
(* Memory::Copy / Memory::SetToZero at byte level (Memory.hpp):
   m = n >> shift blocks of 2^shift bytes by SIMD load / store, then the tail
   byte by byte.  [simd = false] is the scalar build (byte loop only). *)
Definition rd_bytes (l : list N) (off n : nat) : res (list N) :=
  if (off + n <=? length l)%nat then Ok (firstn n (skipn off l)) else Error OOB.
Definition wr_bytes (l : list N) (off : nat) (v : list N) : res (list N) :=
  if (off + length v <=? length l)%nat then Ok (splice l off v) else Error OOB.

(* do { Store(m_to, Load(m_from)); ++m_from; ++m_to; } while (m_from < end) : k blocks from block index t *)
Fixpoint copy_block_loop (k : nat) (bs : nat) (t : nat) (src dst : list N) : res (list N) :=
  match k with
  | O => Ok dst
  | S k' => v <- rd_bytes src (t * bs) bs ;;
            dst' <- wr_bytes dst (t * bs) v ;;
            copy_block_loop k' bs (S t) src dst'
  end.
(* while (offset < size) { des[offset] = src[offset]; ++offset; } *)
Fixpoint copy_tail_loop (k : nat) (offset : nat) (src dst : list N) : res (list N) :=
  match k with
  | O => Ok dst
  | S k' => v <- rd_bytes src offset 1 ;;
            dst' <- wr_bytes dst offset v ;;
            copy_tail_loop k' (S offset) src dst'
  end.
Definition copy_blocks (simd : bool) (shift : nat) (n : nat) (src dst : list N) : res (list N) :=
  let bs := Nat.pow 2 shift in
  let m := if simd then Nat.div n bs else O in
  dst1 <- copy_block_loop m bs O src dst ;;
  copy_tail_loop (n - m * bs) (m * bs) src dst1.

Fixpoint zero_block_loop (k : nat) (bs : nat) (t : nat) (dst : list N) : res (list N) :=
  match k with
  | O => Ok dst
  | S k' => dst' <- wr_bytes dst (t * bs) (repeat 0 bs) ;; zero_block_loop k' bs (S t) dst'
  end.
Fixpoint zero_tail_loop (k : nat) (offset : nat) (dst : list N) : res (list N) :=
  match k with
  | O => Ok dst
  | S k' => dst' <- wr_bytes dst offset [0] ;; zero_tail_loop k' (S offset) dst'
  end.
Definition zero_blocks (simd : bool) (shift : nat) (n : nat) (dst : list N) : res (list N) :=
  let bs := Nat.pow 2 shift in
  let m := if simd then Nat.div n bs else O in
  dst1 <- zero_block_loop m bs O dst ;;
  zero_tail_loop (n - m * bs) (m * bs) dst1.

(* ------------------------------------------------------------------ *)
(* instances used by the correspondence driver *)
Definition astepN := @astep N junkN 0.
Definition aspecN := @aspec N 0.
Definition astepS := @astep (list N) [junkN] [].     (* Array<String<char>>: an element is its content *)
Definition aspecS := @aspec (list N) [].
Definition dumpN := @dump N.
Definition dumpS := @dump (list N).
Definition world0N := @world0 N.
Definition world0S := @world0 (list N).
Definition term_ok (w : wN) (k : nat) : res bool := terminated (hp w) (ob w k).
