(* DigitProofsAccScale.v -- C10 accuracy: the scaling step of Digit::realToString is EXACT for
   every finite double / float with |value| >= 1 (exponent field >= bias), every precision and
   format, and the digit emission (bigIntToString) is the exact decimal expansion:
     integer path  (no_fraction):  b = floor (value / 10^drop),       flag = (value / 10^drop is no integer)
     fraction path:                b = floor (value * 10^fl),         flag = (value * 10^fl  is no integer)
     big_to_string b               = the decimal digits of b, least significant first.
   Hence the digit run handed to the formatter is the exact truncated decimal expansion of the value
   and round_up is exactly "something non-zero was cut off" (this is what D49 repaired).
   NOT covered: values below 1 (exponent field < bias, incl. subnormals): there realToString drops whole
   low 64-bit words early (mul_loop), and floor (floor (x / 2^64) * K / 2^s) can differ from
   floor (x * K / 2^(64+s)); and the list-manipulating formatters after the digit run. *)
From Coq Require Import NArith ZArith List Bool Lia ZifyBool ZifyN ZifyNat.
From Qv Require Import gen.Tables_digit DigitModel DigitModelSpec DigitProofsInt DigitProofsParse DigitProofsRoundtripInt DigitProofsAccPos.
Import ListNotations.
Local Open Scope N_scope.

(* the scaling block of real_to_string, verbatim, for a number with a non-zero exponent field *)
Definition real_scale (fi : finfo) (mantissa be precision : N) (is_fixed : bool) : res (N * N * bool) :=
  let first_shift := ctz mantissa in
  let is_positive_exp := fi_bias fi <=? be in
  let positive_exp := if is_positive_exp then be - fi_bias fi else fi_bias fi - be in
  let first_bit := sub32 (fi_msize fi) first_shift in
  let exp_actual := add32 positive_exp 0 in
  let digits := add32 ((exp_actual * 30103) mod two32 / 100000) 1 in
  let extra_digits := (precision <? digits) && negb is_fixed in
  let big_offset := first_bit <=? positive_exp in
  let no_fraction := is_positive_exp && (big_offset || extra_digits) in
  let mi := fi_maxindex fi in
  (if no_fraction then
     let drop := if negb extra_digits then 0 else sub32 digits (add32 precision 1) in
     let m_shift := add32 (fi_msize fi) drop in
     do b1 <- (if m_shift <? positive_exp then big_shl mi mantissa (positive_exp - m_shift)
               else Ok (N.shiftr mantissa (m_shift - positive_exp)));
     let lost := negb (m_shift <? positive_exp) && (first_shift <? m_shift - positive_exp) in
     if negb (drop =? 0) then do '(b2, inexact) <- drop_digits 60 b1 drop lost; Ok (b2, 0, inexact)
     else Ok (b1, 0, lost)
   else
     let '(fl0, needed0) :=
       if is_positive_exp then (sub32 first_bit positive_exp, if is_fixed then precision else sub32 precision digits)
       else (add32 first_bit positive_exp, add32 digits precision) in
     let needed := add32 needed0 1 in
     let '(shift, fl) := if needed <? fl0 then (fl0 - needed, needed) else (0, fl0) in
     let b0 := N.shiftr mantissa first_shift in
     do '(b1, times, shift1, lost) <-
       (if dg_max_pow5 <=? fl then
          let max_index := if precision <? fi_maxcut fi then precision / dg_max_pow10 + 3 else mi in
          mul_loop 200 mi max_index b0 fl shift false
        else Ok (b0, fl, shift, false));
     do b2 <- (if negb (times =? 0) then big_mul mi b1 (pow5 times) else Ok b1);
     let lost2 := lost || (negb (shift1 =? 0) && negb (b2 =? 0) && (ctz b2 <? shift1)) in
     Ok (N.shiftr b2 shift1, fl, lost2)).

(* it IS the block of real_to_string (normal numbers): the rest of real_to_string only emits and formats *)
Lemma real_to_string_scale : forall fi pre number prec fmt,
  let is_fixed := (fmt =? rf_semifixed) || (fmt =? rf_fixed) in
  let precision := if (prec =? 0) && negb is_fixed then 1 else prec in
  let bias := N.land number (fi_expmask fi) in
  (bias =? fi_expmask fi) = false -> (bias =? 0) = false ->
  real_to_string fi pre number prec fmt =
  (let s1 := if negb (N.land number (fi_sign fi) =? 0) then pre ++ [ch_neg] else pre in
   let mantissa := N.lor (N.land number (fi_mantmask fi)) (fi_lead fi) in
   let be := N.shiftr bias (fi_msize fi) in
   do '(b, fraction_length, round_up) <- real_scale fi mantissa be precision is_fixed;
   do ds <- big_to_string 80 b;
   let digits := add32 ((add32 (if fi_bias fi <=? be then be - fi_bias fi else fi_bias fi - be) 0 * 30103) mod two32 / 100000) 1 in
   do run <-
     (if fmt =? rf_semifixed then format_fixed false ds 0 precision digits fraction_length round_up
      else if fmt =? rf_fixed then format_fixed true ds 0 precision digits fraction_length round_up
      else format_default ds 0 precision digits fraction_length (fi_bias fi <=? be) round_up);
   Ok (s1 ++ run)).
Proof.
  intros fi pre number prec fmt is_fixed precision bias H1 H2.
  unfold real_to_string. fold is_fixed. fold precision. fold bias. rewrite H1, H2. cbn [negb]. rewrite orb_true_r.
  reflexivity.
Qed.

Ltac Zify.zify_post_hook ::= Z.div_mod_to_equations.

(* ---- arithmetic helpers ---- *)
Lemma ctz_decomp : forall x, x <> 0 -> exists o, x = (2 * o + 1) * 2 ^ ctz x.
Proof.
  intros [|p] H; [congruence|]. clear H. induction p as [p IH|p IH|].
  - exists (N.pos p). cbn [ctz ctz_pos]. rewrite N.pow_0_r. lia.
  - destruct IH as [o Ho]. exists o. change (ctz (N.pos p~0)) with (1 + ctz (N.pos p)).
    rewrite N.pow_add_r. change (2 ^ 1) with 2. change (N.pos p~0) with (2 * N.pos p). rewrite Ho at 1. lia.
  - exists 0. reflexivity.
Qed.

Lemma ctz_lt_mod : forall x s, x <> 0 -> (ctz x <? s) = negb (x mod 2 ^ s =? 0).
Proof.
  intros x s Hx. destruct (ctz_decomp x Hx) as [o Ho]. set (c := ctz x) in *.
  destruct (c <? s) eqn:E.
  - apply N.ltb_lt in E. symmetry. apply negb_true_iff. apply N.eqb_neq. intros Hm.
    apply N.mod_divide in Hm; [|apply N.pow_nonzero; lia]. destruct Hm as [k Hk].
    replace s with (1 + (s - c - 1) + c) in Hk by lia. rewrite !N.pow_add_r in Hk. change (2 ^ 1) with 2 in Hk.
    rewrite Ho in Hk.
    assert (Hc : 0 < 2 ^ c) by (apply N.neq_0_lt_0, N.pow_nonzero; lia).
    assert (2 * o + 1 = k * (2 * 2 ^ (s - c - 1))) by nia. lia.
  - apply N.ltb_ge in E. symmetry. apply negb_false_iff. apply N.eqb_eq.
    rewrite Ho. replace c with (c - s + s) by lia. rewrite N.pow_add_r, N.mul_assoc. apply N.mod_mul. apply N.pow_nonzero. lia.
Qed.

Lemma mod_mul_zero : forall b a c, a <> 0 -> c <> 0 ->
  (b mod (a * c) =? 0) = (b mod a =? 0) && ((b / a) mod c =? 0).
Proof.
  intros b a c Ha Hc. rewrite N.mod_mul_r by assumption.
  destruct (b mod a =? 0) eqn:E1; destruct ((b / a) mod c =? 0) eqn:E2; cbn [andb];
    rewrite ?N.eqb_eq, ?N.eqb_neq in *; nia.
Qed.

Lemma drop_digits_exact : forall fuel b drop ix, drop < 27 * N.of_nat fuel ->
  drop_digits fuel b drop ix = Ok (b / 5 ^ drop, ix || negb (b mod 5 ^ drop =? 0)).
Proof.
  induction fuel as [|f IH]; intros b drop ix Hf; [cbn in Hf; lia|].
  cbn [drop_digits]. change dg_max_pow5 with 27. rewrite Nat2N.inj_succ in Hf.
  destruct (27 <=? drop) eqn:E.
  - apply N.leb_le in E. rewrite pow5_spec by lia. rewrite IH by lia.
    assert (H5 : 5 ^ drop = 5 ^ 27 * 5 ^ (drop - 27)) by (rewrite <- N.pow_add_r; f_equal; lia).
    rewrite H5. rewrite N.div_div by (apply N.pow_nonzero; lia).
    rewrite (mod_mul_zero b (5 ^ 27) (5 ^ (drop - 27))) by (apply N.pow_nonzero; lia).
    f_equal. f_equal. destruct ix; destruct (b mod 5 ^ 27 =? 0); destruct ((b / 5 ^ 27) mod 5 ^ (drop - 27) =? 0); reflexivity.
  - apply N.leb_gt in E. destruct (drop =? 0) eqn:E0.
    + apply N.eqb_eq in E0. subst drop. rewrite N.pow_0_r, N.div_1_r, N.mod_1_r. rewrite orb_false_r. reflexivity.
    + rewrite pow5_spec by lia. reflexivity.
Qed.

Lemma add32_id : forall a b, a + b < 2 ^ 32 -> add32 a b = a + b.
Proof. intros a b H. unfold add32, two32. change 4294967296 with (2 ^ 32). apply N.mod_small. exact H. Qed.
Lemma sub32_id : forall a b, b <= a -> a < 2 ^ 32 -> sub32 a b = a - b.
Proof. intros a b H1 H2. unfold sub32, two32. change (2 ^ 32) with 4294967296 in H2. lia. Qed.

Lemma big_shl_ok : forall mi v k r, big_shl mi v k = Ok r -> r = v * 2 ^ k.
Proof. intros mi v k r H. unfold big_shl in H. destruct (big_fits mi (N.shiftl v k)); inversion H. apply N.shiftl_mul_pow2. Qed.

(* ---- the integer path ---- *)
Theorem scale_integer_path : forall fi mantissa be precision is_fixed b fl ru,
  let ms := fi_msize fi in let pe := be - fi_bias fi in
  mantissa <> 0 -> ms <= 64 -> fi_bias fi <= be -> be - fi_bias fi <= 4000 -> precision < 2 ^ 20 ->
  let first_bit := ms - ctz mantissa in
  let digits := (pe * 30103) / 100000 + 1 in
  ((first_bit <=? pe) || ((precision <? digits) && negb is_fixed)) = true -> ctz mantissa <= ms ->
  real_scale fi mantissa be precision is_fixed = Ok (b, fl, ru) ->
  fl = 0 /\ exists drop, (drop = 0 \/ (is_fixed = false /\ drop = digits - (precision + 1)))
    /\ b = (mantissa * 2 ^ pe) / (2 ^ ms * 10 ^ drop)
    /\ ru = negb ((mantissa * 2 ^ pe) mod (2 ^ ms * 10 ^ drop) =? 0).
Proof.
  intros fi mantissa be precision is_fixed b fl ru ms pe Hm Hms Hbe Hbe16 Hp first_bit digits Hnf Hctz H.
  unfold real_scale in H. fold ms in H.
  assert (Epos : (fi_bias fi <=? be) = true) by (apply N.leb_le; exact Hbe). rewrite Epos in H. fold pe in H.
  change (2 ^ 20) with 1048576 in Hp.
  assert (Hpe : pe <= 4000) by (unfold pe; lia).
  rewrite (sub32_id ms (ctz mantissa)) in H by (try exact Hctz; change (2 ^ 32) with 4294967296; lia). fold first_bit in H.
  rewrite (add32_id pe 0) in H by (change (2 ^ 32) with 4294967296; lia). rewrite N.add_0_r in H.
  assert (Hd : add32 (pe * 30103 mod two32 / 100000) 1 = digits).
  { unfold digits, add32, two32. lia. }
  rewrite Hd in H. rewrite Hnf in H. cbn [andb] in H.
  assert (Hdig : digits <= 1300) by (unfold digits; lia).
  set (extra := (precision <? digits) && negb is_fixed) in *.
  set (drop := if negb extra then 0 else sub32 digits (add32 precision 1)) in *.
  assert (Hdrop : drop = 0 \/ (is_fixed = false /\ drop = digits - (precision + 1))).
  { unfold drop. destruct extra eqn:Ex; cbn [negb]; [right|left; reflexivity].
    unfold extra in Ex. apply andb_prop in Ex. destruct Ex as [E1 E2]. apply N.ltb_lt in E1. apply negb_true_iff in E2.
    split; [exact E2|]. rewrite add32_id by (change (2 ^ 32) with 4294967296; lia).
    apply sub32_id; [lia|change (2 ^ 32) with 4294967296; lia]. }
  assert (Hdl : drop <= 1300) by (destruct Hdrop as [->|[_ ->]]; lia).
  rewrite (add32_id ms drop) in H by (change (2 ^ 32) with 4294967296; lia).
  assert (Hfuel : drop < 27 * N.of_nat 60) by (clear - Hdl; change (N.of_nat 60) with 60; lia).
  set (T := mantissa * 2 ^ pe).
  assert (H10 : forall d, 2 ^ ms * 10 ^ d = 2 ^ (ms + d) * 5 ^ d).
  { intros d. change 10 with (2 * 5). rewrite N.pow_mul_l, N.pow_add_r. lia. }
  (* the shift *)
  assert (Hb1 : exists b1 lost, (if ms + drop <? pe then big_shl (fi_maxindex fi) mantissa (pe - (ms + drop))
                                 else Ok (N.shiftr mantissa (ms + drop - pe))) = Ok b1
            -> True) by (exists 0, false; auto). clear Hb1.
  destruct (ms + drop <? pe) eqn:Esh.
  - apply N.ltb_lt in Esh. cbn [negb andb] in H.
    destruct (big_shl (fi_maxindex fi) mantissa (pe - (ms + drop))) as [b1|] eqn:Eb1; [|discriminate]. cbn [bind] in H.
    apply big_shl_ok in Eb1.
    assert (HT : T = b1 * 2 ^ (ms + drop)).
    { unfold T. rewrite Eb1, <- N.mul_assoc, <- N.pow_add_r. f_equal. f_equal. lia. }
    assert (Hq : T / (2 ^ (ms + drop) * 5 ^ drop) = b1 / 5 ^ drop
                 /\ (T mod (2 ^ (ms + drop) * 5 ^ drop) =? 0) = (b1 mod 5 ^ drop =? 0)).
    { rewrite HT. split.
      - rewrite <- N.div_div by (apply N.pow_nonzero; lia). rewrite N.div_mul by (apply N.pow_nonzero; lia). reflexivity.
      - rewrite mod_mul_zero by (apply N.pow_nonzero; lia). rewrite N.mod_mul by (apply N.pow_nonzero; lia).
        rewrite N.div_mul by (apply N.pow_nonzero; lia). reflexivity. }
    destruct Hq as [Hq1 Hq2].
    destruct (negb (drop =? 0)) eqn:Ed.
    + rewrite (drop_digits_exact 60 _ drop _ Hfuel) in H. cbn [bind] in H. injection H as <- <- <-.
      split; [reflexivity|]. exists drop. split; [exact Hdrop|]. rewrite H10, Hq1, Hq2. cbn [orb]. auto.
    + apply negb_false_iff in Ed. apply N.eqb_eq in Ed. injection H as <- <- <-.
      split; [reflexivity|]. exists drop. split; [exact Hdrop|]. rewrite H10, Hq1, Hq2. rewrite Ed, N.pow_0_r, N.div_1_r, N.mod_1_r. auto.
  - apply N.ltb_ge in Esh. cbn [negb andb bind] in H.
    set (s := ms + drop - pe) in *.
    rewrite ctz_lt_mod in H by exact Hm. rewrite N.shiftr_div_pow2 in H.
    assert (HT : forall d, T / (2 ^ (ms + drop) * d) = mantissa / 2 ^ s / d
                 /\ (d <> 0 -> (T mod (2 ^ (ms + drop) * d) =? 0) = (mantissa mod 2 ^ s =? 0) && ((mantissa / 2 ^ s) mod d =? 0))).
    { intros d. assert (E : 2 ^ (ms + drop) = 2 ^ s * 2 ^ pe) by (rewrite <- N.pow_add_r; f_equal; unfold s; lia).
      assert (Hpp : 2 ^ pe <> 0) by (apply N.pow_nonzero; lia). assert (Hps : 2 ^ s <> 0) by (apply N.pow_nonzero; lia).
      split.
      - unfold T. rewrite E. replace (2 ^ s * 2 ^ pe * d) with ((2 ^ s * d) * 2 ^ pe) by lia.
        destruct (N.eq_dec d 0) as [->|Hd0].
        + rewrite !N.mul_0_r, N.mul_0_l. destruct (mantissa * 2 ^ pe); destruct (mantissa / 2 ^ s); reflexivity.
        + rewrite N.div_mul_cancel_r by (try exact Hpp; lia). rewrite N.div_div by assumption. reflexivity.
      - intros Hd0. unfold T. rewrite E. replace (2 ^ s * 2 ^ pe * d) with ((2 ^ s * d) * 2 ^ pe) by lia.
        rewrite N.mul_mod_distr_r by (try exact Hpp; lia).
        rewrite <- (mod_mul_zero mantissa (2 ^ s) d) by assumption.
        destruct (mantissa mod (2 ^ s * d) =? 0) eqn:Ez; rewrite ?N.eqb_eq, ?N.eqb_neq in *; [rewrite Ez; reflexivity|nia]. }
    destruct (negb (drop =? 0)) eqn:Ed.
    + rewrite (drop_digits_exact 60 _ drop _ Hfuel) in H. cbn [bind] in H. injection H as <- <- <-.
      split; [reflexivity|]. exists drop. split; [exact Hdrop|]. rewrite H10.
      destruct (HT (5 ^ drop)) as [Q1 Q2]. rewrite Q1, Q2 by (apply N.pow_nonzero; lia).
      split; [reflexivity|]. destruct (mantissa mod 2 ^ s =? 0); destruct ((mantissa / 2 ^ s) mod 5 ^ drop =? 0); reflexivity.
    + apply negb_false_iff in Ed. apply N.eqb_eq in Ed. injection H as <- <- <-.
      split; [reflexivity|]. exists drop. split; [exact Hdrop|]. rewrite H10.
      destruct (HT (5 ^ drop)) as [Q1 Q2]. rewrite Q1, Q2 by (apply N.pow_nonzero; lia).
      rewrite Ed, N.pow_0_r, N.div_1_r, N.mod_1_r. cbn [N.eqb]. rewrite andb_true_r. auto.
Qed.

(* ---- the fraction path for values >= 1: the binary shift is below 64, no word is dropped early ---- *)
Lemma mul_loop_small_shift : forall fuel mi maxi b times shift lost b1 t1 s1 l1,
  shift < 64 -> 27 <= times ->
  mul_loop fuel mi maxi b times shift lost = Ok (b1, t1, s1, l1) ->
  s1 = shift /\ l1 = lost /\ t1 < 27 /\ exists k, times = t1 + 27 * k /\ b1 = b * 5 ^ (27 * k).
Proof.
  induction fuel as [|f IH]; intros mi maxi b times shift lost b1 t1 s1 l1 Hs Ht H; [discriminate|].
  cbn [mul_loop] in H. change dg_max_pow5 with 27 in H. change dg_max_shift with 64 in H.
  destruct (big_mul mi b (pow5 27)) as [bb|] eqn:Em; [|discriminate]. cbn [bind] in H.
  apply big_mul_ok in Em. rewrite pow5_spec in Em by lia.
  assert (E64 : (64 <=? shift) = false) by (apply N.leb_gt; exact Hs). rewrite E64, andb_false_r in H.
  destruct (27 <=? times - 27) eqn:E.
  - apply N.leb_le in E. apply IH in H; [|exact Hs|exact E].
    destruct H as [H1 [H2 [H3 [k [H4 H5]]]]]. repeat split; try assumption.
    exists (k + 1). split; [lia|]. rewrite H5, Em. replace (27 * (k + 1)) with (27 + 27 * k) by lia.
    rewrite N.pow_add_r. lia.
  - apply N.leb_gt in E. injection H as <- <- <- <-. repeat split; try lia.
    exists 1. split; [lia|]. rewrite Em. reflexivity.
Qed.

Theorem scale_fraction_path_ge1 : forall fi mantissa be precision is_fixed b fl ru,
  let ms := fi_msize fi in let pe := be - fi_bias fi in
  mantissa <> 0 -> ms <= 63 -> fi_bias fi <= be -> be - fi_bias fi <= 4000 -> precision < 2 ^ 20 ->
  let fs := ctz mantissa in
  let digits := (pe * 30103) / 100000 + 1 in
  fs <= ms -> ((ms - fs <=? pe) || ((precision <? digits) && negb is_fixed)) = false ->
  real_scale fi mantissa be precision is_fixed = Ok (b, fl, ru) ->
  let o := mantissa / 2 ^ fs in          (* the odd part: value = o / 2^F *)
  let F := ms - fs - pe in
  fl <= F /\ b = (o * 5 ^ fl) / 2 ^ (F - fl) /\ ru = negb ((o * 5 ^ fl) mod 2 ^ (F - fl) =? 0)
  /\ fl = N.min F ((if is_fixed then precision else precision - digits) + 1).
Proof.
  intros fi mantissa be precision is_fixed b fl ru ms pe Hm Hms Hbe Hbe16 Hp fs digits Hctz Hnf H o F.
  unfold real_scale in H. fold ms in H. fold fs in H.
  assert (Epos : (fi_bias fi <=? be) = true) by (apply N.leb_le; exact Hbe). rewrite Epos in H. fold pe in H.
  change (2 ^ 20) with 1048576 in Hp.
  assert (Hpe : pe <= 4000) by (unfold pe; lia).
  rewrite (sub32_id ms fs) in H by (try exact Hctz; change (2 ^ 32) with 4294967296; lia).
  rewrite (add32_id pe 0) in H by (change (2 ^ 32) with 4294967296; lia). rewrite N.add_0_r in H.
  assert (Hd : add32 (pe * 30103 mod two32 / 100000) 1 = digits) by (unfold digits, add32, two32; lia).
  rewrite Hd in H. rewrite Hnf in H. cbn [andb] in H.
  assert (Hdig : digits <= 1300) by (unfold digits; lia).
  apply orb_false_iff in Hnf. destruct Hnf as [Hbo Hex]. apply N.leb_gt in Hbo.
  assert (HF : F = ms - fs - pe) by reflexivity. assert (HF1 : 1 <= F) by lia.
  rewrite (sub32_id (ms - fs) pe) in H by (change (2 ^ 32) with 4294967296; lia). fold F in H.
  set (needed0 := if is_fixed then precision else sub32 precision digits) in *.
  assert (Hn0 : needed0 = if is_fixed then precision else precision - digits).
  { unfold needed0. destruct is_fixed; [reflexivity|]. cbn [negb] in Hex. rewrite andb_true_r in Hex. apply N.ltb_ge in Hex.
    apply sub32_id; [exact Hex|change (2 ^ 32) with 4294967296; lia]. }
  assert (Hn0b : needed0 < 1048576) by (rewrite Hn0; destruct is_fixed; lia).
  rewrite (add32_id needed0 1) in H by (change (2 ^ 32) with 4294967296; lia).
  clearbody needed0.
  set (sf := if needed0 + 1 <? F then (F - (needed0 + 1), needed0 + 1) else (0, F)) in *.
  assert (Hsf : fst sf = F - snd sf /\ snd sf = N.min F (needed0 + 1) /\ snd sf <= F).
  { unfold sf. destruct (needed0 + 1 <? F) eqn:E; cbn [fst snd]; [apply N.ltb_lt in E|apply N.ltb_ge in E]; lia. }
  destruct sf as [shift fl']. cbn [fst snd] in Hsf. destruct Hsf as [Hshift [Hfl Hfl2]].
  rewrite N.shiftr_div_pow2 in H. fold o in H.
  assert (Hs64 : shift < 64) by lia.
  assert (Ho : o <> 0).
  { unfold o. destruct (ctz_decomp mantissa Hm) as [q Hq]. fold fs in Hq. rewrite Hq.
    rewrite N.div_mul by (apply N.pow_nonzero; lia). lia. }
  (* the multiplications *)
  assert (Hmul : (do '(b1, times, shift1, lost) <-
       (if dg_max_pow5 <=? fl' then
          mul_loop 200 (fi_maxindex fi) (if precision <? fi_maxcut fi then precision / dg_max_pow10 + 3 else fi_maxindex fi) o fl' shift false
        else Ok (o, fl', shift, false));
     do b2 <- (if negb (times =? 0) then big_mul (fi_maxindex fi) b1 (pow5 times) else Ok b1);
     Ok (N.shiftr b2 shift1, fl', lost || (negb (shift1 =? 0) && negb (b2 =? 0) && (ctz b2 <? shift1)))) = Ok (b, fl, ru)
     -> fl = fl' /\ b = (o * 5 ^ fl') / 2 ^ shift /\ ru = negb ((o * 5 ^ fl') mod 2 ^ shift =? 0)).
  { intros G.
    assert (Hcore : forall b1 times, times < 27 -> (exists k, fl' = times + 27 * k /\ b1 = o * 5 ^ (27 * k)) ->
       (do b2 <- (if negb (times =? 0) then big_mul (fi_maxindex fi) b1 (pow5 times) else Ok b1);
        Ok (N.shiftr b2 shift, fl', false || (negb (shift =? 0) && negb (b2 =? 0) && (ctz b2 <? shift)))) = Ok (b, fl, ru) ->
       fl = fl' /\ b = (o * 5 ^ fl') / 2 ^ shift /\ ru = negb ((o * 5 ^ fl') mod 2 ^ shift =? 0)).
    { intros b1 times Ht [k [Hk Hb1]] G2.
      assert (Hb2 : exists b2, (if negb (times =? 0) then big_mul (fi_maxindex fi) b1 (pow5 times) else Ok b1) = Ok b2 /\ b2 = o * 5 ^ fl').
      { destruct (times =? 0) eqn:E0; cbn [negb].
        - apply N.eqb_eq in E0. exists b1. split; [reflexivity|]. rewrite Hb1, Hk, E0, N.add_0_l. reflexivity.
        - destruct (big_mul (fi_maxindex fi) b1 (pow5 times)) as [b2|] eqn:Em; [|try rewrite E0 in G2; cbn [negb] in G2; try rewrite Em in G2; cbn [bind] in G2; discriminate].
          apply big_mul_ok in Em. rewrite pow5_spec in Em by lia. exists b2. split; [reflexivity|].
          rewrite Em, Hb1, Hk, N.pow_add_r. lia. }
      destruct Hb2 as [b2 [E2 Hb2]]. rewrite E2 in G2. cbn [bind orb] in G2. injection G2 as <- <- <-.
      split; [reflexivity|]. rewrite N.shiftr_div_pow2. rewrite Hb2. split; [reflexivity|].
      assert (Hnz : o * 5 ^ fl' <> 0) by (apply N.neq_mul_0; split; [exact Ho|apply N.pow_nonzero; lia]).
      rewrite ctz_lt_mod by exact Hnz.
      assert (E : (o * 5 ^ fl' =? 0) = false) by (apply N.eqb_neq; exact Hnz). rewrite E. cbn [negb]. rewrite andb_true_r.
      destruct (shift =? 0) eqn:Es; cbn [negb andb]; [|reflexivity].
      apply N.eqb_eq in Es. rewrite Es, N.pow_0_r, N.mod_1_r. reflexivity. }
    change dg_max_pow5 with 27 in G.
    destruct (27 <=? fl') eqn:E27.
    - apply N.leb_le in E27.
      destruct (mul_loop 200 (fi_maxindex fi) (if precision <? fi_maxcut fi then precision / dg_max_pow10 + 3 else fi_maxindex fi) o fl' shift false)
        as [[[[b1 t1] s1] l1]|] eqn:EL; [|discriminate]. cbn [bind] in G.
      apply mul_loop_small_shift in EL; [|exact Hs64|exact E27]. destruct EL as [-> [-> [Ht1 Hk]]].
      exact (Hcore b1 t1 Ht1 Hk G).
    - apply N.leb_gt in E27. cbn [bind] in G.
      apply (Hcore o fl' E27); [|exact G]. exists 0. split; [lia|]. change (27 * 0) with 0. rewrite N.pow_0_r. lia. }
  specialize (Hmul H). destruct Hmul as [-> [Hb Hru]].
  rewrite <- Hshift. split; [exact Hfl2|]. split; [exact Hb|]. split; [exact Hru|]. rewrite Hfl, Hn0. reflexivity.
Qed.

(* non-vacuity: 11150.001 (exponent 13, Fixed precision 2) goes through the fraction path with fl = 3:
   b = floor (11150.001 * 10^3) = 11150001 ... and 1e22 at 6 significant digits through the integer path *)
Example scale_examples :
  real_scale finfo_double (N.lor (N.land 4667355392203070374 dg_d_mantmask) dg_d_leadbit) 1036 2 true
    = Ok (11150001, 3, true)
  /\ real_scale finfo_double (N.lor (N.land 4936209963552724370 dg_d_mantmask) dg_d_leadbit) 1096 6 false
    = Ok (10000000, 0, false).
Proof. repeat (match goal with |- _ /\ _ => split end); vm_compute; reflexivity. Qed.
