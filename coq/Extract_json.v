(* Extract_json.v -- extraction of the JSON reader/writer model, the concrete-syntax
   specification and the RFC 8259 recogniser to OCaml (ExtrOcamlBasic only). *)
From Coq Require Import Extraction ExtrOcamlBasic NArith ZArith.
From Qv Require Import JsonModel.
Extraction Language OCaml.
Set Extraction Optimize.
Extraction "model_json.ml"
  N.add N.mul N.sub N.div_eucl N.compare Z.add Z.mul Z.sub Z.div_eucl Z.compare Z.of_N Z.to_N Z.opp
  JsonModel.parse JsonModel.parse_history JsonModel.stringify JsonModel.normalize JsonModel.cprint JsonModel.cdenote
  JsonModel.cval_wf JsonModel.is_container JsonModel.rfc_ok JsonModel.jv_eqb JsonModel.definedb
  JsonModel.scan_number JsonModel.unescape JsonModel.escape_json.
