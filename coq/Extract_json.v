(* Extract_json.v -- extraction of the JSON reader/writer model, the concrete-syntax
   specification and the RFC 8259 recogniser to OCaml (ExtrOcamlBasic only). *)
From Coq Require Import Extraction ExtrOcamlBasic NArith ZArith.
From Qv Require Import JsonModel.
From Qv Require DigitModel gen.Tables_digit JsonDigitC08 JsonDigitAlpha JsonDigitShape.
Extraction Language OCaml.
Set Extraction Optimize.
Extraction "model_json.ml"
  N.add N.mul N.sub N.div_eucl N.compare Z.add Z.mul Z.sub Z.div_eucl Z.compare Z.of_N Z.to_N Z.opp
  JsonModel.parse JsonModel.parse_history JsonModel.stringify JsonModel.normalize JsonModel.cprint JsonModel.cdenote
  JsonModel.cval_wf JsonModel.is_container JsonModel.rfc_ok JsonModel.jv_eqb JsonModel.definedb
  JsonModel.scan_number DigitModel.string_to_number Tables_digit.qn_nan Tables_digit.qn_real Tables_digit.qn_natural Tables_digit.qn_integer JsonModel.unescape JsonModel.escape_json
  JsonDigitC08.dtext JsonDigitC08.rfc_numb JsonDigitC08.vleafb JsonDigitAlpha.finite_bits JsonDigitShape.head_digitb.
