(* HtabProofsSort.v -- C13: Sort.  The transliterated Memory::Sort (quicksort) never
   runs out of fuel and returns a permutation of the items; rebuilding the chains
   over ANY permutation of the items re-establishes the invariant with the same
   entries.  (That the permutation is ordered by key is not proved here.) *)
From Coq Require Import List NArith Arith Bool Lia ZifyBool ZifyNat ZifyN Permutation.
From Qv Require Import HtabModel HtabProofsBase HtabProofsInv HtabProofsOps HtabProofsOps2 HtabProofsOps3.
Import ListNotations.

Lemma perm_upd_head {A} (a : A) r j d :
  j < length r -> Permutation (a :: r) (nth j r d :: upd r j a).
Proof.
  revert j; induction r as [|b r IH]; intros [|j] Hj; simpl in *; try lia.
  - apply perm_swap.
  - eapply perm_trans; [apply perm_swap|]. eapply perm_trans; [apply perm_skip; apply (IH j); lia|]. apply perm_swap.
Qed.

Section Sort.
Context {K V : Type}.
Variable keqb : K -> K -> bool.
Variable klt : K -> K -> bool.
Variable H : K -> N.
Variable kdef : K.
Variable vdef : V.
Hypothesis keqb_spec : forall a b, keqb a b = true <-> a = b.
Hypothesis H_nz : forall k, H k <> 0%N.

Notation ht := (ht K V).
Notation item := (item K V).
Notation it := (@it K V kdef vdef).
Notation swap := (@swap K V kdef vdef).
Notation qpart := (@qpart K V klt kdef vdef).
Notation qsort := (@qsort K V klt kdef vdef).
Notation sort_items := (@sort_items K V klt kdef vdef).
Notation sort := (@sort K V klt kdef vdef).
Notation generate_hash := (@generate_hash K V kdef vdef).
Notation Inv := (@Inv K V H kdef vdef).
Notation items_ok := (@items_ok K V H).
Notation hash_ok := (@hash_ok K V H).
Notation live_l := (@live_l K V).
Notation kv := (@kv K V).
Notation no_dead := (@no_dead K V).
Notation dummy := (@dummy K V kdef vdef).
Local Notation Inv_empty := (@Inv_empty K V keqb H kdef vdef).
Local Notation Inv_bucket_lt := (@Inv_bucket_lt K V keqb H kdef vdef).
Local Notation live_item_iff := (@live_item_iff K V keqb H kdef vdef).
Local Notation items_ok_idx := (@items_ok_idx K V keqb H kdef vdef).
Local Notation bucket_chain_frame := (@bucket_chain_frame K V keqb H kdef vdef).
Local Notation link_end_step := (@link_end_step K V keqb H kdef vdef).
Local Notation matches_iff := (@matches_iff K V keqb H kdef vdef keqb_spec H_nz).
Local Notation find_key_inv := (@find_key_inv K V keqb H kdef vdef keqb_spec H_nz).
Local Notation live_is_live_l := (@live_is_live_l K V keqb H kdef vdef keqb_spec H_nz).
Local Notation live_l_app := (@live_l_app K V keqb H kdef vdef keqb_spec H_nz).
Local Notation keqb_refl := (@keqb_refl K V keqb H kdef vdef keqb_spec H_nz).
Local Notation keqb_neq := (@keqb_neq K V keqb H kdef vdef keqb_spec H_nz).
Local Notation sp_get_none := (@sp_get_none K V keqb H kdef vdef keqb_spec H_nz).
Local Notation sp_get_found := (@sp_get_found K V keqb H kdef vdef keqb_spec H_nz).
Local Notation sp_index_none := (@sp_index_none K V keqb H kdef vdef keqb_spec H_nz).
Local Notation sp_index_found := (@sp_index_found K V keqb H kdef vdef keqb_spec H_nz).
Local Notation sp_put_fresh := (@sp_put_fresh K V keqb H kdef vdef keqb_spec H_nz).
Local Notation sp_put_found := (@sp_put_found K V keqb H kdef vdef keqb_spec H_nz).
Local Notation sp_remove_none := (@sp_remove_none K V keqb H kdef vdef keqb_spec H_nz).
Local Notation sp_remove_found := (@sp_remove_found K V keqb H kdef vdef keqb_spec H_nz).
Local Notation sp_rekey_found := (@sp_rekey_found K V keqb H kdef vdef keqb_spec H_nz).
Local Notation In_nth_lt := (@In_nth_lt K V keqb H kdef vdef keqb_spec H_nz).
Local Notation split_at := (@split_at K V keqb H kdef vdef keqb_spec H_nz).
Local Notation no_key_before := (@no_key_before K V keqb H kdef vdef keqb_spec H_nz).
Local Notation no_key_all := (@no_key_all K V keqb H kdef vdef keqb_spec H_nz).
Local Notation live_l_replace := (@live_l_replace K V keqb H kdef vdef keqb_spec H_nz).
Local Notation live_upd_same := (@live_upd_same K V keqb H kdef vdef keqb_spec H_nz).
Local Notation live_wr := (@live_wr K V keqb H kdef vdef keqb_spec H_nz).
Local Notation hash_ok_it := (@hash_ok_it K V keqb H kdef vdef keqb_spec H_nz).
Local Notation items_ok_wr := (@items_ok_wr K V keqb H kdef vdef keqb_spec H_nz).
Local Notation set_val_inv := (@set_val_inv K V keqb H kdef vdef keqb_spec H_nz).
Local Notation insert_item_inv := (@insert_item_inv K V keqb H kdef vdef keqb_spec H_nz).
Local Notation gh_step_inv := (@gh_step_inv K V keqb H kdef vdef keqb_spec H_nz).
Local Notation gh_loop_inv := (@gh_loop_inv K V keqb H kdef vdef keqb_spec H_nz).
Local Notation live_of_fields := (@live_of_fields K V keqb H kdef vdef keqb_spec H_nz).
Local Notation hash_ok_of_fields := (@hash_ok_of_fields K V keqb H kdef vdef keqb_spec H_nz).
Local Notation generate_hash_inv := (@generate_hash_inv K V keqb H kdef vdef keqb_spec H_nz).
Local Notation live_filter := (@live_filter K V keqb H kdef vdef keqb_spec H_nz).
Local Notation no_dead_fields := (@no_dead_fields K V keqb H kdef vdef keqb_spec H_nz).
Local Notation resize_inv := (@resize_inv K V keqb H kdef vdef keqb_spec H_nz).
Local Notation live_length_le := (@live_length_le K V keqb H kdef vdef keqb_spec H_nz).
Local Notation no_dead_live_length := (@no_dead_live_length K V keqb H kdef vdef keqb_spec H_nz).
Local Notation grow_if_full_inv := (@grow_if_full_inv K V keqb H kdef vdef keqb_spec H_nz).
Local Notation sp_put_absent := (@sp_put_absent K V keqb H kdef vdef keqb_spec H_nz).
Local Notation no_dead_set_val := (@no_dead_set_val K V keqb H kdef vdef keqb_spec H_nz).
Local Notation no_dead_wr := (@no_dead_wr K V keqb H kdef vdef keqb_spec H_nz).
Local Notation insert_refines := (@insert_refines K V keqb H kdef vdef keqb_spec H_nz).
Local Notation get_refines := (@get_refines K V keqb H kdef vdef keqb_spec H_nz).
Local Notation NoDup_keys_sp_remove := (@NoDup_keys_sp_remove K V keqb H kdef vdef keqb_spec H_nz).
Local Notation unlink_inv := (@unlink_inv K V keqb H kdef vdef keqb_spec H_nz).
Local Notation live_nil_of_size0 := (@live_nil_of_size0 K V keqb H kdef vdef keqb_spec H_nz).
Local Notation remove_refines := (@remove_refines K V keqb H kdef vdef keqb_spec H_nz).
Local Notation lookup_spec := (@lookup_spec K V keqb H kdef vdef keqb_spec H_nz).
Local Notation no_dead_live_map := (@no_dead_live_map K V keqb H kdef vdef keqb_spec H_nz).
Local Notation live_l_firstn_all := (@live_l_firstn_all K V keqb H kdef vdef keqb_spec H_nz).
Local Notation index_clean := (@index_clean K V keqb H kdef vdef keqb_spec H_nz).
Local Notation get_slot_spec := (@get_slot_spec K V keqb H kdef vdef keqb_spec H_nz).
Local Notation key_index_key := (@key_index_key K V keqb H kdef vdef keqb_spec H_nz).
Local Notation index_key_index := (@index_key_index K V keqb H kdef vdef keqb_spec H_nz).
Local Notation remove_index_spec := (@remove_index_spec K V keqb H kdef vdef keqb_spec H_nz).
Local Notation sp_remove_nth_key := (@sp_remove_nth_key K V keqb H kdef vdef keqb_spec H_nz).
Local Notation remove_index_clean := (@remove_index_clean K V keqb H kdef vdef keqb_spec H_nz).
Local Notation chains_of_zero_heads := (@chains_of_zero_heads K V keqb H kdef vdef keqb_spec H_nz).
Local Notation Inv_fresh_nil := (@Inv_fresh_nil K V keqb H kdef vdef keqb_spec H_nz).
Local Notation reset_inv := (@reset_inv K V keqb H kdef vdef keqb_spec H_nz).
Local Notation reserve_inv := (@reserve_inv K V keqb H kdef vdef keqb_spec H_nz).
Local Notation clear_inv := (@clear_inv K V keqb H kdef vdef keqb_spec H_nz).
Local Notation filter_firstn_prefix := (@filter_firstn_prefix K V keqb H kdef vdef keqb_spec H_nz).
Local Notation items_ok_firstn := (@items_ok_firstn K V keqb H kdef vdef keqb_spec H_nz).
Local Notation resize_pub_inv := (@resize_pub_inv K V keqb H kdef vdef keqb_spec H_nz).
Local Notation expect_inv := (@expect_inv K V keqb H kdef vdef keqb_spec H_nz).
Local Notation compress_inv := (@compress_inv K V keqb H kdef vdef keqb_spec H_nz).
Local Notation copy_inv := (@copy_inv K V keqb H kdef vdef keqb_spec H_nz).
Local Notation merge_loop_inv := (@merge_loop_inv K V keqb H kdef vdef keqb_spec H_nz).
Local Notation merge_inv := (@merge_inv K V keqb H kdef vdef keqb_spec H_nz).
Local Set Default Proof Using "All".

Lemma swap_perm : forall (arr : list item) i j,
  i < length arr -> j < length arr -> Permutation arr (swap arr i j) /\ length (swap arr i j) = length arr.
Proof.
  intros arr i j Hi Hj. split; [|unfold HtabModel.swap; rewrite !length_upd; reflexivity].
  revert i j Hi Hj. induction arr as [|a r IH]; intros [|i] [|j] Hi Hj; simpl in *; try lia.
  - apply Permutation_refl.
  - unfold HtabModel.swap. simpl. apply perm_upd_head. lia.
  - unfold HtabModel.swap. simpl. apply perm_upd_head. lia.
  - unfold HtabModel.swap in *. simpl. apply perm_skip. apply IH; lia.
Qed.

Lemma qpart_spec asc pivot : forall n (arr : list item) index offset,
  index < offset -> offset + n <= length arr ->
  Permutation arr (fst (qpart asc arr pivot index offset n)) /\
  length (fst (qpart asc arr pivot index offset n)) = length arr /\
  index <= snd (qpart asc arr pivot index offset n) <= index + n.
Proof.
  induction n as [|n IH]; intros arr index offset Hio Hlen; simpl.
  - split; [apply Permutation_refl|]. split; [reflexivity|lia].
  - destruct (item_before klt asc (nth offset arr dummy) pivot).
    + destruct (swap_perm arr (S index) offset ltac:(lia) ltac:(lia)) as (Hp & Hl).
      destruct (IH (swap arr (S index) offset) (S index) (S offset) ltac:(lia) ltac:(rewrite Hl; lia)) as (Hp' & Hl' & Hb).
      split; [eapply perm_trans; eauto|]. split; [rewrite Hl'; exact Hl|lia].
    + destruct (IH arr index (S offset) ltac:(lia) ltac:(lia)) as (Hp' & Hl' & Hb).
      split; [exact Hp'|]. split; [exact Hl'|lia].
Qed.

Lemma qsort_spec asc : forall fuel (arr : list item) start stop,
  start <= stop -> stop <= length arr -> stop - start < fuel ->
  exists arr', qsort fuel asc arr start stop = Some arr' /\ Permutation arr arr' /\ length arr' = length arr.
Proof.
  induction fuel as [|f IH]; intros arr start stop Hss Hsl Hf; [lia|].
  cbn [HtabModel.qsort]. destruct (start =? stop) eqn:E.
  - exists arr. split; [reflexivity|]. split; [apply Permutation_refl|reflexivity].
  - apply Nat.eqb_neq in E.
    destruct (qpart_spec asc (nth start arr dummy) (stop - S start) arr start (S start) ltac:(lia) ltac:(lia)) as (Hp & Hl & Hb).
    destruct (qpart asc arr (nth start arr dummy) start (S start) (stop - S start)) as (arr1, index). simpl in Hp, Hl, Hb.
    set (arr2 := if index =? start then arr1 else swap arr1 index start).
    assert (H2 : Permutation arr1 arr2 /\ length arr2 = length arr1).
    { unfold arr2. destruct (index =? start); [split; [apply Permutation_refl|reflexivity]|].
      apply swap_perm; lia. }
    destruct H2 as (Hp2 & Hl2).
    destruct (IH arr2 start index ltac:(lia) ltac:(lia) ltac:(lia)) as (arr3 & -> & Hp3 & Hl3).
    destruct (IH arr3 (S index) stop ltac:(lia) ltac:(lia) ltac:(lia)) as (arr4 & -> & Hp4 & Hl4).
    exists arr4. split; [reflexivity|]. split; [|lia].
    eapply perm_trans; [exact Hp|]. eapply perm_trans; [exact Hp2|]. eapply perm_trans; eauto.
Qed.

Lemma sort_items_spec asc (l : list item) :
  exists l', sort_items asc l = Some l' /\ Permutation l l' /\ length l' = length l.
Proof. unfold HtabModel.sort_items. apply qsort_spec; lia. Qed.

(* ---------- rebuilding over a permutation of the items ---------- *)
Lemma live_l_perm (l l' : list item) : Permutation l l' -> Permutation (live_l l) (live_l l').
Proof.
  intros Hp. unfold HtabProofsInv.live_l. apply Permutation_map.
  induction Hp; simpl; auto.
  - destruct (live_item x); auto.
  - destruct (live_item x), (live_item y); auto. apply perm_swap.
  - eapply perm_trans; eauto.
Qed.

Lemma rebuild_perm_inv s (its' : list item) :
  Inv s -> Permutation (items s) its' ->
  exists s', generate_hash (mkHt (cap s) (zero_heads (cap s)) its') = Some s' /\ Inv s' /\
             live s' = live_l its' /\ Permutation (live s) (live s') /\ (no_dead s -> no_dead s').
Proof.
  intros HI Hp.
  assert (Hlen : length its' = size s) by (symmetry; apply Permutation_length; exact Hp).
  destruct (inv_items _ _ _ _ HI) as (Hf & Hnd).
  set (s0 := mkHt (cap s) (zero_heads (cap s)) its').
  assert (Hok0 : items_ok s0).
  { split.
    - unfold s0. simpl. eapply Permutation_Forall; eauto.
    - eapply Permutation_NoDup; [|exact Hnd]. apply Permutation_map. rewrite !live_is_live_l. apply live_l_perm. exact Hp. }
  destruct (inv_cap _ _ _ _ HI) as [E0|(m & Em)].
  - pose proof (inv_size _ _ _ _ HI) as Hsz.
    assert (Hnil : its' = []) by (apply length_zero_iff_nil; lia).
    exists (@empty_ht K V). unfold HtabModel.generate_hash, s0. subst its'. rewrite E0. simpl.
    split; [reflexivity|]. split; [apply Inv_empty|]. split; [reflexivity|].
    split; [|intros _; constructor].
    rewrite (live_nil_of_size0 s ltac:(lia)). apply Permutation_refl.
  - destruct (generate_hash_inv s0 m) as (s' & Hrun & HI' & Hcap & Hsz & Hlive & Hfld).
    + exact Em.
    + reflexivity.
    + unfold size, s0. simpl. rewrite Hlen. apply (inv_size _ _ _ _ HI).
    + exact Hok0.
    + exists s'. split; [exact Hrun|]. split; [exact HI'|].
      split; [rewrite Hlive; reflexivity|]. split.
      * rewrite Hlive, !live_is_live_l. apply live_l_perm. exact Hp.
      * intros Hnd0. apply (no_dead_fields s0 s' Hsz Hfld). unfold HtabProofsOps.no_dead, s0. simpl.
        eapply Permutation_Forall; eauto.
Qed.

(* Sort: never out of fuel, keeps the invariant, permutes the entries *)
Lemma sort_inv asc s :
  Inv s ->
  exists s', sort asc s = Some s' /\ Inv s' /\ Permutation (live s) (live s') /\ (no_dead s -> no_dead s') /\
             exists its', sort_items asc (items s) = Some its' /\ live s' = live_l its'.
Proof.
  intros HI. unfold HtabModel.sort.
  destruct (sort_items_spec asc (items s)) as (its' & Hs & Hp & Hl). rewrite Hs.
  destruct (rebuild_perm_inv s its' HI Hp) as (s' & Hr & HI' & Hl' & Hp' & Hnd').
  exists s'. split; [exact Hr|]. split; [exact HI'|]. split; [exact Hp'|]. split; [exact Hnd'|].
  exists its'. auto.
Qed.

End Sort.
