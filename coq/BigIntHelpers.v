(* BigIntHelpers.v -- C19: the contracts of the DoubleSize helpers.
   mul2_ok for every word width (the 64-bit variant generically in the half width h),
   div2_ok for the widths that divide in a wider machine type (w <> 64). *)
From Coq Require Import Arith NArith ZArith List Bool Lia Psatz.
From Coq Require Import ZifyBool ZifyNat ZifyN.
From Qv Require Import BigIntModel BigIntProofs BigIntProofs2.
Local Open Scope N_scope.

Lemma lor_disjoint_add : forall h a c, a < 2 ^ h -> N.lor a (c * 2 ^ h) = a + c * 2 ^ h.
Proof.
  intros h a c Ha.
  assert (Hland : N.land a (c * 2 ^ h) = 0).
  { apply N.bits_inj. intros n. rewrite N.land_spec, N.bits_0.
    destruct (N.lt_ge_cases n h) as [Hn|Hn].
    - rewrite N.mul_pow2_bits_low by assumption. apply andb_false_r.
    - rewrite <- (N.mod_small a (2 ^ h)) by assumption.
      rewrite N.mod_pow2_bits_high by assumption. reflexivity. }
  rewrite <- N.lxor_lor by assumption. symmetry. apply N.add_nocarry_lxor. assumption.
Qed.

Lemma mul_below_sq : forall p q b, p < b -> q < b -> p * q + 2 * b <= b * b + 1.
Proof. intros p q b Hp Hq. nia. Qed.

(* DoubleSize<Number_T, 64>::Multiply, for every half width h: exact double-word product *)
Theorem mul2_half_correct : forall h x m, x < 2 ^ (2 * h) -> m < 2 ^ (2 * h) ->
  let '(lo, hi) := mul2_half h x m in
  lo < 2 ^ (2 * h) /\ hi < 2 ^ (2 * h) /\ lo + hi * 2 ^ (2 * h) = x * m.
Proof.
  intros h x m Hx Hm. unfold mul2_half.
  assert (HM : 2 ^ (2 * h) = 2 ^ h * 2 ^ h).
  { replace (2 * h) with (h + h) by lia. apply N.pow_add_r. }
  rewrite HM in *.
  set (b := 2 ^ h) in *.
  assert (Hb : 0 < b) by (unfold b; apply N.neq_0_lt_0, N.pow_nonzero; lia).
  (* split the operands *)
  pose proof (N.div_mod x b ltac:(lia)) as Ex. pose proof (N.mod_lt x b ltac:(lia)) as Bxl.
  pose proof (N.div_mod m b ltac:(lia)) as Em. pose proof (N.mod_lt m b ltac:(lia)) as Bml.
  set (xl := x mod b) in *. set (xh := x / b) in *. set (ml := m mod b) in *. set (mh := m / b) in *.
  assert (Bxh : xh < b) by (unfold xh; apply N.div_lt_upper_bound; lia).
  assert (Bmh : mh < b) by (unfold mh; apply N.div_lt_upper_bound; lia).
  (* a = xl * ml *)
  pose proof (mul_below_sq xl ml b Bxl Bml) as Q1.
  pose proof (mul_below_sq ml xh b Bml Bxh) as Q2.
  pose proof (mul_below_sq xh mh b Bxh Bmh) as Q3.
  pose proof (mul_below_sq xl mh b Bxl Bmh) as Q4.
  assert (Ba : xl * ml < b * b) by lia.
  rewrite (N.mod_small (xl * ml)) by assumption.
  set (a := xl * ml) in *.
  pose proof (N.div_mod a b ltac:(lia)) as Ea. pose proof (N.mod_lt a b ltac:(lia)) as Ba0.
  set (a0 := a mod b) in *. set (a1 := a / b) in *.
  assert (Ba1 : a1 < b) by (unfold a1; apply N.div_lt_upper_bound; lia).
  (* t = ml * xh + a1 *)
  assert (Bmx : ml * xh < b * b) by lia.
  rewrite (N.mod_small (ml * xh)) by assumption.
  assert (Bt : ml * xh + a1 < b * b) by lia.
  rewrite (N.mod_small (ml * xh + a1)) by assumption.
  set (t := ml * xh + a1) in *.
  pose proof (N.div_mod t b ltac:(lia)) as Et. pose proof (N.mod_lt t b ltac:(lia)) as Bt0.
  set (t0 := t mod b) in *. set (t1 := t / b) in *.
  assert (Bt1 : t1 < b) by (unfold t1; apply N.div_lt_upper_bound; lia).
  (* high part so far *)
  assert (Bxm : xh * mh < b * b) by lia.
  rewrite (N.mod_small (xh * mh)) by assumption.
  assert (Bh2 : xh * mh + t1 < b * b) by lia.
  rewrite (N.mod_small (xh * mh + t1)) by assumption.
  (* u = t0 + xl * mh *)
  assert (Bu : t0 + xl * mh < b * b) by lia.
  rewrite (N.mod_small (t0 + xl * mh)) by assumption.
  set (u := t0 + xl * mh) in *.
  pose proof (N.div_mod u b ltac:(lia)) as Eu. pose proof (N.mod_lt u b ltac:(lia)) as Bu0.
  set (u0 := u mod b) in *. set (u1 := u / b) in *.
  assert (Bu1 : u1 < b) by (unfold u1; apply N.div_lt_upper_bound; lia).
  (* (u << h) truncated to the word keeps u0 *)
  assert (Hsh : (u * b) mod (b * b) = u0 * b).
  { symmetry. apply (N.mod_unique _ _ u1); [apply N.mul_lt_mono_pos_r; assumption|]. rewrite Eu at 1. ring. }
  rewrite Hsh.
  assert (Hlor : N.lor a0 (u0 * b) = a0 + u0 * b) by (apply lor_disjoint_add; exact Ba0).
  rewrite Hlor.
  clearbody xl xh ml mh a0 a1 t0 t1 u0 u1 b.
  (* the total is the product *)
  assert (Etot : a0 + u0 * b + (xh * mh + t1 + u1) * (b * b) = x * m).
  { rewrite Ex, Em.
    transitivity (a + b * (ml * xh + xl * mh) + xh * mh * (b * b)); [|unfold a; ring].
    rewrite Ea.
    transitivity (a0 + b * (t + xl * mh) + xh * mh * (b * b)); [|unfold t; ring].
    rewrite Et.
    transitivity (a0 + b * u + b * b * t1 + xh * mh * (b * b)); [|unfold u; ring].
    rewrite Eu. ring. }
  assert (Bhi : xh * mh + t1 + u1 < b * b).
  { assert (Hxm : x * m < (b * b) * (b * b)) by (apply N.mul_lt_mono; assumption).
    rewrite <- Etot in Hxm.
    destruct (N.lt_ge_cases (xh * mh + t1 + u1) (b * b)) as [|Hge]; [assumption|exfalso].
    apply (N.mul_le_mono_r _ _ (b * b)) in Hge. clear - Hxm Hge. lia. }
  rewrite (N.mod_small (xh * mh + t1 + u1)) by assumption.
  split; [|split; [exact Bhi|exact Etot]].
  assert (Hub : u0 * b + b <= b * b) by (replace (u0 * b + b) with ((u0 + 1) * b) by ring; apply N.mul_le_mono_r; lia).
  clear - Hub Ba0. lia.
Qed.

Theorem mul2_ok_all : forall w, 0 < w -> mul2_ok w.
Proof.
  intros w Hw x m Hx Hm. unfold mul2.
  destruct (N.eqb_spec w 64) as [->|Hne].
  - exact (mul2_half_correct 32 x m Hx Hm).
  - assert (HB : 0 < Bw w) by apply B_pos.
    pose proof (N.div_mod (x * m) (Bw w) ltac:(lia)) as E.
    pose proof (N.mod_lt (x * m) (Bw w) ltac:(lia)) as Hlo.
    assert (Hhi : x * m / Bw w < Bw w) by (apply N.div_lt_upper_bound; [lia|nia]).
    rewrite (N.mod_small (x * m / Bw w)) by assumption.
    split; [assumption|]. split; [assumption|]. lia.
Qed.

(* DoubleSize<Number_T, 8|16|32>::Divide: the division is done in a wider machine type *)
Theorem div2_ok_narrow : forall w, w <> 64 -> div2_ok w.
Proof.
  intros w Hne hi lo d Hd Hhi Hlo. unfold div2, div_shift.
  destruct (N.eqb_spec w 64) as [|_]; [contradiction|].
  f_equal. apply N.mod_small. apply N.div_lt_upper_bound; [lia|]. nia.
Qed.
