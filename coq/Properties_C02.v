(* Properties_C02.v -- the C02 theorems and nothing else. *)
From Coq Require Import NArith ZArith List.
From Qv Require Import gen.Tables EscapeModel TmplModel TmplRender TmplProofs TparseModel TparseRound TrenderModel TrenderProofs TfullModel TfullSem TfullParseMain TfullMain.
Import ListNotations.

(* The renderer of the implementation layer -- a tag tree with offsets into the
   template text, literal text copied by offset arithmetic between tags,
   unresolved tags echoed as slices of the text, loop bodies / if cases /
   inline-if values rendered as sub-ranges (TmplRender.v, after the render
   functions of Template.hpp) -- applied to the printed text of ANY well-formed template AST
   yields exactly the documented expansion [expand] (TmplModel.v), for every
   value tree, character width and escape configuration.  Unbounded: induction
   on the AST.  [wf_ast]: the values of a super variable are tags, not text. *)
Theorem c02_render_tree : forall auto w root ast,
  wf_ast ast = true -> render_ast auto w root ast = expand auto w root ast.
Proof. exact render_ast_expand. Qed.
Print Assumptions c02_render_tree.

(* the well-formedness hypothesis is needed: with a text among the values of a
   super variable the two layers differ *)
Theorem c02_render_tree_needs_wf :
  let root := JObj [([97%N], JStr [123%N; 48%N; 125%N])] in
  let ast := [TSVar ([97%N], []) [TText [65%N]]] in
  render_ast false 1 root ast = print_nodes ast /\ expand false 1 root ast = [65%N].
Proof. exact render_ast_expand_needs_wf. Qed.
Print Assumptions c02_render_tree_needs_wf.

(* text without tags renders to itself *)
Theorem c02_plain_text : forall auto w root s, render_ast auto w root [TText s] = s.
Proof. intros auto w root s. rewrite (render_ast_expand auto w root [TText s] eq_refl). unfold expand. cbn. apply app_nil_r. Qed.
Print Assumptions c02_plain_text.

(* parser round trip for the leaf fragment: the parser model applied to the printed
   text of an AST of texts, {var:} and {raw:} tags (names of 1..255 units, no tag
   characters in texts and names) builds exactly the tag tree the renderer theorem
   is about; loops, ifs, math, svar and inline if: correspondence only *)
Theorem c02_parse_print_leaves : forall w ast, wf_print ast = true ->
  parse_model w (print_nodes ast) = Ok (tree_of (lay_nodes 0 ast)).
Proof. exact parse_print_leaves. Qed.
Print Assumptions c02_parse_print_leaves.

(* The C02 statement on the FAITHFUL models, end to end, for EVERY constructor of the
   template AST -- text, {var:}, {raw:}, {math:}, {svar:} with values, inline
   {if case true false}, <loop set/value/group/sort>, <if> / <else if> / <else>,
   nested to any depth: parsing the printed template with the parser model
   (TparseModel: the real scanner, stack, attribute scanners, expression parser and
   8/16-bit fields) and rendering the resulting tree with the renderer model
   (TrenderModel: slices, Level-indexed loop items, text-scanned paths, every access
   checked), instantiated with the concrete value type and an evaluator of the
   parsed expression lists, yields exactly the documented expansion -- and every
   checked access succeeds (ROk).  wf_template (boolean, extracted, measured on the
   generator's output in every run): no tag characters in texts / names, paths and
   loop heads within the 8-bit fields, naturals below 10^19, the documented
   unique-name rule for indexed paths, an <else> case last, inline-if values of text
   without a double quote / var / raw / math within the 16-bit and 255-sub-tag bounds.
   A super variable needs at least one value (value-less {svar:a} is outside the
   documented grammar; the code then looks the name up INCLUDING its closing brace),
   values that are var / raw / math tags, and a name no enclosing loop value is a
   prefix of. *)
Theorem c02_full : forall auto w root ast, wf_template ast = true ->
  render_all_jv auto w (print_nodes ast) root = ROk (expand auto w root ast).
Proof. exact TfullMain.c02_full. Qed.
Print Assumptions c02_full.

(* the same as a statement about the predicate: wf_template makes the full C02
   statement (all constructors of the template AST) true *)
Theorem c02_full_wf_template : c02_full_statement wf_template.
Proof. exact TfullMain.c02_full_wf_template. Qed.
Print Assumptions c02_full_wf_template.

Theorem c02_parse_print : forall w ast, wf_template ast = true ->
  parse_model w (print_nodes ast) = Ok (tree_of_full ast).
Proof. exact parse_print_full. Qed.
Print Assumptions c02_parse_print.
