(* Properties_C02.v -- the C02 theorems and nothing else. *)
From Coq Require Import NArith ZArith List.
From Qv Require Import gen.Tables EscapeModel TmplModel TmplRender TmplProofs TparseModel TparseRound TrenderModel TrenderProofs TfullModel TfullSem TfullParseMain TfullMain.
From Qv Require ExprModel.
From Qv Require Import ExprBridgeModel ExprBridgeProofs ExprBridgeExt ExprBridgeMain.
Import ListNotations.

(* The renderer of the implementation layer -- a tag tree with offsets into the
   template text, literal text copied by offset arithmetic between tags,
   unresolved tags echoed as slices of the text, loop bodies / if cases /
   inline-if values rendered as sub-ranges (TmplRender.v, after the render
   functions of Template.hpp) -- applied to the printed text of ANY well-formed template AST
   yields exactly the documented expansion [expand] (TmplModel.v), for every
   value tree, character width and escape configuration.  Unbounded: induction
   on the AST.  [wf_ast]: the values of a super variable are tags, not text. *)
Theorem c02_render_tree : forall auto w root ast,
  wf_ast ast = true -> render_ast auto w root ast = expand auto w root ast.
Proof. exact render_ast_expand. Qed.
Print Assumptions c02_render_tree.

(* the well-formedness hypothesis is needed: with a text among the values of a
   super variable the two layers differ *)
Theorem c02_render_tree_needs_wf :
  let root := JObj [([97%N], JStr [123%N; 48%N; 125%N])] in
  let ast := [TSVar ([97%N], []) [TText [65%N]]] in
  render_ast false 1 root ast = print_nodes ast /\ expand false 1 root ast = [65%N].
Proof. exact render_ast_expand_needs_wf. Qed.
Print Assumptions c02_render_tree_needs_wf.

(* text without tags renders to itself *)
Theorem c02_plain_text : forall auto w root s, render_ast auto w root [TText s] = s.
Proof. intros auto w root s. rewrite (render_ast_expand auto w root [TText s] eq_refl). unfold expand. cbn. apply app_nil_r. Qed.
Print Assumptions c02_plain_text.

(* parser round trip for the leaf fragment: the parser model applied to the printed
   text of an AST of texts, {var:} and {raw:} tags (names of 1..255 units, no tag
   characters in texts and names) builds exactly the tag tree the renderer theorem
   is about; loops, ifs, math, svar and inline if: correspondence only *)
Theorem c02_parse_print_leaves : forall w ast, wf_print ast = true ->
  parse_model w (print_nodes ast) = Ok (tree_of (lay_nodes 0 ast)).
Proof. exact parse_print_leaves. Qed.
Print Assumptions c02_parse_print_leaves.

(* The C02 statement on the FAITHFUL models, end to end, for EVERY constructor of the
   template AST -- text, {var:}, {raw:}, {math:}, {svar:} with values, inline
   {if case true false}, <loop set/value/group/sort>, <if> / <else if> / <else>,
   nested to any depth: parsing the printed template with the parser model
   (TparseModel: the real scanner, stack, attribute scanners, expression parser and
   8/16-bit fields) and rendering the resulting tree with the renderer model
   (TrenderModel: slices, Level-indexed loop items, text-scanned paths, every access
   checked), instantiated with the concrete value type and an evaluator of the
   parsed expression lists, yields exactly the documented expansion -- and every
   checked access succeeds (ROk).  wf_template (boolean, extracted, measured on the
   generator's output in every run): no tag characters in texts / names, paths and
   loop heads within the 8-bit fields, naturals below 10^19, the documented
   unique-name rule for indexed paths, an <else> case last, inline-if values of text
   without a double quote / var / raw / math within the 16-bit and 255-sub-tag bounds.
   A super variable needs at least one value (value-less {svar:a} is outside the
   documented grammar; the code then looks the name up INCLUDING its closing brace),
   values that are var / raw / math tags, and a name no enclosing loop value is a
   prefix of. *)
Theorem c02_full : forall auto w root ast, wf_template ast = true ->
  render_all_jv auto w (print_nodes ast) root = ROk (expand auto w root ast).
Proof. exact TfullMain.c02_full. Qed.
Print Assumptions c02_full.

(* the same as a statement about the predicate: wf_template makes the full C02
   statement (all constructors of the template AST) true *)
Theorem c02_full_wf_template : c02_full_statement wf_template.
Proof. exact TfullMain.c02_full_wf_template. Qed.
Print Assumptions c02_full_wf_template.

Theorem c02_parse_print : forall w ast, wf_template ast = true ->
  parse_model w (print_nodes ast) = Ok (tree_of_full ast).
Proof. exact parse_print_full. Qed.
Print Assumptions c02_parse_print.

(* ---- bridge to the faithful expression evaluator (coq/ExprModel.v, the model of QExpression evaluation that the
        C04 correspondence ties to the C++): on the boolean domain check [bridge_dom] (shape: one operand, or
        a <op> b with op one of + - * == != < > <= >= && ||, operands natural literals, variables or parenthesised
        pairs; every variable read is an integer in (-2^63, 2^63), a boolean, null, or a string both readers take the
        same way; no result leaves (-2^63, 2^63)) the evaluator of c02_full and ExprModel.eval_items agree:
        Some z <-> Ok of the Natural / Integer z, None <-> NoValue.  Outside the domain (real variables, strings
        such as -3 or 1.5, overflow, / % ^ & |) the two differ and c02_full speaks about q_top only. ---- *)
Theorem c02_bridge_q_top : forall content root items l d,
  bridge_dom content root items l = true -> qdepth_list l <= d ->
  rel (q_top content root items l) (ExprModel.eval_items (benv content root items l) d (to_items content l)).
Proof. exact bridge_q_top. Qed.
Print Assumptions c02_bridge_q_top.

(* the expression lists the parser model builds for the fragment of c02_full have the bridge's shape: what is left
   of the domain check depends on run-time values only *)
Theorem c02_bridge_shape : forall names env off e, wf_expr names e = true -> q_shape (qexpr_of env off e) = true.
Proof. exact qexpr_of_shape. Qed.
Print Assumptions c02_bridge_shape.

(* c02_full read with the faithful evaluator plugged into the renderer wherever the domain check passes *)
Theorem c02_full_faithful_eval : forall auto w root ast, wf_template ast = true ->
  render_all_faithful auto w (print_nodes ast) root = ROk (expand auto w root ast).
Proof. exact ExprBridgeMain.c02_full_faithful_eval. Qed.
Print Assumptions c02_full_faithful_eval.
