(* HtabProofsOps2.v -- C13: growth, Insert (insert or replace), Get (get or create),
   Remove / RemoveIndex (unlink + tombstone), and the lookups. *)
From Coq Require Import List NArith Arith Bool Lia ZifyBool ZifyNat ZifyN.
From Qv Require Import HtabModel HtabProofsBase HtabProofsInv HtabProofsOps.
Import ListNotations.

Lemma filter_length_le {A} (p : A -> bool) (l : list A) : length (filter p l) <= length l.
Proof. induction l as [|a l IH]; simpl; auto. destruct (p a); simpl; lia. Qed.

Lemma NoDup_app_parts {A} (a b : list A) x :
  NoDup (a ++ x :: b) -> NoDup a /\ NoDup b /\ ~ In x a /\ ~ In x b /\ (forall y, In y a -> ~ In y b) /\ NoDup (a ++ b).
Proof.
  induction a as [|z a IH]; simpl; intros Hnd.
  - inversion Hnd as [|? ? Hx Hb]; subst. split; [constructor|]. split; [exact Hb|]. split; [intros []|]. split; [exact Hx|]. split; [intros y []|exact Hb].
  - inversion Hnd as [|? ? Hz Hr]; subst. destruct (IH Hr) as (Ha & Hb & Hxa & Hxb & Hd & Hab).
    assert (Hza : ~ In z a) by (intros Hin; apply Hz; apply in_or_app; auto).
    assert (Hzb : ~ In z b) by (intros Hin; apply Hz; apply in_or_app; right; right; exact Hin).
    assert (Hzx : z <> x) by (intros ->; apply Hz; apply in_or_app; right; left; reflexivity).
    split; [constructor; auto|]. split; [exact Hb|]. split; [intros [E|Hin]; [apply Hzx; exact E|contradiction]|].
    split; [exact Hxb|]. split.
    + intros y [<-|Hy]; [exact Hzb|apply Hd; exact Hy].
    + constructor; [|exact Hab]. intros Hin. apply in_app_or in Hin. tauto.
Qed.

Section Ops2.
Context {K V : Type}.
Variable keqb : K -> K -> bool.
Variable H : K -> N.
Variable kdef : K.
Variable vdef : V.
Hypothesis keqb_spec : forall a b, keqb a b = true <-> a = b.
Hypothesis H_nz : forall k, H k <> 0%N.

Notation ht := (ht K V).
Notation item := (item K V).
Notation it := (@it K V kdef vdef).
Notation rd_link := (@rd_link K V kdef vdef).
Notation wr_link := (@wr_link K V kdef vdef).
Notation set_val := (@set_val K V kdef vdef).
Notation set_item := (@set_item K V).
Notation insert_item := (@insert_item K V kdef vdef).
Notation resize := (@resize K V kdef vdef).
Notation expand := (@expand K V kdef vdef).
Notation grow_if_full := (@grow_if_full K V kdef vdef).
Notation find_key := (@find_key K V keqb kdef vdef).
Notation insert := (@insert K V keqb H kdef vdef).
Notation get := (@get K V keqb H kdef vdef).
Notation remove_h := (@remove_h K V keqb kdef vdef).
Notation remove := (@remove K V keqb H kdef vdef).
Notation remove_index := (@remove_index K V keqb kdef vdef).
Notation lookup := (@lookup K V keqb H kdef vdef).
Notation get_key_index := (@get_key_index K V keqb H kdef vdef).
Notation get_slot := (@get_slot K V kdef vdef).
Notation tomb := (@tomb K V kdef vdef).
Notation Seg := (@Seg K V kdef vdef).
Notation Inv := (@Inv K V H kdef vdef).
Notation items_ok := (@items_ok K V H).
Notation hash_ok := (@hash_ok K V H).
Notation bucket_chain := (@bucket_chain K V kdef vdef).
Notation live_at := (@live_at K V kdef vdef).
Notation live_l := (@live_l K V).
Notation kv := (@kv K V).
Notation no_dead := (@no_dead K V).
Local Notation Inv_empty := (@Inv_empty K V keqb H kdef vdef).
Local Notation Inv_bucket_lt := (@Inv_bucket_lt K V keqb H kdef vdef).
Local Notation live_item_iff := (@live_item_iff K V keqb H kdef vdef).
Local Notation items_ok_idx := (@items_ok_idx K V keqb H kdef vdef).
Local Notation bucket_chain_frame := (@bucket_chain_frame K V keqb H kdef vdef).
Local Notation link_end_step := (@link_end_step K V keqb H kdef vdef).
Local Notation matches_iff := (@matches_iff K V keqb H kdef vdef keqb_spec H_nz).
Local Notation find_key_inv := (@find_key_inv K V keqb H kdef vdef keqb_spec H_nz).
Local Notation live_is_live_l := (@live_is_live_l K V keqb H kdef vdef keqb_spec H_nz).
Local Notation live_l_app := (@live_l_app K V keqb H kdef vdef keqb_spec H_nz).
Local Notation keqb_refl := (@keqb_refl K V keqb H kdef vdef keqb_spec H_nz).
Local Notation keqb_neq := (@keqb_neq K V keqb H kdef vdef keqb_spec H_nz).
Local Notation sp_get_none := (@sp_get_none K V keqb H kdef vdef keqb_spec H_nz).
Local Notation sp_get_found := (@sp_get_found K V keqb H kdef vdef keqb_spec H_nz).
Local Notation sp_index_none := (@sp_index_none K V keqb H kdef vdef keqb_spec H_nz).
Local Notation sp_index_found := (@sp_index_found K V keqb H kdef vdef keqb_spec H_nz).
Local Notation sp_put_fresh := (@sp_put_fresh K V keqb H kdef vdef keqb_spec H_nz).
Local Notation sp_put_found := (@sp_put_found K V keqb H kdef vdef keqb_spec H_nz).
Local Notation sp_remove_none := (@sp_remove_none K V keqb H kdef vdef keqb_spec H_nz).
Local Notation sp_remove_found := (@sp_remove_found K V keqb H kdef vdef keqb_spec H_nz).
Local Notation sp_rekey_found := (@sp_rekey_found K V keqb H kdef vdef keqb_spec H_nz).
Local Notation In_nth_lt := (@In_nth_lt K V keqb H kdef vdef keqb_spec H_nz).
Local Notation split_at := (@split_at K V keqb H kdef vdef keqb_spec H_nz).
Local Notation no_key_before := (@no_key_before K V keqb H kdef vdef keqb_spec H_nz).
Local Notation no_key_all := (@no_key_all K V keqb H kdef vdef keqb_spec H_nz).
Local Notation live_l_replace := (@live_l_replace K V keqb H kdef vdef keqb_spec H_nz).
Local Notation live_upd_same := (@live_upd_same K V keqb H kdef vdef keqb_spec H_nz).
Local Notation live_wr := (@live_wr K V keqb H kdef vdef keqb_spec H_nz).
Local Notation hash_ok_it := (@hash_ok_it K V keqb H kdef vdef keqb_spec H_nz).
Local Notation items_ok_wr := (@items_ok_wr K V keqb H kdef vdef keqb_spec H_nz).
Local Notation set_val_inv := (@set_val_inv K V keqb H kdef vdef keqb_spec H_nz).
Local Notation insert_item_inv := (@insert_item_inv K V keqb H kdef vdef keqb_spec H_nz).
Local Notation gh_step_inv := (@gh_step_inv K V keqb H kdef vdef keqb_spec H_nz).
Local Notation gh_loop_inv := (@gh_loop_inv K V keqb H kdef vdef keqb_spec H_nz).
Local Notation live_of_fields := (@live_of_fields K V keqb H kdef vdef keqb_spec H_nz).
Local Notation hash_ok_of_fields := (@hash_ok_of_fields K V keqb H kdef vdef keqb_spec H_nz).
Local Notation generate_hash_inv := (@generate_hash_inv K V keqb H kdef vdef keqb_spec H_nz).
Local Notation live_filter := (@live_filter K V keqb H kdef vdef keqb_spec H_nz).
Local Notation no_dead_fields := (@no_dead_fields K V keqb H kdef vdef keqb_spec H_nz).
Local Notation resize_inv := (@resize_inv K V keqb H kdef vdef keqb_spec H_nz).
Local Set Default Proof Using "All".

Lemma live_length_le (s : ht) : length (live s) <= size s.
Proof. unfold live, size. rewrite map_length. apply filter_length_le. Qed.

Lemma no_dead_live_length (s : ht) : no_dead s -> length (live s) = size s.
Proof.
  unfold HtabProofsOps.no_dead, live, size. rewrite map_length. induction (items s) as [|x l IH]; intros Hf; simpl; auto.
  inversion Hf as [|? ? Hx Hl]; subst. rewrite Hx. simpl. f_equal. apply IH. exact Hl.
Qed.

(* ---------- expand when full ---------- *)
Lemma grow_if_full_inv s :
  Inv s ->
  exists s1, grow_if_full s = Some s1 /\ Inv s1 /\ live s1 = live s /\ size s1 < cap s1 /\
             (no_dead s -> no_dead s1).
Proof.
  intros HI. unfold HtabModel.grow_if_full. destruct (size s =? cap s) eqn:E.
  - apply Nat.eqb_eq in E. unfold HtabModel.expand.
    set (n := ((if cap s =? 0 then 1 else 0) + cap s) * 2).
    assert (Hn : 1 <= n /\ cap s < n) by (unfold n; destruct (cap s =? 0) eqn:E0; [apply Nat.eqb_eq in E0|]; lia).
    clearbody n.
    pose proof (live_length_le s) as Hle.
    destruct (resize_inv n s (inv_items _ _ _ _ HI) (proj1 Hn) ltac:(lia)) as (s' & Hr & HI' & Hl & Hc & Hs & Hnd).
    exists s'. split; [exact Hr|]. split; [exact HI'|]. split; [exact Hl|]. split; [|intros _; exact Hnd].
    rewrite Hs, Hc. destruct (alloc_cap_spec n (proj1 Hn)) as (_ & Hge). lia.
  - apply Nat.eqb_neq in E. exists s. split; [reflexivity|]. split; [exact HI|]. split; [reflexivity|].
    split; [|auto]. pose proof (inv_size _ _ _ _ HI). lia.
Qed.

Lemma sp_put_absent its k v : no_key its k -> sp_put keqb (live_l its) k v = live_l its ++ [(k, v)].
Proof.
  intros Hn. rewrite (sp_put_fresh its k v (mkItem k (H k) 0 v) Hn).
  - rewrite live_l_app. f_equal. unfold HtabProofsInv.live_l. simpl.
    assert (E : live_item (mkItem k (H k) 0 v) = true) by (apply live_item_iff; simpl; apply H_nz).
    rewrite E. reflexivity.
  - apply live_item_iff. simpl. apply H_nz.
  - reflexivity.
Qed.

Lemma no_dead_set_val s i v : i < size s -> live_at s i -> no_dead s -> no_dead (set_val s i v).
Proof.
  intros Hi Hl Hnd. unfold HtabProofsOps.no_dead in *. simpl. apply Forall_upd; auto.
  apply live_item_iff. exact Hl.
Qed.
Lemma no_dead_wr s l v : no_dead s -> no_dead (wr_link s l v).
Proof.
  intros Hnd. destruct l as [b|p]; [exact Hnd|]. unfold HtabProofsOps.no_dead in *. simpl.
  destruct (Nat.lt_ge_cases p (size s)) as [Hp|Hp].
  - apply Forall_upd; auto. rewrite Forall_forall in Hnd. apply (Hnd (it s p)). apply nth_In. exact Hp.
  - rewrite upd_out by exact Hp. exact Hnd.
Qed.

(* ---------- Insert: insert or replace ---------- *)
Lemma insert_refines k v s :
  Inv s ->
  exists s', insert k v s = Some s' /\ Inv s' /\ live s' = sp_put keqb (live s) k v /\
             (no_dead s -> no_dead s').
Proof.
  intros HI. unfold HtabModel.insert.
  destruct (grow_if_full_inv s HI) as (s1 & -> & HI1 & Hl1 & Hlt & Hnd1).
  assert (Hc : 0 < cap s1) by lia.
  destruct (find_key_inv s1 k HI1 Hc) as (c & Hbc & [(pre & i & post & -> & Hi & Hli & Hk & ->)|(Hno & ->)]).
  - destruct (set_val_inv s1 i v HI1 Hi Hli) as (HI' & Hl' & _ & _).
    eexists. split; [reflexivity|]. split; [exact HI'|]. split; [rewrite Hl', Hk, Hl1; reflexivity|].
    intros Hnd. apply no_dead_set_val; auto.
  - destruct (insert_item_inv s1 k v c HI1 Hlt Hbc Hno) as (HI' & Hl' & _ & _ & _ & _).
    eexists. split; [reflexivity|]. split; [exact HI'|]. split.
    + rewrite Hl', <- Hl1, !live_is_live_l. symmetry. apply sp_put_absent. apply no_key_all. exact Hno.
    + intros Hnd. unfold HtabModel.insert_item. apply no_dead_wr. unfold HtabProofsOps.no_dead. simpl.
      apply Forall_app. split; [apply Hnd1; exact Hnd|]. constructor; [|constructor].
      apply live_item_iff. simpl. apply H_nz.
Qed.

(* ---------- Get / operator[] / HList::Insert: get or create ---------- *)
Lemma get_refines k s :
  Inv s ->
  exists s' i, get k s = Some (s', i) /\ Inv s' /\ live s' = sp_getc keqb vdef (live s) k /\
               i < size s' /\ live_at s' i /\ ikey (it s' i) = k /\
               ival (it s' i) = (match sp_get keqb (live s) k with Some x => x | None => vdef end) /\
               (no_dead s -> no_dead s').
Proof.
  intros HI. unfold HtabModel.get.
  destruct (grow_if_full_inv s HI) as (s1 & -> & HI1 & Hl1 & Hlt & Hnd1).
  assert (Hc : 0 < cap s1) by lia.
  destruct (find_key_inv s1 k HI1 Hc) as (c & Hbc & [(pre & i & post & -> & Hi & Hli & Hk & ->)|(Hno & ->)]).
  - assert (Hg : sp_get keqb (live s) k = Some (ival (it s1 i))).
    { rewrite <- Hl1, live_is_live_l. rewrite (split_at s1 i Hi). apply sp_get_found; auto.
      - eapply no_key_before; eauto. apply (inv_items _ _ _ _ HI1).
      - apply live_item_iff. exact Hli. }
    exists s1, i. split; [reflexivity|]. split; [exact HI1|]. split.
    + unfold sp_getc, sp_has. rewrite Hg. exact Hl1.
    + rewrite Hg. repeat split; auto.
  - assert (Hg : sp_get keqb (live s) k = None).
    { rewrite <- Hl1, live_is_live_l. apply sp_get_none. apply no_key_all. exact Hno. }
    destruct (insert_item_inv s1 k vdef c HI1 Hlt Hbc Hno) as (HI' & Hl' & _ & Hsz' & Hk' & Hv').
    eexists. exists (size s1). split; [reflexivity|]. split; [exact HI'|]. split.
    + unfold sp_getc, sp_has. rewrite Hg. rewrite Hl', Hl1. reflexivity.
    + rewrite Hg. split; [rewrite Hsz'; lia|]. split.
      * unfold HtabProofsInv.live_at.
        destruct (it_wr_fields kdef vdef (mkHt (cap s1) (heads s1) (items s1 ++ [mkItem k (H k) 0 vdef]))
                    (link_after (Head (bucket (cap s1) (H k))) c) (S (size s1)) (size s1)) as (_ & E & _).
        unfold HtabModel.insert_item. rewrite E. unfold HtabModel.it. simpl. rewrite app_nth2 by (unfold size; lia).
        unfold size. rewrite Nat.sub_diag. simpl. apply H_nz.
      * split; [exact Hk'|]. split; [exact Hv'|].
        intros Hnd. unfold HtabModel.insert_item. apply no_dead_wr. unfold HtabProofsOps.no_dead. simpl.
        apply Forall_app. split; [apply Hnd1; exact Hnd|]. constructor; [|constructor].
        apply live_item_iff. simpl. apply H_nz.
Qed.

(* ---------- remove: unlink, then tombstone ---------- *)
Lemma NoDup_keys_sp_remove (l : list (K * V)) k : NoDup (map fst l) -> NoDup (map fst (sp_remove keqb l k)).
Proof.
  assert (Hin : forall (l : list (K * V)) x, In x (map fst (sp_remove keqb l k)) -> In x (map fst l)).
  { clear. induction l as [|(k', v') r IH]; intros x Hx; simpl in *; auto.
    destruct (keqb k' k); simpl in *; auto. destruct Hx as [Hx|Hx]; auto. }
  induction l as [|(k', v') r IH]; intros Hnd; simpl in *; [constructor|].
  inversion Hnd as [|? ? Hni Hr]; subst.
  destruct (keqb k' k); simpl; [exact Hr|]. constructor; [|apply IH; exact Hr].
  intros Hx. apply Hni. apply Hin. exact Hx.
Qed.

Lemma unlink_inv s k pre i post :
  Inv s -> 0 < cap s ->
  bucket_chain s (size s) (bucket (cap s) (H k)) (pre ++ i :: post) ->
  i < size s -> live_at s i -> ikey (it s i) = k ->
  let s2 := set_item (wr_link s (link_after (Head (bucket (cap s) (H k))) pre) (inext (it s i))) i tomb in
  Inv s2 /\ live s2 = sp_remove keqb (live s) k.
Proof.
  intros HI Hc Hbc Hi Hl Hk. set (b := bucket (cap s) (H k)) in *.
  set (L := link_after (Head b) pre). set (s1 := wr_link s L (inext (it s i))). intros s2.
  destruct HI as [Hcap Hhd Hsize Hok Hch].
  destruct Hbc as (Hseg & Hnd & Hmem & Hcomp).
  destruct (NoDup_app_parts pre post i Hnd) as (Hndpre & Hndpost & Hipre & Hipost & Hdisj & Hndpp).
  assert (Hb : b < cap s).
  { destruct Hcap as [E|(n & E)]; [lia|]. unfold b. rewrite E. apply bucket_lt. }
  apply Seg_app in Hseg. destruct Hseg as (m & Hsegpre & Hsegi).
  destruct Hsegi as (Hm & _ & Hsegpost).
  assert (Hsz1 : size s1 = size s) by (unfold s1; apply size_wr).
  assert (Hsz2 : size s2 = size s) by (unfold s2, size; simpl; rewrite length_upd; exact Hsz1).
  assert (Hfld1 : forall j, ikey (it s1 j) = ikey (it s j) /\ ihash (it s1 j) = ihash (it s j) /\ ival (it s1 j) = ival (it s j))
    by (intros j; apply (it_wr_fields kdef vdef s L (inext (it s i)) j)).
  assert (Hit2 : forall j, j <> i -> it s2 j = it s1 j).
  { intros j Hj. unfold s2, HtabModel.it, set_item. simpl. apply nth_upd_other. auto. }
  assert (Hit2i : it s2 i = tomb).
  { unfold s2, HtabModel.it, set_item. simpl. apply nth_upd_same. fold (size s1). lia. }
  (* L is the head of b or the Next field of a member of pre *)
  assert (HL : L = Head b \/ exists p, In p pre /\ L = NextOf p).
  { unfold L. destruct pre as [|p0 pre0]; [left; reflexivity|right].
    destruct (link_after_in (Head b) (p0 :: pre0) ltac:(discriminate)) as (p & Hp & E). exists p. auto. }
  assert (Hnext1 : forall j, ~ In j pre -> inext (it s1 j) = inext (it s j)).
  { intros j Hj. unfold s1. apply it_wr_next_other. destruct HL as [->|(p & Hp & ->)]; [discriminate|].
    intros E. inversion E; subst. contradiction. }
  assert (Hbi : bucket (cap s) (ihash (it s i)) = b).
  { apply Hmem. apply in_or_app. right. left. reflexivity. }
  assert (Hlive : live s2 = sp_remove keqb (live s) k).
  { assert (Hi1 : i < size s1) by lia.
    rewrite <- (live_wr s L (inext (it s i))). fold s1. rewrite !live_is_live_l.
    unfold s2, set_item. simpl. rewrite upd_split by exact Hi1. rewrite (split_at s1 i Hi1) at 3.
    symmetry. apply sp_remove_found.
    - apply (no_key_before s1 i k); auto.
      + unfold s1. apply items_ok_wr. exact Hok.
      + unfold HtabProofsInv.live_at. destruct (Hfld1 i) as (_ & -> & _). exact Hl.
      + destruct (Hfld1 i) as (-> & _). exact Hk.
    - apply live_item_iff. destruct (Hfld1 i) as (_ & -> & _). exact Hl.
    - destruct (Hfld1 i) as (-> & _). exact Hk.
    - reflexivity. }
  assert (Hcap2 : cap s2 = cap s) by (unfold s2; simpl; unfold s1; apply cap_wr).
  split; [|exact Hlive].
  split.
  - rewrite Hcap2. exact Hcap.
  - rewrite Hcap2. unfold s2. simpl. unfold s1. rewrite heads_len_wr. exact Hhd.
  - rewrite Hsz2, Hcap2. exact Hsize.
  - split.
    + unfold s2. simpl. apply Forall_upd.
      * apply (items_ok_wr s L (inext (it s i)) Hok).
      * intros Hx. discriminate.
    + rewrite Hlive. apply NoDup_keys_sp_remove. exact (proj2 Hok).
  - intros b' Hb'. rewrite Hcap2 in Hb'. rewrite Hsz2.
    destruct (Nat.eq_dec b' b) as [->|Hne].
    + exists (pre ++ post). split; [|split; [exact Hndpp|split]].
      * (* the chain *)
        assert (Hs1 : Seg s1 (nth b (heads s1) 0) (pre ++ post) 0).
        { apply Seg_app. exists (inext (it s i)). split.
          - change (nth b (heads s1) 0) with (rd_link s1 (Head b)). unfold s1, L.
            apply Seg_wr with (m := m); auto.
            + simpl. rewrite Hhd. exact Hb.
            + intros p Hp. discriminate.
          - eapply Seg_frame; [|exact Hsegpost]. intros j Hj Hlt. split; [lia|].
            apply Hnext1. intros Hjp. apply (Hdisj j Hjp Hj). }
        change (nth b (heads s2) 0) with (nth b (heads s1) 0).
        eapply Seg_frame; [|exact Hs1]. intros j Hj Hlt. split; [lia|].
        rewrite Hit2; [reflexivity|]. intros ->. apply in_app_or in Hj. tauto.
      * intros j Hj.
        assert (Hji : j <> i) by (intros ->; apply in_app_or in Hj; tauto).
        assert (Hj' : In j (pre ++ i :: post)).
        { apply in_app_or in Hj. apply in_or_app. destruct Hj; [left|right; right]; auto. }
        destruct (Hmem j Hj') as (Hlt & Hbj). split; [exact Hlt|].
        rewrite Hcap2, Hit2 by exact Hji. destruct (Hfld1 j) as (_ & -> & _). exact Hbj.
      * intros j Hj Hlj Hbj.
        assert (Hji : j <> i).
        { intros ->. unfold HtabProofsInv.live_at in Hlj. rewrite Hit2i in Hlj. apply Hlj. reflexivity. }
        unfold HtabProofsInv.live_at in Hlj. rewrite Hcap2, Hit2 in Hbj by exact Hji. rewrite Hit2 in Hlj by exact Hji.
        destruct (Hfld1 j) as (_ & E & _). rewrite E in Hbj, Hlj.
        specialize (Hcomp j Hj Hlj Hbj). apply in_app_or in Hcomp. apply in_or_app.
        destruct Hcomp as [Hc1|[Hc1|Hc1]]; [left; exact Hc1|congruence|right; exact Hc1].
    + destruct (Hch b' Hb') as (c' & Hseg' & Hnd' & Hmem' & Hcomp').
      assert (Hic' : ~ In i c').
      { intros Hin. destruct (Hmem' i Hin) as (_ & E). congruence. }
      exists c'. split; [|split; [exact Hnd'|split]].
      * assert (Hhd' : nth b' (heads s2) 0 = nth b' (heads s) 0).
        { change (nth b' (heads s2) 0) with (rd_link s1 (Head b')). change (nth b' (heads s) 0) with (rd_link s (Head b')).
          unfold s1. apply rd_wr_other. destruct HL as [->|(p & _ & ->)]; [|discriminate].
          intros E. inversion E. auto. }
        rewrite Hhd'. eapply Seg_frame; [|exact Hseg']. intros j Hj Hlt. split; [lia|].
        rewrite Hit2 by (intros ->; contradiction).
        apply Hnext1. intros Hjp.
        assert (Hj' : In j (pre ++ i :: post)) by (apply in_or_app; auto).
        destruct (Hmem j Hj') as (_ & B1). destruct (Hmem' j Hj) as (_ & B2). congruence.
      * intros j Hj. destruct (Hmem' j Hj) as (Hlt & Hbj). split; [exact Hlt|].
        rewrite Hcap2, Hit2 by (intros ->; contradiction). destruct (Hfld1 j) as (_ & -> & _). exact Hbj.
      * intros j Hj Hlj Hbj.
        assert (Hji : j <> i).
        { intros ->. unfold HtabProofsInv.live_at in Hlj. rewrite Hit2i in Hlj. apply Hlj. reflexivity. }
        unfold HtabProofsInv.live_at in Hlj. rewrite Hcap2, Hit2 in Hbj by exact Hji. rewrite Hit2 in Hlj by exact Hji.
        destruct (Hfld1 j) as (_ & E & _). rewrite E in Hbj, Hlj. apply Hcomp'; auto.
Qed.

Lemma live_nil_of_size0 (s : ht) : size s = 0 -> live s = [].
Proof. unfold size, live. destruct (items s); simpl; [reflexivity|discriminate]. Qed.

Lemma remove_refines k s :
  Inv s ->
  exists s', remove k s = Some s' /\ Inv s' /\ live s' = sp_remove keqb (live s) k /\
             (sp_has keqb (live s) k = false -> s' = s).
Proof.
  intros HI. unfold HtabModel.remove, HtabModel.remove_h. destruct (size s =? 0) eqn:E0.
  - apply Nat.eqb_eq in E0. exists s. split; [reflexivity|]. split; [exact HI|].
    rewrite (live_nil_of_size0 s E0). auto.
  - apply Nat.eqb_neq in E0. pose proof (inv_size _ _ _ _ HI) as Hsz.
    assert (Hc : 0 < cap s) by lia.
    destruct (find_key_inv s k HI Hc) as (c & Hbc & [(pre & i & post & -> & Hi & Hli & Hk & ->)|(Hno & ->)]).
    + destruct (unlink_inv s k pre i post HI Hc Hbc Hi Hli Hk) as (HI' & Hl').
      eexists. split; [reflexivity|]. split; [exact HI'|]. split; [exact Hl'|].
      intros Hhas. exfalso. unfold sp_has in Hhas.
      rewrite live_is_live_l, (split_at s i Hi) in Hhas.
      rewrite sp_get_found in Hhas; [discriminate| |apply live_item_iff; exact Hli|exact Hk].
      eapply no_key_before; eauto. apply (inv_items _ _ _ _ HI).
    + exists s. split; [reflexivity|]. split; [exact HI|]. split; [|auto].
      rewrite live_is_live_l. symmetry. apply sp_remove_none. apply no_key_all. exact Hno.
Qed.

End Ops2.
