(* LedgerValueModel.v -- C16, phase 2: an OWNERSHIP model of Value trees (Include/Value.hpp with
   HArray.hpp / HashTable.hpp, Array.hpp, String.hpp underneath), as the code stands after the repairs
   D29, D40v, D42v, D43v, D52, D63.  Definitions only.

   It is independent of coq/ValueModel.v (the C12 model: an abstract JSON document, no heap): here a value
   is described ONLY by what it owns.
     heap    [vheap]: which block ids are live, and the next id to hand out.  [vfree] of a block that is not
             live is Error UAF; [check_live] (a read through a pointer) of a dead block is Error UAF.
     value   [Node tag own kids]:
               TObj          own = the HArray storage block (hash table + items; [] while capacity is 0),
                             kids = the item slots in storage order: [Node (TItem key) [key block] [value]]
                             or [Node TTomb [] []] (a removed item: Hash = 0, Key and Value cleared)
               TArr          own = the element block ([] while capacity is 0), kids = the elements
                             (a removed element is an Undefined value in place)
               TStr          own = the character block, no kids
               TPtr n        a pointer to another value: owns nothing
               TScalar / TUndef   numbers, true, false, null / undefined: own nothing
               TRoot         the pool: kids = the variables
     target  a path (child indices) from the root; an operation acts on a VALUE POSITION (a variable, an
             array element, the value of an item).  A step through an object is two indices (item, 0).
   Every operation is tree surgery + releases + fresh allocations in the ORDER OF THE C++:
     [apply_local]   read what is needed, allocate the copies, then release what the target loses
                     (Value::operator=(const Value&): "Copy first: val can be a member of this value")
     [apply_absorb]  detach the source first, then release what the target loses, then adopt
                     (Value::operator=(Value&&): "Detach the content first")
   When storage is reallocated is capacity policy: growth / compaction operations carry a flag chosen by the
   history (both choices are covered; in the correspondence run tools/props/ledgervalue.py the flag is what the
   C++ did: the capacity of the target changed).  A reallocation of an object's storage drops its tombstones.

   Operation set and its C++ / C12 (ocaml/value.ml history codes) counterpart:
     OSetScalar t          *t = number / bool / null                      (C12 op 1, kinds 0..5)
     OSetStr t len         *t = string of length len                      (C12 op 1, kind 6)
     OSetPtr t n           t->SetPointerToValue(pool value n)             (C12 op 14)
     OInsert t key grow    t[key]  get-or-create a member                (C12 op 2)
     OAppend t grow        t += scalar / t[Size()]                        (C12 ops 3, 4, 15)
     OAppendVal d s mv g   *d += *s / *d += Move(s) as ONE element (non-object pair)   (C12 op 5)
     OAssign d s mv        *d = *s  /  *d = Move(s); s may be a member of d (D40), d a member of s (copy only)  (C12 ops 12, 13)
     OMerge d s mv grow    d->Merge(s) / d->Merge(Move(s)); object += object (C12 ops 5, 6)
     ORemove t k           t->RemoveIndex(k) / Remove(key of slot k)      (C12 ops 8, 9)
     OCompress t re        one level of t->Compress(): Value::Compress is this at t, then at every array /
                           object child, recursively                       (C12 op 11)
     OReset t              t->Reset()                                     (C12 op 10)
     [destroy_all]         ~Value of every variable. *)
From Coq Require Import NArith List Arith Bool.
From Qv Require Import SeqModel.
Import ListNotations.

Inductive tag := TRoot | TUndef | TScalar | TPtr (n : nat) | TStr | TArr | TObj | TItem (key : nat) | TTomb.
Inductive val := Node (t : tag) (own : list nat) (kids : list val).

Definition vtag (v : val) := match v with Node t _ _ => t end.
Definition vown (v : val) := match v with Node _ o _ => o end.
Definition vkids (v : val) := match v with Node _ _ k => k end.
Definition undef : val := Node TUndef [] [].
Definition scalar : val := Node TScalar [] [].

(* the blocks a value owns, in destruction order (members first, then its own storage) *)
Fixpoint blocks (v : val) : list nat :=
  match v with Node _ own kids => flat_map blocks kids ++ own end.

(* ---------- heap ---------- *)
Record vheap := mkVH { live : nat -> bool; nxt : nat }.
Definition vheap0 : vheap := mkVH (fun _ => false) 0.

Definition valloc_n (h : vheap) (n : nat) : vheap :=
  mkVH (fun x => ((nxt h <=? x) && (x <? nxt h + n)) || live h x) (nxt h + n).

Definition vfree (h : vheap) (b : nat) : res vheap :=
  if live h b then Ok (mkVH (fun x => if x =? b then false else live h x) (nxt h)) else Error UAF.

Fixpoint vfree_list (h : vheap) (l : list nat) : res vheap :=
  match l with [] => Ok h | b :: r => h1 <- vfree h b ;; vfree_list h1 r end.

Fixpoint check_live (h : vheap) (l : list nat) : res unit :=
  match l with [] => Ok tt | b :: r => if live h b then check_live h r else Error UAF end.

Definition live_ids (h : vheap) : list nat := filter (live h) (seq 0 (nxt h)).

(* ---------- paths ---------- *)
Fixpoint replace_nth {T} (l : list T) (k : nat) (x : T) : list T :=
  match l, k with
  | [], _ => []
  | _ :: r, 0 => x :: r
  | a :: r, S k' => a :: replace_nth r k' x
  end.

Fixpoint vget (v : val) (p : list nat) : option val :=
  match p with
  | [] => Some v
  | k :: r => match nth_error (vkids v) k with Some c => vget c r | None => None end
  end.

(* replace the subtree at p (unchanged when the path does not resolve) *)
Fixpoint vset (v : val) (p : list nat) (x : val) : val :=
  match p with
  | [] => x
  | k :: r => match nth_error (vkids v) k with
              | Some c => Node (vtag v) (vown v) (replace_nth (vkids v) k (vset c r x))
              | None => v
              end
  end.

(* p names a value position: a variable, an array element, or the value of an item *)
Definition holds_values (t : tag) : bool :=
  match t with TRoot | TArr | TItem _ => true | _ => false end.
Definition vpos (root : val) (p : list nat) : bool :=
  match rev p with
  | [] => false
  | _ :: rq => match vget root (rev rq) with Some par => holds_values (vtag par) | None => false end
  end.

(* ---------- copies ---------- *)
(* the shape of a copy (placeholder ids): HashTable::copyTable keeps the live items and allocates when the
   source has slots; Array's copy allocates when there are elements; String's copy always allocates *)
Definition is_tomb (v : val) : bool := match vtag v with TTomb => true | _ => false end.
Fixpoint norm (v : val) : val :=
  match v with
  | Node t own kids =>
      let nk := (fix go (l : list val) : list val :=
                   match l with
                   | [] => []
                   | c :: r => if is_tomb c then go r else norm c :: go r
                   end) kids in
      match t with
      | TObj => Node TObj (match kids with [] => [] | _ => [0] end) nk
      | TArr => Node TArr (match kids with [] => [] | _ => [0] end) nk
      | TStr => Node TStr [0] []
      | TItem k => Node (TItem k) own nk
      | _ => Node t [] []
      end
  end.

(* give every block of a shape a fresh id, in destruction order, starting at n *)
Fixpoint relabel (n : nat) (v : val) : nat * val :=
  match v with
  | Node t own kids =>
      let '(n1, kids') := (fix go (n : nat) (l : list val) : nat * list val :=
                             match l with
                             | [] => (n, [])
                             | c :: r => let '(n1, c') := relabel n c in
                                         let '(n2, r') := go n1 r in (n2, c' :: r')
                             end) n kids in
      (n1 + length own, Node t (seq n1 (length own)) kids')
  end.

Definition copy_of (n : nat) (v : val) : val := snd (relabel n (norm v)).

(* ---------- the two ways an operation touches the state ---------- *)
Definition vstate := (vheap * val)%type.

(* a local change of the node at the target: (new node, number of fresh blocks it uses, blocks it releases) *)
Definition local := nat -> val -> val * nat * list nat.

(* reads: blocks read before anything is released (the source of a copy) *)
Definition apply_local (st : vstate) (p : list nat) (reads : list nat) (f : local) : res vstate :=
  let '(h, root) := st in
  if vpos root p then
    match vget root p with
    | Some c =>
        _ <- check_live h reads ;;
        let '(c', k, rem) := f (nxt h) c in
        h2 <- vfree_list (valloc_n h k) rem ;;
        Ok (h2, vset root p c')
    | None => Ok st
    end
  else Ok st.

(* detach the source s (it becomes Undefined), then change the node at d using the detached tree *)
Definition absorb := val -> nat -> val -> val * nat * list nat.
Definition apply_absorb (st : vstate) (d s : list nat) (g : absorb) : res vstate :=
  let '(h, root) := st in
  if vpos root d && vpos root s then
    match vget root s with
    | Some sub =>
        _ <- check_live h (vown sub) ;;
        let root1 := vset root s undef in
        match vget root1 d with
        | Some c =>
            let '(c', k, rem) := g sub (nxt h) c in
            h2 <- vfree_list (valloc_n h k) rem ;;
            Ok (h2, vset root1 d c')
        | None => Ok st        (* d lies inside s: moving a value into its own member is outside the domain *)
        end
    | None => Ok st
    end
  else Ok st.

(* ---------- the local changes ---------- *)
Definition f_replace (x : val) : local := fun _ c => (x, 0, blocks c).
Definition f_str (len : nat) : local := fun n c =>
  match len with 0 => (Node TStr [] [], 0, blocks c) | _ => (Node TStr [n] [], 1, blocks c) end.

(* storage of a container that receives one more slot: reallocated when [grow] or when there is none *)
Definition grown (grow : bool) (own : list nat) (n : nat) : list nat * nat * list nat :=
  match own with
  | [] => ([n], 1, [])
  | _ => if grow then ([n], 1, own) else (own, 0, [])
  end.

Definition item_key (v : val) : option nat := match vtag v with TItem k => Some k | _ => None end.
Fixpoint has_key (key : nat) (items : list val) : bool :=
  match items with
  | [] => false
  | it :: r => match item_key it with Some k => (k =? key) || has_key key r | None => has_key key r end
  end.

(* HashTable::resize (growth, merge): the removed items (tombstones) are not carried into the new storage *)
Definition is_tomb_slot (v : val) : bool := match vtag v with TTomb => true | _ => false end.
Definition live_slots (kids : list val) : list val := filter (fun v => negb (is_tomb_slot v)) kids.
Definition tomb_blocks (kids : list val) : list nat := flat_map blocks (filter is_tomb_slot kids).
Definition regrown_obj (grow : bool) (own : list nat) (kids : list val) (n : nat) : list nat * list val * nat * list nat :=
  if grow then ([n], live_slots kids, 1, tomb_blocks kids ++ own) else (own, kids, 0, []).

(* HArray::Get: "if (Size() == Capacity()) expand();" comes BEFORE the lookup: the storage can be reallocated
   (and the tombstones dropped) even when the key exists *)
Definition f_insert (key : nat) (grow : bool) : local := fun n c =>
  match c with
  | Node TObj own kids =>
      let has := has_key key kids in
      let '(own', kids', k, rem) := regrown_obj (match own with [] => negb has | _ => grow end) own kids n in
      if has then (Node TObj own' kids', k, rem)
      else (Node TObj own' (kids' ++ [Node (TItem key) [n + k] [undef]]), k + 1, rem)
  | _ => (Node TObj [n] [Node (TItem key) [n + 1] [undef]], 2, blocks c)
  end.

Definition f_append (grow : bool) : local := fun n c =>
  match c with
  | Node TArr own kids => let '(own', k, rem) := grown grow own n in (Node TArr own' (kids ++ [scalar]), k, rem)
  | _ => (Node TArr [n] [scalar], 1, blocks c)
  end.

(* RemoveIndex: an array element is reset in place; an item becomes a tombstone *)
Definition f_remove (k : nat) : local := fun _ c =>
  match c with
  | Node TArr own kids =>
      match nth_error kids k with
      | Some e => (Node TArr own (replace_nth kids k undef), 0, blocks e)
      | None => (c, 0, [])
      end
  | Node TObj own kids =>
      match nth_error kids k with
      | Some e => (Node TObj own (replace_nth kids k (Node TTomb [] [])), 0, blocks e)
      | None => (c, 0, [])
      end
  | _ => (c, 0, [])
  end.

(* one level of Compress: the slots that hold nothing are dropped, the storage is reallocated at the exact
   size (or released when nothing is left); the dropped slots own nothing unless the shape is ill-formed,
   their blocks are released in any case *)
Definition is_dead_slot (v : val) : bool := match vtag v with TUndef | TTomb => true | _ => false end.
Definition f_compress (re : bool) : local := fun n c =>
  match c with
  | Node t own kids =>
      match t with
      | TArr | TObj =>
          if re then
            let keep := filter (fun v => negb (is_dead_slot v)) kids in
            let drop := filter is_dead_slot kids in
            match keep with
            | [] => (Node t [] [], 0, flat_map blocks drop ++ own)
            | _ => (Node t [n] keep, 1, flat_map blocks drop ++ own)
            end
          else (c, 0, [])
      | _ => (c, 0, [])
      end
  end.

(* *d = *s: a deep copy of the source (read before anything is released) replaces the target *)
Definition f_copy (src : val) : local := fun n c => (copy_of n src, length (blocks (norm src)), blocks c).

(* *d = Move(s): the detached source replaces the target *)
Definition g_move : absorb := fun sub _ c => (sub, 0, blocks c).

(* *d += *s / Move(s) as one new element *)
Definition f_append_copy (src : val) (grow : bool) : local := fun n c =>
  let k0 := length (blocks (norm src)) in
  match c with
  | Node TArr own kids => let '(own', k, rem) := grown grow own (n + k0) in (Node TArr own' (kids ++ [copy_of n src]), k0 + k, rem)
  | _ => (Node TArr [n + k0] [copy_of n src], k0 + 1, blocks c)
  end.
Definition g_append_move (grow : bool) : absorb := fun sub n c =>
  match c with
  | Node TArr own kids => let '(own', k, rem) := grown grow own n in (Node TArr own' (kids ++ [sub]), k, rem)
  | _ => (Node TArr [n] [sub], 1, blocks c)
  end.

(* ---------- Merge ---------- *)
(* array into array: the defined elements of the source are appended *)
Definition defined (v : val) : bool := negb (is_dead_slot v).

(* copies of a list of values, fresh ids threaded *)
Fixpoint copies (n : nat) (l : list val) : nat * list val :=
  match l with
  | [] => (n, [])
  | v :: r => let '(n1, v') := relabel n (norm v) in let '(n2, r') := copies n1 r in (n2, v' :: r')
  end.

(* object into object, by move: an item whose key exists gives its value to that item (the old value and the
   source key are released); otherwise the item is adopted.  Returns (destination items, released blocks) *)
Fixpoint put_value (key : nat) (v : val) (items : list val) : option (list val * list nat) :=
  match items with
  | [] => None
  | it :: r =>
      match it with
      | Node (TItem k) kown [old] =>
          if k =? key then Some (Node (TItem k) kown [v] :: r, blocks old)
          else match put_value key v r with Some (r', rel) => Some (it :: r', rel) | None => None end
      | _ => match put_value key v r with Some (r', rel) => Some (it :: r', rel) | None => None end
      end
  end.

Fixpoint merge_move (src dst : list val) : list val * list nat :=
  match src with
  | [] => (dst, [])
  | it :: r =>
      match it with
      | Node (TItem key) kown [v] =>
          match put_value key v dst with
          | Some (dst', rel) => let '(d2, rel2) := merge_move r dst' in (d2, rel ++ kown ++ rel2)
          | None => let '(d2, rel2) := merge_move r (dst ++ [it]) in (d2, rel2)
          end
      | _ => let '(d2, rel2) := merge_move r dst in (d2, blocks it ++ rel2)   (* tombstones own nothing *)
      end
  end.

(* by copy: (destination items, next fresh id, released blocks) *)
Fixpoint merge_copy (n : nat) (src dst : list val) : list val * nat * list nat :=
  match src with
  | [] => (dst, n, [])
  | it :: r =>
      match it with
      | Node (TItem key) kown [v] =>
          let '(n1, v') := relabel n (norm v) in
          match put_value key v' dst with
          | Some (dst', rel) => let '(d2, n2, rel2) := merge_copy n1 r dst' in (d2, n2, rel ++ rel2)
          | None => let '(d2, n2, rel2) := merge_copy (n1 + 1) r (dst ++ [Node (TItem key) [n1] [v']]) in (d2, n2, rel2)
          end
      | _ => merge_copy n r dst
      end
  end.

(* an undefined target of Merge becomes an (empty) array *)
Definition to_array (c : val) : val := match c with Node TUndef o k => Node TArr o k | _ => c end.

(* Merge(const Value&) *)
Definition f_merge_copy (src : val) (grow : bool) : local := fun n c =>
  let c0 := to_array c in
  match c0, src with
  | Node TArr own kids, Node TArr _ skids =>
      let '(n1, news) := copies n (filter defined skids) in
      match news with
      | [] => (c0, 0, [])
      | _ => let '(own', k, rem) := grown grow own n1 in (Node TArr own' (kids ++ news), (n1 - n) + k, rem)
      end
  | Node TObj own kids, Node TObj _ skids =>
      let '(kids', n1, rel) := merge_copy n skids kids in
      let '(own', kids'', k, rem) := regrown_obj grow own kids' n1 in      (* resize(n_size) when n_size > Capacity() *)
      (Node TObj own' kids'', (n1 - n) + k, rel ++ rem)
  | _, _ => (c0, 0, [])
  end.

(* Merge(Value&&): what is not adopted is released, the source ends Undefined (val.Reset()) *)
Definition g_merge_move (grow : bool) : absorb := fun sub n c =>
  let c0 := to_array c in
  match c0, sub with
  | Node TArr own kids, Node TArr sown skids =>
      let moved := filter defined skids in
      let rest := flat_map blocks (filter is_dead_slot skids) ++ sown in
      match moved with
      | [] => (c0, 0, rest)
      | _ => let '(own', k, rem) := grown grow own n in (Node TArr own' (kids ++ moved), k, rem ++ rest)
      end
  | Node TObj own kids, Node TObj sown skids =>
      let '(kids', rel) := merge_move skids kids in
      let '(own', kids'', k, rem) := regrown_obj grow own kids' n in
      (Node TObj own' kids'', k, rel ++ rem ++ sown)
  | _, _ => (c0, 0, blocks sub)
  end.

(* ---------- operations ---------- *)
Definition path := list nat.
Inductive vop :=
| OSetScalar (t : path) | OSetStr (t : path) (len : nat) | OSetPtr (t : path) (n : nat)
| OInsert (t : path) (key : nat) (grow : bool) | OAppend (t : path) (grow : bool)
| OAppendVal (d s : path) (mv grow : bool)
| OAssign (d s : path) (mv : bool)
| OMerge (d s : path) (mv grow : bool)
| ORemove (t : path) (k : nat) | OCompress (t : path) (re : bool) | OReset (t : path).

Definition src_of (root : val) (s : path) : val := match vget root s with Some v => v | None => undef end.

Fixpoint is_prefix (p q : path) : bool :=
  match p, q with
  | [], _ => true
  | a :: p', b :: q' => (a =? b) && is_prefix p' q'
  | _ :: _, [] => false
  end.
Definition unrelated (p q : path) : bool := negb (is_prefix p q) && negb (is_prefix q p).

Definition vstep (st : vstate) (op : vop) : res vstate :=
  let root := snd st in
  match op with
  | OSetScalar t => apply_local st t [] (f_replace scalar)
  | OSetStr t len => apply_local st t [] (f_str len)
  | OSetPtr t n => apply_local st t [] (f_replace (Node (TPtr n) [] []))
  | OInsert t key grow => apply_local st t [] (f_insert key grow)
  | OAppend t grow => apply_local st t [] (f_append grow)
  | OAppendVal d s mv grow =>
      if unrelated d s then
        if mv then apply_absorb st d s (g_append_move grow)
        else if vpos root s then apply_local st d (blocks (src_of root s)) (f_append_copy (src_of root s) grow) else Ok st
      else Ok st
  | OAssign d s mv =>
      if mv then apply_absorb st d s g_move
      else if vpos root s then apply_local st d (blocks (src_of root s)) (f_copy (src_of root s)) else Ok st
  | OMerge d s mv grow =>
      if unrelated d s then
        if mv then apply_absorb st d s (g_merge_move grow)
        else if vpos root s then apply_local st d (blocks (src_of root s)) (f_merge_copy (src_of root s) grow) else Ok st
      else Ok st
  | ORemove t k => apply_local st t [] (f_remove k)
  | OCompress t re => apply_local st t [] (f_compress re)
  | OReset t => apply_local st t [] (f_replace undef)
  end.

Fixpoint vrun (ops : list vop) (st : vstate) : res vstate :=
  match ops with
  | [] => Ok st
  | op :: r => st1 <- vstep st op ;; vrun r st1
  end.

(* the pool of n variables, all Undefined *)
Definition root0 (n : nat) : val := Node TRoot [] (repeat undef n).
Definition vstate0 (n : nat) : vstate := (vheap0, root0 n).

(* ~Value of every variable *)
Definition destroy_all_values (st : vstate) : res vstate :=
  h <- vfree_list (fst st) (blocks (snd st)) ;; Ok (h, root0 (length (vkids (snd st)))).

(* ---------- the ledger ---------- *)
Definition cnt (x : nat) (l : list nat) : nat := count_occ Nat.eq_dec l x.
Definition b2n (b : bool) : nat := if b then 1 else 0.

(* every block is owned exactly as often as it is live: 0 or 1 times; ids not yet handed out are not live *)
Definition vledger (st : vstate) : Prop :=
  (forall x, cnt x (blocks (snd st)) = b2n (live (fst st) x)) /\ (forall x, nxt (fst st) <= x -> live (fst st) x = false).

(* the pre-D40 order of operator=(const Value&): reset first, then copy from the (possibly released) source *)
Definition assign_copy_reset_first (st : vstate) (d s : path) : res vstate :=
  let '(h, root) := st in
  match vget root d, vget root s with
  | Some c, Some src =>
      h1 <- vfree_list h (blocks c) ;;
      _ <- check_live h1 (blocks src) ;;
      let k := length (blocks (norm src)) in
      Ok (valloc_n h1 k, vset root d (copy_of (nxt h1) src))
  | _, _ => Ok st
  end.

(* ---------- observers for the correspondence run (tools/props/ledgervalue.py) ---------- *)
Definition tag_kind (t : tag) : nat :=
  match t with TObj => 0 | TItem _ => 1 | TArr => 2 | TStr => 3 | _ => 4 end.
(* blocks owned directly by nodes of kind k (0 object storage, 1 key blocks, 2 array blocks, 3 string blocks) *)
Fixpoint own_count (k : nat) (v : val) : nat :=
  match v with
  | Node t own kids => (if tag_kind t =? k then length own else 0) + list_sum (map (own_count k) kids)
  end.
(* (owned ids, object storage blocks, key blocks, array blocks, string blocks) *)
Definition vobserve (st : vstate) : nat * nat * nat * nat * nat :=
  (length (blocks (snd st)), own_count 0 (snd st), own_count 1 (snd st), own_count 2 (snd st), own_count 3 (snd st)).
Definition vstep_obs (st : vstate) (op : vop) : option (vstate * (nat * nat * nat * nat * nat)) :=
  match vstep st op with Ok st' => Some (st', vobserve st') | Error _ => None end.
(* ids still live after ~Value of every variable *)
Definition vfinal_live (st : vstate) : option nat :=
  match destroy_all_values st with Ok st' => Some (length (live_ids (fst st'))) | Error _ => None end.
