(* TmplProofs.v -- lemmas about TmplModel.v / TmplRender.v (C02, C17).

   Main result (end of file):

     Theorem render_ast_expand : forall auto w root ast,
       wf_ast ast = true -> render_ast auto w root ast = expand auto w root ast.

   i.e. rendering the printed text of a template AST through the tag tree --
   literal text copied by offset arithmetic between tags, unresolved tags echoed
   as slices of the text, loop bodies / if cases / inline-if values rendered as
   sub-ranges -- yields exactly the documented expansion.

   [wf_ast] only asks that no value of a super variable ({svar:p, v1, v2, ...})
   is literal text: a [TText] value produces no tag, so the tag list the renderer
   indexes with {0}, {1}, ... is shifted against the AST's value list (the
   documented grammar only allows var / raw / math there).  Without it the
   statement is false: [render_ast_expand_needs_wf].  Nothing is required of
   the children of inline ifs, ifs and loops. *)
From Coq Require Import NArith ZArith List Bool Lia.
From Qv Require Import gen.Tables EscapeModel TmplModel TmplRender.
Import ListNotations.

(* ------------------------------------------------------------------ *)
(* Slices *)
Lemma sub_mid : forall (c pre s post : list N) a b,
  c = pre ++ s ++ post -> a = length pre -> b = a + length s -> sub c a b = s.
Proof.
  intros c pre s post a b Hc Ha Hb. subst c a b. unfold sub.
  rewrite skipn_app, skipn_all, Nat.sub_diag. cbn [skipn app].
  replace (length pre + length s - length pre) with (length s) by lia.
  rewrite firstn_app, firstn_all, Nat.sub_diag. cbn [firstn]. apply app_nil_r.
Qed.

Lemma sub_lit : forall (c pre lit rest : list N) a b,
  c = pre ++ lit ++ rest -> a = length pre -> b = length pre + length lit -> sub c a b = lit.
Proof.
  intros c pre lit rest a b Hc Ha Hb. apply (sub_mid c pre lit rest); [assumption|assumption|lia].
Qed.

Lemma sub_node : forall (c pre lit s post : list N) a b,
  c = pre ++ lit ++ s ++ post -> a = length pre + length lit -> b = a + length s -> sub c a b = s.
Proof.
  intros c pre lit s post a b Hc Ha Hb. apply (sub_mid c (pre ++ lit) s post).
  - rewrite Hc, <- app_assoc. reflexivity.
  - rewrite app_length. assumption.
  - assumption.
Qed.

Lemma sub_empty : forall (c : list N) a, sub c a (a + 0) = [].
Proof. intros c a. unfold sub. replace (a + 0 - a) with 0 by lia. reflexivity. Qed.

(* ------------------------------------------------------------------ *)
(* Top-level names for the local fixpoints, and unfolding equations *)
Fixpoint print_subs (l : list tnode) : list N :=
  match l with [] => [] | x :: r => s_comma_sp ++ print_node x ++ print_subs r end.
Fixpoint print_more (l : list (option expr * list tnode)) : list N :=
  match l with
  | [] => []
  | (Some e, b) :: r => s_elseif_open ++ print_expr e ++ s_tag_close ++ print_nodes b ++ print_more r
  | (None, b) :: r => s_else ++ print_nodes b ++ print_more r
  end.
Definition loop_head (set : option path) (val group : list N) (sort : N) : list N :=
  s_loop_open ++
  match set with Some p => s_set_attr ++ print_path p ++ s_quote | None => [] end ++
  match val with [] => [] | _ => s_value_attr ++ val ++ s_quote end ++
  match group with [] => [] | _ => s_group_attr ++ group ++ s_quote end ++
  match sort with 0%N => [] | 1%N => s_sort_asc | _ => s_sort_desc end ++
  s_gt.

Lemma print_node_TVar : forall p, print_node (TVar p) = s_var_open ++ print_path p ++ s_close.
Proof. reflexivity. Qed.
Lemma print_node_TRaw : forall p, print_node (TRaw p) = s_raw_open ++ print_path p ++ s_close.
Proof. reflexivity. Qed.
Lemma print_node_TMath : forall e, print_node (TMath e) = s_math_open ++ print_expr e ++ s_close.
Proof. reflexivity. Qed.
Lemma print_node_TSVar : forall p subs,
  print_node (TSVar p subs) = s_svar_open ++ print_path p ++ print_subs subs ++ s_close.
Proof. reflexivity. Qed.
Lemma print_node_TIIf : forall c t f,
  print_node (TIIf c t f) =
  s_iif_open ++ print_expr c ++ s_true_attr ++ print_nodes t ++
  match f with Some fl => s_false_attr ++ print_nodes fl | None => [] end ++ s_iif_close.
Proof. reflexivity. Qed.
Lemma print_node_TIf : forall c body more,
  print_node (TIf c body more) =
  s_if_open ++ print_expr c ++ s_tag_close ++ print_nodes body ++ print_more more ++ s_if_end.
Proof. reflexivity. Qed.
Lemma print_node_TLoop : forall set val group sort body,
  print_node (TLoop set val group sort body) =
  loop_head set val group sort ++ print_nodes body ++ s_loop_end.
Proof.
  intros set val group sort body. unfold loop_head. rewrite <- !app_assoc. reflexivity.
Qed.

Fixpoint lay_subs (o : nat) (l : list tnode) : list gtag :=
  match l with
  | [] => []
  | x :: r => lay_node (o + 2) x ++ lay_subs (o + 2 + length (print_node x)) r
  end.
Fixpoint lay_more (o : nat) (l : list (option expr * list tnode))
  : list (option expr * (nat * nat) * list gtag) :=
  match l with
  | [] => []
  | (Some e, b) :: r =>
    let bo := o + length s_elseif_open + length (print_expr e) + length s_tag_close in
    (Some e, (bo, bo + plen b), lay_nodes bo b) :: lay_more (bo + plen b) r
  | (None, b) :: r =>
    let bo := o + length s_else in
    (None, (bo, bo + plen b), lay_nodes bo b) :: lay_more (bo + plen b) r
  end.

Lemma lay_node_TSVar : forall off p subs,
  lay_node off (TSVar p subs) =
  [GSVar off (off + length (print_node (TSVar p subs))) p (lay_subs (off + 6 + length (print_path p)) subs)].
Proof. reflexivity. Qed.
Lemma lay_node_TIIf : forall off c t f,
  lay_node off (TIIf c t f) =
  let toff := off + length s_iif_open + length (print_expr c) + length s_true_attr in
  let tlen := plen t in
  let foff := toff + tlen + length s_false_attr in
  match f with
  | Some fl => [GIIf off (length (print_node (TIIf c t f))) c toff tlen (lay_nodes toff t) foff (plen fl) (lay_nodes foff fl)]
  | None => [GIIf off (length (print_node (TIIf c t f))) c toff tlen (lay_nodes toff t) off 0 []]
  end.
Proof. reflexivity. Qed.
Lemma lay_node_TIf : forall off c body more,
  lay_node off (TIf c body more) =
  let coff := off + length s_if_open + length (print_expr c) + length s_tag_close in
  let cend := coff + plen body in
  [GIf off (off + length (print_node (TIf c body more))) c coff cend (lay_nodes coff body) (lay_more cend more)].
Proof. reflexivity. Qed.
Lemma lay_node_TLoop : forall off set val group sort body,
  lay_node off (TLoop set val group sort body) =
  let coff := off + length (print_node (TLoop set val group sort body)) - plen body - length s_loop_end in
  [GLoop off (coff + plen body) coff set val group sort (lay_nodes coff body)].
Proof. reflexivity. Qed.

(* the loop driver shared by renderer and interpreter *)
Definition each_of (f : list binding -> list N) (val : list N) (ctx : list binding) :=
  fix each (ms : list (jv * list N)) : list N :=
    match ms with
    | [] => []
    | (item, key) :: r => f ({| b_name := val; b_item := item; b_key := key |} :: ctx) ++ each r
    end.
Definition loop_out (root : jv) (ctx : list binding) (set : option path) (group : list N) (sort : N)
  (k : list (jv * list N) -> list N) : list N :=
  let s0 := match set with Some p => fst (resolve root ctx p) | None => Some root end in
  let s1 := match s0 with
            | Some s => match group with [] => Some s | g => group_by g s end
            | None => None
            end in
  match s1 with
  | None => []
  | Some s =>
    let s2 := match sort with 0%N => s | 1%N => sort_set true s | _ => sort_set false s end in
    k (members s2)
  end.

Lemma each_of_ext : forall f g val ctx ms,
  (forall c, f c = g c) -> each_of f val ctx ms = each_of g val ctx ms.
Proof.
  intros f g val ctx ms Hfg. induction ms as [|[item key] r IH]; [reflexivity|].
  cbn [each_of]. fold (each_of f val ctx) (each_of g val ctx). rewrite Hfg, IH. reflexivity.
Qed.

Section Unfold.
  Variable auto : bool.
  Variable w : N.
  Variable root : jv.

  Definition pick_e (ctx : list binding) :=
    fix pick (l : list (option expr * list tnode)) : list N :=
      match l with
      | [] => []
      | (None, b) :: _ => expand_nodes auto w root ctx b
      | (Some e, b) :: r =>
        match truth root ctx e with Some true => expand_nodes auto w root ctx b | _ => pick r end
      end.

  Lemma expand_node_TSVar : forall ctx p subs,
    expand_node auto w root ctx (TSVar p subs) =
    match subs with
    | [] => print_node (TSVar p subs)
    | _ =>
      match match fst (resolve root ctx p) with Some v => char_and_length v | None => None end with
      | Some phrase => svar_go auto w (map (leaf_out auto w root ctx) subs) phrase [] 0
      | None => print_node (TSVar p subs)
      end
    end.
  Proof. reflexivity. Qed.
  Lemma expand_node_TIIf : forall ctx c t f,
    expand_node auto w root ctx (TIIf c t f) =
    match truth root ctx c with
    | Some true => expand_nodes auto w root ctx t
    | Some false => match f with Some fl => expand_nodes auto w root ctx fl | None => [] end
    | None => []
    end.
  Proof. reflexivity. Qed.
  Lemma expand_node_TIf : forall ctx c body more,
    expand_node auto w root ctx (TIf c body more) =
    match truth root ctx c with
    | Some true => expand_nodes auto w root ctx body
    | _ => pick_e ctx more
    end.
  Proof. reflexivity. Qed.
  Lemma expand_node_TLoop : forall ctx set val group sort body,
    expand_node auto w root ctx (TLoop set val group sort body) =
    loop_out root ctx set group sort (each_of (fun c => expand_nodes auto w root c body) val ctx).
  Proof. reflexivity. Qed.

  Variable content : list N.

  Definition pick_r (ctx : list binding) :=
    fix pick (l : list (option expr * (nat * nat) * list gtag)) : list N :=
      match l with
      | [] => []
      | (None, (o, e), s) :: _ => render_list auto w root content ctx s o e
      | (Some cond, (o, e), s) :: r =>
        match truth root ctx cond with
        | Some true => render_list auto w root content ctx s o e
        | _ => pick r
        end
      end.

  Lemma render_tag_GIIf : forall ctx off len c toff tlen tsubs foff flen fsubs offset,
    render_tag auto w root content ctx (GIIf off len c toff tlen tsubs foff flen fsubs) offset =
    (sub content offset off ++
     match truth root ctx c with
     | Some true => render_list auto w root content ctx tsubs toff (toff + tlen)
     | Some false => render_list auto w root content ctx fsubs foff (foff + flen)
     | None => []
     end, off + len).
  Proof. reflexivity. Qed.
  Lemma render_tag_GIf : forall ctx off endoff c coff cend csubs more offset,
    render_tag auto w root content ctx (GIf off endoff c coff cend csubs more) offset =
    (sub content offset off ++
     match truth root ctx c with
     | Some true => render_list auto w root content ctx csubs coff cend
     | _ => pick_r ctx more
     end, endoff).
  Proof. reflexivity. Qed.
  Lemma render_tag_GLoop : forall ctx off endoff coff set val group sort subs offset,
    render_tag auto w root content ctx (GLoop off endoff coff set val group sort subs) offset =
    (sub content offset off ++
     loop_out root ctx set group sort
       (each_of (fun c => render_list auto w root content c subs coff endoff) val ctx),
     endoff + loop_suffix_len).
  Proof. reflexivity. Qed.
End Unfold.
(* ------------------------------------------------------------------ *)
(* Well-formedness: the values of a super variable are tags, not text *)
Definition is_text (n : tnode) : bool := match n with TText _ => true | _ => false end.

Fixpoint wf_node (n : tnode) : bool :=
  match n with
  | TSVar _ subs => forallb (fun x => negb (is_text x)) subs
  | TIIf _ t f => forallb wf_node t && match f with Some fl => forallb wf_node fl | None => true end
  | TIf _ body more => forallb wf_node body && forallb (fun cb => forallb wf_node (snd cb)) more
  | TLoop _ _ _ _ body => forallb wf_node body
  | _ => true
  end.
Definition wf_ast (ast : list tnode) : bool := forallb wf_node ast.

(* ------------------------------------------------------------------ *)
(* Induction principle for the nested inductive [tnode] *)
Section TnodeInd.
  Variable P : tnode -> Prop.
  Hypothesis HText : forall s, P (TText s).
  Hypothesis HVar : forall p, P (TVar p).
  Hypothesis HRaw : forall p, P (TRaw p).
  Hypothesis HMath : forall e, P (TMath e).
  Hypothesis HSVar : forall p subs, P (TSVar p subs).
  Hypothesis HIIfS : forall c t fl, Forall P t -> Forall P fl -> P (TIIf c t (Some fl)).
  Hypothesis HIIfN : forall c t, Forall P t -> P (TIIf c t None).
  Hypothesis HIf : forall c body more, Forall P body ->
    Forall (fun cb : option expr * list tnode => Forall P (snd cb)) more -> P (TIf c body more).
  Hypothesis HLoop : forall set val group sort body, Forall P body -> P (TLoop set val group sort body).

  Fixpoint tnode_ind2 (n : tnode) : P n :=
    let all := fix all (l : list tnode) : Forall P l :=
                 match l with
                 | [] => Forall_nil P
                 | x :: r => Forall_cons x (tnode_ind2 x) (all r)
                 end in
    match n with
    | TText s => HText s
    | TVar p => HVar p
    | TRaw p => HRaw p
    | TMath e => HMath e
    | TSVar p subs => HSVar p subs
    | TIIf c t f =>
      match f with
      | Some fl => HIIfS c t fl (all t) (all fl)
      | None => HIIfN c t (all t)
      end
    | TIf c body more =>
      HIf c body more (all body)
        ((fix allm (l : list (option expr * list tnode))
            : Forall (fun cb : option expr * list tnode => Forall P (snd cb)) l :=
            match l with
            | [] => Forall_nil _
            | cb :: r => Forall_cons cb (all (snd cb)) (allm r)
            end) more)
    | TLoop set val group sort body => HLoop set val group sort body (all body)
    end.
End TnodeInd.
(* ------------------------------------------------------------------ *)
(* Lengths *)
Lemma len_var_open : length s_var_open = 5. Proof. reflexivity. Qed.
Lemma len_raw_open : length s_raw_open = 5. Proof. reflexivity. Qed.
Lemma len_svar_open : length s_svar_open = 6. Proof. reflexivity. Qed.
Lemma len_close : length s_close = 1. Proof. reflexivity. Qed.
Lemma len_comma_sp : length s_comma_sp = 2. Proof. reflexivity. Qed.
Lemma len_loop_end : length s_loop_end = 7. Proof. reflexivity. Qed.

Ltac len :=
  rewrite ?print_node_TVar, ?print_node_TRaw, ?print_node_TMath, ?print_node_TSVar,
          ?print_node_TIIf, ?print_node_TIf, ?print_node_TLoop;
  unfold plen, prefix_len_var, loop_suffix_len;
  cbn [print_nodes print_subs print_more];
  rewrite ?app_length;
  rewrite ?len_var_open, ?len_raw_open, ?len_svar_open, ?len_close, ?len_comma_sp, ?len_loop_end;
  cbn [length]; lia.

(* content = ... with both sides re-associated *)
Ltac capp H :=
  rewrite H;
  rewrite ?print_node_TVar, ?print_node_TRaw, ?print_node_TMath, ?print_node_TSVar,
          ?print_node_TIIf, ?print_node_TIf, ?print_node_TLoop;
  cbn [print_nodes print_subs print_more];
  repeat rewrite <- app_assoc; cbn [app]; reflexivity.

Lemma sub_same : forall (c : list N) a, sub c a a = [].
Proof. intros c a. unfold sub. rewrite Nat.sub_diag. reflexivity. Qed.

Lemma loop_out_ext : forall root ctx set group sort k k',
  (forall ms, k ms = k' ms) -> loop_out root ctx set group sort k = loop_out root ctx set group sort k'.
Proof.
  intros root ctx set group sort k k' Hk. unfold loop_out.
  destruct (match match set with Some p => fst (resolve root ctx p) | None => Some root end with
            | Some s => match group with [] => Some s | _ :: _ => group_by group s end
            | None => None end) as [s|]; [apply Hk|reflexivity].
Qed.

Section Main.
  Variable auto : bool.
  Variable w : N.
  Variable root : jv.
  Variable content : list N.

  Notation RTag := (render_tag auto w root content).
  Notation RList := (render_list auto w root content).
  Notation ENode := (expand_node auto w root).
  Notation ENodes := (expand_nodes auto w root).

  (* a value of a super variable rendered on its own *)
  Lemma leaf_alone : forall ctx x pre post,
    is_text x = false -> content = pre ++ print_node x ++ post ->
    exists t, lay_node (length pre) x = [t] /\
              r_leaf_alone auto w root content ctx t = leaf_out auto w root ctx x.
  Proof.
    intros ctx x pre post Ht Hc.
    destruct x as [s|p|p|e|p subs|c t f|c body more|set val group sort body].
    - discriminate Ht.
    - exists (GVar (length pre + 5) (length (print_path p)) p). split; [reflexivity|].
      cbn [r_leaf_alone leaf_out]. unfold r_var, prefix_len_var. cbn [fst].
      rewrite sub_same. rewrite (sub_mid content pre (print_node (TVar p)) post) by (assumption || len).
      reflexivity.
    - exists (GRaw (length pre + 5) (length (print_path p)) p). split; [reflexivity|].
      cbn [r_leaf_alone leaf_out]. unfold r_raw, prefix_len_var. cbn [fst].
      rewrite sub_same. rewrite (sub_mid content pre (print_node (TRaw p)) post) by (assumption || len).
      reflexivity.
    - exists (GMath (length pre) (length pre + length (print_node (TMath e))) e). split; [reflexivity|].
      cbn [r_leaf_alone leaf_out]. unfold r_math. cbn [fst].
      rewrite sub_same. rewrite (sub_mid content pre (print_node (TMath e)) post) by (assumption || len).
      reflexivity.
    - rewrite lay_node_TSVar. eexists. split; reflexivity.
    - rewrite lay_node_TIIf. cbv zeta. destruct f as [fl|]; eexists; split; reflexivity.
    - rewrite lay_node_TIf. cbv zeta. eexists. split; reflexivity.
    - rewrite lay_node_TLoop. cbv zeta. eexists. split; reflexivity.
  Qed.

  Lemma subs_map : forall ctx subs pre post,
    forallb (fun x => negb (is_text x)) subs = true ->
    content = pre ++ print_subs subs ++ post ->
    map (r_leaf_alone auto w root content ctx) (lay_subs (length pre) subs) =
    map (leaf_out auto w root ctx) subs.
  Proof.
    intros ctx subs. induction subs as [|x r IH]; intros pre post Hnt Hc; [reflexivity|].
    cbn [forallb] in Hnt. apply andb_prop in Hnt. destruct Hnt as [Hx Hr].
    apply negb_true_iff in Hx.
    destruct (leaf_alone ctx x (pre ++ s_comma_sp) (print_subs r ++ post) Hx) as [t [Hlay Hout]].
    { capp Hc. }
    rewrite app_length, len_comma_sp in Hlay.
    cbn [lay_subs]. rewrite Hlay. cbn [app map]. f_equal; [exact Hout|].
    replace (length pre + 2 + length (print_node x))
      with (length (pre ++ s_comma_sp ++ print_node x)) by len.
    apply (IH _ post Hr). capp Hc.
  Qed.

  Definition node_ok (x : tnode) : Prop :=
    wf_node x = true -> is_text x = false ->
    forall pre lit post, content = pre ++ lit ++ print_node x ++ post ->
    exists t, lay_node (length pre + length lit) x = [t] /\
      forall ctx, RTag ctx t (length pre) =
                  (lit ++ ENode ctx x, length pre + length lit + length (print_node x)).

  Lemma list_ok : forall l, Forall node_ok l -> forallb wf_node l = true ->
    forall pre lit post ctx, content = pre ++ lit ++ print_nodes l ++ post ->
    RList ctx (lay_nodes (length pre + length lit) l) (length pre)
          (length pre + length lit + length (print_nodes l)) = lit ++ ENodes ctx l.
  Proof.
    intros l Hl. induction Hl as [|x r Hx Hr IH]; intros Hwf pre lit post ctx Hc.
    - cbn [lay_nodes render_list print_nodes expand_nodes length]. rewrite app_nil_r.
      apply (sub_lit content pre lit post); [exact Hc|reflexivity|lia].
    - cbn [forallb] in Hwf. apply andb_prop in Hwf. destruct Hwf as [Hwx Hwr].
      destruct (is_text x) eqn:Ht.
      + destruct x as [s| | | | | | | ]; try discriminate Ht.
        assert (IH' := IH Hwr pre (lit ++ s) post ctx).
        change (ENodes ctx (TText s :: r)) with (s ++ ENodes ctx r).
        rewrite (app_assoc lit s).
        rewrite <- IH' by (capp Hc).
        change (lay_nodes (length pre + length lit) (TText s :: r))
          with (lay_nodes (length pre + length lit + length s) r).
        change (print_nodes (TText s :: r)) with (s ++ print_nodes r).
        f_equal; [f_equal; len|len].
      + destruct (Hx Hwx Ht pre lit (print_nodes r ++ post)) as [t [Hlay Hren]].
        { capp Hc. }
        cbn [lay_nodes]. rewrite Hlay. cbn [app render_list]. rewrite Hren.
        assert (IH' := IH Hwr (pre ++ lit ++ print_node x) [] post ctx).
        cbn [app] in IH'. cbn [expand_nodes]. rewrite <- IH' by (capp Hc).
        rewrite <- app_assoc. f_equal. f_equal. f_equal; [f_equal; len|len|len].
  Qed.

  Lemma list_cor : forall l, Forall node_ok l -> forallb wf_node l = true ->
    forall pre post ctx a b, content = pre ++ print_nodes l ++ post ->
    a = length pre -> b = a + plen l ->
    RList ctx (lay_nodes a l) a b = ENodes ctx l.
  Proof.
    intros l Hl Hwf pre post ctx a b Hc Ha Hb.
    assert (H := list_ok l Hl Hwf pre [] post ctx Hc). cbn [app length] in H.
    rewrite <- H. subst a b. unfold plen. f_equal; [f_equal; lia|lia].
  Qed.

  Lemma pick_r_some : forall ctx cond o e s r,
    pick_r auto w root content ctx ((Some cond, (o, e), s) :: r) =
    match truth root ctx cond with
    | Some true => RList ctx s o e
    | _ => pick_r auto w root content ctx r
    end.
  Proof. reflexivity. Qed.
  Lemma pick_r_none : forall ctx o e s r,
    pick_r auto w root content ctx ((None, (o, e), s) :: r) = RList ctx s o e.
  Proof. reflexivity. Qed.
  Lemma pick_e_some : forall ctx cond b r,
    pick_e auto w root ctx ((Some cond, b) :: r) =
    match truth root ctx cond with
    | Some true => ENodes ctx b
    | _ => pick_e auto w root ctx r
    end.
  Proof. reflexivity. Qed.
  Lemma pick_e_none : forall ctx b r,
    pick_e auto w root ctx ((None, b) :: r) = ENodes ctx b.
  Proof. reflexivity. Qed.

  Lemma pick_ok : forall ctx more,
    Forall (fun cb : option expr * list tnode => Forall node_ok (snd cb)) more ->
    forallb (fun cb : option expr * list tnode => forallb wf_node (snd cb)) more = true ->
    forall pre post, content = pre ++ print_more more ++ post ->
    pick_r auto w root content ctx (lay_more (length pre) more) = pick_e auto w root ctx more.
  Proof.
    intros ctx more Hm. induction Hm as [|[oe b] r Hb Hr IH]; intros Hwf pre post Hc; [reflexivity|].
    cbn [forallb snd] in Hwf, Hb. apply andb_prop in Hwf. destruct Hwf as [Hwb Hwr].
    destruct oe as [e|].
    - cbn [lay_more]. cbv zeta. rewrite pick_r_some, pick_e_some.
      rewrite (list_cor b Hb Hwb (pre ++ s_elseif_open ++ print_expr e ++ s_tag_close)
                 (print_more r ++ post)) by (capp Hc || len).
      replace (length pre + length s_elseif_open + length (print_expr e) + length s_tag_close + plen b)
        with (length (pre ++ s_elseif_open ++ print_expr e ++ s_tag_close ++ print_nodes b)) by len.
      rewrite (IH Hwr _ post) by (capp Hc). reflexivity.
    - cbn [lay_more]. cbv zeta. rewrite pick_r_none, pick_e_none.
      apply (list_cor b Hb Hwb (pre ++ s_else) (print_more r ++ post)); [capp Hc|len|len].
  Qed.

  Lemma node_ok_all : forall x, node_ok x.
  Proof.
    apply tnode_ind2; unfold node_ok.
    - intros s _ Ht. discriminate Ht.
    - intros p _ _ pre lit post Hc.
      exists (GVar (length pre + length lit + 5) (length (print_path p)) p). split; [reflexivity|].
      intros ctx. cbn [render_tag expand_node leaf_out]. unfold r_var, prefix_len_var.
      rewrite (sub_lit content pre lit _ (length pre) _ Hc) by lia.
      rewrite (sub_node content pre lit (print_node (TVar p)) post _ _ Hc) by len.
      f_equal. len.
    - intros p _ _ pre lit post Hc.
      exists (GRaw (length pre + length lit + 5) (length (print_path p)) p). split; [reflexivity|].
      intros ctx. cbn [render_tag expand_node leaf_out]. unfold r_raw, prefix_len_var.
      rewrite (sub_lit content pre lit _ (length pre) _ Hc) by lia.
      rewrite (sub_node content pre lit (print_node (TRaw p)) post _ _ Hc) by len.
      f_equal. len.
    - intros e _ _ pre lit post Hc.
      exists (GMath (length pre + length lit) (length pre + length lit + length (print_node (TMath e))) e).
      split; [reflexivity|].
      intros ctx. cbn [render_tag expand_node leaf_out]. unfold r_math.
      rewrite (sub_lit content pre lit _ (length pre) _ Hc) by lia.
      rewrite (sub_node content pre lit (print_node (TMath e)) post _ _ Hc) by len.
      reflexivity.
    - intros p subs Hwf _ pre lit post Hc. cbn [wf_node] in Hwf.
      rewrite lay_node_TSVar. eexists. split; [reflexivity|].
      intros ctx. cbn [render_tag]. rewrite expand_node_TSVar.
      rewrite (sub_lit content pre lit _ (length pre) _ Hc) by lia.
      rewrite (sub_node content pre lit (print_node (TSVar p subs)) post _ _ Hc) by len.
      f_equal. f_equal.
      assert (Hmap := subs_map ctx subs (pre ++ lit ++ s_svar_open ++ print_path p) (s_close ++ post) Hwf).
      replace (length (pre ++ lit ++ s_svar_open ++ print_path p))
        with (length pre + length lit + 6 + length (print_path p)) in Hmap by len.
      specialize (Hmap ltac:(capp Hc)).
      destruct subs as [|x r]; [reflexivity|].
      destruct (lay_subs (length pre + length lit + 6 + length (print_path p)) (x :: r)) as [|t ts];
        [discriminate Hmap|].
      rewrite Hmap. reflexivity.
    - intros c t fl Ht Hfl Hwf _ pre lit post Hc. cbn [wf_node] in Hwf.
      apply andb_prop in Hwf. destruct Hwf as [Hwt Hwf].
      rewrite lay_node_TIIf. cbv zeta. eexists. split; [reflexivity|].
      intros ctx. rewrite render_tag_GIIf, expand_node_TIIf.
      rewrite (sub_lit content pre lit _ (length pre) _ Hc) by lia.
      f_equal. f_equal.
      destruct (truth root ctx c) as [[|]|]; [| |reflexivity].
      + apply (list_cor t Ht Hwt (pre ++ lit ++ s_iif_open ++ print_expr c ++ s_true_attr)
                 (s_false_attr ++ print_nodes fl ++ s_iif_close ++ post)); [capp Hc|len|len].
      + apply (list_cor fl Hfl Hwf
                 (pre ++ lit ++ s_iif_open ++ print_expr c ++ s_true_attr ++ print_nodes t ++ s_false_attr)
                 (s_iif_close ++ post)); [capp Hc|len|len].
    - intros c t Ht Hwf _ pre lit post Hc. cbn [wf_node] in Hwf.
      apply andb_prop in Hwf. destruct Hwf as [Hwt _].
      rewrite lay_node_TIIf. cbv zeta. eexists. split; [reflexivity|].
      intros ctx. rewrite render_tag_GIIf, expand_node_TIIf.
      rewrite (sub_lit content pre lit _ (length pre) _ Hc) by lia.
      f_equal. f_equal.
      destruct (truth root ctx c) as [[|]|]; [| |reflexivity].
      + apply (list_cor t Ht Hwt (pre ++ lit ++ s_iif_open ++ print_expr c ++ s_true_attr)
                 (s_iif_close ++ post)); [capp Hc|len|len].
      + cbn [render_list]. apply sub_empty.
    - intros c body more Hb Hm Hwf _ pre lit post Hc. cbn [wf_node] in Hwf.
      apply andb_prop in Hwf. destruct Hwf as [Hwb Hwm].
      rewrite lay_node_TIf. cbv zeta. eexists. split; [reflexivity|].
      intros ctx. rewrite render_tag_GIf, expand_node_TIf.
      rewrite (sub_lit content pre lit _ (length pre) _ Hc) by lia.
      f_equal. f_equal.
      assert (Hpick : pick_r auto w root content ctx
                (lay_more (length pre + length lit + length s_if_open + length (print_expr c) +
                           length s_tag_close + plen body) more) = pick_e auto w root ctx more).
      { replace (length pre + length lit + length s_if_open + length (print_expr c) +
                 length s_tag_close + plen body)
          with (length (pre ++ lit ++ s_if_open ++ print_expr c ++ s_tag_close ++ print_nodes body)) by len.
        apply (pick_ok ctx more Hm Hwm _ (s_if_end ++ post)). capp Hc. }
      rewrite Hpick.
      destruct (truth root ctx c) as [[|]|]; [|reflexivity|reflexivity].
      apply (list_cor body Hb Hwb (pre ++ lit ++ s_if_open ++ print_expr c ++ s_tag_close)
               (print_more more ++ s_if_end ++ post)); [capp Hc|len|len].
    - intros set val group sort body Hb Hwf _ pre lit post Hc. cbn [wf_node] in Hwf.
      rewrite lay_node_TLoop. cbv zeta. eexists. split; [reflexivity|].
      intros ctx. rewrite render_tag_GLoop, expand_node_TLoop.
      rewrite (sub_lit content pre lit _ (length pre) _ Hc) by lia.
      f_equal; [|len]. f_equal.
      apply loop_out_ext. intros ms. apply each_of_ext. intros c.
      apply (list_cor body Hb Hwf (pre ++ lit ++ loop_head set val group sort) (s_loop_end ++ post));
        [capp Hc|len|len].
  Qed.

  Lemma render_list_expand : forall l ctx, forallb wf_node l = true -> content = print_nodes l ->
    RList ctx (lay_nodes 0 l) 0 (length content) = ENodes ctx l.
  Proof.
    intros l ctx Hwf Hc.
    apply (list_cor l (proj2 (Forall_forall node_ok l) (fun x _ => node_ok_all x)) Hwf [] []).
    - rewrite app_nil_r. exact Hc.
    - reflexivity.
    - unfold plen. rewrite Hc. reflexivity.
  Qed.
End Main.

(* The renderer working on offsets into the printed template computes the
   documented expansion, for every AST in which the values of a super variable
   are tags (var / raw / math or any other tag), not text. *)
Theorem render_ast_expand : forall auto w root ast,
  wf_ast ast = true -> render_ast auto w root ast = expand auto w root ast.
Proof.
  intros auto w root ast Hwf. unfold render_ast, render, expand.
  apply render_list_expand; [exact Hwf|reflexivity].
Qed.

(* The hypothesis is needed: a text value of a super variable. *)
Example render_ast_expand_needs_wf :
  let root := JObj [([97%N], JStr [123%N; 48%N; 125%N])] in       (* {"a": "{0}"} *)
  let ast := [TSVar ([97%N], []) [TText [65%N]]] in               (* {svar:a, A} *)
  render_ast false 1 root ast = print_nodes ast /\ expand false 1 root ast = [65%N].
Proof. split; vm_compute; reflexivity. Qed.
