(* UniSweepEsc.v -- C20 sweep (finite domain, vm_compute; one evaluation, at Qed).
   Rebuilt only when UniModel.v / gen/Tables_uni.v change.  One hexadecimal step (4096 accumulators x 16 digit values x 2 letter cases),
   surrogate test (65536 values), recombination (2^20 pairs). *)
From Coq Require Import NArith List Bool.
From Qv Require Import UniModel UniProofsBase.
Import ListNotations.
Local Open Scope N_scope.

(* one step of the hexadecimal loop: accumulator n < 4096, digit value d < 16 written
   in either letter case *)
Definition Pstep (n d : N) (up : bool) : bool :=
  match hex_step n (hex_char up d) with Some r => r =? n * 16 + d | None => false end.
Definition Phex2 (n : N) : bool := forall_bits 4 0 (fun d => Pstep n d false && Pstep n d true).

Lemma sweep_hex : forall_bits 12 0 Phex2 = true.
Proof. vm_cast_no_check (eq_refl true). Qed.

(* the surrogate test singles out exactly D800..DBFF among the 16-bit values *)
Lemma sweep_sur : forall_bits 16 0 Psur = true.
Proof. vm_cast_no_check (eq_refl true). Qed.

(* recombination of every pair (D800+hi, DC00+lo) *)
Definition Prec2 (hi : N) : bool :=
  forall_bits 10 0 (fun lo => recombine (0xD800 + hi) (0xDC00 + lo) =? 0x10000 + hi * 1024 + lo).

Lemma sweep_rec : forall_bits 10 0 Prec2 = true.
Proof. vm_cast_no_check (eq_refl true). Qed.
