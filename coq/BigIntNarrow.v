(* BigIntNarrow.v -- C19 lemmas, part 8: explicit operator N_Number_T() (narrowing /
   widening conversion): the result is the value modulo 2^(bits of the target type). *)
From Coq Require Import Arith NArith ZArith List Bool Lia Psatz.
From Coq Require Import ZifyBool ZifyNat ZifyN.
From Qv Require Import BigIntModel BigIntProofs BigIntHelpers BigIntShift BigIntBits.
Import ListNotations.
Local Open Scope N_scope.

Section W.
  Variable w : N.
  Hypothesis w_pos : 0 < w.
  Notation B := (Bw w).
  Notation val := (value w).
  Notation pw := (pw w).
  Notation bval := (bval w).

  Lemma narrow_loop_spec : forall tw k l num m, wordsok w l -> (k < length l)%nat -> num = m * B ->
    num * pw k + val (firstn (S k) l) < 2 ^ tw ->
    exists res m', narrow_loop w k l num tw = Ok res /\ res = m' * B /\
      res + nth 0 l 0 = num * pw k + val (firstn (S k) l).
  Proof.
    intros tw. induction k as [|i IH]; intros l num m Hw Hl Hnum Hb.
    - exists num, m. cbn [narrow_loop]. split; [reflexivity|]. split; [exact Hnum|].
      rewrite value_firstn_S by lia. cbn [firstn value]. rewrite pw_0. lia.
    - cbn [narrow_loop]. rewrite rd_ok by lia. cbn [bind].
      set (x := nth (S i) l 0).
      pose proof (wordsok_nth w l (S i) Hw Hl) as Hx. fold x in Hx.
      assert (Hlor : N.lor num x = x + num).
      { rewrite Hnum, N.lor_comm. unfold Bw. apply lor_disjoint_add. exact Hx. }
      rewrite Hlor.
      rewrite (value_firstn_S w l (S i)) in Hb by lia. fold x in Hb. rewrite pw_S in Hb.
      pose proof (pw_pos w i) as Hp. pose proof (B_pos w) as HB.
      assert (Hsm : (x + num) * B < 2 ^ tw).
      { assert ((x + num) * B <= (x + num) * B * pw i) by nia. nia. }
      rewrite (N.mod_small _ _ Hsm).
      destruct (IH l ((x + num) * B) (x + num) Hw ltac:(lia) eq_refl) as (res & m' & Hrun & Hm' & Hres).
      + nia.
      + exists res, m'. split; [exact Hrun|]. split; [exact Hm'|].
        rewrite (value_firstn_S w l (S i)) by lia. fold x. rewrite pw_S. nia.
  Qed.

  (* target not wider than a word, or a whole number (>= 2) of words *)
  Theorem narrow_correct : forall s tw, WF w s -> (tw <= w \/ exists c : nat, (2 <= c)%nat /\ tw = w * N.of_nat c) ->
    narrow w s tw = Ok (bval s mod 2 ^ tw).
  Proof.
    intros s tw HWF Htw. pose proof HWF as ((Hw & Hi & Ha) & Ht). unfold narrow.
    destruct Htw as [Hle|(c & Hc & Etw)].
    - destruct (N.leb_spec tw w) as [_|]; [|lia].
      rewrite rd_ok by lia. cbn [bind]. f_equal.
      destruct (words_cons w s (proj1 HWF)) as (a & t & Hwd & _ & _).
      unfold BigIntProofs.bval. rewrite Hwd. cbn [nth value].
      assert (EB : B = 2 ^ tw * 2 ^ (w - tw)).
      { unfold Bw. rewrite <- N.pow_add_r. f_equal. lia. }
      rewrite EB. replace (a + 2 ^ tw * 2 ^ (w - tw) * val t) with (a + (2 ^ (w - tw) * val t) * 2 ^ tw) by ring.
      rewrite N.mod_add by (apply N.pow_nonzero; lia). reflexivity.
    - destruct (N.leb_spec tw w) as [Hle|_]; [nia|].
      assert (Ediv : tw / w = N.of_nat c).
      { rewrite Etw, N.mul_comm. apply N.div_mul. lia. }
      rewrite Ediv. replace (N.to_nat (N.of_nat c - 1)) with (c - 1)%nat by lia.
      assert (Ep : 2 ^ tw = pw c) by (rewrite pw_bits, Etw; reflexivity).
      set (k := if (c - 1 <=? index s)%nat then (c - 1)%nat else index s).
      assert (Hk : (k <= index s /\ S k <= c)%nat) by (unfold k; destruct (Nat.leb_spec (c - 1) (index s)); lia).
      pose proof (value_firstn_bound w (words s) (S k) Hw ltac:(lia)) as Hbk.
      assert (Hpk : pw (S k) <= pw c).
      { replace c with (S k + (c - S k))%nat by lia. rewrite pw_add.
        pose proof (pw_pos w (c - S k)). pose proof (pw_pos w (S k)). nia. }
      destruct (narrow_loop_spec tw k (words s) 0 0 Hw ltac:(lia) ltac:(lia)) as (res & m' & Hrun & Hm' & Hres).
      { rewrite Ep. lia. }
      rewrite Hrun. cbn [bind]. rewrite rd_ok by lia. cbn [bind]. f_equal.
      pose proof (wordsok_nth w _ 0%nat Hw ltac:(lia)) as Hx0.
      rewrite Hm', N.lor_comm. unfold Bw at 1. rewrite lor_disjoint_add by exact Hx0.
      fold B. rewrite <- Hm'. rewrite N.add_comm, Hres, N.mul_0_l, N.add_0_l.
      rewrite Ep. unfold k in *. destruct (Nat.leb_spec (c - 1) (index s)) as [Hbig|Hsmall].
      + (* more words than the target: the low c words *)
        replace (S (c - 1)) with c in * by lia.
        pose proof (value_split w c (words s)) as Hsp.
        apply (N.mod_unique _ _ (val (skipn c (words s)))); [exact Hbk|].
        unfold BigIntProofs.bval. lia.
      + rewrite (WF0_value_firstn w s (proj1 HWF)). symmetry. apply N.mod_small.
        rewrite (WF0_value_firstn w s (proj1 HWF)) in Hbk. lia.
  Qed.
End W.
