(* EscapeRouting.v -- every text a {var:} position emits is Safe (routing model
   of EscapeModel.v), {raw:} is verbatim, auto-escape off is the identity. *)
From Coq Require Import NArith List Bool Lia PeanoNat.
From Qv Require Import gen.Tables EscapeModel EscapeProofs.
Import ListNotations.
Local Open Scope N_scope.

Lemma Safe_app : forall a b, Safe a -> Safe b -> Safe (a ++ b).
Proof.
  intros a b Ha Hb. induction Ha as [|c t Hs Hc Ht IH|e t He Ht IH].
  - exact Hb.
  - cbn [app]. apply Safe_plain; assumption.
  - rewrite <- app_assoc. apply Safe_ent; assumption.
Qed.

Lemma vt_on_safe : forall w s, Safe (var_text_cfg true w s).
Proof. intros w s. unfold var_text_cfg. apply escape_safe. Qed.

Lemma svar_go_safe : forall w subs, Forall Safe subs ->
  forall n s pend nodet, (length s <= n)%nat -> Safe (svar_go true w subs s pend nodet).
Proof.
  intros w subs Hsubs n. induction n as [|n IH]; intros s pend nodet Hlen.
  - destruct s as [|c t]; [|cbn [length] in Hlen; lia]. cbn [svar_go]. apply vt_on_safe.
  - destruct s as [|c t]; [cbn [svar_go]; apply vt_on_safe|].
    cbn [length] in Hlen. assert (Ht : (length t <= n)%nat) by lia.
    cbn [svar_go]. destruct nodet as [|k]; [|apply IH; exact Ht].
    destruct (N.eqb c ch_lbrace); [|apply IH; exact Ht].
    apply Safe_app; [apply vt_on_safe|].
    destruct t as [|d [|c2 t']]; try (apply IH; exact Ht).
    destruct (N.eqb c2 ch_rbrace); [|apply IH; exact Ht].
    destruct (N.leb ch_zero d && N.ltb (d - ch_zero) (N.of_nat (length subs))) eqn:Hid; [|apply IH; exact Ht].
    apply Safe_app.
    + apply andb_prop in Hid. destruct Hid as [_ Hlt]. apply N.ltb_lt in Hlt.
      rewrite Forall_forall in Hsubs. apply Hsubs. apply nth_In. lia.
    + apply IH. cbn [length] in Ht. lia.
Qed.

(* kinds 0,1,3,4,5: the emitted text is Safe; kind 6: the text after what the
   stream already held is Safe; kind 2 ({raw:}): verbatim. *)
Theorem emit_var_positions_safe : forall w kind s,
  In kind [0; 1; 3; 4; 5; 7; 8; 10] -> Safe (c03_emit_cfg true w kind s).
Proof.
  intros w kind s Hk. cbn [In] in Hk.
  destruct Hk as [<-|[<-|[<-|[<-|[<-|[<-|[<-|[<-|[]]]]]]]]]; unfold c03_emit_cfg.
  - apply vt_on_safe.
  - apply vt_on_safe.
  - destruct s; apply vt_on_safe.
  - apply (svar_go_safe w _ (Forall_cons _ (vt_on_safe w s) (Forall_nil _)) (length s)). lia.
  - apply vt_on_safe.
  - apply vt_on_safe.
  - apply vt_on_safe.
  - apply vt_on_safe.
Qed.

Theorem emit_stream_prefix_kept : forall w s,
  exists out, c03_emit_cfg true w 6 s = pre_stream ++ out /\ Safe out /\ decode out = decode s.
Proof.
  intros w s. exists (var_text_cfg true w s). split; [reflexivity|]. split; [apply vt_on_safe|].
  unfold var_text_cfg. apply decode_escape.
Qed.

Theorem emit_var_decode : forall w s, decode (c03_emit_cfg true w 1 s) = decode s.
Proof. intros w s. unfold c03_emit_cfg, var_text_cfg. apply decode_escape. Qed.

Theorem emit_raw_verbatim : forall a w s, c03_emit_cfg a w 2 s = s.
Proof. reflexivity. Qed.

Theorem emit_off_is_raw : forall w kind s, In kind [0; 1; 2] -> c03_emit_cfg false w kind s = s.
Proof.
  intros w kind s Hk. cbn [In] in Hk. destruct Hk as [<-|[<-|[<-|[]]]]; reflexivity.
Qed.

(* the boolean oracle used on the implementation's output is exactly the
   specification *)
Theorem oracle_sound : forall s out, c03_oracle s out = true <-> (Safe out /\ decode out = decode s).
Proof.
  intros s out. unfold c03_oracle. rewrite andb_true_iff, safeb_spec.
  split; intros [H1 H2]; split; try exact H1.
  - revert H2. generalize (decode out) (decode s). intros a. induction a as [|x a IH]; intros [|y b] H; cbn [list_eqb] in H; try discriminate; try reflexivity.
    apply andb_prop in H. destruct H as [Hx Hr]. apply N.eqb_eq in Hx. subst. f_equal. apply IH. exact Hr.
  - rewrite H2. generalize (decode s). intros a. induction a as [|x a IH]; cbn [list_eqb]; [reflexivity|].
    rewrite N.eqb_refl. exact IH.
Qed.

(* the documented default: escaping is on *)
Theorem default_is_on : cfg_auto_escape_html = true.
Proof. reflexivity. Qed.

(* non-vacuity: a concrete string with look-alikes on which all parts act *)
Example c03_example :
  let s := [38; 97; 109; 112; 59; 38; 97; 109; 60; 34; 38] in
  escape_std s = [38; 97; 109; 112; 59; 38; 97; 109; 112; 59; 97; 109; 38; 108; 116; 59; 38; 113; 117; 111; 116; 59; 38; 97; 109; 112; 59]
  /\ decode (escape_std s) = [38; 38; 97; 109; 60; 34; 38].
Proof. split; reflexivity. Qed.
