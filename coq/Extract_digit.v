(* Extract_digit.v -- extraction of the digit component (C09, C10, C11): the
   implementation model (DigitModel) and the specification oracles
   (DigitModelSpec).  ExtrOcamlBasic only. *)
From Coq Require Import Extraction ExtrOcamlBasic NArith ZArith.
From Qv Require Import DigitModel DigitModelSpec DigitProofsAccNeg.
Extraction Language OCaml.
Set Extraction Optimize.
Extraction "model_digit.ml"
  N.add N.mul N.sub N.div_eucl N.compare Z.add Z.mul Z.sub Z.div_eucl Z.compare Z.of_N Z.to_N Z.opp
  DigitModel.string_to_number DigitModel.real_to_string DigitModel.int_number_to_string
  DigitModel.roundtrip DigitModel.finfo_double DigitModel.finfo_float
  DigitModelSpec.c09_oracle DigitModelSpec.c10_real_oracle DigitModelSpec.c10_int_oracle
  DigitModelSpec.c10_reference DigitModelSpec.c11_double_oracle DigitModelSpec.c11_float_oracle
  DigitModelSpec.fmt_double DigitModelSpec.fmt_float DigitProofsAccNeg.pnt_guard.
