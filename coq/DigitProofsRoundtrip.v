(* DigitProofsRoundtrip.v -- C11: model-level facts about format(17) -> parse.
   Only computed samples: the joint statement over all doubles is out of reach. *)
From Coq Require Import NArith List Bool.
From Qv Require Import gen.Tables_digit DigitModel DigitModelSpec.
Import ListNotations.
Local Open Scope N_scope.

Definition rt_double_ok (bits : N) : bool :=
  match roundtrip finfo_double 17 bits with
  | Ok (_, p) => c11_double_oracle bits (p_kind p) (p_bits p) =? 1
  | Err _ => false
  end.
Definition rt_float_ok (bits : N) : bool :=
  match roundtrip finfo_float 9 bits with
  | Ok (_, p) => c11_float_oracle bits (p_kind p) (p_bits p) =? 1
  | Err _ => false
  end.

(* one double per group of 8 binades (random-looking mantissa), the extremes, +-0, some integers *)
Definition rt_sample_double : list N :=
  map (fun e => N.of_nat e * 8 * 4503599627370496 + (2718281828459045 * (N.of_nat e + 1)) mod 4503599627370496) (seq 0 256)
  ++ [0; 9223372036854775808; 1; 4503599627370495; 4503599627370496; 9218868437227405311; 18442240474082181119;
      4607182418800017408; 4621537642612260864; 4841369599423283200; 4890909195324358656; 4503599627370497].
Definition rt_sample_float : list N :=
  map (fun e => N.of_nat e * 8388608 + (314159265 * (N.of_nat e + 1)) mod 8388608) (seq 0 255)
  ++ [0; 2147483648; 1; 8388607; 8388608; 2139095039; 1065353216; 1078530011].

Lemma rt_sample_double_ok : forallb rt_double_ok rt_sample_double = true.
Proof. vm_compute. reflexivity. Qed.
Lemma rt_sample_float_ok : forallb rt_float_ok rt_sample_float = true.
Proof. vm_compute. reflexivity. Qed.
