(* TrenderModel.v -- Template.hpp render / renderVariable / renderRawVariable / renderMath /
   renderSuperVariable / renderInLineIf / renderLoop / renderIf / getValue over the tag tree of
   TparseModel.v, with every access checked.  DEFINITIONS ONLY.

   The code modelled is /repo as it is now plus findings/D74 (getValue compares offset2 with the
   name's length before it reads id[offset2]).

   * every stream_->Write(content_ + a, b - a) (and every escaped copy of a piece of the text) is
     [wslice site a b]: [RError (RSlice site)] when b < a (the unsigned length would wrap) or b > length
   * every content_[i] read by getValue is [rdc site i]: [RError (RRead site)] when i >= length
   * a key handed to the value (content_ + a, n) is [kslice]: n = 0 is the empty key (nothing is
     read), otherwise the slice must lie inside the text
   * loops_items_->Storage()[Level] is [item_at] / [item_set]: [RError (RIndex site)] when Level >= size;
     the list grows as renderLoop grows it (while size <= Level)
   * s_tag + StartID is checked against SubTags.Size() ([RError (RIndex site)])
   * tag.Offset - PrefixLength is a checked subtraction ([RError (RSlice site)])
   * the VALUE side is abstract: a Section over an arbitrary type [value] with total functions for
     lookup by key, the members a loop visits, the text of a scalar, the characters of a string,
     grouping and sorting; HTML escaping is an arbitrary function; expression evaluation is a pair of
     arbitrary functions (the text a math tag prints / the truth of a condition), which also get the
     offset of their tag and the current loop items.  Safety holds for every instance.
   * loops are structural (tag tree, member lists) or fuelled by a length. *)
From Coq Require Import NArith List Bool Arith.
From Qv Require Import gen.Tables_tparse TparseModel.
Import ListNotations.

Inductive rerr :=
| RSlice (site : N)      (* Write / slice with a negative length or past the end of the text *)
| RRead (site : N)       (* content_[i] with i >= length *)
| RIndex (site : N)      (* loops_items_[Level] / SubTags[StartID] outside the array *)
| RFuel.

Inductive rres (A : Type) :=
| ROk (a : A)
| RError (e : rerr).
Arguments ROk {A} a.
Arguments RError {A} e.

Definition rbind {A B} (x : rres A) (f : A -> rres B) : rres B :=
  match x with ROk a => f a | RError e => RError e end.

Section Render.
  Variable value : Type.
  Variable get_key : value -> list N -> option value.                 (* Value::GetValue(key, length) *)
  Variable members : value -> list (option value * list N).          (* what a loop visits: (item or null, key; empty for arrays) *)
  Variable value_text : bool -> value -> option (list N).            (* CopyValueTo (true: with the escape function); None = false *)
  Variable value_chars : value -> option (list N).                   (* SetCharAndLength *)
  Variable group_by : value -> list N -> option value.               (* GroupBy; None = false *)
  Variable sort_value : bool -> value -> value.                      (* copy + Sort(ascend) *)
  Variable esc : list N -> list N.                                    (* EscapeHTMLSpecialChars *)
  Definition item : Type := (option value * list N)%type.            (* LoopItem: Value, Key *)
  Variable eval_math : nat -> list qexpr -> list item -> option (list N).   (* evaluate + NumberToString; None = evaluate false *)
  Variable eval_cond : nat -> list qexpr -> list item -> option bool.       (* evaluate; Some b = (result > 0) *)
  Variable content : list N.
  Variable root : value.
  Let len := length content.

  Definition wslice (site : N) (a b : nat) : rres (list N) :=
    if a <=? b then if b <=? len then ROk (slice content a b) else RError (RSlice site) else RError (RSlice site).
  Definition rdc (site : N) (i : nat) : rres N :=
    match nth_error content i with Some c => ROk c | None => RError (RRead site) end.
  Definition kslice (site : N) (a n : nat) : rres (list N) :=
    if n =? 0 then ROk [] else if a + n <=? len then ROk (slice content a (a + n)) else RError (RSlice site).
  Definition rsub (site : N) (a b : nat) : rres nat :=
    if b <=? a then ROk (a - b) else RError (RSlice site).

  Definition item_at (site : N) (items : list item) (level : N) : rres item :=
    match nth_error items (N.to_nat level) with Some it => ROk it | None => RError (RIndex site) end.
  Fixpoint set_nth (items : list item) (k : nat) (it : item) : list item :=
    match items, k with
    | [], _ => []
    | _ :: r, O => it :: r
    | x :: r, S k' => x :: set_nth r k' it
    end.
  Definition item_set (site : N) (items : list item) (level : N) (it : item) : rres (list item) :=
    if N.to_nat level <? length items then ROk (set_nth items (N.to_nat level) it) else RError (RIndex site).
  (* while (loops_items_->Size() <= tag.Level) *loops_items_ += LoopItem{} *)
  Definition grow (items : list item) (level : N) : list item :=
    items ++ repeat (None, []) (S (N.to_nat level) - length items).

  (* ---- getValue ---- *)
  (* while ((off < lim) && (id[off] != c)) ++off;    id = content_ + base;  fuel = lim - off *)
  Fixpoint scan_to (site : N) (c : N) (fuel base off lim : nat) : rres nat :=
    if off <? lim then
      match fuel with
      | O => RError RFuel
      | S f => rbind (rdc site (base + off)) (fun ch => if N.eqb ch c then ROk off else scan_to site c f base (S off) lim)
      end
    else ROk off.

  Definition lookup (v : option value) (k : list N) : option value :=
    match v with Some x => get_key x k | None => None end.

  (* the while (value != nullptr) loop; [offset] is the char after '['; fuel = length + 1 *)
  Fixpoint walk (fuel base length offset : nat) (v : option value) : rres (option value) :=
    match v with
    | None => ROk None
    | Some x =>
      match fuel with
      | O => RError RFuel
      | S f =>
        rbind (scan_to 201 93%N (length - offset) base offset length) (fun offset2 =>
        rbind (rsub 202 offset2 offset) (fun klen =>
        rbind (kslice 203 (base + offset) klen) (fun k =>
          let v' := get_key x k in
          let offset2 := S offset2 in
          (* findings/D74: offset2 is compared with the length first *)
          if length <=? offset2 then ROk v'
          else rbind (rdc 204 (base + offset2)) (fun ch =>
                 if N.eqb ch 91%N then walk f base length (S offset2) v' else ROk v'))))
      end
    end.

  Definition get_value (v : vtag) (items : list item) : rres (option value) :=
    let base := v_off v in
    let length := N.to_nat (v_len v) in
    rbind (if length =? 0 then ROk false
           else rbind (rdc 205 (base + (length - 1))) (fun ch => ROk (N.eqb ch 93%N))) (fun has_index =>
      if N.eqb (v_idlen v) 0 then
        if negb has_index then rbind (kslice 206 base length) (fun k => ROk (get_key root k))
        else
          rbind (scan_to 207 91%N length base 0 length) (fun offset =>
          rbind (if offset =? 0 then ROk None else rbind (kslice 208 base offset) (fun k => ROk (get_key root k))) (fun v0 =>
            walk (S length) base length (S offset) v0))
      else
        rbind (item_at 209 items (v_level v)) (fun it =>
          if negb has_index then ROk (fst it)
          else walk (S length) base length (S (N.to_nat (v_idlen v))) (fst it))).

  (* ---- leaves: (text written, cursor after the tag) ---- *)
  Definition render_var (v : vtag) (offset : nat) (items : list item) : rres (list N * nat) :=
    rbind (rsub 210 (v_off v) tpp_VariablePrefixLength) (fun t_offset =>
      let length := N.to_nat (v_len v) + tpp_VariableFullLength in
      rbind (wslice 211 offset t_offset) (fun out1 =>
      rbind (get_value v items) (fun val =>
        match match val with Some x => value_text true x | None => None end with
        | Some txt => ROk (out1 ++ txt, t_offset + length)
        | None =>
          rbind (if N.eqb (v_idlen v) 0 then ROk []
                 else rbind (item_at 212 items (v_level v)) (fun it => ROk (snd it))) (fun key =>
            match key with
            | _ :: _ => ROk (out1 ++ esc key, t_offset + length)
            | [] => rbind (wslice 213 t_offset (t_offset + length)) (fun echo => ROk (out1 ++ esc echo, t_offset + length))
            end)
        end))).

  Definition render_raw (v : vtag) (offset : nat) (items : list item) : rres (list N * nat) :=
    rbind (rsub 214 (v_off v) tpp_RawVariablePrefixLength) (fun t_offset =>
      let length := N.to_nat (v_len v) + tpp_VariableFullLength in
      rbind (wslice 215 offset t_offset) (fun out1 =>
      rbind (get_value v items) (fun val =>
        match match val with Some x => value_text false x | None => None end with
        | Some txt => ROk (out1 ++ txt, t_offset + length)
        | None => rbind (wslice 216 t_offset (t_offset + length)) (fun echo => ROk (out1 ++ echo, t_offset + length))
        end))).

  Definition render_math (o e : nat) (ex : list qexpr) (offset : nat) (items : list item) : rres (list N * nat) :=
    rbind (wslice 217 offset o) (fun out1 =>
      match (match ex with [] => None | _ => eval_math o ex items end) with
      | Some txt => ROk (out1 ++ txt, e)
      | None => rbind (wslice 218 o e) (fun echo => ROk (out1 ++ echo, e))
      end).

  (* a sub tag of a super variable, rendered on its own (cursor at its start) *)
  Definition render_sub (t : tag) (items : list item) : rres (list N) :=
    match t with
    | PVar v => rbind (rsub 219 (v_off v) tpp_VariablePrefixLength) (fun o => rbind (render_var v o items) (fun r => ROk (fst r)))
    | PRaw v => rbind (rsub 220 (v_off v) tpp_RawVariablePrefixLength) (fun o => rbind (render_raw v o items) (fun r => ROk (fst r)))
    | PMath o e ex => rbind (render_math o e ex o items) (fun r => ROk (fst r))
    | _ => ROk []
    end.

  (* the phrase scan of renderSuperVariable; [acc] is what was written, fuel = |phrase| + 1 *)
  Fixpoint phrase_scan (fuel : nat) (phrase : list N) (subs : list tag) (items : list item)
           (index last_index : nat) (acc : list N) : rres (list N) :=
    let plen := length phrase in
    if index <? plen then
      match fuel with
      | O => RError RFuel
      | S f =>
        if N.eqb (nth index phrase 0%N) 123%N then
          let start := index in
          let acc1 := acc ++ esc (slice phrase last_index start) in
          let index1 := S index in
          if index1 <? plen then
            let ch := nth index1 phrase 0%N in
            let index2 := S index1 in
            if (index2 <? plen) && N.eqb (nth index2 phrase 0%N) 125%N then
              (* id = SizeT(content[index] - '0'): a unit below '0' wraps to a huge id *)
              if N.leb 48 ch && (N.to_nat (ch - 48) <? length subs) then
                match nth_error subs (N.to_nat (ch - 48)) with
                | Some t => rbind (render_sub t items) (fun o => phrase_scan f phrase subs items (S index2) (S index2) (acc1 ++ o))
                | None => RError (RIndex 221)
                end
              else phrase_scan f phrase subs items (S (S index2)) start acc1
            else phrase_scan f phrase subs items (S index2) start acc1
          else phrase_scan f phrase subs items (S index1) start acc1
        else phrase_scan f phrase subs items (S index) last_index acc
      end
    else ROk (acc ++ esc (slice phrase last_index plen)).

  (* s_tag + StartID must stay inside SubTags *)
  Definition check_id (site : N) (subs : list tag) (id : N) : rres nat :=
    if N.to_nat id <=? length subs then ROk (N.to_nat id) else RError (RIndex site).

  (* ---- render / the tags with sub tags ---- *)
  Fixpoint render_tag (t : tag) (offset : nat) (items : list item) {struct t} : rres (list N * nat * list item) :=
    let rl := fix rl (l : list tag) (offset end_offset : nat) (items : list item) {struct l} : rres (list N * list item) :=
                match l with
                | [] => rbind (wslice 230 offset end_offset) (fun o => ROk (o, items))
                | x :: r =>
                  rbind (render_tag x offset items) (fun res =>
                    let '(o, off', items') := res in
                    rbind (rl r off' end_offset items') (fun res2 => ROk (o ++ fst res2, snd res2)))
                end in
    (* render(s_tag + skip, s_tag + skip + take, ...) on a part of an array *)
    let rlr := fix rlr (l : list tag) (skip take : nat) (offset end_offset : nat) (items : list item) {struct l}
                 : rres (list N * list item) :=
                 match l with
                 | [] => rbind (wslice 230 offset end_offset) (fun o => ROk (o, items))
                 | x :: r =>
                   match skip with
                   | S k => rlr r k take offset end_offset items
                   | O =>
                     match take with
                     | O => rbind (wslice 230 offset end_offset) (fun o => ROk (o, items))
                     | S m =>
                       rbind (render_tag x offset items) (fun res =>
                         let '(o, off', items') := res in
                         rbind (rlr r 0 m off' end_offset items') (fun res2 => ROk (o ++ fst res2, snd res2)))
                     end
                   end
                 end in
    match t with
    | PVar v => rbind (render_var v offset items) (fun r => ROk (fst r, snd r, items))
    | PRaw v => rbind (render_raw v offset items) (fun r => ROk (fst r, snd r, items))
    | PMath o e ex => rbind (render_math o e ex offset items) (fun r => ROk (fst r, snd r, items))
    | PSVar o e v subs =>
      rbind (get_value v items) (fun s_var =>
      rbind (wslice 231 offset o) (fun out1 =>
        match match s_var with Some x => value_chars x | None => None end with
        | Some phrase =>
          rbind (phrase_scan (S (length phrase)) phrase subs items 0 0 []) (fun o2 => ROk (out1 ++ o2, e, items))
        | None => rbind (wslice 232 o e) (fun echo => ROk (out1 ++ echo, e, items))
        end))
    | PIIf i c subs =>
      rbind (wslice 233 offset (i_off i)) (fun out1 =>
        let off' := i_off i + N.to_nat (i_len i) in
        match (match c with [] => None | _ => eval_cond (i_off i) c items end) with
        | None => ROk (out1, off', items)
        | Some true =>
          let vo := i_off i + N.to_nat (i_toff i) in
          rbind (if N.ltb (i_toff i) (i_foff i)
                 then rbind (check_id 234 subs (i_fid i)) (fun id => rlr subs 0 id vo (vo + N.to_nat (i_tlen i)) items)
                 else rbind (check_id 235 subs (i_tid i)) (fun id => rlr subs id (length subs) vo (vo + N.to_nat (i_tlen i)) items))
                (fun r => ROk (out1 ++ fst r, off', snd r))
        | Some false =>
          let vo := i_off i + N.to_nat (i_foff i) in
          rbind (if N.ltb (i_foff i) (i_toff i)
                 then rbind (check_id 236 subs (i_tid i)) (fun id => rlr subs 0 id vo (vo + N.to_nat (i_flen i)) items)
                 else rbind (check_id 237 subs (i_fid i)) (fun id => rlr subs id (length subs) vo (vo + N.to_nat (i_flen i)) items))
                (fun r => ROk (out1 ++ fst r, off', snd r))
        end)
    | PLoop l subs =>
      rbind (wslice 238 offset (l_off l)) (fun out1 =>
        let off' := l_end l + tpp_LoopSuffixLength in
        rbind (if N.eqb (v_len (l_set l)) 0 then ROk (Some root) else get_value (l_set l) items) (fun set0 =>
          match set0 with
          | None => ROk (out1, off', items)
          | Some s0 =>
            rbind (if N.eqb (l_glen l) 0 then ROk (Some s0)
                   else rbind (kslice 239 (l_off l + N.to_nat (l_goff l)) (N.to_nat (l_glen l))) (fun k => ROk (group_by s0 k))) (fun s1 =>
              match s1 with
              | None => ROk (out1, off', items)
              | Some s1 =>
                let s2 := if N.ltb 1 (l_opts l) then sort_value (N.eqb (N.land (l_opts l) tpp_SortAscend) tpp_SortAscend) s1 else s1 in
                let items1 := grow items (l_level l) in
                let content_offset := l_off l + N.to_nat (l_coff l) in
                rbind ((fix each (ms : list item) (items : list item) {struct ms} : rres (list N * list item) :=
                          match ms with
                          | [] => ROk ([], items)
                          | m :: r =>
                            rbind (item_set 240 items (l_level l) m) (fun items' =>
                            rbind (match fst m with
                                   | Some _ => rl subs content_offset (l_end l) items'
                                   | None => ROk ([], items')
                                   end) (fun res =>
                            rbind (each r (snd res)) (fun res2 => ROk (fst res ++ fst res2, snd res2))))
                          end) (members s2) items1) (fun res => ROk (out1 ++ fst res, off', snd res))
              end)
          end))
    | PIf o e cases =>
      rbind (wslice 241 offset o) (fun out1 =>
        match cases with
        | PCase _ _ (_ :: _) _ :: _ =>
          rbind ((fix pick (cs : list ifcase) {struct cs} : rres (list N * list item) :=
                    match cs with
                    | [] => ROk ([], items)
                    | PCase co ce cc sb :: r =>
                      if (match cc with [] => true | _ => match eval_cond co cc items with Some true => true | _ => false end end)
                      then rl sb co ce items
                      else pick r
                    end) cases) (fun res => ROk (out1 ++ fst res, e, snd res))
        | _ => ROk (out1, e, items)
        end)
    end.

  Fixpoint render_list (l : list tag) (offset end_offset : nat) (items : list item) {struct l} : rres (list N * list item) :=
    match l with
    | [] => rbind (wslice 230 offset end_offset) (fun o => ROk (o, items))
    | x :: r =>
      rbind (render_tag x offset items) (fun res =>
        let '(o, off', items') := res in
        rbind (render_list r off' end_offset items') (fun res2 => ROk (o ++ fst res2, snd res2)))
    end.

  (* TemplateCore::Render: render(tags, 0, length) with an empty loops_items_ *)
  Definition render_model (tags : list tag) : rres (list N) :=
    rbind (render_list tags 0 len []) (fun r => ROk (fst r)).
End Render.
