(* ExprProofs.v -- C04, part 1: the precedence theorem.
   The (repaired) flat-list evaluator TemplateCore::evaluate returns exactly
   what evaluating the textbook precedence-climbing tree returns -- values,
   "no value" and errors alike -- for every well-formed item list, every leaf
   reader and every operator semantics; the fuel 2*|l|+2 is sufficient. *)
From Coq Require Import NArith ZArith List Bool Lia Arith.
From Qv Require Import gen.Tables_expr ExprModel.
Import ListNotations.
Local Open Scope N_scope.

Lemma noop_is_zero : op_NoOp = 0.
Proof. reflexivity. Qed.

Definition headop (l : items) : N := match l with (_, op) :: _ => op | [] => 0 end.

(* the shape parseExpressions produces: non-empty, exactly the last item carries NoOp *)
Fixpoint wf (l : items) : Prop :=
  match l with
  | [] => False
  | (_, op) :: rest => match rest with [] => op = 0 | _ :: _ => op <> 0 /\ wf rest end
  end.

Definition entry (l : items) (p : N) : Prop := headop l = 0 \/ p < headop l.

Lemma std_S : forall f l m, std (S f) l m =
  match l with [] => None | (o, _) :: _ => climb f (Leaf o) l m end.
Proof. reflexivity. Qed.
Lemma climb_S : forall f lhs cur m, climb (S f) lhs cur m =
  match cur with
  | [] => None
  | (_, op) :: rest =>
    if (op =? op_NoOp) || (op <? m) then Some (lhs, cur)
    else match std f rest (op + 1) with
         | None => None
         | Some (rhs, cur') => climb f (Node op lhs rhs) cur' m
         end
  end.
Proof. reflexivity. Qed.

Lemma std_nil : forall f m, std f [] m = None.
Proof. destruct f; reflexivity. Qed.

Lemma wf_tail : forall o op x rest, wf ((o, op) :: x :: rest) -> op <> 0 /\ wf (x :: rest).
Proof. intros o op x rest H. exact H. Qed.

Lemma wf_cons_inv : forall o op rest, wf ((o, op) :: rest) ->
  (rest = [] /\ op = 0) \/ (op <> 0 /\ wf rest /\ rest <> []).
Proof.
  intros o op [|x rest] H; simpl in H.
  - left; auto.
  - right. destruct H as [H1 H2]. repeat split; auto. discriminate.
Qed.

Lemma wf_nonempty : forall l, wf l -> l <> [].
Proof. intros [|x l] H; [destruct H|discriminate]. Qed.

(* what precedence climbing returns is well-formed again and not longer *)
Lemma std_shape : forall f,
  (forall l m t r, wf l -> std f l m = Some (t, r) -> wf r /\ (length r <= length l)%nat) /\
  (forall tl l m t r, wf l -> climb f tl l m = Some (t, r) -> wf r /\ (length r <= length l)%nat).
Proof.
  induction f as [|f [IHs IHc]]; split; intros; try discriminate.
  - rewrite std_S in H0. destruct l as [|[o op] rest]; [discriminate|]. eapply IHc; eauto.
  - rewrite climb_S in H0. destruct l as [|[o op] rest]; [discriminate|].
    destruct ((op =? op_NoOp) || (op <? m)) eqn:E.
    + inversion H0; subst. split; [assumption|lia].
    + destruct (std f rest (op + 1)) as [[rhs cur']|] eqn:E2; [|discriminate].
      destruct (wf_cons_inv _ _ _ H) as [[-> _]|(_ & Hw & _)].
      { rewrite std_nil in E2. discriminate. }
      destruct (IHs _ _ _ _ Hw E2) as [Hw' Hl'].
      destruct (IHc _ _ _ _ _ Hw' H0) as [Hw'' Hl'']. split; [assumption|simpl; lia].
Qed.

(* ... and a suffix of the input as far as any property of the items goes *)
Lemma std_forall : forall (Q : item -> Prop) f,
  (forall l m t r, Forall Q l -> std f l m = Some (t, r) -> Forall Q r) /\
  (forall tl l m t r, Forall Q l -> climb f tl l m = Some (t, r) -> Forall Q r).
Proof.
  intros Q. induction f as [|f [IHs IHc]]; split; intros; try discriminate.
  - rewrite std_S in H0. destruct l as [|[o op] rest]; [discriminate|]. eapply IHc; eauto.
  - rewrite climb_S in H0. destruct l as [|[o op] rest]; [discriminate|].
    destruct ((op =? op_NoOp) || (op <? m)) eqn:E.
    + inversion H0; subst. assumption.
    + destruct (std f rest (op + 1)) as [[rhs cur']|] eqn:E2; [|discriminate].
      eapply IHc; [|exact H0]. eapply IHs; [|exact E2]. exact (Forall_inv_tail H).
Qed.

Definition is_node (t : tree) : Prop := match t with Node _ _ _ => True | Leaf _ => False end.

Lemma climb_node : forall f tl l m t r, is_node tl -> climb f tl l m = Some (t, r) -> is_node t.
Proof.
  induction f as [|f IH]; intros tl l m t r Hn H; [discriminate|].
  rewrite climb_S in H. destruct l as [|[o op] rest]; [discriminate|].
  destruct ((op =? op_NoOp) || (op <? m)).
  - inversion H; subst; assumption.
  - destruct (std f rest (op + 1)) as [[rhs cur']|]; [|discriminate].
    eapply IH; [|exact H]. exact I.
Qed.

(* climbing from an item whose operator qualifies builds a Node *)
Lemma std_node : forall f o op rest m t r,
  op <> 0 -> m <= op -> std f ((o, op) :: rest) m = Some (t, r) -> is_node t.
Proof.
  intros f o op rest m t r Hop Hm H.
  destruct f as [|f]; [discriminate|]. rewrite std_S in H.
  destruct f as [|f]; [discriminate|]. rewrite climb_S in H.
  replace ((op =? op_NoOp) || (op <? m)) with false in H.
  2:{ symmetry. apply orb_false_iff. split; [apply N.eqb_neq; rewrite noop_is_zero; assumption|apply N.ltb_ge; assumption]. }
  destruct (std f rest (op + 1)) as [[rhs cur']|]; [|discriminate].
  eapply climb_node; [|exact H]. exact I.
Qed.

Section Prec.
  Context {A : Type}.
  Variable leaf : N -> N -> operand -> outcome A.
  Variable sleaf : N -> operand -> outcome A.
  Variable apply : N -> A -> A -> outcome A.
  Variable isnan : A -> bool.
  (* the reader of the flat list agrees with the tree's reader whenever it is
     called the way evaluate calls it *)
  Variable P : operand -> Prop.      (* what is known about the operands of the list (sub-lists) *)
  Hypothesis H_leaf : forall c own o, P o -> (c = 0 -> own = 0) -> leaf c own o = sleaf c o.
  (* an operator never leaves a NotANumber-typed value behind with "true" *)
  Hypothesis H_apply : forall op a b v, apply op a b = Ok v -> isnan v = false.

  Notation tev := (tree_eval_ctx sleaf apply).
  Notation EV := (ev leaf apply isnan).
  Notation LOOP := (ev_loop leaf apply isnan).

  Lemma ev_S : forall f l prev, EV (S f) l prev =
    match l with
    | [] => Err EShape
    | (o, op) :: _ => bind (leaf op op o) (fun x => LOOP f x l prev)
    end.
  Proof. reflexivity. Qed.
  Lemma loop_S : forall f lhs cur prev, LOOP (S f) lhs cur prev =
    match cur with
    | [] => Err EShape
    | (_, op) :: rest =>
      if op =? op_NoOp then (if isnan lhs then NoValue else Ok (lhs, cur))
      else match rest with
           | [] => Err EShape
           | (o2, op2) :: _ =>
             if op2 <=? op then
               bind (leaf op op2 o2) (fun r =>
               bind (apply op lhs r) (fun lhs' =>
                 if prev <? op2 then LOOP f lhs' rest prev else Ok (lhs', rest)))
             else
               bind (EV f rest op) (fun '(r, cur') =>
               bind (apply op lhs r) (fun lhs' =>
                 match cur' with
                 | [] => Err EShape
                 | (_, opc) :: _ => if prev <? opc then LOOP f lhs' cur' prev else Ok (lhs', cur')
                 end))
           end
    end.
  Proof. reflexivity. Qed.

  Definition Rc (t : tree) (rest : items) : outcome (A * items) :=
    bind (tev (headop rest) t)
         (fun v => if (headop rest =? 0) && isnan v then NoValue else Ok (v, rest)).

  Lemma tev_node_ctx : forall c c' op a b, tev c (Node op a b) = tev c' (Node op a b).
  Proof. reflexivity. Qed.

  Lemma tev_node_notnan : forall c t v, is_node t -> tev c t = Ok v -> isnan v = false.
  Proof.
    intros c [o|op a b] v Hn H; [destruct Hn|].
    cbn [tree_eval_ctx] in H.
    destruct (tev op a) as [x| |e]; cbn [bind] in H; try discriminate.
    destruct (tev op b) as [y| |e]; cbn [bind] in H; try discriminate.
    eapply H_apply; eauto.
  Qed.

  Definition failed {B} (x : outcome B) : Prop := match x with Ok _ => False | _ => True end.
  Definition same_failure {B C} (x : outcome B) (y : outcome C) : Prop :=
    match x, y with
    | NoValue, NoValue => True
    | Err e, Err e' => e = e'
    | _, _ => False
    end.

  Lemma same_failure_refl : forall B (x : outcome B), failed x -> same_failure x x.
  Proof. intros B [a| |e] H; simpl in *; auto. Qed.

  (* a failing left operand makes the whole climbed tree fail the same way *)
  Lemma climb_fail : forall f tl l m t r,
    climb f tl l m = Some (t, r) -> failed (tev (headop l) tl) ->
    same_failure (tev (headop l) tl) (tev (headop r) t).
  Proof.
    induction f as [|f IH]; intros tl l m t r H Hf; [discriminate|].
    rewrite climb_S in H. destruct l as [|[o op] rest]; [discriminate|].
    destruct ((op =? op_NoOp) || (op <? m)).
    - inversion H; subst. apply same_failure_refl. exact Hf.
    - destruct (std f rest (op + 1)) as [[rhs cur']|]; [|discriminate].
      cbn [headop] in *.
      assert (Hn : tev (headop cur') (Node op tl rhs) = match tev op tl with Ok _ => tev (headop cur') (Node op tl rhs) | NoValue => NoValue | Err e => Err e end).
      { cbn [tree_eval_ctx]. destruct (tev op tl); reflexivity. }
      specialize (IH (Node op tl rhs) cur' m t r H).
      destruct (tev op tl) as [x| |e] eqn:E; [destruct Hf| |].
      + rewrite Hn in IH. specialize (IH I). destruct (tev (headop r) t); simpl in *; auto.
      + rewrite Hn in IH. specialize (IH I). destruct (tev (headop r) t); simpl in *; auto.
  Qed.

  Lemma Rc_fail : forall f tl l m t r,
    climb f tl l m = Some (t, r) ->
    (tev (headop l) tl = NoValue -> Rc t r = NoValue) /\
    (forall e, tev (headop l) tl = Err e -> Rc t r = Err e).
  Proof.
    intros f tl l m t r H. pose proof (climb_fail _ _ _ _ _ _ H) as Hc.
    split; [intros E|intros e E]; rewrite E in Hc; specialize (Hc I); unfold Rc;
      destruct (tev (headop r) t); simpl in *; try contradiction; congruence.
  Qed.

  Lemma false_or : forall op m, op <> 0 -> m <= op -> (op =? op_NoOp) || (op <? m) = false.
  Proof.
    intros op m H1 H2. apply orb_false_iff. split; [apply N.eqb_neq; rewrite noop_is_zero; assumption|apply N.ltb_ge; assumption].
  Qed.

  (* std on a list whose head operator does not qualify stops at once *)
  Lemma std_stop : forall f o op rest m t r,
    (op = 0 \/ op < m) -> std f ((o, op) :: rest) m = Some (t, r) -> t = Leaf o /\ r = (o, op) :: rest.
  Proof.
    intros f o op rest m t r Hs H.
    destruct f as [|f]; [discriminate|]. rewrite std_S in H.
    destruct f as [|f]; [discriminate|]. rewrite climb_S in H.
    replace ((op =? op_NoOp) || (op <? m)) with true in H.
    - inversion H; auto.
    - symmetry. apply orb_true_iff. destruct Hs as [->|Hs]; [left; reflexivity|right; apply N.ltb_lt; assumption].
  Qed.

  Lemma climb_stop : forall f tl o op rest m t r,
    (op = 0 \/ op < m) -> climb f tl ((o, op) :: rest) m = Some (t, r) -> t = tl /\ r = (o, op) :: rest.
  Proof.
    intros f tl o op rest m t r Hs H.
    destruct f as [|f]; [discriminate|]. rewrite climb_S in H.
    replace ((op =? op_NoOp) || (op <? m)) with true in H.
    - inversion H; auto.
    - symmetry. apply orb_true_iff. destruct Hs as [->|Hs]; [left; reflexivity|right; apply N.ltb_lt; assumption].
  Qed.

  (* the simulation: evaluate with previous operator p = precedence climbing with minimum rank p+1 *)
  Notation allP := (Forall (fun it : item => P (fst it))).
  Lemma sim : forall f,
    (forall l p t r f', wf l -> allP l -> entry l p -> (2 * length l + 1 <= f)%nat ->
       std f' l (p + 1) = Some (t, r) -> EV f l p = Rc t r) /\
    (forall x tl l p t r f', wf l -> allP l -> entry l p -> (2 * length l <= f)%nat ->
       tev (headop l) tl = Ok x ->
       climb f' tl l (p + 1) = Some (t, r) -> LOOP f x l p = Rc t r).
  Proof.
    induction f as [|f [IHe IHl]]; split.
    - intros l p t r f' Hw _ _ Hf. lia.
    - intros x tl l p t r f' Hw _ _ Hf. destruct l; [destruct Hw|simpl in Hf; lia].
    - (* ev *)
      intros l p t r f' Hw HP He Hf Hs.
      destruct l as [|[o op] rest]; [destruct Hw|].
      destruct f' as [|f']; [discriminate|]. rewrite std_S in Hs.
      rewrite ev_S. rewrite (H_leaf op op o) by (auto; exact (Forall_inv HP)).
      destruct (sleaf op o) as [x| |e] eqn:El; cbn [bind].
      + eapply (IHl x (Leaf o)); [exact Hw|exact HP|exact He|simpl in Hf |- *; lia|cbn [headop tree_eval_ctx]; exact El|exact Hs].
      + apply (Rc_fail _ _ _ _ _ _ Hs) in El. symmetry; exact El.
      + destruct (Rc_fail _ _ _ _ _ _ Hs) as [_ Hr]. symmetry. apply Hr. exact El.
    - (* loop *)
      intros x tl l p t r f' Hw HP He Hf Hx Hc.
      destruct l as [|[o op] rest]; [destruct Hw|].
      cbn [headop] in Hx.
      rewrite loop_S.
      destruct (op =? op_NoOp) eqn:E0.
      + (* NoOp: the end of the list *)
        apply N.eqb_eq in E0. rewrite noop_is_zero in E0. subst op.
        destruct (climb_stop _ _ _ _ _ _ _ _ (or_introl eq_refl) Hc) as [-> ->].
        unfold Rc. cbn [headop]. rewrite Hx. cbn [bind]. rewrite N.eqb_refl. reflexivity.
      + apply N.eqb_neq in E0. rewrite noop_is_zero in E0.
        assert (Hp : p < op). { destruct He as [He|He]; cbn [headop] in He; [contradiction|assumption]. }
        destruct (wf_cons_inv _ _ _ Hw) as [[_ ->]|(_ & Hwr & Hne)]; [contradiction|].
        destruct rest as [|[o2 op2] rest']; [contradiction|].
        assert (HPr : allP ((o2, op2) :: rest')) by exact (Forall_inv_tail HP).
        destruct f' as [|f']; [discriminate|]. rewrite climb_S in Hc.
        rewrite false_or in Hc by (auto; lia). cbv beta iota in Hc.
        match type of Hc with context [match ?X with _ => _ end] => destruct X as [[rhs cur']|] eqn:Es end; [|discriminate Hc].
        destruct (op2 <=? op) eqn:Ele.
        * (* the next operator does not bind tighter: apply now *)
          apply N.leb_le in Ele.
          assert (Hst : op2 = 0 \/ op2 < op + 1) by (right; lia).
          destruct (std_stop _ _ _ _ _ _ _ Hst Es) as [-> ->].
          rewrite (H_leaf op op2 o2) by (try exact (Forall_inv HPr); intros ->; contradiction).
          assert (Hnode : forall c, tev c (Node op tl (Leaf o2)) =
                    bind (sleaf op o2) (fun b => apply op x b)).
          { intros c. cbn [tree_eval_ctx]. rewrite Hx. reflexivity. }
          destruct (sleaf op o2) as [b| |e] eqn:El; cbn [bind].
          2:{ destruct (Rc_fail _ _ _ _ _ _ Hc) as [Hr _]. symmetry. apply Hr. rewrite Hnode. reflexivity. }
          2:{ destruct (Rc_fail _ _ _ _ _ _ Hc) as [_ Hr]. symmetry. apply Hr. rewrite Hnode. reflexivity. }
          destruct (apply op x b) as [lhs'| |e] eqn:Ea; cbn [bind].
          2:{ destruct (Rc_fail _ _ _ _ _ _ Hc) as [Hr _]. symmetry. apply Hr. rewrite Hnode. cbn [bind]. exact Ea. }
          2:{ destruct (Rc_fail _ _ _ _ _ _ Hc) as [_ Hr]. symmetry. apply Hr. rewrite Hnode. cbn [bind]. exact Ea. }
          destruct (p <? op2) eqn:Ep.
          -- apply N.ltb_lt in Ep.
             eapply IHl; [exact Hwr|exact HPr|right; exact Ep|simpl in Hf |- *; lia| |exact Hc].
             rewrite Hnode. cbn [bind]. exact Ea.
          -- apply N.ltb_ge in Ep.
             assert (Hst2 : op2 = 0 \/ op2 < p + 1) by (right; lia).
             destruct (climb_stop _ _ _ _ _ _ _ _ Hst2 Hc) as [-> ->].
             unfold Rc. rewrite Hnode. cbn [bind]. rewrite Ea. cbn [bind].
             rewrite (H_apply _ _ _ _ Ea). rewrite andb_false_r. reflexivity.
        * (* the next operator binds tighter: recursive evaluate, then the D1 re-test *)
          apply N.leb_gt in Ele.
          match goal with |- context [ev ?a ?b ?c ?d ?e ?g] =>
            assert (Hev : ev a b c d e g = Rc rhs cur');
            [eapply IHe; [exact Hwr|exact HPr|right; exact Ele|simpl in Hf |- *; lia|exact Es]|rewrite Hev]
          end.
          assert (Hnd : is_node rhs) by (eapply std_node; [| |exact Es]; lia).
          destruct (proj1 (std_shape f') _ _ _ _ Hwr Es) as [Hwc Hlc].
          pose proof (proj1 (std_forall _ f') _ _ _ _ HPr Es) as HPc.
          assert (Hnode : forall c, tev c (Node op tl rhs) = bind (tev op rhs) (fun b => apply op x b)).
          { intros c. cbn [tree_eval_ctx]. rewrite Hx. reflexivity. }
          unfold Rc at 1.
          destruct rhs as [?|opr ra rb]; [destruct Hnd|].
          rewrite (tev_node_ctx (headop cur') op).
          destruct (tev op (Node opr ra rb)) as [b| |e] eqn:Er; cbn [bind].
          2:{ destruct (Rc_fail _ _ _ _ _ _ Hc) as [Hr _]. symmetry. apply Hr. rewrite Hnode; try rewrite Er; reflexivity. }
          2:{ destruct (Rc_fail _ _ _ _ _ _ Hc) as [_ Hr]. symmetry. apply Hr. rewrite Hnode; try rewrite Er; reflexivity. }
          rewrite (tev_node_notnan op (Node opr ra rb) b I Er). rewrite andb_false_r. cbn [bind].
          destruct (apply op x b) as [lhs'| |e] eqn:Ea; cbn [bind].
          2:{ destruct (Rc_fail _ _ _ _ _ _ Hc) as [Hr _]. symmetry. apply Hr. rewrite Hnode; try rewrite Er; cbn [bind]; exact Ea. }
          2:{ destruct (Rc_fail _ _ _ _ _ _ Hc) as [_ Hr]. symmetry. apply Hr. rewrite Hnode; try rewrite Er; cbn [bind]; exact Ea. }
          destruct cur' as [|[oc opc] cs]; [destruct Hwc|].
          destruct (p <? opc) eqn:Ep.
          -- apply N.ltb_lt in Ep.
             eapply IHl; [exact Hwc|exact HPc|right; exact Ep|simpl in Hf, Hlc |- *; lia| |exact Hc].
             rewrite Hnode; try rewrite Er; cbn [bind]; exact Ea.
          -- apply N.ltb_ge in Ep.
             assert (Hst2 : opc = 0 \/ opc < p + 1) by (right; lia).
             destruct (climb_stop _ _ _ _ _ _ _ _ Hst2 Hc) as [-> ->].
             unfold Rc. rewrite Hnode; try rewrite Er. cbn [bind]. rewrite Ea. cbn [bind].
             rewrite (H_apply _ _ _ _ Ea). rewrite andb_false_r. reflexivity.
  Qed.

  (* precedence climbing is total on well-formed lists with the fuel the model uses *)
  Lemma std_total : forall f,
    (forall l m, wf l -> (2 * length l + 1 <= f)%nat -> exists t r, std f l m = Some (t, r)) /\
    (forall tl l m, wf l -> (2 * length l <= f)%nat -> exists t r, climb f tl l m = Some (t, r)).
  Proof.
    induction f as [|f [IHs IHc]]; split.
    - intros l m Hw Hf. lia.
    - intros tl l m Hw Hf. destruct l; [destruct Hw|simpl in Hf; lia].
    - intros l m Hw Hf. destruct l as [|[o op] rest]; [destruct Hw|]. rewrite std_S.
      apply IHc; [assumption|simpl in Hf |- *; lia].
    - intros tl l m Hw Hf. destruct l as [|[o op] rest]; [destruct Hw|]. rewrite climb_S.
      destruct ((op =? op_NoOp) || (op <? m)) eqn:E; [eauto|].
      apply orb_false_iff in E. destruct E as [E _]. apply N.eqb_neq in E. rewrite noop_is_zero in E.
      destruct (wf_cons_inv _ _ _ Hw) as [[_ ->]|(_ & Hwr & _)]; [contradiction|].
      destruct (IHs rest (op + 1) Hwr) as (rhs & cur' & Es); [simpl in Hf; lia|].
      rewrite Es.
      destruct (proj1 (std_shape f) _ _ _ _ Hwr Es) as [Hwc Hlc].
      apply IHc; [assumption|simpl in Hf; lia].
  Qed.

  (* at the top level (previous operator NoOp) climbing consumes the whole list *)
  Lemma climb_top_end : forall f,
    (forall l t r, wf l -> std f l 1 = Some (t, r) -> headop r = 0) /\
    (forall tl l t r, wf l -> climb f tl l 1 = Some (t, r) -> headop r = 0).
  Proof.
    induction f as [|f [IHs IHc]]; split; intros; try discriminate.
    - rewrite std_S in H0. destruct l as [|[o op] rest]; [discriminate|]. eapply IHc; eauto.
    - rewrite climb_S in H0. destruct l as [|[o op] rest]; [discriminate|].
      destruct ((op =? op_NoOp) || (op <? 1)) eqn:E.
      + inversion H0; subst. cbn [headop]. apply orb_true_iff in E.
        destruct E as [E|E]; [apply N.eqb_eq in E; rewrite noop_is_zero in E; assumption|apply N.ltb_lt in E; lia].
      + destruct (std f rest (op + 1)) as [[rhs cur']|] eqn:E2; [|discriminate].
        destruct (wf_cons_inv _ _ _ H) as [[-> _]|(_ & Hw & _)].
        { rewrite std_nil in E2. discriminate. }
        destruct (proj1 (std_shape f) _ _ _ _ Hw E2) as [Hw' _].
        eapply IHc; eauto.
  Qed.

  (* THE PRECEDENCE THEOREM, generic form *)
  Theorem precedence_generic : forall l, wf l -> allP l ->
    exists t, std_tree l = Some t /\
              ev_top leaf apply isnan l = tree_eval_top sleaf apply isnan t.
  Proof.
    intros l Hw HP.
    destruct (proj1 (std_total (ev_fuel l)) l 1 Hw) as (t & r & Hs); [unfold ev_fuel; lia|].
    exists t. unfold std_tree. rewrite Hs. split; [reflexivity|].
    unfold ev_top, tree_eval_top.
    assert (He : entry l op_NoOp).
    { unfold entry. destruct l as [|[o op] rest]; [destruct Hw|]. cbn [headop]. rewrite noop_is_zero. destruct (N.eq_dec op 0); [left; assumption|right; lia]. }
    rewrite (proj1 (sim (ev_fuel l)) l op_NoOp t r (ev_fuel l) Hw HP He); [|unfold ev_fuel; lia|rewrite noop_is_zero; exact Hs].
    unfold Rc. rewrite (proj1 (climb_top_end (ev_fuel l)) _ _ _ Hw Hs).
    rewrite noop_is_zero.
    destruct (tree_eval_ctx sleaf apply 0 t) as [v| |e]; cbn [bind]; try reflexivity.
    rewrite N.eqb_refl. cbn [andb]. destruct (isnan v); reflexivity.
  Qed.
End Prec.
