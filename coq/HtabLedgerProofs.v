(* HtabLedgerProofs.v -- C16 (hash-table internals): counting lemmas, the heap primitives as
   transformers of the ownership balance, and every single-table operation of
   HtabLedgerModel.v: it never releases or touches a dead id and keeps the balance. *)
From Coq Require Import List Arith Bool Lia.
From Qv Require Import SeqModel HtabModel HtabProofsBase HtabLedgerModel.
Import ListNotations.

Arguments bn : simpl never.
Arguments lalloc : simpl never.
Arguments lfree : simpl never.
Arguments l_alloc_opt : simpl never.
Arguments l_resize : simpl never.
Arguments l_grow : simpl never.
Arguments l_dispose_slots : simpl never.
Arguments l_reset : simpl never.

(* ---------- counting ---------- *)
Lemma cnt_app x a b : cnt x (a ++ b) = cnt x a + cnt x b.
Proof. induction a as [|y a IH]; simpl; auto. rewrite IH. lia. Qed.
Lemma cnt_in x l : 1 <= cnt x l <-> In x l.
Proof.
  induction l as [|y l IH]; simpl; [split; [lia|tauto]|].
  destruct (Nat.eqb_spec y x) as [->|Hne]; simpl; [split; auto; lia|].
  rewrite IH. split; [auto|intros [E|E]; [contradiction|exact E]].
Qed.
Lemma cnt_nodup l : (forall x, cnt x l <= 1) -> NoDup l.
Proof.
  induction l as [|y l IH]; intros Hc; constructor.
  - intros Hin. apply cnt_in in Hin. specialize (Hc y). simpl in Hc. rewrite Nat.eqb_refl in Hc. simpl in Hc. lia.
  - apply IH. intros x. specialize (Hc x). simpl in Hc. lia.
Qed.
Lemma cnt_flat_upd {A} (f : A -> list nat) x (l : list A) n a d :
  n < length l -> cnt x (flat_map f (upd l n a)) + cnt x (f (nth n l d)) = cnt x (flat_map f l) + cnt x (f a).
Proof.
  revert n; induction l as [|b l IH]; intros [|n] Hn; simpl in *; try lia.
  - rewrite !cnt_app. lia.
  - rewrite !cnt_app. specialize (IH n ltac:(lia)). lia.
Qed.
Lemma slots_ids_app a b : slots_ids (a ++ b) = slots_ids a ++ slots_ids b.
Proof. apply flat_map_app. Qed.
Lemma cnt_compact x sl : cnt x (slots_ids (compact sl)) = cnt x (slots_ids sl).
Proof.
  induction sl as [|[y|] sl IH]; [reflexivity| |exact IH].
  unfold slots_ids, compact in *. cbn [filter is_live flat_map]. rewrite !cnt_app, IH. reflexivity.
Qed.
Lemma cnt_slot_ins x s l : cnt x (slots_ids (slot_ins s l)) = cnt x (slot_ids s) + cnt x (slots_ids l).
Proof.
  induction l as [|y l IH]; simpl; [unfold slots_ids; simpl; rewrite app_nil_r; lia|].
  destruct (slot_rank s <? slot_rank y); unfold slots_ids in *; simpl; rewrite !cnt_app; [lia|].
  rewrite IH. lia.
Qed.
Lemma cnt_sort x l : cnt x (slots_ids (sort_slots l)) = cnt x (slots_ids l).
Proof.
  induction l as [|s l IH]; simpl; auto. rewrite cnt_slot_ins, IH. unfold slots_ids. simpl. rewrite cnt_app. reflexivity.
Qed.
Lemma cnt_firstn_skipn x n sl : cnt x (slots_ids (firstn n sl)) + cnt x (slots_ids (skipn n sl)) = cnt x (slots_ids sl).
Proof. rewrite <- cnt_app, <- slots_ids_app, firstn_skipn. reflexivity. Qed.
Lemma cnt_set_slot x sl n s :
  n < length sl -> cnt x (slots_ids (set_slot sl n s)) + cnt x (slot_ids (nth n sl None)) = cnt x (slots_ids sl) + cnt x (slot_ids s).
Proof. apply cnt_flat_upd. Qed.
Lemma lfind_some sl k n : lfind sl k = Some n -> n < length sl /\ exists y, nth n sl None = Some y.
Proof.
  revert n; induction sl as [|[y|] sl IH]; intros n Hf; simpl in *; [discriminate| |].
  - destruct (lkey y =? k).
    + inversion Hf; subst. split; [lia|eauto].
    + destruct (lfind sl k) as [m|]; [|discriminate]. inversion Hf; subst. destruct (IH m eq_refl). split; [lia|auto].
  - destruct (lfind sl k) as [m|]; [|discriminate]. inversion Hf; subst. destruct (IH m eq_refl). split; [lia|auto].
Qed.

(* ---------- the balance ---------- *)
(* ids: what the objects under consideration own; F: what everything else owns *)
Definition bal (h : lheap) (ids : list nat) (F : nat -> nat) : Prop := forall x, cnt x ids + F x = bn (lv h x).
Definition fresh (h : lheap) : Prop := forall x, nx h <= x -> lv h x = false.

Lemma bal_perm h ids ids' F : bal h ids F -> (forall x, cnt x ids = cnt x ids') -> bal h ids' F.
Proof. intros Hb He x. rewrite <- He. apply Hb. Qed.
Lemma bal_live h ids F b : bal h ids F -> In b ids -> lv h b = true.
Proof. intros Hb Hin. apply cnt_in in Hin. specialize (Hb b). unfold bn in *. destruct (lv h b); simpl in *; [reflexivity|lia]. Qed.

Lemma bal_alloc h h1 b ids F : lalloc h = (h1, b) -> bal h ids F -> fresh h -> bal h1 (b :: ids) F /\ fresh h1.
Proof.
  unfold lalloc. intros E Hb Hf. inversion E; subst. clear E. split.
  - intros x. simpl. specialize (Hb x). rewrite (Nat.eqb_sym x (nx h)). unfold bn in *.
    destruct (Nat.eqb_spec (nx h) x) as [<-|Hne]; simpl; [|exact Hb].
    rewrite (Hf (nx h) (le_n _)) in Hb. simpl in Hb. lia.
  - intros x Hx. simpl in *. rewrite (Hf x) by lia. destruct (Nat.eqb_spec x (nx h)); [lia|reflexivity].
Qed.
Lemma bal_alloc_opt h h1 o w ids F : l_alloc_opt h w = (h1, o) -> bal h ids F -> fresh h -> bal h1 (opt_ids o ++ ids) F /\ fresh h1.
Proof.
  unfold l_alloc_opt. destruct w.
  - destruct (lalloc h) as (h', b) eqn:E. intros E2 Hb Hf. inversion E2; subst. simpl. eapply bal_alloc; eauto.
  - intros E2 Hb Hf. inversion E2; subst. simpl. auto.
Qed.
Lemma bal_free h ids ids' F b :
  bal h ids F -> fresh h -> (forall x, cnt x ids = bn (b =? x) + cnt x ids') ->
  exists h', lfree h b = Ok h' /\ bal h' ids' F /\ fresh h'.
Proof.
  intros Hb Hf He. unfold lfree.
  assert (Hl : lv h b = true).
  { specialize (Hb b). specialize (He b). rewrite Nat.eqb_refl in He. unfold bn in *. destruct (lv h b); simpl in *; [reflexivity|lia]. }
  rewrite Hl. eexists. split; [reflexivity|]. split.
  - intros x. simpl. specialize (Hb x). specialize (He x). rewrite (Nat.eqb_sym x b). unfold bn in *.
    destruct (Nat.eqb_spec b x) as [<-|Hne]; simpl in *; [rewrite Hl in Hb; simpl in Hb; lia|lia].
  - intros x Hx. simpl. rewrite (Hf x Hx). apply andb_false_r.
Qed.
Lemma bal_free_opt h ids ids' F o :
  bal h ids F -> fresh h -> (forall x, cnt x ids = cnt x (opt_ids o) + cnt x ids') ->
  exists h', lfree_opt h o = Ok h' /\ bal h' ids' F /\ fresh h'.
Proof.
  intros Hb Hf He. destruct o as [b|]; simpl in *.
  - apply (bal_free h ids ids' F b Hb Hf). intros x. rewrite He. lia.
  - exists h. split; [reflexivity|]. split; [apply (bal_perm h ids ids' F Hb); intros x; rewrite He; lia|exact Hf].
Qed.
Lemma bal_free_list : forall l h ids ids' F,
  bal h ids F -> fresh h -> (forall x, cnt x ids = cnt x l + cnt x ids') ->
  exists h', lfree_list h l = Ok h' /\ bal h' ids' F /\ fresh h'.
Proof.
  induction l as [|b l IH]; intros h ids ids' F Hb Hf He; simpl in *.
  - exists h. split; [reflexivity|]. split; [eapply bal_perm; eauto|exact Hf].
  - destruct (bal_free h ids (l ++ ids') F b Hb Hf) as (h1 & -> & Hb1 & Hf1).
    { intros x. rewrite cnt_app, He. lia. }
    simpl. apply (IH h1 (l ++ ids') ids' F Hb1 Hf1). intros x. apply cnt_app.
Qed.
Lemma bal_touch h ids F o : bal h ids F -> (forall b, o = Some b -> In b ids) -> ltouch h o = Ok tt.
Proof.
  intros Hb Hin. destruct o as [b|]; simpl; [|reflexivity]. rewrite (bal_live h ids F b Hb (Hin b eq_refl)). reflexivity.
Qed.
(* moving temporaries between the list and the frame *)
Lemma bal_shift h a b F : bal h (a ++ b) F <-> bal h b (fun x => cnt x a + F x).
Proof. unfold bal. split; intros Hb x; specialize (Hb x); rewrite cnt_app in *; lia. Qed.

Lemma stor_in t b : stor t = Some b -> In b (table_ids t).
Proof. intros E. unfold table_ids. rewrite E. left. reflexivity. Qed.
Lemma touch_table h t F : bal h (table_ids t) F -> ltouch h (stor t) = Ok tt.
Proof. intros Hb. eapply bal_touch; eauto. intros b. apply stor_in. Qed.
Lemma touch_table' h t ids F : bal h (ids ++ table_ids t) F -> ltouch h (stor t) = Ok tt.
Proof. intros Hb. eapply bal_touch; eauto. intros b E. apply in_or_app. right. apply stor_in. exact E. Qed.

(* ---------- single-table operations ---------- *)
Ltac rb := cbn [SeqModel.bind].
Ltac cnorm :=
  repeat progress (unfold table_ids, item_ids, slots_ids, ltable0 in *; rewrite ?cnt_app, ?flat_map_app in *;
                   cbn [cnt opt_ids slot_ids flat_map app lslots stor ktok vtok lkey] in *).
Lemma bind_inv {T U} (r : res T) (f : T -> res U) v : SeqModel.bind r f = Ok v -> exists t, r = Ok t /\ f t = Ok v.
Proof. destruct r as [t|e]; simpl; intros E; [eauto|discriminate]. Qed.

Definition good (F : nat -> nat) (r : res (lheap * ltable)) : Prop :=
  exists h' t', r = Ok (h', t') /\ bal h' (table_ids t') F /\ fresh h' /\ table_wf t'.

Ltac cn := unfold table_ids, slots_ids in *; simpl in *; repeat rewrite ?cnt_app, ?flat_map_app in *; simpl in *.

Lemma wf_some s sl : table_wf (mkLT (Some s) sl).
Proof. intros E. discriminate. Qed.
Lemma wf_table0 : table_wf ltable0.
Proof. intros _. reflexivity. Qed.

Lemma l_resize_ok h t F : bal h (table_ids t) F -> fresh h -> good F (l_resize h t) /\
  (forall h' t', l_resize h t = Ok (h', t') -> stor t' <> None).
Proof.
  intros Hb Hf. unfold l_resize. rewrite (touch_table h t F Hb). rb.
  destruct (lalloc h) as (h1, nb) eqn:E. destruct (bal_alloc h h1 nb _ F E Hb Hf) as (Hb1 & Hf1).
  destruct (bal_free_opt h1 (nb :: table_ids t) (nb :: slots_ids (compact (lslots t))) F (stor t) Hb1 Hf1) as (h2 & E2 & Hb2 & Hf2).
  { intros x. pose proof (cnt_compact x (lslots t)). cn. lia. }
  cbv beta iota. rewrite E2. rb. split.
  - exists h2, (mkLT (Some nb) (compact (lslots t))). split; [reflexivity|]. split; [exact Hb2|]. split; [exact Hf2|apply wf_some].
  - intros h' t' E'. inversion E'; subst. discriminate.
Qed.

Lemma l_grow_ok h t g F : bal h (table_ids t) F -> fresh h -> table_wf t ->
  exists h' t', l_grow h t g = Ok (h', t') /\ bal h' (table_ids t') F /\ fresh h' /\ stor t' <> None.
Proof.
  intros Hb Hf Hw. unfold l_grow. destruct (g || no_stor t) eqn:E.
  - destruct (l_resize_ok h t F Hb Hf) as ((h' & t' & Er & Hb' & Hf' & _) & Hs). exists h', t'. rewrite Er. repeat split; auto. eapply Hs; eauto.
  - apply orb_false_iff in E. destruct E as (_ & E). unfold no_stor in E. exists h, t. repeat split; auto.
    destruct (stor t); [discriminate|discriminate].
Qed.

Lemma l_dispose_ok h sl ids' F :
  bal h (slots_ids sl ++ ids') F -> fresh h -> exists h', l_dispose_slots h sl = Ok h' /\ bal h' ids' F /\ fresh h'.
Proof. intros Hb Hf. unfold l_dispose_slots. eapply bal_free_list; eauto. intros x. apply cnt_app. Qed.

Lemma l_reset_ok h t F : bal h (table_ids t) F -> fresh h -> table_wf t -> good F (l_reset h t).
Proof.
  intros Hb Hf Hw. unfold l_reset. destruct (stor t) as [b|] eqn:Es.
  - assert (Ht : ltouch h (Some b) = Ok tt) by (rewrite <- Es; eapply touch_table; eauto). rewrite Ht. rb.
    destruct (l_dispose_ok h (lslots t) [b] F) as (h1 & -> & Hb1 & Hf1); auto.
    { eapply bal_perm; [exact Hb|]. intros x. unfold table_ids. rewrite Es. simpl. rewrite !cnt_app. simpl. lia. }
    rb. destruct (bal_free h1 [b] [] F b Hb1 Hf1) as (h2 & -> & Hb2 & Hf2); [intros x; simpl; lia|].
    rb. exists h2, ltable0. split; [reflexivity|]. split; [exact Hb2|]. split; [exact Hf2|apply wf_table0].
  - exists h, t. repeat split; auto.
Qed.

Lemma l_clear_ok h t F : bal h (table_ids t) F -> fresh h -> table_wf t -> good F (l_clear h t).
Proof.
  intros Hb Hf Hw. unfold l_clear. destruct (no_slots (lslots t)) eqn:E.
  - exists h, t. repeat split; auto.
  - rewrite (touch_table h t F Hb). rb.
    destruct (l_dispose_ok h (lslots t) (opt_ids (stor t)) F) as (h1 & -> & Hb1 & Hf1); auto.
    { eapply bal_perm; [exact Hb|]. intros x. unfold table_ids. rewrite !cnt_app. lia. }
    rb. exists h1, (mkLT (stor t) []). split; [reflexivity|]. split.
    + eapply bal_perm; [exact Hb1|]. intros x. cn. lia.
    + split; [exact Hf1|]. intros Es. reflexivity.
Qed.

Lemma l_reset_ids h t h' t' : table_wf t -> l_reset h t = Ok (h', t') -> table_ids t' = [].
Proof.
  intros Hw. unfold l_reset. destruct (stor t) as [b|] eqn:Es.
  - intros E. apply bind_inv in E. destruct E as (_ & _ & E). apply bind_inv in E. destruct E as (h1 & _ & E).
    apply bind_inv in E. destruct E as (h2 & _ & E). inversion E; subst. reflexivity.
  - intros E. inversion E; subst. unfold table_ids. rewrite Es, (Hw Es). reflexivity.
Qed.

Lemma l_reserve_ok h t n F : bal h (table_ids t) F -> fresh h -> table_wf t -> good F (l_reserve h t n).
Proof.
  intros Hb Hf Hw. unfold l_reserve. destruct (l_reset_ok h t F Hb Hf Hw) as (h1 & t1 & Er & Hb1 & Hf1 & Hw1).
  rewrite Er. rb. cbn [fst snd]. destruct (n =? 0); [exists h1, t1; auto|].
  rewrite (l_reset_ids h t h1 t1 Hw Er) in Hb1.
  destruct (lalloc h1) as (h2, nb) eqn:E. destruct (bal_alloc h1 h2 nb [] F E Hb1 Hf1) as (Hb2 & Hf2).
  exists h2, (mkLT (Some nb) []). split; [reflexivity|]. split; [exact Hb2|]. split; [exact Hf2|apply wf_some].
Qed.

Lemma l_resize_pub_ok h t n F : bal h (table_ids t) F -> fresh h -> table_wf t -> good F (l_resize_pub h t n).
Proof.
  intros Hb Hf Hw. unfold l_resize_pub. destruct (n =? 0); [apply l_reset_ok; auto|].
  rewrite (touch_table h t F Hb). rb.
  destruct (l_dispose_ok h (skipn n (lslots t)) (table_ids (mkLT (stor t) (firstn n (lslots t)))) F) as (h1 & -> & Hb1 & Hf1); auto.
  { eapply bal_perm; [exact Hb|]. intros x. pose proof (cnt_firstn_skipn x n (lslots t)). unfold table_ids. simpl. rewrite !cnt_app. lia. }
  rb. apply (l_resize_ok h1 _ F Hb1 Hf1).
Qed.

Lemma l_compress_ok h t F : bal h (table_ids t) F -> fresh h -> table_wf t -> good F (l_compress h t).
Proof.
  intros Hb Hf Hw. unfold l_compress. rewrite (touch_table h t F Hb). rb.
  destruct (no_slots (compact (lslots t))); [apply l_reset_ok; auto|].
  destruct (length (compact (lslots t)) <? length (lslots t)); [apply (l_resize_ok h t F Hb Hf)|].
  exists h, t. auto.
Qed.

Lemma l_sort_ok h t F : bal h (table_ids t) F -> fresh h -> table_wf t -> good F (l_sort h t).
Proof.
  intros Hb Hf Hw. unfold l_sort. rewrite (touch_table h t F Hb). rb.
  exists h, (mkLT (stor t) (sort_slots (lslots t))). split; [reflexivity|]. split.
  - eapply bal_perm; [exact Hb|]. intros x. unfold table_ids. simpl. rewrite !cnt_app, cnt_sort. reflexivity.
  - split; [exact Hf|]. intros Es. simpl in *. rewrite (Hw Es). reflexivity.
Qed.

Lemma l_destroy_ok h t F : bal h (table_ids t) F -> fresh h -> table_wf t ->
  exists h', l_destroy h t = Ok (h', ltable0) /\ bal h' [] F /\ fresh h'.
Proof.
  intros Hb Hf Hw. unfold l_destroy. rewrite (touch_table h t F Hb). rb.
  destruct (l_dispose_ok h (lslots t) (opt_ids (stor t)) F) as (h1 & -> & Hb1 & Hf1); auto.
  { eapply bal_perm; [exact Hb|]. intros x. unfold table_ids. rewrite !cnt_app. lia. }
  rb. destruct (bal_free_opt h1 (opt_ids (stor t)) [] F (stor t) Hb1 Hf1) as (h2 & -> & Hb2 & Hf2); [intros x; simpl; lia|].
  rb. exists h2. auto.
Qed.

(* the slot found by lfind: its ids are part of the table's *)
Lemma slot_split x sl n y : n < length sl -> nth n sl None = Some y ->
  cnt x (slots_ids sl) = cnt x (item_ids y) + cnt x (slots_ids (set_slot sl n None)).
Proof.
  intros Hn Hy. pose proof (cnt_set_slot x sl n None Hn) as Hc.
  assert (Hy' : @nth slot n sl None = Some y) by exact Hy. rewrite Hy' in Hc. cbn [slot_ids cnt] in Hc. lia.
Qed.
Lemma set_slot_twice sl n a b : set_slot (set_slot sl n a) n b = set_slot sl n b.
Proof. unfold set_slot. revert n; induction sl as [|c sl IH]; intros [|n]; simpl; auto. f_equal. apply IH. Qed.
Lemma cnt_set_slot_from_none x sl n s : n < length sl ->
  cnt x (slots_ids (set_slot sl n s)) = cnt x (slot_ids s) + cnt x (slots_ids (set_slot sl n None)).
Proof.
  intros Hn. pose proof (cnt_set_slot x (set_slot sl n None) n s) as Hc.
  unfold set_slot in *. rewrite length_upd, nth_upd_same in Hc by exact Hn.
  specialize (Hc Hn). simpl in Hc. replace (upd (upd sl n None) n s) with (upd sl n s) in Hc; [lia|].
  clear. revert n; induction sl as [|c sl IH]; intros [|n]; simpl; auto. f_equal. apply IH.
Qed.
Lemma wf_keep t sl : stor t <> None -> table_wf (mkLT (stor t) sl).
Proof. intros Hs E. simpl in E. contradiction. Qed.

Lemma l_insert_ok h t k hv g F : bal h (table_ids t) F -> fresh h -> table_wf t -> good F (l_insert h t k hv g).
Proof.
  intros Hb Hf Hw. unfold l_insert.
  destruct (lalloc h) as (h1, tk) eqn:E1. destruct (bal_alloc h h1 tk _ F E1 Hb Hf) as (Hb1 & Hf1).
  destruct (l_alloc_opt h1 hv) as (h2, tv) eqn:E2. destruct (bal_alloc_opt h1 h2 tv hv _ F E2 Hb1 Hf1) as (Hb2 & Hf2).
  assert (Hb2' : bal h2 ((opt_ids tv ++ [tk]) ++ table_ids t) F).
  { eapply bal_perm; [exact Hb2|]. intros x. rewrite !cnt_app. simpl. lia. }
  apply bal_shift in Hb2'.
  destruct (l_grow_ok h2 t g _ Hb2' Hf2 Hw) as (h3 & t1 & -> & Hb3 & Hf3 & Hs3). rb.
  apply bal_shift in Hb3.
  rewrite (touch_table' h3 t1 _ F Hb3). rb.
  destruct (lfind (lslots t1) k) as [n|] eqn:Efind.
  - destruct (lfind_some _ _ _ Efind) as (Hn & y & Hy). rewrite Hy.
    destruct (bal_free_opt h3 _ (tk :: opt_ids tv ++ opt_ids (stor t1) ++ [ktok y] ++ slots_ids (set_slot (lslots t1) n None)) F (vtok y) Hb3 Hf3) as (h4 & -> & Hb4 & Hf4).
    { intros x. pose proof (slot_split x (lslots t1) n y Hn Hy). cnorm. lia. }
    rb. destruct (bal_free h4 _ (opt_ids tv ++ opt_ids (stor t1) ++ [ktok y] ++ slots_ids (set_slot (lslots t1) n None)) F tk Hb4 Hf4) as (h5 & -> & Hb5 & Hf5).
    { intros x. cnorm. lia. }
    rb. eexists. eexists. split; [reflexivity|]. split; [|split; [exact Hf5|apply wf_keep; exact Hs3]].
    eapply bal_perm; [exact Hb5|]. intros x.
    pose proof (cnt_set_slot_from_none x (lslots t1) n (Some (mkLI k (ktok y) tv)) Hn) as Hc.
    cnorm. cbn [ktok vtok] in *. lia.
  - eexists. eexists. split; [reflexivity|]. split; [|split; [exact Hf3|apply wf_keep; exact Hs3]].
    eapply bal_perm; [exact Hb3|]. intros x. cnorm. lia.
Qed.
