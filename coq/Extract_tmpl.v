(* Extract_tmpl.v -- extraction of the template model (ExtrOcamlBasic only). *)
From Coq Require Import Extraction ExtrOcamlBasic NArith ZArith.
From Qv Require Import EscapeModel TmplModel TmplRender.
Extraction Language OCaml.
Set Extraction Optimize.
Extraction "model_tmpl.ml"
  N.add N.mul N.sub N.div_eucl N.compare Z.add Z.mul Z.sub Z.div_eucl Z.compare Z.of_N Z.to_N Z.opp
  TmplModel.expand TmplModel.print_nodes TmplRender.render_ast EscapeModel.auto_of EscapeModel.list_eqb TmplModel.jv_of_numeral.
