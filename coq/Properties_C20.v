(* Properties_C20.v -- the C20 theorems and nothing else.  Each is closed by [exact]
   of a lemma of UniProofs.v and followed by Print Assumptions.

   Domain: the 1,112,064 Unicode scalar values (0 .. 10FFFF without D800 .. DFFF),
   the three character widths w = sizeof(Char_T) in {1, 2, 4}.  The encoder facts for
   UTF-8 / UTF-16 and the three arithmetic facts about \uXXXX (one hexadecimal step,
   the surrogate test, the recombination) are finite and proved by evaluating the
   model over the whole domain (UniSweep*.v, vm_compute, bound in the statement);
   everything about texts (any neighbours, any number of escapes, any length) is by
   induction.  The model is the code with finding D11 repaired. *)
From Coq Require Import NArith List.
From Qv Require Import gen.Tables_uni UniModel UniProofsBase UniProofs UniProofsSym.
Import ListNotations.
Local Open Scope N_scope.

(* ---- the encoders (Unicode::ToUTF) emit the standard encodings.
        Each of the UTF-8 / UTF-16 facts is proved twice, independently:
        symbolically by ranges (shift = division, mask = remainder, or of disjoint
        bits = sum; UniProofsSym.v) and by evaluating model and standard on every
        value of the domain (UniSweepU8*.v / UniSweepU16*.v). ---- *)

Theorem c20_encode_utf8 : forall cp, scalar cp -> to_utf 1 cp = std_utf8 cp.
Proof. intros cp H. exact (encode_utf8_sym cp (scalar_bound cp H)). Qed.
Print Assumptions c20_encode_utf8.

Theorem c20_encode_utf8_by_evaluation : forall cp, scalar cp -> to_utf 1 cp = std_utf8 cp.
Proof. exact encode_utf8. Qed.
Print Assumptions c20_encode_utf8_by_evaluation.

Theorem c20_encode_utf16 : forall cp, scalar cp -> to_utf 2 cp = std_utf16 cp.
Proof. exact encode_utf16_sym. Qed.
Print Assumptions c20_encode_utf16.

Theorem c20_encode_utf16_by_evaluation : forall cp, scalar cp -> to_utf 2 cp = std_utf16 cp.
Proof. exact encode_utf16. Qed.
Print Assumptions c20_encode_utf16_by_evaluation.

Theorem c20_encode_utf32 : forall cp, scalar cp -> to_utf 4 cp = std_utf32 cp.
Proof. exact encode_utf32. Qed.
Print Assumptions c20_encode_utf32.

(* ---- the specification itself is sane: independent decoders invert it (proved
        symbolically, and again inside the sweeps), and the UTF-8 form has the
        shortest length RFC 3629 prescribes ---- *)

Theorem c20_spec_utf8_decodes : forall cp, scalar cp ->
  dec_utf8 (std_utf8 cp) = Some cp /\ length (std_utf8 cp) = utf8_len cp.
Proof. intros cp H. split; [exact (dec_utf8_sym cp H)|exact (std_utf8_length cp H)]. Qed.
Print Assumptions c20_spec_utf8_decodes.

Theorem c20_spec_utf16_decodes : forall cp, scalar cp -> dec_utf16 (std_utf16 cp) = Some cp.
Proof. exact dec_utf16_sym. Qed.
Print Assumptions c20_spec_utf16_decodes.

(* ---- the constants of the headers are the ASCII ones the escape text is made of ---- *)

Theorem c20_tables_ascii :
  (forall w, validw w -> jnot_of w = ascii_jnot) /\
  dch_zero = 48 /\ dch_nine = 57 /\ dch_ua = 65 /\ dch_uf = 70 /\ dch_a = 97 /\ dch_f = 102 /\
  dch_seven = 55 /\ dch_uw = 87.
Proof. split; [exact jnot_ascii|exact digit_chars_ascii]. Qed.
Print Assumptions c20_tables_ascii.

(* ---- four hexadecimal digits in any mix of letter case decode to the number ---- *)

Theorem c20_hex4 : forall k x rest, x < 65536 -> hex_string_to_number (hex4l k x ++ rest) 4 = x.
Proof. exact hex4_ok. Qed.
Print Assumptions c20_hex4.

(* ---- surrogate test and recombination ---- *)

Theorem c20_surrogate_test : forall x, x < 65536 ->
  is_high_surrogate x = ((0xD800 <=? x) && (x <? 0xDC00))%bool.
Proof. exact sur_ok. Qed.
Print Assumptions c20_surrogate_test.

Theorem c20_recombine : forall hi lo, hi < 1024 -> lo < 1024 ->
  recombine (0xD800 + hi) (0xDC00 + lo) = 0x10000 + hi * 1024 + lo.
Proof. exact recombine_ok. Qed.
Print Assumptions c20_recombine.

(* ---- a JSON escape decodes to the standard encoding of the code point it names:
        BMP as one \uXXXX, above as a surrogate pair; [k1 k2] choose the letter case
        of every hexadecimal digit (and u / U) independently for the two halves ---- *)

Theorem c20_escape : forall w k1 k2 cp rest, validw w -> scalar cp ->
  parse_string_value w (json_escape k1 k2 cp ++ 34 :: rest) = PStr (std_utf w cp).
Proof. exact escape_alone. Qed.
Print Assumptions c20_escape.

(* ... inside a longer string: the neighbours are kept, whatever they are
   (any units other than quote, backslash, LF, TAB, CR), of any length *)
Theorem c20_escape_in_context : forall w k1 k2 cp pre post rest,
  validw w -> scalar cp ->
  Forall (fun c => plainb c = true) pre -> Forall (fun c => plainb c = true) post ->
  parse_string_value w (pre ++ json_escape k1 k2 cp ++ post ++ 34 :: rest)
  = PStr (pre ++ std_utf w cp ++ post).
Proof. exact escape_in_context. Qed.
Print Assumptions c20_escape_in_context.

(* ... and in general: a string body made of any sequence of plain units and escapes
   of scalar values denotes the concatenation of the units and the standard encodings *)
Theorem c20_string_body : forall w items rest, validw w -> Forall item_ok items ->
  parse_string_value w (render items ++ 34 :: rest) = PStr (value w items).
Proof. exact parse_string_items. Qed.
Print Assumptions c20_string_body.

(* the function the correspondence run executes, on the cases it generates *)
Theorem c20_model_json_spec : forall w k1 k2 cp pre post, validw w -> scalar cp ->
  Forall (fun c => plainb c = true) pre -> Forall (fun c => plainb c = true) post ->
  c20_model_json w k1 k2 cp pre post = PStr (pre ++ std_utf w cp ++ post).
Proof. exact model_json_ok. Qed.
Print Assumptions c20_model_json_spec.

(* ---- the model's fuel is sufficient: UnEscape terminates on every text ---- *)

Theorem c20_unescape_total : forall cl w content, unescape cl w content <> UFuel.
Proof. exact unescape_total. Qed.
Print Assumptions c20_unescape_total.

(* ---- the correspondence run also drives wchar_t (kind 5): it takes one of the three
        modelled code paths, the one of its size on this platform (generated table) ---- *)

Theorem c20_wchar_width : validw (c20_width 5) /\ c20_width 1 = 1 /\ c20_width 2 = 2 /\ c20_width 4 = 4.
Proof. split; [exact wchar_width_valid|exact width_kinds]. Qed.
Print Assumptions c20_wchar_width.
