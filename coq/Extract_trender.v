(* Extract_trender.v -- extraction of the renderer model instance (ExtrOcamlBasic only). *)
From Coq Require Import Extraction ExtrOcamlBasic NArith ZArith.
From Qv Require Import EscapeModel TmplModel TrenderModel TrenderInst.
Extraction Language OCaml.
Set Extraction Optimize.
Extraction "model_trender.ml"
  N.add N.mul N.sub N.div_eucl N.compare Z.add Z.mul Z.sub Z.div_eucl Z.compare Z.of_N Z.to_N Z.opp
  TrenderInst.render_jv EscapeModel.auto_of TmplModel.jv_of_numeral.
