(* JsonProofsCount.v -- C07: a printed container document with ONE closing bracket removed (anywhere)
   is rejected.  A counting argument: [net] counts opening minus closing brackets outside strings
   (it follows the reader's own notion of where a string ends); every document of the grammar
   has net 0, the damaged text has net 1. *)
From Coq Require Import NArith ZArith List Bool Lia.
From Qv Require Import gen.Tables_json JsonModel JsonSpec JsonProofsBase JsonProofsStr JsonProofsNum JsonProofsNumAlpha JsonProofsParse
  JsonProofsComplete JsonProofsDoc JsonProofsCst JsonProofsInt JsonProofsC06 JsonProofsPrefix JsonProofsDamage.
Import ListNotations.
Local Open Scope N_scope.

Inductive mode := MOut | MStr | MEsc | MHex (got : list N) | MSkip (n : nat).

Fixpoint net (m : mode) (r : list N) : Z :=
  match r with
  | [] => 0%Z
  | c :: t =>
    match m with
    | MOut =>
      if c =? jc_quote then net MStr t
      else if (c =? jc_ssquare) || (c =? jc_scurly) then (1 + net MOut t)%Z
      else if (c =? jc_esquare) || (c =? jc_ecurly) then (-1 + net MOut t)%Z
      else net MOut t
    | MStr => if c =? jc_quote then net MOut t else if c =? jc_bslash then net MEsc t else net MStr t
    | MEsc => if is_u c then net (MHex []) t else net MStr t
    | MHex got =>
      match got with
      | [h1; h2; h3] => if is_high (hex4v h1 h2 h3 c) then net (MSkip 6) t else net MStr t
      | _ => net (MHex (got ++ [c])) t
      end
    | MSkip n => match n with S (S k) => net (MSkip (S k)) t | _ => net MStr t end
    end
  end.

Lemma esc_simple_not_u : forall ch v, esc_simple ch = Some v -> is_u ch = false.
Proof.
  intros ch v H. unfold esc_simple in H. unfold is_u.
  destruct ((ch =? jc_quote) || (ch =? jc_bslash) || (ch =? jc_slash)) eqn:E1.
  { repeat (apply orb_true_iff in E1; destruct E1 as [E1|E1]); apply N.eqb_eq in E1; subst ch; reflexivity. }
  destruct (ch =? jc_b) eqn:E2; [apply N.eqb_eq in E2; subst; reflexivity|].
  destruct (ch =? jc_t) eqn:E3; [apply N.eqb_eq in E3; subst; reflexivity|].
  destruct (ch =? jc_n) eqn:E4; [apply N.eqb_eq in E4; subst; reflexivity|].
  destruct (ch =? jc_f) eqn:E5; [apply N.eqb_eq in E5; subst; reflexivity|].
  destruct (ch =? jc_r) eqn:E6; [apply N.eqb_eq in E6; subst; reflexivity|discriminate].
Qed.

(* unfolding equations of the counter *)
Lemma net_str_quote : forall t, net MStr (jc_quote :: t) = net MOut t.
Proof. intros. cbn [net]. rewrite N.eqb_refl. reflexivity. Qed.
Lemma net_str_raw : forall c t, raw_ok c = true -> net MStr (c :: t) = net MStr t.
Proof. intros c t H. destruct (raw_ok_facts _ H) as [H1 [H2 _]]. cbn [net]. rewrite H1, H2. reflexivity. Qed.
Lemma net_str_esc : forall ch t, net MStr (jc_bslash :: ch :: t) = if is_u ch then net (MHex []) t else net MStr t.
Proof. intros. cbn [net]. change (jc_bslash =? jc_quote) with false. rewrite N.eqb_refl. reflexivity. Qed.
Lemma net_hex4 : forall h1 h2 h3 h4 t,
  net (MHex []) (h1 :: h2 :: h3 :: h4 :: t) = if is_high (hex4v h1 h2 h3 h4) then net (MSkip 6) t else net MStr t.
Proof. intros. reflexivity. Qed.
Lemma net_skip6 : forall x1 x2 x3 x4 x5 x6 t, net (MSkip 6) (x1 :: x2 :: x3 :: x4 :: x5 :: x6 :: t) = net MStr t.
Proof. intros. reflexivity. Qed.

(* the counter leaves a string exactly where the reader does *)
Lemma net_sbody : forall w sb s, SBody w sb s -> forall z, net MStr (sb ++ jc_quote :: z) = net MOut z.
Proof.
  intros w sb s H. induction H as [| c t d0 Hc HS IH | ch v t d0 Hv HS IH | ch h1 h2 h3 h4 t d0 Hn Hu Hx Hh HS IH
                                   | ch h1 h2 h3 h4 ch2 l1 l2 l3 l4 t d0 Hn Hu Hx Hh Hu2 Hx2 HS IH]; intros z; cbn [app].
  - apply net_str_quote.
  - rewrite net_str_raw by assumption. apply IH.
  - rewrite net_str_esc, (esc_simple_not_u _ _ Hv). apply IH.
  - rewrite net_str_esc, Hu, net_hex4, Hh. apply IH.
  - rewrite net_str_esc, Hu, net_hex4, Hh, net_skip6. apply IH.
Qed.

Lemma net_plain : forall b z, forallb plain b = true -> net MOut (b ++ z) = net MOut z.
Proof.
  induction b as [|c b IH]; intros z H; [reflexivity|]. cbn [forallb] in H. apply andb_true_iff in H. destruct H as [Hc Hb].
  cbn [app net]. unfold plain in Hc. apply negb_true_iff in Hc.
  repeat (apply orb_false_iff in Hc; destruct Hc as [Hc ?]).
  rewrite Hc. repeat match goal with H : (c =? _) = false |- _ => rewrite H end. cbn [orb]. apply IH. exact Hb.
Qed.

Lemma ws_plain : forall ws, Forall (fun c => is_ws c = true) ws -> forallb plain ws = true.
Proof.
  intros ws H. induction H as [|c l Hc Hl IH]; [reflexivity|]. cbn [forallb]. rewrite IH, andb_true_r.
  unfold is_ws in Hc. repeat (apply orb_true_iff in Hc; destruct Hc as [Hc|Hc]); apply N.eqb_eq in Hc; subst c; reflexivity.
Qed.

Lemma net_trim : forall r, net MOut (trim r) = net MOut r.
Proof.
  intros r. destruct (trim_suffix r) as (ws & H1 & H2). rewrite H1 at 2. symmetry. apply net_plain. apply ws_plain. exact H2.
Qed.

Lemma net_trim_eq : forall r c t, trim r = c :: t -> net MOut r = net MOut (c :: t).
Proof. intros r c t H. rewrite <- H. symmetry. apply net_trim. Qed.

(* every value of the grammar is bracket-neutral *)
Lemma val_net : forall w,
  (forall r v r', Val w r v r' -> net MOut r = net MOut r') /\
  (forall r acc out r', Elems w r acc out r' -> net MOut r = (-1 + net MOut r')%Z) /\
  (forall r acc out r', Members w r acc out r' -> net MOut r = (-1 + net MOut r')%Z).
Proof.
  intros w. apply (Val_mutind w
    (fun r v r' => net MOut r = net MOut r')
    (fun r acc out r' => net MOut r = (-1 + net MOut r')%Z)
    (fun r acc out r' => net MOut r = (-1 + net MOut r')%Z)).
  - intros r. apply net_plain. reflexivity.
  - intros r. apply net_plain. reflexivity.
  - intros r. apply net_plain. reflexivity.
  - intros c t n v r' Hs Hn Hv.
    assert (Hr : num_rest n = Some r') by (destruct n; cbn in *; try discriminate; inversion Hv; reflexivity).
    destruct (scan_number_plain _ _ _ Hn Hr) as (body & E & Hp). rewrite E. apply net_plain. exact Hp.
  - intros sb s r HS. cbn [net]. rewrite N.eqb_refl. apply (net_sbody w sb s HS).
  - intros r1 r Ht. cbn [net]. change (jc_ssquare =? jc_quote) with false. rewrite N.eqb_refl. cbn [orb].
    rewrite (net_trim_eq _ _ _ Ht). cbn [net]. change (jc_esquare =? jc_quote) with false.
    change ((jc_esquare =? jc_ssquare) || (jc_esquare =? jc_scurly)) with false. rewrite N.eqb_refl. cbn [orb]. lia.
  - intros r1 vs r He IH. cbn [net]. change (jc_ssquare =? jc_quote) with false. rewrite N.eqb_refl. cbn [orb].
    rewrite <- net_trim, IH. lia.
  - intros r1 r Ht. cbn [net]. change (jc_scurly =? jc_quote) with false.
    change ((jc_scurly =? jc_ssquare) || (jc_scurly =? jc_scurly)) with true. cbn iota.
    rewrite (net_trim_eq _ _ _ Ht). cbn [net]. change (jc_ecurly =? jc_quote) with false.
    change ((jc_ecurly =? jc_ssquare) || (jc_ecurly =? jc_scurly)) with false.
    change ((jc_ecurly =? jc_esquare) || (jc_ecurly =? jc_ecurly)) with true. cbn iota. lia.
  - intros r1 ms r He IH. cbn [net]. change (jc_scurly =? jc_quote) with false.
    change ((jc_scurly =? jc_ssquare) || (jc_scurly =? jc_scurly)) with true. cbn iota.
    rewrite <- net_trim, IH. lia.
  - intros r v r1 r' acc Hv IHv Ht. rewrite IHv, (net_trim_eq _ _ _ Ht). cbn [net]. change (jc_esquare =? jc_quote) with false.
    change ((jc_esquare =? jc_ssquare) || (jc_esquare =? jc_scurly)) with false. rewrite N.eqb_refl. cbn [orb]. reflexivity.
  - intros r v r1 r2 acc vs r' Hv IHv Ht He IHe. rewrite IHv, (net_trim_eq _ _ _ Ht). cbn [net].
    change (jc_comma =? jc_quote) with false. change ((jc_comma =? jc_ssquare) || (jc_comma =? jc_scurly)) with false.
    change ((jc_comma =? jc_esquare) || (jc_comma =? jc_ecurly)) with false. cbn iota. rewrite <- net_trim. exact IHe.
  - intros sb key r2 r3 v r4 r' acc HS Ht2 Hv IHv Ht4. cbn [net]. rewrite N.eqb_refl. rewrite (net_sbody w sb key HS).
    rewrite (net_trim_eq _ _ _ Ht2). cbn [net]. change (jc_colon =? jc_quote) with false.
    change ((jc_colon =? jc_ssquare) || (jc_colon =? jc_scurly)) with false. change ((jc_colon =? jc_esquare) || (jc_colon =? jc_ecurly)) with false. cbn iota.
    rewrite <- net_trim, IHv, (net_trim_eq _ _ _ Ht4). cbn [net]. change (jc_ecurly =? jc_quote) with false.
    change ((jc_ecurly =? jc_ssquare) || (jc_ecurly =? jc_scurly)) with false.
    change ((jc_ecurly =? jc_esquare) || (jc_ecurly =? jc_ecurly)) with true. cbn iota. reflexivity.
  - intros sb key r2 r3 v r4 r5 acc out r' HS Ht2 Hv IHv Ht4 Hm IHm. cbn [net]. rewrite N.eqb_refl. rewrite (net_sbody w sb key HS).
    rewrite (net_trim_eq _ _ _ Ht2). cbn [net]. change (jc_colon =? jc_quote) with false.
    change ((jc_colon =? jc_ssquare) || (jc_colon =? jc_scurly)) with false. change ((jc_colon =? jc_esquare) || (jc_colon =? jc_ecurly)) with false. cbn iota.
    rewrite <- net_trim, IHv, (net_trim_eq _ _ _ Ht4). cbn [net].
    change (jc_comma =? jc_quote) with false. change ((jc_comma =? jc_ssquare) || (jc_comma =? jc_scurly)) with false.
    change ((jc_comma =? jc_esquare) || (jc_comma =? jc_ecurly)) with false. cbn iota. rewrite <- net_trim. exact IHm.
Qed.

(* a document has as many opening as closing brackets outside its strings *)
Theorem document_net_zero : forall w s v, Document w s v -> net MOut s = 0%Z.
Proof.
  intros w s v (r1 & Hv & Ht). rewrite <- net_trim. rewrite (proj1 (val_net w) _ _ _ Hv). rewrite <- net_trim, Ht. reflexivity.
Qed.

Section Removal.
Variable w : N.
Hypothesis Hstr : str_ok_stmt w.

Lemma follow_ws : forall wa X, ws_wf wa = true -> num_follow X = true -> num_follow (wa ++ X) = true.
Proof.
  intros wa X Hwa HX. destruct wa as [|a wa]; [exact HX|]. cbn [app num_follow].
  cbn in Hwa. apply andb_true_iff in Hwa. destruct Hwa as [Ha _]. rewrite Ha. reflexivity.
Qed.

Lemma val_neutral : forall x X, cval_wf w x = true -> reals_ok x -> num_follow X = true ->
  net MOut (cprint w x ++ X) = net MOut X.
Proof.
  intros x X Hw Hr HX. apply (proj1 (val_net w) _ (cdenote w x)).
  apply (cst_val w Hstr nat_ok neg_ok (S (csize x)) x (Nat.lt_succ_diag_r _) Hw Hr). right. exact HX.
Qed.

Lemma net_ws : forall ws X, ws_wf ws = true -> net MOut (ws ++ X) = net MOut X.
Proof. intros ws X H. apply net_plain. apply ws_plain. apply ws_wf_Forall. exact H. Qed.

Lemma net_comma : forall X, net MOut (jc_comma :: X) = net MOut X.
Proof. reflexivity. Qed.
Lemma net_colon : forall X, net MOut (jc_colon :: X) = net MOut X.
Proof. reflexivity. Qed.
Lemma net_open_sq : forall X, net MOut (jc_ssquare :: X) = (1 + net MOut X)%Z.
Proof. reflexivity. Qed.
Lemma net_open_cu : forall X, net MOut (jc_scurly :: X) = (1 + net MOut X)%Z.
Proof. reflexivity. Qed.
Lemma net_close_sq : forall X, net MOut (jc_esquare :: X) = (-1 + net MOut X)%Z.
Proof. reflexivity. Qed.
Lemma net_close_cu : forall X, net MOut (jc_ecurly :: X) = (-1 + net MOut X)%Z.
Proof. reflexivity. Qed.

Lemma item_neutral : forall it X, iok w it -> num_follow X = true -> net MOut (item_text w it ++ X) = net MOut X.
Proof.
  intros [[wb x] wa] X (Hwb & Hwa & Hwx & Hrx) HX. cbn [item_text]. rewrite <- !app_assoc.
  rewrite net_ws by assumption. rewrite val_neutral by (try assumption; apply follow_ws; assumption).
  apply net_ws. assumption.
Qed.

Fixpoint pre_text (l : list (list N * cval * list N)) : list N :=
  match l with [] => [] | it :: t => item_text w it ++ jc_comma :: pre_text t end.

Lemma pre_neutral : forall l X, Forall (iok w) l -> net MOut (pre_text l ++ X) = net MOut X.
Proof.
  induction l as [|it l IH]; intros X Hl; [reflexivity|]. inversion Hl; subst. cbn [pre_text]. rewrite <- app_assoc. cbn [app].
  rewrite item_neutral by (try assumption; reflexivity). rewrite net_comma. apply IH. assumption.
Qed.

Lemma items_split : forall l1 it l2, items_text w (l1 ++ it :: l2) ++ [jc_esquare] = pre_text l1 ++ item_text w it ++ arr_tail w l2.
Proof.
  induction l1 as [|a l1 IH]; intros it l2.
  - cbn [app pre_text]. destruct l2; cbn [items_text arr_tail]; [reflexivity|]. rewrite <- !app_assoc. reflexivity.
  - cbn [app pre_text]. destruct (l1 ++ it :: l2) as [|b q] eqn:E; [destruct l1; discriminate|].
    change (items_text w (a :: b :: q)) with (item_text w a ++ [jc_comma] ++ items_text w (b :: q)).
    rewrite <- E. repeat (rewrite <- !app_assoc; cbn [app]). rewrite IH. reflexivity.
Qed.

Lemma items_neutral : forall l X, Forall (iok w) l -> num_follow X = true -> net MOut (items_text w l ++ X) = net MOut X.
Proof.
  induction l as [|it l IH]; intros X Hl HX; [reflexivity|]. inversion Hl; subst.
  destruct l as [|it2 l]; [cbn [items_text]; apply item_neutral; assumption|].
  change (items_text w (it :: it2 :: l)) with (item_text w it ++ [jc_comma] ++ items_text w (it2 :: l)).
  rewrite <- !app_assoc. cbn [app]. rewrite item_neutral by (try assumption; reflexivity). rewrite net_comma. apply IH; assumption.
Qed.

Lemma member_neutral : forall m X, mok w m -> num_follow X = true -> net MOut (member_text w m ++ X) = net MOut X.
Proof.
  intros [[[[[wb k] w1] w2] x] wa] X (Hwb & Hk & Hw1 & Hw2 & Hwa & Hwx & Hrx) HX. cbn [member_text]. unfold cstr_print.
  repeat (rewrite <- !app_assoc; cbn [app]).
  rewrite net_ws by assumption. cbn [net]. rewrite N.eqb_refl. rewrite (net_sbody w _ _ (Hstr k Hk)).
  rewrite net_ws by assumption. rewrite net_colon. rewrite net_ws by assumption.
  rewrite val_neutral by (try assumption; apply follow_ws; assumption). apply net_ws. assumption.
Qed.

Fixpoint mpre_text (l : list (list N * list cchar * list N * list N * cval * list N)) : list N :=
  match l with [] => [] | m :: t => member_text w m ++ jc_comma :: mpre_text t end.

Lemma mpre_neutral : forall l X, Forall (mok w) l -> net MOut (mpre_text l ++ X) = net MOut X.
Proof.
  induction l as [|m l IH]; intros X Hl; [reflexivity|]. inversion Hl; subst. cbn [mpre_text]. rewrite <- app_assoc. cbn [app].
  rewrite member_neutral by (try assumption; reflexivity). rewrite net_comma. apply IH. assumption.
Qed.

Lemma members_split : forall l1 m l2, members_text w (l1 ++ m :: l2) ++ [jc_ecurly] = mpre_text l1 ++ member_text w m ++ obj_tail w l2.
Proof.
  induction l1 as [|a l1 IH]; intros m l2.
  - cbn [app mpre_text]. destruct l2; cbn [members_text obj_tail]; [reflexivity|]. rewrite <- !app_assoc. reflexivity.
  - cbn [app mpre_text]. destruct (l1 ++ m :: l2) as [|b q] eqn:E; [destruct l1; discriminate|].
    change (members_text w (a :: b :: q)) with (member_text w a ++ [jc_comma] ++ members_text w (b :: q)).
    rewrite <- E. repeat (rewrite <- !app_assoc; cbn [app]). rewrite IH. reflexivity.
Qed.

Lemma members_neutral : forall l X, Forall (mok w) l -> num_follow X = true -> net MOut (members_text w l ++ X) = net MOut X.
Proof.
  induction l as [|m l IH]; intros X Hl HX; [reflexivity|]. inversion Hl; subst.
  destruct l as [|m2 l]; [cbn [members_text]; apply member_neutral; assumption|].
  change (members_text w (m :: m2 :: l)) with (member_text w m ++ [jc_comma] ++ members_text w (m2 :: l)).
  rewrite <- !app_assoc. cbn [app]. rewrite member_neutral by (try assumption; reflexivity). rewrite net_comma. apply IH; assumption.
Qed.

(* [RmP c P b S]: the text of [c] is P ++ b :: S, and b is a structural closing bracket of [c]
   (its own, or one of a container nested anywhere inside) *)
Inductive RmP : cval -> list N -> N -> list N -> Prop :=
| RP_arr w0 items : ws_wf w0 = true -> Forall (iok w) items ->
    RmP (CArr w0 items) (jc_ssquare :: w0 ++ items_text w items) jc_esquare []
| RP_obj w0 ms : ws_wf w0 = true -> Forall (mok w) ms ->
    RmP (CObj w0 ms) (jc_scurly :: w0 ++ members_text w ms) jc_ecurly []
| RP_arr_child w0 l1 wb x wa l2 P b S :
    ws_wf w0 = true -> Forall (iok w) l1 -> ws_wf wb = true -> ws_wf wa = true -> RmP x P b S ->
    RmP (CArr w0 (l1 ++ (wb, x, wa) :: l2)) (jc_ssquare :: w0 ++ pre_text l1 ++ wb ++ P) b (S ++ wa ++ arr_tail w l2)
| RP_obj_child w0 l1 wb k w1 w2 x wa l2 P b S :
    ws_wf w0 = true -> Forall (mok w) l1 -> ws_wf wb = true -> forallb (cchar_wf w) k = true -> ws_wf w1 = true -> ws_wf w2 = true ->
    ws_wf wa = true -> RmP x P b S ->
    RmP (CObj w0 (l1 ++ (wb, k, w1, w2, x, wa) :: l2))
        (jc_scurly :: w0 ++ mpre_text l1 ++ wb ++ cstr_print w k ++ w1 ++ [jc_colon] ++ w2 ++ P) b (S ++ wa ++ obj_tail w l2).

Lemma rmp_print : forall c P b S, RmP c P b S -> cprint w c = P ++ b :: S.
Proof.
  intros c P b S H. induction H.
  - cbn [cprint]. rewrite (items_text_eq w). cbn [app]. rewrite <- !app_assoc. reflexivity.
  - cbn [cprint]. rewrite (members_text_eq w). cbn [app]. rewrite <- !app_assoc. reflexivity.
  - cbn [cprint]. rewrite (items_text_eq w). cbn [app]. f_equal. rewrite <- !app_assoc. f_equal.
    rewrite items_split. cbn [item_text]. rewrite IHRmP. repeat (rewrite <- !app_assoc; cbn [app]). reflexivity.
  - cbn [cprint]. rewrite (members_text_eq w). cbn [app]. f_equal. rewrite <- !app_assoc. f_equal.
    rewrite members_split. cbn [member_text]. rewrite IHRmP. repeat (rewrite <- !app_assoc; cbn [app]). reflexivity.
Qed.

Lemma rmp_closer : forall c P b S, RmP c P b S -> forall X, net MOut (b :: X) = (-1 + net MOut X)%Z.
Proof. intros c P b S H. induction H; auto using net_close_sq, net_close_cu. Qed.

Lemma rmp_closer_follow : forall c P b S, RmP c P b S -> forall X, num_follow (b :: X) = true.
Proof. intros c P b S H. induction H; auto; intros X; reflexivity. Qed.

Lemma arr_tail_follow : forall wa l Y, ws_wf wa = true -> num_follow (wa ++ arr_tail w l ++ Y) = true.
Proof. intros wa l Y Hwa. destruct l; cbn [arr_tail app]; apply num_follow_app; try assumption; rewrite N.eqb_refl; rewrite ?orb_true_r; reflexivity. Qed.
Lemma obj_tail_follow : forall wa l Y, ws_wf wa = true -> num_follow (wa ++ obj_tail w l ++ Y) = true.
Proof. intros wa l Y Hwa. destruct l; cbn [obj_tail app]; apply num_follow_app; try assumption; rewrite N.eqb_refl; rewrite ?orb_true_r; reflexivity. Qed.

Lemma rmp_follow : forall c P b S, RmP c P b S -> forall Y, num_follow Y = true -> num_follow (S ++ Y) = true.
Proof.
  intros c P b S H. induction H; intros Y HY; try exact HY.
  - rewrite <- !app_assoc. apply IHRmP. apply arr_tail_follow. assumption.
  - rewrite <- !app_assoc. apply IHRmP. apply obj_tail_follow. assumption.
Qed.

Lemma rmp_net : forall c P b S, RmP c P b S ->
  exists k, forall X, num_follow X = true -> net MOut (P ++ X) = (k + net MOut X)%Z.
Proof.
  intros c P b S H.
  induction H as [w0 items Hw0 Hit | w0 ms Hw0 Hms | w0 l1 wb x wa l2 P b S Hw0 Hl1 Hwb Hwa HR IH
                  | w0 l1 wb key w1 w2 x wa l2 P b S Hw0 Hl1 Hwb Hkey Hw1 Hw2 Hwa HR IH].
  - exists 1%Z. intros X HX. cbn [app]. rewrite net_open_sq. rewrite <- app_assoc. rewrite net_ws by assumption.
    rewrite items_neutral by assumption. reflexivity.
  - exists 1%Z. intros X HX. cbn [app]. rewrite net_open_cu. rewrite <- app_assoc. rewrite net_ws by assumption.
    rewrite members_neutral by assumption. reflexivity.
  - destruct IH as [kk Hk]. exists (1 + kk)%Z. intros X HX. cbn [app]. rewrite net_open_sq.
    repeat (rewrite <- !app_assoc; cbn [app]). rewrite net_ws by assumption. rewrite pre_neutral by assumption.
    rewrite net_ws by assumption. rewrite Hk by assumption. lia.
  - destruct IH as [kk Hk]. exists (1 + kk)%Z. intros X HX. cbn [app]. rewrite net_open_cu. unfold cstr_print.
    repeat (rewrite <- !app_assoc; cbn [app]). rewrite net_ws by assumption. rewrite mpre_neutral by assumption.
    rewrite net_ws by assumption. cbn [net]. rewrite N.eqb_refl. rewrite (net_sbody w _ _ (Hstr key Hkey)).
    rewrite net_ws by assumption. rewrite net_colon. rewrite net_ws by assumption. rewrite Hk by assumption. lia.
Qed.

(* C07: one closing bracket removed, anywhere in the document *)
Theorem bracket_removed_rejected : forall c P b S ws1 ws2, RmP c P b S ->
  cval_wf w c = true -> reals_ok c -> ws_wf ws1 = true -> ws_wf ws2 = true ->
  parse w (ws1 ++ P ++ S ++ ws2) = JOk JUndef.
Proof.
  intros c P b S ws1 ws2 H Hw Hr H1 H2.
  destruct (parse_total w (ws1 ++ P ++ S ++ ws2)) as (v & Hp & Hv). rewrite Hp. f_equal.
  destruct Hv as [Hv|[_ Hd]]; [exact Hv|exfalso].
  apply document_net_zero in Hd.
  assert (Hws2 : num_follow ws2 = true).
  { destruct ws2 as [|a q]; [reflexivity|]. cbn in H2. apply andb_true_iff in H2. destruct H2 as [Ha _]. cbn. rewrite Ha. reflexivity. }
  destruct (rmp_net c P b S H) as [k Hk].
  rewrite net_ws in Hd by assumption.
  rewrite Hk in Hd by (apply (rmp_follow c P b S H); assumption).
  pose proof (val_neutral c ws2 Hw Hr Hws2) as Hfull. rewrite (rmp_print c P b S H) in Hfull.
  rewrite <- app_assoc in Hfull. cbn [app] in Hfull.
  rewrite Hk in Hfull by (apply (rmp_closer_follow c P b S H)).
  rewrite (rmp_closer c P b S H) in Hfull.
  assert (Hz : net MOut ws2 = 0%Z).
  { rewrite <- (app_nil_r ws2). rewrite net_ws by assumption. reflexivity. }
  rewrite Hz in Hfull. lia.
Qed.

End Removal.

Theorem bracket_removed_rejected_all : forall w c P b S ws1 ws2, RmP w c P b S ->
  cval_wf w c = true -> reals_ok c -> ws_wf ws1 = true -> ws_wf ws2 = true ->
  parse w (ws1 ++ P ++ S ++ ws2) = JOk JUndef.
Proof. intros w. apply (bracket_removed_rejected w (str_ok w)). Qed.

(* non-vacuity:  [{"a":1},true]  without the inner closing brace *)
Example rm_ex : parse 0 [91; 123; 34; 97; 34; 58; 49; 44; 116; 114; 117; 101; 93] = JOk JUndef.
Proof.
  refine (bracket_removed_rejected_all 0 dmg_ex [91; 123; 34; 97; 34; 58; 49] jc_ecurly [44; 116; 114; 117; 101; 93] [] [] _ eq_refl _ eq_refl eq_refl).
  - refine (RP_arr_child 0 [] [] [] dmg_ex_inner [] [([], CTrue, [])] [123; 34; 97; 34; 58; 49] jc_ecurly [] eq_refl _ eq_refl eq_refl _).
    + constructor.
    + refine (RP_obj 0 [] [([], [CRaw 97], [], [], CNatD [49], [])] eq_refl _). repeat constructor.
  - cbn. tauto.
Qed.
