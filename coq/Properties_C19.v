(* Properties_C19.v -- the C19 theorems and nothing else.  Each is closed by [exact] of a
   lemma proved in BigIntProofs.v / BigIntProofs2.v / BigIntHelpers.v / BigIntTop.v.
   Model: BigIntModel.v = Include/BigInt.hpp after the repairs D6-D10, D31.
   All statements are for every word width w, every number of words and every state /
   history (induction over the word list and over the history; no bounds); the 128/64
   division helper is proved for every half width h (c19_div2_half), and additionally
   cross-checked by an exhaustive kernel computation at 3-bit halves (c19_div2_h3_sweep).

   Notation: bval w s = sum of word_i * 2^(i*w);  pw w i = 2^(w*i);
   WF w s = words < 2^w, index inside the array, every word above index is zero and
            index is the highest non-zero word (0 for the value zero).

   Every operation of the model is covered (c19_step / c19_history range over [proved_op],
   which admits every constructor of [op]; operand types are at most one word or at least
   two words wide, as all C++ integer types are).  Copy / move construction, move assignment
   (incl. the state of the moved-from object), operator/=, and Storage()[i] = x; SetIndex(k)
   are modelled and covered too (c19_copy_construct ... c19_set_index below; they are
   constructors of [op], so c19_step / c19_history range over them). *)
From Coq Require Import NArith List.
From Qv Require Import BigIntModel BigIntProofs BigIntProofs2 BigIntHelpers BigIntDiv128 BigIntShift BigIntShiftL BigIntBits BigIntFfb BigIntWide BigIntNarrow BigIntSetWide BigIntOrAnd BigIntMove BigIntTop.
Import ListNotations.
Local Open Scope N_scope.

(* Add(number, index): carry chain; no error, invariant kept, exact sum *)
Theorem c19_add : forall w s c i, WF w s -> c < Bw w ->
  bval w s + c * pw w i < pw w (length (words s)) ->
  exists s', add w s c i = Ok s' /\ WF w s' /\ bval w s' = bval w s + c * pw w i /\
             length (words s') = length (words s).
Proof. exact add_correct. Qed.
Print Assumptions c19_add.

(* Subtract(number, index): borrow chain *)
Theorem c19_subtract : forall w s c i, WF w s -> c < Bw w -> c * pw w i <= bval w s ->
  exists s', sub w s c i = Ok s' /\ WF w s' /\ bval w s' + c * pw w i = bval w s /\
             length (words s') = length (words s).
Proof. exact sub_correct. Qed.
Print Assumptions c19_subtract.

(* DoubleSize::Multiply is the exact double-word product, for every word width; the
   64-bit variant (half-word schoolbook) generically in the half width h *)
Theorem c19_mul2_half : forall h x m, x < 2 ^ (2 * h) -> m < 2 ^ (2 * h) ->
  let '(lo, hi) := mul2_half h x m in
  lo < 2 ^ (2 * h) /\ hi < 2 ^ (2 * h) /\ lo + hi * 2 ^ (2 * h) = x * m.
Proof. exact mul2_half_correct. Qed.
Print Assumptions c19_mul2_half.

Theorem c19_mul2 : forall w, 0 < w -> mul2_ok w.
Proof. exact mul2_ok_all. Qed.
Print Assumptions c19_mul2.

(* Multiply(word) (with the D9 repair): exact product, invariant kept *)
Theorem c19_multiply : forall w, 0 < w -> forall s m, WF w s -> m < Bw w ->
  bval w s * m < pw w (length (words s)) ->
  exists s', multiply w s m = Ok s' /\ WF w s' /\ bval w s' = bval w s * m /\
             length (words s') = length (words s).
Proof. intros w Hw. exact (multiply_correct w (mul2_ok_all w Hw)). Qed.
Print Assumptions c19_multiply.

(* DoubleSize<., 8|16|32>::Divide *)
Theorem c19_div2_narrow : forall w, w <> 64 -> div2_ok w.
Proof. exact div2_ok_narrow. Qed.
Print Assumptions c19_div2_narrow.

(* DoubleSize<.,64>::Divide (D8 repaired), for EVERY half width h >= 1: normalising shift,
   two half-word quotient digits with up to two corrections each, carry fix-up.
   h = 32 is the shipped 128/64 division. *)
Theorem c19_div2_half : forall h, 1 <= h -> forall hi lo d, 0 < d < 2 ^ (2 * h) -> hi < d -> lo < 2 ^ (2 * h) ->
  div2_half h hi lo d ((2 * h - 1) - N.log2 d) =
  ((hi * 2 ^ (2 * h) + lo) mod d, (hi * 2 ^ (2 * h) + lo) / d).
Proof. exact div2_half_correct. Qed.
Print Assumptions c19_div2_half.

Theorem c19_div2 : forall w, div2_ok w.
Proof. exact div2_ok_all. Qed.
Print Assumptions c19_div2.

(* Divide(word): exact quotient and remainder, invariant kept; every word width *)
Theorem c19_divide : forall w s d, WF w s -> 0 < d < Bw w ->
  exists s' r, divide w s d = Ok (s', r) /\ WF w s' /\ bval w s' = bval w s / d /\
               r = bval w s mod d /\ length (words s') = length (words s).
Proof. intros w. exact (divide_correct w (div2_ok_all w)). Qed.
Print Assumptions c19_divide.

(* independent cross-check of the same algorithm by exhaustive kernel computation at 3-bit
   halves: all (hi, lo, d) with 0 < d < 64, hi < d, lo < 64 *)
Theorem c19_div2_h3_sweep : forall hi lo d, 0 < d < 64 -> hi < d -> lo < 64 ->
  div2_half 3 hi lo d (5 - N.log2 d) = ((hi * 64 + lo) mod d, (hi * 64 + lo) / d).
Proof. exact div2_half_h3_partial. Qed.
Print Assumptions c19_div2_h3_sweep.

(* ShiftRight by any number of bits: whole-word move, then bit shift *)
Theorem c19_shift_right : forall w, 0 < w -> forall s offset, WF w s ->
  exists s', shift_right w s offset = Ok s' /\ WF w s' /\ bval w s' = bval w s / 2 ^ offset /\
             length (words s') = length (words s).
Proof. exact shift_right_correct. Qed.
Print Assumptions c19_shift_right.

(* ShiftLeft (with the D7 repair), whenever the shifted value fits; includes the value zero *)
Theorem c19_shift_left : forall w, 0 < w -> forall s offset, WF w s ->
  bval w s * 2 ^ offset < pw w (length (words s)) ->
  exists s', shift_left w s offset = Ok s' /\ WF w s' /\ bval w s' = bval w s * 2 ^ offset /\
             length (words s') = length (words s).
Proof. exact shift_left_correct. Qed.
Print Assumptions c19_shift_left.

Theorem c19_clear : forall w s, WF0 w s ->
  exists s', clear s = Ok s' /\ WF w s' /\ bval w s' = 0 /\ length (words s') = length (words s).
Proof. exact clear_correct. Qed.
Print Assumptions c19_clear.

(* operator=(word), |=, &= (D10 repaired), copy-assignment (D31 repaired) *)
Theorem c19_assign_word : forall w s v, WF w s -> v < Bw w ->
  exists s', assign w w s v = Ok s' /\ WF w s' /\ bval w s' = v /\ length (words s') = length (words s).
Proof. exact assign_word_correct. Qed.
Print Assumptions c19_assign_word.

Theorem c19_and_word : forall w s v, WF w s -> v < Bw w ->
  exists s', do_operation w KAnd w s v = Ok s' /\ WF w s' /\ bval w s' = N.land (bval w s) v /\
             length (words s') = length (words s).
Proof. exact and_word_correct. Qed.
Print Assumptions c19_and_word.

Theorem c19_or_word : forall w s v, WF w s -> v < Bw w ->
  exists s', do_operation w KOr w s v = Ok s' /\ WF w s' /\ bval w s' = N.lor (bval w s) v /\
             length (words s') = length (words s).
Proof. exact or_word_correct. Qed.
Print Assumptions c19_or_word.

Theorem c19_copy_assign : forall w s src, WF w s -> WF w src -> length (words src) = length (words s) ->
  exists s', copy_assign s src = Ok s' /\ WF w s' /\ bval w s' = bval w src /\
             length (words s') = length (words s).
Proof. exact copy_assign_correct. Qed.
Print Assumptions c19_copy_assign.

(* operator=(N_Number_T) with an operand type at least two words wide *)
Theorem c19_assign_wide : forall w, 0 < w -> forall ow s v, 1 < ow / w -> WF w s ->
  v < pw w (length (words s)) ->
  exists s', assign w ow s v = Ok s' /\ WF w s' /\ bval w s' = v /\ length (words s') = length (words s).
Proof. exact assign_wide_correct. Qed.
Print Assumptions c19_assign_wide.

(* |= and &= (D10 repaired) with an operand type at least two words wide: word-wise or / and
   with the operand's words; &= clears every word above the operand *)
Theorem c19_or_wide : forall w, 0 < w -> forall ow s v, 1 < ow / w -> WF w s -> v < pw w (length (words s)) ->
  exists s', do_operation_t w KOr ow s v = Ok s' /\ WF w s' /\ bval w s' = N.lor (bval w s) v /\
             length (words s') = length (words s).
Proof. exact or_wide_correct. Qed.
Print Assumptions c19_or_wide.

Theorem c19_and_wide : forall w, 0 < w -> forall ow s v, 1 < ow / w -> WF w s -> v < pw w (length (words s)) ->
  exists s', do_operation_t w KAnd ow s v = Ok s' /\ WF w s' /\ bval w s' = N.land (bval w s) v /\
             length (words s') = length (words s).
Proof. exact and_wide_correct. Qed.
Print Assumptions c19_and_wide.

(* explicit operator N_Number_T(): the value modulo 2^(bits of the target), for a target not
   wider than a word or a whole number (>= 2) of words *)
Theorem c19_narrowing_conversion : forall w, 0 < w -> forall s tw, WF w s ->
  (tw <= w \/ exists c : nat, (2 <= c)%nat /\ tw = w * N.of_nat c) ->
  narrow w s tw = Ok (bval w s mod 2 ^ tw).
Proof. exact narrow_correct. Qed.
Print Assumptions c19_narrowing_conversion.

(* an operand type not wider than a word takes the template overload and gives the same result *)
Theorem c19_narrow_operand_type : forall w, 0 < w -> forall k ow s v, ow / w <= 1 -> v < Bw w ->
  do_operation_t w k ow s v = do_operation_s w k s v.
Proof. exact do_operation_t_narrow. Qed.
Print Assumptions c19_narrow_operand_type.

(* += / -= with an operand type at least two words wide: one carry / borrow chain per operand word *)
Theorem c19_add_wide : forall w, 0 < w -> forall ow s v, 1 < ow / w -> WF w s ->
  bval w s + v < pw w (length (words s)) ->
  exists s', do_operation_t w KAdd ow s v = Ok s' /\ WF w s' /\ bval w s' = bval w s + v /\
             length (words s') = length (words s).
Proof. exact add_wide_correct. Qed.
Print Assumptions c19_add_wide.

Theorem c19_sub_wide : forall w, 0 < w -> forall ow s v, 1 < ow / w -> WF w s -> v <= bval w s ->
  exists s', do_operation_t w KSub ow s v = Ok s' /\ WF w s' /\ bval w s' + v = bval w s /\
             length (words s') = length (words s).
Proof. exact sub_wide_correct. Qed.
Print Assumptions c19_sub_wide.

(* FindFirstBit (D6 repaired) = number of trailing zero bits; FindLastBit = floor(log2) *)
Theorem c19_find_first_bit : forall w, 0 < w -> forall s, WF w s -> bval w s <> 0 ->
  find_first_bit w s = Ok (ctz (bval w s)).
Proof. exact find_first_bit_correct. Qed.
Print Assumptions c19_find_first_bit.

Theorem c19_find_last_bit : forall w, 0 < w -> forall s, WF w s -> bval w s <> 0 ->
  find_last_bit w s = Ok (N.log2 (bval w s)).
Proof. exact find_last_bit_correct. Qed.
Print Assumptions c19_find_last_bit.

(* Index() is the word of the highest set bit of the value *)
Theorem c19_index_is_top_word : forall w, 0 < w -> forall s, WF w s -> index s = top_index w (bval w s).
Proof. exact WF_index_top. Qed.
Print Assumptions c19_index_is_top_word.

(* < <= > >= == != against a word (both operand orders), IsZero, NotZero, IsBig *)
Theorem c19_compare : forall w, 0 < w -> forall s v, WF w s -> v < Bw w ->
  compare_word s v = Ok (cmp_bits w (bval w s) v).
Proof. exact compare_correct. Qed.
Print Assumptions c19_compare.

(* BigInt(const BigInt &): the new object holds the source's value *)
Theorem c19_copy_construct : forall w src, WF w src ->
  exists t, construct_copy src = Ok t /\ WF w t /\ bval w t = bval w src /\
            length (words t) = length (words src).
Proof. exact construct_copy_correct. Qed.
Print Assumptions c19_copy_construct.

(* BigInt(BigInt &&): the value is transferred; the moved-from object is what src.Clear() leaves:
   the well-formed zero (Index() = 0, every word 0; obs_code = 0).  The model assumes nothing
   else about it -- it runs the same Clear() on the source as the C++ does. *)
Theorem c19_move_construct : forall w src, WF w src ->
  exists t src', move_construct src = Ok (t, src') /\ WF w t /\ bval w t = bval w src /\
    WF w src' /\ bval w src' = 0 /\ obs_code src' = 0 /\
    length (words t) = length (words src) /\ length (words src') = length (words src).
Proof. exact move_construct_correct. Qed.
Print Assumptions c19_move_construct.

(* operator=(BigInt &&) for this != &src (self-move is a no-op in the code and in the model) *)
Theorem c19_move_assign : forall w s src, WF w s -> WF w src -> length (words src) = length (words s) ->
  exists s' src', move_assign s src = Ok (s', src') /\ WF w s' /\ bval w s' = bval w src /\
    WF w src' /\ bval w src' = 0 /\ obs_code src' = 0 /\
    length (words s') = length (words s) /\ length (words src') = length (words src).
Proof. exact move_assign_correct. Qed.
Print Assumptions c19_move_assign.

(* operator/=: the quotient, remainder dropped (corollary of c19_divide) *)
Theorem c19_div_assign : forall w s d, WF w s -> 0 < d < Bw w ->
  exists s', (do '(s', _) <- divide w s d; Ok (s', 0)) = Ok (s', 0) /\ WF w s' /\
             bval w s' = bval w s / d /\ length (words s') = length (words s).
Proof. intros w. exact (div_assign_correct w (div2_ok_all w)). Qed.
Print Assumptions c19_div_assign.

(* read access: Storage()[i] is word i of the value *)
Theorem c19_storage_read : forall w l i, wordsok w l -> (i < length l)%nat ->
  (value w l / pw w i) mod Bw w = nth i l 0.
Proof. exact word_of_value. Qed.
Print Assumptions c19_storage_read.

(* Storage()[i] = x; SetIndex(k).  SetIndex stores k unchecked; the object satisfies the class
   invariant again -- and every other theorem applies to it -- exactly when i <= MaxIndex, x is a
   word and k is the index of the highest non-zero word of the new contents (0 for zero). *)
Theorem c19_set_index : forall w, 0 < w -> forall s i x k, WF w s -> (i < length (words s))%nat -> x < Bw w ->
  let p := pw w i in
  let v' := bval w s - ((bval w s / p) mod Bw w) * p + x * p in
  k = top_index w v' ->
  exists s', poke s i x k = Ok s' /\ WF w s' /\ bval w s' = v' /\ length (words s') = length (words s).
Proof. exact poke_correct. Qed.
Print Assumptions c19_set_index.

(* [proved_op] admits EVERY operation of the model; the only side condition is on the operand /
   target types (at most one word, or a whole number >= 2 of words) *)
Theorem c19_every_operation_covered : forall w o, op_types_ok w o -> proved_op w o.
Proof. exact proved_op_all. Qed.
Print Assumptions c19_every_operation_covered.

(* one step of a history, for the operations of [proved_op] *)
Theorem c19_step : forall w, 0 < w -> forall n s o v' r,
  proved_op w o -> WF w s -> length (words s) = n ->
  spec_op w n (bval w s) o = Some (v', r) ->
  exists s', run_op w s o = Ok (s', r) /\ WF w s' /\ bval w s' = v' /\ length (words s') = n.
Proof. intros w Hw. exact (step_correct w Hw (mul2_ok_all w Hw) (div2_ok_all w)). Qed.
Print Assumptions c19_step.

(* every history of the operations of [proved_op] (Add / Subtract at any word, = += -= |= &= and
   copy-assignment with any operand type, *=, Divide, <<=, >>=, Clear, FindFirstBit, FindLastBit,
   the comparisons, the conversion): as long
   as the specification speaks (results fit, preconditions hold) no step errs, every
   state satisfies the invariant and holds exactly the specified integer, every returned
   remainder is exact *)
Theorem c19_history : forall w, 0 < w -> forall n ops s outs,
  Forall (proved_op w) ops -> WF w s -> length (words s) = n ->
  spec_run w n (bval w s) ops = Some outs ->
  Forall2 (obs_ok w n) (run_ops w s ops) outs.
Proof. intros w Hw. exact (history_correct w Hw (mul2_ok_all w Hw) (div2_ok_all w)). Qed.
Print Assumptions c19_history.

(* the model passes the very oracle (BigIntModel.oracle: exact value, Index() = top word, words in
   range, returned value) by which the correspondence run judges the C++ outputs *)
Theorem c19_model_passes_oracle : forall w, 0 < w -> forall n ops s,
  Forall (proved_op w) ops -> WF w s -> length (words s) = n ->
  oracle w n (bval w s) ops (oks (run_ops w s ops)) = true.
Proof. intros w Hw. exact (model_passes_oracle w Hw (mul2_ok_all w Hw) (div2_ok_all w)). Qed.
Print Assumptions c19_model_passes_oracle.

(* ... in particular from the freshly constructed (zero) object *)
Theorem c19_history_from_zero : forall w, 0 < w -> forall n ops outs, (0 < n)%nat ->
  Forall (proved_op w) ops -> spec_run w n 0 ops = Some outs ->
  Forall2 (obs_ok w n) (run_ops w (zero_big n) ops) outs.
Proof.
  intros w Hw n ops outs Hn Hp Hs.
  destruct (zero_big_WF w Hw n Hn) as (HWF & Hz).
  apply (history_correct w Hw (mul2_ok_all w Hw) (div2_ok_all w) n ops (zero_big n) outs Hp HWF).
  - unfold zero_big. cbn. apply repeat_length.
  - rewrite Hz. exact Hs.
Qed.
Print Assumptions c19_history_from_zero.

(* non-vacuity: [proved_op] covers a concrete mixed history on 8-bit words (uint8/uint64 operands)
   on which the specification speaks at every step *)
Theorem c19_history_nonvacuous :
  let ops := [OSet 64 18446744073709551615; OShr 9; OMul 255; OAdd 64 4294967296; OSub 8 7; ODiv 129;
              OShl 13; OFfb; OFlb; OCmp 5; ONarrow 16; OAnd 64 1099511627775; OOr 32 16777217; OCopy 64 65536; OClear] in
  Forall (proved_op 8) ops /\ exists outs, spec_run 8 9 0 ops = Some outs /\ length outs = 15%nat.
Proof. exact history_nonvacuous. Qed.
Print Assumptions c19_history_nonvacuous.

(* non-vacuity of the construction / move / operator/= / SetIndex operations *)
Theorem c19_move_setindex_nonvacuous :
  let ops := [OSet 8 7; OShl 8; OOr 8 5; OMoveRound; OCopyRound; OSelfMove; OMoveAssign 8 9; OPoke 2 1 2;
              ODivAssign 3; OPoke 2 0 1; OPoke 1 0 0] in
  Forall (proved_op 8) ops /\
  spec_run 8 3 0 ops = Some [(7, 0); (1792, 0); (1797, 0); (1797, 0); (1797, 0); (1797, 0); (9, 0); (65545, 0);
                             (21848, 0); (21848, 0); (88, 0)] /\
  map (fun e => match e with Ok (s, r) => Some (words s, index s, r) | Error _ => None end)
      (run_ops 8 (zero_big 3) ops)
  = [Some ([7; 0; 0], 0%nat, 0); Some ([0; 7; 0], 1%nat, 0); Some ([5; 7; 0], 1%nat, 0); Some ([5; 7; 0], 1%nat, 0);
     Some ([5; 7; 0], 1%nat, 0); Some ([5; 7; 0], 1%nat, 0); Some ([9; 0; 0], 0%nat, 0); Some ([9; 0; 1], 2%nat, 0);
     Some ([88; 85; 0], 1%nat, 0); Some ([88; 85; 0], 1%nat, 0); Some ([88; 0; 0], 0%nat, 0)].
Proof. exact move_setindex_example. Qed.
Print Assumptions c19_move_setindex_nonvacuous.
