(* Properties_C19.v -- the C19 theorems and nothing else. *)
From Coq Require Import NArith List.
From Qv Require Import BigIntModel BigIntProofs.
Import ListNotations.
Local Open Scope N_scope.

Theorem c19_value_nil : forall w, value w [] = 0.
Proof. exact value_nil. Qed.
Print Assumptions c19_value_nil.
