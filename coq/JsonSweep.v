(* JsonSweep.v -- small exhaustive vm_compute sweeps (16-bit hex values, 10-bit halves of a
   surrogate pair, 6-bit payloads of UTF-8 bytes) behind the string facts of C06. *)
From Coq Require Import NArith List Bool Lia.
From Qv Require Import gen.Tables_json JsonModel JsonSpec.
Import ListNotations.
Local Open Scope N_scope.

Fixpoint range_all (k : nat) (start : N) (P : N -> bool) : bool :=
  match k with
  | O => true
  | S k' => if P start then range_all k' (N.succ start) P else false
  end.

Lemma range_all_spec : forall k start P, range_all k start P = true ->
  forall x, start <= x -> x < start + N.of_nat k -> P x = true.
Proof.
  induction k as [|k IH]; intros start P H x H1 H2; [lia|].
  cbn [range_all] in H. destruct (P start) eqn:E; [|discriminate].
  destruct (N.eq_dec x start) as [->|Hne]; [assumption|].
  apply (IH (N.succ start) P H); lia.
Qed.

(* the numeric content of four hex digits *)
Definition nib (v k : N) : N := N.land (N.shiftr v (4 * (3 - k))) 15.
Definition hexstep (acc x : N) : N := N.lor (m32 (acc * 16)) x.
Definition hexacc (x0 x1 x2 x3 : N) : N := hexstep (hexstep (hexstep (hexstep 0 x0) x1) x2) x3.

Definition chk_hex (v : N) : bool :=
  (hexacc (nib v 0) (nib v 1) (nib v 2) (nib v 3) =? v) &&
  (nib v 0 <? 16) && (nib v 1 <? 16) && (nib v 2 <? 16) && (nib v 3 <? 16) &&
  (Bool.eqb (is_high v) ((55296 <=? v) && (v <=? 56319))).
Lemma sweep_hex : range_all (N.to_nat 65536) 0 chk_hex = true.
Proof. vm_compute. reflexivity. Qed.

(* the halves of a surrogate pair *)
Definition chk_hi (a : N) : bool := (N.lxor (55296 + a) 55296 =? a) && is_high (55296 + a) && (55296 + a <? 65536).
Lemma sweep_hi : range_all (N.to_nat 1024) 0 chk_hi = true.
Proof. vm_compute. reflexivity. Qed.
Definition chk_lo (b : N) : bool := (N.land (56320 + b) 1023 =? b) && (56320 + b <? 65536).
Lemma sweep_lo : range_all (N.to_nat 1024) 0 chk_lo = true.
Proof. vm_compute. reflexivity. Qed.

(* UTF-8 lead and continuation bytes, UTF-16 surrogates: never one of the five units a string treats specially *)
Definition chk_u8 (z : N) : bool :=
  raw_ok (cut 0 (N.lor 128 z)) && raw_ok (cut 0 (N.lor 192 z)) && raw_ok (cut 0 (N.lor 224 z)) && raw_ok (cut 0 (N.lor 240 z)).
Lemma sweep_u8 : range_all (N.to_nat 64) 0 chk_u8 = true.
Proof. vm_compute. reflexivity. Qed.
Definition chk_u16 (z : N) : bool := raw_ok (cut 1 (N.lor 55296 z)) && raw_ok (cut 1 (N.lor 56320 z)).
Lemma sweep_u16 : range_all (N.to_nat 1024) 0 chk_u16 = true.
Proof. vm_compute. reflexivity. Qed.

(* hex digit characters of either case *)
Definition hexchar (x : N) (upper : bool) : N :=
  if x <? 10 then dc_zero + x else if upper then dc_ua + (x - 10) else dc_a + (x - 10).
Definition chk_digit (x : N) : bool :=
  match hexval (hexchar x true), hexval (hexchar x false) with
  | Some a, Some b => (a =? x) && (b =? x)
  | _, _ => false
  end.
Lemma sweep_digit : range_all (N.to_nat 16) 0 chk_digit = true.
Proof. vm_compute. reflexivity. Qed.
