(* LedgerProofsValueTop.v -- C16, phase 2: every Value operation keeps the ownership ledger and never
   releases or reads a dead block; all histories; destruction of the pool; non-vacuity. *)
From Coq Require Import NArith List Arith Bool Lia.
From Qv Require Import SeqModel LedgerProofs LedgerValueModel LedgerProofsValue LedgerProofsValueOps.
Import ListNotations.

Lemma src_reads : forall root s x, In x (blocks (src_of root s)) -> In x (blocks root).
Proof.
  intros root s x. unfold src_of. destruct (vget root s) as [v|] eqn:E; [|intros []].
  rewrite !cnt_In. pose proof (vget_cnt_le s root v E x). lia.
Qed.

Theorem vstep_ledger : forall st op, vledger st ->
  exists st', vstep st op = Ok st' /\ vledger st' /\ length (vkids (snd st')) = length (vkids (snd st)).
Proof.
  intros st op Hl.
  assert (Hsame : exists st', Ok st = Ok st' /\ vledger st' /\ length (vkids (snd st')) = length (vkids (snd st))) by (exists st; auto).
  destruct op as [t|t len|t n|t key grow|t grow|d s mv grow|d s mv|d s mv grow|t k|t re|t]; cbn [vstep].
  - apply apply_local_ledger; [assumption|now apply f_replace_ok|intros x []].
  - apply apply_local_ledger; [assumption|apply f_str_ok|intros x []].
  - apply apply_local_ledger; [assumption|now apply f_replace_ok|intros x []].
  - apply apply_local_ledger; [assumption|apply f_insert_ok|intros x []].
  - apply apply_local_ledger; [assumption|apply f_append_ok|intros x []].
  - destruct (unrelated d s); [|exact Hsame]. destruct mv.
    + apply apply_absorb_ledger; [assumption|apply g_append_move_ok].
    + destruct (vpos (snd st) s); [|exact Hsame].
      apply apply_local_ledger; [assumption|apply f_append_copy_ok|apply src_reads].
  - destruct mv.
    + apply apply_absorb_ledger; [assumption|apply g_move_ok].
    + destruct (vpos (snd st) s); [|exact Hsame].
      apply apply_local_ledger; [assumption|apply f_copy_ok|apply src_reads].
  - destruct (unrelated d s); [|exact Hsame]. destruct mv.
    + apply apply_absorb_ledger; [assumption|apply g_merge_move_ok].
    + destruct (vpos (snd st) s); [|exact Hsame].
      apply apply_local_ledger; [assumption|apply f_merge_copy_ok|apply src_reads].
  - apply apply_local_ledger; [assumption|apply f_remove_ok|intros x []].
  - apply apply_local_ledger; [assumption|apply f_compress_ok|intros x []].
  - apply apply_local_ledger; [assumption|now apply f_replace_ok|intros x []].
Qed.

Theorem vrun_ledger : forall ops st, vledger st ->
  exists st', vrun ops st = Ok st' /\ vledger st' /\ length (vkids (snd st')) = length (vkids (snd st)).
Proof.
  induction ops as [|op r IH]; intros st Hl; cbn [vrun].
  - exists st. auto.
  - destruct (vstep_ledger st op Hl) as (st1 & E1 & Hl1 & Hn1). rewrite E1. cbn [bind].
    destruct (IH st1 Hl1) as (st' & E & Hl' & Hn). exists st'. split; [exact E|]. split; [exact Hl'|]. lia.
Qed.

Lemma blocks_root0 : forall n, blocks (root0 n) = [].
Proof.
  intros n. unfold root0. cbn [blocks]. rewrite app_nil_r. induction n as [|n IH]; [reflexivity|]. cbn [repeat flat_map]. now rewrite IH.
Qed.

Lemma vledger0 : forall n, vledger (vstate0 n).
Proof. intros n. split; cbn [fst snd vstate0]; [|reflexivity]. intros x. now rewrite blocks_root0. Qed.

Lemma live_ids_nil : forall h, (forall x, live h x = false) -> live_ids h = [].
Proof.
  intros h H. unfold live_ids. induction (seq 0 (nxt h)) as [|b l IH]; [reflexivity|]. cbn [filter]. now rewrite H.
Qed.

(* ~Value of every variable: succeeds (nothing is released twice) and leaves no live block *)
Theorem destroy_all_values_empty : forall st, vledger st ->
  exists st', destroy_all_values st = Ok st' /\ (forall x, live (fst st') x = false) /\ live_ids (fst st') = [] /\
    snd st' = root0 (length (vkids (snd st))) /\ nxt (fst st') = nxt (fst st).
Proof.
  intros (h, root) (Hc & Hf). cbn [fst snd] in *. unfold destroy_all_values. cbn [fst snd].
  assert (Hpre : forall x, cnt x (blocks root) <= b2n (live h x)) by (intros x; rewrite Hc; lia).
  destruct (vfree_list_ok (blocks root) h Hpre) as (h' & E & Hn & Hfr). rewrite E. cbn [bind].
  assert (Hdead : forall x, live h' x = false).
  { intros x. specialize (Hfr x). rewrite Hc in Hfr. destruct (live h' x); [|reflexivity]. cbn [b2n] in Hfr. destruct (live h x); cbn in Hfr; lia. }
  eexists. split; [reflexivity|]. cbn [fst snd]. split; [exact Hdead|]. split; [now apply live_ids_nil|]. split; [reflexivity|exact Hn].
Qed.

(* C16 for Value trees: every history on a pool of n variables *)
Theorem value_ledger : forall n (ops : list vop),
  exists st st', vrun ops (vstate0 n) = Ok st /\ vledger st /\
    destroy_all_values st = Ok st' /\ live_ids (fst st') = [] /\ snd st' = root0 n.
Proof.
  intros n ops. destruct (vrun_ledger ops (vstate0 n) (vledger0 n)) as (st & E & Hl & Hn).
  destruct (destroy_all_values_empty st Hl) as (st' & Ed & _ & Hlive & Hroot & _).
  exists st, st'. split; [exact E|]. split; [exact Hl|]. split; [exact Ed|]. split; [exact Hlive|].
  rewrite Hroot, Hn. cbn [vstate0 snd root0 vkids]. now rewrite repeat_length.
Qed.

(* what the ledger says: no block has two owners, every live block is owned, nothing owned is released *)
Theorem vledger_meaning : forall st, vledger st ->
  NoDup (blocks (snd st)) /\ (forall x, live (fst st) x = true <-> In x (blocks (snd st))) /\
  (forall x, In x (live_ids (fst st)) <-> In x (blocks (snd st))).
Proof.
  intros st Hl. split; [now apply vledger_NoDup|]. split; [intros x; now apply vledger_live_iff|].
  intros x. unfold live_ids. rewrite filter_In, in_seq, (vledger_live_iff st x Hl). split; [tauto|].
  intros Hin. split; [|assumption]. apply (vledger_live_iff st x Hl) in Hin. destruct Hl as (_ & Hf).
  destruct (Nat.lt_ge_cases x (nxt (fst st))) as [|Hge]; [lia|]. rewrite (Hf x Hge) in Hin. discriminate.
Qed.

(* a release that succeeds released live blocks only, each once (the model's vfree fails otherwise) *)
Theorem vfree_dead_is_error : forall h b, live h b = false -> vfree h b = Error UAF.
Proof. intros h b H. unfold vfree. now rewrite H. Qed.

(* ---------- non-vacuity ---------- *)
(* variable i = [i]; the value of item k of an object at p = p ++ [k; 0]; element k of an array at p = p ++ [k] *)
Definition ex_vops : list vop :=
  [ OInsert [0] 7 false; OSetStr [0;0;0] 3; OInsert [0] 8 true; OAppend [0;1;0] false; OAppend [0;1;0] true; OSetStr [0;1;0;1] 2;
    OAssign [1] [0] false;                 (* v1 = v0: deep copy *)
    OAssign [0] [0;1;0] false;             (* v0 = v0["8"]: copy from an own member (D40) *)
    OAssign [1] [1;1;0] true;              (* v1 = Move(v1["8"]): move from an own member (D40) *)
    OInsert [2] 7 false; OSetStr [2;0;0] 1; OInsert [2] 9 false; OSetStr [2;1;0] 4;
    OAssign [1] [2] false;                 (* v1 = copy of v2 = {7:"x", 9:"xxxx"} *)
    ORemove [1] 1;                         (* tombstone in v1 *)
    OMerge [1] [2] true true;              (* v1.Merge(Move(v2)): key 7 collides, key 9 is adopted, storage grows *)
    OCompress [1] true;
    OAssign [0;0] [0] false;               (* v0[0] = v0: copy from an ancestor *)
    OMerge [2] [0] false false ].          (* undefined.Merge(array): becomes an array of copies *)

Example ex_value_ledger :
  match vrun ex_vops (vstate0 3) with
  | Ok st =>
      match destroy_all_values st with
      | Ok st' => (length (live_ids (fst st)) =? length (blocks (snd st))) && (0 <? length (live_ids (fst st))) = true
                  /\ live_ids (fst st') = [] /\ length (live_ids (fst st)) = 13
      | Error _ => False
      end
  | Error _ => False
  end.
Proof. vm_compute. auto. Qed.

(* the order of Value::operator=(const Value&) before D40 (reset first, then copy) reads released blocks
   when the source is a member of the target; the order of the current code does not *)
Definition ex_d40_state : res vstate := vrun [OInsert [0] 7 false; OSetStr [0;0;0] 3] (vstate0 1).
Example ex_d40_reset_first_is_uaf :
  match ex_d40_state with
  | Ok st => assign_copy_reset_first st [0] [0;0;0] = Error UAF /\
             (exists st', vstep st (OAssign [0] [0;0;0] false) = Ok st' /\ length (live_ids (fst st')) = 1)
  | Error _ => False
  end.
Proof. vm_compute. split; [reflexivity|]. eexists. split; reflexivity. Qed.
