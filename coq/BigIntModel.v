(* BigIntModel.v -- C19: executable model of Include/BigInt.hpp (BigInt<Number_T, Width>
   and the DoubleSize helpers), the specification (exact integers) and the oracle.
   DEFINITIONS ONLY.

   The model describes the code AFTER the repairs findings/D6, D7, D8, D9, D10, D31.

   Generic in the word width [w] (bits; 8/16/32/64 in the C++) and in the number of
   words (the length of [words]).  Every element access goes through [rd]/[wr]:
   an index outside the array is [Error OOB].  A decrement of an unsigned index
   below zero is [Error IdxWrap] (the C++ would continue with 4294967295).  *)
From Coq Require Import Arith NArith List Bool.
Import ListNotations.
Local Open Scope N_scope.

Inductive err := OOB | Fuel | DivZero | ZeroScan | IdxWrap.
Inductive res (A : Type) := Ok (a : A) | Error (e : err).
Arguments Ok {A} a.
Arguments Error {A} e.

Definition bind {A B} (r : res A) (f : A -> res B) : res B :=
  match r with Ok a => f a | Error e => Error e end.
Notation "'do' x <- r ; k" := (bind r (fun x => k)) (at level 200, x name, r at level 100, k at level 200).
Notation "'do' ' p <- r ; k" := (bind r (fun p => k)) (at level 200, p strict pattern, r at level 100, k at level 200).

Record bigint := mkBig { words : list N; index : nat }.

Fixpoint upd (l : list N) (i : nat) (x : N) : list N :=
  match l, i with
  | [], _ => []
  | _ :: t, O => x :: t
  | a :: t, S j => a :: upd t j x
  end.

Definition rd (l : list N) (i : nat) : res N :=
  match nth_error l i with Some x => Ok x | None => Error OOB end.
Definition wr (l : list N) (i : nat) (x : N) : res (list N) :=
  if (i <? length l)%nat then Ok (upd l i x) else Error OOB.

(* ------------------------------------------------------------------------- *)
(* Platform::FindFirstBit / FindLastBit (argument must be non-zero) *)
Fixpoint ctz_pos (p : positive) : N :=
  match p with xO q => 1 + ctz_pos q | _ => 0 end.
Definition ctz (x : N) : N := match x with N0 => 0 | Npos p => ctz_pos p end.

(* ------------------------------------------------------------------------- *)
(* DoubleSize<Number_T, 64>: generic in the half width h (word = 2h bits).     *)
Section Half.
  Variable h : N.
  Let Bh := 2 ^ h.
  Let M := 2 ^ (2 * h).

  (* Multiply(number&, multiplier): (low word left in number, returned high word) *)
  Definition mul2_half (number multiplier : N) : N * N :=
    let number_low := number mod Bh in
    let number_high := number in
    let multiplier_low := multiplier mod Bh in
    let number := (number_low * multiplier_low) mod M in
    let number_high := number_high / Bh in
    let multiplier_low := (multiplier_low * number_high) mod M in
    let multiplier_low := (multiplier_low + number / Bh) mod M in
    let number := number mod Bh in
    let multiplier := multiplier / Bh in
    let number_high := (number_high * multiplier) mod M in
    let number_high := (number_high + multiplier_low / Bh) mod M in
    let multiplier_low := multiplier_low mod Bh in
    let multiplier_low := (multiplier_low + number_low * multiplier) mod M in
    let number := N.lor number ((multiplier_low * Bh) mod M) in
    let multiplier_low := multiplier_low / Bh in
    let number_high := (number_high + multiplier_low) mod M in
    (number, number_high).

  Definition subM (a b : N) : N := (a + M - b) mod M.

  (* one half-word quotient step of Divide: (new dividend_high, quotient) *)
  Definition div_digit (hi ds dl dh : N) : N * N :=
    let q := hi / dl in
    let hi := hi mod dl in
    let r := (q * dh) mod M in
    let hi := (hi * Bh) mod M in
    let '(q, r) :=
      if hi <? r then
        let q := subM q 1 in
        let '(q, r) := if ds <? subM r hi then (subM q 1, subM r ds) else (q, r) in
        (q, subM r ds)
      else (q, r) in
    (subM hi r, q).

  (* Divide(dividend_high&, dividend_low&, divisor, initial_shift): (remainder, quotient).
     The overflow branch is the repaired one (D8). *)
  Definition div2_half (hi lo d ishift : N) : N * N :=
    let carry := lo mod d in
    let lo := lo / d in
    let ds := (d * 2 ^ ishift) mod M in
    let dl := ds / Bh in
    let dh := ds mod Bh in
    let hi := (hi * 2 ^ ishift) mod M in
    let '(hi, q) := div_digit hi ds dl dh in
    let lo := (lo + (q * Bh) mod M) mod M in
    let '(hi, q) := div_digit hi ds dl dh in
    let lo := (lo + q) mod M in
    let hi := hi / 2 ^ ishift in
    let o := hi in
    let hi := (hi + carry) mod M in
    let '(hi, lo) := if hi <? o then (subM hi d, (lo + 1) mod M) else (hi, lo) in
    if d <=? hi then (subM hi d, (lo + 1) mod M) else (hi, lo).
End Half.

(* ------------------------------------------------------------------------- *)
Section Model.
  Variable w : N.                       (* TypeWidth() *)
  Definition Bw := 2 ^ w.

  (* DoubleSize<Number_T, w>::Multiply -> (low, high) *)
  Definition mul2 (a m : N) : N * N :=
    if w =? 64 then mul2_half 32 a m
    else let p := a * m in (p mod Bw, (p / Bw) mod Bw).

  (* DoubleSize<Number_T, w>::Divide -> (remainder, quotient word) *)
  Definition div2 (hi lo d ishift : N) : N * N :=
    if w =? 64 then div2_half 32 hi lo d ishift
    else let x := hi * Bw + lo in (x mod d, (x / d) mod Bw).

  (* clears positions lowest+cnt-1, ..., lowest (in this order) *)
  Fixpoint clear_down (cnt : nat) (l : list N) (lowest : nat) : res (list N) :=
    match cnt with
    | O => Ok l
    | S c => do l' <- wr l (lowest + c) 0; clear_down c l' lowest
    end.

  (* while ((idx != 0) && (storage_[idx] == 0)) --idx; *)
  Fixpoint scan_down (l : list N) (idx : nat) : res nat :=
    match idx with
    | O => Ok O
    | S j => do x <- rd l idx; if x =? 0 then scan_down l j else Ok idx
    end.

  (* Clear() *)
  Definition clear (s : bigint) : res bigint :=
    do l <- clear_down (S (index s)) (words s) 0; Ok (mkBig l 0).

  (* ---- Add(number, index) ---- *)
  Fixpoint add_loop (fuel : nat) (l : list N) (number : N) (i : nat) : res (list N * nat) :=
    match fuel with
    | O => Error Fuel
    | S f =>
      if (length l <=? i)%nat then Ok (l, i)
      else
        do tmp <- rd l i;
        let nw := (tmp + number) mod Bw in
        do l' <- wr l i nw;
        if tmp <? nw then Ok (l', i) else add_loop f l' 1 (S i)
    end.

  Definition add (s : bigint) (number : N) (i : nat) : res bigint :=
    if number =? 0 then Ok s
    else
      do '(l, j) <- add_loop (S (length (words s))) (words s) number i;
      if (length l <=? j)%nat then Ok (mkBig l 0)
      else if (index s <? j)%nat then Ok (mkBig l j)
      else Ok (mkBig l (index s)).

  (* ---- Subtract(number, index) ---- *)
  Fixpoint sub_loop (fuel : nat) (l : list N) (number : N) (i : nat) : res (list N * nat) :=
    match fuel with
    | O => Error Fuel
    | S f =>
      if (length l <=? i)%nat then Ok (l, i)
      else
        do tmp <- rd l i;
        let nw := (tmp + Bw - number) mod Bw in
        do l' <- wr l i nw;
        if nw <? tmp then Ok (l', i) else sub_loop f l' 1 (S i)
    end.

  Definition sub (s : bigint) (number : N) (i : nat) : res bigint :=
    if number =? 0 then Ok s
    else
      do '(l, j) <- sub_loop (S (length (words s))) (words s) number i;
      if (length l <=? j)%nat then Ok (mkBig l (length l - 1))
      else if (index s <=? j)%nat then
        do k <- scan_down l (index s); Ok (mkBig l k)
      else Ok (mkBig l (index s)).

  (* ---- Multiply(multiplier), with the D9 repair (index scan at the end) ---- *)
  Fixpoint mul_loop (k : nat) (s : bigint) (m : N) : res bigint :=
    match k with
    | O => Ok s
    | S i =>
      do x <- rd (words s) i;
      let '(lo, hi) := mul2 x m in
      do l' <- wr (words s) i lo;
      do s' <- add (mkBig l' (index s)) hi (S i);
      mul_loop i s' m
    end.

  Definition multiply (s : bigint) (m : N) : res bigint :=
    do s' <- mul_loop (S (index s)) s m;
    do k <- scan_down (words s') (index s');
    Ok (mkBig (words s') k).

  (* ---- Divide(divisor) -> remainder ---- *)
  Fixpoint div_loop (k : nat) (l : list N) (rem d sh : N) : res (list N * N) :=
    match k with
    | O => Ok (l, rem)
    | S i =>
      do lo <- rd l i;
      let '(r', q) := div2 rem lo d sh in
      do l' <- wr l i q;
      div_loop i l' r' d sh
    end.

  Definition divide (s : bigint) (d : N) : res (bigint * N) :=
    if d =? 0 then Error DivZero
    else
      do t <- rd (words s) (index s);
      let rem := t mod d in
      do l1 <- wr (words s) (index s) (t / d);
      let sh := if w =? 64 then (w - 1) - N.log2 d else 0 in
      do '(l2, r) <- div_loop (index s) l1 rem d sh;
      do t2 <- rd l2 (index s);
      let idx := if (0 <? index s)%nat && (t2 =? 0) then (index s - 1)%nat else index s in
      Ok (mkBig l2 idx, r).

  (* ---- ShiftRight(offset) ---- *)
  Fixpoint shr_move (cnt : nat) (l : list N) (i next : nat) : res (list N) :=
    match cnt with
    | O => Ok l
    | S c => do x <- rd l next; do l' <- wr l i x; shr_move c l' (S i) (S next)
    end.

  Fixpoint shr_loop (cnt : nat) (l : list N) (i : nat) (off : N) : res (list N) :=
    match cnt with
    | O => Ok l
    | S c =>
      do a <- rd l i;
      do b <- rd l (S i);
      do l1 <- wr l i (N.lor a ((b * 2 ^ (w - off)) mod Bw));
      do l2 <- wr l1 (S i) (b / 2 ^ off);
      shr_loop c l2 (S i) off
    end.

  Definition shr_bits (s : bigint) (off : N) : res bigint :=
    if off =? 0 then Ok s
    else
      do a <- rd (words s) 0;
      do l0 <- wr (words s) 0 (a / 2 ^ off);
      do l1 <- shr_loop (index s) l0 0 off;
      do t <- rd l1 (index s);
      let idx := if negb (index s =? 0)%nat && (t =? 0) then (index s - 1)%nat else index s in
      Ok (mkBig l1 idx).

  Definition shift_right (s : bigint) (offset : N) : res bigint :=
    if w <=? offset then
      let move := N.to_nat (offset / w) in
      let off := offset - (offset / w) * w in
      if (index s <? move)%nat then clear s
      else
        do l1 <- shr_move (S (index s - move)) (words s) 0 move;
        do l2 <- clear_down move l1 (S (index s) - move);
        shr_bits (mkBig l2 (index s - move)) off
    else shr_bits s offset.

  (* ---- ShiftLeft(offset), with the D7 repair (scan_down stops at 0) ---- *)
  Fixpoint move_up (k : nat) (l : list N) (move : nat) : res (list N) :=
    match k with
    | O => Ok l
    | S j => do x <- rd l j; do l' <- wr l (j + move) x; move_up j l' move
    end.

  Fixpoint shl_loop (k : nat) (l : list N) (off : N) : res (list N) :=
    match k with
    | O => Ok l
    | S j =>
      do a <- rd l (S j);
      do b <- rd l j;
      do l1 <- wr l (S j) (N.lor a (b / 2 ^ (w - off)));
      do l2 <- wr l1 j ((b * 2 ^ off) mod Bw);
      shl_loop j l2 off
    end.

  Definition shl_bits (s : bigint) (off : N) : res bigint :=
    if off =? 0 then Ok s
    else
      let idx := index s in
      do a <- rd (words s) idx;
      let carry := a / 2 ^ (w - off) in
      do l0 <- wr (words s) idx ((a * 2 ^ off) mod Bw);
      do '(l1, idx') <-
        (if negb (idx =? length (words s) - 1)%nat then
           let idx' := if carry =? 0 then idx else S idx in
           do c <- rd l0 idx';
           do l1 <- wr l0 idx' (N.lor c carry);
           Ok (l1, idx')
         else Ok (l0, idx));
      do l2 <- shl_loop idx l1 off;
      Ok (mkBig l2 idx').

  Definition shl_words (s : bigint) (top move : nat) (off : N) : res bigint :=
    do l1 <- move_up (S (index s)) (words s) move;
    do l2 <- clear_down move l1 0;
    do k <- scan_down l2 top;
    shl_bits (mkBig l2 k) off.

  Definition shift_left (s : bigint) (offset : N) : res bigint :=
    if w <=? offset then
      let move := N.to_nat (offset / w) in
      let off := offset - (offset / w) * w in
      let top := (index s + move)%nat in
      let maxi := (length (words s) - 1)%nat in
      if (maxi <? top)%nat then
        let diff := (top - maxi)%nat in
        if (diff <=? index s)%nat then shl_words (mkBig (words s) (index s - diff)) maxi move off
        else clear s
      else shl_words s top move off
    else shl_bits s offset.

  (* ---- doOperation<Op>(number): the operand type has [ow] bits ---- *)
  Inductive opk := KSet | KOr | KAnd | KAdd | KSub.

  (* first switch: word 0 *)
  Definition word0_step (k : opk) (s : bigint) (x : N) : res bigint :=
    match k with
    | KAdd => add s x 0
    | KSub => sub s x 0
    | KOr => do a <- rd (words s) 0; do l <- wr (words s) 0 (N.lor a x); Ok (mkBig l (index s))
    | KAnd => do a <- rd (words s) 0; do l <- wr (words s) 0 (N.land a x); Ok (mkBig l 0)
    | KSet => do l <- wr (words s) 0 x; Ok (mkBig l 0)
    end.

  (* second switch: word i >= 1 of a wider operand *)
  Definition wide_step (k : opk) (s : bigint) (x : N) (i : nat) : res bigint :=
    match k with
    | KAdd => add s x i
    | KSub => sub s x i
    | KOr => do a <- rd (words s) i; do l <- wr (words s) i (N.lor a x);
             Ok (mkBig l (if (index s <? i)%nat then i else index s))
    | KAnd => do a <- rd (words s) i; let y := N.land a x in do l <- wr (words s) i y;
              Ok (mkBig l (if y =? 0 then index s else i))
    | KSet => do l <- wr (words s) i x; Ok (mkBig l (S (index s)))
    end.

  Fixpoint wide_loop (fuel : nat) (k : opk) (s : bigint) (number : N) (i : nat) : res (bigint * nat) :=
    match fuel with
    | O => Error Fuel
    | S f =>
      if number =? 0 then Ok (s, i)
      else do s' <- wide_step k s (number mod Bw) i; wide_loop f k s' (number / Bw) (S i)
    end.

  (* template <Operation, N_Number_T> doOperation (operand type differs from Number_T), D10 repaired *)
  Definition do_operation_t (k : opk) (ow : N) (s : bigint) (number : N) : res bigint :=
    let last := index s in
    do s0 <- word0_step k s (number mod Bw);
    do '(s1, i) <-
      (if 1 <? ow / w then wide_loop (S (N.to_nat (N.size number))) k s0 (number / Bw) 1
       else Ok (s0, 1%nat));
    match k with
    | KAnd => do l <- clear_down (S last - i) (words s1) i; Ok (mkBig l (index s1))
    | _ => Ok s1
    end.

  (* doOperation(Number_T number), D10 repaired *)
  Definition do_operation_s (k : opk) (s : bigint) (number : N) : res bigint :=
    match k with
    | KAnd => do a <- rd (words s) 0; do l <- wr (words s) 0 (N.land a number);
              do l' <- clear_down (index s) l 1; Ok (mkBig l' 0)
    | _ => word0_step k s number
    end.

  Definition do_operation (k : opk) (ow : N) (s : bigint) (number : N) : res bigint :=
    if ow =? w then do_operation_s k s number else do_operation_t k ow s number.

  (* operator=(N_Number_T) *)
  Definition assign (ow : N) (s : bigint) (number : N) : res bigint :=
    do s' <- do_operation KSet ow s number;
    do l <- clear_down (index s - index s') (words s') (S (index s'));
    Ok (mkBig l (index s')).

  (* operator=(const BigInt &) -> copy(src), D31 repaired *)
  Fixpoint copy_loop (cnt : nat) (l src : list N) (i : nat) : res (list N) :=
    match cnt with
    | O => Ok l
    | S c => do x <- rd src i; do l' <- wr l i x; copy_loop c l' src (S i)
    end.

  Definition copy_assign (s src : bigint) : res bigint :=
    let i := S (index src) in
    do l <- copy_loop i (words s) (words src) 0;
    do l' <- clear_down (S (index s) - i) l i;
    Ok (mkBig l' (index src)).

  (* BigInt(const BigInt &src): storage_ starts zeroed, words 0..src.index_ are copied *)
  Definition construct_copy (src : bigint) : res bigint :=
    do l <- copy_loop (S (index src)) (repeat 0 (length (words src))) (words src) 0;
    Ok (mkBig l (index src)).

  (* BigInt(BigInt &&src): the same copy, then src.Clear()  ->  (new object, moved-from object) *)
  Definition move_construct (src : bigint) : res (bigint * bigint) :=
    do t <- construct_copy src; do src' <- clear src; Ok (t, src').

  (* operator=(BigInt &&src) with this != &src: copy(src); src.Clear()  ->  (this, moved-from object) *)
  Definition move_assign (s src : bigint) : res (bigint * bigint) :=
    do s' <- copy_assign s src; do src' <- clear src; Ok (s', src').

  (* what a history observes of a secondary object: 2 * Index() + (1 if any word is non-zero) *)
  Definition obs_code (s : bigint) : N :=
    2 * N.of_nat (index s) + (if forallb (fun x => x =? 0) (words s) then 0 else 1).

  (* Storage()[i] = x (the caller's write through the non-const pointer) and SetIndex(k) *)
  Definition set_index (s : bigint) (k : nat) : bigint := mkBig (words s) k.
  Definition poke (s : bigint) (i : nat) (x : N) (k : nat) : res bigint :=
    do l <- wr (words s) i x; Ok (set_index (mkBig l (index s)) k).

  (* ---- FindFirstBit (D6 repaired) / FindLastBit ---- *)
  Fixpoint ffb_loop (fuel : nat) (l : list N) (idx i : nat) : res nat :=
    match fuel with
    | O => Error Fuel
    | S f => do x <- rd l i;
             if (x =? 0) && (i <=? idx)%nat then ffb_loop f l idx (S i) else Ok i
    end.

  Definition find_first_bit (s : bigint) : res N :=
    do i <- ffb_loop (S (S (index s))) (words s) (index s) 0;
    do x <- rd (words s) i;
    if x =? 0 then Error ZeroScan else Ok (ctz x + N.of_nat i * w).

  Definition find_last_bit (s : bigint) : res N :=
    do x <- rd (words s) (index s);
    if x =? 0 then Error ZeroScan else Ok (N.log2 x + N.of_nat (index s) * w).

  (* ---- comparisons against a word, IsZero / NotZero / IsBig: packed bits ----
     bit0 <  bit1 <=  bit2 >  bit3 >=  bit4 ==  bit5 !=   (BigInt op number)
     bit6..11 the same six for (number op BigInt), bit12 IsZero, bit13 NotZero, bit14 IsBig *)
  Definition b2n (b : bool) : N := if b then 1 else 0.
  Definition pack (bs : list bool) : N := fold_right (fun b acc => b2n b + 2 * acc) 0 bs.

  Definition compare_word (s : bigint) (v : N) : res N :=
    do x <- rd (words s) 0;
    let small := (index s =? 0)%nat in
    let lt := small && (x <? v) in
    let le := small && (x <=? v) in
    let gt := negb small || (v <? x) in
    let ge := negb small || (v <=? x) in
    let eq := small && (x =? v) in
    let ne := negb small || negb (x =? v) in
    Ok (pack [lt; le; gt; ge; eq; ne;  gt; ge; lt; le; eq; ne;
              small && (x =? 0); negb small || negb (x =? 0); negb small]).

  (* ---- explicit operator N_Number_T() with tw = bits of the target ---- *)
  Fixpoint narrow_loop (k : nat) (l : list N) (num tw : N) : res N :=
    match k with
    | O => Ok num
    | S i => do x <- rd l (S i); narrow_loop i l (((N.lor num x) * Bw) mod 2 ^ tw) tw
    end.

  Definition narrow (s : bigint) (tw : N) : res N :=
    if tw <=? w then do x <- rd (words s) 0; Ok (x mod 2 ^ tw)
    else
      let max_index := N.to_nat (tw / w - 1) in
      let idx := if (max_index <=? index s)%nat then max_index else index s in
      do num <- narrow_loop idx (words s) 0 tw;
      do x <- rd (words s) 0;
      Ok (N.lor num x).

  (* ------------------------------------------------------------------------- *)
  (* operations of a history *)
  Inductive op :=
  | OSet (ow v : N) | OAdd (ow v : N) | OSub (ow v : N) | OOr (ow v : N) | OAnd (ow v : N)
  | OAddAt (v : N) (i : nat) | OSubAt (v : N) (i : nat)
  | OMul (v : N) | ODiv (v : N) | OShl (k : N) | OShr (k : N)
  | OFfb | OFlb | OCmp (v : N) | ONarrow (tw : N) | OCopy (ow v : N) | OClear
  (* operator/=;  x = std::move(BigInt{v});  BigInt t(std::move(x)); x = std::move(t);
     BigInt t(x); x.Clear(); x = t;  x = std::move(x);  Storage()[i] = v; SetIndex(k) *)
  | ODivAssign (v : N) | OMoveAssign (ow v : N) | OMoveRound | OCopyRound | OSelfMove
  | OPoke (i : nat) (v : N) (k : nat).

  Definition zero_big (n : nat) : bigint := mkBig (repeat 0 n) 0.

  Definition run_op (s : bigint) (o : op) : res (bigint * N) :=
    match o with
    | OSet ow v => do s' <- assign ow s v; Ok (s', 0)
    | OAdd ow v => do s' <- do_operation KAdd ow s v; Ok (s', 0)
    | OSub ow v => do s' <- do_operation KSub ow s v; Ok (s', 0)
    | OOr ow v => do s' <- do_operation KOr ow s v; Ok (s', 0)
    | OAnd ow v => do s' <- do_operation KAnd ow s v; Ok (s', 0)
    | OAddAt v i => do s' <- add s v i; Ok (s', 0)
    | OSubAt v i => do s' <- sub s v i; Ok (s', 0)
    | OMul v => do s' <- multiply s v; Ok (s', 0)
    | ODiv v => divide s v
    | OShl k => do s' <- shift_left s k; Ok (s', 0)
    | OShr k => do s' <- shift_right s k; Ok (s', 0)
    | OFfb => do r <- find_first_bit s; Ok (s, r)
    | OFlb => do r <- find_last_bit s; Ok (s, r)
    | OCmp v => do r <- compare_word s v; Ok (s, r)
    | ONarrow tw => do r <- narrow s tw; Ok (s, r)
    | OCopy ow v =>
        do src <- assign ow (zero_big (length (words s))) v;
        do s' <- copy_assign s src; Ok (s', 0)
    | OClear => do s' <- clear s; Ok (s', 0)
    | ODivAssign v => do '(s', _) <- divide s v; Ok (s', 0)
    | OMoveAssign ow v =>
        do src <- assign ow (zero_big (length (words s))) v;
        do '(s', src') <- move_assign s src; Ok (s', obs_code src')
    | OMoveRound =>
        do '(t, s1) <- move_construct s;
        do '(s2, t') <- move_assign s1 t;
        Ok (s2, obs_code s1 + 65536 * obs_code t')
    | OCopyRound =>
        do t <- construct_copy s;
        do s1 <- clear s;
        do s2 <- copy_assign s1 t; Ok (s2, 0)
    | OSelfMove => Ok (s, 0)
    | OPoke i v k => do s' <- poke s i v k; Ok (s', 0)
    end.

  (* a history: the observable after every step; stops at the first Error *)
  Fixpoint run_ops (s : bigint) (ops : list op) : list (res (bigint * N)) :=
    match ops with
    | [] => []
    | o :: rest =>
      match run_op s o with
      | Ok (s', r) => Ok (s', r) :: run_ops s' rest
      | Error e => [Error e]
      end
    end.

  (* ------------------------------------------------------------------------- *)
  (* SPECIFICATION: the value is an exact natural number *)
  Fixpoint value (l : list N) : N :=
    match l with [] => 0 | x :: t => x + Bw * value t end.

  Definition top_index (v : N) : nat := if v =? 0 then O else N.to_nat (N.log2 v / w).

  Definition cmp_bits (v x : N) : N :=
    pack [v <? x; v <=? x; x <? v; x <=? v; v =? x; negb (v =? x);
          x <? v; x <=? v; v <? x; v <=? x; v =? x; negb (v =? x);
          v =? 0; negb (v =? 0); Bw <=? v].

  (* None: the mathematical result does not fit the width / the operation's
     precondition does not hold: the property says nothing from here on. *)
  Definition spec_op (n : nat) (v : N) (o : op) : option (N * N) :=
    let lim := 2 ^ (w * N.of_nat n) in
    let fit (x r : N) := if x <? lim then Some (x, r) else None in
    match o with
    | OSet ow x => if x <? 2 ^ ow then fit x 0 else None
    | OAdd ow x => if x <? 2 ^ ow then fit (v + x) 0 else None
    | OSub ow x => if (x <? 2 ^ ow) && (x <=? v) then Some (v - x, 0) else None
    | OOr ow x => if (x <? 2 ^ ow) && (x <? lim) then Some (N.lor v x, 0) else None
    | OAnd ow x => if (x <? 2 ^ ow) && (x <? lim) then Some (N.land v x, 0) else None
    | OAddAt x i => if (x <? Bw) then fit (v + x * 2 ^ (w * N.of_nat i)) 0 else None
    | OSubAt x i => if (x <? Bw) && (x * 2 ^ (w * N.of_nat i) <=? v) && (i <? n)%nat
                    then Some (v - x * 2 ^ (w * N.of_nat i), 0) else None
    | OMul x => if x <? Bw then fit (v * x) 0 else None
    | ODiv d => if (d =? 0) || (Bw <=? d) then None else Some (v / d, v mod d)
    | OShl k => fit (v * 2 ^ k) 0
    | OShr k => Some (v / 2 ^ k, 0)
    | OFfb => if v =? 0 then None else Some (v, ctz v)
    | OFlb => if v =? 0 then None else Some (v, N.log2 v)
    | OCmp x => if x <? Bw then Some (v, cmp_bits v x) else None
    | ONarrow tw => Some (v, v mod 2 ^ tw)
    | OCopy ow x => if x <? 2 ^ ow then fit x 0 else None
    | OClear => Some (0, 0)
    | ODivAssign d => if (d =? 0) || (Bw <=? d) then None else Some (v / d, 0)
    | OMoveAssign ow x => if x <? 2 ^ ow then fit x 0 else None
    | OMoveRound | OCopyRound | OSelfMove => Some (v, 0)
    | OPoke i x k =>
        (* the caller must leave the object well formed: k has to be the top word of the new contents *)
        let p := 2 ^ (w * N.of_nat i) in
        let v' := v - ((v / p) mod Bw) * p + x * p in
        if (i <? n)%nat && (x <? Bw) && (k =? top_index v')%nat then Some (v', 0) else None
    end.

  (* ORACLE: judges an observed history (index, words with trailing zeros
     possibly trimmed, returned value) against the exact integers. *)
  Definition step_ok (n : nat) (v' r : N) (obs : nat * list N * N) : bool :=
    let '(idx, ws, ret) := obs in
    (length ws <=? n)%nat && forallb (fun x => x <? Bw) ws &&
    (value ws =? v') && (idx =? top_index v')%nat && (ret =? r).

  Fixpoint oracle (n : nat) (v : N) (ops : list op) (obs : list (nat * list N * N)) : bool :=
    match ops with
    | [] => true
    | o :: rest =>
      match spec_op n v o with
      | None => true
      | Some (v', r) =>
        match obs with
        | [] => false
        | ob :: obs' => step_ok n v' r ob && oracle n v' rest obs'
        end
      end
    end.

  (* number of leading steps on which the specification speaks (used by the glue
     to cut the comparison where the property stops) *)
  Fixpoint spec_len (n : nat) (v : N) (ops : list op) : nat :=
    match ops with
    | [] => O
    | o :: rest => match spec_op n v o with None => O | Some (v', _) => S (spec_len n v' rest) end
    end.
End Model.
