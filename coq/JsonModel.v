(* JsonModel.v -- executable model of the JSON reader and writer of Qentem
   (definitions only; proofs in JsonProofs*.v).

   Modelled C++ (after the repairs D2, D11, D15, D16, D61, D62, D63, D81, D92, D93 of this component and
   D28, D43, D44, D45 of the digit component -- see /verif/findings):
     Include/JSON.hpp        Parse, parseObject, parseArray, parseValue
     Include/JSONUtils.hpp   UnEscape<true>, Escape, JSONotation_T (via gen/Tables_json.v)
     Include/StringUtils.hpp TrimLeft
     Include/Unicode.hpp     ToUTF (UTF-8 / UTF-16 / UTF-32)
     Include/Digit.hpp       HexStringToNumber, stringToNumber (the SCANNER: which units are
                             consumed and which kind is returned; the value of a real is opaque),
                             parseExponent
     Include/Value.hpp       Stringify, stringifyObject / Array / Value (integers and text;
                             reals carry the text NumberToString emitted)

   Representation.  The single cursor (content, offset, length) is the list of
   the units from [offset] to the end: [offset < length] is [has r],
   [content[offset]] is [rd site r] (an explicit [JErr (OOB site)] when nothing is
   left), [++offset] is [adv site r] (an explicit [JErr (Past site)] when the
   cursor would pass [length]), the failure sentinel [offset = length] is [[]].
   Sites are 1000+line for JSON.hpp, 2000+line for JSONUtils.hpp, 3000+line for
   Digit.hpp (line numbers of the pinned tree).  Inside loops whose C++ condition
   is literally [offset < end] followed by the read, the pair is written as a
   [match] on the list.  Lengths are below 2^32 by the C++ types (SizeT); the
   model does not reduce offsets.  Code units are [N]; the width [w] is 0 for
   char (UTF-8), 1 for char16_t, 2 for char32_t and 3 for wchar_t (4 bytes). *)
From Coq Require Import NArith ZArith List Bool.
From Qv Require Import gen.Tables_json.
From Qv Require DigitModel.     (* powerOfPositiveTen's overflow verdict (D43) and IntToString are used *)
Import ListNotations.
Local Open Scope N_scope.

(* ------------------------------------------------------------------ *)
(* outcomes *)
Inductive jerr := OOB (site : N) | Past (site : N) | Fuel.
Inductive jres (A : Type) := JOk (a : A) | JErr (e : jerr).
Arguments JOk {A} a.
Arguments JErr {A} e.
Definition bind {A B} (x : jres A) (f : A -> jres B) : jres B :=
  match x with JOk a => f a | JErr e => JErr e end.
Notation "x <- e ;; k" := (bind e (fun x => k)) (at level 61, e at next level, right associativity).
Notation "' p <- e ;; k" := (bind e (fun x => match x with p => k end))
  (at level 61, p pattern, e at next level, right associativity).

Definition has (r : list N) : bool := match r with [] => false | _ => true end.
Definition rd (site : N) (r : list N) : jres N :=
  match r with [] => JErr (OOB site) | c :: _ => JOk c end.
Definition adv (site : N) (r : list N) : jres (list N) :=
  match r with [] => JErr (Past site) | _ :: t => JOk t end.
Fixpoint advn (site : N) (n : nat) (r : list N) : jres (list N) :=
  match n with
  | O => JOk r
  | S n' => match r with [] => JErr (Past site) | _ :: t => advn site n' t end
  end.

Fixpoint list_eqb (a b : list N) : bool :=
  match a, b with
  | [], [] => true
  | x :: a', y :: b' => N.eqb x y && list_eqb a' b'
  | _, _ => false
  end.

Definition m32 (x : N) : N := x mod 4294967296.
Definition m64 (x : N) : N := x mod 18446744073709551616.
Definition sub32 (a b : N) : N := m32 (a + 4294967296 - m32 b).
Definition b2n (b : bool) : N := if b then 1 else 0.

(* ------------------------------------------------------------------ *)
(* values *)
Inductive jv :=
| JUndef | JNull | JTrue | JFalse
| JNat (n : N) | JInt (z : Z) | JReal (txt : list N)
| JStr (s : list N)
| JArr (l : list jv)
| JObj (l : list (list N * jv)).

(* HArray::Insert: replace the value of an existing key in place, else append *)
Fixpoint obj_insert (acc : list (list N * jv)) (k : list N) (v : jv) : list (list N * jv) :=
  match acc with
  | [] => [(k, v)]
  | (k', v') :: t => if list_eqb k k' then (k', v) :: t else (k', v') :: obj_insert t k v
  end.

(* ------------------------------------------------------------------ *)
(* StringUtils::TrimLeft *)
Definition is_ws (c : N) : bool :=
  (c =? ws_space) || (c =? ws_line) || (c =? ws_tab) || (c =? ws_cr).
Fixpoint trim (r : list N) : list N :=
  match r with
  | c :: t => if is_ws c then trim t else r
  | [] => []
  end.

(* ------------------------------------------------------------------ *)
(* Unicode::ToUTF; Char_T(x) truncates to the unit width *)
Definition cu_bits (w : N) : N := if w =? 0 then 8 else if w =? 1 then 16 else 32.
Definition cut (w x : N) : N := x mod (2 ^ cu_bits w).
Definition to_utf (w code : N) : list N :=
  if w =? 0 then
    if code <? 128 then [cut w code]
    else
      (if code <? 2048 then [cut w (N.lor 192 (N.shiftr code 6))]
       else if code <? 65536 then
         [cut w (N.lor 224 (N.shiftr code 12)); cut w (N.lor 128 (N.land (N.shiftr code 6) 63))]
       else
         [cut w (N.lor 240 (N.shiftr code 18)); cut w (N.lor 128 (N.land (N.shiftr code 12) 63));
          cut w (N.lor 128 (N.land (N.shiftr code 6) 63))])
      ++ [cut w (N.lor 128 (N.land code 63))]
  else if w =? 1 then
    if code <? 65536 then [cut w code]
    else let u := m32 (code + 4294967296 - 65536) in
         [cut w (N.lor 55296 (N.shiftr u 10)); cut w (N.lor 56320 (N.land u 1023))]
  else [cut w code].

(* ------------------------------------------------------------------ *)
(* Digit::HexStringToNumber *)
Definition hexval (d : N) : option N :=
  if (dc_zero <=? d) && (d <=? dc_nine) then Some (d - dc_zero)
  else if (dc_ua <=? d) && (d <=? dc_uf) then Some (d - dc_seven)
  else if (dc_a <=? d) && (d <=? dc_f) then Some (d - dc_uw)
  else None.

(* HexStringToNumber<SizeT32>(content + offset, 4): at most [n] units, stops at the first
   non-hex unit and returns what it has *)
Fixpoint hexrd (site : N) (n : nat) (r : list N) (acc : N) : jres N :=
  match n with
  | O => JOk acc
  | S n' =>
    match r with
    | [] => JErr (OOB site)
    | d :: t =>
      match hexval d with
      | Some v => hexrd site n' t (N.lor (m32 (acc * 16)) v)
      | None => JOk acc
      end
    end
  end.

(* the same loop seen from its offset: how far HexStringToNumber(content, offset, offset + n) advances -- the number of
   leading hexadecimal digits among the first [n] units.  D93: UnEscape fails unless all four units were consumed *)
Definition is_hexd (d : N) : bool := match hexval d with Some _ => true | None => false end.
Fixpoint hexcount (n : nat) (r : list N) : nat :=
  match n with
  | O => O
  | S n' => match r with d :: t => if is_hexd d then S (hexcount n' t) else O | [] => O end
  end.

(* ------------------------------------------------------------------ *)
(* JSONUtils::UnEscape<true>(content + offset, length - offset, stream).
   [r] the units from the local offset on, [k] the local offset, [pend] the raw
   units content[offset2 .. offset), [st] the stream.  Result: (returned count, stream);
   count 0 = failure. *)
Fixpoint unesc (f : nat) (w : N) (r : list N) (k : nat) (pend st : list N) : jres (nat * list N) :=
  match f with
  | O => JErr Fuel
  | S f' =>
    if negb (has r) then JOk (O, st)                              (* end reached: no closing quote (D61) *)
    else
      c <- rd 2086 r ;;
      if c =? jc_quote then
        JOk (S k, if has st then st ++ pend else st)
      else if c =? jc_bslash then
        let st1 := st ++ pend in
        r1 <- adv 2099 r ;;
        if negb (has r1) then JOk (O, st1)                          (* guard added by D15 *)
        else
          ch <- rd 2102 r1 ;;
          r2 <- adv 2102 r1 ;;                                     (* the unit after the escape letter *)
          if (ch =? jc_quote) || (ch =? jc_bslash) || (ch =? jc_slash) then unesc f' w r2 (S (S k)) [] (st1 ++ [ch])
          else if ch =? jc_b then unesc f' w r2 (S (S k)) [] (st1 ++ [jc_ctl_b])
          else if ch =? jc_t then unesc f' w r2 (S (S k)) [] (st1 ++ [jc_ctl_t])
          else if ch =? jc_n then unesc f' w r2 (S (S k)) [] (st1 ++ [jc_ctl_n])
          else if ch =? jc_f then unesc f' w r2 (S (S k)) [] (st1 ++ [jc_ctl_f])
          else if ch =? jc_r then unesc f' w r2 (S (S k)) [] (st1 ++ [jc_ctl_r])
          else if (ch =? jc_cu) || (ch =? jc_u) then
            if (3 <? length r2)%nat then
              code <- hexrd 2142 4 r2 0 ;;
              if negb (hexcount 4 r2 =? 4)%nat then JOk (O, st1)       (* D93: offset != digits_end *)
              else
              r6 <- advn 2143 4 r2 ;;
              if negb (N.land code 64512 =? 55296) then           (* D11: (code & 0xFC00) != 0xD800 *)
                unesc f' w r6 (6 + k) [] (st1 ++ to_utf w code)
              else if (5 <? length r6)%nat then
                (* D92: the low half must follow as another \u escape -- content[offset] and
                   content[offset + 1] are read (in bounds: more than 5 units are left) *)
                b0 <- rd 2158 r6 ;;
                r7 <- adv 2159 r6 ;;
                b1 <- rd 2159 r7 ;;
                if (b0 =? jc_bslash) && ((b1 =? jc_cu) || (b1 =? jc_u)) then
                  let code1 := m32 (N.shiftl (N.lxor code 55296) 10) in
                  r8 <- advn 2154 2 r6 ;;
                  lo <- hexrd 2156 4 r8 0 ;;
                  let code2 := m32 (m32 (code1 + N.land lo 1023) + 65536) in
                  if negb (hexcount 4 r8 =? 4)%nat then JOk (O, st1)   (* D93: offset != low_end *)
                  else
                  r12 <- advn 2161 4 r8 ;;
                  unesc f' w r12 (12 + k) [] (st1 ++ to_utf w code2)
                else JOk (O, st1)
              else JOk (O, st1)
            else JOk (O, st1)
          else JOk (O, st1)
      else if (c =? jc_ctl_n) || (c =? jc_ctl_t) || (c =? jc_ctl_r) then JOk (O, st)
      else
        r1 <- adv 2188 r ;;
        unesc f' w r1 (S k) (pend ++ [c]) st
  end.

Definition unescape (w : N) (r st : list N) : jres (nat * list N) :=
  unesc (S (length r)) w r O [] st.

(* ------------------------------------------------------------------ *)
(* Digit::stringToNumber -- the scanner.  Offsets are relative to the first unit handed over
   (the C++ uses offsets only in differences and in the test [exp_offset == 0], which means
   "no exponent seen" in both readings because a digit or a dot always precedes an exponent). *)
Definition is_dig (d : N) : bool := (dc_zero <=? d) && (d <=? dc_nine).
Definition is_dig19 (d : N) : bool := (dc_zero <? d) && (d <=? dc_nine).
Definition is_dee (d : N) : bool := (d =? dc_dot) || (d =? dc_e) || (d =? dc_ue).

Inductive numres :=
| NumNaN
| NumNat (n : N) (r : list N)
| NumInt (z : Z) (r : list N)
| NumReal (r : list N).

Fixpoint hex_loop (r : list N) (num : N) : N * list N :=
  match r with
  | [] => (num, [])
  | d :: t =>
    match hexval d with
    | Some v => hex_loop t (N.lor (m64 (num * 16)) v)
    | None => (num, r)
    end
  end.

(* max_end_offset = ((end - offset) < 19) ? end : offset + 19 *)
Definition window (i : nat) (r : list N) : nat :=
  if (length r <? 19)%nat then (i + length r)%nat else (i + 19)%nat.

Fixpoint skip_zeros (i : nat) (r : list N) (digit : N) : nat * list N * N :=
  match r with
  | [] => (i, r, digit)
  | d :: t => if d =? dc_zero then skip_zeros (S i) t d else (i, r, d)
  end.

Fixpoint digits_upto (m i : nat) (r : list N) (digit num : N) {struct r} : jres (nat * list N * N * N) :=
  if (i <? m)%nat then
    match r with
    | [] => JErr (OOB 3311)
    | d :: t =>
      if is_dig d then digits_upto m (S i) t d (m64 (num * 10 + d - dc_zero))
      else JOk (i, r, d, num)
    end
  else JOk (i, r, digit, num).

(* state of the mantissa loop *)
Record mst := { m_i : nat; m_r : list N; m_digit : N; m_num : N; m_hasdot : bool; m_real : bool; m_dot : nat }.
Inductive mstep := MCont (s : mst) | MBreak (s : mst) | MNaN.

Definition mant_iter (m : nat) (s : mst) : jres mstep :=
  '(i1, r1, dg1, num1) <- digits_upto m (m_i s) (m_r s) (m_digit s) (m_num s) ;;
  let s1 := {| m_i := i1; m_r := r1; m_digit := dg1; m_num := num1; m_hasdot := m_hasdot s; m_real := m_real s; m_dot := m_dot s |} in
  if dg1 =? dc_dot then
    if negb (m_hasdot s) then
      r2 <- adv 3328 r1 ;;
      let i2 := S i1 in
      let s2 d := {| m_i := i2; m_r := r2; m_digit := d; m_num := num1; m_hasdot := true; m_real := true; m_dot := i1 |} in
      if (i2 <? m)%nat then
        d <- rd 3334 r2 ;;
        if is_dig19 d then JOk (MCont (s2 d))
        else if (d =? dc_zero) && (S i2 <? m)%nat then
          d2 <- rd 3341 (tl r2) ;;
          if is_dig d2 then JOk (MCont (s2 d2)) else JOk (MBreak (s2 d2))
        else JOk (MBreak (s2 d))
      else JOk (MBreak (s2 dg1))
    else JOk MNaN
  else JOk (MBreak s1).

Fixpoint mant_loop (f : nat) (m : nat) (s : mst) : jres mstep :=
  match f with
  | O => JErr Fuel
  | S f' =>
    if has (m_r s) then
      st <- mant_iter m s ;;
      match st with
      | MCont s1 => mant_loop f' m s1
      | other => JOk other
      end
    else JOk (MBreak s)
  end.

Fixpoint pexp_digits (i : nat) (r : list N) (ex : N) : nat * list N * N :=
  match r with
  | d :: t =>
    if is_dig d then
      pexp_digits (S i) t (if ex <? 100000000 then m32 (m32 (ex * 10) + (d - dc_zero)) else ex)   (* D44: saturates *)
    else (i, r, ex)
  | [] => (i, r, ex)
  end.

(* parseExponent: (ok, exponent, negative, offset, rest) *)
Definition pexp_tail (neg : bool) (i : nat) (r : list N) : bool * N * bool * nat * list N :=
  let '(i', r', ex) := pexp_digits i r 0 in (negb (i =? i')%nat, ex, neg, i', r').
Definition pexp (i : nat) (r : list N) : bool * N * bool * nat * list N :=
  match r with
  | [] => (false, 0, false, i, r)
  | c :: t =>
    if (c =? dc_pos) || (c =? dc_neg) then
      let neg := c =? dc_neg in
      match t with
      | [] => (false, 0, neg, S i, t)
      | c2 :: _ => if (c2 =? dc_pos) || (c2 =? dc_neg) then (false, 0, neg, S i, t) else pexp_tail neg (S i) t
      end
    else pexp_tail false i r
  end.

(* the loop after the mantissa: further digits, one dot, one exponent *)
Record tst := { t_i : nat; t_r : list N; t_hasdot : bool; t_dot : nat; t_expoff : nat; t_exp : N; t_negexp : bool }.
Fixpoint tail_loop (i : nat) (r : list N) (hasdot : bool) (dot expoff : nat) : option tst :=
  match r with
  | [] => Some {| t_i := i; t_r := r; t_hasdot := hasdot; t_dot := dot; t_expoff := expoff; t_exp := 0; t_negexp := false |}
  | d :: t =>
    if is_dig d then tail_loop (S i) t hasdot dot expoff
    else if d =? dc_dot then
      if negb hasdot then tail_loop (S i) t true i expoff else None
    else if (d =? dc_e) || (d =? dc_ue) then
      let '(ok, ex, neg, i', r') := pexp (S i) t in
      if ok then Some {| t_i := i'; t_r := r'; t_hasdot := hasdot; t_dot := dot; t_expoff := i; t_exp := ex; t_negexp := neg |}
      else None
    else Some {| t_i := i; t_r := r; t_hasdot := hasdot; t_dot := dot; t_expoff := expoff; t_exp := 0; t_negexp := false |}
  end.

Definition nat32 (n : nat) : N := m32 (N.of_nat n).

(* the part after the mantissa of a real (D45: also run for a zero mantissa, where only the
   range test and the scaling are skipped) *)
Definition real_tail (num : N) (i : nat) (r : list N) (hasdot fraconly : bool) (dot start tmp : nat) : numres :=
  let e_p10 := sub32 (sub32 (nat32 tmp) (nat32 start)) (b2n (negb fraconly && hasdot)) in
  let e_n10 := if fraconly then m32 (e_p10 + sub32 (sub32 (nat32 start) (nat32 dot)) 1)
               else if hasdot then sub32 (sub32 (nat32 i) (nat32 dot)) 1 else 0 in
  let tmp2 := dot in
  let start2 := i in
  match tail_loop i r hasdot dot O with
  | None => NumNaN
  | Some t =>
    let ex0 := t_exp t in
    let neg0 := t_negexp t in
    let '(ex1, neg1) :=
      if negb fraconly && negb (start2 =? t_i t)%nat then
        let e_extra :=
          if negb (t_hasdot t) then
            (if (t_expoff t =? 0)%nat then sub32 (nat32 (t_i t)) (nat32 start2) else sub32 (nat32 (t_expoff t)) (nat32 start2))
          else if negb (t_dot t =? tmp2)%nat then sub32 (nat32 (t_dot t)) (nat32 start2) else 0 in
        if negb neg0 then (m32 (ex0 + e_extra), neg0)
        else if ex0 <=? e_extra then (sub32 e_extra ex0, false)
        else (sub32 ex0 e_extra, neg0)
      else (ex0, neg0) in
    let '(ex2, neg2) :=
      if neg1 then (m32 (ex1 + e_n10), neg1)
      else if e_n10 <=? ex1 then (sub32 ex1 e_n10, neg1)
      else (sub32 e_n10 ex1, true) in
    if num =? 0 then NumReal (t_r t)                                   (* D45: a zero mantissa is not scaled *)
    else if negb neg2 && (309 <? m32 (ex2 + e_p10)) then NumNaN
    else if neg2 then
      if (e_p10 <? ex2) && (324 <? sub32 ex2 e_p10) then NumNaN else NumReal (t_r t)
    else
      match DigitModel.power_of_positive_ten num ex2 with              (* D43: beyond the largest double *)
      | DigitModel.Ok None => NumNaN
      | _ => NumReal (t_r t)
      end
  end.

Definition nat_max_div10 : N := 1844674407370955161.   (* 0x1999999999999999 *)
Definition int_max : N := 9223372036854775807.
Definition int_min_abs : N := 9223372036854775808.

(* everything after the first character: the mantissa loop, the 20th digit, the result *)
Definition scan_go (neg : bool) (s : mst) (m : nat) (fraconly : bool) (start : nat) : jres numres :=
  st <- mant_loop 3 m s ;;
  match st with
  | MNaN => JOk NumNaN
  | MCont _ => JOk NumNaN   (* not produced by mant_loop *)
  | MBreak s1 =>
    let i1 := m_i s1 in
    let r1 := m_r s1 in
    let num1 := m_num s1 in
    (* tmp_offset = offset; the 20th digit *)
    '(i2, r2, num2, tmp2, real2) <-
       (if negb (m_real s1) && has r1 then
          dg <- rd 3363 r1 ;;
          if is_dee dg then JOk (i1, r1, num1, i1, true)
          else if is_dig dg then
            if (nat_max_div10 <? num1) || ((num1 =? nat_max_div10) && (dc_five <? dg)) then JOk (i1, r1, num1, i1, true)
            else
              let num' := m64 (num1 * 10 + dg - dc_zero) in
              r' <- adv 3384 r1 ;;
              if has r' then
                dg2 <- rd 3388 r' ;;
                JOk (S i1, r', num', S i1, is_dee dg2 || is_dig dg2)
              else JOk (S i1, r', num', S i1, false)
          else JOk (i1, r1, num1, i1, false)
        else JOk (i1, r1, num1, i1, m_real s1)) ;;
    if negb real2 && negb neg then JOk (NumNat num2 r2)
    else if negb real2 && (num2 =? 0) then JOk (NumReal r2)        (* -0 *)
    else if negb real2 && (num2 <=? int_min_abs) then JOk (NumInt (Z.opp (Z.of_N num2)) r2)   (* D28 *)
    else if (negb (num2 =? 0)) || real2 then
      JOk (real_tail num2 i2 r2 (m_hasdot s1) fraconly (m_dot s1) start tmp2)
    else JOk (NumReal r2)
  end.

(* the unit after a leading zero: hexadecimal, a second digit (not a number), or go on *)
Definition scan_zero (i : nat) (r : list N) (d : N) : jres (option (N * list N) * bool * nat * list N * N) :=
  if (d =? dc_zero) && has (tl r) then
    r1 <- adv 3272 r ;;
    d1 <- rd 3273 r1 ;;
    if (d1 =? dc_x) || (d1 =? dc_ux) then
      r2 <- adv 3277 r1 ;;
      JOk (Some (hex_loop r2 0), false, S i, r1, d1)
    else if is_dig d1 then JOk (None, true, S i, r1, d1)
    else JOk (None, false, S i, r1, d1)
  else JOk (None, false, i, r, d).

(* after the sign *)
Definition scan_unsigned (neg : bool) (i : nat) (r : list N) : jres numres :=
  let tmp0 := i in
  if negb (has r) then JOk NumNaN
  else
    d <- rd 3261 r ;;
    if is_dig19 d then
      r1 <- adv 3269 r ;;
      scan_go neg {| m_i := S i; m_r := r1; m_digit := d; m_num := m64 (d - dc_zero); m_hasdot := false; m_real := false; m_dot := O |}
              (window i r) false i
    else if (d =? dc_zero) || (d =? dc_dot) then
      '(hexret, nan, i1, r1, d1) <- scan_zero i r d ;;
      match hexret with
      | Some (n, rr) => JOk (NumNat n rr)
      | None =>
        if nan then JOk NumNaN
        else if d1 =? dc_dot then
          r2 <- adv 3291 r1 ;;
          let dot := i1 in
          let start := S i1 in
          let '(i3, r3, d3) := skip_zeros (S i1) r2 d1 in
          if (start =? i3)%nat && (dot =? tmp0)%nat && ((d3 <? dc_zero) || (dc_nine <? d3)) then JOk NumNaN
          else
            scan_go neg {| m_i := i3; m_r := r3; m_digit := d3; m_num := 0; m_hasdot := true; m_real := true; m_dot := dot |}
                    (window i3 r3) true i3
        else
          scan_go neg {| m_i := i1; m_r := r1; m_digit := d1; m_num := 0; m_hasdot := false; m_real := false; m_dot := O |}
                  (window i1 r1) false O
      end
    else JOk NumNaN.

Definition scan_number (r0 : list N) : jres numres :=
  if negb (has r0) then JOk NumNaN
  else
    d0 <- rd 3242 r0 ;;
    if d0 =? dc_neg then (r1 <- adv 3252 r0 ;; scan_unsigned true 1%nat r1)
    else if d0 =? dc_pos then (r1 <- adv 3255 r0 ;; scan_unsigned false 1%nat r1)
    else scan_unsigned false O r0.

(* ------------------------------------------------------------------ *)
(* keyword matcher: [lit] is the rest of the literal INCLUDING its terminator; reading past
   the terminator is an out-of-bounds read of the literal (site 1216) *)
Fixpoint kw_loop (lit r : list N) {struct lit} : jres (list N * list N) :=
  match lit with
  | [] => if has r then JErr (OOB 1216) else JOk (lit, r)
  | t :: lit' =>
    if has r && negb (t =? 0) then                   (* offset < length and the literal unit is not the terminator: D62 *)
      c <- rd 1216 r ;;
      if c =? t then (r' <- adv 1218 r ;; kw_loop lit' r') else JOk (lit, r)
    else JOk (lit, r)
  end.

Definition kw_match (lit : list N) (v : jv) (r : list N) : jres (option (jv * list N)) :=
  '(lit', r') <- kw_loop (tl lit) r ;;
  t <- rd 1221 lit' ;;
  if t =? 0 then JOk (Some (v, r')) else JOk None.

(* ------------------------------------------------------------------ *)
(* JSON.hpp parseValue / parseObject / parseArray.  Result: (value, cursor, stream). *)
Definition pres := (jv * list N * list N)%type.
Definition pfail (st : list N) : jres pres := JOk (JUndef, [], st).     (* offset = length; Undefined *)

(* the string part shared by parseValue and the key of parseObject: UnEscape, offset += len,
   --len, take the stream when it is not empty and clear it.
   None = UnEscape returned 0 *)
Definition pstring (w : N) (r1 st : list N) : jres (option (list N * list N) * list N) :=
  '(len, st1) <- unescape w r1 st ;;
  if (len =? 0)%nat then JOk (None, st1)
  else
    r2 <- advn 1196 len r1 ;;
    if has st1 then JOk (Some (st1, r2), [])
    else JOk (Some (firstn (len - 1) r1, r2), st1).

Fixpoint pval (f : nat) (w : N) (st r : list N) {struct f} : jres pres :=
  match f with
  | O => JErr Fuel
  | S f' =>
    if negb (has r) then pfail st                                   (* guard added by D15 *)
    else
      c <- rd 1178 r ;;
      if c =? jc_scurly then
        r1 <- adv 1180 r ;;
        let r2 := trim r1 in
        isend <- (if negb (has r2) then JOk false else (c2 <- rd 1086 r2 ;; JOk (c2 =? jc_ecurly))) ;;
        if isend then (r3 <- adv 1136 r2 ;; JOk (JObj [], r3, st))
        else obj_loop f' w [] st r2
      else if c =? jc_ssquare then
        r1 <- adv 1185 r ;;
        let r2 := trim r1 in
        isend <- (if negb (has r2) then JOk false else (c2 <- rd 1145 r2 ;; JOk (c2 =? jc_esquare))) ;;
        if isend then (r3 <- adv 1173 r2 ;; JOk (JArr [], r3, st))
        else arr_loop f' w [] st r2
      else if c =? jc_quote then
        r1 <- adv 1190 r ;;
        '(s, st1) <- pstring w r1 st ;;
        match s with
        | Some (str, r2) => JOk (JStr str, r2, st1)
        | None => pfail st1
        end
      else if c =? jc_t then
        r1 <- adv 1214 r ;;
        k <- kw_match jc_true_lit JTrue r1 ;;
        match k with Some (v, r2) => JOk (v, r2, st) | None => pfail st end
      else if c =? jc_f then
        r1 <- adv 1231 r ;;
        k <- kw_match jc_false_lit JFalse r1 ;;
        match k with Some (v, r2) => JOk (v, r2, st) | None => pfail st end
      else if c =? jc_n then
        r1 <- adv 1248 r ;;
        k <- kw_match jc_null_lit JNull r1 ;;
        match k with Some (v, r2) => JOk (v, r2, st) | None => pfail st end
      else
        n <- scan_number r ;;
        match n with
        | NumNat x r2 => JOk (JNat x, r2, st)
        | NumInt z r2 => JOk (JInt z, r2, st)
        | NumReal r2 => JOk (JReal (firstn (length r - length r2) r), r2, st)
        | NumNaN => pfail st
        end
  end
with obj_loop (f : nat) (w : N) (acc : list (list N * jv)) (st r : list N) {struct f} : jres pres :=
  match f with
  | O => JErr Fuel
  | S f' =>
    inloop <- (if has r then (c <- rd 1089 r ;; JOk (c =? jc_quote)) else JOk false) ;;
    if inloop then
      r1 <- adv 1090 r ;;
      '(s, st1) <- pstring w r1 st ;;
      match s with
      | None => pfail st1
      | Some (key, r2) =>
        let r3 := trim r2 in
        iscolon <- (if has r3 then (c <- rd 1106 r3 ;; JOk (c =? jc_colon)) else JOk false) ;;   (* guard added by D15 *)
        if iscolon then
          r4 <- adv 1107 r3 ;;
          let r5 := trim r4 in
          '(v, r6, st2) <- pval f' w st1 r5 ;;
          let acc' := obj_insert acc key v in
          let r7 := trim r6 in
          if has r7 then
            c <- rd 1114 r7 ;;
            if c =? jc_comma then (r8 <- adv 1117 r7 ;; obj_loop f' w acc' st2 (trim r8))
            else if c =? jc_ecurly then (r8 <- adv 1123 r7 ;; JOk (JObj acc', r8, st2))
            else pfail st2
          else pfail st2
        else pfail st1
      end
    else pfail st                                                   (* Reset; offset = length (D2) *)
  end
with arr_loop (f : nat) (w : N) (acc : list jv) (st r : list N) {struct f} : jres pres :=
  match f with
  | O => JErr Fuel
  | S f' =>
    if has r then
      '(v, r1, st1) <- pval f' w st r ;;
      let acc' := acc ++ [v] in
      let r2 := trim r1 in
      if has r2 then
        c <- rd 1153 r2 ;;
        if c =? jc_comma then (r3 <- adv 1156 r2 ;; arr_loop f' w acc' st1 (trim r3))
        else if c =? jc_esquare then (r3 <- adv 1162 r2 ;; JOk (JArr acc', r3, st1))
        else pfail st1
      else pfail st1
    else pfail st                                                   (* Reset; offset = length (D2) *)
  end.

(* JSON::Parse(content, length) with a fresh stream *)
Definition parse_fuel (f : nat) (w : N) (s : list N) : jres jv :=
  if (length s =? 0)%nat then JOk JUndef
  else
    '(v, r1, _) <- pval f w [] (trim s) ;;
    if has (trim r1) then JOk JUndef else JOk v.

Definition parse (w : N) (s : list N) : jres jv := parse_fuel (2 * length s + 4) w s.

(* JSON::Parse(stream, content, length) with a caller-supplied scratch stream [st] (whatever an
   earlier parse left in it): after D81 the first step is stream.Clear().  The result carries the
   stream as the parse leaves it, so that a sequence of parses through one stream can be modelled. *)
Definition parse_stream_fuel (f : nat) (w : N) (st s : list N) : jres (jv * list N) :=
  let st0 : list N := match st with _ => [] end in              (* stream.Clear() *)
  if (length s =? 0)%nat then JOk (JUndef, st0)
  else
    '(v, r1, st1) <- pval f w st0 (trim s) ;;
    if has (trim r1) then JOk (JUndef, st1) else JOk (v, st1).

Definition parse_stream (w : N) (st s : list N) : jres (jv * list N) :=
  parse_stream_fuel (2 * length s + 4) w st s.

(* several texts through ONE scratch stream *)
Fixpoint parse_history (w : N) (st : list N) (texts : list (list N)) : list (jres jv) :=
  match texts with
  | [] => []
  | s :: more =>
    match parse_stream w st s with
    | JOk (v, st') => JOk v :: parse_history w st' more
    | JErr e => JErr e :: parse_history w [] more
    end
  end.

(* ------------------------------------------------------------------ *)
(* [defined v]: no Undefined anywhere inside *)
Fixpoint definedb (v : jv) : bool :=
  match v with
  | JUndef => false
  | JArr l => forallb definedb l
  | JObj l => forallb (fun kv => definedb (snd kv)) l
  | _ => true
  end.

(* ================================================================== *)
(* Writer: Value::Stringify *)
Inductive vt :=
| VUndef | VNull | VTrue | VFalse
| VNat (n : N) | VInt (z : Z) | VReal (txt : list N)
| VStr (s : list N)
| VArr (l : list vt)
| VObj (l : list (list N * vt))
| VPtr (v : vt).

(* Value::standsForUndefined (added by D63, used by the two container writers): Undefined itself,
   or a pointer chain that ends at an Undefined value *)
Fixpoint v_undef (v : vt) : bool :=
  match v with VUndef => true | VPtr p => v_undef p | _ => false end.

(* Digit::NumberToString for integers: the digit component's model of Digit::IntToString
   (two digits at a time through the digit tables); a negative value prints its magnitude *)
Definition dec (n : N) : list N := DigitModel.u64_to_string n.
Definition dec_z (z : Z) : list N :=
  match z with
  | Zneg p => dc_neg :: dec (Npos p)
  | _ => dec (Z.to_N z)
  end.

Definition hexdig (x : N) : N := if x <? 10 then dc_zero + x else dc_a + (x - 10).

(* JSONUtils::Escape, one unit (after D16) *)
Definition esc_unit (c : N) : list N :=
  if (c =? jc_quote) || (c =? jc_bslash) || (c =? jc_slash) then [jc_bslash; c]
  else if (c =? jc_ctl_b) || (c =? jc_ctl_t) || (c =? jc_ctl_n) || (c =? jc_ctl_f) || (c =? jc_ctl_r) then
    [jc_bslash; nth (N.to_nat c) jc_replace_list 0]
  else if c <? 32 then [jc_bslash; jc_u; dc_zero; dc_zero; dc_zero + N.shiftr c 4; hexdig (N.land c 15)]
  else [c].
Definition escape_json (s : list N) : list N := flat_map esc_unit s.

(* the closing bracket overwrites a trailing comma of the stream *)
Definition close_with (c : N) (st : list N) : list N :=
  match rev st with
  | l :: pre => if l =? jc_comma then rev pre ++ [c] else st ++ [c]
  | [] => st ++ [c]
  end.

Definition strip0 (l : list N) : list N := removelast l.   (* literal without its terminator *)

Fixpoint str_value (v : vt) (st : list N) {struct v} : list N :=
  match v with
  | VObj ms =>
    close_with jc_ecurly
      ((fix members (ms : list (list N * vt)) (st : list N) : list N :=
          match ms with
          | [] => st
          | (k, x) :: t =>
            if v_undef x then members t st
            else members t (str_value x (st ++ [jc_quote] ++ escape_json k ++ [jc_quote; jc_colon]) ++ [jc_comma])
          end) ms (st ++ [jc_scurly]))
  | VArr xs =>
    close_with jc_esquare
      ((fix items (xs : list vt) (st : list N) : list N :=
          match xs with
          | [] => st
          | x :: t => if v_undef x then items t st else items t (str_value x st ++ [jc_comma])
          end) xs (st ++ [jc_ssquare]))
  | VStr s => st ++ [jc_quote] ++ escape_json s ++ [jc_quote]
  | VNat n => st ++ dec n
  | VInt z => st ++ dec_z z
  | VReal txt => st ++ txt
  | VFalse => st ++ firstn (N.to_nat jc_false_len) jc_false_lit
  | VTrue => st ++ firstn (N.to_nat jc_true_len) jc_true_lit
  | VNull => st ++ firstn (N.to_nat jc_null_len) jc_null_lit
  | VPtr p => str_value p st
  | VUndef => st
  end.

(* Value::Stringify(stream): only containers (or pointers to them) write anything *)
Fixpoint stringify (v : vt) : list N :=
  match v with
  | VObj _ | VArr _ => str_value v []
  | VPtr p => stringify p
  | _ => []
  end.

(* what the text denotes: pointers followed, Undefined members dropped *)
Fixpoint normalize (v : vt) : jv :=
  match v with
  | VUndef => JUndef | VNull => JNull | VTrue => JTrue | VFalse => JFalse
  | VNat n => JNat n
  | VInt z => if (0 <=? z)%Z then JNat (Z.to_N z) else JInt z     (* the text of a non-negative integer reads back as unsigned *)
  | VReal txt => JReal txt
  | VStr s => JStr s
  | VArr xs =>
    JArr ((fix items (xs : list vt) : list jv :=
             match xs with
             | [] => []
             | x :: t => if v_undef x then items t else normalize x :: items t
             end) xs)
  | VObj ms =>
    JObj ((fix members (ms : list (list N * vt)) : list (list N * jv) :=
             match ms with
             | [] => []
             | (k, x) :: t => if v_undef x then members t else (k, normalize x) :: members t
             end) ms)
  | VPtr p => normalize p
  end.

(* ================================================================== *)
(* Specification side of C06: concrete syntax trees.  A tree fixes the whitespace at every
   gap, the spelling of every character and of every numeral; [cprint] is the document,
   [cdenote] the value it denotes. *)
Inductive cchar :=
| CRaw (cp : N)                    (* the character itself, in the target encoding *)
| CShort (letter : N)              (* backslash + one of: quote, backslash, slash, b f n r t *)
| CHex (cp : N) (upper : N)        (* \uXXXX, bit i of [upper]: digit i in upper case *)
| CPair (cp : N) (upper : N).      (* \uD8xx\uDCxx for cp >= 0x10000 *)

Inductive cval :=
| CNull | CTrue | CFalse
| CNatD (ds : list N)              (* unsigned integer numeral: its digits *)
| CNegD (ds : list N)              (* minus sign + digits *)
| CRealT (txt : list N)            (* any other numeral: its text *)
| CStr (s : list cchar)
| CArr (w0 : list N) (items : list (list N * cval * list N))
| CObj (w0 : list N) (members : list (list N * list cchar * list N * list N * cval * list N)).

Definition hex4_print (v upper : N) : list N :=
  let dg (k : N) : N :=
    let x := N.land (N.shiftr v (4 * (3 - k))) 15 in
    if x <? 10 then dc_zero + x else if N.testbit upper k then dc_ua + (x - 10) else dc_a + (x - 10) in
  [dg 0; dg 1; dg 2; dg 3].

Definition short_value (letter : N) : N :=
  if letter =? jc_b then jc_ctl_b else if letter =? jc_t then jc_ctl_t else if letter =? jc_n then jc_ctl_n
  else if letter =? jc_f then jc_ctl_f else if letter =? jc_r then jc_ctl_r else letter.

Definition cchar_print (w : N) (c : cchar) : list N :=
  match c with
  | CRaw cp => to_utf w cp
  | CShort l => [jc_bslash; l]
  | CHex cp up => [jc_bslash; jc_u] ++ hex4_print cp up
  | CPair cp up =>
    let u := cp - 65536 in
    [jc_bslash; jc_u] ++ hex4_print (55296 + N.shiftr u 10) up
    ++ [jc_bslash; jc_u] ++ hex4_print (56320 + N.land u 1023) (N.shiftr up 4)
  end.
Definition cchar_denote (w : N) (c : cchar) : list N :=
  match c with
  | CRaw cp => to_utf w cp
  | CShort l => [short_value l]
  | CHex cp _ => to_utf w cp
  | CPair cp _ => to_utf w cp
  end.
Definition cstr_print (w : N) (s : list cchar) : list N := [jc_quote] ++ flat_map (cchar_print w) s ++ [jc_quote].
Definition cstr_denote (w : N) (s : list cchar) : list N := flat_map (cchar_denote w) s.

Definition dval (ds : list N) : N := fold_left (fun acc d => acc * 10 + (d - dc_zero)) ds 0.

Fixpoint sep_concat (sep : list N) (l : list (list N)) : list N :=
  match l with
  | [] => []
  | [x] => x
  | x :: t => x ++ sep ++ sep_concat sep t
  end.

Fixpoint cprint (w : N) (v : cval) {struct v} : list N :=
  match v with
  | CNull => strip0 jc_null_lit
  | CTrue => strip0 jc_true_lit
  | CFalse => strip0 jc_false_lit
  | CNatD ds => ds
  | CNegD ds => dc_neg :: ds
  | CRealT txt => txt
  | CStr s => cstr_print w s
  | CArr w0 items =>
    [jc_ssquare] ++ w0 ++
    sep_concat [jc_comma] (map (fun it => match it with (wb, x, wa) => wb ++ cprint w x ++ wa end) items)
    ++ [jc_esquare]
  | CObj w0 ms =>
    [jc_scurly] ++ w0 ++
    sep_concat [jc_comma]
      (map (fun m => match m with (wb, k, w1, w2, x, wa) =>
                       wb ++ cstr_print w k ++ w1 ++ [jc_colon] ++ w2 ++ cprint w x ++ wa end) ms)
    ++ [jc_ecurly]
  end.

Fixpoint cdenote (w : N) (v : cval) {struct v} : jv :=
  match v with
  | CNull => JNull | CTrue => JTrue | CFalse => JFalse
  | CNatD ds => JNat (dval ds)
  | CNegD ds => JInt (Z.opp (Z.of_N (dval ds)))
  | CRealT txt => JReal txt
  | CStr s => JStr (cstr_denote w s)
  | CArr _ items => JArr (map (fun it => match it with (_, x, _) => cdenote w x end) items)
  | CObj _ ms =>
    JObj (fold_left (fun acc m => match m with (_, k, _, _, x, _) => obj_insert acc (cstr_denote w k) (cdenote w x) end) ms [])
  end.

(* well-formedness of a tree (what makes it an RFC 8259 text whose value is representable) *)
Definition is_scalar (cp : N) : bool := (cp <? 55296) || ((57343 <? cp) && (cp <=? 1114111)).
Definition short_letter (l : N) : bool :=
  (l =? jc_quote) || (l =? jc_bslash) || (l =? jc_slash) || (l =? jc_b) || (l =? jc_f) || (l =? jc_n) || (l =? jc_r) || (l =? jc_t).
Definition cchar_wf (w : N) (c : cchar) : bool :=
  match c with
  | CRaw cp => is_scalar cp && (32 <=? cp) && negb (cp =? jc_quote) && negb (cp =? jc_bslash)
  | CShort l => short_letter l
  | CHex cp _ => is_scalar cp && (cp <? 65536)
  | CPair cp _ => (65536 <=? cp) && (cp <=? 1114111)
  end.
Definition digits_wf (ds : list N) : bool :=
  forallb is_dig ds && match ds with [] => false | [d] => true | d :: _ => negb (d =? dc_zero) end.
Definition ws_wf (l : list N) : bool := forallb is_ws l.

Fixpoint cval_wf (w : N) (v : cval) {struct v} : bool :=
  match v with
  | CNull | CTrue | CFalse => true
  | CNatD ds => digits_wf ds && (dval ds <? 18446744073709551616)
  | CNegD ds => digits_wf ds && (0 <? dval ds) && (dval ds <=? int_min_abs)
  | CRealT txt => true          (* constrained where it is used: see [real_ok] in the proofs *)
  | CStr s => forallb (cchar_wf w) s
  | CArr w0 items =>
    ws_wf w0 && forallb (fun it => match it with (wb, x, wa) => ws_wf wb && cval_wf w x && ws_wf wa end) items
  | CObj w0 ms =>
    ws_wf w0 && forallb (fun m => match m with (wb, k, w1, w2, x, wa) =>
                                    ws_wf wb && forallb (cchar_wf w) k && ws_wf w1 && ws_wf w2 && cval_wf w x && ws_wf wa end) ms
  end.

Definition is_container (v : cval) : bool := match v with CArr _ _ | CObj _ _ => true | _ => false end.

(* ================================================================== *)
(* An independent recogniser of RFC 8259 texts (over code units; it does not look into the
   encoding of non-ASCII characters).  [rfc_value f r] = the rest after one value. *)
Fixpoint rfc_ws (r : list N) : list N :=
  match r with
  | c :: t => if (c =? 32) || (c =? 9) || (c =? 10) || (c =? 13) then rfc_ws t else r
  | [] => []
  end.
Definition rfc_hex (c : N) : bool :=
  ((48 <=? c) && (c <=? 57)) || ((65 <=? c) && (c <=? 70)) || ((97 <=? c) && (c <=? 102)).
(* after the opening quote *)
Fixpoint rfc_string (r : list N) : option (list N) :=
  match r with
  | [] => None
  | c :: t =>
    if c =? 34 then Some t
    else if c =? 92 then
      match t with
      | e :: t2 =>
        if (e =? 34) || (e =? 92) || (e =? 47) || (e =? 98) || (e =? 102) || (e =? 110) || (e =? 114) || (e =? 116)
        then rfc_string t2
        else if e =? 117 then
          match t2 with
          | h1 :: h2 :: h3 :: h4 :: t6 =>
            if rfc_hex h1 && rfc_hex h2 && rfc_hex h3 && rfc_hex h4 then rfc_string t6 else None
          | _ => None
          end
        else None
      | [] => None
      end
    else if c <? 32 then None
    else rfc_string t
  end.
Definition rfc_dig (c : N) : bool := (48 <=? c) && (c <=? 57).
Fixpoint rfc_digits (r : list N) : list N :=
  match r with c :: t => if rfc_dig c then rfc_digits t else r | [] => [] end.
Definition rfc_digits1 (r : list N) : option (list N) :=
  match r with c :: t => if rfc_dig c then Some (rfc_digits t) else None | [] => None end.
Definition rfc_number (r : list N) : option (list N) :=
  let r1 := match r with c :: t => if c =? 45 then t else r | [] => r end in
  match r1 with
  | c :: t =>
    let ip := if c =? 48 then Some t else if rfc_dig c then Some (rfc_digits t) else None in
    match ip with
    | None => None
    | Some r2 =>
      let fp := match r2 with
                | c2 :: t2 => if c2 =? 46 then rfc_digits1 t2 else Some r2
                | [] => Some r2
                end in
      match fp with
      | None => None
      | Some r3 =>
        match r3 with
        | c3 :: t3 =>
          if (c3 =? 101) || (c3 =? 69) then
            match t3 with
            | s :: t4 => if (s =? 43) || (s =? 45) then rfc_digits1 t4 else rfc_digits1 t3
            | [] => None
            end
          else Some r3
        | [] => Some r3
        end
      end
    end
  | [] => None
  end.
Fixpoint rfc_lit (lit r : list N) : option (list N) :=
  match lit with
  | [] => Some r
  | l :: lit' => match r with c :: t => if c =? l then rfc_lit lit' t else None | [] => None end
  end.

Fixpoint rfc_value (f : nat) (r : list N) {struct f} : option (list N) :=
  match f with
  | O => None
  | S f' =>
    match r with
    | [] => None
    | c :: t =>
      if c =? 123 then
        let r1 := rfc_ws t in
        match r1 with
        | c1 :: t1 => if c1 =? 125 then Some t1 else rfc_members f' r1
        | [] => None
        end
      else if c =? 91 then
        let r1 := rfc_ws t in
        match r1 with
        | c1 :: t1 => if c1 =? 93 then Some t1 else rfc_items f' r1
        | [] => None
        end
      else if c =? 34 then rfc_string t
      else if c =? 116 then rfc_lit [114; 117; 101] t
      else if c =? 102 then rfc_lit [97; 108; 115; 101] t
      else if c =? 110 then rfc_lit [117; 108; 108] t
      else rfc_number r
    end
  end
with rfc_members (f : nat) (r : list N) {struct f} : option (list N) :=
  match f with
  | O => None
  | S f' =>
    match r with
    | c :: t =>
      if c =? 34 then
        match rfc_string t with
        | Some r1 =>
          match rfc_ws r1 with
          | c2 :: t2 =>
            if c2 =? 58 then
              match rfc_value f' (rfc_ws t2) with
              | Some r3 =>
                match rfc_ws r3 with
                | c4 :: t4 => if c4 =? 44 then rfc_members f' (rfc_ws t4) else if c4 =? 125 then Some t4 else None
                | [] => None
                end
              | None => None
              end
            else None
          | [] => None
          end
        | None => None
        end
      else None
    | [] => None
    end
  end
with rfc_items (f : nat) (r : list N) {struct f} : option (list N) :=
  match f with
  | O => None
  | S f' =>
    match rfc_value f' r with
    | Some r1 =>
      match rfc_ws r1 with
      | c :: t => if c =? 44 then rfc_items f' (rfc_ws t) else if c =? 93 then Some t else None
      | [] => None
      end
    | None => None
    end
  end.

Definition rfc_ok (s : list N) : bool :=
  match rfc_value (S (length s)) (rfc_ws s) with
  | Some r => negb (has (rfc_ws r))
  | None => false
  end.

(* well-formed Unicode content of a tree's strings is the caller's business; for the RFC
   oracle of C08 only the structure matters, so every tree qualifies *)

(* ------------------------------------------------------------------ *)
(* equality of values up to the text of reals (the canonical dump prints R) *)
Fixpoint jv_eqb (a b : jv) {struct a} : bool :=
  match a, b with
  | JUndef, JUndef | JNull, JNull | JTrue, JTrue | JFalse, JFalse => true
  | JNat x, JNat y => x =? y
  | JInt x, JInt y => Z.eqb x y
  | JReal _, JReal _ => true
  | JStr x, JStr y => list_eqb x y
  | JArr x, JArr y =>
    (fix go (x y : list jv) : bool :=
       match x, y with
       | [], [] => true
       | a :: x', b :: y' => jv_eqb a b && go x' y'
       | _, _ => false
       end) x y
  | JObj x, JObj y =>
    (fix go (x y : list (list N * jv)) : bool :=
       match x, y with
       | [], [] => true
       | (ka, a) :: x', (kb, b) :: y' => list_eqb ka kb && jv_eqb a b && go x' y'
       | _, _ => false
       end) x y
  | _, _ => false
  end.
