(* BigIntWide.v -- C19 lemmas, part 7: the template form of doOperation.
   (a) operand type not wider than a word: same result as the Number_T overload;
   (b) += and -= with an operand type wider than a word: one carry/borrow chain per operand word. *)
From Coq Require Import Arith NArith ZArith List Bool Lia Psatz.
From Coq Require Import ZifyBool ZifyNat ZifyN.
From Qv Require Import BigIntModel BigIntProofs.
Import ListNotations.
Local Open Scope N_scope.

Section W.
  Variable w : N.
  Hypothesis w_pos : 0 < w.
  Notation B := (Bw w).
  Notation val := (value w).
  Notation pw := (pw w).
  Notation bval := (bval w).

  Lemma do_operation_t_narrow : forall k ow s v, ow / w <= 1 -> v < B ->
    do_operation_t w k ow s v = do_operation_s w k s v.
  Proof.
    intros k ow s v How Hv. unfold do_operation_t, do_operation_s.
    rewrite (N.mod_small v B) by assumption.
    destruct (N.ltb_spec 1 (ow / w)) as [|_]; [lia|].
    destruct k; cbn [word0_step].
    - destruct (wr (words s) 0 v); reflexivity.
    - destruct (rd (words s) 0); cbn [bind]; [|reflexivity]. destruct (wr (words s) 0 _); reflexivity.
    - destruct (rd (words s) 0); cbn [bind]; [|reflexivity].
      destruct (wr (words s) 0 _) as [l|e]; cbn [bind words index]; [|reflexivity].
      replace (S (index s) - 1)%nat with (index s) by lia. reflexivity.
    - destruct (add w s v 0); reflexivity.
    - destruct (sub w s v 0); reflexivity.
  Qed.

  Lemma size_nat_equiv : forall n, N.to_nat (N.size n) = N.size_nat n.
  Proof.
    intros [|p]; [reflexivity|]. cbn. induction p as [p IH|p IH|]; cbn [Pos.size Pos.size_nat]; try reflexivity;
      rewrite Pos2Nat.inj_succ, IH; reflexivity.
  Qed.

  Lemma size_nat_div : forall number, number <> 0 -> (N.size_nat (number / B) < N.size_nat number)%nat.
  Proof.
    intros number Hnz. destruct number as [|p]; [contradiction|].
    unfold Bw. rewrite <- N.shiftr_div_pow2.
    assert (Hw1 : exists w', w = N.succ w') by (exists (N.pred w); lia).
    destruct Hw1 as (w' & ->). rewrite <- N.add_1_l, <- N.shiftr_shiftr.
    assert (Hs1 : (N.size_nat (N.shiftr (N.pos p) 1) < N.size_nat (N.pos p))%nat).
    { destruct p; cbn; lia. }
    assert (Hmono : forall a k, (N.size_nat (N.shiftr a k) <= N.size_nat a)%nat).
    { intros a k0. induction k0 as [|k0 IHk] using N.peano_ind; [cbn; lia|].
      rewrite N.shiftr_succ_r. etransitivity; [|exact IHk].
      destruct (N.shiftr a k0) as [|q]; [cbn; lia|]. destruct q; cbn; lia. }
    specialize (Hmono (N.shiftr (N.pos p) 1) w'). lia.
  Qed.

  (* (b) the loop over the higher words of the operand, for Add *)
  Lemma wide_add_loop : forall fuel s number i, WF w s -> (N.size_nat number < fuel)%nat ->
    bval s + number * pw i < pw (length (words s)) ->
    exists s' j, wide_loop w fuel KAdd s number i = Ok (s', j) /\ WF w s' /\
      bval s' = bval s + number * pw i /\ length (words s') = length (words s).
  Proof.
    induction fuel as [|f IH]; intros s number i HWF Hf Hfit; [lia|].
    cbn [wide_loop]. destruct (N.eqb_spec number 0) as [->|Hnz].
    - exists s, i. split; [reflexivity|]. split; [exact HWF|]. split; [lia|reflexivity].
    - cbn [wide_step].
      pose proof (B_pos w) as HB. pose proof (pw_pos w i) as Hp.
      pose proof (N.div_mod number B ltac:(lia)) as Hdm. pose proof (N.mod_lt number B ltac:(lia)) as Hml.
      destruct (add_correct w s (number mod B) i HWF Hml) as (s1 & Hrun & HWF1 & Hv1 & Hl1).
      { assert ((number mod B) * pw i <= number * pw i) by (apply N.mul_le_mono_r, N.mod_le; lia). lia. }
      rewrite Hrun. cbn [bind].
      destruct (IH s1 (number / B) (S i) HWF1) as (s' & j & Hrun' & HWF' & Hv' & Hl').
      + pose proof (size_nat_div number Hnz). lia.
      + rewrite Hl1, Hv1, pw_S.
        assert (E : number * pw i = (number mod B) * pw i + (number / B) * (B * pw i)).
        { rewrite Hdm at 1. ring. }
        lia.
      + exists s', j. split; [exact Hrun'|]. split; [exact HWF'|]. split; [|lia].
        rewrite Hv', Hv1, pw_S. rewrite Hdm at 3. ring.
  Qed.

  Lemma wide_sub_loop : forall fuel s number i, WF w s -> (N.size_nat number < fuel)%nat ->
    number * pw i <= bval s ->
    exists s' j, wide_loop w fuel KSub s number i = Ok (s', j) /\ WF w s' /\
      bval s' + number * pw i = bval s /\ length (words s') = length (words s).
  Proof.
    induction fuel as [|f IH]; intros s number i HWF Hf Hfit; [lia|].
    cbn [wide_loop]. destruct (N.eqb_spec number 0) as [->|Hnz].
    - exists s, i. split; [reflexivity|]. split; [exact HWF|]. split; [lia|reflexivity].
    - cbn [wide_step].
      pose proof (B_pos w) as HB. pose proof (pw_pos w i) as Hp.
      pose proof (N.div_mod number B ltac:(lia)) as Hdm. pose proof (N.mod_lt number B ltac:(lia)) as Hml.
      assert (E : number * pw i = (number mod B) * pw i + (number / B) * (B * pw i)).
      { rewrite Hdm at 1. ring. }
      assert (Hle : (number mod B) * pw i <= number * pw i) by (apply N.mul_le_mono_r, N.mod_le; lia).
      destruct (sub_correct w s (number mod B) i HWF Hml ltac:(lia)) as (s1 & Hrun & HWF1 & Hv1 & Hl1).
      rewrite Hrun. cbn [bind].
      destruct (IH s1 (number / B) (S i) HWF1) as (s' & j & Hrun' & HWF' & Hv' & Hl').
      + pose proof (size_nat_div number Hnz). lia.
      + rewrite pw_S. lia.
      + exists s', j. split; [exact Hrun'|]. split; [exact HWF'|]. split; [|lia].
        rewrite pw_S in Hv'. lia.
  Qed.

  (* += with an operand type at least two words wide *)
  Theorem add_wide_correct : forall ow s v, 1 < ow / w -> WF w s ->
    bval s + v < pw (length (words s)) ->
    exists s', do_operation_t w KAdd ow s v = Ok s' /\ WF w s' /\ bval s' = bval s + v /\
               length (words s') = length (words s).
  Proof.
    intros ow s v How HWF Hfit. unfold do_operation_t. cbn [word0_step].
    pose proof (B_pos w) as HB.
    pose proof (N.div_mod v B ltac:(lia)) as Hdm. pose proof (N.mod_lt v B ltac:(lia)) as Hml.
    destruct (add_correct w s (v mod B) 0 HWF Hml) as (s0 & Hrun & HWF0 & Hv0 & Hl0).
    { rewrite pw_0. pose proof (N.mod_le v B ltac:(lia)). lia. }
    rewrite Hrun. cbn [bind]. rewrite pw_0 in Hv0.
    destruct (N.ltb_spec 1 (ow / w)) as [_|]; [|lia].
    rewrite size_nat_equiv.
    destruct (wide_add_loop (S (N.size_nat v)) s0 (v / B) 1 HWF0) as (s1 & j & Hrun1 & HWF1 & Hv1 & Hl1).
    - destruct (N.eq_dec v 0) as [->|Hnz]; [cbn; lia|]. pose proof (size_nat_div v Hnz). lia.
    - rewrite Hl0, Hv0, pw_S, pw_0. lia.
    - rewrite Hrun1. cbn [bind]. exists s1. split; [reflexivity|]. split; [exact HWF1|]. split; [|lia].
      rewrite Hv1, Hv0, pw_S, pw_0. lia.
  Qed.

  Theorem sub_wide_correct : forall ow s v, 1 < ow / w -> WF w s -> v <= bval s ->
    exists s', do_operation_t w KSub ow s v = Ok s' /\ WF w s' /\ bval s' + v = bval s /\
               length (words s') = length (words s).
  Proof.
    intros ow s v How HWF Hfit. unfold do_operation_t. cbn [word0_step].
    pose proof (B_pos w) as HB.
    pose proof (N.div_mod v B ltac:(lia)) as Hdm. pose proof (N.mod_lt v B ltac:(lia)) as Hml.
    destruct (sub_correct w s (v mod B) 0 HWF Hml) as (s0 & Hrun & HWF0 & Hv0 & Hl0).
    { rewrite pw_0. pose proof (N.mod_le v B ltac:(lia)). lia. }
    rewrite Hrun. cbn [bind]. rewrite pw_0 in Hv0.
    destruct (N.ltb_spec 1 (ow / w)) as [_|]; [|lia].
    rewrite size_nat_equiv.
    destruct (wide_sub_loop (S (N.size_nat v)) s0 (v / B) 1 HWF0) as (s1 & j & Hrun1 & HWF1 & Hv1 & Hl1).
    - destruct (N.eq_dec v 0) as [->|Hnz]; [cbn; lia|]. pose proof (size_nat_div v Hnz). lia.
    - rewrite pw_S, pw_0. lia.
    - rewrite Hrun1. cbn [bind]. exists s1. split; [reflexivity|]. split; [exact HWF1|]. split; [|lia].
      rewrite pw_S, pw_0 in Hv1. lia.
  Qed.
End W.
