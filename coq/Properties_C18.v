(* Properties_C18.v -- GroupBy partitions an array of objects by key value.
   Statements only; proofs in ValueProofsGroup.v / ValueProofsObs.v. *)
From Coq Require Import NArith ZArith List Bool.
From Qv Require Import ValueModel ValueProofs ValueProofsObs ValueProofsGroup.
Import ListNotations.

(* The model of the (patched) C++ GroupBy and the same loop read on abstract
   documents give the same ok flag and the same result, for every value. *)
Theorem c18_model_refines_spec : forall v k, gb_abs (group_by v k) = d_group_by (abs v) k.
Proof. exact group_by_abs. Qed.
Print Assumptions c18_model_refines_spec.

(* The grouping loop computes the partition: one member per distinct name in
   order of first appearance, holding in input order exactly the records with
   that name (unbounded; induction on the array). *)
Theorem c18_loop_is_partition : forall t, fold_left gstep t [] = part t.
Proof. exact loop_is_partition. Qed.
Print Assumptions c18_loop_is_partition.

(* Main statement: on every non-empty array of records that all carry the key
   with a textual value GroupBy succeeds and returns that partition,
   irrespective of the key's position in each record. *)
Theorem c18_groups_are_partition : forall k recs names,
    recs <> [] ->
    all_some (map (record_name k) recs) = Some names ->
    d_group_by (DArr recs) k
    = (true, Some (DObj false (part (combine names (map (rec_sub k) recs))))).
Proof. exact group_by_is_partition. Qed.
Print Assumptions c18_groups_are_partition.

(* The source array is unchanged and the rendered loop uses the same function:
   GroupBy writes only its destination (state-level refinement of the OGroupBy
   step, which replaces the destination and nothing else). *)
Theorem c18_step_refines : forall st o, is_reader o = false ->
    oc_abs (step st o) = d_step (abss st) o.
Proof. exact step_abs. Qed.
Print Assumptions c18_step_refines.
