(* Properties_C18.v -- GroupBy partitions an array of objects by key value.
   Statements only; proofs in ValueProofsGroup.v / ValueProofsObs.v. *)
From Coq Require Import NArith ZArith List Bool.
From Qv Require Import ValueModel ValueProofs ValueProofsObs ValueProofsRead ValueProofsGroup ValueProofsWf.
Import ListNotations.

(* The model of the (patched) C++ GroupBy and the same loop read on abstract
   documents give the same ok flag and the same result, for every value. *)
Theorem c18_model_refines_spec : forall v k, gb_abs (group_by v k) = d_group_by (abs v) k.
Proof. exact group_by_abs. Qed.
Print Assumptions c18_model_refines_spec.

(* The grouping loop computes the partition: one member per distinct name in
   order of first appearance, holding in input order exactly the records with
   that name (unbounded; induction on the array). *)
Theorem c18_loop_is_partition : forall t, fold_left gstep t [] = part t.
Proof. exact loop_is_partition. Qed.
Print Assumptions c18_loop_is_partition.

(* Main statement: on every non-empty array of records that all carry the key
   with a textual value GroupBy succeeds and returns that partition,
   irrespective of the key's position in each record. *)
Theorem c18_groups_are_partition : forall k recs names,
    recs <> [] ->
    all_some (map (record_name k) recs) = Some names ->
    d_group_by (DArr recs) k
    = (true, Some (DObj false (part (combine names (map (rec_sub k) recs))))).
Proof. exact group_by_is_partition. Qed.
Print Assumptions c18_groups_are_partition.

(* The source array is unchanged and the rendered loop uses the same function:
   GroupBy writes only its destination (state-level refinement of the OGroupBy
   step, which replaces the destination and nothing else). *)
Theorem c18_step_refines : forall st o, is_reader o = false ->
    oc_abs (step st o) = d_step (abss st) o.
Proof. exact step_abs. Qed.
Print Assumptions c18_step_refines.

(* With unique member keys (the HArray invariant, C13) the record the loop
   rebuilds is the record with the grouping key erased, removed members
   dropped, every other member an unchanged (fresh) copy, in order. *)
Theorem c18_other_members_unchanged : forall k r,
    NoDup (map fst (d_members r)) -> rec_sub k r = erase_key k (d_members r).
Proof. exact rec_sub_is_erase_key. Qed.
Print Assumptions c18_other_members_unchanged.

(* The declarative form: whenever partition_by_key is defined (non-empty array
   of records that all carry the key with a textual value), GroupBy succeeds
   and returns exactly it. *)
Theorem c18_groups_equal_partition_by_key : forall k recs,
    Forall (fun r => NoDup (map fst (d_members r))) recs ->
    forall g, partition_by_key recs k = Some g ->
    d_group_by (DArr recs) k = (true, Some g).
Proof. exact group_by_is_partition_by_key. Qed.
Print Assumptions c18_groups_equal_partition_by_key.

(* Every input record lands in exactly one group: the group sizes add up to
   the number of records (and by c18_loop_is_partition each group is a filter). *)
Theorem c18_each_in_exactly_one : forall t,
    list_sum (map (fun g => length (d_items (snd g))) (part t)) = length t.
Proof. exact each_record_in_exactly_one_group. Qed.
Print Assumptions c18_each_in_exactly_one.

(* The rendered <loop group=...> iterates the same partition: the render model
   on a value is the render of the specification on its abstraction. *)
Theorem c18_loop_group_same : forall v k, render_groups v k = d_render_groups (abs v) k.
Proof. exact render_groups_abs. Qed.
Print Assumptions c18_loop_group_same.

(* Member keys stay unique in every object of every document a history can
   reach (so the hypothesis of c18_groups_equal_partition_by_key always holds). *)
Theorem c18_unique_keys_invariant : forall ops st, wfs st -> oc_wfs (d_final st ops).
Proof. exact reachable_wfs. Qed.
Print Assumptions c18_unique_keys_invariant.

(* Unconditional form on the model of the C++: after ANY history, GroupBy on a
   value whose abstraction is an array of records returns partition_by_key of
   those records (distinct names in first-appearance order; stable groups; key
   erased; other members unchanged) wherever partition_by_key is defined, i.e.
   for every non-empty array of records that carry the key with a textual value. *)
Theorem c18_group_by_is_partition_by_key : forall ops st out t v recs k g,
    final init_state ops = Done st out ->
    st_get st t = Some v ->
    abs v = DArr recs ->
    partition_by_key recs k = Some g ->
    gb_abs (group_by v k) = (true, Some g).
Proof. exact model_group_by_is_partition. Qed.
Print Assumptions c18_group_by_is_partition_by_key.
