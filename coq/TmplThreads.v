(* TmplThreads.v -- C17, the interleaving half on the model: N threads render through ONE shared parsed tag list
   and ONE shared template text, each with its own value and its own stream, one top-level tag per step, under an
   ARBITRARY schedule.  The shared part (text, tags, configuration) is an argument of every step and is never
   returned by one: in this model a step has no way to write it, which is exactly what the ThreadSanitizer run of
   tools/props/c17.py tests of the C++ (a model cannot exhibit a write the code performs behind a const reference).
   What is proved: whatever the schedule, a thread that has finished holds its initial stream followed by the
   fresh single render of its value; unfinished threads hold a prefix of it; two schedules that let every thread
   finish end in the same state; round-robin with enough rounds is such a schedule. *)
From Coq Require Import NArith ZArith List Bool Arith Lia.
From Qv Require Import gen.Tables EscapeModel TmplModel TmplRender TmplProofs TmplPurity.
Import ListNotations.

Record thread := { t_root : jv; t_todo : list gtag; t_off : nat; t_fin : bool; t_out : list N }.

Section Threads.
  Variable auto : bool.
  Variable w : N.
  Variable content : list N.
  Variable tags : list gtag.          (* the shared parsed tag list *)

  Definition tinit (root : jv) (pre : list N) : thread :=
    {| t_root := root; t_todo := tags; t_off := 0; t_fin := false; t_out := pre |}.

  (* one step of one thread: the next top-level tag (with the literal text before it), or the trailing literal *)
  Definition tstep (t : thread) : thread :=
    match t_todo t with
    | x :: r =>
      let (o, off') := render_tag auto w (t_root t) content [] x (t_off t) in
      {| t_root := t_root t; t_todo := r; t_off := off'; t_fin := false; t_out := t_out t ++ o |}
    | [] =>
      if t_fin t then t
      else {| t_root := t_root t; t_todo := []; t_off := t_off t; t_fin := true;
              t_out := t_out t ++ sub content (t_off t) (length content) |}
    end.

  (* what the thread will have written when it is done *)
  Definition t_rest (t : thread) : list N :=
    if t_fin t then [] else render_list auto w (t_root t) content [] (t_todo t) (t_off t) (length content).
  Definition t_final (t : thread) : list N := t_out t ++ t_rest t.
  Definition t_done (t : thread) : bool := t_fin t.

  (* a finished thread has an empty to-do list *)
  Definition wf_thread (t : thread) : Prop := t_fin t = true -> t_todo t = [].

  Lemma tinit_wf : forall root pre, wf_thread (tinit root pre).
  Proof. intros root pre H. discriminate H. Qed.

  Lemma tstep_wf : forall t, wf_thread t -> wf_thread (tstep t).
  Proof.
    intros [root todo off fin out] H. unfold wf_thread, tstep in *. cbn [t_todo t_root t_off t_fin t_out] in *.
    destruct todo as [|x r].
    - destruct fin; cbn [t_fin t_todo]; intros _; reflexivity.
    - destruct (render_tag auto w root content [] x off) as [o off']. cbn [t_fin]. intros X. discriminate X.
  Qed.

  Lemma tstep_final : forall t, wf_thread t -> t_final (tstep t) = t_final t.
  Proof.
    intros [root todo off fin out] H. unfold wf_thread, tstep, t_final, t_rest in *.
    cbn [t_todo t_root t_off t_fin t_out] in *.
    destruct todo as [|x r].
    - destruct fin; cbn [t_fin t_out t_todo t_off t_root].
      + reflexivity.
      + cbn [render_list]. now rewrite app_nil_r.
    - destruct fin; [specialize (H eq_refl); discriminate H|].
      cbn [render_list]. destruct (render_tag auto w root content [] x off) as [o off'].
      cbn [t_fin t_out t_todo t_off t_root]. now rewrite <- app_assoc.
  Qed.

  Lemma tstep_root : forall t, t_root (tstep t) = t_root t.
  Proof.
    intros [root todo off fin out]. unfold tstep. cbn [t_todo t_root t_off t_fin t_out].
    destruct todo as [|x r]; [destruct fin; reflexivity|].
    destruct (render_tag auto w root content [] x off); reflexivity.
  Qed.

  Lemma tinit_final : forall root pre, t_final (tinit root pre) = pre ++ render auto w root content tags.
  Proof. intros. reflexivity. Qed.

  (* a step only appends to the thread's own stream *)
  Lemma tstep_appends : forall t, exists o, t_out (tstep t) = t_out t ++ o.
  Proof.
    intros [root todo off fin out]. unfold tstep. cbn [t_todo t_root t_off t_fin t_out].
    destruct todo as [|x r].
    - destruct fin; cbn [t_out]; [exists []; now rewrite app_nil_r | eexists; reflexivity].
    - destruct (render_tag auto w root content [] x off) as [o off']. cbn [t_out]. eexists; reflexivity.
  Qed.

  (* ---- the pool and a schedule: a list of thread numbers, any order, any repetitions, numbers out of range idle ---- *)
  Fixpoint upd (i : nat) (ts : list thread) : list thread :=
    match ts, i with
    | [], _ => []
    | t :: r, O => tstep t :: r
    | t :: r, S j => t :: upd j r
    end.
  Definition run_sched (sched : list nat) (ts : list thread) : list thread := fold_left (fun s i => upd i s) sched ts.

  Definition pool_inv (ts0 ts : list thread) : Prop :=
    Forall2 (fun a b => wf_thread b /\ t_final b = t_final a /\ t_root b = t_root a /\ exists o, t_out b = t_out a ++ o) ts0 ts.

  Lemma pool_inv_refl : forall ts, Forall wf_thread ts -> pool_inv ts ts.
  Proof.
    intros ts H. induction H as [|t r Ht _ IH]; constructor; [|exact IH].
    repeat split; auto. exists []. now rewrite app_nil_r.
  Qed.

  Lemma upd_inv : forall i ts0 ts, pool_inv ts0 ts -> pool_inv ts0 (upd i ts).
  Proof.
    intros i ts0 ts H. revert i. induction H as [|a b ra rb Hab Htl IH]; intros i; cbn [upd]; [destruct i; constructor|].
    destruct i as [|j].
    - constructor; [|assumption]. destruct Hab as (Hw & Hf & Hr & o & Ho).
      split; [apply tstep_wf; exact Hw|]. split; [rewrite tstep_final; assumption|]. split; [rewrite tstep_root; assumption|].
      destruct (tstep_appends b) as (o' & Ho'). exists (o ++ o'). rewrite Ho', Ho. now rewrite app_assoc.
    - constructor; [exact Hab | apply IH].
  Qed.

  Lemma run_sched_inv : forall sched ts0 ts, pool_inv ts0 ts -> pool_inv ts0 (run_sched sched ts).
  Proof.
    intros sched. induction sched as [|i s IH]; intros ts0 ts H; cbn [run_sched fold_left]; [exact H|].
    apply IH. apply upd_inv. exact H.
  Qed.

  Definition pool0 (jobs : list (jv * list N)) : list thread := map (fun j => tinit (fst j) (snd j)) jobs.

  Lemma pool0_wf : forall jobs, Forall wf_thread (pool0 jobs).
  Proof. intros jobs. apply Forall_forall. intros t Ht. apply in_map_iff in Ht. destruct Ht as (j & <- & _). apply tinit_wf. Qed.

  (* ---- every schedule: thread k, once finished, holds its initial stream followed by the fresh render of its value;
          before that it holds a prefix of it that extends its initial stream ---- *)
  Theorem any_interleaving : forall (jobs : list (jv * list N)) (sched : list nat) k root pre t,
    nth_error jobs k = Some (root, pre) ->
    nth_error (run_sched sched (pool0 jobs)) k = Some t ->
    (exists o rest, t_out t = pre ++ o /\ o ++ rest = render auto w root content tags /\ (t_done t = true -> rest = [])).
  Proof.
    intros jobs sched k root pre t Hj Ht.
    pose proof (run_sched_inv sched (pool0 jobs) (pool0 jobs) (pool_inv_refl _ (pool0_wf jobs))) as H.
    assert (H0 : nth_error (pool0 jobs) k = Some (tinit root pre)).
    { unfold pool0. rewrite nth_error_map, Hj. reflexivity. }
    clear Hj. revert k H0 Ht. induction H as [|a b ra rb Hab _ IH]; intros k H0 Ht; [destruct k; discriminate H0|].
    destruct k as [|k]; [|exact (IH k H0 Ht)].
    cbn [nth_error] in H0, Ht. injection H0 as ->. injection Ht as ->.
    destruct Hab as (_ & Hf & _ & o & Ho). cbn [tinit t_out] in Ho.
    rewrite tinit_final in Hf. unfold t_final in Hf. rewrite Ho, <- app_assoc in Hf. apply app_inv_head in Hf.
    exists o, (t_rest t). split; [exact Ho|]. split; [exact Hf|].
    unfold t_done, t_rest. intros ->. reflexivity.
  Qed.

  Corollary finished_thread_has_fresh_render : forall jobs sched k root pre t,
    nth_error jobs k = Some (root, pre) -> nth_error (run_sched sched (pool0 jobs)) k = Some t -> t_done t = true ->
    t_out t = pre ++ render auto w root content tags.
  Proof.
    intros jobs sched k root pre t Hj Ht Hd. destruct (any_interleaving jobs sched k root pre t Hj Ht) as (o & rest & Ho & Hr & Hn).
    rewrite (Hn Hd), app_nil_r in Hr. now rewrite Ho, Hr.
  Qed.

  (* the number of threads never changes, a schedule cannot create or lose a stream *)
  Lemma run_sched_length : forall sched ts, length (run_sched sched ts) = length ts.
  Proof.
    intros sched. induction sched as [|i s IH]; intros ts; cbn [run_sched fold_left]; [reflexivity|].
    fold (run_sched s (upd i ts)). rewrite IH. revert i. induction ts as [|t r IHr]; intros [|j]; cbn [upd length]; auto.
  Qed.

  (* ---- schedule independence: every schedule that lets every thread finish ends with the same streams, the fresh renders ---- *)
  Lemma all_done_outputs : forall jobs ts, pool_inv (pool0 jobs) ts -> Forall (fun t => t_done t = true) ts ->
    map t_out ts = map (fun j => snd j ++ render auto w (fst j) content tags) jobs.
  Proof.
    intros jobs. induction jobs as [|j jobs IH]; intros ts H Hd; cbn [pool0 map] in H; inversion H as [|a b ra rb Hab Hr]; subst.
    - reflexivity.
    - inversion Hd as [|b' rb' Hb Hrb]; subst. cbn [map]. f_equal; [|apply IH; assumption].
      destruct Hab as (_ & Hf & _ & _). rewrite tinit_final in Hf. unfold t_final, t_rest in Hf.
      unfold t_done in Hb. rewrite Hb, app_nil_r in Hf. exact Hf.
  Qed.

  Theorem schedules_agree : forall jobs s1 s2,
    Forall (fun t => t_done t = true) (run_sched s1 (pool0 jobs)) ->
    Forall (fun t => t_done t = true) (run_sched s2 (pool0 jobs)) ->
    map t_out (run_sched s1 (pool0 jobs)) = map t_out (run_sched s2 (pool0 jobs)) /\
    map t_out (run_sched s1 (pool0 jobs)) = map (fun j => snd j ++ render auto w (fst j) content tags) jobs.
  Proof.
    intros jobs s1 s2 H1 H2.
    pose proof (run_sched_inv s1 _ _ (pool_inv_refl _ (pool0_wf jobs))) as I1.
    pose proof (run_sched_inv s2 _ _ (pool_inv_refl _ (pool0_wf jobs))) as I2.
    rewrite (all_done_outputs _ _ I1 H1), (all_done_outputs _ _ I2 H2). split; reflexivity.
  Qed.

  (* ---- such schedules exist: round robin, (number of top-level tags + 1) rounds ---- *)
  Lemma run_sched_shift : forall s t r, run_sched (map S s) (t :: r) = t :: run_sched s r.
  Proof.
    intros s. induction s as [|i s IH]; intros t r; cbn [map run_sched fold_left]; [reflexivity|].
    cbn [upd]. exact (IH t (upd i r)).
  Qed.

  Lemma one_round : forall ts, run_sched (seq 0 (length ts)) ts = map tstep ts.
  Proof.
    intros ts. induction ts as [|t r IH]; [reflexivity|].
    cbn [length seq]. cbn [run_sched fold_left upd]. fold (run_sched (seq 1 (length r)) (tstep t :: r)).
    rewrite <- seq_shift, run_sched_shift, IH. reflexivity.
  Qed.

  Lemma run_sched_app : forall s1 s2 ts, run_sched (s1 ++ s2) ts = run_sched s2 (run_sched s1 ts).
  Proof. intros. unfold run_sched. apply fold_left_app. Qed.

  Fixpoint round_robin (n rounds : nat) : list nat :=
    match rounds with O => [] | S m => seq 0 n ++ round_robin n m end.

  Fixpoint steps (m : nat) (t : thread) : thread := match m with O => t | S k => tstep (steps k t) end.
  Lemma steps_comm : forall m t, steps m (tstep t) = tstep (steps m t).
  Proof. intros m t. induction m as [|m IHm]; cbn [steps]; [reflexivity | now rewrite IHm]. Qed.

  Lemma rounds_map : forall m ts, run_sched (round_robin (length ts) m) ts = map (fun t => steps m t) ts.
  Proof.
    intros m. induction m as [|m IH]; intros ts; cbn [round_robin steps].
    - cbn. now rewrite map_id.
    - rewrite run_sched_app, one_round.
      replace (length ts) with (length (map tstep ts)) by apply map_length.
      rewrite IH, map_map. apply map_ext. intros t. apply steps_comm.
  Qed.

  Definition steps_left (t : thread) : nat := if t_fin t then 0 else S (length (t_todo t)).

  Lemma tstep_steps : forall t, wf_thread t -> steps_left (tstep t) = pred (steps_left t).
  Proof.
    intros [root todo off fin out] H. unfold wf_thread, steps_left, tstep in *. cbn [t_todo t_root t_off t_fin t_out] in *.
    destruct todo as [|x r].
    - destruct fin; reflexivity.
    - destruct fin; [specialize (H eq_refl); discriminate H|].
      destruct (render_tag auto w root content [] x off) as [o off']. reflexivity.
  Qed.

  Lemma iter_wf : forall m t, wf_thread t -> wf_thread (steps m t).
  Proof. intros m. induction m as [|m IH]; intros t H; cbn [steps]; [exact H | apply tstep_wf, IH, H]. Qed.

  Lemma iter_steps : forall m t, wf_thread t -> steps_left (steps m t) = steps_left t - m.
  Proof.
    intros m. induction m as [|m IH]; intros t H; cbn [steps]; [lia|].
    rewrite tstep_steps by (apply iter_wf; exact H). rewrite IH by exact H. lia.
  Qed.

  Lemma done_steps : forall t, steps_left t = 0 -> t_done t = true.
  Proof. intros t. unfold steps_left, t_done. destruct (t_fin t); [reflexivity | discriminate]. Qed.

  (* round robin over the n threads, (number of top-level tags + 1) rounds: every thread has finished *)
  Theorem round_robin_finishes : forall jobs,
    Forall (fun t => t_done t = true) (run_sched (round_robin (length jobs) (S (length tags))) (pool0 jobs)).
  Proof.
    intros jobs. replace (length jobs) with (length (pool0 jobs)) by apply map_length.
    rewrite rounds_map. apply Forall_forall. intros t Ht. apply in_map_iff in Ht. destruct Ht as (u & <- & Hu).
    apply in_map_iff in Hu. destruct Hu as (j & <- & _). apply done_steps.
    rewrite iter_steps by apply tinit_wf. unfold steps_left, tinit. cbn [t_fin t_todo]. lia.
  Qed.

  (* hence: under round robin every thread ends with its initial stream followed by the fresh render of its value *)
  Corollary round_robin_outputs : forall jobs,
    map t_out (run_sched (round_robin (length jobs) (S (length tags))) (pool0 jobs)) =
    map (fun j => snd j ++ render auto w (fst j) content tags) jobs.
  Proof.
    intros jobs. apply all_done_outputs; [|apply round_robin_finishes].
    apply run_sched_inv, pool_inv_refl, pool0_wf.
  Qed.
End Threads.

(* with the tag tree of a printed well-formed template: every finished thread holds the documented expansion *)
Corollary finished_thread_has_expansion : forall auto w ast, wf_ast ast = true ->
  forall jobs sched k root pre t,
  nth_error jobs k = Some (root, pre) ->
  nth_error (run_sched auto w (print_nodes ast) sched (pool0 (lay_nodes 0 ast) jobs)) k = Some t -> t_done t = true ->
  t_out t = pre ++ expand auto w root ast.
Proof.
  intros auto w ast Hwf jobs sched k root pre t Hj Ht Hd.
  rewrite (finished_thread_has_fresh_render auto w (print_nodes ast) (lay_nodes 0 ast) jobs sched k root pre t Hj Ht Hd).
  f_equal. apply (render_ast_expand auto w root ast Hwf).
Qed.

(* non-vacuity: three threads, one template with two variable tags (three steps each), an unfair schedule in which
   thread 2 runs first and thread 0 last, thread 1 is stepped more often than it needs and number 7 does not exist *)
Example interleaving_example :
  let ast := [TText [65%N]; TVar ([97%N], []); TText [66%N]; TVar ([98%N], []); TText [67%N]] in          (* A{var:a}B{var:b}C *)
  let job x y pre := (JObj [([97%N], JStr [x]); ([98%N], JStr [y])], pre) in
  let jobs := [job 49%N 50%N [35%N]; job 60%N 38%N []; job 51%N 52%N [36%N; 36%N]] in
  let sched := [2; 2; 1; 7; 2; 1; 0; 1; 1; 1; 0; 2; 0] in
  wf_ast ast = true /\
  map t_out (run_sched true 1 (print_nodes ast) sched (pool0 (lay_nodes 0 ast) jobs)) =
    map (fun j => snd j ++ expand true 1 (fst j) ast) jobs /\
  forallb t_done (run_sched true 1 (print_nodes ast) sched (pool0 (lay_nodes 0 ast) jobs)) = true /\
  (* a strict prefix of that schedule leaves thread 0 unfinished, holding a proper prefix *)
  map t_out (run_sched true 1 (print_nodes ast) (firstn 11 sched) (pool0 (lay_nodes 0 ast) jobs)) <>
    map (fun j => snd j ++ expand true 1 (fst j) ast) jobs.
Proof. repeat split; try (vm_compute; reflexivity). intros H. vm_compute in H. discriminate H. Qed.
