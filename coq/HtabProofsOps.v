(* HtabProofsOps.v -- C13: the operations preserve the invariant and refine the
   association-list specification.  Part 1: writes, set_val, insert_item,
   generateHash (rebuild from scratch), resize / expand. *)
From Coq Require Import List NArith Arith Bool Lia ZifyNat ZifyN.
From Qv Require Import HtabModel HtabProofsBase HtabProofsInv.
Import ListNotations.

Lemma Forall_upd {A} (P : A -> Prop) (l : list A) i x : Forall P l -> P x -> Forall P (upd l i x).
Proof.
  revert i; induction l as [|a l IH]; intros [|i] Hl Hx; simpl; auto; inversion Hl; subst; constructor; auto.
Qed.
Lemma filter_idem {A} (p : A -> bool) (l : list A) : filter p (filter p l) = filter p l.
Proof.
  induction l as [|a l IH]; simpl; auto. destruct (p a) eqn:E; simpl; [rewrite E, IH|]; auto.
Qed.
Lemma Forall_filter {A} (P : A -> Prop) (p : A -> bool) (l : list A) : Forall P l -> Forall P (filter p l).
Proof.
  rewrite !Forall_forall. intros Hl x Hx. apply filter_In in Hx. apply Hl. tauto.
Qed.
Lemma nth_repeat_0 n b : nth b (repeat 0 n) 0 = 0.
Proof. revert b; induction n as [|n IH]; intros [|b]; simpl; auto. Qed.

Lemma map_ext_nth {A B} (f : A -> B) (l l' : list A) d :
  length l = length l' -> (forall i, f (nth i l d) = f (nth i l' d)) -> map f l = map f l'.
Proof.
  revert l'; induction l as [|a l IH]; intros [|a' l'] Hlen Hf; simpl in *; try discriminate; auto.
  f_equal; [exact (Hf 0)|]. apply IH; [lia|]. intros i. exact (Hf (S i)).
Qed.

(* ---------- allocate ---------- *)
Lemma alloc_cap_spec n : 1 <= n -> (exists m, alloc_cap n = 2 ^ m) /\ n <= alloc_cap n.
Proof.
  intros Hn. unfold alloc_cap.
  set (n1 := (N.of_nat n + N.of_nat n mod 2)%N).
  assert (Hn1 : (0 < n1)%N) by (unfold n1; lia).
  assert (Hge : (N.of_nat n <= n1)%N) by (unfold n1; lia).
  destruct (N.log2_spec n1 Hn1) as (Hlo & Hhi).
  rewrite N.shiftl_1_l.
  destruct (N.ltb (2 ^ N.log2 n1) n1) eqn:E.
  - apply N.ltb_lt in E. rewrite N.double_spec. split.
    + exists (S (N.to_nat (N.log2 n1))).
      replace (2 * 2 ^ N.log2 n1)%N with (2 ^ N.succ (N.log2 n1))%N by (rewrite N.pow_succ_r'; reflexivity).
      rewrite N2Nat.inj_pow, N2Nat.inj_succ. reflexivity.
    + rewrite N.pow_succ_r' in Hhi. lia.
  - apply N.ltb_ge in E. split.
    + exists (N.to_nat (N.log2 n1)). rewrite N2Nat.inj_pow. reflexivity.
    + lia.
Qed.

Section Ops.
Context {K V : Type}.
Variable keqb : K -> K -> bool.
Variable H : K -> N.
Variable kdef : K.
Variable vdef : V.
Hypothesis keqb_spec : forall a b, keqb a b = true <-> a = b.
Hypothesis H_nz : forall k, H k <> 0%N.

Notation ht := (ht K V).
Notation item := (item K V).
Notation it := (@it K V kdef vdef).
Notation rd_link := (@rd_link K V kdef vdef).
Notation wr_link := (@wr_link K V kdef vdef).
Notation set_val := (@set_val K V kdef vdef).
Notation insert_item := (@insert_item K V kdef vdef).
Notation gh_step := (@gh_step K V kdef vdef).
Notation gh_loop := (@gh_loop K V kdef vdef).
Notation generate_hash := (@generate_hash K V kdef vdef).
Notation resize := (@resize K V kdef vdef).
Notation expand := (@expand K V kdef vdef).
Notation grow_if_full := (@grow_if_full K V kdef vdef).
Notation Seg := (@Seg K V kdef vdef).
Notation Inv := (@Inv K V H kdef vdef).
Notation items_ok := (@items_ok K V H).
Notation hash_ok := (@hash_ok K V H).
Notation bucket_chain := (@bucket_chain K V kdef vdef).
Notation live_at := (@live_at K V kdef vdef).
Notation live_l := (@live_l K V).
Notation kv := (@kv K V).
Local Notation Inv_empty := (@Inv_empty K V keqb H kdef vdef).
Local Notation Inv_bucket_lt := (@Inv_bucket_lt K V keqb H kdef vdef).
Local Notation live_item_iff := (@live_item_iff K V keqb H kdef vdef).
Local Notation items_ok_idx := (@items_ok_idx K V keqb H kdef vdef).
Local Notation bucket_chain_frame := (@bucket_chain_frame K V keqb H kdef vdef).
Local Notation link_end_step := (@link_end_step K V keqb H kdef vdef).
Local Notation matches_iff := (@matches_iff K V keqb H kdef vdef keqb_spec H_nz).
Local Notation find_key_inv := (@find_key_inv K V keqb H kdef vdef keqb_spec H_nz).
Local Notation live_is_live_l := (@live_is_live_l K V keqb H kdef vdef keqb_spec H_nz).
Local Notation live_l_app := (@live_l_app K V keqb H kdef vdef keqb_spec H_nz).
Local Notation keqb_refl := (@keqb_refl K V keqb H kdef vdef keqb_spec H_nz).
Local Notation keqb_neq := (@keqb_neq K V keqb H kdef vdef keqb_spec H_nz).
Local Notation sp_get_none := (@sp_get_none K V keqb H kdef vdef keqb_spec H_nz).
Local Notation sp_get_found := (@sp_get_found K V keqb H kdef vdef keqb_spec H_nz).
Local Notation sp_index_none := (@sp_index_none K V keqb H kdef vdef keqb_spec H_nz).
Local Notation sp_index_found := (@sp_index_found K V keqb H kdef vdef keqb_spec H_nz).
Local Notation sp_put_fresh := (@sp_put_fresh K V keqb H kdef vdef keqb_spec H_nz).
Local Notation sp_put_found := (@sp_put_found K V keqb H kdef vdef keqb_spec H_nz).
Local Notation sp_remove_none := (@sp_remove_none K V keqb H kdef vdef keqb_spec H_nz).
Local Notation sp_remove_found := (@sp_remove_found K V keqb H kdef vdef keqb_spec H_nz).
Local Notation sp_rekey_found := (@sp_rekey_found K V keqb H kdef vdef keqb_spec H_nz).
Local Notation In_nth_lt := (@In_nth_lt K V keqb H kdef vdef keqb_spec H_nz).
Local Notation split_at := (@split_at K V keqb H kdef vdef keqb_spec H_nz).
Local Notation no_key_before := (@no_key_before K V keqb H kdef vdef keqb_spec H_nz).
Local Notation no_key_all := (@no_key_all K V keqb H kdef vdef keqb_spec H_nz).
Local Set Default Proof Using "All".

(* ---------- live entries under single-item replacement ---------- *)
Lemma live_l_replace a (x x' : item) b :
  live_item x' = live_item x -> kv x' = kv x -> live_l (a ++ x' :: b) = live_l (a ++ x :: b).
Proof.
  intros Hl Hkv. rewrite !live_l_app. f_equal. unfold HtabProofsInv.live_l; simpl. rewrite Hl.
  destruct (live_item x); simpl; congruence.
Qed.

Lemma live_upd_same s i (x' : item) :
  live_item x' = live_item (it s i) -> kv x' = kv (it s i) ->
  live_l (upd (items s) i x') = live_l (items s).
Proof.
  intros Hl Hkv. destruct (Nat.lt_ge_cases i (size s)) as [Hi|Hi].
  - rewrite upd_split by exact Hi. rewrite (split_at s i Hi) at 3. apply live_l_replace; auto.
  - rewrite upd_out by exact Hi. reflexivity.
Qed.

Lemma live_wr s l v : live (wr_link s l v) = live s.
Proof.
  destruct l as [b|p]; [reflexivity|]. rewrite !live_is_live_l. simpl.
  apply live_upd_same; reflexivity.
Qed.

Lemma hash_ok_it s i : Forall hash_ok (items s) -> hash_ok (it s i).
Proof.
  intros Hf. destruct (Nat.lt_ge_cases i (size s)) as [Hi|Hi].
  - rewrite Forall_forall in Hf. apply Hf. apply nth_In. exact Hi.
  - unfold HtabModel.it. rewrite nth_overflow by exact Hi. intros Hl. discriminate.
Qed.

Lemma items_ok_wr s l v : items_ok s -> items_ok (wr_link s l v).
Proof.
  intros (Hf & Hnd). split; [|rewrite live_wr; exact Hnd].
  destruct l as [b|p]; [exact Hf|]. simpl. apply Forall_upd; auto.
  pose proof (hash_ok_it s p Hf) as Hp. intros Hl. apply Hp. exact Hl.
Qed.

(* ---------- set_val ---------- *)
Lemma set_val_inv s i v :
  Inv s -> i < size s -> live_at s i ->
  Inv (set_val s i v) /\ live (set_val s i v) = sp_put keqb (live s) (ikey (it s i)) v /\
  cap (set_val s i v) = cap s /\ size (set_val s i v) = size s.
Proof.
  intros HI Hi Hl.
  set (x' := mkItem (ikey (it s i)) (ihash (it s i)) (inext (it s i)) v).
  assert (Hlx : live_item x' = true) by (apply live_item_iff; exact Hl).
  assert (Hlive : live (set_val s i v) = sp_put keqb (live s) (ikey (it s i)) v).
  { rewrite !live_is_live_l. unfold HtabModel.set_val, set_item. simpl. fold x'.
    rewrite upd_split by exact Hi. rewrite (split_at s i Hi) at 3.
    symmetry. apply sp_put_found; [|apply live_item_iff; exact Hl|reflexivity|exact Hlx|reflexivity].
    eapply no_key_before; eauto. apply (inv_items _ _ _ _ HI). }
  assert (Hsz : size (set_val s i v) = size s) by (unfold size; simpl; apply length_upd).
  assert (Hit : forall j, ihash (it (set_val s i v) j) = ihash (it s j) /\ inext (it (set_val s i v) j) = inext (it s j)).
  { intros j. unfold HtabModel.it at 1 3. simpl. fold x'. destruct (Nat.eq_dec i j) as [<-|Hij].
    - rewrite nth_upd_same by exact Hi. auto.
    - rewrite nth_upd_other by exact Hij. auto. }
  split; [|split; [exact Hlive|split; [reflexivity|exact Hsz]]].
  destruct HI as [Hcap Hhd Hsize (Hf & Hnd) Hch].
  split; auto.
  - rewrite Hsz. exact Hsize.
  - split.
    + simpl. apply Forall_upd; auto. pose proof (hash_ok_it s i Hf) as Hp. intros _. apply Hp.
      apply live_item_iff. exact Hl.
    + rewrite Hlive. clear - Hnd keqb_spec. induction (live s) as [|(k', v') r IH]; simpl in *.
      * constructor; [intros []|constructor].
      * destruct (keqb k' (ikey (it s i))) eqn:E; simpl; [exact Hnd|].
        inversion Hnd as [|? ? Hni Hr]; subst. constructor; [|apply IH; exact Hr].
        intros Hin. apply Hni. clear - Hin E keqb_spec.
        induction r as [|(k2, v2) r IH]; simpl in *.
        -- destruct Hin as [Hin|[]]. subst. rewrite (proj2 (keqb_spec _ _) eq_refl) in E. discriminate.
        -- destruct (keqb k2 (ikey (it s i))); simpl in *; [exact Hin|]. destruct Hin as [Hin|Hin]; auto.
  - intros b Hb. destruct (Hch b Hb) as (c & Hbc). exists c. rewrite Hsz.
    apply (bucket_chain_frame s (set_val s i v) (size s) b c); [reflexivity|reflexivity|rewrite Hsz; lia|intros j _; apply Hit|exact Hbc].
Qed.

(* ---------- insert_item after an unsuccessful find ---------- *)
Lemma insert_item_inv s k v c :
  Inv s -> size s < cap s ->
  bucket_chain s (size s) (bucket (cap s) (H k)) c ->
  (forall j, j < size s -> live_at s j -> ikey (it s j) <> k) ->
  let s' := insert_item s (link_after (Head (bucket (cap s) (H k))) c) k (H k) v in
  Inv s' /\ live s' = live s ++ [(k, v)] /\ cap s' = cap s /\ size s' = S (size s) /\
  ikey (it s' (size s)) = k /\ ival (it s' (size s)) = v.
Proof.
  intros HI Hfull Hbc Hno. set (b := bucket (cap s) (H k)) in *.
  set (x := mkItem k (H k) 0 v).
  set (s1 := mkHt (cap s) (heads s) (items s ++ [x])).
  intros s'. change s' with (wr_link s1 (link_after (Head b) c) (S (size s))).
  destruct HI as [Hcap Hhd Hsize (Hf & Hnd) Hch].
  assert (Hb : b < cap s).
  { destruct Hcap as [E|(n & E)]; [lia|]. unfold b. rewrite E. apply bucket_lt. }
  assert (Hit1 : forall j, j < size s -> it s1 j = it s j).
  { intros j Hj. unfold HtabModel.it, s1. simpl. apply app_nth1. exact Hj. }
  assert (Hitn : it s1 (size s) = x).
  { unfold HtabModel.it, s1, size. simpl. rewrite app_nth2 by lia. rewrite Nat.sub_diag. reflexivity. }
  assert (Hsz1 : size s1 = S (size s)).
  { unfold size, s1. simpl. rewrite app_length. simpl. lia. }
  assert (Hfr : forall b' c', bucket_chain s (size s) b' c' -> bucket_chain s1 (size s) b' c').
  { intros b' c' Hc'. apply (bucket_chain_frame s s1 (size s) b' c'); [reflexivity|reflexivity|rewrite Hsz1; lia| |exact Hc'].
    intros j Hj. rewrite Hit1 by exact Hj. auto. }
  assert (Hlx : live_item x = true) by (apply live_item_iff; simpl; apply H_nz).
  assert (Hlive1 : live s1 = live s ++ [(k, v)]).
  { rewrite !live_is_live_l. unfold s1. simpl. rewrite live_l_app. f_equal.
    unfold HtabProofsInv.live_l. simpl. rewrite Hlx. reflexivity. }
  assert (Hok1 : items_ok s1).
  { split.
    - unfold s1. simpl. apply Forall_app. split; [exact Hf|]. constructor; [|constructor]. intros _. reflexivity.
    - rewrite Hlive1, map_app. simpl. apply NoDup_app_snoc; [exact Hnd|].
      intros Hin. apply in_map_iff in Hin. destruct Hin as ((k', v') & Hk' & Hin). simpl in Hk'. subst k'.
      unfold live in Hin. apply in_map_iff in Hin. destruct Hin as (y & Hy & Hin).
      apply filter_In in Hin. destruct Hin as (Hin & Hly).
      apply (no_key_all s k Hno y Hin Hly). inversion Hy. reflexivity. }
  repeat split.
  - rewrite cap_wr. unfold s1. simpl. exact Hcap.
  - rewrite heads_len_wr, cap_wr. unfold s1. simpl. exact Hhd.
  - rewrite size_wr, cap_wr, Hsz1. unfold s1. simpl. lia.
  - apply items_ok_wr. exact Hok1.
  - rewrite live_wr. exact (proj2 Hok1).
  - intros b' Hb'. rewrite cap_wr in Hb'. simpl in Hb'. rewrite size_wr, Hsz1.
    apply (link_end_step s1 (size s) b c).
    + rewrite Hsz1. lia.
    + rewrite Hitn. reflexivity.
    + simpl. rewrite Hhd. exact Hb.
    + rewrite Hitn. reflexivity.
    + apply Hfr. exact Hbc.
    + destruct (Nat.eq_dec b' b) as [E|E]; [left; exact E|right].
      destruct (Hch b' Hb') as (c' & Hc'). exists c'. apply Hfr. exact Hc'.
  - rewrite live_wr. exact Hlive1.
  - rewrite cap_wr. reflexivity.
  - rewrite size_wr. exact Hsz1.
  - destruct (it_wr_fields kdef vdef s1 (link_after (Head b) c) (S (size s)) (size s)) as (E & _).
    rewrite E, Hitn. reflexivity.
  - destruct (it_wr_fields kdef vdef s1 (link_after (Head b) c) (S (size s)) (size s)) as (_ & _ & E).
    rewrite E, Hitn. reflexivity.
Qed.

(* ---------- generateHash: rebuild all chains from scratch ---------- *)
(* progress invariant: the chains cover exactly the items below n *)
Definition GInv (s0 s : ht) (n : nat) : Prop :=
  cap s = cap s0 /\ length (heads s) = cap s0 /\ size s = size s0 /\
  (forall i, ikey (it s i) = ikey (it s0 i) /\ ihash (it s i) = ihash (it s0 i) /\ ival (it s i) = ival (it s0 i)) /\
  (forall b, b < cap s0 -> exists c, bucket_chain s n b c).

Lemma gh_step_inv s0 s n m :
  cap s0 = 2 ^ m -> GInv s0 s n -> n < size s0 ->
  exists s', gh_step s n = Some s' /\ GInv s0 s' (S n).
Proof.
  intros Hc (Hcap & Hhd & Hsz & Hfld & Hch) Hn.
  unfold HtabModel.gh_step.
  set (s1 := wr_link s (NextOf n) 0).
  set (b := bucket (cap s) (ihash (it s n))).
  assert (Hb : b < cap s0) by (unfold b; rewrite Hcap, Hc; apply bucket_lt).
  assert (Hfld1 : forall i, ihash (it s1 i) = ihash (it s i)) by (intros i; apply (it_wr_fields kdef vdef s (NextOf n) 0 i)).
  assert (Hfr : forall b' c', bucket_chain s n b' c' -> bucket_chain s1 n b' c').
  { intros b' c' Hc'. apply (bucket_chain_frame s s1 n b' c'); [apply cap_wr|reflexivity|unfold s1; rewrite size_wr; lia| |exact Hc'].
    intros j Hj. split; [apply Hfld1|]. unfold s1. apply it_wr_next_other. intros E. inversion E. lia. }
  destruct (Hch b Hb) as (c & Hbc).
  pose proof (Hfr b c Hbc) as Hbc1.
  destruct Hbc1 as (Hseg1 & Hnd1 & Hmem1 & Hcomp1).
  assert (Hlen : length c < S (size s)).
  { apply Nat.lt_succ_r. apply chain_length_bound; auto. intros i Hi. destruct (Hmem1 i Hi). lia. }
  assert (Hw : walk_end kdef vdef (S (size s)) s1 (Head b) = Some (link_after (Head b) c)).
  { apply walk_end_spec; auto. }
  fold s1. fold b. rewrite Hw. eexists. split; [reflexivity|].
  assert (Hn1 : n < size s1) by (unfold s1; rewrite size_wr; lia).
  split; [rewrite cap_wr; unfold s1; rewrite cap_wr; exact Hcap|].
  split; [rewrite heads_len_wr; unfold s1; rewrite heads_len_wr; exact Hhd|].
  split; [rewrite size_wr; unfold s1; rewrite size_wr; exact Hsz|].
  split.
  - intros i. destruct (it_wr_fields kdef vdef s1 (link_after (Head b) c) (S n) i) as (E1 & E2 & E3).
    destruct (it_wr_fields kdef vdef s (NextOf n) 0 i) as (F1 & F2 & F3). fold s1 in F1, F2, F3.
    rewrite E1, E2, E3, F1, F2, F3. apply Hfld.
  - intros b' Hb'.
    apply (link_end_step s1 n b c).
    + exact Hn1.
    + unfold s1. change (rd_link (wr_link s (NextOf n) 0) (NextOf n) = 0). apply rd_wr_same. simpl. lia.
    + unfold s1. rewrite heads_len_wr, Hhd. exact Hb.
    + unfold s1 at 1. rewrite cap_wr, Hfld1. reflexivity.
    + exact (Hfr b c Hbc).
    + destruct (Nat.eq_dec b' b) as [E|E]; [left; exact E|right].
      destruct (Hch b' Hb') as (c' & Hc'). exists c'. apply Hfr. exact Hc'.
Qed.

Lemma gh_loop_inv s0 m : cap s0 = 2 ^ m -> forall k n s,
  n + k = size s0 -> GInv s0 s n ->
  exists s', gh_loop (seq n k) s = Some s' /\ GInv s0 s' (size s0).
Proof.
  intros Hc. induction k as [|k IH]; intros n s Hnk HG.
  - simpl. exists s. split; [reflexivity|]. replace (size s0) with n by lia. exact HG.
  - simpl. destruct (gh_step_inv s0 s n m Hc HG ltac:(lia)) as (s1 & -> & HG1).
    apply IH; [lia|exact HG1].
Qed.

Definition f3 (x : item) := (ikey x, ihash x, ival x).
Lemma live_of_fields (l l0 : list item) : map f3 l = map f3 l0 -> live_l l = live_l l0.
Proof.
  revert l0; induction l as [|x l IH]; intros [|y l0] E; simpl in E; try discriminate; auto.
  inversion E as [[Ek Eh Ev El]]. unfold HtabProofsInv.live_l in *.
  assert (Hp : live_item x = live_item y) by (unfold live_item; rewrite Eh; reflexivity).
  simpl. rewrite Hp. destruct (live_item y); simpl.
  - f_equal; [unfold HtabProofsInv.kv; rewrite Ek, Ev; reflexivity|]. apply IH. exact El.
  - apply IH. exact El.
Qed.
Lemma hash_ok_of_fields (l l0 : list item) : map f3 l = map f3 l0 -> Forall hash_ok l0 -> Forall hash_ok l.
Proof.
  revert l0; induction l as [|x l IH]; intros [|y l0] E Hf; simpl in E; try discriminate; constructor.
  - inversion E as [[Ek Eh Ev El]]. inversion Hf as [|? ? Hy _]; subst.
    unfold HtabProofsInv.hash_ok, live_item in *. rewrite Ek, Eh. exact Hy.
  - inversion E. inversion Hf; subst. eapply IH; eauto.
Qed.

Lemma generate_hash_inv s0 m :
  cap s0 = 2 ^ m -> heads s0 = zero_heads (cap s0) -> size s0 <= cap s0 -> items_ok s0 ->
  exists s', generate_hash s0 = Some s' /\ Inv s' /\ cap s' = cap s0 /\ size s' = size s0 /\
             live s' = live s0 /\
             (forall i, ikey (it s' i) = ikey (it s0 i) /\ ihash (it s' i) = ihash (it s0 i) /\ ival (it s' i) = ival (it s0 i)).
Proof.
  intros Hc Hhd Hsz Hok.
  assert (HG0 : GInv s0 s0 0).
  { split; [reflexivity|]. split; [rewrite Hhd; apply repeat_length|]. split; [reflexivity|].
    split; [auto|]. intros b Hb. exists []. split; [|split; [constructor|split]].
    - simpl. rewrite Hhd. apply nth_repeat_0.
    - intros i [].
    - intros i Hi. lia. }
  destruct (gh_loop_inv s0 m Hc (size s0) 0 s0 eq_refl HG0) as (s' & Hrun & (Hcap & Hhd' & Hsz' & Hfld & Hch)).
  exists s'. split; [exact Hrun|].
  assert (Hitems : map f3 (items s') = map f3 (items s0)).
  { apply map_ext_nth with (d := @dummy K V kdef vdef); [exact Hsz'|].
    intros i. unfold f3. fold (it s' i). fold (it s0 i). destruct (Hfld i) as (-> & -> & ->). reflexivity. }
  assert (Hlive : live s' = live s0) by (rewrite !live_is_live_l; apply live_of_fields; exact Hitems).
  assert (Hfor : Forall hash_ok (items s')) by (apply (hash_ok_of_fields _ _ Hitems); exact (proj1 Hok)).
  split; [|split; [exact Hcap|split; [exact Hsz'|split; [exact Hlive|exact Hfld]]]].
  split.
  - right. exists m. rewrite Hcap. exact Hc.
  - rewrite Hhd', Hcap. reflexivity.
  - rewrite Hsz', Hcap. exact Hsz.
  - split; [exact Hfor|]. rewrite Hlive. exact (proj2 Hok).
  - intros b Hb. rewrite Hcap in Hb. rewrite Hsz'. apply Hch. exact Hb.
Qed.

(* ---------- resize: drop removed items, rebuild ---------- *)
Definition no_dead (s : ht) : Prop := Forall (fun x : item => live_item x = true) (items s).

Lemma live_filter (its : list item) : live_l (filter (@live_item K V) its) = live_l its.
Proof. unfold HtabProofsInv.live_l. rewrite filter_idem. reflexivity. Qed.

Lemma no_dead_fields s s' :
  size s' = size s ->
  (forall i, ikey (it s' i) = ikey (it s i) /\ ihash (it s' i) = ihash (it s i) /\ ival (it s' i) = ival (it s i)) ->
  no_dead s -> no_dead s'.
Proof.
  intros Hsz Hfld Hnd. unfold no_dead in *. rewrite Forall_forall in *. intros x Hx.
  destruct (In_nth_lt _ x (@dummy K V kdef vdef) Hx) as (j & Hj & E). fold (it s' j) in E.
  rewrite <- E. unfold live_item. destruct (Hfld j) as (_ & -> & _). fold (live_item (it s j)).
  apply Hnd. apply nth_In. unfold size in Hsz. lia.
Qed.

Lemma resize_inv n s :
  items_ok s -> 1 <= n -> length (live s) <= n ->
  exists s', resize n s = Some s' /\ Inv s' /\ live s' = live s /\ cap s' = alloc_cap n /\
             size s' = length (live s) /\ no_dead s'.
Proof.
  intros HI Hn Hlen. unfold HtabModel.resize.
  destruct (alloc_cap_spec n Hn) as ((m & Hm) & Hge).
  set (s0 := fresh n (filter (@live_item K V) (items s))).
  assert (Hsz0 : size s0 = length (live s)).
  { unfold size, s0, fresh, live. simpl. rewrite map_length. reflexivity. }
  destruct (generate_hash_inv s0 m) as (s' & Hrun & HI' & Hcap & Hsz & Hlive & Hfld).
  - exact Hm.
  - reflexivity.
  - rewrite Hsz0. unfold s0, fresh. simpl. lia.
  - destruct HI as (Hf & Hnd). split.
    + unfold s0, fresh. simpl. apply Forall_filter. exact Hf.
    + replace (live s0) with (live s); [exact Hnd|]. rewrite !live_is_live_l. unfold s0, fresh. simpl.
      symmetry. apply live_filter.
  - exists s'. split; [exact Hrun|]. split; [exact HI'|].
    split; [rewrite Hlive, !live_is_live_l; unfold s0, fresh; simpl; apply live_filter|].
    split; [rewrite Hcap; reflexivity|]. split; [rewrite Hsz; exact Hsz0|].
    apply (no_dead_fields s0 s' Hsz Hfld). unfold no_dead, s0, fresh. simpl.
    apply Forall_forall. intros x Hx. apply filter_In in Hx. tauto.
Qed.

End Ops.
