(* LedgerProofs.v -- C16: generic facts of the ownership ledger over the SeqModel heap:
   what the primitives do to liveness, how the ledger invariant survives an update of one or two
   objects, and that destroying the pool leaves no live block. *)
From Coq Require Import NArith List Arith Bool Lia.
From Qv Require Import SeqModel SeqProofs LedgerModel.
Import ListNotations.

Lemma bind_ok : forall T U (r : res T) (f : T -> res U) v, bind r f = Ok v -> exists t, r = Ok t /\ f t = Ok v.
Proof. intros T U [t|e] f v H; cbn in H; [eauto|discriminate]. Qed.

Section LedgerFacts.
Context {A : Type} (junk : A).
Notation heap := (@heap A).
Notation world := (@world A).

(* ---------- liveness under the primitives ---------- *)
Lemma al_halloc : forall (h : heap) n x, al (halloc junk h n) x = (x =? next h) || al h x.
Proof.
  intros h n x. unfold al. destruct (Nat.eqb_spec x (next h)) as [->|Hne].
  - now rewrite halloc_new.
  - now rewrite halloc_old.
Qed.

Lemma free_inv : forall (h h' : heap) p, free h p = Ok h' ->
  next h' = next h /\ (forall x, al h' x = al h x && negb (pis p x)) /\ (forall b, p = Some b -> al h b = true).
Proof.
  intros h h' p. unfold free. destruct p as [b|].
  - destruct (cells_of h b) as [c|] eqn:E; [|discriminate]. intros H. injection H as <-. cbn [next].
    split; [reflexivity|]. split.
    + intros x. unfold al, pis. cbn [cells_of]. unfold upd. rewrite (Nat.eqb_sym b x).
      destruct (Nat.eqb_spec x b) as [->|_]; [now rewrite E|]. now rewrite andb_true_r.
    + intros b' Hb. injection Hb as <-. unfold al. now rewrite E.
  - intros H. injection H as <-. split; [reflexivity|]. split; [|discriminate].
    intros x. cbn. now rewrite andb_true_r.
Qed.

Lemma wr_range_inv : forall (h h' : heap) p off l, wr_range h p off l = Ok h' ->
  next h' = next h /\ forall x, al h' x = al h x.
Proof.
  intros h h' p off l. unfold wr_range. destruct l as [|a l].
  - intros H. injection H as <-. auto.
  - destruct p as [b|]; [|discriminate]. destruct (cells_of h b) as [c|] eqn:E; [|discriminate].
    destruct (off + length (a :: l) <=? length c); [|discriminate].
    intros H. injection H as <-. cbn [next]. split; [reflexivity|].
    intros x. unfold al. cbn [cells_of]. unfold upd. destruct (Nat.eqb_spec x b) as [->|]; [now rewrite E|reflexivity].
Qed.

Lemma wr1_inv : forall (h h' : heap) p off a, wr1 h p off a = Ok h' -> next h' = next h /\ forall x, al h' x = al h x.
Proof. intros h h' p off a. apply wr_range_inv. Qed.

Lemma copy_in_inv : forall (h h' : heap) dst doff s n, copy_in h dst doff s n = Ok h' ->
  next h' = next h /\ forall x, al h' x = al h x.
Proof.
  intros h h' dst doff s n H. unfold copy_in in H. apply bind_ok in H as (l & _ & H). now apply wr_range_inv in H.
Qed.

Lemma mcopy_inv : forall (h h' : heap) dst doff sp soff n, mcopy h dst doff sp soff n = Ok h' ->
  next h' = next h /\ forall x, al h' x = al h x.
Proof. intros h h' dst doff sp soff n. apply copy_in_inv. Qed.

(* ---------- the invariant under updates of the pool ---------- *)
Lemma li_lt : forall (w : world) b, ledger_inv w -> al (hp w) b = true -> b < next (hp w).
Proof.
  intros w b Hl Hb. destruct (Nat.lt_ge_cases b (next (hp w))) as [|Hge]; [assumption|].
  rewrite (li_fresh w Hl b Hge) in Hb. discriminate.
Qed.

Lemma pis_true : forall p b, pis p b = true <-> p = Some b.
Proof.
  intros [c|] b; cbn; [|split; discriminate]. rewrite Nat.eqb_eq. split; [now intros ->|now intros [= ->]].
Qed.

Lemma ledger_inv_ext : forall (w w' : world), next (hp w') = next (hp w) -> (forall x, al (hp w') x = al (hp w) x) ->
  (forall k, blk (ob w' k) = blk (ob w k)) -> ledger_inv w -> ledger_inv w'.
Proof.
  intros w w' Hn Ha Hb [F O I N]. split.
  - intros b. rewrite Hn, Ha. apply F.
  - intros k b. rewrite Hb, Ha. apply O.
  - intros k k' b. rewrite !Hb. apply I.
  - intros b. rewrite Ha. intros H. destruct (N b H) as (k & Hk). exists k. now rewrite Hb.
Qed.

Lemma ledger_inplace : forall (w : world) (h' : heap) i o', ledger_inv w -> next h' = next (hp w) ->
  (forall x, al h' x = al (hp w) x) -> blk o' = blk (ob w i) -> ledger_inv (mkW h' (upd (ob w) i o')).
Proof.
  intros w h' i o' Hl Hn Ha Hb. apply (ledger_inv_ext w); cbn [hp ob]; try assumption.
  intros k. unfold upd. destruct (Nat.eqb_spec k i) as [->|]; [assumption|reflexivity].
Qed.


(* object i is replaced by o' whose block is its old one, or one that was not live before;
   the old block of i is released unless o' keeps it *)
Lemma ledger_set : forall (w : world) i (h' : heap) o',
  ledger_inv w ->
  next (hp w) <= next h' ->
  (forall x, al h' x = pis (blk o') x || (al (hp w) x && negb (pis (blk (ob w i)) x))) ->
  (forall b, blk o' = Some b -> b < next h' /\ (al (hp w) b = false \/ blk (ob w i) = Some b)) ->
  ledger_inv (mkW h' (upd (ob w) i o')).
Proof.
  intros w i h' o' Hl Hn Ha Hnew. pose proof Hl as [F O I N]. split; cbn [hp ob].
  - intros b Hb. rewrite Ha. apply orb_false_iff. split.
    + destruct (pis (blk o') b) eqn:E; [|reflexivity]. apply pis_true in E. destruct (Hnew b E). lia.
    + rewrite F by lia. reflexivity.
  - intros k b. unfold upd. destruct (Nat.eqb_spec k i) as [->|Hk]; intros Hb; rewrite Ha.
    + apply pis_true in Hb. now rewrite Hb.
    + rewrite (O k b Hb). destruct (pis (blk (ob w i)) b) eqn:E; [|now rewrite orb_true_r].
      apply pis_true in E. elim Hk. exact (I k i b Hb E).
  - intros k k' b. unfold upd.
    destruct (Nat.eqb_spec k i) as [->|Hk]; destruct (Nat.eqb_spec k' i) as [->|Hk']; intros Hb Hb'; try reflexivity.
    + destruct (Hnew b Hb) as (_ & [Hd|Ho]); [rewrite (O k' b Hb') in Hd; discriminate|elim Hk'; exact (I k' i b Hb' Ho)].
    + destruct (Hnew b Hb') as (_ & [Hd|Ho]); [rewrite (O k b Hb) in Hd; discriminate|exact (I k i b Hb Ho)].
    + exact (I k k' b Hb Hb').
  - intros b. rewrite Ha. intros H. apply orb_true_iff in H as [H|H].
    + exists i. unfold upd. rewrite Nat.eqb_refl. now apply pis_true.
    + apply andb_true_iff in H as (H1 & H2). destruct (N b H1) as (k & Hk). exists k. unfold upd.
      destruct (Nat.eqb_spec k i) as [->|]; [|assumption].
      apply pis_true in Hk. rewrite Hk in H2. discriminate.
Qed.

(* objects i and j (i <> j) are replaced; j's new state is empty *)
Lemma ledger_set2 : forall (w : world) i j (h' : heap) oi',
  ledger_inv w -> i <> j ->
  next (hp w) <= next h' ->
  (forall x, al h' x = pis (blk oi') x || (al (hp w) x && negb (pis (blk (ob w i)) x) && negb (pis (blk (ob w j)) x))) ->
  (forall b, blk oi' = Some b -> b < next h' /\ (al (hp w) b = false \/ blk (ob w i) = Some b \/ blk (ob w j) = Some b)) ->
  ledger_inv (mkW h' (upd (upd (ob w) i oi') j null_obj)).
Proof.
  intros w i j h' oi' Hl Hij Hn Ha Hnew. pose proof Hl as [F O I N].
  assert (Hget : forall k b, blk (upd (upd (ob w) i oi') j null_obj k) = Some b ->
            k <> j /\ ((k = i /\ blk oi' = Some b) \/ (k <> i /\ blk (ob w k) = Some b))).
  { intros k b. unfold upd. destruct (Nat.eqb_spec k j) as [->|Hkj]; [discriminate|].
    destruct (Nat.eqb_spec k i) as [->|Hki]; auto. }
  split; cbn [hp ob].
  - intros b Hb. rewrite Ha. apply orb_false_iff. split.
    + destruct (pis (blk oi') b) eqn:E; [|reflexivity]. apply pis_true in E. destruct (Hnew b E). lia.
    + rewrite F by lia. reflexivity.
  - intros k b Hb. apply Hget in Hb as (Hkj & [(-> & Hb)|(Hki & Hb)]); rewrite Ha.
    + apply pis_true in Hb. now rewrite Hb.
    + rewrite (O k b Hb).
      destruct (pis (blk (ob w i)) b) eqn:E1; [apply pis_true in E1; elim Hki; exact (I k i b Hb E1)|].
      destruct (pis (blk (ob w j)) b) eqn:E2; [apply pis_true in E2; elim Hkj; exact (I k j b Hb E2)|].
      now rewrite orb_true_r.
  - intros k k' b Hb Hb'. apply Hget in Hb as (Hkj & Hb). apply Hget in Hb' as (Hk'j & Hb').
    destruct Hb as [(-> & Hb)|(Hki & Hb)]; destruct Hb' as [(-> & Hb')|(Hk'i & Hb')]; try reflexivity.
    + destruct (Hnew b Hb) as (_ & [Hd|[Ho|Ho]]).
      * rewrite (O k' b Hb') in Hd. discriminate.
      * elim Hk'i. exact (I k' i b Hb' Ho).
      * elim Hk'j. exact (I k' j b Hb' Ho).
    + destruct (Hnew b Hb') as (_ & [Hd|[Ho|Ho]]).
      * rewrite (O k b Hb) in Hd. discriminate.
      * elim Hki. exact (I k i b Hb Ho).
      * elim Hkj. exact (I k j b Hb Ho).
    + exact (I k k' b Hb Hb').
  - intros b. rewrite Ha. intros H. apply orb_true_iff in H as [H|H].
    + exists i. unfold upd. destruct (Nat.eqb_spec i j) as [|_]; [contradiction|]. rewrite Nat.eqb_refl. now apply pis_true.
    + apply andb_true_iff in H as (H & H3). apply andb_true_iff in H as (H1 & H2).
      destruct (N b H1) as (k & Hk). exists k. unfold upd.
      destruct (Nat.eqb_spec k j) as [->|_]; [apply pis_true in Hk; rewrite Hk in H3; discriminate|].
      destruct (Nat.eqb_spec k i) as [->|_]; [apply pis_true in Hk; rewrite Hk in H2; discriminate|assumption].
Qed.

Lemma ledger_inv0 : ledger_inv (@world0 A).
Proof. split; cbn; try reflexivity; try discriminate. Qed.

(* ---------- destruction of the pool ---------- *)
Lemma destroy_obj_ok : forall (w : world) k, ledger_inv w ->
  exists w', destroy_obj w k = Ok w' /\ ledger_inv w' /\ blk (ob w' k) = None /\
    (forall k', k' <> k -> ob w' k' = ob w k') /\ next (hp w') = next (hp w).
Proof.
  intros w k Hl. unfold destroy_obj.
  destruct (free (hp w) (blk (ob w k))) as [h|e] eqn:E.
  - cbn [bind]. eexists. split; [reflexivity|]. apply free_inv in E as (Hn & Ha & _).
    split; [|split; [|split]].
    + apply ledger_set.
      * assumption.
      * lia.
      * intros x. cbn [blk null_obj pis]. rewrite Ha. reflexivity.
      * cbn. discriminate.
    + cbn. unfold upd. now rewrite Nat.eqb_refl.
    + intros k' Hk'. cbn. now apply upd_other.
    + exact Hn.
  - exfalso. unfold free in E. destruct (blk (ob w k)) as [b|] eqn:Hb; [|discriminate].
    pose proof (li_owned_live w Hl k b Hb) as Hal. unfold al in Hal. destruct (cells_of (hp w) b); discriminate.
Qed.

Lemma destroy_pool_ok : forall ks (w : world), ledger_inv w ->
  exists w', destroy_pool ks w = Ok w' /\ ledger_inv w' /\ (forall k, In k ks -> blk (ob w' k) = None) /\
    (forall k, blk (ob w k) = None -> blk (ob w' k) = None) /\ next (hp w') = next (hp w).
Proof.
  induction ks as [|k r IH]; intros w Hl; cbn [destroy_pool].
  - exists w. split; [reflexivity|]. split; [assumption|]. split; [intros k []|]. split; [auto|reflexivity].
  - destruct (destroy_obj_ok w k Hl) as (w1 & E1 & Hl1 & Hk1 & Ho1 & Hn1). rewrite E1. cbn [bind].
    destruct (IH w1 Hl1) as (w' & E & Hl' & Hin & Hkeep & Hn). exists w'. split; [exact E|]. split; [exact Hl'|].
    split; [|split].
    + intros k' [<-|Hk']; [now apply Hkeep|now apply Hin].
    + intros k' Hk'. apply Hkeep. destruct (Nat.eq_dec k' k) as [->|Hne]; [assumption|]. now rewrite Ho1.
    + lia.
Qed.

Lemma no_owner_no_live : forall (w : world), ledger_inv w -> (forall k, blk (ob w k) = None) -> live_blocks (hp w) = [].
Proof.
  intros w Hl Hnone. unfold live_blocks.
  assert (H : forall l, filter (al (hp w)) l = []).
  { induction l as [|b l IH]; [reflexivity|]. cbn. destruct (al (hp w) b) eqn:E; [|exact IH].
    destruct (li_no_orphan w Hl b E) as (k & Hk). rewrite Hnone in Hk. discriminate. }
  apply H.
Qed.

(* net allocation zero: after destroying every object of a pool that holds all the owners, no block is live *)
Theorem destroy_all_empty : forall n (w : world), ledger_inv w -> pool_within n w ->
  exists w', destroy_all n w = Ok w' /\ live_blocks (hp w') = [] /\ (forall b, al (hp w') b = false) /\
    next (hp w') = next (hp w).
Proof.
  intros n w Hl Hp. destruct (destroy_pool_ok (seq 0 n) w Hl) as (w' & E & Hl' & Hin & Hkeep & Hn).
  exists w'. split; [exact E|].
  assert (Hnone : forall k, blk (ob w' k) = None).
  { intros k. destruct (Nat.lt_ge_cases k n) as [Hlt|Hge].
    - apply Hin. apply in_seq. lia.
    - apply Hkeep. now apply Hp. }
  split; [now apply no_owner_no_live|]. split; [|exact Hn].
  intros b. destruct (al (hp w') b) eqn:E'; [|reflexivity].
  destruct (li_no_orphan w' Hl' b E') as (k & Hk). rewrite Hnone in Hk. discriminate.
Qed.

(* the live blocks are exactly the blocks of the objects, each listed once *)
Lemma live_blocks_spec : forall (w : world) b, ledger_inv w -> (In b (live_blocks (hp w)) <-> exists k, blk (ob w k) = Some b).
Proof.
  intros w b Hl. unfold live_blocks. rewrite filter_In, in_seq. split.
  - intros (_ & Hb). now apply (li_no_orphan w Hl).
  - intros (k & Hk). pose proof (li_owned_live w Hl k b Hk) as Hb. split; [|exact Hb].
    pose proof (li_lt w b Hl Hb). lia.
Qed.

End LedgerFacts.
