(* HtabProofsInv.v -- C13: the representation invariant, bucket arithmetic, the
   "link a new last member" step shared by insert and generateHash, find under
   the invariant, and the abstraction lemmas (live entries vs association list). *)
From Coq Require Import List NArith Arith Bool Lia ZifyNat ZifyN.
From Qv Require Import HtabModel HtabProofsBase.
Import ListNotations.

(* ---------- bucket arithmetic ---------- *)
Lemma bucket_lt n h : bucket (2 ^ n) h < 2 ^ n.
Proof.
  unfold bucket.
  assert (E : N.of_nat (2 ^ n) = (2 ^ N.of_nat n)%N).
  { rewrite Nat2N.inj_pow. reflexivity. }
  rewrite E, <- N.ones_equiv, N.land_ones.
  assert (Hlt : (h mod 2 ^ N.of_nat n < 2 ^ N.of_nat n)%N).
  { apply N.mod_lt. apply N.pow_nonzero. discriminate. }
  assert (Hlt' : N.to_nat (h mod 2 ^ N.of_nat n) < N.to_nat (2 ^ N.of_nat n)) by lia.
  rewrite N2Nat.inj_pow in Hlt'. rewrite Nat2N.id in Hlt'. exact Hlt'.
Qed.
Lemma bucket_zero c : bucket c 0 = 0.
Proof. unfold bucket. rewrite N.land_0_l. reflexivity. Qed.

Lemma NoDup_app_snoc {A} (c : list A) n : NoDup c -> ~ In n c -> NoDup (c ++ [n]).
Proof.
  induction c as [|a c IH]; intros Hnd Hn; simpl.
  - constructor; [intros []|constructor].
  - inversion Hnd as [|? ? Ha Hc]; subst. constructor.
    + intros Hin. apply in_app_or in Hin. destruct Hin as [Hin|[<-|[]]]; [contradiction|].
      apply Hn. left. reflexivity.
    + apply IH; auto. intros Hin. apply Hn. right. exact Hin.
Qed.

Lemma nth_firstn_lt {A} (l : list A) i j d : j < i -> nth j (firstn i l) d = nth j l d.
Proof.
  revert i j; induction l as [|a l IH]; intros [|i] [|j] Hj; simpl; auto; try lia. apply IH. lia.
Qed.

Lemma NoDup_map_filter_nth {A B} (f : A -> B) (p : A -> bool) (l : list A) d i j :
  NoDup (map f (filter p l)) -> i < length l -> j < length l ->
  p (nth i l d) = true -> p (nth j l d) = true -> f (nth i l d) = f (nth j l d) -> i = j.
Proof.
  revert i j; induction l as [|a l IH]; intros i j Hnd Hi Hj Hpi Hpj Hf; simpl in *; [lia|].
  assert (Hmem : forall m, m < length l -> p (nth m l d) = true -> In (f (nth m l d)) (map f (filter p l))).
  { intros m Hm Hp. apply in_map. apply filter_In. split; [apply nth_In; exact Hm|exact Hp]. }
  destruct i as [|i], j as [|j]; auto.
  - rewrite Hpi in Hnd. simpl in Hnd. inversion Hnd as [|? ? Hni _]; subst. exfalso. apply Hni.
    rewrite Hf. apply Hmem; [lia|exact Hpj].
  - rewrite Hpj in Hnd. simpl in Hnd. inversion Hnd as [|? ? Hni _]; subst. exfalso. apply Hni.
    rewrite <- Hf. apply Hmem; [lia|exact Hpi].
  - f_equal. apply IH; auto; try lia. destruct (p a); [inversion Hnd; auto|exact Hnd].
Qed.

Section Inv.
Context {K V : Type}.
Variable keqb : K -> K -> bool.
Variable H : K -> N.
Variable kdef : K.
Variable vdef : V.
Local Set Default Proof Using "All".

Notation ht := (ht K V).
Notation item := (item K V).
Notation it := (@it K V kdef vdef).
Notation rd_link := (@rd_link K V kdef vdef).
Notation wr_link := (@wr_link K V kdef vdef).
Notation Seg := (@Seg K V kdef vdef).
Notation find_key := (@find_key K V keqb kdef vdef).
Notation link_ok := (@link_ok K V).

Definition live_at (s : ht) (i : nat) : Prop := ihash (it s i) <> 0%N.

(* the chain of bucket b, as far as the items below n are concerned *)
Definition bucket_chain (s : ht) (n b : nat) (c : list nat) : Prop :=
  Seg s (nth b (heads s) 0) c 0 /\ NoDup c /\
  (forall i, In i c -> i < n /\ bucket (cap s) (ihash (it s i)) = b) /\
  (forall i, i < n -> live_at s i -> bucket (cap s) (ihash (it s i)) = b -> In i c).

Definition hash_ok (x : item) : Prop := live_item x = true -> ihash x = H (ikey x).
(* every live item stores the hash of its key; live keys are pairwise distinct *)
Definition items_ok (s : ht) : Prop :=
  Forall hash_ok (items s) /\ NoDup (map fst (live s)).
Definition items_ok_ix (s : ht) : Prop :=
  (forall i, i < size s -> live_at s i -> ihash (it s i) = H (ikey (it s i))) /\
  (forall i j, i < size s -> j < size s -> live_at s i -> live_at s j ->
               ikey (it s i) = ikey (it s j) -> i = j).

Record Inv (s : ht) : Prop := {
  inv_cap : cap s = 0 \/ exists n, cap s = 2 ^ n;
  inv_heads : length (heads s) = cap s;
  inv_size : size s <= cap s;
  inv_items : items_ok s;
  inv_chains : forall b, b < cap s -> exists c, bucket_chain s (size s) b c }.

Lemma Inv_empty : Inv (@empty_ht K V).
Proof.
  split; simpl; auto.
  - split; [constructor|constructor].
  - intros b Hb. lia.
Qed.

Lemma Inv_bucket_lt s h : Inv s -> 0 < cap s -> bucket (cap s) h < cap s.
Proof.
  intros HI Hc. destruct (inv_cap s HI) as [E|(n & E)]; [lia|]. rewrite E. apply bucket_lt.
Qed.

Lemma live_item_iff (x : item) : live_item x = true <-> ihash x <> 0%N.
Proof. unfold live_item. rewrite negb_true_iff, N.eqb_neq. reflexivity. Qed.

Lemma items_ok_idx s : items_ok s -> items_ok_ix s.
Proof.
  intros (Hh & Hnd). split.
  - intros i Hi Hl. rewrite Forall_forall in Hh. apply Hh.
    + apply nth_In. exact Hi.
    + apply live_item_iff. exact Hl.
  - intros i j Hi Hj Hli Hlj Hk.
    unfold live in Hnd. rewrite map_map in Hnd. simpl in Hnd.
    eapply (NoDup_map_filter_nth (fun x : item => ikey x) (@live_item K V)); eauto;
      apply live_item_iff; assumption.
Qed.

(* ---------- frame for a whole bucket chain ---------- *)
Lemma bucket_chain_frame s s' n b c :
  cap s' = cap s -> nth b (heads s') 0 = nth b (heads s) 0 -> n <= size s' ->
  (forall i, i < n -> ihash (it s' i) = ihash (it s i) /\ inext (it s' i) = inext (it s i)) ->
  bucket_chain s n b c -> bucket_chain s' n b c.
Proof.
  intros Hcap Hhd Hn Hf (Hseg & Hnd & Hmem & Hcomp).
  split; [|split; [exact Hnd|split]].
  - rewrite Hhd. eapply Seg_frame; [|exact Hseg].
    intros i Hi _. destruct (Hmem i Hi) as (Hin & _). split; [lia|]. apply Hf. exact Hin.
  - intros i Hi. destruct (Hmem i Hi) as (Hin & Hb). split; [exact Hin|].
    rewrite Hcap. destruct (Hf i Hin) as (-> & _). exact Hb.
  - intros i Hi Hl Hb. apply Hcomp; auto.
    + unfold live_at in *. destruct (Hf i Hi) as (E & _). rewrite <- E. exact Hl.
    + destruct (Hf i Hi) as (E & _). rewrite <- E, <- Hcap. exact Hb.
Qed.

(* ---------- linking item n at the end of the chain of its bucket ---------- *)
Lemma link_end_step s n b c :
  n < size s -> inext (it s n) = 0 -> b < length (heads s) ->
  bucket (cap s) (ihash (it s n)) = b ->
  bucket_chain s n b c ->
  forall b', (b' = b \/ exists c', bucket_chain s n b' c') ->
  exists c', bucket_chain (wr_link s (link_after (Head b) c) (S n)) (S n) b' c'.
Proof.
  intros Hn Hnext Hb Hbk (Hseg & Hnd & Hmem & Hcomp) b' Hb'.
  set (L := link_after (Head b) c). set (s2 := wr_link s L (S n)).
  assert (HLn : L <> NextOf n).
  { unfold L. destruct c as [|j c']; [discriminate|].
    destruct (link_after_in (Head b) (j :: c') ltac:(discriminate)) as (p & Hp & ->).
    intros E. inversion E; subst. destruct (Hmem n Hp) as (Hlt & _). lia. }
  assert (Hfld : forall i, ihash (it s2 i) = ihash (it s i)).
  { intros i. apply (it_wr_fields kdef vdef s L (S n) i). }
  destruct (Nat.eq_dec b' b) as [->|Hne].
  - exists (c ++ [n]). split; [|split; [|split]].
    + apply Seg_app. exists (S n). split.
      * change (nth b (heads s2) 0) with (rd_link s2 (Head b)). unfold s2, L.
        apply Seg_wr with (m := 0); auto. intros p Hp. discriminate.
      * simpl. split; [reflexivity|]. split; [unfold s2; rewrite size_wr; exact Hn|].
        unfold s2. rewrite it_wr_next_other by exact HLn. exact Hnext.
    + apply NoDup_app_snoc; auto. intros Hin. destruct (Hmem n Hin). lia.
    + intros i Hi. apply in_app_or in Hi. unfold s2 at 1. rewrite cap_wr, Hfld. destruct Hi as [Hi|[<-|[]]].
      * destruct (Hmem i Hi). split; [lia|auto].
      * split; [lia|exact Hbk].
    + intros i Hi Hl Hbi. unfold live_at in Hl. rewrite Hfld in Hl. unfold s2 in Hbi. rewrite cap_wr in Hbi.
      fold s2 in Hbi. rewrite Hfld in Hbi. apply in_or_app.
      destruct (Nat.eq_dec i n) as [->|Hin]; [right; left; reflexivity|].
      left. apply Hcomp; auto. lia.
  - destruct Hb' as [E|(c' & Hseg' & Hnd' & Hmem' & Hcomp')]; [contradiction|].
    exists c'. split; [|split; [exact Hnd'|split]].
    + assert (Hhd : nth b' (heads s2) 0 = nth b' (heads s) 0).
      { change (rd_link s2 (Head b') = rd_link s (Head b')). unfold s2. apply rd_wr_other.
        unfold L. destruct c as [|j c0]; [simpl; intros E; inversion E; auto|].
        destruct (link_after_in (Head b) (j :: c0) ltac:(discriminate)) as (p & _ & ->). discriminate. }
      rewrite Hhd. eapply Seg_frame; [|exact Hseg'].
      intros i Hi Hlt. split; [unfold s2; rewrite size_wr; exact Hlt|].
      unfold s2. apply it_wr_next_other. unfold L. destruct c as [|j c0]; [discriminate|].
      destruct (link_after_in (Head b) (j :: c0) ltac:(discriminate)) as (p & Hp & ->).
      intros E. inversion E; subst. destruct (Hmem i Hp) as (_ & B1). destruct (Hmem' i Hi) as (_ & B2). congruence.
    + intros i Hi. destruct (Hmem' i Hi). unfold s2 at 1. rewrite cap_wr, Hfld. split; [lia|auto].
    + intros i Hi Hl Hbi. unfold live_at in Hl. rewrite Hfld in Hl. unfold s2 in Hbi. rewrite cap_wr in Hbi.
      fold s2 in Hbi. rewrite Hfld in Hbi.
      assert (i <> n) by (intros ->; congruence).
      apply Hcomp'; auto. lia.
Qed.

(* ---------- find under the invariant ---------- *)
Hypothesis keqb_spec : forall a b, keqb a b = true <-> a = b.
Hypothesis H_nz : forall k, H k <> 0%N.

Lemma matches_iff s k i :
  live_at s i -> ihash (it s i) = H (ikey (it s i)) ->
  (matches keqb kdef vdef s k (H k) i <-> ikey (it s i) = k).
Proof.
  intros Hl Hh. unfold matches. rewrite andb_true_iff, N.eqb_eq, keqb_spec. split.
  - intros (_ & E). exact E.
  - intros E. split; [rewrite Hh, E; reflexivity|exact E].
Qed.

Lemma find_key_inv s k :
  Inv s -> 0 < cap s ->
  let b := bucket (cap s) (H k) in
  exists c, bucket_chain s (size s) b c /\
  ((exists pre i post, c = pre ++ i :: post /\ i < size s /\ live_at s i /\ ikey (it s i) = k /\
        find_key s k (H k) = Some (link_after (Head b) pre, Some i))
   \/ ((forall j, j < size s -> live_at s j -> ikey (it s j) <> k) /\
       find_key s k (H k) = Some (link_after (Head b) c, None))).
Proof.
  intros HI Hc b.
  assert (Hb : b < cap s) by (apply Inv_bucket_lt; auto).
  destruct (inv_chains s HI b Hb) as (c & Hbc). exists c. split; [exact Hbc|].
  destruct Hbc as (Hseg & Hnd & Hmem & Hcomp).
  destruct (items_ok_idx s (inv_items s HI)) as (Hhash & Hkeys).
  assert (Hlen : length c < S (size s)).
  { apply Nat.lt_succ_r. apply chain_length_bound; auto. intros i Hi. apply Hmem. exact Hi. }
  destruct (find_spec keqb kdef vdef c (S (size s)) s (Head b) k (H k) Hseg Hlen)
    as [(pre & i & post & -> & Hm & Hpre & Hf)|(Hno & Hf)].
  - left. exists pre, i, post.
    assert (Hi : In i (pre ++ i :: post)) by (apply in_or_app; right; left; reflexivity).
    destruct (Hmem i Hi) as (Hlt & _).
    assert (Hl : live_at s i).
    { unfold live_at. unfold matches in Hm. apply andb_true_iff in Hm. destruct Hm as (Hm & _).
      apply N.eqb_eq in Hm. rewrite Hm. apply H_nz. }
    repeat split; auto. apply (matches_iff s k i Hl (Hhash i Hlt Hl)). exact Hm.
  - right. split; [|exact Hf].
    intros j Hj Hl Hk. apply (Hno j).
    + apply Hcomp; auto. rewrite (Hhash j Hj Hl), Hk. reflexivity.
    + apply matches_iff; auto.
Qed.

(* ---------- abstraction lemmas on item lists ---------- *)
Definition kv (x : item) : K * V := (ikey x, ival x).
Definition live_l (its : list item) : list (K * V) := map kv (filter (@live_item K V) its).
Lemma live_is_live_l (s : ht) : live s = live_l (items s).
Proof. reflexivity. Qed.
Lemma live_l_app a b : live_l (a ++ b) = live_l a ++ live_l b.
Proof. unfold live_l. rewrite filter_app, map_app. reflexivity. Qed.

Definition no_key (its : list item) (k : K) : Prop :=
  forall y, In y its -> live_item y = true -> ikey y <> k.

Lemma keqb_refl k : keqb k k = true.
Proof. apply keqb_spec. reflexivity. Qed.
Lemma keqb_neq a b : a <> b -> keqb a b = false.
Proof. intros Hn. destruct (keqb a b) eqn:E; auto. apply keqb_spec in E. contradiction. Qed.

Lemma sp_get_none its k : no_key its k -> sp_get keqb (live_l its) k = None.
Proof.
  induction its as [|y its IH]; intros Hn; [reflexivity|].
  unfold live_l. simpl. destruct (live_item y) eqn:E.
  - simpl. rewrite keqb_neq by (apply Hn; [left; reflexivity|exact E]).
    apply IH. intros z Hz. apply Hn. right. exact Hz.
  - apply IH. intros z Hz. apply Hn. right. exact Hz.
Qed.
Lemma sp_get_found a x b k :
  no_key a k -> live_item x = true -> ikey x = k -> sp_get keqb (live_l (a ++ x :: b)) k = Some (ival x).
Proof.
  induction a as [|y a IH]; intros Hn Hx Hk.
  - unfold live_l. simpl. rewrite Hx. simpl. rewrite Hk, keqb_refl. reflexivity.
  - unfold live_l. simpl. destruct (live_item y) eqn:E.
    + simpl. rewrite keqb_neq by (apply Hn; [left; reflexivity|exact E]).
      apply IH; auto. intros z Hz. apply Hn. right. exact Hz.
    + apply IH; auto. intros z Hz. apply Hn. right. exact Hz.
Qed.
Lemma sp_index_none its k : no_key its k -> sp_index keqb (live_l its) k = None.
Proof.
  induction its as [|y its IH]; intros Hn; [reflexivity|].
  unfold live_l. simpl. destruct (live_item y) eqn:E.
  - simpl. rewrite keqb_neq by (apply Hn; [left; reflexivity|exact E]).
    fold (live_l its). rewrite IH; [reflexivity|]. intros z Hz. apply Hn. right. exact Hz.
  - apply IH. intros z Hz. apply Hn. right. exact Hz.
Qed.
Lemma sp_index_found a x b k :
  no_key a k -> live_item x = true -> ikey x = k ->
  sp_index keqb (live_l (a ++ x :: b)) k = Some (length (live_l a)).
Proof.
  induction a as [|y a IH]; intros Hn Hx Hk.
  - unfold live_l. simpl. rewrite Hx. simpl. rewrite Hk, keqb_refl. reflexivity.
  - unfold live_l. simpl. destruct (live_item y) eqn:E.
    + simpl. rewrite keqb_neq by (apply Hn; [left; reflexivity|exact E]).
      fold (live_l (a ++ x :: b)). rewrite IH; auto. intros z Hz. apply Hn. right. exact Hz.
    + apply IH; auto. intros z Hz. apply Hn. right. exact Hz.
Qed.
Lemma sp_put_fresh its k v x :
  no_key its k -> live_item x = true -> kv x = (k, v) ->
  sp_put keqb (live_l its) k v = live_l (its ++ [x]).
Proof.
  intros Hn Hx Hkv. rewrite live_l_app. unfold live_l at 3. simpl. rewrite Hx. simpl. rewrite Hkv.
  induction its as [|y its IH]; [reflexivity|].
  unfold live_l. simpl. destruct (live_item y) eqn:E.
  - simpl. unfold kv at 1. rewrite keqb_neq by (apply Hn; [left; reflexivity|exact E]).
    f_equal. apply IH. intros z Hz. apply Hn. right. exact Hz.
  - apply IH. intros z Hz. apply Hn. right. exact Hz.
Qed.
Lemma sp_put_found a x x' b k v :
  no_key a k -> live_item x = true -> ikey x = k -> live_item x' = true -> kv x' = (k, v) ->
  sp_put keqb (live_l (a ++ x :: b)) k v = live_l (a ++ x' :: b).
Proof.
  induction a as [|y a IH]; intros Hn Hx Hk Hx' Hkv.
  - unfold live_l. simpl. rewrite Hx, Hx'. simpl. unfold kv at 1. rewrite Hk, keqb_refl. rewrite Hkv. reflexivity.
  - unfold live_l. simpl. destruct (live_item y) eqn:E.
    + simpl. unfold kv at 1. rewrite keqb_neq by (apply Hn; [left; reflexivity|exact E]).
      f_equal. apply IH; auto. intros z Hz. apply Hn. right. exact Hz.
    + apply IH; auto. intros z Hz. apply Hn. right. exact Hz.
Qed.
Lemma sp_remove_none its k : no_key its k -> sp_remove keqb (live_l its) k = live_l its.
Proof.
  induction its as [|y its IH]; intros Hn; [reflexivity|].
  unfold live_l. simpl. destruct (live_item y) eqn:E.
  - simpl. unfold kv at 1. rewrite keqb_neq by (apply Hn; [left; reflexivity|exact E]).
    f_equal. apply IH. intros z Hz. apply Hn. right. exact Hz.
  - apply IH. intros z Hz. apply Hn. right. exact Hz.
Qed.
Lemma sp_remove_found a x x' b k :
  no_key a k -> live_item x = true -> ikey x = k -> live_item x' = false ->
  sp_remove keqb (live_l (a ++ x :: b)) k = live_l (a ++ x' :: b).
Proof.
  induction a as [|y a IH]; intros Hn Hx Hk Hx'.
  - unfold live_l. simpl. rewrite Hx, Hx'. simpl. unfold kv at 1. rewrite Hk, keqb_refl. reflexivity.
  - unfold live_l. simpl. destruct (live_item y) eqn:E.
    + simpl. unfold kv at 1. rewrite keqb_neq by (apply Hn; [left; reflexivity|exact E]).
      f_equal. apply IH; auto. intros z Hz. apply Hn. right. exact Hz.
    + apply IH; auto. intros z Hz. apply Hn. right. exact Hz.
Qed.
Lemma sp_rekey_found a x x' b k k' :
  no_key a k -> live_item x = true -> ikey x = k -> live_item x' = true -> kv x' = (k', ival x) ->
  sp_rekey keqb (live_l (a ++ x :: b)) k k' = live_l (a ++ x' :: b).
Proof.
  induction a as [|y a IH]; intros Hn Hx Hk Hx' Hkv.
  - unfold live_l. simpl. rewrite Hx, Hx'. simpl. unfold kv at 1. rewrite Hk, keqb_refl. rewrite Hkv. reflexivity.
  - unfold live_l. simpl. destruct (live_item y) eqn:E.
    + simpl. unfold kv at 1. rewrite keqb_neq by (apply Hn; [left; reflexivity|exact E]).
      f_equal. apply IH; auto. intros z Hz. apply Hn. right. exact Hz.
    + apply IH; auto. intros z Hz. apply Hn. right. exact Hz.
Qed.

(* from positions to decompositions *)
Lemma In_nth_lt {A} (l : list A) y d : In y l -> exists j, j < length l /\ nth j l d = y.
Proof. intros Hy. destruct (In_nth l y d Hy) as (j & Hj & E). exists j. auto. Qed.

Lemma split_at s i : i < size s ->
  items s = firstn i (items s) ++ it s i :: skipn (S i) (items s).
Proof. intros Hi. apply nth_split_at. exact Hi. Qed.

Lemma no_key_before s i k :
  items_ok s -> i < size s -> live_at s i -> ikey (it s i) = k -> no_key (firstn i (items s)) k.
Proof.
  intros Hok Hi Hl Hk y Hy Hly Hky. destruct (items_ok_idx s Hok) as (_ & Hkeys).
  destruct (In_nth_lt _ y (@dummy K V kdef vdef) Hy) as (j & Hj & E).
  rewrite firstn_length in Hj.
  assert (Eji : j < i) by lia.
  rewrite nth_firstn_lt in E by exact Eji.
  assert (j = i); [|lia].
  apply Hkeys; try lia.
  - unfold live_at. fold (it s j) in E. rewrite E. apply live_item_iff. exact Hly.
  - exact Hl.
  - fold (it s j) in E. rewrite E. congruence.
Qed.
Lemma no_key_all s k :
  (forall j, j < size s -> live_at s j -> ikey (it s j) <> k) -> no_key (items s) k.
Proof.
  intros Hno y Hy Hly. destruct (In_nth_lt _ y (@dummy K V kdef vdef) Hy) as (j & Hj & E).
  fold (it s j) in E. rewrite <- E. apply Hno; auto. unfold live_at. rewrite E. apply live_item_iff. exact Hly.
Qed.

End Inv.
