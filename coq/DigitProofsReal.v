(* DigitProofsReal.v -- C10: what is provable about realToString on the model:
   the text already in the stream is untouched (append-only), infinities / NaN /
   zeros in each format, and computed instances of the full claim (which stays a statement). *)
From Coq Require Import NArith ZArith List Bool Lia.
From Qv Require Import gen.Tables_digit DigitModel DigitModelSpec.
Import ListNotations.
Local Open Scope N_scope.

(* ---- append-only ---- *)
Lemma bind_ok {A B} (r : res A) (f : A -> res B) (b : B) :
  bind r f = Ok b -> exists a, r = Ok a /\ f a = Ok b.
Proof. destruct r as [a|e]; cbn; intros H; [exists a; auto|discriminate]. Qed.

(* the result is  pre ++ t  where t does not depend on pre *)
Theorem real_to_string_prefix : forall fi pre number prec fmt,
  real_to_string fi pre number prec fmt =
  match real_to_string fi [] number prec fmt with Ok t => Ok (pre ++ t) | Err e => Err e end.
Proof.
  intros fi pre number prec fmt. unfold real_to_string.
  set (is_fixed := (fmt =? rf_semifixed) || (fmt =? rf_fixed)).
  set (precision := if (prec =? 0) && negb is_fixed then 1 else prec).
  destruct (negb (N.land number (fi_expmask fi) =? fi_expmask fi)).
  - destruct (negb (N.land number (fi_mantmask fi) =? 0) || negb (N.land number (fi_expmask fi) =? 0)).
    + match goal with |- bind ?r _ = match bind ?r _ with _ => _ end => destruct r as [[[b fl] ru]|e] end; cbn [bind]; [|reflexivity].
      destruct (big_to_string 80 b) as [ds|e]; cbn [bind]; [|reflexivity].
      match goal with |- bind ?r _ = match bind ?r _ with _ => _ end => destruct r as [run|e] end; cbn [bind]; [|reflexivity].
      destruct (negb (N.land number (fi_sign fi) =? 0)); cbn [app]; rewrite <- ?app_assoc; reflexivity.
    + destruct ((fmt =? rf_fixed) && negb (precision =? 0)).
      * destruct (zeros precision) as [z|e]; cbn [bind]; [|reflexivity].
        destruct (negb (N.land number (fi_sign fi) =? 0)); cbn [app]; rewrite <- ?app_assoc; reflexivity.
      * destruct (negb (N.land number (fi_sign fi) =? 0)); cbn [app]; rewrite <- ?app_assoc; reflexivity.
  - destruct (N.land number (fi_mantmask fi) =? 0).
    + destruct (negb (N.land number (fi_sign fi) =? 0)); cbn [app]; rewrite <- ?app_assoc; reflexivity.
    + reflexivity.
Qed.

Corollary real_to_string_appends : forall fi pre number prec fmt out,
  real_to_string fi pre number prec fmt = Ok out -> exists t, out = pre ++ t.
Proof.
  intros fi pre number prec fmt out H. rewrite real_to_string_prefix in H.
  destruct (real_to_string fi [] number prec fmt) as [t|e]; [|discriminate].
  exists t. congruence.
Qed.

(* ---- specials: for every bit pattern of the class, every precision and format ---- *)
Theorem real_nan : forall fi pre number prec fmt,
  N.land number (fi_expmask fi) = fi_expmask fi -> N.land number (fi_mantmask fi) <> 0 ->
  real_to_string fi pre number prec fmt = Ok (pre ++ [110; 97; 110]).
Proof.
  intros fi pre number prec fmt He Hm. unfold real_to_string. rewrite He, N.eqb_refl. cbn [negb].
  apply N.eqb_neq in Hm. rewrite Hm. reflexivity.
Qed.

Theorem real_inf : forall fi pre number prec fmt,
  N.land number (fi_expmask fi) = fi_expmask fi -> N.land number (fi_mantmask fi) = 0 ->
  real_to_string fi pre number prec fmt =
  Ok (pre ++ (if N.land number (fi_sign fi) =? 0 then [] else [45]) ++ [105; 110; 102]).
Proof.
  intros fi pre number prec fmt He Hm. unfold real_to_string. rewrite He, N.eqb_refl. cbn [negb].
  rewrite Hm. cbn [N.eqb]. destruct (N.land number (fi_sign fi) =? 0); cbn [negb app].
  - reflexivity.
  - rewrite <- app_assoc. reflexivity.
Qed.

(* +0 and -0: "0", and "0." followed by precision zeros in the Fixed format (precision > 0) *)
Theorem real_zero : forall fi pre number prec fmt,
  fi_expmask fi <> 0 ->
  N.land number (fi_expmask fi) = 0 -> N.land number (fi_mantmask fi) = 0 -> prec <= 100000 ->
  real_to_string fi pre number prec fmt =
  Ok (pre ++ (if N.land number (fi_sign fi) =? 0 then [] else [45])
          ++ (if (fmt =? rf_fixed) && negb (prec =? 0) then [48; 46] ++ repeat 48 (N.to_nat prec) else [48])).
Proof.
  intros fi pre number prec fmt Hx He Hm Hp. unfold real_to_string. rewrite He, Hm.
  assert (E1 : (0 =? fi_expmask fi) = false) by (apply N.eqb_neq; congruence).
  rewrite E1. cbn [negb N.eqb orb].
  destruct (fmt =? rf_fixed) eqn:Ef.
  - assert (Es : (fmt =? rf_semifixed) = false).
    { apply N.eqb_eq in Ef. subst fmt. vm_compute. reflexivity. }
    rewrite Es. cbn [orb negb andb]. rewrite andb_false_r.
    destruct (prec =? 0) eqn:Ez; cbn [negb andb].
    + destruct (N.land number (fi_sign fi) =? 0); cbn [negb app]; rewrite <- ?app_assoc; reflexivity.
    + unfold zeros. assert (El : (100000 <? prec) = false) by (apply N.ltb_ge; exact Hp). rewrite El. cbn [bind].
      destruct (N.land number (fi_sign fi) =? 0); cbn [negb app]; rewrite <- ?app_assoc; reflexivity.
  - cbn [andb].
    destruct (N.land number (fi_sign fi) =? 0); cbn [negb app]; rewrite <- ?app_assoc; reflexivity.
Qed.

Example specials_examples :
  real_to_string finfo_double [120] 9218868437227405312 6 0 = Ok [120; 105; 110; 102]
  /\ real_to_string finfo_double [] 18442240474082181120 6 1 = Ok [45; 105; 110; 102]
  /\ real_to_string finfo_double [] 9221120237041090560 6 2 = Ok [110; 97; 110]
  /\ real_to_string finfo_double [] 9223372036854775808 3 1 = Ok [45; 48; 46; 48; 48; 48]
  /\ real_to_string finfo_float [] 0 0 1 = Ok [48].
Proof. repeat (match goal with |- _ /\ _ => split end); vm_compute; reflexivity. Qed.

(* ---- the full claim: a statement only ---- *)
(* "for every finite double, precision and format the text equals the printf reference".
   Before findings/D48 and D49 the faithful model refuted it (11150.001 at 2 semi-fixed
   digits -> 1115; 23585.805 at 4 significant digits -> 2.358e+04).  With the two
   repairs no counterexample is known; the statement is NOT proved (the early drop of
   low words in realToString makes the digits inexact in principle), it is tested. *)
Definition c10_real_matches_reference_stmt : Prop :=
  forall bits prec fmt, bits < 2 ^ 64 -> fmt <= 2 ->
    real_to_string finfo_double [] bits prec fmt = Ok (c10_reference fmt_double bits prec fmt).

(* the former witnesses of the classes KF-C10c (D48) and KF-C10b (D49) now print the reference *)
Definition repaired_cases : list (N * N * N) :=
  [ (4667355392203070374, 2, 2)    (* 11150.001 semi-fixed 2 -> 11150 *)
  ; (4668493611038190600, 0, 2)    (* 13220.409 semi-fixed 0 -> 13220 *)
  ; (4668614351158815752, 1, 1)    (* 13440.034 fixed 1 -> 13440.0 *)
  ; (4621846139186735743, 1, 1)    (* 10.048 fixed 1 -> 10.0 *)
  ; (4672212430667823186, 4, 0)    (* 23585.805 default 4 -> 2.359e+04 *)
  ; (4699285713123593421, 6, 0)    (* 1521525.3 default 6 -> 1.52153e+06 *)
  ; (4702623120467427328, 1, 0)    (* 2500000 default 1: exact tie -> 2e+06 *)
  ; (4589168020290535424, 3, 1)    (* 0.0625 fixed 3: exact tie -> 0.062 *)
  ; (4612811918334230528, 0, 1)    (* 2.5 fixed 0 -> 2 *)
  ; (4615063718147915776, 0, 1) ]. (* 3.5 fixed 0 -> 4 *)
Definition repaired_ok : bool :=
  forallb (fun '(b, p, f) => match real_to_string finfo_double [] b p f with
                            | Ok t => list_eqb t (c10_reference fmt_double b p f)
                            | Err _ => false end) repaired_cases.
Lemma c10_repaired_cases_ok : repaired_ok = true.
Proof. vm_compute. reflexivity. Qed.

Example repaired_texts :
  real_to_string finfo_double [] 4667355392203070374 2 2 = Ok [49; 49; 49; 53; 48]
  /\ real_to_string finfo_double [] 4672212430667823186 4 0 = Ok [50; 46; 51; 53; 57; 101; 43; 48; 52].
Proof. repeat (match goal with |- _ /\ _ => split end); vm_compute; reflexivity. Qed.

(* after D42 / D33: 0.5 at precision 0 Fixed is "0" (was "0." with a read past the end), 9.5 -> "10" *)
Example fixed_precision_zero_now :
  real_to_string finfo_double [] 4602678819172646912 0 1 = Ok [48]
  /\ real_to_string finfo_double [] 4621537642612260864 0 1 = Ok [49; 48]
  /\ c10_reference fmt_double 4602678819172646912 0 1 = [48].
Proof. repeat (match goal with |- _ /\ _ => split end); vm_compute; reflexivity. Qed.

(* partial: the model agrees with the reference on a fixed sample of (value, precision, format) *)
Definition sample_bits : list N :=
  [4607182418800017408; 4602678819172646912; 4621537642611572736; 4614256656552045848; 4591870180066957722;
   4666723172467343360; 4696837146684686336; 1; 9218868437227405311; 4503599627370496; 13835058055282163712;
   4890909195324358656; 4457293557087583675; 4611686018427387904; 4636737291354636288].
Definition sample_ok : bool :=
  forallb (fun b => forallb (fun p => forallb (fun f =>
     match real_to_string finfo_double [] b p f with
     | Ok t => list_eqb t (c10_reference fmt_double b p f)
     | Err _ => false end) [0; 1; 2]) [0; 1; 2; 6; 15; 17]) sample_bits.
Lemma c10_real_partial_sample : sample_ok = true.
Proof. vm_compute. reflexivity. Qed.
