(* Extract_esc.v -- extraction of the executable models and oracles to OCaml.
   ExtrOcamlBasic only: bool, option, unit, list, prod, sumbool map to the OCaml
   types; nat, positive, N, Z stay the extracted inductive types. *)
From Coq Require Import Extraction ExtrOcamlBasic NArith ZArith.
From Qv Require Import EscapeModel.
Extraction Language OCaml.
Set Extraction Optimize.
Extraction "model_esc.ml"
  N.add N.mul N.sub N.div_eucl N.compare Z.add Z.mul Z.sub Z.div_eucl Z.compare Z.of_N Z.to_N Z.opp
  EscapeModel.escape_w EscapeModel.var_text EscapeModel.decode EscapeModel.c03_emit
  EscapeModel.c03_oracle_kind EscapeModel.safeb.
