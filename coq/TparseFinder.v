(* TparseFinder.v -- further facts about Finder::Next (FinderModel.v) the parser proofs need:
   a match advances the cursor by the length of the matched token; the only closing brace
   between the cursor and the new cursor is the one that was matched; the characters of a
   matched word stand in the text just before the new cursor. *)
From Coq Require Import NArith ZArith List Bool Arith Lia.
From Qv Require Import gen.Tables_tmpl FinderModel FinderProofs.
Import ListNotations.

Definition toklen (m : N) : nat :=
  match m with
  | 1%N => 1 | 2%N => 5 | 3%N => 5 | 4%N => 6 | 5%N => 6 | 6%N => 3 | 7%N => 5 | 8%N => 7 | 9%N => 3 | 10%N => 5 | 11%N => 5 | _ => 0
  end.

Lemma toklen_ids : forall m, 1 <= toklen m -> In m [1; 2; 3; 4; 5; 6; 7; 8; 9; 10; 11]%N.
Proof.
  intros m H. unfold toklen in H.
  destruct m as [|p]; [lia|].
  destruct p as [p|p|]; try destruct p as [p|p|]; try destruct p as [p|p|]; try destruct p as [p|p|];
    try lia; cbn; tauto.
Qed.

Section SpecFacts.
  Variables (fc : list N) (single : N) (groups : list (list (N * list N))).
  Hypothesis Hfc : ~ In single fc.
  Hypothesis Hw : forall g id word, In g groups -> In (id, word) g -> ~ In single word /\ id <> 1%N /\ id <> 0%N.

  Lemma index_of_in : forall c l k g, index_of c l k = Some g -> In c l.
  Proof.
    intros c l; induction l as [|x l IH]; intros k g H; [discriminate H|].
    cbn [index_of] in H. destruct (N.eqb_spec x c) as [E|E]; [left; exact E|right; eapply IH; exact H].
  Qed.

  Lemma first_word_some : forall g t id n, first_word g t = Some (id, n) ->
    exists word, In (id, word) g /\ n = length word /\ is_prefix_l word t = true.
  Proof.
    intros g; induction g as [|[id0 word] r IH]; intros t id n H; [discriminate H|].
    cbn [first_word] in H. destruct (is_prefix_l word t) eqn:E.
    - injection H as <- <-. exists word. split; [left; reflexivity|split; [reflexivity|exact E]].
    - destruct (IH _ _ _ H) as [wd [Hi Hr]]. exists wd. split; [right; exact Hi|exact Hr].
  Qed.

  Lemma is_prefix_nth : forall p s k, is_prefix_l p s = true -> k < length p -> nth_error s k = nth_error p k.
  Proof.
    intros p; induction p as [|x p IH]; intros s k H Hk; [cbn in Hk; lia|].
    destruct s as [|y s]; [discriminate H|]. cbn [is_prefix_l] in H. apply andb_prop in H. destruct H as [H1 H2].
    apply N.eqb_eq in H1. subst y. destruct k as [|k]; [reflexivity|]. cbn [nth_error]. apply IH; [exact H2|cbn in Hk; lia].
  Qed.

  Lemma nth_groups_in' : forall g (x : N * list N), In x (nth g groups []) -> In (nth g groups []) groups.
  Proof.
    intros g x H. destruct (nth_in_or_default g groups []) as [Hin|Hd]; [exact Hin|]. rewrite Hd in H. destruct H.
  Qed.

  Lemma next_spec_facts : forall s off m o', next_spec fc single groups s off = (m, o') ->
    off <= o' /\
    (forall k, k < o' - off -> nth_error s k = Some single -> m = 1%N /\ S (off + k) = o') /\
    (m = 1%N -> off < o' /\ nth_error s (o' - off - 1) = Some single) /\
    (m <> 0%N -> m <> 1%N -> exists c word, In c fc /\ In (m, word) (concat groups) /\ off + 1 + length word <= o' /\
        nth_error s (o' - off - length word - 1) = Some c /\
        forall j, j < length word -> nth_error s (o' - off - length word + j) = nth_error word j).
  Proof.
    intros s; induction s as [|c t IH]; intros off m o' H.
    - cbn in H. injection H as <- <-. repeat split; try lia; intros; try lia; contradiction.
    - assert (Hrec : c <> single -> next_spec fc single groups t (S off) = (m, o') ->
        off <= o' /\
        (forall k, k < o' - off -> nth_error (c :: t) k = Some single -> m = 1%N /\ S (off + k) = o') /\
        (m = 1%N -> off < o' /\ nth_error (c :: t) (o' - off - 1) = Some single) /\
        (m <> 0%N -> m <> 1%N -> exists c0 word, In c0 fc /\ In (m, word) (concat groups) /\ off + 1 + length word <= o' /\
            nth_error (c :: t) (o' - off - length word - 1) = Some c0 /\
            forall j, j < length word -> nth_error (c :: t) (o' - off - length word + j) = nth_error word j)).
      { intros Hc H'. destruct (IH _ _ _ H') as (I1 & I2 & I3 & I4). split; [lia|]. split; [|split].
        - intros k Hk Hn. destruct k as [|k]; [cbn in Hn; injection Hn as Hn; contradiction|].
          cbn [nth_error] in Hn. destruct (I2 k) as [E1 E2]; [lia|exact Hn|]. split; [exact E1|lia].
        - intros Em. destruct (I3 Em) as [J1 J2]. split; [lia|].
          replace (o' - off - 1) with (S (o' - S off - 1)) by lia. exact J2.
        - intros Hm0 Hm1. destruct (I4 Hm0 Hm1) as (c0 & word & K1 & K2 & K3 & K4 & K5).
          exists c0, word. split; [exact K1|split; [exact K2|split; [lia|split]]].
          + replace (o' - off - length word - 1) with (S (o' - S off - length word - 1)) by lia. exact K4.
          + intros j Hj. replace (o' - off - length word + j) with (S (o' - S off - length word + j)) by lia.
            cbn [nth_error]. apply K5; exact Hj. }
      rewrite next_spec_cons in H.
      destruct (index_of c fc 0) as [g|] eqn:Eg.
      + assert (Hcfc : In c fc) by (eapply index_of_in; exact Eg).
        assert (Hcs : c <> single) by (intros E; subst c; contradiction).
        destruct (first_word (nth g groups []) t) as [[id n]|] eqn:Ef; [|apply Hrec; assumption].
        injection H as <- <-.
        destruct (first_word_some _ _ _ _ Ef) as (word & Hin & -> & Hp).
        assert (Hg : In (nth g groups []) groups) by (eapply nth_groups_in'; exact Hin).
        destruct (Hw _ _ _ Hg Hin) as (W1 & W2 & W3).
        split; [lia|]. split; [|split].
        * intros k Hk Hn. destruct k as [|k]; [cbn in Hn; injection Hn as Hn; contradiction|].
          cbn [nth_error] in Hn. rewrite (is_prefix_nth _ _ _ Hp) in Hn by lia.
          exfalso. apply W1. eapply nth_error_In; exact Hn.
        * intros E; contradiction.
        * intros _ _. exists c, word. split; [exact Hcfc|split; [|split; [lia|split]]].
          -- apply in_concat. exists (nth g groups []). split; assumption.
          -- replace (off + 1 + length word - off - length word - 1) with 0 by lia. reflexivity.
          -- intros j Hj. replace (off + 1 + length word - off - length word + j) with (S j) by lia.
             cbn [nth_error]. apply is_prefix_nth; assumption.
      + destruct (N.eqb_spec c single) as [E|E]; [|apply Hrec; assumption].
        injection H as <- <-. subst c. split; [lia|]. split; [|split].
        * intros k Hk _. split; [reflexivity|lia].
        * intros _. split; [lia|]. replace (S off - off - 1) with 0 by lia. reflexivity.
        * intros _ Hn; contradiction.
  Qed.
End SpecFacts.

(* the generated tables satisfy the side conditions *)
Lemma c8_single_not_first : ~ In finder_single_char_c8 finder_first_chars_c8.
Proof. cbn. intros [H|[H|H]]; try discriminate H; exact H. Qed.

Lemma c8_words_ok : forall g id word, In g finder_groups_c8 -> In (id, word) g ->
  ~ In finder_single_char_c8 word /\ id <> 1%N /\ id <> 0%N.
Proof.
  intros g id word Hg Hi. cbn in Hg.
  repeat (destruct Hg as [Hg|Hg]; [subst g; cbn in Hi;
    repeat (destruct Hi as [Hi|Hi]; [injection Hi as <- <-; split; [cbn; intuition discriminate|split; discriminate]|]);
    destruct Hi|]).
  destruct Hg.
Qed.

Lemma table_toklen : forall m word, In (m, word) (concat finder_groups_c8) -> 1 + length word = toklen m.
Proof.
  intros m word H. cbn in H.
  repeat (destruct H as [H|H]; [injection H as <- <-; reflexivity|]). destruct H.
Qed.

Lemma next_w_c8 : forall w content o, next_w w content o = next_c8 content o.
Proof. intros w content o. destruct w as [|[[p|p|]|[p|p|]|]]; reflexivity. Qed.

(* Next() from cursor o (o <= length): everything the parser proofs use *)
Theorem next_w_facts : forall w content o m o',
  o <= length content -> next_w w content o = FOk m o' ->
  o <= o' <= length content /\
  (m = 0%N -> length content <= o') /\
  (m <> 0%N -> o + toklen m <= o' /\ 1 <= toklen m) /\
  (forall i, o <= i < o' -> nth_error content i = Some 125%N -> m = 1%N /\ S i = o') /\
  (m = 1%N -> nth_error content (o' - 1) = Some 125%N) /\
  (m = 7%N -> forall i, o' - 5 <= i < o' -> exists c, nth_error content i = Some c /\ c <> 62%N /\ c <> 125%N).
Proof.
  intros w content o m o' Ho H.
  assert (Hb : o <= o' <= length content).
  { rewrite next_w_c8 in H. destruct (next_progress _ _ _ _ _ _ _ Ho H) as [Hb _]. exact Hb. }
  pose proof H as H0. rewrite next_w_c8, (next_c8_is_spec _ _ Ho) in H.
  destruct (next_spec_c8 (skipn o content) o) as [m1 o1] eqn:Es. injection H as <- <-.
  destruct (next_spec_facts _ _ _ c8_single_not_first c8_words_ok _ _ _ _ Es) as (F1 & F2 & F3 & F4).
  split; [exact Hb|]. split; [|split; [|split; [|split]]].
  - intros ->. rewrite next_w_c8 in H0. unfold next_c8 in H0. rewrite next_unfold in H0.
    clear - H0. revert H0. generalize (S (length content - o)). intros fuel; revert o.
    induction fuel as [|k IH]; intros o H; [discriminate H|].
    rewrite next_go_S in H. destruct (Nat.ltb_spec o (length content)) as [Hlt|Hge]; [|injection H as <-; exact Hge].
    destruct (nth_error content o) as [c|]; [|discriminate H].
    destruct (index_of c finder_first_chars_c8 0) as [g|].
    + destruct (try_group content (S o) (nth g finder_groups_c8 [])) as [id off''| |] eqn:Eg; [|apply (IH _ H)|discriminate H].
      injection H as E1 E2. apply try_group_bound in Eg. destruct Eg as [_ Hi]. subst id.
      assert (Hg : In (nth g finder_groups_c8 []) finder_groups_c8).
      { destruct (nth_in_or_default g finder_groups_c8 []) as [Hin|Hd]; [exact Hin|]. rewrite Hd in Hi. destruct Hi. }
      apply in_map_iff in Hi. destruct Hi as [[id wd] [E Hin]]. cbn in E. subst id.
      destruct (c8_words_ok _ _ _ Hg Hin) as (_ & _ & Hz). contradiction.
    + destruct (N.eqb c finder_single_char_c8); [discriminate H|apply (IH _ H)].
  - intros Hm. destruct (N.eq_dec m1 1) as [E1|E1].
    + subst m1. destruct (F3 eq_refl) as [J _]. cbn. lia.
    + destruct (F4 Hm E1) as (c & word & _ & K2 & K3 & _). apply table_toklen in K2. lia.
  - intros i Hi Hn. destruct (F2 (i - o)) as [E1 E2]; [lia|rewrite fp_nth_error_skipn; replace (o + (i - o)) with i by lia; exact Hn|].
    split; [exact E1|lia].
  - intros E. destruct (F3 E) as [J1 J2]. rewrite fp_nth_error_skipn in J2. replace (o + (o1 - o - 1)) with (o1 - 1) in J2 by lia. exact J2.
  - intros E i Hi. subst m1. destruct (F4 ltac:(discriminate) ltac:(discriminate)) as (c & word & K1 & K2 & K3 & K4 & K5).
    pose proof (table_toklen _ _ K2) as Hl. cbn in Hl.
    cbn in K2. repeat (destruct K2 as [K2|K2]; [try discriminate K2|]); [|destruct K2].
    injection K2 as <-. cbn [length] in *.
    rewrite fp_nth_error_skipn in K4.
    destruct (Nat.eq_dec i (o1 - 5)) as [Ei|Ei].
    + subst i. replace (o + (o1 - o - 4 - 1)) with (o1 - 5) in K4 by lia. exists c. split; [exact K4|].
      cbn in K1. destruct K1 as [K1|[K1|K1]]; [subst c|subst c|destruct K1]; split; discriminate.
    + specialize (K5 (i - (o1 - 4))). rewrite fp_nth_error_skipn in K5.
      replace (o + (o1 - o - 4 + (i - (o1 - 4)))) with i in K5 by lia.
      assert (Hj : i - (o1 - 4) < 4) by lia. specialize (K5 Hj).
      destruct (i - (o1 - 4)) as [|[|[|[|j]]]]; try lia; cbn in K5; eexists; (split; [exact K5|split; discriminate]).
Qed.

(* a '>' inside the matched token: only "</loop>" and "</if>" have one *)
Theorem next_w_token_gt : forall w content o m o',
  o <= length content -> next_w w content o = FOk m o' ->
  forall i, o' - toklen m <= i < o' -> nth_error content i = Some 62%N -> m = 8%N \/ m = 10%N.
Proof.
  intros w content o m o' Ho H i Hi Hn.
  assert (Hb : o <= o' <= length content).
  { rewrite next_w_c8 in H. destruct (next_progress _ _ _ _ _ _ _ Ho H) as [Hb _]. exact Hb. }
  rewrite next_w_c8, (next_c8_is_spec _ _ Ho) in H.
  destruct (next_spec_c8 (skipn o content) o) as [m1 o1] eqn:Es. injection H as <- <-.
  destruct (next_spec_facts _ _ _ c8_single_not_first c8_words_ok _ _ _ _ Es) as (F1 & F2 & F3 & F4).
  destruct (N.eq_dec m1 0) as [E0|E0]; [subst m1; cbn in Hi; lia|].
  destruct (N.eq_dec m1 1) as [E1|E1].
  { subst m1. destruct (F3 eq_refl) as [J1 J2]. cbn in Hi. rewrite fp_nth_error_skipn in J2.
    replace (o + (o1 - o - 1)) with i in J2 by lia. rewrite Hn in J2. discriminate J2. }
  destruct (F4 E0 E1) as (c & word & K1 & K2 & K3 & K4 & K5).
  pose proof (table_toklen _ _ K2) as Hl. rewrite fp_nth_error_skipn in K4.
  destruct (Nat.eq_dec i (o1 - length word - 1)) as [Ei|Ei].
  - subst i. replace (o + (o1 - o - length word - 1)) with (o1 - length word - 1) in K4 by lia.
    rewrite Hn in K4. injection K4 as <-. cbn in K1. destruct K1 as [K1|[K1|K1]]; try discriminate K1. destruct K1.
  - assert (Hj : i - (o1 - length word) < length word) by lia.
    specialize (K5 (i - (o1 - length word)) Hj). rewrite fp_nth_error_skipn in K5.
    replace (o + (o1 - o - length word + (i - (o1 - length word)))) with i in K5 by lia.
    rewrite Hn in K5. symmetry in K5. apply nth_error_In in K5.
    cbn in K2. repeat (destruct K2 as [K2|K2]; [injection K2 as <- <-; cbn in K5; intuition (try discriminate; auto)|]).
    destruct K2.
Qed.
