(* TrenderInst.v -- a concrete instance of the renderer model (TrenderModel.v) for the correspondence run:
   the value side is the C02 value model (TmplModel.jv: get_key, members, value_text, char_and_length,
   group_by, sort_set), escaping is EscapeModel.var_text_cfg, and expression evaluation is replaced by a
   function of the tag's offset only -- the driver cpp/drv_trender.cpp overwrites every non-empty expression
   array of the parsed tree with the same constant before it renders (math at Offset o prints o mod 7; the
   condition of an inline if / if case at Offset k is true iff k is odd).  DEFINITIONS ONLY. *)
From Coq Require Import NArith List Bool Arith.
From Qv Require Import gen.Tables EscapeModel TmplModel TparseModel TrenderModel TrenderProofs.
Import ListNotations.

Definition jv_members (v : jv) : list (option jv * list N) := map (fun m => (Some (fst m), snd m)) (members v).
Definition jv_text (auto : bool) (w : N) (escaped : bool) (v : jv) : option (list N) :=
  value_text (if escaped then var_text_cfg auto w else (fun s => s)) v.
Definition const_math (k : nat) (ex : list qexpr) (items : list (item jv)) : option (list N) := Some (dec (N.of_nat (k mod 7))).
Definition const_cond (k : nat) (ex : list qexpr) (items : list (item jv)) : option bool := Some (Nat.odd k).

(* parse the text with the parser model, render the tree with the renderer model *)
Definition render_jv (auto : bool) (w : N) (content : list N) (root : jv) : rres (list N) :=
  render_all jv get_key jv_members (jv_text auto w) char_and_length (fun v k => group_by k v) sort_set
             (var_text_cfg auto w) const_math const_cond w content root.
