(* TrenderInst.v -- a concrete instance of the renderer model (TrenderModel.v) for the correspondence run:
   the value side is the C02 value model (TmplModel.jv: get_key, members, value_text, char_and_length,
   group_by, sort_set), escaping is EscapeModel.var_text_cfg, and expression evaluation is replaced by a
   function of the tag's offset only -- the driver cpp/drv_trender.cpp overwrites every non-empty expression
   array of the parsed tree with the same constant before it renders (math at Offset o prints o mod 7; the
   condition of an inline if / if case at Offset k is true iff k is odd).  DEFINITIONS ONLY. *)
From Coq Require Import NArith List Bool Arith.
From Qv Require Import gen.Tables EscapeModel TmplModel TparseModel TrenderModel TrenderProofs.
Import ListNotations.

(* TmplModel.get_key, with the array index compared in N before it becomes a nat (the extracted nat is unary) *)
Definition jv_get_key (v : jv) (key : list N) : option jv :=
  match v with
  | JArr l => let i := fast_index key in if N.ltb i (N.of_nat (length l)) then defined (nth_error l (N.to_nat i)) else None
  | _ => get_key v key
  end.
(* TmplModel.sort_set orders arrays of naturals / of strings and objects by key (the C02 domain); other arrays
   are left as they are here (arrays of objects keep their order in the C++; mixed arrays are not generated) *)
Definition jv_sort (asc : bool) (v : jv) : jv :=
  match v with
  | JArr l =>
    if forallb (fun x => match x with JNat _ => true | _ => false end) l ||
       forallb (fun x => match x with JStr _ => true | _ => false end) l then sort_set asc v else v
  | _ => sort_set asc v
  end.
Definition jv_members (v : jv) : list (option jv * list N) := map (fun m => (Some (fst m), snd m)) (members v).
Definition jv_text (auto : bool) (w : N) (escaped : bool) (v : jv) : option (list N) :=
  value_text (if escaped then var_text_cfg auto w else (fun s => s)) v.
Definition const_math (k : nat) (ex : list qexpr) (items : list (item jv)) : option (list N) := Some (dec (N.of_nat (k mod 7))).
Definition const_cond (k : nat) (ex : list qexpr) (items : list (item jv)) : option bool := Some (Nat.odd k).

(* parse the text with the parser model, render the tree with the renderer model *)
Definition render_jv (auto : bool) (w : N) (content : list N) (root : jv) : rres (list N) :=
  render_all jv jv_get_key jv_members (jv_text auto w) char_and_length (fun v k => group_by k v) jv_sort
             (var_text_cfg auto w) const_math const_cond w content root.
