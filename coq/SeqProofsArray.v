(* SeqProofsArray.v -- C14: every Array operation refines the list specification and
   keeps the pool invariant (no UAF / OOB), for every element type. *)
From Coq Require Import NArith List Arith Bool Lia.
From Qv Require Import SeqModel SeqLists SeqProofs.
Import ListNotations.

Section ArrayProofs.
Context {A : Type} (junk d : A).
Notation heap := (@heap A).
Notation world := (@world A).
Notation ainv := (@ainv A).

Lemma ainv_lt : forall (w : world) s k b, ainv w s -> blk (ob w k) = Some b -> b < next (hp w).
Proof. intros w s k b H. exact (inv_blk_lt owns owns_live w s k b H). Qed.

Lemma owns_to : forall (h h' : heap) o (l : list A), owns h o l ->
  (forall b, blk o = Some b -> cells_of h' b = cells_of h b) -> owns h' o l.
Proof. intros h h' o l H Hf. eapply owns_local; eauto. Qed.

Ltac splits := repeat match goal with |- _ /\ _ => split end.
(* goals of ainv_set, in order: hwf h' | frame | owns h' o' (s' i) | s' elsewhere | blocks of o' *)
Ltac set_inv H := eapply (ainv_set _ _ _ _ _ _ H).
Ltac move_inv H := eapply (ainv_move _ _ _ _ _ _ H).
Ltac others := intros ? ?; first [reflexivity | now rewrite !upd_other by auto | auto].
Ltac newblk := cbn [blk]; intros ? Hnb; first [discriminate Hnb | injection Hnb as <-; left; lia | right; exact Hnb | auto].

(* Array::resize *)
Lemma arr_resize_ok : forall (w : world) s i n, ainv w s -> size (ob w i) <= n ->
  exists w', arr_resize junk w i n = Ok w' /\ ainv w' s /\
    (forall k, k <> i -> ob w' k = ob w k) /\ size (ob w' i) = size (ob w i) /\ cap (ob w' i) = n /\
    next (hp w) <= next (hp w').
Proof.
  intros w s i n Hinv Hn. unfold arr_resize. rewrite alloc_eq.
  pose proof (ainv_hwf _ _ Hinv) as Hwf. pose proof (ainv_obj _ _ i Hinv) as Hoi.
  destruct (owns_len _ _ _ Hoi) as (Hlen & Hsc).
  unfold mcopy, copy_in, rd_src.
  assert (Hoi1 : owns (halloc junk (hp w) n) (ob w i) (s i)).
  { apply owns_to with (h := hp w); [assumption|]. intros b Hb. apply halloc_old.
    pose proof (ainv_lt w s i b Hinv Hb). lia. }
  rewrite (owns_read_all _ _ _ Hoi1). cbn [bind].
  destruct (fresh_fill junk (hp w) n (s i) Hwf ltac:(lia)) as (h2 & Hwr & Hwf2 & Hn2 & Hfr2 & Hown2).
  rewrite Hwr. cbn [bind].
  assert (Hoi2 : owns h2 (ob w i) (s i)).
  { apply owns_to with (h := hp w); [assumption|]. intros b Hb. apply Hfr2.
    pose proof (ainv_lt w s i b Hinv Hb). lia. }
  destruct (owns_free _ _ _ Hwf2 Hoi2) as (h3 & Hf & Hwf3 & Hn3 & Hfr3).
  rewrite Hf. cbn [bind]. eexists. split; [reflexivity|].
  split.
  - set_inv Hinv; [exact Hwf3 | | | others | newblk].
    + intros b Hlt Hne. rewrite Hfr3 by assumption. apply Hfr2. lia.
    + rewrite Hlen in Hown2. apply owns_to with (h := h2); [assumption|].
      cbn [blk]. intros b Hb. injection Hb as <-. apply Hfr3.
      intros Hb. pose proof (ainv_lt w s i _ Hinv Hb). lia.
  - cbn [ob hp]. rewrite upd_same. cbn [size cap]. splits; try reflexivity.
    + intros k Hk. now apply upd_other.
    + lia.
Qed.

(* Reset / destructor followed by the empty state *)
Lemma arr_reset_ok : forall (w : world) s i s', ainv w s ->
  s' i = [] -> (forall k, k <> i -> s' k = s k) ->
  exists w', arr_reset w i = Ok w' /\ ainv w' s' /\ ob w' i = null_obj /\ (forall k, k <> i -> ob w' k = ob w k).
Proof.
  intros w s i s' Hinv Hsi Hsk. unfold arr_reset.
  destruct (owns_free _ _ _ (ainv_hwf _ _ Hinv) (ainv_obj _ _ i Hinv)) as (h1 & Hf & Hwf1 & Hn1 & Hfr1).
  rewrite Hf. cbn [bind]. eexists. split; [reflexivity|].
  split; [|cbn [ob]; split; [apply upd_same | intros k Hk; now apply upd_other]].
  set_inv Hinv; [exact Hwf1 | | | exact Hsk | newblk].
  - intros b Hlt Hne. now apply Hfr1.
  - rewrite Hsi. apply owns_null.
Qed.

(* the storage of i was released (heap h1); construct Array(n, init) in its place *)
Lemma arr_construct_ok : forall (w : world) s i (h1 : heap) n (init : bool) s',
  ainv w s -> hwf h1 -> next h1 = next (hp w) ->
  (forall b, blk (ob w i) <> Some b -> cells_of h1 b = cells_of (hp w) b) ->
  s' i = (if init then repeat d n else []) -> (forall k, k <> i -> s' k = s k) ->
  exists w', arr_construct junk d h1 (ob w) i n init = Ok w' /\ ainv w' s'.
Proof.
  intros w s i h1 n init s' Hinv Hwf1 Hn1 Hfr1 Hsi Hsk. unfold arr_construct.
  destruct n as [|n'].
  - eexists. split; [reflexivity|]. set_inv Hinv; [exact Hwf1 | | | exact Hsk | newblk].
    + intros b Hlt Hne. now apply Hfr1.
    + rewrite Hsi. destruct init; apply owns_null.
  - set (n := S n') in *. rewrite alloc_eq. destruct init.
    + destruct (fresh_fill junk h1 n (repeat d n) Hwf1 ltac:(rewrite repeat_length; lia))
        as (h2 & Hwr & Hwf2 & Hn2 & Hfr2 & Hown2).
      rewrite Hwr. cbn [bind]. eexists. split; [reflexivity|].
      set_inv Hinv; [exact Hwf2 | | | exact Hsk | newblk].
      * intros b Hlt Hne. rewrite Hfr2 by lia. now apply Hfr1.
      * rewrite Hsi. rewrite repeat_length in Hown2. exact Hown2.
    + destruct (fresh_fill junk h1 n [] Hwf1 ltac:(cbn; lia)) as (h2 & Hwr & Hwf2 & Hn2 & Hfr2 & Hown2).
      cbn in Hwr. injection Hwr as <-.
      eexists. split; [reflexivity|].
      set_inv Hinv; [exact Hwf2 | | | exact Hsk | newblk].
      * intros b Hlt Hne. rewrite Hfr2 by lia. now apply Hfr1.
      * rewrite Hsi. exact Hown2.
Qed.

(* copyArray of an object whose storage is intact in h1 *)
Lemma arr_copy_of_ok : forall (h1 : heap) oj (l : list A), hwf h1 -> owns h1 oj l ->
  exists h2 o2, arr_copy_of junk h1 oj = Ok (h2, o2) /\ hwf h2 /\ next h1 <= next h2 /\
    (forall b, b < next h1 -> cells_of h2 b = cells_of h1 b) /\ owns h2 o2 l /\
    (forall b, blk o2 = Some b -> next h1 <= b).
Proof.
  intros h1 oj l Hwf1 Hoj. unfold arr_copy_of.
  destruct (owns_len _ _ _ Hoj) as (Hlen & _).
  destruct (size oj) as [|n'] eqn:Esz.
  - exists h1, null_obj. split; [reflexivity|]. split; [assumption|]. split; [lia|].
    split; [reflexivity|]. split.
    + destruct l; [apply owns_null|discriminate].
    + cbn. discriminate.
  - rewrite alloc_eq. unfold mcopy, copy_in, rd_src.
    assert (Hoj1 : owns (halloc junk h1 (S n')) oj l).
    { apply owns_to with (h := h1); [assumption|]. intros b Hb. apply halloc_old.
      destruct (cells_of h1 b) as [c|] eqn:E; [pose proof (live_lt _ _ _ Hwf1 E); lia|].
      exfalso. exact (owns_live _ _ _ _ Hoj Hb E). }
    pose proof (owns_read_all _ _ _ Hoj1) as Hrd. rewrite Esz in Hrd. rewrite Hrd. cbn [bind].
    destruct (fresh_fill junk h1 (S n') l Hwf1 ltac:(lia)) as (h2 & Hwr & Hwf2 & Hn2 & Hfr2 & Hown2).
    rewrite Hwr. cbn [bind]. exists h2. eexists. split; [reflexivity|].
    split; [assumption|]. split; [lia|]. split; [intros b Hb; apply Hfr2; lia|].
    split; [rewrite Hlen in Hown2; exact Hown2|].
    cbn [blk]. intros b Hb. injection Hb as <-. lia.
Qed.

Lemma arr_append_item_ok : forall (w : world) s i x s', ainv w s ->
  s' i = s i ++ [x] -> (forall k, k <> i -> s' k = s k) ->
  exists w', arr_append_item junk w i x = Ok w' /\ ainv w' s'.
Proof.
  intros w s i x s' Hinv Hsi Hsk. unfold arr_append_item.
  assert (Hstep : exists w1, (if size (ob w i) =? cap (ob w i) then arr_resize junk w i (cap (ob w i) + 1) else Ok w) = Ok w1
                   /\ ainv w1 s /\ size (ob w1 i) = size (ob w i) /\ size (ob w1 i) < cap (ob w1 i)).
  { destruct (owns_len _ _ _ (ainv_obj _ _ i Hinv)) as (_ & Hsc).
    destruct (Nat.eqb_spec (size (ob w i)) (cap (ob w i))) as [E|E].
    - destruct (arr_resize_ok w s i (cap (ob w i) + 1) Hinv ltac:(lia)) as (w1 & Hr & Hinv1 & _ & Hs1 & Hc1 & _).
      exists w1. splits; auto. lia.
    - exists w. splits; auto. lia. }
  destruct Hstep as (w1 & -> & Hinv1 & Hs1 & Hlt). cbn [bind].
  pose proof (ainv_obj _ _ i Hinv1) as Hoi. destruct (owns_len _ _ _ Hoi) as (Hlen & _).
  destruct (owns_write (hp w1) (ob w1 i) (s i) (size (ob w1 i)) [x] (ainv_hwf _ _ Hinv1) Hoi ltac:(cbn; lia))
    as (h2 & Hwr & Hwf2 & Hn2 & Hfr2 & _ & Hown2).
  unfold wr1. rewrite Hwr. cbn [bind]. eexists. split; [reflexivity|].
  set_inv Hinv1; [exact Hwf2 | | | exact Hsk | newblk].
  - intros b Hlt' Hne. now apply Hfr2.
  - rewrite Hsi. specialize (Hown2 ltac:(lia)). cbn [length] in Hown2.
    rewrite firstn_all2 in Hown2 by lia. exact Hown2.
Qed.

Lemma owns_shrink : forall (h : heap) o (l : list A) n, owns h o l -> n <= size o ->
  owns h (mkObj (blk o) n (cap o)) (firstn n l).
Proof.
  intros h o l n. unfold owns. cbn [blk size cap]. destruct (blk o) as [b|].
  - intros (c & Hc & Hl1 & Hl2 & ->) Hn. exists c. splits; auto; try lia.
    rewrite firstn_firstn. f_equal. lia.
  - intros (Hz & Hc & ->) Hn. assert (n = 0) as -> by lia. auto.
Qed.

(* Array::Resize *)
Lemma arr_Resize_ok : forall (w : world) s i n s', ainv w s ->
  s' i = firstn n (s i) -> (forall k, k <> i -> s' k = s k) ->
  exists w', arr_Resize junk w i n = Ok w' /\ ainv w' s' /\
    (n <> 0 -> cap (ob w' i) = n) /\ (n = 0 -> ob w' i = null_obj) /\ size (ob w' i) = Nat.min n (size (ob w i)).
Proof.
  intros w s i n s' Hinv Hsi Hsk. unfold arr_Resize. destruct n as [|n'].
  - destruct (arr_reset_ok w s i s' Hinv Hsi Hsk) as (w' & Hr & Hinv' & Hnull & _).
    exists w'. splits; auto; try lia. now rewrite Hnull.
  - set (n := S n') in *.
    pose proof (ainv_obj _ _ i Hinv) as Hoi. destruct (owns_len _ _ _ Hoi) as (Hlen & Hsc).
    set (w1 := if n <? size (ob w i) then mkW (hp w) (upd (ob w) i (mkObj (blk (ob w i)) n (cap (ob w i)))) else w).
    assert (Hinv1 : ainv w1 s' /\ size (ob w1 i) = Nat.min n (size (ob w i))).
    { subst w1. destruct (Nat.ltb_spec n (size (ob w i))) as [Hl|Hl].
      - split; [|cbn [ob]; rewrite upd_same; cbn [size]; lia].
        set_inv Hinv; [exact (ainv_hwf _ _ Hinv) | reflexivity | | exact Hsk | newblk].
        rewrite Hsi. apply owns_shrink; [assumption|lia].
      - split; [|lia]. apply (inv_ext owns w s s' Hinv). intros k.
        destruct (Nat.eq_dec k i) as [->|Hk]; [|now apply Hsk].
        rewrite Hsi. apply firstn_all2. lia. }
    destruct Hinv1 as (Hinv1 & Hsz1).
    destruct (arr_resize_ok w1 s' i n Hinv1 ltac:(lia)) as (w2 & Hr & Hinv2 & _ & Hs2 & Hc2 & _).
    exists w2. splits; auto; try lia.
Qed.

Definition arun := run (astep junk d).
Definition aspec_run := spec_run (aspec d).

(* one step: the model does not fail, refines the list specification and keeps the invariant *)
Theorem astep_refines : forall (w : world) s op, ainv w s -> aop_ok op ->
  exists w', astep junk d w op = Ok (w', snd (aspec d s op)) /\ ainv w' (fst (aspec d s op)).
Proof.
  intros w s op Hinv Hok.
  pose proof (ainv_hwf _ _ Hinv) as Hwf.
  destruct op as [i n init|i j|i j|i j|i j|i j|i j|i x|i k|i|i|i|i n init|i n|i n|i n|i|i n|i k1 k2|i];
    cbn [astep aspec fst snd aop_ok] in *.
  - (* ANewSized *)
    destruct (owns_free _ _ _ Hwf (ainv_obj _ _ i Hinv)) as (h1 & Hf & Hwf1 & Hn1 & Hfr1).
    rewrite Hf. cbn [bind].
    destruct (arr_construct_ok w s i h1 n init (upd s i (if init then repeat d n else [])) Hinv Hwf1 Hn1 Hfr1
                (upd_same _ _ _ _) (fun k Hk => upd_other _ _ _ _ _ Hk)) as (w2 & Hc & Hinv2).
    rewrite Hc. cbn [bind]. eauto.
  - (* ACopyCtor *)
    destruct (owns_free _ _ _ Hwf (ainv_obj _ _ i Hinv)) as (h1 & Hf & Hwf1 & Hn1 & Hfr1).
    rewrite Hf. cbn [bind].
    assert (Hoj : owns h1 (ob w j) (s j)).
    { apply owns_to with (h := hp w); [apply (ainv_obj _ _ j Hinv)|]. intros b Hb. apply Hfr1.
      destruct Hinv as (_ & _ & Hd). intros Hi. exact (Hd j i b (fun e => Hok (eq_sym e)) Hb Hi). }
    destruct (arr_copy_of_ok h1 (ob w j) (s j) Hwf1 Hoj) as (h2 & o2 & Hc & Hwf2 & Hn2 & Hfr2 & Hown2 & Hnew2).
    rewrite Hc. cbn [bind fst snd]. eexists. split; [reflexivity|].
    set_inv Hinv; [exact Hwf2 | | | others | ].
    + intros b Hlt Hne. rewrite Hfr2 by lia. now apply Hfr1.
    + now rewrite upd_same.
    + intros b Hb. left. rewrite <- Hn1. now apply Hnew2.
  - (* AMoveCtor *)
    destruct (owns_free _ _ _ Hwf (ainv_obj _ _ i Hinv)) as (h1 & Hf & Hwf1 & Hn1 & Hfr1).
    rewrite Hf. cbn [bind]. eexists. split; [reflexivity|].
    move_inv Hinv; [exact Hok | exact Hwf1 | | | | ].
    + intros b Hlt Hne. now apply Hfr1.
    + rewrite upd_other by auto. now rewrite upd_same.
    + now rewrite upd_same.
    + intros k Hki Hkj. now rewrite !upd_other by auto.
  - (* AMoveAssign *)
    destruct (Nat.eqb_spec i j) as [->|Hij]; [eauto|].
    destruct (owns_free _ _ _ Hwf (ainv_obj _ _ i Hinv)) as (h1 & Hf & Hwf1 & Hn1 & Hfr1).
    rewrite Hf. cbn [bind]. eexists. split; [reflexivity|].
    move_inv Hinv; [exact Hij | exact Hwf1 | | | | ].
    + intros b Hlt Hne. now apply Hfr1.
    + rewrite upd_other by auto. now rewrite upd_same.
    + now rewrite upd_same.
    + intros k Hki Hkj. now rewrite !upd_other by auto.
  - (* ACopyAssign *)
    destruct (Nat.eqb_spec i j) as [->|Hij].
    + eexists. split; [reflexivity|]. apply (inv_ext owns w s _ Hinv). intros k.
      destruct (Nat.eq_dec k j) as [->|Hk]; [now rewrite upd_same | now rewrite upd_other].
    + destruct (arr_copy_of_ok (hp w) (ob w j) (s j) Hwf (ainv_obj _ _ j Hinv))
        as (h2 & o2 & Hc & Hwf2 & Hn2 & Hfr2 & Hown2 & Hnew2).
      rewrite Hc. cbn [bind fst snd].
      assert (Hoi2 : owns h2 (ob w i) (s i)).
      { apply owns_to with (h := hp w); [apply (ainv_obj _ _ i Hinv)|]. intros b Hb. apply Hfr2.
        exact (ainv_lt w s i b Hinv Hb). }
      destruct (owns_free _ _ _ Hwf2 Hoi2) as (h3 & Hf & Hwf3 & Hn3 & Hfr3).
      rewrite Hf. cbn [bind]. eexists. split; [reflexivity|].
      set_inv Hinv; [exact Hwf3 | | | others | ].
      * intros b Hlt Hne. rewrite Hfr3 by assumption. now apply Hfr2.
      * rewrite upd_same. apply owns_to with (h := h2); [assumption|].
        intros b Hb. apply Hfr3. intros Hi. pose proof (Hnew2 b Hb). pose proof (ainv_lt w s i b Hinv Hi). lia.
      * intros b Hb. left. now apply Hnew2.
  - (* AAppendMove *)
    assert (Hji : j <> i) by auto.
    destruct (cap (ob w i)) as [|c'] eqn:Ecap.
    + pose proof (ainv_obj _ _ i Hinv) as Hoi. destruct (owns_len _ _ _ Hoi) as (Hlen & Hsc).
      assert (Hsi : s i = []) by (destruct (s i); [reflexivity|cbn in Hlen; lia]).
      eexists. split; [reflexivity|].
      move_inv Hinv; [exact Hok | exact Hwf | reflexivity | | | ].
      * rewrite upd_other by auto. now rewrite upd_same, Hsi.
      * now rewrite upd_same.
      * intros k Hki Hkj. now rewrite !upd_other by auto.
    + rewrite <- Ecap. clear c' Ecap.
      set (n_size := size (ob w i) + size (ob w j)).
      assert (Hstep : exists w1, (if cap (ob w i) <? n_size then arr_resize junk w i n_size else Ok w) = Ok w1
                       /\ ainv w1 s /\ size (ob w1 i) = size (ob w i) /\ n_size <= cap (ob w1 i) /\ ob w1 j = ob w j).
      { destruct (Nat.ltb_spec (cap (ob w i)) n_size) as [E|E].
        - destruct (arr_resize_ok w s i n_size Hinv ltac:(subst n_size; lia)) as (w1 & Hr & Hinv1 & Hoth & Hs1 & Hc1 & _).
          exists w1. splits; auto. lia.
        - exists w. splits; auto. }
      destruct Hstep as (w1 & -> & Hinv1 & Hs1 & Hcap1 & Hj1). cbn [bind].
      pose proof (ainv_obj _ _ i Hinv1) as Hoi. pose proof (ainv_obj _ _ j Hinv1) as Hoj.
      destruct (owns_len _ _ _ Hoi) as (Hleni & _). destruct (owns_len _ _ _ Hoj) as (Hlenj & _).
      unfold mcopy, copy_in, rd_src. rewrite (owns_read_all _ _ _ Hoj). cbn [bind].
      destruct (owns_write (hp w1) (ob w1 i) (s i) (size (ob w1 i)) (s j) (ainv_hwf _ _ Hinv1) Hoi
                  ltac:(rewrite Hlenj, Hj1; subst n_size; lia)) as (h2 & Hwr & Hwf2 & Hn2 & Hfr2 & _ & Hown2).
      rewrite Hwr. cbn [bind].
      (* intermediate world: i extended, j untouched *)
      set (oi' := mkObj (blk (ob w1 i)) n_size (cap (ob w1 i))).
      assert (Hinvm : ainv (mkW h2 (upd (ob w1) i oi')) (upd s i (s i ++ s j))).
      { set_inv Hinv1; [exact Hwf2 | | | others | newblk].
        - intros b Hlt Hne. now apply Hfr2.
        - rewrite upd_same. specialize (Hown2 ltac:(lia)).
          rewrite firstn_all2 in Hown2 by lia. subst oi' n_size. rewrite Hlenj, Hs1, Hj1 in Hown2.
          exact Hown2. }
      pose proof (ainv_obj _ _ j Hinvm) as Hojm. cbn [hp ob] in Hojm. rewrite upd_other in Hojm by auto.
      destruct (owns_free _ _ _ Hwf2 Hojm) as (h3 & Hf & Hwf3 & Hn3 & Hfr3).
      rewrite Hf. cbn [bind]. eexists. split; [reflexivity|].
      change (mkW h3 (upd (upd (ob w1) i oi') j null_obj)) with (mkW h3 (upd (ob (mkW h2 (upd (ob w1) i oi'))) j null_obj)).
      set_inv Hinvm; [exact Hwf3 | | | others | newblk].
      * cbn [hp ob]. intros b Hlt Hne. apply Hfr3. now rewrite upd_other in Hne by auto.
      * rewrite upd_same. apply owns_null.
  - (* AAppendCopy *)
    set (n_size := size (ob w i) + size (ob w j)).
    assert (Hstep : exists w1, (if cap (ob w i) <? n_size then arr_resize junk w i n_size else Ok w) = Ok w1
                     /\ ainv w1 s /\ size (ob w1 i) = size (ob w i) /\ n_size <= cap (ob w1 i) /\ size (ob w1 j) = size (ob w j)).
    { destruct (Nat.ltb_spec (cap (ob w i)) n_size) as [E|E].
      - destruct (arr_resize_ok w s i n_size Hinv ltac:(subst n_size; lia)) as (w1 & Hr & Hinv1 & Hoth & Hs1 & Hc1 & _).
        exists w1. splits; auto; try lia.
        destruct (Nat.eq_dec j i) as [->|Hji]; [assumption | now rewrite Hoth].
      - exists w. splits; auto. }
    destruct Hstep as (w1 & -> & Hinv1 & Hs1 & Hcap1 & Hj1). cbn [bind].
    pose proof (ainv_obj _ _ i Hinv1) as Hoi. pose proof (ainv_obj _ _ j Hinv1) as Hoj.
    destruct (owns_len _ _ _ Hoi) as (Hleni & _). destruct (owns_len _ _ _ Hoj) as (Hlenj & _).
    unfold mcopy, copy_in, rd_src.
    pose proof (owns_read_all _ _ _ Hoj) as Hrd. rewrite Hj1 in Hrd. rewrite Hrd. cbn [bind].
    destruct (owns_write (hp w1) (ob w1 i) (s i) (size (ob w i)) (s j) (ainv_hwf _ _ Hinv1) Hoi
                ltac:(subst n_size; lia)) as (h2 & Hwr & Hwf2 & Hn2 & Hfr2 & _ & Hown2).
    rewrite Hwr. cbn [bind]. eexists. split; [reflexivity|].
    set_inv Hinv1; [exact Hwf2 | | | others | newblk].
    + intros b Hlt Hne. now apply Hfr2.
    + rewrite upd_same. specialize (Hown2 ltac:(lia)).
      rewrite firstn_all2 in Hown2 by lia. subst n_size. rewrite Hlenj, Hj1 in Hown2. exact Hown2.
  - (* AAppendItem *)
    destruct (arr_append_item_ok w s i x (upd s i (s i ++ [x])) Hinv (upd_same _ _ _ _)
                (fun k Hk => upd_other _ _ _ _ _ Hk)) as (w1 & Hr & Hinv1).
    rewrite Hr. cbn [bind]. eauto.
  - (* AAppendOwn *)
    pose proof (ainv_obj _ _ i Hinv) as Hoi. destruct (owns_len _ _ _ Hoi) as (Hlen & _).
    rewrite Hlen.
    destruct (Nat.ltb_spec k (size (ob w i))) as [Hk|Hk]; [|eauto].
    unfold rd1. rewrite (owns_read _ _ _ k 1 Hoi) by lia. cbn [bind].
    assert (Hnth : firstn 1 (skipn k (s i)) = [nth k (s i) d]).
    { apply firstn1_skipn_nth. lia. }
    rewrite Hnth. cbn [bind].
    destruct (arr_append_item_ok w s i (nth k (s i) d) (upd s i (s i ++ [nth k (s i) d])) Hinv (upd_same _ _ _ _)
                (fun k Hk => upd_other _ _ _ _ _ Hk)) as (w1 & Hr & Hinv1).
    rewrite Hr. cbn [bind]. eauto.
  - (* AClear *)
    eexists. split; [reflexivity|].
    set_inv Hinv; [exact Hwf | reflexivity | | others | newblk].
    rewrite upd_same. apply (owns_shrink _ _ _ 0 (ainv_obj _ _ i Hinv)). lia.
  - (* AReset *)
    destruct (arr_reset_ok w s i (upd s i []) Hinv (upd_same _ _ _ _) (fun k Hk => upd_other _ _ _ _ _ Hk))
      as (w1 & Hr & Hinv1 & _). rewrite Hr. cbn [bind]. eauto.
  - (* ADetach *)
    destruct (arr_reset_ok w s i (upd s i []) Hinv (upd_same _ _ _ _) (fun k Hk => upd_other _ _ _ _ _ Hk))
      as (w1 & Hr & Hinv1 & _). rewrite Hr. cbn [bind]. eauto.
  - (* AReserve *)
    destruct (arr_reset_ok w s i (upd s i []) Hinv (upd_same _ _ _ _) (fun k Hk => upd_other _ _ _ _ _ Hk))
      as (w1 & Hr & Hinv1 & Hnull & _). rewrite Hr. cbn [bind].
    destruct (arr_construct_ok w1 (upd s i []) i (hp w1) n init (upd s i (if init then repeat d n else []))
                Hinv1 (ainv_hwf _ _ Hinv1) eq_refl (fun b _ => eq_refl) (upd_same _ _ _ _)) as (w2 & Hc & Hinv2).
    { intros k Hk. now rewrite !upd_other by assumption. }
    rewrite Hc. cbn [bind]. eauto.
  - (* AResize *)
    destruct (arr_Resize_ok w s i n (upd s i (firstn n (s i))) Hinv (upd_same _ _ _ _)
                (fun k Hk => upd_other _ _ _ _ _ Hk)) as (w1 & Hr & Hinv1 & _).
    rewrite Hr. cbn [bind]. eauto.
  - (* AResizeInit *)
    destruct (arr_Resize_ok w s i n (upd s i (firstn n (s i))) Hinv (upd_same _ _ _ _)
                (fun k Hk => upd_other _ _ _ _ _ Hk)) as (w1 & Hr & Hinv1 & Hcap & Hnull & Hsz).
    rewrite Hr. cbn [bind].
    pose proof (ainv_obj _ _ i Hinv) as Hoi0. destruct (owns_len _ _ _ Hoi0) as (Hlen0 & _).
    pose proof (ainv_obj _ _ i Hinv1) as Hoi. rewrite upd_same in Hoi.
    destruct (owns_len _ _ _ Hoi) as (Hlen1 & Hsc1).
    destruct n as [|n'].
    + specialize (Hnull eq_refl). rewrite Hnull. cbn [size cap blk]. cbn [Nat.ltb Nat.leb bind].
      eexists. split; [reflexivity|].
      change (mkObj None 0 0) with null_obj.
      set_inv Hinv1; [exact (ainv_hwf _ _ Hinv1) | reflexivity | | others | newblk].
      rewrite upd_same. cbn [firstn Nat.sub repeat app]. apply owns_null.
    + set (n := S n') in *. specialize (Hcap ltac:(discriminate)).
      set (fill := repeat d (n - size (ob w1 i))).
      assert (Hfill : exists h2, (if size (ob w1 i) <? n then wr_range (hp w1) (blk (ob w1 i)) (size (ob w1 i)) fill else Ok (hp w1)) = Ok h2
                       /\ hwf h2 /\ (forall b, blk (ob w1 i) <> Some b -> cells_of h2 b = cells_of (hp w1) b)
                       /\ owns h2 (mkObj (blk (ob w1 i)) n n) (firstn n (s i) ++ fill)).
      { destruct (owns_write (hp w1) (ob w1 i) (firstn n (s i)) (size (ob w1 i)) fill (ainv_hwf _ _ Hinv1) Hoi
                    ltac:(subst fill; rewrite repeat_length; lia)) as (h2 & Hwr & Hwf2 & Hn2 & Hfr2 & _ & Hown2).
        specialize (Hown2 ltac:(lia)). rewrite firstn_all2 in Hown2 by lia.
        subst fill. rewrite repeat_length in Hown2. rewrite Hcap in Hown2.
        replace (size (ob w1 i) + (n - size (ob w1 i))) with n in Hown2 by lia.
        destruct (Nat.ltb_spec (size (ob w1 i)) n) as [E|E].
        - exists h2. auto.
        - exists (hp w1). replace (n - size (ob w1 i)) with 0 in * by lia. cbn [repeat] in *.
          rewrite wr_range_nil in Hwr. injection Hwr as <-. split; [reflexivity|]. auto. }
      destruct Hfill as (h2 & -> & Hwf2 & Hfr2 & Hown2). cbn [bind]. rewrite Hcap.
      eexists. split; [reflexivity|].
      set_inv Hinv1; [exact Hwf2 | | | others | newblk].
      * intros b Hlt Hne. now apply Hfr2.
      * rewrite upd_same. subst fill. rewrite Hsz in Hown2.
        replace (n - Nat.min n (size (ob w i))) with (n - length (s i)) in Hown2 by lia. exact Hown2.
  - (* AExpect *)
    destruct (Nat.ltb_spec (cap (ob w i)) (n + size (ob w i))) as [E|E].
    + destruct (arr_resize_ok w s i (n + size (ob w i)) Hinv ltac:(lia)) as (w1 & Hr & Hinv1 & _).
      rewrite Hr. cbn [bind]. eauto.
    + cbn [bind]. eauto.
  - (* ACompress *)
    pose proof (ainv_obj _ _ i Hinv) as Hoi. destruct (owns_len _ _ _ Hoi) as (Hlen & _).
    destruct (arr_Resize_ok w s i (size (ob w i)) s Hinv ltac:(rewrite firstn_all2; [reflexivity|lia]) (fun k _ => eq_refl))
      as (w1 & Hr & Hinv1 & _).
    rewrite Hr. cbn [bind]. eauto.
  - (* ADrop *)
    pose proof (ainv_obj _ _ i Hinv) as Hoi. destruct (owns_len _ _ _ Hoi) as (Hlen & _). rewrite Hlen.
    destruct (Nat.leb_spec n (size (ob w i))) as [E|E]; [|eauto].
    eexists. split; [reflexivity|].
    set_inv Hinv; [exact Hwf | reflexivity | | others | newblk].
    rewrite upd_same. apply owns_shrink; [assumption|lia].
  - (* ASwap *)
    pose proof (ainv_obj _ _ i Hinv) as Hoi. destruct (owns_len _ _ _ Hoi) as (Hlen & _). rewrite Hlen.
    destruct ((k1 <? size (ob w i)) && (k2 <? size (ob w i))) eqn:Ek; [|eauto].
    apply andb_true_iff in Ek. destruct Ek as (Hk1 & Hk2). apply Nat.ltb_lt in Hk1, Hk2.
    unfold rd1.
    rewrite (owns_read _ _ _ k1 1 Hoi) by lia. rewrite (firstn1_skipn_nth _ d) by lia. cbn [bind].
    rewrite (owns_read _ _ _ k2 1 Hoi) by lia. rewrite (firstn1_skipn_nth _ d) by lia. cbn [bind].
    destruct (owns_write_in (hp w) (ob w i) (s i) k1 [nth k2 (s i) d] Hwf Hoi ltac:(cbn [length]; lia))
      as (h1 & Hw1 & Hwf1 & Hn1 & Hfr1 & Hown1).
    unfold wr1. rewrite Hw1. cbn [bind].
    destruct (owns_write_in h1 (ob w i) _ k2 [nth k1 (s i) d] Hwf1 Hown1 ltac:(cbn [length]; lia))
      as (h2 & Hw2 & Hwf2 & Hn2 & Hfr2 & Hown2).
    rewrite Hw2. cbn [bind]. eexists. split; [reflexivity|].
    apply (ainv_ob_ext (mkW h2 (upd (ob w) i (ob w i)))).
    + reflexivity.
    + intros k. cbn [ob]. destruct (Nat.eq_dec k i) as [->|Hk]; [now rewrite upd_same | now rewrite upd_other].
    + set_inv Hinv; [exact Hwf2 | | | others | newblk].
      * intros b Hlt Hne. rewrite Hfr2 by assumption. now apply Hfr1.
      * rewrite upd_same. exact Hown2.
  - (* AIter *)
    rewrite (owns_read_all _ _ _ (ainv_obj _ _ i Hinv)). cbn [bind]. eauto.
Qed.

Lemma ainv0 : ainv world0 spec0.
Proof.
  split; [intros b _; reflexivity|]. split; [intros k; apply owns_null|]. intros k k' b _ Hb. discriminate.
Qed.

(* histories *)
Theorem arun_refines : forall ops (w : world) s, ainv w s -> Forall aop_ok ops ->
  exists w', arun ops w = Ok (w', snd (aspec_run ops s)) /\ ainv w' (fst (aspec_run ops s)).
Proof.
  induction ops as [|op ops IH]; intros w s Hinv Hok.
  - cbn. eauto.
  - inversion Hok as [|? ? Hop Hops]; subst.
    destruct (astep_refines w s op Hinv Hop) as (w1 & Hs & Hinv1).
    destruct (IH w1 _ Hinv1 Hops) as (w2 & Hr & Hinv2).
    unfold arun, aspec_run in *. cbn [run spec_run]. rewrite Hs. cbn [bind fst snd]. rewrite Hr. cbn [bind fst snd].
    eauto.
Qed.

(* what the observer reads equals the specification's list; size <= capacity *)
Lemma ainv_dump : forall (w : world) s k, ainv w s -> dump w k = Ok (s k) /\ size (ob w k) <= cap (ob w k).
Proof.
  intros w s k Hinv. pose proof (ainv_obj _ _ k Hinv) as Ho. split.
  - unfold dump. now apply owns_read_all.
  - now destruct (owns_len _ _ _ Ho).
Qed.

End ArrayProofs.
