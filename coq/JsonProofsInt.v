(* JsonProofsInt.v -- integers that fit 64 bits are read exactly (the integer part of C06):
   the number scanner on a decimal numeral followed by whitespace, a comma, a closing bracket
   or the end of the text. *)
From Coq Require Import NArith ZArith List Bool Lia.
From Qv Require Import gen.Tables_json JsonModel JsonSpec JsonProofsBase JsonProofsNum JsonProofsDoc.
Import ListNotations.
Local Open Scope N_scope.

Definition facc (t : list N) (n : N) : N := fold_left (fun a c => m64 (a * 10 + c - dc_zero)) t n.
Definition pacc (t : list N) (n : N) : N := fold_left (fun a c => a * 10 + (c - dc_zero)) t n.

Lemma dval_pacc : forall ds, dval ds = pacc ds 0.
Proof. reflexivity. Qed.

Lemma is_dig_bounds : forall c, is_dig c = true -> 48 <= c <= 57.
Proof. intros c H. unfold is_dig in H. apply andb_true_iff in H. destruct H as [H1 H2]. apply N.leb_le in H1. apply N.leb_le in H2. change dc_zero with 48 in H1. change dc_nine with 57 in H2. lia. Qed.

Lemma pacc_mono : forall t a, a <= pacc t a.
Proof. induction t as [|c t IH]; intros a; cbn; [lia|]. etransitivity; [|apply IH]. lia. Qed.

Lemma pacc_pow : forall t a, a * 10 ^ N.of_nat (length t) <= pacc t a.
Proof.
  induction t as [|c t IH]; intros a; [cbn; lia|].
  cbn [pacc fold_left length]. fold (pacc t (a * 10 + (c - dc_zero))).
  etransitivity; [|apply IH]. rewrite Nat2N.inj_succ, N.pow_succ_r'.
  apply N.mul_le_mono_r with (p := 10 ^ N.of_nat (length t)) (n := a * 10) (m := a * 10 + (c - dc_zero)) in IH || idtac.
  nia.
Qed.

Lemma facc_pacc : forall t n, forallb is_dig t = true -> pacc t n < 18446744073709551616 -> facc t n = pacc t n.
Proof.
  induction t as [|c t IH]; intros n Hd Hv; [reflexivity|].
  cbn [forallb] in Hd. apply andb_true_iff in Hd. destruct Hd as [Hc Hd]. apply is_dig_bounds in Hc.
  cbn [facc pacc fold_left] in *. fold (facc t (m64 (n * 10 + c - dc_zero))). fold (pacc t (n * 10 + (c - dc_zero))) in *.
  pose proof (pacc_mono t (n * 10 + (c - dc_zero))) as Hm.
  replace (m64 (n * 10 + c - dc_zero)) with (n * 10 + (c - dc_zero)).
  - apply IH; assumption.
  - unfold m64. change dc_zero with 48 in *. rewrite N.mod_small by lia. lia.
Qed.

(* digits_upto on a run of digits that fits the window *)
Lemma du_all : forall t m i d n rest, forallb is_dig t = true ->
  (i + length t <= m)%nat -> (m <= i + length t + length rest)%nat ->
  ((i + length t = m)%nat \/ match rest with [] => True | c :: _ => is_dig c = false end) ->
  exists d', digits_upto m i (t ++ rest) d n = JOk ((i + length t)%nat, rest, d', facc t n) /\
             (d' = d \/ is_dig d' = true \/ exists tl, rest = d' :: tl).
Proof.
  induction t as [|c t IH]; intros m i d n rest Hd H1 H2 H3.
  - cbn [app length facc fold_left]. rewrite Nat.add_0_r in *. destruct rest as [|c r]; cbn [digits_upto].
    + replace (i <? m)%nat with false by (symmetry; apply Nat.ltb_ge; cbn in H2; lia). eauto.
    + destruct (i <? m)%nat eqn:E.
      * apply Nat.ltb_lt in E. destruct H3 as [H3|H3]; [lia|]. rewrite H3. eauto 6.
      * eauto.
  - cbn [forallb] in Hd. apply andb_true_iff in Hd. destruct Hd as [Hc Hd].
    cbn [app digits_upto length] in *.
    replace (i <? m)%nat with true by (symmetry; apply Nat.ltb_lt; lia). rewrite Hc.
    destruct (IH m (S i) c (m64 (n * 10 + c - dc_zero)) rest Hd) as (d' & E & Hd'); try lia.
    { destruct H3 as [H3|H3]; [left; lia|right; assumption]. }
    exists d'. replace (i + S (length t))%nat with (S i + length t)%nat by lia. split; [exact E|].
    destruct Hd' as [Hd'|Hd']; [subst; auto|auto].
Qed.

Lemma follow_facts : forall c r, num_follow (c :: r) = true ->
  is_dig c = false /\ is_dee c = false /\ (c =? dc_dot) = false /\ (c =? dc_x) = false /\ (c =? dc_ux) = false.
Proof.
  intros c r H. cbn [num_follow] in H. unfold is_ws in H.
  repeat (apply orb_true_iff in H; destruct H as [H|H]); apply N.eqb_eq in H; subst c; repeat split; reflexivity.
Qed.

Lemma follow_head : forall rest, num_follow rest = true -> match rest with [] => True | c :: _ => is_dig c = false end.
Proof. intros [|c r] H; [exact I|]. apply (follow_facts c r H). Qed.

(* the state after the first digit *)
Definition st1 (i : nat) (r : list N) (d : N) : mst :=
  {| m_i := S i; m_r := r; m_digit := d; m_num := m64 (d - dc_zero); m_hasdot := false; m_real := false; m_dot := O |}.

Definition int_result (neg : bool) (v : N) (rest : list N) : numres :=
  if negb neg then NumNat v rest else NumInt (Z.opp (Z.of_N v)) rest.

Lemma not_dot_cases : forall d' d rest, is_dig d = true -> num_follow rest = true ->
  (d' = d \/ is_dig d' = true \/ exists tl, rest = d' :: tl) -> (d' =? dc_dot) = false.
Proof.
  intros d' d rest Hd Hf [H|[H|[tl H]]].
  - subst d'. apply is_dig_bounds in Hd. apply N.eqb_neq. change dc_dot with 46. lia.
  - apply is_dig_bounds in H. apply N.eqb_neq. change dc_dot with 46. lia.
  - subst rest. apply (follow_facts _ _ Hf).
Qed.

(* at most 19 digits: everything is inside the window *)
Lemma go_short : forall neg i d t rest v,
  is_dig19 d = true -> forallb is_dig t = true -> (S (length t) <= 19)%nat ->
  pacc t (d - dc_zero) = v -> v < 18446744073709551616 -> num_follow rest = true ->
  (neg = true -> 0 < v /\ v <= int_min_abs) ->
  scan_go neg (st1 i (t ++ rest) d) (window i (d :: t ++ rest)) false i = JOk (int_result neg v rest).
Proof.
  intros neg i d t rest v Hd19 Ht Hlen Hv Hlt Hf Hneg.
  assert (Hd : is_dig d = true).
  { unfold is_dig19 in Hd19. unfold is_dig. apply andb_true_iff in Hd19. destruct Hd19 as [H1 H2].
    rewrite H2. apply N.ltb_lt in H1. replace (dc_zero <=? d) with true by (symmetry; apply N.leb_le; lia). reflexivity. }
  assert (Hd0 : m64 (d - dc_zero) = d - dc_zero).
  { apply is_dig_bounds in Hd. unfold m64. change dc_zero with 48. apply N.mod_small. lia. }
  set (m := window i (d :: t ++ rest)).
  assert (Hm1 : (S i + length t <= m)%nat).
  { unfold m, window. cbn [length]. rewrite app_length. destruct (S (length t + length rest) <? 19)%nat eqn:E; [lia|lia]. }
  assert (Hm2 : (m <= S i + length t + length rest)%nat).
  { unfold m, window. cbn [length]. rewrite app_length. destruct (S (length t + length rest) <? 19)%nat eqn:E; [lia|].
    apply Nat.ltb_ge in E. lia. }
  (* the mantissa loop *)
  assert (Hloop : exists d', mant_loop 3 m (st1 i (t ++ rest) d) =
            JOk (MBreak {| m_i := (S i + length t)%nat; m_r := rest; m_digit := d'; m_num := v; m_hasdot := false; m_real := false; m_dot := O |})).
  { cbn [mant_loop]. unfold st1 at 1. cbn [m_r].
    destruct (has (t ++ rest)) eqn:Eh.
    - unfold mant_iter. unfold st1. cbn [m_i m_r m_digit m_num m_hasdot m_real m_dot].
      destruct (du_all t m (S i) d (m64 (d - dc_zero)) rest Ht Hm1 Hm2 (or_intror (follow_head rest Hf))) as (d' & E & Hd').
      rewrite E. cbn [bind]. rewrite (not_dot_cases d' d rest Hd Hf Hd').
      rewrite Hd0. rewrite facc_pacc by (try assumption; rewrite Hv; assumption). rewrite Hv. cbn [bind]. eauto.
    - destruct t; [|discriminate]. destruct rest; [|discriminate]. cbn [app length] in *.
      exists d. unfold st1. rewrite Hd0. cbn in Hv. rewrite Hv. rewrite Nat.add_0_r. reflexivity. }
  destruct Hloop as (d' & Hloop). unfold scan_go. rewrite Hloop. cbn [bind m_i m_r m_num m_real m_hasdot m_dot negb andb].
  (* the 20th-digit step does nothing *)
  assert (Hstep : forall X : Type, True) by (intros; exact I).
  destruct rest as [|c r].
  - cbn [has bind negb andb]. unfold int_result. destruct neg; cbn [negb andb]; [|reflexivity].
    destruct (Hneg eq_refl) as [Hpos Hmax].
    replace (v =? 0) with false by (symmetry; apply N.eqb_neq; lia).
    replace (v <=? int_min_abs) with true by (symmetry; apply N.leb_le; assumption). reflexivity.
  - destruct (follow_facts c r Hf) as (F1 & F2 & _). cbn [has rd bind negb andb]. rewrite F2, F1. cbn [bind negb andb].
    unfold int_result. destruct neg; cbn [negb andb]; [|reflexivity].
    destruct (Hneg eq_refl) as [Hpos Hmax].
    replace (v =? 0) with false by (symmetry; apply N.eqb_neq; lia).
    replace (v <=? int_min_abs) with true by (symmetry; apply N.leb_le; assumption). reflexivity.
Qed.

Lemma pacc_app : forall a b n, pacc (a ++ b) n = pacc b (pacc a n).
Proof. intros. unfold pacc. apply fold_left_app. Qed.

Lemma is_dig_not_dee : forall c, is_dig c = true -> is_dee c = false.
Proof.
  intros c H. apply is_dig_bounds in H. unfold is_dee.
  replace (c =? dc_dot) with false by (symmetry; apply N.eqb_neq; change dc_dot with 46; lia).
  replace (c =? dc_e) with false by (symmetry; apply N.eqb_neq; change dc_e with 101; lia).
  replace (c =? dc_ue) with false by (symmetry; apply N.eqb_neq; change dc_ue with 69; lia).
  reflexivity.
Qed.

(* exactly 20 digits: 19 in the window, the 20th by the overflow test *)
Lemma go_20 : forall neg i d t18 d20 rest v,
  is_dig19 d = true -> forallb is_dig t18 = true -> length t18 = 18%nat -> is_dig d20 = true ->
  pacc (t18 ++ [d20]) (d - dc_zero) = v -> v < 18446744073709551616 -> num_follow rest = true ->
  (neg = true -> 0 < v /\ v <= int_min_abs) ->
  scan_go neg (st1 i ((t18 ++ [d20]) ++ rest) d) (window i (d :: (t18 ++ [d20]) ++ rest)) false i = JOk (int_result neg v rest).
Proof.
  intros neg i d t18 d20 rest v Hd19 Ht Hlen Hd20 Hv Hlt Hf Hneg.
  assert (Hd : is_dig d = true).
  { unfold is_dig19 in Hd19. unfold is_dig. apply andb_true_iff in Hd19. destruct Hd19 as [H1 H2].
    rewrite H2. apply N.ltb_lt in H1. replace (dc_zero <=? d) with true by (symmetry; apply N.leb_le; lia). reflexivity. }
  assert (Hd0 : m64 (d - dc_zero) = d - dc_zero).
  { apply is_dig_bounds in Hd. unfold m64. change dc_zero with 48. apply N.mod_small. lia. }
  rewrite pacc_app in Hv. cbn [pacc fold_left] in Hv. fold (pacc t18 (d - dc_zero)) in Hv.
  set (n19 := pacc t18 (d - dc_zero)) in *.
  pose proof (is_dig_bounds _ Hd20) as Hb20. change dc_zero with 48 in Hv.
  assert (Hw : window i (d :: (t18 ++ [d20]) ++ rest) = (i + 19)%nat).
  { unfold window. cbn [length]. rewrite !app_length. cbn [length]. rewrite Hlen.
    replace (S (18 + 1 + length rest) <? 19)%nat with false by (symmetry; apply Nat.ltb_ge; lia). reflexivity. }
  rewrite Hw. rewrite <- app_assoc. cbn [app].
  assert (Hloop : exists d', mant_loop 3 (i + 19) (st1 i (t18 ++ d20 :: rest) d) =
            JOk (MBreak {| m_i := (S i + 18)%nat; m_r := d20 :: rest; m_digit := d'; m_num := n19; m_hasdot := false; m_real := false; m_dot := O |})).
  { cbn [mant_loop]. unfold st1 at 1. cbn [m_r].
    replace (has (t18 ++ d20 :: rest)) with true by (destruct t18; reflexivity).
    unfold mant_iter. unfold st1. cbn [m_i m_r m_digit m_num m_hasdot m_real m_dot].
    assert (Ha1 : (S i + length t18 <= i + 19)%nat) by lia.
    assert (Ha2 : (i + 19 <= S i + length t18 + length (d20 :: rest))%nat) by (cbn [length]; lia).
    assert (Ha3 : (S i + length t18 = i + 19)%nat \/ match d20 :: rest with [] => True | c :: _ => is_dig c = false end) by (left; lia).
    destruct (du_all t18 (i + 19) (S i) d (m64 (d - dc_zero)) (d20 :: rest) Ht Ha1 Ha2 Ha3) as (d' & E & Hd').
    rewrite Hlen in E. rewrite E. cbn [bind].
    assert (Hnd : (d' =? dc_dot) = false).
    { destruct Hd' as [H|[H|[tl H]]].
      - subst d'. apply is_dig_bounds in Hd. apply N.eqb_neq. change dc_dot with 46. lia.
      - apply is_dig_bounds in H. apply N.eqb_neq. change dc_dot with 46. lia.
      - inversion H; subst. apply N.eqb_neq. change dc_dot with 46. lia. }
    rewrite Hnd. rewrite Hd0. rewrite facc_pacc; [| assumption | fold n19; lia]. fold n19. cbn [bind]. eauto. }
  destruct Hloop as (d' & Hloop). unfold scan_go. rewrite Hloop. cbn [bind m_i m_r m_num m_real m_hasdot m_dot negb andb has rd].
  rewrite (is_dig_not_dee _ Hd20). rewrite Hd20.
  replace ((nat_max_div10 <? n19) || (n19 =? nat_max_div10) && (dc_five <? d20)) with false.
  2:{ symmetry. apply orb_false_iff. unfold nat_max_div10. change dc_five with 53. split.
      - apply N.ltb_ge. lia.
      - destruct (n19 =? 1844674407370955161) eqn:E; [|reflexivity]. apply N.eqb_eq in E. cbn [andb]. apply N.ltb_ge. lia. }
  cbn [adv bind].
  replace (m64 (n19 * 10 + d20 - dc_zero)) with v by (unfold m64; change dc_zero with 48; rewrite N.mod_small by lia; lia).
  assert (Hfin : forall tmp i2, (if negb false && negb neg then JOk (NumNat v rest)
                  else if negb false && (v =? 0) then JOk (NumReal rest)
                  else if negb false && (v <=? int_min_abs) then JOk (NumInt (- Z.of_N v) rest)
                  else if negb (v =? 0) || false then JOk (real_tail v i2 rest false false 0 i tmp) else JOk (NumReal rest))
                 = JOk (int_result neg v rest)).
  { intros. unfold int_result. destruct neg; cbn [negb andb]; [|reflexivity].
    destruct (Hneg eq_refl) as [Hpos Hmax].
    replace (v =? 0) with false by (symmetry; apply N.eqb_neq; lia).
    replace (v <=? int_min_abs) with true by (symmetry; apply N.leb_le; assumption). reflexivity. }
  destruct rest as [|c r].
  - cbn [has bind]. apply Hfin.
  - destruct (follow_facts c r Hf) as (F1 & F2 & _). cbn [has rd bind]. rewrite F1, F2. cbn [orb]. apply Hfin.
Qed.

Lemma len_bound : forall d t, is_dig19 d = true -> pacc t (d - dc_zero) < 18446744073709551616 -> (length t <= 19)%nat.
Proof.
  intros d t Hd Hv. pose proof (pacc_pow t (d - dc_zero)) as Hp.
  assert (H1 : 1 <= d - dc_zero).
  { unfold is_dig19 in Hd. apply andb_true_iff in Hd. destruct Hd as [H1 _]. apply N.ltb_lt in H1. change dc_zero with 48 in *. lia. }
  destruct (le_lt_dec (length t) 19) as [Hl|Hl]; [assumption|exfalso].
  assert (H20 : 10 ^ 20 <= 10 ^ N.of_nat (length t)) by (apply N.pow_le_mono_r; lia).
  change (10 ^ 20) with 100000000000000000000 in H20. nia.
Qed.

Lemma split_last : forall (t : list N), (length t = 19)%nat -> exists t18 d20, t = t18 ++ [d20] /\ length t18 = 18%nat.
Proof.
  intros t H. exists (firstn 18 t), (nth 18 t 0). split.
  - do 19 (destruct t as [|? t]; [discriminate|]). destruct t; [reflexivity|discriminate].
  - rewrite firstn_length. lia.
Qed.

Lemma go_int : forall neg i d t rest v,
  is_dig19 d = true -> forallb is_dig t = true ->
  pacc t (d - dc_zero) = v -> v < 18446744073709551616 -> num_follow rest = true ->
  (neg = true -> 0 < v /\ v <= int_min_abs) ->
  scan_go neg (st1 i (t ++ rest) d) (window i (d :: t ++ rest)) false i = JOk (int_result neg v rest).
Proof.
  intros neg i d t rest v Hd Ht Hv Hlt Hf Hneg.
  assert (Hl : (length t <= 19)%nat) by (eapply len_bound; [eassumption|rewrite Hv; assumption]).
  destruct (Nat.eq_dec (length t) 19) as [E|E].
  - destruct (split_last t E) as (t18 & d20 & Et & El). subst t.
    rewrite forallb_app in Ht. apply andb_true_iff in Ht. destruct Ht as [Ht1 Ht2]. cbn [forallb] in Ht2. rewrite andb_true_r in Ht2.
    apply go_20; assumption.
  - apply go_short; try assumption. lia.
Qed.

Lemma digit_not_sign : forall d, is_dig d = true -> (d =? dc_neg) = false /\ (d =? dc_pos) = false.
Proof. intros d H. apply is_dig_bounds in H. split; apply N.eqb_neq; [change dc_neg with 45|change dc_pos with 43]; lia. Qed.

Lemma first_digit : forall d t, digits_wf (d :: t) = true -> (d =? dc_zero) = false -> is_dig19 d = true /\ forallb is_dig t = true.
Proof.
  intros d t H Hz. unfold digits_wf in H. apply andb_true_iff in H. destruct H as [H _].
  cbn [forallb] in H. apply andb_true_iff in H. destruct H as [Hd Ht]. split; [|assumption].
  apply is_dig_bounds in Hd. apply N.eqb_neq in Hz. change dc_zero with 48 in Hz. unfold is_dig19.
  replace (dc_zero <? d) with true by (symmetry; apply N.ltb_lt; change dc_zero with 48; lia).
  replace (d <=? dc_nine) with true by (symmetry; apply N.leb_le; change dc_nine with 57; lia). reflexivity.
Qed.

Lemma zero_alone : forall rest, num_follow rest = true -> scan_number (dc_zero :: rest) = JOk (NumNat 0 rest).
Proof.
  intros rest Hf. destruct rest as [|c r]; [vm_compute; reflexivity|].
  destruct (follow_facts c r Hf) as (F1 & F2 & F3 & F4 & F5).
  unfold scan_number. cbn [has negb rd bind]. change (dc_zero =? dc_neg) with false. change (dc_zero =? dc_pos) with false. cbn iota.
  unfold scan_unsigned. cbn [has negb rd bind]. change (is_dig19 dc_zero) with false. cbn iota.
  change ((dc_zero =? dc_zero) || (dc_zero =? dc_dot)) with true. cbn iota.
  unfold scan_zero. cbn [tl has andb adv rd bind]. change (dc_zero =? dc_zero) with true. cbn [andb adv rd bind].
  rewrite F4, F5, F1. cbn [orb bind]. rewrite F3.
  unfold scan_go. cbn [mant_loop m_r has]. unfold mant_iter. cbn [m_i m_r m_digit m_num m_hasdot m_real m_dot digits_upto].
  assert (Hw : (1 <? window 1 (c :: r))%nat = true).
  { unfold window. cbn [length]. destruct (S (length r) <? 19)%nat; apply Nat.ltb_lt; lia. }
  rewrite Hw, F1. cbn [bind]. rewrite F3. cbn [bind m_i m_r m_num m_real m_hasdot m_dot negb andb has rd].
  rewrite F2, F1. cbn [bind negb andb]. reflexivity.
Qed.

Theorem nat_ok : nat_ok_stmt.
Proof.
  intros ds rest Hwf Hv Hf. destruct ds as [|d t]; [discriminate|].
  destruct (d =? dc_zero) eqn:Ez.
  - apply N.eqb_eq in Ez. subst d. destruct t as [|d2 t].
    + cbn [app]. rewrite zero_alone by assumption. reflexivity.
    + unfold digits_wf in Hwf. apply andb_true_iff in Hwf. destruct Hwf as [_ Hwf]. discriminate.
  - destruct (first_digit d t Hwf Ez) as [Hd Ht].
    assert (Hdg : is_dig d = true).
    { unfold digits_wf in Hwf. apply andb_true_iff in Hwf. destruct Hwf as [H _]. cbn [forallb] in H. apply andb_true_iff in H. tauto. }
    destruct (digit_not_sign d Hdg) as [Hn Hp].
    cbn [app]. unfold scan_number. cbn [has negb rd bind]. rewrite Hn, Hp.
    unfold scan_unsigned. cbn [has negb rd bind adv]. rewrite Hd.
    rewrite dval_pacc in *. cbn [pacc fold_left] in *. fold (pacc t (0 * 10 + (d - dc_zero))) in *. rewrite N.mul_0_l, N.add_0_l in *.
    pose proof (go_int false 0 d t rest (pacc t (d - dc_zero)) Hd Ht eq_refl Hv Hf) as Hgo.
    unfold st1 in Hgo. rewrite Hgo by discriminate. reflexivity.
Qed.

Theorem neg_ok : neg_ok_stmt.
Proof.
  intros ds rest Hwf Hpos Hmax Hf. destruct ds as [|d t]; [discriminate|].
  assert (Ez : (d =? dc_zero) = false).
  { destruct (d =? dc_zero) eqn:Ez; [|reflexivity]. apply N.eqb_eq in Ez. subst d. destruct t as [|d2 t].
    - cbn in Hpos. lia.
    - unfold digits_wf in Hwf. apply andb_true_iff in Hwf. destruct Hwf as [_ Hwf]. discriminate. }
  destruct (first_digit d t Hwf Ez) as [Hd Ht].
  cbn [app]. unfold scan_number. cbn [has negb rd bind adv]. rewrite N.eqb_refl. cbn [bind].
  unfold scan_unsigned. cbn [has negb rd bind adv]. rewrite Hd.
  rewrite dval_pacc in *. cbn [pacc fold_left] in *. fold (pacc t (0 * 10 + (d - dc_zero))) in *. rewrite N.mul_0_l, N.add_0_l in *.
  assert (Hlt : pacc t (d - dc_zero) < 18446744073709551616) by (unfold int_min_abs in Hmax; lia).
  pose proof (go_int true 1 d t rest (pacc t (d - dc_zero)) Hd Ht eq_refl Hlt Hf) as Hgo.
  unfold st1 in Hgo. rewrite Hgo by (intros _; split; assumption). reflexivity.
Qed.
