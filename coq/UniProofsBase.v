(* UniProofsBase.v -- C20: bounded universal quantification by binary splitting
   (no list of the domain is built, no nat), its soundness lemma, and the
   predicates swept by the UniSweep*.v files. *)
From Coq Require Import NArith List Bool Lia.
From Qv Require Import UniModel.
Import ListNotations.
Local Open Scope N_scope.

Fixpoint forall_bits (bits : nat) (prefix : N) (P : N -> bool) : bool :=
  match bits with
  | O => P prefix
  | S k => forall_bits k (N.double prefix) P && forall_bits k (N.succ_double prefix) P
  end.

Lemma forall_bits_spec : forall bits prefix P,
  forall_bits bits prefix P = true ->
  forall x, x < 2 ^ N.of_nat bits -> P (prefix * 2 ^ N.of_nat bits + x) = true.
Proof.
  induction bits as [|k IH]; intros prefix P H x Hx.
  - cbn in Hx. assert (x = 0) by lia. subst x. cbn [forall_bits] in H.
    change (2 ^ N.of_nat 0) with 1. rewrite N.mul_1_r, N.add_0_r. exact H.
  - cbn [forall_bits] in H. apply andb_true_iff in H. destruct H as [H0 H1].
    rewrite Nat2N.inj_succ, N.pow_succ_r' in *.
    destruct (N.ltb_spec x (2 ^ N.of_nat k)) as [Hlt|Hge].
    + specialize (IH _ _ H0 x Hlt). rewrite N.double_spec in IH.
      replace (prefix * (2 * 2 ^ N.of_nat k) + x) with (2 * prefix * 2 ^ N.of_nat k + x) by lia. exact IH.
    + assert (Hlt : x - 2 ^ N.of_nat k < 2 ^ N.of_nat k) by lia.
      specialize (IH _ _ H1 _ Hlt). rewrite N.succ_double_spec in IH.
      replace (prefix * (2 * 2 ^ N.of_nat k) + x) with ((2 * prefix + 1) * 2 ^ N.of_nat k + (x - 2 ^ N.of_nat k)) by lia.
      exact IH.
Qed.

(* all x < bound*2^bits *)
Lemma forall_bits_below : forall bits P,
  forall_bits bits 0 P = true -> forall x, x < 2 ^ N.of_nat bits -> P x = true.
Proof. intros bits P H x Hx. apply (forall_bits_spec bits 0 P H x Hx). Qed.

(* the 17 blocks of 2^16 code points cover 0 .. 10FFFF *)
Definition blocks (l : list N) (P : N -> bool) : bool := forallb (fun b => forall_bits 16 b P) l.

Lemma blocks_cover : forall P l1 l2 l3,
  blocks l1 P = true -> blocks l2 P = true -> blocks l3 P = true ->
  (forall b, b < 17 -> In b (l1 ++ l2 ++ l3)) ->
  forall cp, cp < 0x110000 -> P cp = true.
Proof.
  intros P l1 l2 l3 H1 H2 H3 Hc cp Hcp.
  assert (Hb : cp / 65536 < 17) by (apply N.div_lt_upper_bound; lia).
  specialize (Hc _ Hb).
  assert (Hf : forall_bits 16 (cp / 65536) P = true).
  { unfold blocks in *. rewrite forallb_forall in H1, H2, H3.
    apply in_app_or in Hc. destruct Hc as [Hc|Hc]; [now apply H1|].
    apply in_app_or in Hc. destruct Hc as [Hc|Hc]; [now apply H2|now apply H3]. }
  pose proof (forall_bits_spec 16 _ P Hf (cp mod 65536)) as Hs.
  change (2 ^ N.of_nat 16) with 65536 in Hs.
  rewrite (N.div_mod cp 65536) at 1 by lia.
  rewrite N.mul_comm. apply Hs. apply N.mod_lt. lia.
Qed.

Lemma cover_17 : forall b, b < 17 ->
  In b ([0;1;2;3;4;5] ++ [6;7;8;9;10;11] ++ [12;13;14;15;16]).
Proof.
  intros b Hb. cbn [app].
  destruct b as [|p]; [left; reflexivity|].
  do 16 (destruct p as [p|p|]; cbn; try lia; auto 20).
Qed.

Definition opt_is (o : option N) (x : N) : bool := match o with Some y => y =? x | None => false end.

(* encoders against the standard; the standard against an independent decoder *)
Definition P8 (cp : N) : bool :=
  implb (scalarb cp)
    (let s := std_utf8 cp in
     eqb_list (to_utf8 cp) s && opt_is (dec_utf8 s) cp && Nat.eqb (length s) (utf8_len cp)).
Definition P16 (cp : N) : bool :=
  implb (scalarb cp) (let s := std_utf16 cp in eqb_list (to_utf16 cp) s && opt_is (dec_utf16 s) cp).

(* the surrogate test singles out exactly D800..DBFF among 16-bit values *)
Definition Psur (x : N) : bool := Bool.eqb (is_high_surrogate x) ((0xD800 <=? x) && (x <? 0xDC00)).
