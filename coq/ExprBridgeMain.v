(* ExprBridgeMain.v -- corollaries of the bridge: the renderer's expression hooks of the
   end-to-end statement expressed through the faithful evaluator, and c02_full read with it. *)
From Coq Require Import NArith ZArith List Bool Arith Lia.
From Qv Require Import gen.Tables gen.Tables_tmpl gen.Tables_expr gen.Tables_digit gen.Tables_tparse
  FinderModel EscapeModel TmplModel TmplRender TmplProofs TparseModel TrenderModel TrenderProofs TrenderInst
  TfullModel TfullMain.
From Qv Require ExprModel ExprProofs3.
From Qv Require Import ExprBridgeModel ExprBridgeProofs ExprBridgeExt.
Import ListNotations.

(* what a math tag prints: q_top's integer in decimal = NumberToString of the faithful evaluator's Natural / Integer *)
Theorem bridge_jv_math : forall content root k ex items, bridge_dom content root items ex = true ->
  jv_math content root k ex items = math_of_eval (eval_faithful content root items ex).
Proof.
  intros content root k ex items Hd. unfold jv_math, eval_faithful.
  pose proof (bridge_q_top content root items ex (qdepth_list ex) Hd (le_n _)) as H.
  destruct (q_top content root items ex) as [z|]; cbn [rel] in H.
  - destruct H as (u & -> & [Hz Hu]). cbn [math_of_eval]. destruct u; cbn [P3.enc num_text].
    + rewrite Z2N.id by (apply Hu; reflexivity). reflexivity.
    + rewrite P3.signed_wrapZ by exact Hz. reflexivity.
  - rewrite H. reflexivity.
Qed.

(* what a condition tests: q_top's integer > 0 = the faithful evaluator's truth test (operator>(0U)) *)
Theorem bridge_jv_cond : forall content root k ex items, bridge_dom content root items ex = true ->
  jv_cond content root k ex items = cond_of_eval (eval_faithful content root items ex).
Proof.
  intros content root k ex items Hd. unfold jv_cond, eval_faithful.
  pose proof (bridge_q_top content root items ex (qdepth_list ex) Hd (le_n _)) as H.
  destruct (q_top content root items ex) as [z|]; cbn [rel] in H.
  - destruct H as (u & -> & Hu). cbn [cond_of_eval]. rewrite P3.true_exact by exact Hu. rewrite Z.gtb_ltb. reflexivity.
  - rewrite H. reflexivity.
Qed.

Lemma faithful_math_eq : forall content root k ex items,
  faithful_math content root k ex items = jv_math content root k ex items.
Proof.
  intros. unfold faithful_math. destruct (bridge_dom content root items ex) eqn:E; [|reflexivity].
  symmetry. apply bridge_jv_math. exact E.
Qed.
Lemma faithful_cond_eq : forall content root k ex items,
  faithful_cond content root k ex items = jv_cond content root k ex items.
Proof.
  intros. unfold faithful_cond. destruct (bridge_dom content root items ex) eqn:E; [|reflexivity].
  symmetry. apply bridge_jv_cond. exact E.
Qed.

(* the renderer with the faithful evaluator (wherever the bridge's domain check passes) renders
   what the renderer of c02_full renders, for EVERY text and value ... *)
Theorem render_all_faithful_eq : forall auto w content root,
  render_all_faithful auto w content root = render_all_jv auto w content root.
Proof.
  intros. unfold render_all_faithful, render_all_jv.
  apply (render_all_ext jv get_key jv_members (jv_text auto w) char_and_length (fun v k => group_by k v) sort_set
           (var_text_cfg auto w) faithful_math jv_math faithful_cond jv_cond w content root).
  - intros. apply faithful_math_eq.
  - intros. apply faithful_cond_eq.
Qed.

(* ... hence C02 end to end with the faithful evaluator plugged in *)
Theorem c02_full_faithful_eval : forall auto w root ast, wf_template ast = true ->
  render_all_faithful auto w (print_nodes ast) root = ROk (expand auto w root ast).
Proof. intros. rewrite render_all_faithful_eq. apply c02_full. assumption. Qed.

(* ---- the expression arrays of c02_full's fragment lie in the bridge's shape ---- *)
Lemma opq_covered : forall op, op_covered (opq op) = true.
Proof.
  intros op. destruct op as [|p]; [reflexivity|].
  destruct p as [p|p|]; try reflexivity; destruct p as [p|p|]; try reflexivity;
  destruct p as [p|p|]; try reflexivity; destruct p as [p|p|]; try reflexivity.
Qed.
Lemma q_operand_op : forall env oper off e, q_op (q_operand env oper off e) = oper.
Proof. intros env oper off e. destruct e; reflexivity. Qed.
Lemma q_operand_shape : forall names env e oper off, wf_expr names e = true -> q_shape1 (q_operand env oper off e) = true.
Proof.
  intros names env e. induction e as [n|p|op a IHa b IHb]; intros oper off H; cbn [q_operand q_shape1].
  - reflexivity.
  - reflexivity.
  - cbn [wf_expr] in H. apply andb_true_iff in H. destruct H as [H Hb]. apply andb_true_iff in H. destruct H as [_ Ha].
    rewrite !q_operand_op. rewrite opq_covered, N.eqb_refl, IHa, IHb by assumption. reflexivity.
Qed.
Theorem qexpr_of_shape : forall names env off e, wf_expr names e = true -> q_shape (qexpr_of env off e) = true.
Proof.
  intros names env off e H. destruct e as [n|p|op a b]; cbn [qexpr_of q_shape].
  - reflexivity.
  - reflexivity.
  - cbn [wf_expr] in H. apply andb_true_iff in H. destruct H as [H Hb]. apply andb_true_iff in H. destruct H as [_ Ha].
    rewrite !q_operand_op. rewrite opq_covered, N.eqb_refl.
    rewrite (q_operand_shape names env a _ _ Ha), (q_operand_shape names env b _ _ Hb). reflexivity.
Qed.
(* so for the expressions of a wf_template the domain check is about the run-time values only *)
Corollary bridge_dom_wf : forall names env off e content root items, wf_expr names e = true ->
  bridge_dom content root items (qexpr_of env off e) =
  vars_ok content root items (qexpr_of env off e) && q_fits_list content root items (qexpr_of env off e).
Proof. intros. unfold bridge_dom. rewrite (qexpr_of_shape names env off e H). reflexivity. Qed.

(* a string with a unit that no numeral holds ("abc", "3 apples", "12abc") is text for both readers *)
Lemma digits_val_digits : forall s acc n, digits_val s acc = Some n -> forallb E.is_digit s = true.
Proof.
  induction s as [|c r IH]; intros acc n H; [reflexivity|]. cbn [digits_val] in H. cbn [forallb].
  destruct ((48 <=? c)%N && (c <=? 57)%N) eqn:E; [|discriminate H]. rewrite (IH _ _ H). rewrite andb_true_r. exact E.
Qed.
Lemma str_ok_plain : forall s, E.plain_text s = true -> str_ok s = true.
Proof.
  intros s Hp. unfold str_ok. unfold E.numeral. rewrite Hp.
  destruct (nat_of_string s) as [m|] eqn:En; [|reflexivity]. exfalso.
  assert (Hd : forallb E.is_digit s = true).
  { unfold nat_of_string in En. destruct s as [|c r]; [discriminate En|].
    destruct (N.eq_dec c 48) as [->|Hc].
    - destruct r; [reflexivity|discriminate En].
    - assert (En' : digits_val (c :: r) 0 = Some m).
      { destruct c as [|p]; [exact En|]. do 6 (destruct p as [p|p|]; try exact En). all: try exact En. exfalso; apply Hc; reflexivity. }
      eapply digits_val_digits; exact En'. }
  unfold E.plain_text in Hp.
  assert (Hh : E.hex_prefixed s = false).
  { unfold E.hex_prefixed, E.strip_sign. destruct s as [|c r]; [reflexivity|]. cbn [forallb] in Hd. apply andb_true_iff in Hd. destruct Hd as [Hc Hr].
    assert (Hs : (c =? dg_Negative)%N || (c =? dg_Positive)%N = false).
    { unfold E.is_digit in Hc. apply andb_true_iff in Hc. destruct Hc as [H1 H2]. apply N.leb_le in H1.
      apply orb_false_iff. split; apply N.eqb_neq; intros ->; vm_compute in H1; apply H1; reflexivity. }
    rewrite Hs. destruct r as [|c1 r']; [reflexivity|]. cbn [forallb] in Hr. apply andb_true_iff in Hr. destruct Hr as [Hc1 _].
    unfold E.is_digit in Hc1. apply andb_true_iff in Hc1. destruct Hc1 as [_ H2]. apply N.leb_le in H2.
    replace ((c1 =? dg_X)%N || (c1 =? dg_UX)%N) with false; [apply andb_false_r|].
    symmetry. apply orb_false_iff. split; apply N.eqb_neq; intros ->; vm_compute in H2; apply H2; reflexivity. }
  rewrite Hh in Hp. apply existsb_exists in Hp. destruct Hp as (c & Hin & Hc).
  rewrite forallb_forall in Hd. specialize (Hd c Hin). unfold E.numeral_char in Hc. rewrite Hd in Hc. discriminate Hc.
Qed.

(* ---- non-vacuity ---- *)
(* ({var:n} + 2) * 3 >= {var:k}   with n = 5, k = "21" (a numeric string):  (5+2)*3 = 21 >= 21 *)
Definition ex_e : expr :=
  EBin 8 (EBin 2 (EBin 0 (EVar ([110]%N, [])) (ENum 2)) (ENum 3)) (EVar ([107]%N, [])).
Definition ex_content : list N := print_expr ex_e.
Definition ex_root : jv := JObj [([110]%N, JNat 5); ([107]%N, JStr [50; 49]%N); ([115]%N, JStr [49; 50; 97; 98; 99]%N)].
Definition ex_l : list qexpr := qexpr_of [] 0 ex_e.
Example ex_dom : bridge_dom ex_content ex_root [] ex_l = true.
Proof. vm_compute. reflexivity. Qed.
Example ex_q_top : q_top ex_content ex_root [] ex_l = Some 1%Z.
Proof. vm_compute. reflexivity. Qed.
Example ex_faithful : eval_faithful ex_content ex_root [] ex_l = E.Ok (E.QNat 1).
Proof. vm_compute. reflexivity. Qed.
(* {var:s} - 1  with s = "12abc": text, so no value on both sides; {var:s} alone is "non-empty" = 1 *)
Definition ex_e2 : expr := EBin 1 (EVar ([115]%N, [])) (ENum 1).
Example ex_novalue :
  bridge_dom (print_expr ex_e2) ex_root [] (qexpr_of [] 0 ex_e2) = true /\
  q_top (print_expr ex_e2) ex_root [] (qexpr_of [] 0 ex_e2) = None /\
  eval_faithful (print_expr ex_e2) ex_root [] (qexpr_of [] 0 ex_e2) = E.NoValue.
Proof. vm_compute. repeat split. Qed.
Example ex_lone :
  let e := EVar ([115]%N, []) in
  bridge_dom (print_expr e) ex_root [] (qexpr_of [] 0 e) = true /\
  q_top (print_expr e) ex_root [] (qexpr_of [] 0 e) = Some 1%Z /\
  eval_faithful (print_expr e) ex_root [] (qexpr_of [] 0 e) = E.Ok (E.QNat 1).
Proof. vm_compute. repeat split. Qed.
(* 3 - 5 = -2: an Integer on the faithful side *)
Example ex_negative :
  let e := EBin 1 (ENum 3) (ENum 5) in
  q_top (print_expr e) ex_root [] (qexpr_of [] 0 e) = Some (-2)%Z /\
  eval_faithful (print_expr e) ex_root [] (qexpr_of [] 0 e) = E.Ok (E.QInt (E.wrapZ (-2))) /\
  jv_math (print_expr e) ex_root 0 (qexpr_of [] 0 e) [] = Some [45; 50]%N.
Proof. vm_compute. repeat split. Qed.
(* outside the domain: 2^63 as a literal (the faithful evaluator reads naturals >= 2^63 through their signed view) *)
Example ex_outside : bridge_dom [] ex_root [] [QNum op_NoOp qn_natural 9223372036854775808] = false.
Proof. vm_compute. reflexivity. Qed.

Print Assumptions bridge_q_top.
Print Assumptions bridge_jv_math.
Print Assumptions bridge_jv_cond.
Print Assumptions c02_full_faithful_eval.
Print Assumptions qexpr_of_shape.
