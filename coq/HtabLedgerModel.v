(* HtabLedgerModel.v -- C16 (hash-table internals): an OWNERSHIP model of Include/HashTable.hpp
   with its instances HArray.hpp / HList.hpp.  Definitions only.

   It is independent of coq/HtabModel.v (the C13 model: chains, hashes, no allocator).  Here a
   table is described ONLY by what it owns:
     heap    [lheap]: which resource ids are live, and the next id to hand out ([lalloc] never
             hands an id out twice).  [lfree] of an id that is not live (released before, or
             never allocated) is Error UAF; [ltouch] (an access to the items / heads of a table
             through its storage pointer) of a released block is Error UAF.  Deallocate(nullptr)
             and the disposal of an empty object are no-ops.
     table   [ltable]: [stor] = the ONE storage block of the table (HashTable::allocate: the
             bucket heads followed by the items in a single allocation; None while capacity is 0),
             [lslots] = the item slots in storage order: [Some item] or [None] for a removed
             item (Hash = 0; remove() assigned Key_T{} / Value_T{}: it owns nothing).
     item    [litem]: the key's NAME (what find compares; that find locates the right chain
             member is C13's subject), the token of the key object, the token of the value
             object (None: a value that owns nothing -- HList, a default-constructed Value_T,
             trivially destructible values).  A token stands for the block(s) the key / value
             object owns: it has to be disposed exactly once.
   Every operation is written in the ORDER OF THE C++ (HashTable.hpp / HArray.hpp as they stand):
     resize            allocate the new block, MOVE the live items bitwise (no token changes, the
                       moved-from items are not disposed), drop the removed ones, release the old block
     Insert            the caller's key / value temporaries exist first; expand when full; found:
                       the old value is released and the new one adopted, the key temporary dies;
                       not found: both are adopted
     Get / operator[]  the key object is constructed only when the item is created (Get) or is the
                       caller's (operator[](Key&&): it dies when the key is already there)
     remove            item->Clear(): key and value are released, the slot becomes a tombstone
     Rename            String::operator=(String&&): the old key is released, the new one adopted;
                       when nothing is renamed the caller's key dies
     Resize(n)         disposes the items beyond n, then resize; Reset / Clear / Reserve / Expect / Compress
     copy assignment   copyTable FIRST (fresh block, fresh tokens for every live item), then the old
                       items are disposed and the old block released
     move assignment   adopt the source's block, empty the source, then dispose / release the old
     operator+=(const&) replace (release the old value, fresh copy) or append fresh copies
     operator+=(&&)    adopt what is new; for a key that exists adopt the value, release the old one
                       and DISPOSE the source's key; release the source's block; the source ends empty
     Sort              moves only
     ~HashTable        dispose every item, release the block
   Whether the COPY of a value that owns nothing owns a block depends on the value type (String's copy
   constructor / copy assignment allocate even for an empty source; HList and trivially destructible values
   do not): the copying operations carry the flag [ce] chosen by the history (both choices are covered).
   How full a table is (capacity) is policy: operations that may grow carry a flag chosen by the
   history (both choices are covered); a table without storage always allocates before it stores. *)
From Coq Require Import List Arith Bool.
From Qv Require Import SeqModel HtabModel.
Import ListNotations.

(* ---------- heap of resource ids ---------- *)
Record lheap := mkLH { lv : nat -> bool; nx : nat }.
Definition lheap0 : lheap := mkLH (fun _ => false) 0.

Definition lalloc (h : lheap) : lheap * nat := (mkLH (fun x => (x =? nx h) || lv h x) (S (nx h)), nx h).
Definition lfree (h : lheap) (b : nat) : res lheap :=
  if lv h b then Ok (mkLH (fun x => negb (x =? b) && lv h x) (nx h)) else Error UAF.
Definition lfree_opt (h : lheap) (o : option nat) : res lheap :=
  match o with Some b => lfree h b | None => Ok h end.
Fixpoint lfree_list (h : lheap) (l : list nat) : res lheap :=
  match l with [] => Ok h | b :: r => h1 <- lfree h b ;; lfree_list h1 r end.
(* an access through the storage pointer of a table *)
Definition ltouch (h : lheap) (o : option nat) : res unit :=
  match o with Some b => if lv h b then Ok tt else Error UAF | None => Ok tt end.
Definition llive_ids (h : lheap) : list nat := filter (lv h) (seq 0 (nx h)).

(* ---------- tables ---------- *)
Record litem := mkLI { lkey : nat; ktok : nat; vtok : option nat }.
Definition slot := option litem.
Record ltable := mkLT { stor : option nat; lslots : list slot }.
Definition ltable0 : ltable := mkLT None [].

Definition opt_ids (o : option nat) : list nat := match o with Some b => [b] | None => [] end.
Definition item_ids (x : litem) : list nat := ktok x :: opt_ids (vtok x).
Definition slot_ids (s : slot) : list nat := match s with Some x => item_ids x | None => [] end.
Definition slots_ids (sl : list slot) : list nat := flat_map slot_ids sl.
Definition table_ids (t : ltable) : list nat := opt_ids (stor t) ++ slots_ids (lslots t).
Definition pool_ids (p : list ltable) : list nat := flat_map table_ids p.

Definition is_live (s : slot) : bool := match s with Some _ => true | None => false end.
Definition compact (sl : list slot) : list slot := filter is_live sl.
Definition no_slots (sl : list slot) : bool := match sl with [] => true | _ => false end.
Definition no_stor (t : ltable) : bool := match stor t with None => true | Some _ => false end.

(* find: the first live slot holding the key *)
Fixpoint lfind (sl : list slot) (k : nat) : option nat :=
  match sl with
  | [] => None
  | Some x :: r => if lkey x =? k then Some 0 else option_map S (lfind r k)
  | None :: r => option_map S (lfind r k)
  end.

Definition lstate : Type := lheap * list ltable.
Definition lstate0 (n : nat) : lstate := (lheap0, repeat ltable0 n).

(* ---------- the pieces ---------- *)
Definition l_alloc_opt (h : lheap) (want : bool) : lheap * option nat :=
  if want then let (h1, b) := lalloc h in (h1, Some b) else (h, None).

(* HashTable::resize *)
Definition l_resize (h : lheap) (t : ltable) : res (lheap * ltable) :=
  _ <- ltouch h (stor t) ;;
  let (h1, nb) := lalloc h in
  h2 <- lfree_opt h1 (stor t) ;;
  Ok (h2, mkLT (Some nb) (compact (lslots t))).
Definition l_grow (h : lheap) (t : ltable) (grow : bool) : res (lheap * ltable) :=
  if grow || no_stor t then l_resize h t else Ok (h, t).

(* Memory::Dispose(storage, storage + Size()) *)
Definition l_dispose_slots (h : lheap) (sl : list slot) : res lheap := lfree_list h (slots_ids sl).

Definition l_reset (h : lheap) (t : ltable) : res (lheap * ltable) :=
  match stor t with
  | None => Ok (h, t)
  | Some b => _ <- ltouch h (stor t) ;; h1 <- l_dispose_slots h (lslots t) ;; h2 <- lfree h1 b ;; Ok (h2, ltable0)
  end.
Definition l_clear (h : lheap) (t : ltable) : res (lheap * ltable) :=
  if no_slots (lslots t) then Ok (h, t) else
  _ <- ltouch h (stor t) ;; h1 <- l_dispose_slots h (lslots t) ;; Ok (h1, mkLT (stor t) []).
Definition l_reserve (h : lheap) (t : ltable) (n : nat) : res (lheap * ltable) :=
  r <- l_reset h t ;;
  if n =? 0 then Ok r else let (h1, nb) := lalloc (fst r) in Ok (h1, mkLT (Some nb) []).
Definition l_resize_pub (h : lheap) (t : ltable) (n : nat) : res (lheap * ltable) :=
  if n =? 0 then l_reset h t else
  _ <- ltouch h (stor t) ;;
  h1 <- l_dispose_slots h (skipn n (lslots t)) ;;
  l_resize h1 (mkLT (stor t) (firstn n (lslots t))).
Definition l_compress (h : lheap) (t : ltable) : res (lheap * ltable) :=
  _ <- ltouch h (stor t) ;;
  if no_slots (compact (lslots t)) then l_reset h t
  else if length (compact (lslots t)) <? length (lslots t) then l_resize h t else Ok (h, t).

Definition set_slot (sl : list slot) (n : nat) (s : slot) : list slot := upd sl n s.

(* HArray::Insert(Key_T&&, Value_T&&) / HList::Insert(Key_T&&) (hasv = false) *)
Definition l_insert (h : lheap) (t : ltable) (k : nat) (hasv grow : bool) : res (lheap * ltable) :=
  let (h1, tk) := lalloc h in
  let (h2, tv) := l_alloc_opt h1 hasv in
  r <- l_grow h2 t grow ;;
  let (h3, t1) := r in
  _ <- ltouch h3 (stor t1) ;;
  match lfind (lslots t1) k with
  | Some n =>
    match nth n (lslots t1) None with
    | Some x => h4 <- lfree_opt h3 (vtok x) ;; h5 <- lfree h4 tk ;;
                Ok (h5, mkLT (stor t1) (set_slot (lslots t1) n (Some (mkLI k (ktok x) tv))))
    | None => Ok (h3, t1)
    end
  | None => Ok (h3, mkLT (stor t1) (lslots t1 ++ [Some (mkLI k tk tv)]))
  end.

(* HArray::Get(const Char_T*, SizeT) (own = false) / operator[](Key_T&&) (own = true) *)
Definition l_get (h : lheap) (t : ltable) (k : nat) (own grow : bool) : res (lheap * ltable) :=
  let (h1, tko) := l_alloc_opt h own in
  r <- l_grow h1 t grow ;;
  let (h2, t1) := r in
  _ <- ltouch h2 (stor t1) ;;
  match lfind (lslots t1) k with
  | Some n => h3 <- lfree_opt h2 tko ;; Ok (h3, t1)
  | None =>
    let (h3, tk) := match tko with Some b => (h2, b) | None => lalloc h2 end in
    Ok (h3, mkLT (stor t1) (lslots t1 ++ [Some (mkLI k tk None)]))
  end.

(* remove / RemoveIndex *)
Definition l_kill (h : lheap) (t : ltable) (n : nat) : res (lheap * ltable) :=
  match nth n (lslots t) None with
  | Some x => h1 <- lfree h (ktok x) ;; h2 <- lfree_opt h1 (vtok x) ;;
              Ok (h2, mkLT (stor t) (set_slot (lslots t) n None))
  | None => Ok (h, t)
  end.
Definition l_remove (h : lheap) (t : ltable) (k : nat) : res (lheap * ltable) :=
  if no_slots (lslots t) then Ok (h, t) else
  _ <- ltouch h (stor t) ;;
  match lfind (lslots t) k with Some n => l_kill h t n | None => Ok (h, t) end.
Definition l_remove_index (h : lheap) (t : ltable) (n : nat) : res (lheap * ltable) :=
  if n <? length (lslots t) then _ <- ltouch h (stor t) ;; l_kill h t n else Ok (h, t).

(* Rename(const Key_T &from, Key_T &&to) *)
Definition l_rename (h : lheap) (t : ltable) (k k2 : nat) : res (lheap * ltable) :=
  let (h1, tk2) := lalloc h in
  if no_slots (lslots t) then h2 <- lfree h1 tk2 ;; Ok (h2, t) else
  _ <- ltouch h1 (stor t) ;;
  match lfind (lslots t) k, lfind (lslots t) k2 with
  | Some n, None =>
    match nth n (lslots t) None with
    | Some x => h2 <- lfree h1 (ktok x) ;;
                Ok (h2, mkLT (stor t) (set_slot (lslots t) n (Some (mkLI k2 tk2 (vtok x)))))
    | None => h2 <- lfree h1 tk2 ;; Ok (h2, t)
    end
  | _, _ => h2 <- lfree h1 tk2 ;; Ok (h2, t)
  end.

(* Sort: Memory::Sort swaps whole items; removed items carry the empty key *)
Definition slot_rank (s : slot) : nat := match s with Some x => S (lkey x) | None => 0 end.
Fixpoint slot_ins (s : slot) (l : list slot) : list slot :=
  match l with
  | [] => [s]
  | y :: r => if slot_rank s <? slot_rank y then s :: y :: r else y :: slot_ins s r
  end.
Definition sort_slots (l : list slot) : list slot := fold_right slot_ins [] l.
Definition l_sort (h : lheap) (t : ltable) : res (lheap * ltable) :=
  _ <- ltouch h (stor t) ;; Ok (h, mkLT (stor t) (sort_slots (lslots t))).

(* ~HashTable *)
Definition l_destroy (h : lheap) (t : ltable) : res (lheap * ltable) :=
  _ <- ltouch h (stor t) ;; h1 <- l_dispose_slots h (lslots t) ;; h2 <- lfree_opt h1 (stor t) ;; Ok (h2, ltable0).

(* copyTable: a fresh copy of every live item *)
Definition copy_wants (ce : bool) (v : option nat) : bool := match v with Some _ => true | None => ce end.
Fixpoint l_copy_items (ce : bool) (h : lheap) (sl : list slot) : lheap * list slot :=
  match sl with
  | [] => (h, [])
  | None :: r => l_copy_items ce h r
  | Some x :: r =>
    let (h1, tk) := lalloc h in
    let (h2, tv) := l_alloc_opt h1 (copy_wants ce (vtok x)) in
    let (h3, r') := l_copy_items ce h2 r in
    (h3, Some (mkLI (lkey x) tk tv) :: r')
  end.
(* operator=(const HashTable &src), this != &src *)
Definition l_copy (ce : bool) (h : lheap) (ti tj : ltable) : res (lheap * ltable) :=
  _ <- ltouch h (stor tj) ;;
  let (h1, tnew) := if no_slots (lslots tj) then (h, ltable0)
                    else let (h', nb) := lalloc h in
                         let (h'', sl) := l_copy_items ce h' (lslots tj) in (h'', mkLT (Some nb) sl) in
  _ <- ltouch h1 (stor ti) ;;
  h2 <- l_dispose_slots h1 (lslots ti) ;;
  h3 <- lfree_opt h2 (stor ti) ;;
  Ok (h3, tnew).
(* operator=(HashTable &&src), this != &src: returns the new target; the source becomes ltable0 *)
Definition l_move (h : lheap) (ti tj : ltable) : res (lheap * ltable) :=
  _ <- ltouch h (stor ti) ;;
  h1 <- l_dispose_slots h (lslots ti) ;;
  h2 <- lfree_opt h1 (stor ti) ;;
  Ok (h2, tj).

(* operator+=(const HArray &src): the loop over the source's slots *)
Fixpoint l_merge_copy_loop (ce : bool) (h : lheap) (td : ltable) (src : list slot) : res (lheap * ltable) :=
  match src with
  | [] => Ok (h, td)
  | None :: r => l_merge_copy_loop ce h td r
  | Some x :: r =>
    _ <- ltouch h (stor td) ;;
    let wantv := copy_wants ce (vtok x) in
    match lfind (lslots td) (lkey x) with
    | Some n =>
      match nth n (lslots td) None with
      | Some y =>
        (* storage_item->Value = src_item->Value : release, then copy *)
        h1 <- lfree_opt h (vtok y) ;;
        let (h2, tv) := l_alloc_opt h1 wantv in
        l_merge_copy_loop ce h2 (mkLT (stor td) (set_slot (lslots td) n (Some (mkLI (lkey y) (ktok y) tv)))) r
      | None => l_merge_copy_loop ce h td r
      end
    | None =>
      let (h1, tk) := lalloc h in
      let (h2, tv) := l_alloc_opt h1 wantv in
      l_merge_copy_loop ce h2 (mkLT (stor td) (lslots td ++ [Some (mkLI (lkey x) tk tv)])) r
    end
  end.
Definition merge_grows (td tj : ltable) (grow : bool) : bool := grow || (no_stor td && negb (no_slots (lslots tj))).
Definition l_merge_copy (ce : bool) (h : lheap) (ti tj : ltable) (grow : bool) : res (lheap * ltable) :=
  _ <- ltouch h (stor tj) ;;
  r <- (if merge_grows ti tj grow then l_resize h ti else Ok (h, ti)) ;;
  l_merge_copy_loop ce (fst r) (snd r) (lslots tj).

(* operator+=(HArray &&src): the loop.  [dispose_key] = true is the code; false is the seeded
   mutation that forgets Memory::Dispose(&(src_item->Key)) for a key that already exists. *)
Fixpoint l_merge_move_loop (dispose_key : bool) (h : lheap) (td : ltable) (src : list slot) : res (lheap * ltable) :=
  match src with
  | [] => Ok (h, td)
  | None :: r => l_merge_move_loop dispose_key h td r
  | Some x :: r =>
    _ <- ltouch h (stor td) ;;
    match lfind (lslots td) (lkey x) with
    | Some n =>
      match nth n (lslots td) None with
      | Some y =>
        (* storage_item->Value = Move(src_item->Value); Memory::Dispose(&(src_item->Key)) *)
        h1 <- lfree_opt h (vtok y) ;;
        h2 <- (if dispose_key then lfree h1 (ktok x) else Ok h1) ;;
        l_merge_move_loop dispose_key h2 (mkLT (stor td) (set_slot (lslots td) n (Some (mkLI (lkey y) (ktok y) (vtok x))))) r
      | None => l_merge_move_loop dispose_key h td r
      end
    | None => l_merge_move_loop dispose_key h (mkLT (stor td) (lslots td ++ [Some x])) r
    end
  end.
(* returns the new target; the source becomes ltable0 *)
Definition l_merge_move_gen (dispose_key : bool) (h : lheap) (ti tj : ltable) (grow : bool) : res (lheap * ltable) :=
  _ <- ltouch h (stor tj) ;;
  r <- (if merge_grows ti tj grow then l_resize h ti else Ok (h, ti)) ;;
  r2 <- l_merge_move_loop dispose_key (fst r) (snd r) (lslots tj) ;;
  h3 <- lfree_opt (fst r2) (stor tj) ;;
  Ok (h3, snd r2).
Definition l_merge_move := l_merge_move_gen true.

(* ---------- operations of a history on a pool of tables ---------- *)
Inductive lop :=
| LInsert (i k : nat) (hasv grow : bool)
| LGet (i k : nat) (own grow : bool)
| LRemove (i k : nat)
| LRemoveIndex (i n : nat)
| LRename (i k k2 : nat)
| LResize (i n : nat)
| LExpect (i : nat) (grow : bool)
| LCompress (i : nat)
| LClear (i : nat)
| LReset (i : nat)
| LReserve (i n : nat)
| LSort (i : nat)
| LCopy (i j : nat) (ce : bool)     (* table i = table j *)
| LMove (i j : nat)                 (* table i = Move(table j) *)
| LMergeCopy (i j : nat) (grow ce : bool)   (* table i += table j *)
| LMergeMove (i j : nat) (grow : bool)   (* table i += Move(table j) *)
| LDestroy (i : nat).               (* ~HashTable (the object can be constructed again: it is empty) *)

Definition tb (p : list ltable) (i : nat) : ltable := nth i p ltable0.

(* an operation on one table *)
Definition on1 (st : lstate) (i : nat) (f : lheap -> ltable -> res (lheap * ltable)) : res lstate :=
  if i <? length (snd st) then
    r <- f (fst st) (tb (snd st) i) ;; Ok (fst r, upd (snd st) i (snd r))
  else Ok st.
(* an operation on a target i and a source j <> i; [src'] = what the source becomes *)
Definition on2 (st : lstate) (i j : nat) (f : lheap -> ltable -> ltable -> res (lheap * ltable))
  (src' : ltable -> ltable) : res lstate :=
  if (i <? length (snd st)) && (j <? length (snd st)) && negb (i =? j) then
    r <- f (fst st) (tb (snd st) i) (tb (snd st) j) ;;
    Ok (fst r, upd (upd (snd st) i (snd r)) j (src' (tb (snd st) j)))
  else Ok st.

Definition lstep_gen (dispose_key : bool) (st : lstate) (o : lop) : res lstate :=
  match o with
  | LInsert i k hv g => on1 st i (fun h t => l_insert h t k hv g)
  | LGet i k own g => on1 st i (fun h t => l_get h t k own g)
  | LRemove i k => on1 st i (fun h t => l_remove h t k)
  | LRemoveIndex i n => on1 st i (fun h t => l_remove_index h t n)
  | LRename i k k2 => on1 st i (fun h t => l_rename h t k k2)
  | LResize i n => on1 st i (fun h t => l_resize_pub h t n)
  | LExpect i g => on1 st i (fun h t => if g then l_resize h t else Ok (h, t))
  | LCompress i => on1 st i l_compress
  | LClear i => on1 st i l_clear
  | LReset i => on1 st i l_reset
  | LReserve i n => on1 st i (fun h t => l_reserve h t n)
  | LSort i => on1 st i l_sort
  | LCopy i j ce => on2 st i j (l_copy ce) (fun t => t)
  | LMove i j => on2 st i j l_move (fun _ => ltable0)
  | LMergeCopy i j g ce => on2 st i j (fun h ti tj => l_merge_copy ce h ti tj g) (fun t => t)
  | LMergeMove i j g => on2 st i j (fun h ti tj => l_merge_move_gen dispose_key h ti tj g) (fun _ => ltable0)
  | LDestroy i => on1 st i l_destroy
  end.
Definition lstep := lstep_gen true.

Fixpoint lrun_gen (dk : bool) (ops : list lop) (st : lstate) : res lstate :=
  match ops with [] => Ok st | o :: r => st1 <- lstep_gen dk st o ;; lrun_gen dk r st1 end.
Definition lrun := lrun_gen true.

Fixpoint l_destroy_pool (ks : list nat) (st : lstate) : res lstate :=
  match ks with [] => Ok st | k :: r => st1 <- lstep st (LDestroy k) ;; l_destroy_pool r st1 end.
Definition l_destroy_all (st : lstate) : res lstate := l_destroy_pool (seq 0 (length (snd st))) st.

(* ---------- the ledger ---------- *)
Definition bn (b : bool) : nat := if b then 1 else 0.
Fixpoint cnt (x : nat) (l : list nat) : nat :=
  match l with [] => 0 | y :: r => bn (y =? x) + cnt x r end.
Definition table_wf (t : ltable) : Prop := stor t = None -> lslots t = [].

(* every id is owned exactly as often as it is live (0 or 1 times); ids not yet handed out are
   not live; a table without storage has no items *)
Record lledger (st : lstate) : Prop := mkLL {
  ll_count : forall x, cnt x (pool_ids (snd st)) = bn (lv (fst st) x);
  ll_fresh : forall x, nx (fst st) <= x -> lv (fst st) x = false;
  ll_wf : Forall table_wf (snd st) }.

(* ---------- observers for the correspondence run (ocaml/htabledger.ml) ---------- *)
Definition obs_blocks (p : list ltable) : nat := length (filter (fun t => negb (no_stor t)) p).
Definition obs_keys (p : list ltable) : nat := length (flat_map (fun t => compact (lslots t)) p).
Definition has_vtok (s : slot) : bool := match s with Some x => match vtok x with Some _ => true | None => false end | None => false end.
Definition obs_vals (p : list ltable) : nat := length (flat_map (fun t => filter has_vtok (lslots t)) p).
(* one step: Some (state, (owned ids, blocks, keys, values)); None = Error *)
Definition lstep_obs (st : lstate) (o : lop) : option (lstate * (nat * nat * nat * nat)) :=
  match lstep st o with
  | Ok st' => Some (st', (length (pool_ids (snd st')), obs_blocks (snd st'), obs_keys (snd st'), obs_vals (snd st')))
  | Error _ => None
  end.
(* destroy every table: the number of ids still live (None = Error) *)
Definition lfinal_live (st : lstate) : option nat :=
  match l_destroy_all st with Ok st' => Some (length (llive_ids (fst st'))) | Error _ => None end.
