(* FinderProofs.v -- lemmas about FinderModel.v (C01: the scanner under the
   template parser never reads outside the text and always makes progress). *)
From Coq Require Import NArith List Bool Arith Lia.
From Qv Require Import gen.Tables_tmpl FinderModel.
Import ListNotations.

(* ---- list helpers ---- *)
Lemma fp_nth_error_some : forall (l : list N) i, i < length l -> exists c, nth_error l i = Some c.
Proof.
  intros l i Hi. destruct (nth_error l i) as [c|] eqn:E.
  - exists c; reflexivity.
  - apply nth_error_None in E. lia.
Qed.

Lemma fp_nth_error_skipn : forall (l : list N) o k, nth_error (skipn o l) k = nth_error l (o + k).
Proof.
  intros l; induction l as [|x l IH]; intros o k.
  - destruct o; destruct k; reflexivity.
  - destruct o as [|o]; [reflexivity|]. cbn [skipn Nat.add nth_error]. apply IH.
Qed.

Lemma fp_skipn_cons : forall (l : list N) o c, nth_error l o = Some c -> skipn o l = c :: skipn (S o) l.
Proof.
  intros l; induction l as [|x l IH]; intros o c H.
  - destruct o; discriminate H.
  - destruct o as [|o].
    + cbn in H. injection H as ->. reflexivity.
    + cbn [nth_error] in H. change (skipn (S o) (x :: l)) with (skipn o l).
      change (skipn (S (S o)) (x :: l)) with (skipn (S o) l). apply IH; exact H.
Qed.

Lemma fp_skipn_nil : forall (l : list N) o, length l <= o -> skipn o l = [].
Proof. intros l o H. apply skipn_all2; exact H. Qed.

(* a word split into its first units and its last unit *)
Lemma is_prefix_l_snoc : forall pre l t,
  is_prefix_l (pre ++ [l]) t =
  is_prefix_l pre t && match nth_error t (length pre) with Some c => N.eqb c l | None => false end.
Proof.
  intros pre; induction pre as [|x p IH]; intros l t.
  - destruct t as [|y s]; cbn; [reflexivity|]. rewrite andb_true_r. apply N.eqb_sym.
  - destruct t as [|y s]; cbn [app is_prefix_l length nth_error]; [reflexivity|].
    rewrite IH. rewrite andb_assoc. reflexivity.
Qed.

Section FinderFacts.
  Variables (first_chars : list N) (single : N) (groups : list (list (N * list N))) (content : list N).

  (* ---- unfolding equations (the model's [Let len] makes [cbn] awkward) ---- *)
  Lemma match_mid_S : forall k o we word,
    match_mid content (S k) o we word =
    if o <? we then
      match nth_error content o, word with
      | Some c, wc :: wr => if N.eqb c wc then match_mid content k (S o) we wr else Some o
      | Some _, [] => Some o
      | None, _ => None
      end
    else Some o.
  Proof. reflexivity. Qed.

  Lemma try_group_cons : forall o id word r,
    try_group content o ((id, word) :: r) =
    if o + (length word - 1) <? length content then
      match nth_error content (o + (length word - 1)) with
      | None => GErr
      | Some c =>
        if N.eqb c (last word 0%N) then
          match match_mid content (S (length word - 1)) o (o + (length word - 1)) word with
          | None => GErr
          | Some off' => if off' =? o + (length word - 1) then GMatch id (S (o + (length word - 1)))
                         else try_group content o r
          end
        else try_group content o r
      end
    else try_group content o r.
  Proof. reflexivity. Qed.

  Lemma next_go_S : forall k o,
    next_go first_chars single groups content (S k) o =
    if o <? length content then
      match nth_error content o with
      | None => FErr
      | Some c =>
        match index_of c first_chars 0 with
        | Some g =>
          match try_group content (S o) (nth g groups []) with
          | GErr => FErr
          | GMatch id off' => FOk id off'
          | GNone => next_go first_chars single groups content k (S o)
          end
        | None => if N.eqb c single then FOk 1 (S o)
                  else next_go first_chars single groups content k (S o)
        end
      end
    else FOk 0 o.
  Proof. reflexivity. Qed.

  Lemma next_unfold : forall o,
    next first_chars single groups content o =
    next_go first_chars single groups content (S (length content - o)) o.
  Proof. reflexivity. Qed.

  (* ---- safety ---- *)
  Lemma match_mid_safe : forall fuel o we word,
    we <= length content -> we - o < fuel -> match_mid content fuel o we word <> None.
  Proof.
    intros fuel; induction fuel as [|k IH]; intros o we word Hwe Hf; [lia|].
    rewrite match_mid_S.
    destruct (Nat.ltb_spec o we) as [Hlt|Hge]; [|discriminate].
    destruct (fp_nth_error_some content o) as [c Hc]; [lia|]. rewrite Hc.
    destruct word as [|wc wr]; [discriminate|].
    destruct (N.eqb c wc); [|discriminate].
    apply IH; lia.
  Qed.

  Lemma try_group_safe : forall g o, try_group content o g <> GErr.
  Proof.
    intros g; induction g as [|[id word] r IH]; intros o; [discriminate|].
    rewrite try_group_cons.
    destruct (Nat.ltb_spec (o + (length word - 1)) (length content)) as [Hlt|Hge]; [|apply IH].
    destruct (fp_nth_error_some content (o + (length word - 1))) as [c Hc]; [lia|]. rewrite Hc.
    destruct (N.eqb c (last word 0%N)); [|apply IH].
    destruct (match_mid content (S (length word - 1)) o (o + (length word - 1)) word) as [off'|] eqn:Em.
    - destruct (off' =? o + (length word - 1)); [discriminate|apply IH].
    - exfalso. revert Em. apply match_mid_safe; lia.
  Qed.

  Lemma try_group_bound : forall g o id off',
    try_group content o g = GMatch id off' ->
    o < off' <= length content /\ In id (map fst g).
  Proof.
    intros g; induction g as [|[id0 word] r IH]; intros o id off' H; [discriminate H|].
    assert (Hr : try_group content o r = GMatch id off' ->
                 o < off' <= length content /\ In id (map fst ((id0, word) :: r))).
    { intros H'. destruct (IH _ _ _ H') as [Hb Hi]. split; [exact Hb|right; exact Hi]. }
    rewrite try_group_cons in H.
    destruct (Nat.ltb_spec (o + (length word - 1)) (length content)) as [Hlt|Hge]; [|auto].
    destruct (nth_error content (o + (length word - 1))) as [c|]; [|discriminate H].
    destruct (N.eqb c (last word 0%N)); [|auto].
    destruct (match_mid content (S (length word - 1)) o (o + (length word - 1)) word) as [r'|];
      [|discriminate H].
    destruct (r' =? o + (length word - 1)); [|auto].
    injection H as <- <-. split; [lia|left; reflexivity].
  Qed.

  Lemma next_go_safe : forall fuel o,
    length content - o < fuel -> next_go first_chars single groups content fuel o <> FErr.
  Proof.
    intros fuel; induction fuel as [|k IH]; intros o Hf; [lia|].
    rewrite next_go_S.
    destruct (Nat.ltb_spec o (length content)) as [Hlt|Hge]; [|discriminate].
    destruct (fp_nth_error_some content o) as [c Hc]; [lia|]. rewrite Hc.
    destruct (index_of c first_chars 0) as [g|].
    - destruct (try_group content (S o) (nth g groups [])) as [id off'| |] eqn:Eg.
      + discriminate.
      + apply IH; lia.
      + exfalso. revert Eg. apply try_group_safe.
    - destruct (N.eqb c single); [discriminate|apply IH; lia].
  Qed.

  (* no out-of-bounds read, fuel sufficient, for every text and every cursor *)
  Theorem next_safe : forall offset, next first_chars single groups content offset <> FErr.
  Proof. intros offset. rewrite next_unfold. apply next_go_safe. lia. Qed.

  (* ---- progress ---- *)
  Lemma nth_groups_ids : forall g id,
    In id (map fst (nth g groups [])) -> In id (map fst (concat groups)).
  Proof.
    intros g id H. destruct (nth_in_or_default g groups []) as [Hin|Hd].
    - rewrite concat_map. apply in_concat. exists (map fst (nth g groups [])).
      split; [apply in_map; exact Hin|exact H].
    - rewrite Hd in H. destruct H.
  Qed.

  Lemma next_go_progress : forall fuel o m off',
    o <= length content ->
    next_go first_chars single groups content fuel o = FOk m off' ->
    (o <= off' <= length content /\ (m <> 0%N -> o < off')) /\
    (m = 0%N \/ m = 1%N \/ In m (map fst (concat groups))).
  Proof.
    intros fuel; induction fuel as [|k IH]; intros o m off' Ho H; [discriminate H|].
    assert (Hr : next_go first_chars single groups content k (S o) = FOk m off' ->
                 o < length content ->
                 (o <= off' <= length content /\ (m <> 0%N -> o < off')) /\
                 (m = 0%N \/ m = 1%N \/ In m (map fst (concat groups)))).
    { intros H' Hlt. destruct (IH (S o) m off') as [[Hb Hs] Hi]; [lia|exact H'|].
      split; [split; [lia|intros _; lia]|exact Hi]. }
    rewrite next_go_S in H.
    destruct (Nat.ltb_spec o (length content)) as [Hlt|Hge].
    - destruct (nth_error content o) as [c|]; [|discriminate H].
      destruct (index_of c first_chars 0) as [g|].
      + destruct (try_group content (S o) (nth g groups [])) as [id off''| |] eqn:Eg.
        * injection H as <- <-. destruct (try_group_bound _ _ _ _ Eg) as [Hb Hi].
          split; [split; [lia|intros _; lia]|].
          right; right. apply nth_groups_ids with (g := g); exact Hi.
        * auto.
        * discriminate H.
      + destruct (N.eqb c single); [|auto].
        injection H as <- <-. split; [split; [lia|intros _; lia]|right; left; reflexivity].
    - injection H as <- <-. split; [split; [lia|intros Hc; contradiction Hc; reflexivity]|left; reflexivity].
  Qed.

  (* the cursor only moves forward, stays within the text, and moves strictly when something matched *)
  Theorem next_progress : forall offset m off',
    offset <= length content ->
    next first_chars single groups content offset = FOk m off' ->
    offset <= off' <= length content /\ (m <> 0%N -> offset < off').
  Proof.
    intros offset m off' Ho H. rewrite next_unfold in H.
    destruct (next_go_progress _ _ _ _ Ho H) as [Hb _]. exact Hb.
  Qed.

  (* the match id is 0 (none), 1 (single character) or one of the table's ids *)
  Lemma next_ids : forall offset m off',
    offset <= length content ->
    next first_chars single groups content offset = FOk m off' ->
    m = 0%N \/ m = 1%N \/ In m (map fst (concat groups)).
  Proof.
    intros offset m off' Ho H. rewrite next_unfold in H.
    destruct (next_go_progress _ _ _ _ Ho H) as [_ Hi]. exact Hi.
  Qed.

  (* ---- correspondence with the structural specification ---- *)
  Lemma match_mid_prefix : forall pre rest o,
    o + length pre <= length content ->
    exists r, match_mid content (S (length pre)) o (o + length pre) (pre ++ rest) = Some r /\
              (r =? o + length pre) = is_prefix_l pre (skipn o content).
  Proof.
    intros pre; induction pre as [|x p IH]; intros rest o Hb.
    - exists o. rewrite match_mid_S. cbn [length].
      destruct (Nat.ltb_spec o (o + 0)) as [Hlt|Hge]; [lia|].
      split; [reflexivity|]. cbn [is_prefix_l]. apply Nat.eqb_eq. lia.
    - cbn [length] in Hb. rewrite match_mid_S. cbn [length app].
      destruct (Nat.ltb_spec o (o + S (length p))) as [Hlt|Hge]; [|lia].
      destruct (fp_nth_error_some content o) as [c Hc]; [lia|]. rewrite Hc.
      rewrite (fp_skipn_cons _ _ _ Hc). cbn [is_prefix_l].
      rewrite (N.eqb_sym x c).
      destruct (N.eqb c x).
      + replace (o + S (length p)) with (S o + length p) by lia.
        destruct (IH rest (S o)) as [r [Hr He]]; [lia|].
        exists r. split; [exact Hr|]. rewrite He. reflexivity.
      + exists o. split; [reflexivity|]. cbn [andb]. apply Nat.eqb_neq. lia.
  Qed.

  Lemma try_group_spec : forall g o,
    (forall id word, In (id, word) g -> word <> []) ->
    try_group content o g =
    match first_word g (skipn o content) with
    | Some (id, n) => GMatch id (o + n)
    | None => GNone
    end.
  Proof.
    intros g; induction g as [|[id word] r IH]; intros o Hwf; [reflexivity|].
    assert (Hr : try_group content o r =
                 match first_word r (skipn o content) with
                 | Some (id, n) => GMatch id (o + n)
                 | None => GNone
                 end).
    { apply IH. intros id' word' Hin. apply (Hwf id' word'). right; exact Hin. }
    assert (Hne : word <> []) by (apply (Hwf id word); left; reflexivity).
    destruct (exists_last Hne) as [pre [l Hw]]. subst word.
    rewrite try_group_cons. cbn [first_word].
    rewrite is_prefix_l_snoc, fp_nth_error_skipn, last_last.
    replace (length (pre ++ [l]) - 1) with (length pre) by (rewrite app_length; cbn [length]; lia).
    destruct (Nat.ltb_spec (o + length pre) (length content)) as [Hlt|Hge].
    - destruct (fp_nth_error_some content (o + length pre)) as [c Hc]; [lia|]. rewrite Hc.
      destruct (N.eqb c l).
      + destruct (match_mid_prefix pre [l] o) as [r' [Hm He]]; [lia|].
        rewrite Hm, He, andb_true_r.
        destruct (is_prefix_l pre (skipn o content)); [|exact Hr].
        f_equal. rewrite app_length. cbn [length]. lia.
      + rewrite andb_false_r. exact Hr.
    - assert (Hn : nth_error content (o + length pre) = None) by (apply nth_error_None; lia).
      rewrite Hn, andb_false_r. exact Hr.
  Qed.

  Lemma next_spec_cons : forall c t off,
    next_spec first_chars single groups (c :: t) off =
    match index_of c first_chars 0 with
    | Some g =>
      match first_word (nth g groups []) t with
      | Some (id, n) => (id, off + 1 + n)
      | None => next_spec first_chars single groups t (S off)
      end
    | None => if N.eqb c single then (1%N, S off) else next_spec first_chars single groups t (S off)
    end.
  Proof. reflexivity. Qed.

  Lemma next_go_spec : forall fuel o,
    (forall g id word, In g groups -> In (id, word) g -> word <> []) ->
    length content - o < fuel ->
    next_go first_chars single groups content fuel o =
      let (m, o') := next_spec first_chars single groups (skipn o content) o in FOk m o'.
  Proof.
    intros fuel; induction fuel as [|k IH]; intros o Hwf Hf; [lia|].
    rewrite next_go_S.
    destruct (Nat.ltb_spec o (length content)) as [Hlt|Hge].
    - destruct (fp_nth_error_some content o) as [c Hc]; [lia|]. rewrite Hc.
      rewrite (fp_skipn_cons _ _ _ Hc), next_spec_cons.
      destruct (index_of c first_chars 0) as [g|].
      + rewrite try_group_spec.
        * destruct (first_word (nth g groups []) (skipn (S o) content)) as [[id n]|].
          -- f_equal. lia.
          -- apply IH; [exact Hwf|lia].
        * intros id word Hin. destruct (nth_in_or_default g groups []) as [Hg|Hd].
          -- apply (Hwf _ id word Hg Hin).
          -- rewrite Hd in Hin. destruct Hin.
      + destruct (N.eqb c single); [reflexivity|]. apply IH; [exact Hwf|lia].
    - rewrite fp_skipn_nil by lia. reflexivity.
  Qed.

  (* the index-and-offset scanner computes the structural specification:
     the first tag word (in group order) or single character at or after the cursor.
     Needs the word list to be well formed: every word is non-empty. *)
  Theorem next_is_spec : forall offset,
    (forall g id word, In g groups -> In (id, word) g -> word <> []) ->
    offset <= length content ->
    next first_chars single groups content offset =
      let (m, o) := next_spec first_chars single groups (skipn offset content) offset in FOk m o.
  Proof.
    intros offset Hwf _. rewrite next_unfold. apply next_go_spec; [exact Hwf|lia].
  Qed.
End FinderFacts.

(* and for the generated tables: words are non-empty (re-checked per run) *)
Theorem tables_words_nonempty :
  forallb (fun g => forallb (fun iw => negb (match snd iw with [] => true | _ => false end)) g) finder_groups_c8 = true.
Proof. vm_compute; reflexivity. Qed.

(* the boolean check implies the hypothesis of [next_is_spec] *)
Lemma words_nonempty_wf : forall groups,
  forallb (fun g => forallb (fun iw => negb (match snd iw : list N with [] => true | _ => false end)) g) groups = true ->
  forall (g : list (N * list N)) (id : N) (word : list N), In g groups -> In (id, word) g -> word <> [].
Proof.
  intros groups H g id word Hg Hw Hnil.
  rewrite forallb_forall in H. specialize (H g Hg).
  rewrite forallb_forall in H. specialize (H (id, word) Hw).
  subst word. discriminate H.
Qed.

Theorem next_c8_is_spec : forall content offset,
  offset <= length content ->
  next_c8 content offset =
    let (m, o) := next_spec_c8 (skipn offset content) offset in FOk m o.
Proof.
  intros content offset Ho. apply next_is_spec; [|exact Ho].
  apply words_nonempty_wf. exact tables_words_nonempty.
Qed.

(* ---- the main loop ---- *)
Lemma next_w_inst : forall w, exists fc s g,
  (forall content o, next_w w content o = next fc s g content o) /\
  ~ In 99%N (map fst (concat g)).
Proof.
  intros w.
  assert (H8 : ~ In 99%N (map fst (concat finder_groups_c8))) by (vm_compute; intuition discriminate).
  assert (H16 : ~ In 99%N (map fst (concat finder_groups_c16))) by (vm_compute; intuition discriminate).
  assert (H32 : ~ In 99%N (map fst (concat finder_groups_c32))) by (vm_compute; intuition discriminate).
  assert (Hwc : ~ In 99%N (map fst (concat finder_groups_wc))) by (vm_compute; intuition discriminate).
  destruct w as [|[[p|p|]|[p|p|]|]].
  - exists finder_first_chars_c8, finder_single_char_c8, finder_groups_c8. split; [reflexivity|exact H8].
  - exists finder_first_chars_wc, finder_single_char_wc, finder_groups_wc. split; [reflexivity|exact Hwc].
  - exists finder_first_chars_wc, finder_single_char_wc, finder_groups_wc. split; [reflexivity|exact Hwc].
  - exists finder_first_chars_wc, finder_single_char_wc, finder_groups_wc. split; [reflexivity|exact Hwc].
  - exists finder_first_chars_wc, finder_single_char_wc, finder_groups_wc. split; [reflexivity|exact Hwc].
  - exists finder_first_chars_wc, finder_single_char_wc, finder_groups_wc. split; [reflexivity|exact Hwc].
  - exists finder_first_chars_c32, finder_single_char_c32, finder_groups_c32. split; [reflexivity|exact H32].
  - exists finder_first_chars_c16, finder_single_char_c16, finder_groups_c16. split; [reflexivity|exact H16].
Qed.

Lemma scan_all_S : forall k w content offset,
  scan_all (S k) w content offset =
  match next_w w content offset with
  | FOk 0%N _ => []
  | FOk m off' => (m, off') :: scan_all k w content off'
  | FErr => [(99%N, offset)]
  end.
Proof. reflexivity. Qed.

Lemma scan_all_gen : forall w content fuel offset,
  offset <= length content ->
  length (scan_all fuel w content offset) <= length content - offset /\
  ~ In 99%N (map fst (scan_all fuel w content offset)).
Proof.
  intros w content. destruct (next_w_inst w) as [fc [s [g [Hn H99]]]].
  intros fuel; induction fuel as [|k IH]; intros offset Ho.
  - cbn [scan_all length map]. split; [lia|intros []].
  - rewrite scan_all_S, Hn.
    destruct (next fc s g content offset) as [m off'|] eqn:En.
    + destruct (next_progress _ _ _ _ _ _ _ Ho En) as [Hb Hs].
      destruct (next_ids _ _ _ _ _ _ _ Ho En) as [Hm|[Hm|Hm]].
      * subst m. cbn [length map]. split; [lia|intros []].
      * subst m. destruct (IH off') as [Hl Hi]; [lia|].
        assert (Hlt : offset < off') by (apply Hs; discriminate).
        cbn [length map fst In]. split; [lia|].
        intros [Hc|Hc]; [discriminate Hc|exact (Hi Hc)].
      * destruct m as [|p].
        -- cbn [length map]. split; [lia|intros []].
        -- destruct (IH off') as [Hl Hi]; [lia|].
           assert (Hlt : offset < off') by (apply Hs; discriminate).
           cbn [length map fst In]. split; [lia|].
           intros [Hc|Hc]; [|exact (Hi Hc)].
           rewrite Hc in Hm. exact (H99 Hm).
    + exfalso. revert En. apply next_safe.
Qed.

(* the main loop of parse() terminates: every iteration that sees a match
   advances the cursor, so at most (length content) matches are consumed *)
Theorem scan_all_bounded : forall w content, length (scan_all (S (length content)) w content 0) <= length content /\
   ~ In 99%N (map fst (scan_all (S (length content)) w content 0)).
Proof.
  intros w content. destruct (scan_all_gen w content (S (length content)) 0) as [Hl Hi]; [lia|].
  split; [lia|exact Hi].
Qed.
