(* DigitModelSpec.v -- C09 / C10 / C11: the SPECIFICATION side.  Definitions only.
   Nothing here goes through the implementation model of DigitModel.v or through
   the tables generated from the headers: numerals are read with their own tiny
   grammar, values are exact rationals num/den over N/Z, rounding is decided by
   cross-multiplication, and the printf reference is produced from the exact
   decimal expansion of m * 2^e with round-half-even.

   Oracle results are small codes (N): 1 = satisfied, 0 = violated, >= 2 = violated
   in a way that matches the precise predicate of a known-finding class (the
   check still demands model = implementation before it accepts the class). *)
From Coq Require Import NArith ZArith List Bool.
Import ListNotations.
Local Open Scope N_scope.

(* ---- ASCII ---- *)
Definition a_zero : N := 48.  Definition a_nine : N := 57.
Definition a_dot : N := 46.   Definition a_plus : N := 43.  Definition a_minus : N := 45.
Definition a_e : N := 101.    Definition a_ue : N := 69.
Definition a_x : N := 120.    Definition a_ux : N := 88.

Fixpoint list_eqb (a b : list N) : bool :=
  match a, b with
  | [], [] => true
  | x :: a', y :: b' => N.eqb x y && list_eqb a' b'
  | _, _ => false
  end.

Definition isdig (c : N) : bool := (a_zero <=? c) && (c <=? a_nine).

(* longest run of decimal digits: (digit values, rest) *)
Fixpoint take_digits (l : list N) : list N * list N :=
  match l with
  | c :: r => if isdig c then let '(ds, rest) := take_digits r in ((c - a_zero) :: ds, rest) else ([], l)
  | [] => ([], [])
  end.

Definition digits_val (ds : list N) : N := fold_left (fun a d => a * 10 + d) ds 0.
Definition len (l : list N) : N := N.of_nat (length l).

(* ---- decimal text of a natural number ---- *)
Fixpoint dec_aux (fuel : nat) (n : N) (acc : list N) : list N :=
  match fuel with
  | O => acc
  | S f => if n <? 10 then (a_zero + n) :: acc else dec_aux f (n / 10) ((a_zero + n mod 10) :: acc)
  end.
Definition dec_small (n : N) : list N := dec_aux (S (N.to_nat (N.size n))) n [].
(* chunks of 18 digits, so that a long number costs few long divisions *)
Definition chunk18 : N := 1000000000000000000.
Fixpoint dec_big (fuel : nat) (n : N) : list N :=
  match fuel with
  | O => dec_small n
  | S f =>
    if n <? chunk18 then dec_small n
    else let lo := dec_small (n mod chunk18) in
         dec_big f (n / chunk18) ++ repeat a_zero (18 - length lo) ++ lo
  end.
Definition dec (n : N) : list N := dec_big (S (N.to_nat (N.size n / 59))) n.

(* ================================================================== *)
(* C09: numerals                                                       *)

Inductive numeral :=
| NumOk (neg : bool) (ipart fpart : list N) (ex : option (bool * list N)) (consumed : N)
| NumMalformed      (* leading zeros, lone dot, repeated dot, empty exponent: must be rejected *)
| NumOther.         (* outside the grammar of the property (hex, ".5", "5.", no digits): no claim *)

Definition starts_with (c : N) (l : list N) : bool := match l with x :: _ => x =? c | [] => false end.

Definition parse_exp_part (neg : bool) (ip fp : list N) (total : N) (r : list N) : numeral :=
  match r with
  | c :: r1 =>
    if (c =? a_e) || (c =? a_ue) then
      let '(eneg, r2) := match r1 with
                         | s :: r2 => if s =? a_minus then (true, r2) else if s =? a_plus then (false, r2) else (false, r1)
                         | [] => (false, r1)
                         end in
      let '(ed, r3) := take_digits r2 in
      match ed with
      | [] => NumMalformed
      | _ => NumOk neg ip fp (Some (eneg, ed)) (total - len r3)
      end
    else if (c =? a_dot) && (match fp with [] => false | _ => true end) then NumMalformed
    else NumOk neg ip fp None (total - len r)
  | [] => NumOk neg ip fp None total
  end.

Definition parse_numeral (content : list N) : numeral :=
  let total := len content in
  let '(neg, r0) := match content with
                    | s :: r => if s =? a_minus then (true, r) else if s =? a_plus then (false, r) else (false, content)
                    | [] => (false, content)
                    end in
  let '(ip, r1) := take_digits r0 in
  match ip with
  | [] =>
    if starts_with a_dot r1 then
      match take_digits (tl r1) with ([], _) => NumMalformed | _ => NumOther end
    else NumOther
  | d0 :: more =>
    if (d0 =? 0) && (match more with [] => false | _ => true end) then NumMalformed
    else if (d0 =? 0) && (starts_with a_x r1 || starts_with a_ux r1) then NumOther
    else
      match r1 with
      | c :: r2 =>
        if c =? a_dot then
          let '(fp, r3) := take_digits r2 in
          match fp with
          | [] => if starts_with a_dot r3 then NumMalformed else NumOther
          | _ => parse_exp_part neg ip fp total r3
          end
        else parse_exp_part neg ip [] total r1
      | [] => NumOk neg ip [] None total
      end
  end.

(* ---- exact binary rounding of num/den (num, den > 0) ---- *)
(* floor (num * 2^k / den) and the remainder test, k in Z *)
Definition scaled_div (num den : N) (k : Z) : N * N * N :=   (* q, r, d  with  num*2^k/den = q + r/d *)
  let '(n1, d1) := if (0 <=? k)%Z then (N.shiftl num (Z.to_N k), den) else (num, N.shiftl den (Z.to_N (- k))) in
  (n1 / d1, n1 mod d1, d1).

(* round-half-even of num/den to [p] significant bits with k <= kmax fraction bits;
   result as the IEEE bit pattern of the magnitude; [infbits] on overflow *)
Definition round_binary (p kmax bias : N) (num den : N) : N :=
  let l := (Z.of_N (N.log2 num) - Z.of_N (N.log2 den))%Z in
  let k0 := (Z.of_N p - 1 - l)%Z in
  let '(q0, _, _) := scaled_div num den k0 in
  (* q0 is in [2^(p-2), 2^(p+1)) : adjust so that q in [2^(p-1), 2^p) *)
  let k1 := if q0 <? 2 ^ (p - 1) then (k0 + 1)%Z else if 2 ^ p <=? q0 then (k0 - 1)%Z else k0 in
  let k := Z.min k1 (Z.of_N kmax) in
  let '(q, r, d) := scaled_div num den k in
  let up := (d <? 2 * r) || ((2 * r =? d) && N.odd q) in
  let q1 := if up then q + 1 else q in
  let '(q2, k2) := if q1 =? 2 ^ p then (2 ^ (p - 1), (k - 1)%Z) else (q1, k) in
  if q2 <? 2 ^ (p - 1) then q2      (* subnormal (k = kmax) *)
  else
    let e := (Z.of_N (p - 1) - k2 + Z.of_N bias)%Z in   (* biased exponent, >= 1 *)
    let emax := Z.of_N (2 * bias + 1) in
    if (emax <=? e)%Z then N.shiftl (Z.to_N emax) (p - 1)
    else N.shiftl (Z.to_N e) (p - 1) + (q2 - 2 ^ (p - 1)).

Definition dbl_inf : N := 9218868437227405312.     (* 0x7FF0000000000000 *)
Definition dbl_sign : N := 9223372036854775808.
Definition two63 : N := 9223372036854775808.
Definition two64s : N := 18446744073709551616.

(* number of decimal digits of a positive number *)
Definition ndigits (n : N) : N := len (dec n).

(* the value M * 10^e10 as num/den; None when it is certainly out of any range of interest *)
Inductive magnitude := MagHuge | MagTiny | MagQ (num den : N).
Definition magnitude_of (M : N) (e10 : Z) : magnitude :=
  let nd := Z.of_N (ndigits M) in
  if (1000 <? e10 + nd)%Z then MagHuge
  else if (e10 + nd <? -1000)%Z then MagTiny
  else if (0 <=? e10)%Z then MagQ (M * 10 ^ Z.to_N e10) 1 else MagQ M (10 ^ Z.to_N (- e10)).

Definition dbl_max_int : N := (2 ^ 53 - 1) * 2 ^ 971.

Definition okb (b : bool) : N := if b then 1 else 0.

(* codes: 1 ok, 0 violated, 2 = rejected although 0 < v < 10^-325 (class KF-C09b) *)
Definition c09_real_rule (neg : bool) (M : N) (e10 : Z) (kind bits : N) : N :=
  let sgn := if neg then dbl_sign else 0 in
  if M =? 0 then okb ((kind =? 1) && (bits =? sgn))
  else
    let '(c, overflow, tiny) :=
      match magnitude_of M e10 with
      | MagHuge => (dbl_inf, true, false)
      | MagTiny => (0, false, true)
      | MagQ num den =>
        (round_binary 53 1074 1023 num den, den * dbl_max_int <? num,
         (* v < 10^-325  <=>  num * 10^325 < den *)
         num * 10 ^ 325 <? den)
      end in
    if kind =? 1 then
      let mag := bits mod two63 in
      let dist := if mag <? c then c - mag else mag - c in
      okb ((bits / two63 =? (if neg then 1 else 0)) && (mag <=? dbl_inf) && (dist <=? 1)
              && (overflow || (mag <? dbl_inf)))
    else if kind =? 0 then (if overflow then 1 else if tiny then 2 else 0)
    else 0.

Definition c09_oracle (content : list N) (kind bits consumed : N) : N :=
  match parse_numeral content with
  | NumOther => 1
  | NumMalformed => if kind =? 0 then 1 else 0
  | NumOk neg ip fp ex ncons =>
    let consumed_ok := (kind =? 0) || (consumed =? ncons) in
    if negb consumed_ok then 0
    else
      let is_int := (match fp with [] => true | _ => false end) && (match ex with None => true | _ => false end) in
      let n := digits_val ip in
      if is_int && negb neg && (n <? two64s) then (if (kind =? 2) && (bits =? n) then 1 else 0)
      else if is_int && neg && (n =? 0) then (if (kind =? 1) && (bits =? dbl_sign) then 1 else 0)
      else if is_int && neg && (n <=? two63) then (if (kind =? 3) && (bits =? two64s - n) then 1 else 0)
      else
        let M := digits_val (ip ++ fp) in
        let e := match ex with
                 | None => 0%Z
                 | Some (eneg, ed) => let v := Z.of_N (digits_val ed) in if eneg then (- v)%Z else v
                 end in
        c09_real_rule neg M (e - Z.of_N (len fp))%Z kind bits
  end.

(* ================================================================== *)
(* C10: reference formatting                                           *)

Record fmtinfo := mkFmt { ff_msize : N; ff_bias : N; ff_ebits : N }.
Definition fmt_double : fmtinfo := mkFmt 52 1023 11.
Definition fmt_float : fmtinfo := mkFmt 23 127 8.

Inductive fclass := FNan | FInf (neg : bool) | FZero (neg : bool) | FFin (neg : bool) (num den : N).

Definition classify (f : fmtinfo) (bits : N) : fclass :=
  let ms := ff_msize f in
  let mant := bits mod 2 ^ ms in
  let be := (bits / 2 ^ ms) mod 2 ^ ff_ebits f in
  let neg := negb ((bits / 2 ^ (ms + ff_ebits f)) mod 2 =? 0) in
  if be =? 2 ^ ff_ebits f - 1 then (if mant =? 0 then FInf neg else FNan)
  else if (be =? 0) && (mant =? 0) then FZero neg
  else
    let m := if be =? 0 then mant else mant + 2 ^ ms in
    let e := if be =? 0 then (1 - Z.of_N (ff_bias f) - Z.of_N ms)%Z
             else (Z.of_N be - Z.of_N (ff_bias f) - Z.of_N ms)%Z in
    if (0 <=? e)%Z then FFin neg (m * 2 ^ Z.to_N e) 1 else FFin neg m (2 ^ Z.to_N (- e)).

(* half-even: (correct, other candidate) *)
Definition half_even (num den : N) : N * N :=
  let q := num / den in
  let r := num mod den in
  if (den <? 2 * r) || ((2 * r =? den) && N.odd q) then (q + 1, q) else (q, q + 1).

Definition pad_left (n : N) (l : list N) : list N :=
  repeat a_zero (N.to_nat (n - len l)) ++ l.

Fixpoint strip_trailing_zeros_rev (l : list N) : list N :=
  match l with c :: r => if c =? a_zero then strip_trailing_zeros_rev r else l | [] => [] end.
Definition strip_trailing_zeros (l : list N) : list N := rev (strip_trailing_zeros_rev (rev l)).

(* q * 10^-p as "%.{p}f" *)
Definition render_fixed (q p : N) : list N :=
  let ds := pad_left (p + 1) (dec q) in
  let il := N.to_nat (len ds - p) in
  if p =? 0 then ds else firstn il ds ++ [a_dot] ++ skipn il ds.

Definition render_semifixed (q p : N) : list N :=
  let ds := pad_left (p + 1) (dec q) in
  let il := N.to_nat (len ds - p) in
  let fr := strip_trailing_zeros (skipn il ds) in
  match fr with [] => firstn il ds | _ => firstn il ds ++ [a_dot] ++ fr end.

(* 10^X <= num/den *)
Definition pow10_le (X : Z) (num den : N) : bool :=
  if (0 <=? X)%Z then 10 ^ Z.to_N X * den <=? num else den <=? num * 10 ^ Z.to_N (- X).

Fixpoint adjust_down (fuel : nat) (X : Z) (num den : N) : Z :=
  match fuel with O => X | S f => if pow10_le X num den then X else adjust_down f (X - 1)%Z num den end.
Fixpoint adjust_up (fuel : nat) (X : Z) (num den : N) : Z :=
  match fuel with O => X | S f => if pow10_le (X + 1)%Z num den then adjust_up f (X + 1)%Z num den else X end.

(* floor (log10 (num/den)) *)
Definition floor_log10 (num den : N) : Z :=
  let l := (Z.of_N (N.log2 num) - Z.of_N (N.log2 den))%Z in
  let est := ((l * 30103) / 100000)%Z in
  adjust_up 4 (adjust_down 4 est num den) num den.

(* q (P digits, possibly 10^P after a carry) * 10^(X-P+1) as "%.{P}g" *)
Definition render_g (q0 : N) (X0 : Z) (P : N) : list N :=
  let '(q, X) := if q0 =? 10 ^ P then (10 ^ (P - 1), (X0 + 1)%Z) else (q0, X0) in
  let ds := dec q in                          (* exactly P digits *)
  if ((-4 <=? X)%Z && (X <? Z.of_N P)%Z) then
    if (0 <=? X)%Z then
      let il := S (Z.to_nat X) in
      let fr := strip_trailing_zeros (skipn il ds) in
      match fr with [] => firstn il ds | _ => firstn il ds ++ [a_dot] ++ fr end
    else
      [a_zero; a_dot] ++ repeat a_zero (Z.to_nat (- X - 1)) ++ strip_trailing_zeros ds
  else
    let fr := strip_trailing_zeros (skipn 1 ds) in
    let ax := Z.to_N (Z.abs X) in
    firstn 1 ds ++ (match fr with [] => [] | _ => [a_dot] ++ fr end)
    ++ [a_e; if (0 <=? X)%Z then a_plus else a_minus] ++ pad_left 2 (dec ax).

Definition str_inf : list N := [105; 110; 102].
Definition str_nan : list N := [110; 97; 110].

(* (reference text, text of the other rounding candidate) without the sign; fmt: 0 default, 1 fixed, 2 semi-fixed *)
Definition reference_pair (num den prec fmt : N) : list N * list N :=
  if fmt =? 1 then
    let '(c, o) := half_even (num * 10 ^ prec) den in (render_fixed c prec, render_fixed o prec)
  else if fmt =? 2 then
    let '(c, o) := half_even (num * 10 ^ prec) den in (render_semifixed c prec, render_semifixed o prec)
  else
    let P := if prec =? 0 then 1 else prec in
    let X := floor_log10 num den in
    let s := (X - Z.of_N P + 1)%Z in
    let '(c, o) := if (0 <=? s)%Z then half_even num (den * 10 ^ Z.to_N s)
                   else half_even (num * 10 ^ Z.to_N (- s)) den in
    (render_g c X P, render_g o X P).

(* significant digits: no point, no trailing zeros *)
Definition sig_digits (l : list N) : list N :=
  strip_trailing_zeros (filter (fun c => negb (c =? a_dot)) l).
Definition has_char (c : N) (l : list N) : bool := existsb (fun x => x =? c) l.
Fixpoint split_at_dot (l : list N) : list N * list N :=
  match l with
  | c :: r => if c =? a_dot then ([], r) else let '(a, b) := split_at_dot r in (c :: a, b)
  | [] => ([], [])
  end.

(* class KF-C10c: the reference has no exponent, its fraction is absent or all
   zeros, its integer part ends in 0, and the implementation printed the same
   significant digits with another magnitude (integer zeros trimmed together
   with the rounded-away fraction) *)
Definition kf_c10c (ref out : list N) : bool :=
  let '(ip, fr) := split_at_dot ref in
  negb (has_char a_e ref) && negb (has_char a_e out)
  && forallb (fun c => c =? a_zero) fr
  && (last ip 0 =? a_zero) && (1 <? len ip)
  && forallb (fun c => isdig c || (c =? a_dot)) out
  && list_eqb (sig_digits out) (sig_digits ref)
  && negb (list_eqb out ref).

Fixpoint strip_prefix (pre l : list N) : option (list N) :=
  match pre, l with
  | [], _ => Some l
  | x :: p, y :: r => if x =? y then strip_prefix p r else None
  | _ :: _, [] => None
  end.

(* codes: 1 ok; 0 violated; 2 = other rounding candidate (KF-C10b); 3 = KF-C10c *)
Definition c10_real_oracle (f : fmtinfo) (pre : list N) (bits prec fmt : N) (out : list N) : N :=
  match strip_prefix pre out with
  | None => 0
  | Some body =>
    match classify f bits with
    | FNan => if list_eqb body str_nan then 1 else 0
    | FInf neg => if list_eqb body ((if neg then [a_minus] else []) ++ str_inf) then 1 else 0
    | FZero neg =>
      let z := if (fmt =? 1) && negb (prec =? 0) then [a_zero; a_dot] ++ repeat a_zero (N.to_nat prec) else [a_zero] in
      if list_eqb body ((if neg then [a_minus] else []) ++ z) then 1 else 0
    | FFin neg num den =>
      let sg := if neg then [a_minus] else [] in
      match strip_prefix sg body with
      | None => 0
      | Some txt =>
        let '(ref, alt) := reference_pair num den prec fmt in
        if list_eqb txt ref then 1
        else if list_eqb txt alt then 2
        else if kf_c10c ref txt then 3
        else 0
      end
    end
  end.

Definition c10_reference (f : fmtinfo) (bits prec fmt : N) : list N :=
  match classify f bits with
  | FNan => str_nan
  | FInf neg => (if neg then [a_minus] else []) ++ str_inf
  | FZero neg => (if neg then [a_minus] else []) ++
                 (if (fmt =? 1) && negb (prec =? 0) then [a_zero; a_dot] ++ repeat a_zero (N.to_nat prec) else [a_zero])
  | FFin neg num den => (if neg then [a_minus] else []) ++ fst (reference_pair num den prec fmt)
  end.

(* integers: w-bit pattern, signed or not *)
Definition c10_int_reference (w : N) (sgn : bool) (pat : N) : list N :=
  if sgn && (2 ^ (w - 1) <=? pat) then a_minus :: dec (2 ^ w - pat) else dec pat.
Definition c10_int_oracle (pre : list N) (w : N) (sgn : bool) (pat : N) (out : list N) : N :=
  if list_eqb out (pre ++ c10_int_reference w sgn pat) then 1 else 0.

(* ================================================================== *)
(* C11: the parsed number denotes exactly the double / float           *)

(* the exact value denoted by a parse result, as sign and num/den *)
Definition parsed_value (kind rbits : N) : option fclass :=
  if kind =? 1 then Some (classify fmt_double rbits)
  else if kind =? 2 then Some (if rbits =? 0 then FZero false else FFin false rbits 1)
  else if kind =? 3 then Some (FFin true (two64s - rbits) 1)
  else None.

Definition c11_double_oracle (bits kind rbits : N) : N :=
  if kind =? 1 then (if rbits =? bits then 1 else 0)
  else
    match parsed_value kind rbits, classify fmt_double bits with
    | Some (FZero n1), FZero n2 => if Bool.eqb n1 n2 then 1 else 0
    | Some (FFin n1 a b), FFin n2 c d => if Bool.eqb n1 n2 && (a * d =? c * b) then 1 else 0
    | _, _ => 0
    end.

(* the double obtained from the text, converted to float (round-half-even), must be the float *)
Definition c11_float_oracle (fbits kind rbits : N) : N :=
  match parsed_value kind rbits with
  | Some (FZero n) => if fbits =? (if n then 2147483648 else 0) then 1 else 0
  | Some (FFin n num den) =>
    let mag := round_binary 24 149 127 num den in
    if fbits =? mag + (if n then 2147483648 else 0) then 1 else 0
  | _ => 0
  end.
