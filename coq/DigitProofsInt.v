(* DigitProofsInt.v -- C10: integer to text is the exact decimal representation
   (Digit::IntToString two digits at a time, both directions; NumberToString for
   the signed / narrow types incl. minimum values), and the digit tables. *)
From Coq Require Import NArith ZArith List Bool Lia ZifyBool ZifyN ZifyNat.
From Qv Require Import gen.Tables_digit DigitModel.
Import ListNotations.
Local Open Scope N_scope.
Ltac Zify.zify_post_hook ::= Z.div_mod_to_equations.

(* ---- specification: what "the decimal representation of n" means ---- *)
Definition dig (c : N) : Prop := 48 <= c <= 57.
Definition dval (s : list N) : N := fold_left (fun a c => a * 10 + (c - 48)) s 0.
(* s is THE decimal representation of n: digits only, value n, no leading zero (except "0") *)
Definition decimal_of (n : N) (s : list N) : Prop :=
  Forall dig s /\ dval s = n /\ s <> [] /\ (hd 0 s <> 48 \/ s = [48]).

Lemma fold_dval_acc : forall s a, fold_left (fun a c => a * 10 + (c - 48)) s a = a * 10 ^ N.of_nat (length s) + dval s.
Proof.
  induction s as [|c s IH]; intros a; cbn [fold_left length].
  - unfold dval; cbn. lia.
  - unfold dval. cbn [fold_left]. rewrite IH. rewrite (IH (0 * 10 + (c - 48))).
    rewrite Nat2N.inj_succ, N.pow_succ_r'. lia.
Qed.

Lemma dval_app : forall s t, dval (s ++ t) = dval s * 10 ^ N.of_nat (length t) + dval t.
Proof. intros s t. unfold dval at 1. rewrite fold_left_app. rewrite fold_dval_acc. reflexivity. Qed.

Lemma dval_cons2 : forall a b t, dval (a :: b :: t) = ((a - 48) * 10 + (b - 48)) * 10 ^ N.of_nat (length t) + dval t.
Proof. intros. change (a :: b :: t) with ([a; b] ++ t). rewrite dval_app. reflexivity. Qed.

Lemma dval_cons1 : forall a t, dval (a :: t) = (a - 48) * 10 ^ N.of_nat (length t) + dval t.
Proof. intros. change (a :: t) with ([a] ++ t). rewrite dval_app. reflexivity. Qed.

(* decimal representations are unique, so decimal_of really is a specification *)
Lemma dval_bound : forall s, Forall dig s -> dval s < 10 ^ N.of_nat (length s).
Proof.
  induction s as [|c s IH]; intros H.
  - cbn. lia.
  - inversion H as [|? ? Hc Hs]; subst. rewrite dval_cons1. specialize (IH Hs).
    cbn [length]. rewrite Nat2N.inj_succ, N.pow_succ_r'. unfold dig in Hc. nia.
Qed.

(* ---- the tables ---- *)
Definition t1_check : bool :=
  forallb (fun i => (tbl dg_table1 (2 * i) =? 48 + i / 10) && (tbl dg_table1 (2 * i + 1) =? 48 + i mod 10))
          (map N.of_nat (seq 0 100)).
Lemma t1_check_ok : t1_check = true. Proof. vm_compute. reflexivity. Qed.

Lemma table1_spec : forall i, i < 100 ->
  tbl dg_table1 (i * 2) = 48 + i / 10 /\ tbl dg_table1 (i * 2 + 1) = 48 + i mod 10.
Proof.
  intros i Hi. pose proof t1_check_ok as H. unfold t1_check in H. rewrite forallb_forall in H.
  assert (Hin : In i (map N.of_nat (seq 0 100))).
  { rewrite <- (N2Nat.id i). apply in_map. apply in_seq. lia. }
  specialize (H i Hin). apply andb_prop in H. destruct H as [H1 H2].
  apply N.eqb_eq in H1. apply N.eqb_eq in H2. rewrite (N.mul_comm i 2). auto.
Qed.

Lemma table2_spec : forall i, i < 10 -> tbl dg_table2 i = 48 + i.
Proof.
  intros i Hi.
  assert (Hc : forallb (fun i => tbl dg_table2 i =? 48 + i) (map N.of_nat (seq 0 10)) = true) by (vm_compute; reflexivity).
  rewrite forallb_forall in Hc.
  assert (Hin : In i (map N.of_nat (seq 0 10))).
  { rewrite <- (N2Nat.id i). apply in_map. apply in_seq. lia. }
  specialize (Hc i Hin). apply N.eqb_eq in Hc. exact Hc.
Qed.

Lemma tables_exact :
  dg_table1 = flat_map (fun i => [48 + i / 10; 48 + i mod 10]) (map N.of_nat (seq 0 100))
  /\ dg_table2 = map (fun i => 48 + i) (map N.of_nat (seq 0 10)).
Proof. split; vm_compute; reflexivity. Qed.

(* ---- forward direction ---- *)
Lemma fwd_value : forall fuel n acc,
  n < 10 * 100 ^ N.of_nat (pred fuel) -> fuel <> O ->
  dval (int_to_string_fwd fuel n acc) = n * 10 ^ N.of_nat (length acc) + dval acc.
Proof.
  induction fuel as [|f IH]; intros n acc Hn Hf; [congruence|].
  cbn [int_to_string_fwd pred] in *.
  destruct (10 <=? n) eqn:E10.
  - apply N.leb_le in E10.
    destruct f as [|f'].
    { cbn in Hn. lia. }
    assert (Hm : n mod 100 < 100) by (apply N.mod_lt; lia).
    destruct (table1_spec (n mod 100) Hm) as [T1 T2].
    rewrite T1, T2.
    rewrite IH; [|cbn [pred]; rewrite Nat2N.inj_succ, N.pow_succ_r' in Hn;
                  set (X := 100 ^ N.of_nat f') in *; apply N.div_lt_upper_bound; lia|discriminate].
    rewrite dval_cons2. cbn [length]. rewrite !Nat2N.inj_succ, !N.pow_succ_r'.
    replace (48 + n mod 100 / 10 - 48) with (n mod 100 / 10) by lia.
    replace (48 + (n mod 100) mod 10 - 48) with ((n mod 100) mod 10) by lia.
    assert (n = 100 * (n / 100) + n mod 100) by (apply N.div_mod; lia).
    assert (n mod 100 = 10 * (n mod 100 / 10) + (n mod 100) mod 10) by (apply N.div_mod; lia).
    nia.
  - apply N.leb_gt in E10.
    destruct (negb (n =? 0) || match acc with [] => true | _ :: _ => false end) eqn:Ec.
    + rewrite table2_spec by lia. rewrite dval_cons1. replace (48 + n - 48) with n by lia. reflexivity.
    + apply orb_false_iff in Ec. destruct Ec as [Ez _]. apply negb_false_iff in Ez. apply N.eqb_eq in Ez. subst n. lia.
Qed.

Lemma fwd_digits : forall fuel n acc, Forall dig acc -> Forall dig (int_to_string_fwd fuel n acc).
Proof.
  induction fuel as [|f IH]; intros n acc Ha; [exact Ha|].
  cbn [int_to_string_fwd].
  destruct (10 <=? n) eqn:E10.
  - assert (Hm : n mod 100 < 100) by (apply N.mod_lt; lia).
    destruct (table1_spec (n mod 100) Hm) as [T1 T2]. rewrite T1, T2.
    apply IH. constructor; [|constructor; [|exact Ha]]; unfold dig.
    + assert (n mod 100 / 10 < 10) by (apply N.div_lt_upper_bound; lia). lia.
    + assert ((n mod 100) mod 10 < 10) by (apply N.mod_lt; lia). lia.
  - apply N.leb_gt in E10.
    destruct (negb (n =? 0) || match acc with [] => true | _ :: _ => false end); [|exact Ha].
    constructor; [|exact Ha]. rewrite table2_spec by lia. unfold dig. lia.
Qed.

Lemma fwd_nonempty_acc : forall fuel n a acc, int_to_string_fwd fuel n (a :: acc) <> [].
Proof.
  induction fuel as [|f IH]; intros n a acc; cbn [int_to_string_fwd]; [discriminate|].
  destruct (10 <=? n); [apply IH|].
  destruct (negb (n =? 0) || false); discriminate.
Qed.

Lemma fwd_zero_acc : forall fuel a acc, int_to_string_fwd fuel 0 (a :: acc) = a :: acc.
Proof. destruct fuel; intros; reflexivity. Qed.

Lemma fwd_head : forall fuel n acc, n <> 0 -> n < 10 * 100 ^ N.of_nat (pred fuel) -> fuel <> O ->
  hd 0 (int_to_string_fwd fuel n acc) <> 48.
Proof.
  induction fuel as [|f IH]; intros n acc Hn Hb Hf; [congruence|].
  cbn [int_to_string_fwd pred] in *.
  destruct (10 <=? n) eqn:E10.
  - apply N.leb_le in E10.
    destruct f as [|f']; [cbn in Hb; lia|].
    assert (Hm : n mod 100 < 100) by (apply N.mod_lt; lia).
    destruct (table1_spec (n mod 100) Hm) as [T1 T2]. rewrite T1, T2.
    destruct (N.eq_dec (n / 100) 0) as [Hz|Hz].
    + rewrite Hz, fwd_zero_acc. cbn [hd].
      assert (n < 100) by (apply N.div_small_iff in Hz; lia).
      rewrite (N.mod_small n 100) by lia.
      assert (1 <= n / 10) by (apply N.div_le_lower_bound; lia). lia.
    + apply IH; [exact Hz| |discriminate].
      cbn [pred]. rewrite Nat2N.inj_succ, N.pow_succ_r' in Hb.
      set (X := 100 ^ N.of_nat f') in *.
      apply N.div_lt_upper_bound; lia.
  - apply N.leb_gt in E10.
    assert (En : (n =? 0) = false) by (apply N.eqb_neq; exact Hn).
    rewrite En. cbn [negb orb hd]. rewrite table2_spec by lia. lia.
Qed.

(* every n below 2^64 (indeed below 10^23): the text is the decimal representation *)
Theorem u64_to_string_decimal : forall n, n < 2 ^ 64 -> decimal_of n (u64_to_string n).
Proof.
  intros n Hn. unfold u64_to_string, int_fuel, decimal_of.
  assert (Hb : n < 10 * 100 ^ N.of_nat (pred 12)).
  { eapply N.lt_trans; [exact Hn|]. vm_compute. reflexivity. }
  repeat split.
  - apply fwd_digits. constructor.
  - rewrite fwd_value by (auto; discriminate). cbn. lia.
  - destruct (N.eq_dec n 0) as [->|Hz]; [vm_compute; discriminate|].
    intros He. pose proof (fwd_value 12 n [] Hb ltac:(discriminate)) as Hv. rewrite He in Hv. cbn in Hv. lia.
  - destruct (N.eq_dec n 0) as [->|Hz]; [right; vm_compute; reflexivity|].
    left. apply fwd_head; auto.
Qed.

(* ---- reverse direction (used by bigIntToString): the mirror image ---- *)
Lemma rev_fwd : forall fuel n acc,
  int_to_string_fwd fuel n acc =
  rev (int_to_string_rev fuel n (match acc with [] => false | _ => true end)) ++ acc.
Proof.
  induction fuel as [|f IH]; intros n acc; cbn [int_to_string_fwd int_to_string_rev]; [reflexivity|].
  destruct (10 <=? n).
  - rewrite IH. cbn [rev]. rewrite <- !app_assoc. reflexivity.
  - destruct acc as [|a acc]; cbn [negb orb].
    + rewrite orb_true_r. reflexivity.
    + rewrite !orb_false_r. destruct (negb (n =? 0)); reflexivity.
Qed.

Theorem u64_to_string_rev_mirror : forall n, u64_to_string_rev n = rev (u64_to_string n).
Proof.
  intros n. unfold u64_to_string, u64_to_string_rev. rewrite rev_fwd. rewrite app_nil_r, rev_involutive. reflexivity.
Qed.

(* ---- NumberToString for the integer types ---- *)
(* the mathematical value of a w-bit pattern *)
Definition int_value (w : N) (sgn : bool) (pat : N) : Z :=
  if sgn && (2 ^ (w - 1) <=? pat) then (Z.of_N pat - 2 ^ Z.of_N w)%Z else Z.of_N pat.

Theorem int_number_to_string_exact : forall pre w sgn pat,
  (w = 8 \/ w = 16 \/ w = 32 \/ w = 64) -> pat < 2 ^ w ->
  exists s, int_number_to_string pre w sgn pat
            = pre ++ (if (int_value w sgn pat <? 0)%Z then [ch_neg] else []) ++ s
         /\ decimal_of (Z.abs_N (int_value w sgn pat)) s.
Proof.
  intros pre w sgn pat Hw Hp. unfold int_number_to_string, int_value.
  assert (Hw64 : 2 ^ w <= 2 ^ 64) by (destruct Hw as [-> | [-> | [-> | ->]]]; vm_compute; discriminate).
  assert (Hpw : 2 ^ w = 2 * 2 ^ (w - 1)).
  { rewrite <- N.pow_succ_r'. f_equal. destruct Hw as [-> | [-> | [-> | ->]]]; reflexivity. }
  destruct (sgn && (2 ^ (w - 1) <=? pat)) eqn:En.
  - apply andb_prop in En. destruct En as [_ En]. apply N.leb_le in En.
    exists (u64_to_string ((2 ^ w - pat) mod 2 ^ w)). split.
    + assert (H : (Z.of_N pat - 2 ^ Z.of_N w <? 0)%Z = true) by (apply Z.ltb_lt; lia).
      rewrite H. rewrite <- app_assoc. reflexivity.
    + rewrite N.mod_small by lia.
      replace (Z.abs_N (Z.of_N pat - 2 ^ Z.of_N w)) with (2 ^ w - pat) by lia.
      apply u64_to_string_decimal. lia.
  - exists (u64_to_string pat). split.
    + assert (H : (Z.of_N pat <? 0)%Z = false) by (apply Z.ltb_ge; lia). rewrite H. reflexivity.
    + rewrite Zabs2N.id. apply u64_to_string_decimal. lia.
Qed.

(* non-vacuity *)
Example int_examples :
  int_number_to_string [120] 64 true 9223372036854775808 = [120; 45; 57; 50; 50; 51; 51; 55; 50; 48; 51; 54; 56; 53; 52; 55; 55; 53; 56; 48; 56]
  /\ int_number_to_string [] 8 true 128 = [45; 49; 50; 56]
  /\ int_number_to_string [] 64 false 18446744073709551615 = [49; 56; 52; 52; 54; 55; 52; 52; 48; 55; 51; 55; 48; 57; 53; 53; 49; 54; 49; 53]
  /\ u64_to_string 0 = [48] /\ u64_to_string 100 = [49; 48; 48].
Proof. repeat (match goal with |- _ /\ _ => split end); vm_compute; reflexivity. Qed.
