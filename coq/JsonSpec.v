(* JsonSpec.v -- specification side of the JSON reader (definitions only).

   [SBody w body s]: [body] is the inside of a string token (between the quotes) as the
   reader accepts it, and [s] the code units it stands for at width [w]:
     raw units (anything but quote, backslash, LF, TAB, CR),
     backslash + one of  quote backslash slash b t n f r,
     backslash + u|U + four hexadecimal digits, either case (not a high surrogate; after D93 the
     reader refuses a group with fewer than four hexadecimal digits),
     a high surrogate escape + backslash + u|U + four hexadecimal digits (the pair; after D92 the reader
     checks that the second half is an escape, but not the range of its value).
   [Val w r v r']: a value [v] can be read off the front of [r], leaving [r'] -- the accepted
   language of parseValue as an inductive grammar (RFC 8259 plus what the reader adds: control
   characters other than LF TAB CR inside strings, backslash-U, unchecked second halves, and
   whatever the number scanner of Digit.hpp accepts: +1, 0x1F, .5, 1.).
   [Document w s v]: optional whitespace, one value, optional whitespace. *)
From Coq Require Import NArith ZArith List Bool.
From Qv Require Import gen.Tables_json JsonModel.
Import ListNotations.
Local Open Scope N_scope.

Definition raw_ok (c : N) : bool :=
  negb (c =? jc_quote) && negb (c =? jc_bslash) && negb ((c =? jc_ctl_n) || (c =? jc_ctl_t) || (c =? jc_ctl_r)).

Definition esc_simple (ch : N) : option N :=
  if (ch =? jc_quote) || (ch =? jc_bslash) || (ch =? jc_slash) then Some ch
  else if ch =? jc_b then Some jc_ctl_b
  else if ch =? jc_t then Some jc_ctl_t
  else if ch =? jc_n then Some jc_ctl_n
  else if ch =? jc_f then Some jc_ctl_f
  else if ch =? jc_r then Some jc_ctl_r
  else None.

Definition is_u (ch : N) : bool := (ch =? jc_cu) || (ch =? jc_u).

Definition hex4v (h1 h2 h3 h4 : N) : N :=
  match hexrd 0 4 [h1; h2; h3; h4] 0 with JOk c => c | JErr _ => 0 end.
(* D93: the four units of a hexadecimal group are hexadecimal digits (either case) *)
Definition hex4ok (h1 h2 h3 h4 : N) : bool := is_hexd h1 && is_hexd h2 && is_hexd h3 && is_hexd h4.
Definition is_high (code : N) : bool := N.land code 64512 =? 55296.
Definition pair_code (hi lo : N) : N :=
  m32 (m32 (m32 (N.shiftl (N.lxor hi 55296) 10) + N.land lo 1023) + 65536).

Inductive SBody (w : N) : list N -> list N -> Prop :=
| SB_nil : SBody w [] []
| SB_raw c t d : raw_ok c = true -> SBody w t d -> SBody w (c :: t) (c :: d)
| SB_esc ch v t d : esc_simple ch = Some v -> SBody w t d -> SBody w (jc_bslash :: ch :: t) (v :: d)
| SB_u ch h1 h2 h3 h4 t d :
    esc_simple ch = None -> is_u ch = true -> hex4ok h1 h2 h3 h4 = true -> is_high (hex4v h1 h2 h3 h4) = false -> SBody w t d ->
    SBody w (jc_bslash :: ch :: h1 :: h2 :: h3 :: h4 :: t) (to_utf w (hex4v h1 h2 h3 h4) ++ d)
| SB_pair ch h1 h2 h3 h4 ch2 l1 l2 l3 l4 t d :       (* D92: the low half is another \u escape (its VALUE stays unchecked) *)
    esc_simple ch = None -> is_u ch = true -> hex4ok h1 h2 h3 h4 = true -> is_high (hex4v h1 h2 h3 h4) = true -> is_u ch2 = true ->
    hex4ok l1 l2 l3 l4 = true -> SBody w t d ->
    SBody w (jc_bslash :: ch :: h1 :: h2 :: h3 :: h4 :: jc_bslash :: ch2 :: l1 :: l2 :: l3 :: l4 :: t)
            (to_utf w (pair_code (hex4v h1 h2 h3 h4) (hex4v l1 l2 l3 l4)) ++ d).

(* what the number scanner hands back, as a value *)
Definition num_value (r : list N) (n : numres) : option (jv * list N) :=
  match n with
  | NumNat x r' => Some (JNat x, r')
  | NumInt z r' => Some (JInt z, r')
  | NumReal r' => Some (JReal (firstn (length r - length r') r), r')
  | NumNaN => None
  end.

(* the first unit of a numeral is none of the six units parseValue dispatches on *)
Definition num_start (c : N) : bool :=
  negb ((c =? jc_scurly) || (c =? jc_ssquare) || (c =? jc_quote) || (c =? jc_t) || (c =? jc_f) || (c =? jc_n)).

Inductive Val (w : N) : list N -> jv -> list N -> Prop :=
| V_null r : Val w (strip0 jc_null_lit ++ r) JNull r
| V_true r : Val w (strip0 jc_true_lit ++ r) JTrue r
| V_false r : Val w (strip0 jc_false_lit ++ r) JFalse r
| V_num c t n v r' :
    num_start c = true -> scan_number (c :: t) = JOk n -> num_value (c :: t) n = Some (v, r') ->
    Val w (c :: t) v r'
| V_str sb s r : SBody w sb s -> Val w (jc_quote :: sb ++ jc_quote :: r) (JStr s) r
| V_arr0 r1 r : trim r1 = jc_esquare :: r -> Val w (jc_ssquare :: r1) (JArr []) r
| V_arr r1 vs r : Elems w (trim r1) [] vs r -> Val w (jc_ssquare :: r1) (JArr vs) r
| V_obj0 r1 r : trim r1 = jc_ecurly :: r -> Val w (jc_scurly :: r1) (JObj []) r
| V_obj r1 ms r : Members w (trim r1) [] ms r -> Val w (jc_scurly :: r1) (JObj ms) r
with Elems (w : N) : list N -> list jv -> list jv -> list N -> Prop :=
| E_last r v r1 r' acc :
    Val w r v r1 -> trim r1 = jc_esquare :: r' -> Elems w r acc (acc ++ [v]) r'
| E_more r v r1 r2 acc vs r' :
    Val w r v r1 -> trim r1 = jc_comma :: r2 -> Elems w (trim r2) (acc ++ [v]) vs r' -> Elems w r acc vs r'
with Members (w : N) : list N -> list (list N * jv) -> list (list N * jv) -> list N -> Prop :=
| M_last sb key r2 r3 v r4 r' acc :
    SBody w sb key -> trim r2 = jc_colon :: r3 -> Val w (trim r3) v r4 -> trim r4 = jc_ecurly :: r' ->
    Members w (jc_quote :: sb ++ jc_quote :: r2) acc (obj_insert acc key v) r'
| M_more sb key r2 r3 v r4 r5 acc out r' :
    SBody w sb key -> trim r2 = jc_colon :: r3 -> Val w (trim r3) v r4 -> trim r4 = jc_comma :: r5 ->
    Members w (trim r5) (obj_insert acc key v) out r' ->
    Members w (jc_quote :: sb ++ jc_quote :: r2) acc out r'.

Scheme Val_mind := Minimality for Val Sort Prop
  with Elems_mind := Minimality for Elems Sort Prop
  with Members_mind := Minimality for Members Sort Prop.
Combined Scheme Val_mutind from Val_mind, Elems_mind, Members_mind.

Definition Document (w : N) (s : list N) (v : jv) : Prop :=
  exists r1, Val w (trim s) v r1 /\ trim r1 = [].

Definition all_ws (l : list N) : Prop := Forall (fun c => is_ws c = true) l.
