(* SeqProofsMem.v -- C14: Memory::Copy / Memory::SetToZero byte-level model equals
   memcpy / memset semantics for every block size 2^shift and every length. *)
From Coq Require Import NArith List Arith Bool Lia.
From Qv Require Import SeqModel SeqLists.
Import ListNotations.

Definition mix (p : nat) (src dst : list N) : list N := firstn p src ++ skipn p dst.

Lemma mix_length : forall p src dst, p <= length src -> p <= length dst -> length (mix p src dst) = length dst.
Proof.
  intros p src dst Hs Hd. unfold mix. rewrite app_length, firstn_length, skipn_length. lia.
Qed.

Lemma splice_mix : forall p len src dst,
  p + len <= length src -> p + len <= length dst ->
  splice (mix p src dst) p (firstn len (skipn p src)) = mix (p + len) src dst.
Proof.
  intros p len src dst Hs Hd. unfold splice, mix.
  assert (Hl : length (firstn len (skipn p src)) = len) by (rewrite firstn_length, skipn_length; lia).
  assert (Hp : length (firstn p src) = p) by (rewrite firstn_length; lia).
  rewrite Hl.
  rewrite firstn_app, Hp, Nat.sub_diag, firstn_O, app_nil_r.
  rewrite firstn_firstn, Nat.min_id.
  rewrite skipn_app, Hp.
  replace (p + len - p) with len by lia.
  rewrite (skipn_all2 (firstn p src)) by lia. cbn [app].
  rewrite skipn_skipn'.
  rewrite app_assoc. now rewrite firstn_add_skipn.
Qed.

Lemma copy_step : forall p len src dst,
  p + len <= length src -> p + len <= length dst ->
  (v <- rd_bytes src p len ;; wr_bytes (mix p src dst) p v) = Ok (mix (p + len) src dst).
Proof.
  intros p len src dst Hs Hd. unfold rd_bytes.
  destruct (Nat.leb_spec (p + len) (length src)) as [_|?]; [|lia]. cbn [bind].
  unfold wr_bytes.
  assert (Hl : length (firstn len (skipn p src)) = len) by (rewrite firstn_length, skipn_length; lia).
  rewrite Hl, mix_length by lia.
  destruct (Nat.leb_spec (p + len) (length dst)) as [_|?]; [|lia].
  now rewrite splice_mix.
Qed.

Lemma copy_block_loop_ok : forall k bs t src dst,
  (t + k) * bs <= length src -> (t + k) * bs <= length dst ->
  copy_block_loop k bs t src (mix (t * bs) src dst) = Ok (mix ((t + k) * bs) src dst).
Proof.
  induction k as [|k IH]; intros bs t src dst Hs Hd.
  - cbn. now rewrite Nat.add_0_r.
  - cbn [copy_block_loop].
    assert (H1 : t * bs + bs <= length src) by nia.
    assert (H2 : t * bs + bs <= length dst) by nia.
    pose proof (copy_step (t * bs) bs src dst H1 H2) as Hc.
    unfold bind in Hc |- *.
    destruct (rd_bytes src (t * bs) bs) as [v|e]; [|discriminate].
    rewrite Hc.
    replace (t * bs + bs) with (S t * bs) by lia.
    rewrite IH by (replace (S t + k) with (t + S k) by lia; assumption).
    now replace (S t + k) with (t + S k) by lia.
Qed.

Lemma copy_tail_loop_ok : forall k off src dst,
  off + k <= length src -> off + k <= length dst ->
  copy_tail_loop k off src (mix off src dst) = Ok (mix (off + k) src dst).
Proof.
  induction k as [|k IH]; intros off src dst Hs Hd.
  - cbn. now rewrite Nat.add_0_r.
  - cbn [copy_tail_loop].
    pose proof (copy_step off 1 src dst ltac:(lia) ltac:(lia)) as Hc.
    unfold bind in Hc |- *.
    destruct (rd_bytes src off 1) as [v|e]; [|discriminate].
    rewrite Hc. replace (off + 1) with (S off) by lia.
    rewrite IH by lia. now replace (S off + k) with (off + S k) by lia.
Qed.

Lemma div_mul_le : forall n bs, bs <> 0 -> n / bs * bs <= n.
Proof. intros n bs Hb. rewrite Nat.mul_comm. now apply Nat.mul_div_le. Qed.

(* Memory::Copy(to, from, n): the first n bytes of the destination become the first n
   bytes of the source, every other destination byte keeps its value; no read or write
   outside [0, n) (no Error) -- for every block size and for the scalar build *)
Theorem copy_blocks_is_memcpy : forall simd shift n src dst,
  n <= length src -> n <= length dst ->
  copy_blocks simd shift n src dst = Ok (firstn n src ++ skipn n dst).
Proof.
  intros simd shift n src dst Hs Hd. unfold copy_blocks.
  set (bs := 2 ^ shift).
  assert (Hbs : bs <> 0) by (apply Nat.pow_nonzero; lia).
  set (m := if simd then n / bs else 0).
  assert (Hm : m * bs <= n) by (destruct simd; subst m; [now apply div_mul_le | lia]).
  pose proof (copy_block_loop_ok m bs 0 src dst ltac:(cbn; lia) ltac:(cbn; lia)) as H1.
  cbn [Nat.add Nat.mul] in H1. unfold mix at 1 in H1. cbn [firstn skipn app] in H1.
  rewrite H1. cbn [bind].
  rewrite copy_tail_loop_ok by lia.
  unfold mix. now replace (m * bs + (n - m * bs)) with n by lia.
Qed.

(* ---------- SetToZero ---------- *)
Definition zmix (p : nat) (dst : list N) : list N := repeat 0%N p ++ skipn p dst.

Lemma splice_zmix : forall p len dst,
  p + len <= length dst -> splice (zmix p dst) p (repeat 0%N len) = zmix (p + len) dst.
Proof.
  intros p len dst Hd. unfold splice, zmix.
  rewrite repeat_length.
  assert (Hp : length (repeat 0%N p) = p) by apply repeat_length.
  rewrite firstn_app, Hp, Nat.sub_diag, firstn_O, app_nil_r.
  rewrite firstn_all2 by lia.
  rewrite skipn_app, Hp. replace (p + len - p) with len by lia.
  rewrite (skipn_all2 (repeat 0%N p)) by lia. cbn [app].
  rewrite skipn_skipn'.
  now rewrite app_assoc, <- repeat_app.
Qed.

Lemma zmix_length : forall p dst, p <= length dst -> length (zmix p dst) = length dst.
Proof. intros p dst H. unfold zmix. rewrite app_length, repeat_length, skipn_length. lia. Qed.

Lemma zero_step : forall p len dst, p + len <= length dst ->
  wr_bytes (zmix p dst) p (repeat 0%N len) = Ok (zmix (p + len) dst).
Proof.
  intros p len dst Hd. unfold wr_bytes. rewrite repeat_length, zmix_length by lia.
  destruct (Nat.leb_spec (p + len) (length dst)) as [_|?]; [|lia].
  now rewrite splice_zmix.
Qed.

Lemma zero_block_loop_ok : forall k bs t dst,
  (t + k) * bs <= length dst ->
  zero_block_loop k bs t (zmix (t * bs) dst) = Ok (zmix ((t + k) * bs) dst).
Proof.
  induction k as [|k IH]; intros bs t dst Hd.
  - cbn. now rewrite Nat.add_0_r.
  - cbn [zero_block_loop]. rewrite zero_step by nia. cbn [bind].
    replace (t * bs + bs) with (S t * bs) by lia.
    rewrite IH by (replace (S t + k) with (t + S k) by lia; assumption).
    now replace (S t + k) with (t + S k) by lia.
Qed.

Lemma zero_tail_loop_ok : forall k off dst,
  off + k <= length dst ->
  zero_tail_loop k off (zmix off dst) = Ok (zmix (off + k) dst).
Proof.
  induction k as [|k IH]; intros off dst Hd.
  - cbn. now rewrite Nat.add_0_r.
  - cbn [zero_tail_loop]. change [0%N] with (repeat 0%N 1). rewrite zero_step by lia. cbn [bind].
    replace (off + 1) with (S off) by lia. rewrite IH by lia.
    now replace (S off + k) with (off + S k) by lia.
Qed.

Theorem zero_blocks_is_memset : forall simd shift n dst,
  n <= length dst ->
  zero_blocks simd shift n dst = Ok (repeat 0%N n ++ skipn n dst).
Proof.
  intros simd shift n dst Hd. unfold zero_blocks.
  set (bs := 2 ^ shift).
  assert (Hbs : bs <> 0) by (apply Nat.pow_nonzero; lia).
  set (m := if simd then n / bs else 0).
  assert (Hm : m * bs <= n) by (destruct simd; subst m; [now apply div_mul_le | lia]).
  pose proof (zero_block_loop_ok m bs 0 dst ltac:(cbn; lia)) as H1.
  cbn [Nat.add Nat.mul] in H1. unfold zmix at 1 in H1. cbn [repeat skipn app] in H1.
  rewrite H1. cbn [bind].
  rewrite zero_tail_loop_ok by lia.
  unfold zmix. now replace (m * bs + (n - m * bs)) with n by lia.
Qed.

(* non-vacuity: AVX2 block size, 70 bytes = 2 blocks + 6 tail bytes, guard bytes kept *)
Example copy_blocks_example :
  copy_blocks true 5 70 (map N.of_nat (seq 1 70)) (repeat 9%N 72)
  = Ok (map N.of_nat (seq 1 70) ++ [9%N; 9%N]).
Proof. vm_compute. reflexivity. Qed.
