(* Extract_seq.v -- extraction of the C14 models and specifications to OCaml
   (ExtrOcamlBasic only). *)
From Coq Require Import Extraction ExtrOcamlBasic NArith ZArith.
From Qv Require Import SeqModel.
Extraction Language OCaml.
Set Extraction Optimize.
Extraction "model_seq.ml"
  N.add N.mul N.sub N.div_eucl N.compare Z.add Z.mul Z.sub Z.div_eucl Z.compare Z.of_N Z.to_N Z.opp
  SeqModel.astepN SeqModel.aspecN SeqModel.astepS SeqModel.aspecS SeqModel.dumpN SeqModel.dumpS
  SeqModel.world0N SeqModel.world0S SeqModel.spec0 SeqModel.term_ok
  SeqModel.sstep SeqModel.sspec SeqModel.tstep SeqModel.tspec SeqModel.vstep SeqModel.vspec
  SeqModel.copy_blocks SeqModel.zero_blocks.
