(* DigitProofsReject.v -- C09: malformed tails are rejected on every path.
   [bad_tail hd l] is a purely syntactic description (no numbers) of the texts on
   which the scan after the mantissa window fails: digits are skipped, a second
   decimal point or an exponent marker without digits is fatal.  The mantissa loop
   and the 20th-digit step preserve it, so the result is NotANumber whether the
   offending character lies inside or beyond the 19-digit window. *)
From Coq Require Import NArith ZArith List Bool Lia ZifyBool ZifyN ZifyNat.
From Qv Require Import gen.Tables_digit DigitModel DigitProofsInt DigitProofsParse.
Import ListNotations.
Local Open Scope N_scope.

Definition bad_exp (r : list N) : bool :=
  match r with
  | [] => true
  | s :: r' =>
    if (s =? ch_pos) || (s =? ch_neg)
    then match r' with [] => true | c :: _ => negb (is_digit c) end
    else negb (is_digit s)
  end.

Fixpoint bad_tail (hd : bool) (l : list N) : bool :=
  match l with
  | [] => false
  | d :: r =>
    if is_digit d then bad_tail hd r
    else if d =? ch_dot then (if hd then true else bad_tail true r)
    else if (d =? ch_e) || (d =? ch_ue) then bad_exp r
    else false
  end.

Lemma exp_digits_nondigit : forall c r off e, is_digit c = false -> exp_digits (c :: r) off e = (c :: r, off, e).
Proof. intros c r off e H. cbn [exp_digits]. rewrite H. reflexivity. Qed.

Lemma bad_exp_rejects : forall r off neg, bad_exp r = true -> parse_exponent 3 r off neg false = None.
Proof.
  intros r off neg H. destruct r as [|s r']; [reflexivity|].
  cbn [bad_exp] in H. cbn [parse_exponent].
  destruct (s =? ch_pos) eqn:Ep.
  - cbn [orb] in H. destruct r' as [|c r'']; [reflexivity|].
    destruct (c =? ch_pos); [reflexivity|]. destruct (c =? ch_neg); [reflexivity|].
    apply negb_true_iff in H. rewrite exp_digits_nondigit by exact H. rewrite N.eqb_refl. reflexivity.
  - destruct (s =? ch_neg) eqn:En.
    + cbn [orb] in H. destruct r' as [|c r'']; [reflexivity|].
      destruct (c =? ch_pos); [reflexivity|]. destruct (c =? ch_neg); [reflexivity|].
      apply negb_true_iff in H. rewrite exp_digits_nondigit by exact H. rewrite N.eqb_refl. reflexivity.
    + cbn [orb] in H. apply negb_true_iff in H. rewrite exp_digits_nondigit by exact H. rewrite N.eqb_refl. reflexivity.
Qed.

Lemma bad_tail_rejects : forall l t, bad_tail (t_hasdot t) l = true -> tail_scan l t = None.
Proof.
  induction l as [|d r IH]; intros t H; [discriminate|].
  cbn [bad_tail] in H. cbn [tail_scan].
  destruct (is_digit d).
  - apply IH. exact H.
  - destruct (d =? ch_dot).
    + destruct (t_hasdot t) eqn:Eh; [reflexivity|]. apply IH. exact H.
    + destruct ((d =? ch_e) || (d =? ch_ue)); [|discriminate].
      rewrite bad_exp_rejects by exact H. reflexivity.
Qed.

Lemma bad_tail_skip_digits : forall ds hd l, Forall (fun c => is_digit c = true) ds -> bad_tail hd (ds ++ l) = bad_tail hd l.
Proof.
  induction ds as [|d ds IH]; intros hd l H; [reflexivity|].
  inversion H as [|? ? H1 H2]; subst. cbn [app bad_tail]. rewrite H1. apply IH. exact H2.
Qed.

(* the window scan in general: it consumes a run of digits *)
Lemma scan_window_gen : forall rest off maxend num dgt,
  exists consumed rest' off' num' dgt',
    scan_window rest off maxend num dgt = (rest', off', num', dgt')
    /\ rest = consumed ++ rest' /\ Forall (fun c => is_digit c = true) consumed
    /\ ((dgt' = dgt /\ consumed = []) \/ In dgt' consumed \/ (exists r, rest' = dgt' :: r /\ is_digit dgt' = false)).
Proof.
  induction rest as [|d r IH]; intros off maxend num dgt.
  - exists [], [], off, num, dgt. cbn. repeat split; auto.
  - cbn [scan_window]. destruct (off <? maxend).
    + destruct (is_digit d) eqn:Ed.
      * destruct (IH (off + 1) maxend (m64 (num * 10 + d - ch_zero)) d) as [c [r' [o' [n' [g' [H1 [H2 [H3 H4]]]]]]]].
        exists (d :: c), r', o', n', g'. repeat split.
        -- exact H1.
        -- cbn [app]. rewrite H2. reflexivity.
        -- constructor; assumption.
        -- destruct H4 as [[-> ->]|[Hin|Hex]]; [right; left; left; reflexivity|right; left; right; exact Hin|right; right; exact Hex].
      * exists [], (d :: r), off, num, d. repeat split; auto. right. right. exists r. auto.
    + exists [], (d :: r), off, num, dgt. repeat split; auto.
Qed.

Lemma is_digit_dot : is_digit ch_dot = false. Proof. reflexivity. Qed.

(* one round of the mantissa loop when a point has been seen already *)
Lemma main_loop_hasdot : forall f maxend s,
  s_hasdot s = true -> (s_digit s = ch_dot -> exists r, s_rest s = ch_dot :: r) ->
  bad_tail true (s_rest s) = true ->
  main_loop (S f) maxend s = LNaN
  \/ exists s', main_loop (S f) maxend s = LOk s' /\ s_hasdot s' = true /\ bad_tail true (s_rest s') = true.
Proof.
  intros f maxend s Hh Hd Hb. cbn [main_loop].
  destruct (s_rest s) as [|x xs] eqn:Er; [discriminate|].
  destruct (scan_window_gen (x :: xs) (s_off s) maxend (s_num s) (s_digit s)) as [c [r' [o' [n' [g' [H1 [H2 [H3 H4]]]]]]]].
  rewrite H1. rewrite Hh.
  destruct (g' =? ch_dot) eqn:Eg; [left; reflexivity|].
  right. eexists. split; [reflexivity|]. cbn [s_hasdot s_rest]. split; [reflexivity|].
  rewrite H2, bad_tail_skip_digits in Hb by exact H3. exact Hb.
Qed.

Lemma main_loop_bad_tail : forall f maxend s,
  (s_digit s = ch_dot -> exists r, s_rest s = ch_dot :: r) ->
  bad_tail (s_hasdot s) (s_rest s) = true ->
  main_loop (S (S f)) maxend s = LNaN
  \/ exists s', main_loop (S (S f)) maxend s = LOk s' /\ bad_tail (s_hasdot s') (s_rest s') = true.
Proof.
  intros f maxend s Hd Hb.
  destruct (s_hasdot s) eqn:Hh.
  { destruct (main_loop_hasdot (S f) maxend s Hh Hd Hb) as [H|[s' [H [Hh' Hb']]]]; [left; exact H|].
    right. exists s'. rewrite Hh'. auto. }
  cbn [main_loop].
  destruct (s_rest s) as [|x xs] eqn:Er; [discriminate|].
  destruct (scan_window_gen (x :: xs) (s_off s) maxend (s_num s) (s_digit s)) as [c [r' [o' [n' [g' [H1 [H2 [H3 H4]]]]]]]].
  rewrite H1. rewrite Hh.
  rewrite H2, bad_tail_skip_digits in Hb by exact H3.
  destruct (g' =? ch_dot) eqn:Eg.
  - apply N.eqb_eq in Eg. subst g'.
    assert (Hr : exists r, r' = ch_dot :: r).
    { destruct H4 as [[Hg Hc]|[Hin|[r [Hr _]]]].
      - subst c. cbn [app] in H2. rewrite <- H2. apply Hd. symmetry. exact Hg.
      - rewrite Forall_forall in H3. specialize (H3 _ Hin). rewrite is_digit_dot in H3. discriminate.
      - exists r. exact Hr. }
    destruct Hr as [r ->]. cbn [tl].
    cbn [bad_tail] in Hb. rewrite is_digit_dot, N.eqb_refl in Hb.
    (* every exit keeps hasdot = true and the text after the point *)
    assert (Hok : forall g, exists s', LOk (mkSt (o' + 1) r n' g o' true true) = LOk s' /\ bad_tail (s_hasdot s') (s_rest s') = true).
    { intros g. eexists. split; [reflexivity|]. cbn [s_hasdot s_rest]. exact Hb. }
    assert (Hrec : forall g, is_digit g = true ->
              main_loop (S f) maxend (mkSt (o' + 1) r n' g o' true true) = LNaN
              \/ exists s', main_loop (S f) maxend (mkSt (o' + 1) r n' g o' true true) = LOk s' /\ bad_tail (s_hasdot s') (s_rest s') = true).
    { intros g Hg.
      destruct (main_loop_hasdot f maxend (mkSt (o' + 1) r n' g o' true true)) as [H|[s' [H [Hh' Hb']]]]; cbn [s_hasdot s_digit s_rest]; auto.
      - intros ->. rewrite is_digit_dot in Hg. discriminate.
      - right. exists s'. rewrite Hh'. auto. }
    destruct (o' + 1 <? maxend); [|right; apply Hok].
    destruct r as [|d r2]; [right; apply Hok|].
    destruct (is_nz_digit d) eqn:End.
    + apply Hrec. unfold is_nz_digit in End. unfold is_digit. apply andb_prop in End. destruct End as [E1 E2].
      rewrite E2, andb_true_r. apply N.leb_le. apply N.ltb_lt in E1. lia.
    + destruct ((d =? ch_zero) && (o' + 1 + 1 <? maxend)); [|right; apply Hok].
      destruct r2 as [|d2 r3]; [right; apply Hok|].
      destruct (is_digit d2) eqn:Ed2; [apply Hrec; exact Ed2|right; apply Hok].
  - right. eexists. split; [reflexivity|]. cbn [s_hasdot s_rest]. exact Hb.
Qed.

(* after the loop: the 20th-digit step keeps the property, the scan of the rest fails *)
Lemma stn_after_bad_tail : forall is_neg start fo s,
  bad_tail (s_hasdot s) (s_rest s) = true ->
  exists p, stn_after is_neg start fo s = Ok p /\ p_kind p = qn_nan.
Proof.
  intros is_neg start fo s Hb. unfold stn_after.
  destruct (negb (s_isreal s)) eqn:Eir.
  - destruct (s_rest s) as [|dg r] eqn:Er; [discriminate|].
    cbn [bad_tail] in Hb.
    destruct ((dg =? ch_dot) || (dg =? ch_e) || (dg =? ch_ue)) eqn:Edee.
    + cbn [s_isreal s_num s_rest s_hasdot s_off s_dot negb].
      rewrite bad_tail_rejects; [eexists; split; reflexivity|].
      cbn [t_hasdot bad_tail]. exact Hb.
    + apply orb_false_iff in Edee. destruct Edee as [Edee Eue]. apply orb_false_iff in Edee. destruct Edee as [Edot Ee].
      destruct (is_digit dg) eqn:Edg.
      * destruct ((1844674407370955161 <? s_num s) || ((s_num s =? 1844674407370955161) && (ch_five <? dg))).
        -- cbn [s_isreal s_num s_rest s_hasdot s_off s_dot negb].
           rewrite bad_tail_rejects; [eexists; split; reflexivity|].
           cbn [t_hasdot bad_tail]. rewrite Edg. exact Hb.
        -- assert (Hreal : match r with [] => false | d2 :: _ => (d2 =? ch_dot) || (d2 =? ch_e) || (d2 =? ch_ue) || is_digit d2 end = true).
           { destruct r as [|d2 r2]; [discriminate|]. cbn [bad_tail] in Hb.
             destruct (is_digit d2); [apply orb_true_r|].
             destruct (d2 =? ch_dot); [reflexivity|].
             destruct ((d2 =? ch_e) || (d2 =? ch_ue)) eqn:E; [|discriminate].
             cbn [orb]. rewrite orb_false_r. exact E. }
           rewrite Hreal. cbn [s_isreal s_num s_rest s_hasdot s_off s_dot negb].
           rewrite bad_tail_rejects; [eexists; split; reflexivity|].
           cbn [t_hasdot]. exact Hb.
      * rewrite Edot, Ee, Eue in Hb. cbn [orb] in Hb. discriminate.
  - apply negb_false_iff in Eir. cbn zeta. rewrite Eir. cbn [negb].
    rewrite bad_tail_rejects; [eexists; split; reflexivity|]. cbn [t_hasdot]. exact Hb.
Qed.

(* ---- the whole numeral after the optional sign ---- *)
Lemma nz_not_dot : forall d, is_nz_digit d = true -> d <> ch_dot.
Proof. intros d H ->. vm_compute in H. discriminate. Qed.

Theorem stn_body_bad_tail_nz : forall is_neg off0 d r1 endo,
  is_nz_digit d = true -> bad_tail false r1 = true -> endo <> 0 ->
  exists p, stn_body is_neg off0 (d :: r1) endo = Ok p /\ p_kind p = qn_nan.
Proof.
  intros is_neg off0 d r1 endo Hd Hb He. unfold stn_body. rewrite Hd. cbn [bind].
  destruct (N.to_nat endo) as [|f] eqn:Ef; [lia|].
  match goal with |- context [main_loop _ ?m ?s0] =>
    destruct (main_loop_bad_tail f m s0) as [H|[s' [H Hb']]] end.
  - cbn [s_digit]. intros E. exfalso. exact (nz_not_dot d Hd E).
  - cbn [s_hasdot s_rest]. exact Hb.
  - rewrite H. eexists. split; reflexivity.
  - rewrite H. apply stn_after_bad_tail. exact Hb'.
Qed.

(* "0" directly followed by something that is no digit, no x / X and no point *)
Theorem stn_body_bad_tail_zero : forall is_neg off0 c r endo,
  is_digit c = false -> c <> ch_x -> c <> ch_ux -> c <> ch_dot ->
  bad_tail false (c :: r) = true -> off0 + 1 < endo ->
  exists p, stn_body is_neg off0 (ch_zero :: c :: r) endo = Ok p /\ p_kind p = qn_nan.
Proof.
  intros is_neg off0 c r endo Hc Hx Hux Hdot Hb He. unfold stn_body.
  change (is_nz_digit ch_zero) with false. cbn [orb]. rewrite N.eqb_refl. cbn [orb andb].
  assert (E : (off0 + 1 <? endo) = true) by (apply N.ltb_lt; exact He). rewrite E.
  apply N.eqb_neq in Hx. apply N.eqb_neq in Hux. rewrite Hx, Hux, Hc. cbn [orb].
  assert (Ed : (c =? ch_dot) = false) by (apply N.eqb_neq; exact Hdot). rewrite Ed. cbn [bind].
  destruct (N.to_nat endo) as [|f] eqn:Ef; [lia|].
  match goal with |- context [main_loop _ ?m ?s0] =>
    destruct (main_loop_bad_tail f m s0) as [H|[s' [H Hb']]] end.
  - cbn [s_digit]. intros E'. congruence.
  - cbn [s_hasdot s_rest]. exact Hb.
  - rewrite H. eexists. split; reflexivity.
  - rewrite H. apply stn_after_bad_tail. exact Hb'.
Qed.

Lemma skipz_gen : forall rest off dgt,
  exists zs rest' off' dgt', skipz rest off dgt = (rest', off', dgt')
    /\ rest = zs ++ rest' /\ Forall (fun c => is_digit c = true) zs
    /\ ((dgt' = dgt /\ rest = []) \/ dgt' = ch_zero \/ exists r, rest' = dgt' :: r).
Proof.
  induction rest as [|z r IH]; intros off dgt.
  - exists [], [], off, dgt. cbn. repeat split; auto.
  - cbn [skipz]. destruct (z =? ch_zero) eqn:Ez.
    + apply N.eqb_eq in Ez. subst z.
      destruct (IH (off + 1) ch_zero) as [zs [r' [o' [g' [H1 [H2 [H3 H4]]]]]]].
      exists (ch_zero :: zs), r', o', g'. repeat split; auto.
      * cbn [app]. rewrite H2. reflexivity.
      * destruct H4 as [[-> _]|[->|Hex]]; [right; left; reflexivity|right; left; reflexivity|right; right; exact Hex].
    + exists [], (z :: r), off, z. repeat split; auto. right. right. exists r. reflexivity.
Qed.

(* "0." followed by a text whose scan fails (a second point, an empty exponent) *)
Theorem stn_body_bad_tail_zero_dot : forall is_neg off0 r2 endo,
  bad_tail true r2 = true -> off0 + 1 < endo ->
  exists p, stn_body is_neg off0 (ch_zero :: ch_dot :: r2) endo = Ok p /\ p_kind p = qn_nan.
Proof.
  intros is_neg off0 r2 endo Hb He. unfold stn_body.
  change (is_nz_digit ch_zero) with false. cbn [orb]. rewrite N.eqb_refl. cbn [orb andb].
  assert (E : (off0 + 1 <? endo) = true) by (apply N.ltb_lt; exact He). rewrite E.
  change ((ch_dot =? ch_x) || (ch_dot =? ch_ux)) with false. change (is_digit ch_dot) with false.
  cbv iota. rewrite N.eqb_refl. cbn [tl].
  destruct (skipz_gen r2 (off0 + 1 + 1) ch_dot) as [zs [r3 [o3 [g3 [H1 [H2 [H3 H4]]]]]]]. rewrite H1.
  assert (Eo : (off0 + 1 =? off0) = false) by (apply N.eqb_neq; lia). rewrite Eo, andb_false_r. cbn [andb bind].
  rewrite H2, bad_tail_skip_digits in Hb by exact H3.
  match goal with |- context [main_loop (S ?f) ?m ?s0] =>
    destruct (main_loop_hasdot f m s0) as [H|[s' [H [Hh' Hb']]]] end.
  - reflexivity.
  - cbn [s_digit s_rest]. intros Eg. destruct H4 as [[_ Hr]|[Hz|Hex]].
    + rewrite Hr in H2. destruct zs; [|discriminate H2]. cbn [app] in H2. subst r3. cbn in Hb. discriminate Hb.
    + rewrite Hz in Eg. vm_compute in Eg. discriminate.
    + destruct Hex as [r ->]. subst g3. exists r. reflexivity.
  - cbn [s_rest]. exact Hb.
  - rewrite H. eexists. split; reflexivity.
  - rewrite H. apply stn_after_bad_tail. rewrite Hh'. exact Hb'.
Qed.

(* ---- the shapes ---- *)
Lemma dig_digits : forall ds, Forall dig ds -> Forall (fun c => is_digit c = true) ds.
Proof. intros ds H. eapply Forall_impl; [|exact H]. intros c Hc. apply dig_is_digit. exact Hc. Qed.

(* digits . digits . anything *)
Lemma bad_tail_repeated_dot : forall ds1 ds2 rest, Forall dig ds1 -> Forall dig ds2 ->
  bad_tail false (ds1 ++ ch_dot :: ds2 ++ ch_dot :: rest) = true.
Proof.
  intros ds1 ds2 rest H1 H2. rewrite bad_tail_skip_digits by (apply dig_digits; exact H1).
  cbn [bad_tail]. rewrite is_digit_dot, N.eqb_refl.
  rewrite bad_tail_skip_digits by (apply dig_digits; exact H2).
  cbn [bad_tail]. rewrite is_digit_dot, N.eqb_refl. reflexivity.
Qed.
Lemma bad_tail_second_dot : forall ds2 rest, Forall dig ds2 -> bad_tail true (ds2 ++ ch_dot :: rest) = true.
Proof.
  intros ds2 rest H2. rewrite bad_tail_skip_digits by (apply dig_digits; exact H2).
  cbn [bad_tail]. rewrite is_digit_dot, N.eqb_refl. reflexivity.
Qed.

(* [exp_marker c]: 'e' or 'E';  [bad_exp tail]: nothing, or a sign followed by nothing / no digit, or no digit *)
Definition exp_marker (c : N) : Prop := c = ch_e \/ c = ch_ue.
Lemma marker_facts : forall c, exp_marker c -> is_digit c = false /\ (c =? ch_dot) = false /\ ((c =? ch_e) || (c =? ch_ue)) = true.
Proof. intros c [->| ->]; repeat split; reflexivity. Qed.

(* digits [e|E] <empty exponent>   and   digits . digits [e|E] <empty exponent> *)
Lemma bad_tail_empty_exp_int : forall hd ds1 c tail, Forall dig ds1 -> exp_marker c -> bad_exp tail = true ->
  bad_tail hd (ds1 ++ c :: tail) = true.
Proof.
  intros hd ds1 c tail H1 Hc Ht. rewrite bad_tail_skip_digits by (apply dig_digits; exact H1).
  cbn [bad_tail]. destruct (marker_facts c Hc) as [E1 [E2 E3]]. rewrite E1, E2, E3. exact Ht.
Qed.
Lemma bad_tail_empty_exp_frac : forall ds1 ds2 c tail, Forall dig ds1 -> Forall dig ds2 -> exp_marker c -> bad_exp tail = true ->
  bad_tail false (ds1 ++ ch_dot :: ds2 ++ c :: tail) = true.
Proof.
  intros ds1 ds2 c tail H1 H2 Hc Ht. rewrite bad_tail_skip_digits by (apply dig_digits; exact H1).
  cbn [bad_tail]. rewrite is_digit_dot, N.eqb_refl. apply bad_tail_empty_exp_int; assumption.
Qed.

(* ---- Digit::StringToNumber(content, length) with an optional sign ---- *)
Definition sign_prefix (sg : list N) : Prop := sg = [] \/ sg = [ch_neg] \/ sg = [ch_pos].

Lemma stn_signed : forall sg body,
  sign_prefix sg -> (forall c r, body = c :: r -> (c =? ch_neg) = false /\ (c =? ch_pos) = false) -> body <> [] ->
  exists is_neg off0,
    string_to_number (sg ++ body) = stn_body is_neg off0 body (N.of_nat (length (sg ++ body))) /\ off0 = N.of_nat (length sg).
Proof.
  intros sg body Hs Hb Hne. destruct body as [|c r]; [congruence|]. destruct (Hb c r eq_refl) as [E1 E2].
  destruct Hs as [->|[->| ->]]; unfold string_to_number; cbn [app].
  - rewrite E1, E2. exists false, 0. split; reflexivity.
  - rewrite N.eqb_refl. exists true, 1. split; reflexivity.
  - change (ch_pos =? ch_neg) with false. rewrite N.eqb_refl. exists false, 1. split; reflexivity.
Qed.

Lemma nz_not_sign : forall d, is_nz_digit d = true -> (d =? ch_neg) = false /\ (d =? ch_pos) = false.
Proof. intros d H. apply digit_not_sign. apply is_nz_digit_dig. exact H. Qed.

(* every numeral  [sign] d r1  whose tail r1 fails the scan is rejected *)
Theorem stn_bad_tail_rejected : forall sg d r1,
  sign_prefix sg -> is_nz_digit d = true -> bad_tail false r1 = true ->
  exists p, string_to_number (sg ++ d :: r1) = Ok p /\ p_kind p = qn_nan.
Proof.
  intros sg d r1 Hs Hd Hb.
  destruct (stn_signed sg (d :: r1) Hs) as [is_neg [off0 [H _]]].
  - intros c r E. inversion E; subst. apply nz_not_sign. exact Hd.
  - discriminate.
  - rewrite H. apply stn_body_bad_tail_nz; auto. rewrite app_length. cbn [length]. lia.
Qed.

Theorem stn_repeated_dot_rejected : forall sg d ds1 ds2 rest,
  sign_prefix sg -> is_nz_digit d = true -> Forall dig ds1 -> Forall dig ds2 ->
  exists p, string_to_number (sg ++ d :: ds1 ++ ch_dot :: ds2 ++ ch_dot :: rest) = Ok p /\ p_kind p = qn_nan.
Proof. intros. apply stn_bad_tail_rejected; auto. apply bad_tail_repeated_dot; assumption. Qed.

Theorem stn_empty_exponent_rejected : forall sg d ds1 c tail,
  sign_prefix sg -> is_nz_digit d = true -> Forall dig ds1 -> exp_marker c -> bad_exp tail = true ->
  exists p, string_to_number (sg ++ d :: ds1 ++ c :: tail) = Ok p /\ p_kind p = qn_nan.
Proof. intros. apply stn_bad_tail_rejected; auto. apply bad_tail_empty_exp_int; assumption. Qed.

Theorem stn_empty_exponent_frac_rejected : forall sg d ds1 ds2 c tail,
  sign_prefix sg -> is_nz_digit d = true -> Forall dig ds1 -> Forall dig ds2 -> exp_marker c -> bad_exp tail = true ->
  exists p, string_to_number (sg ++ d :: ds1 ++ ch_dot :: ds2 ++ c :: tail) = Ok p /\ p_kind p = qn_nan.
Proof. intros. apply stn_bad_tail_rejected; auto. apply bad_tail_empty_exp_frac; assumption. Qed.

(* zero mantissas: 0e<empty>, 0.ds.<anything>, 0.ds e<empty> *)
Lemma zero_not_sign : forall c r, ch_zero :: r = c :: r -> (c =? ch_neg) = false /\ (c =? ch_pos) = false.
Proof. intros c r E. inversion E; subst. split; reflexivity. Qed.

Theorem stn_zero_empty_exponent_rejected : forall sg c tail,
  sign_prefix sg -> exp_marker c -> bad_exp tail = true ->
  exists p, string_to_number (sg ++ ch_zero :: c :: tail) = Ok p /\ p_kind p = qn_nan.
Proof.
  intros sg c tail Hs Hc Ht.
  destruct (stn_signed sg (ch_zero :: c :: tail) Hs) as [is_neg [off0 [H Ho]]].
  - intros c0 r E. inversion E; subst. split; reflexivity.
  - discriminate.
  - rewrite H. destruct (marker_facts c Hc) as [E1 [E2 E3]].
    apply stn_body_bad_tail_zero; auto.
    + destruct Hc as [->| ->]; discriminate.
    + destruct Hc as [->| ->]; discriminate.
    + apply N.eqb_neq. exact E2.
    + cbn [bad_tail]. rewrite E1, E2, E3. exact Ht.
    + rewrite app_length. cbn [length]. lia.
Qed.

Theorem stn_zero_dot_bad_tail_rejected : forall sg r2,
  sign_prefix sg -> bad_tail true r2 = true ->
  exists p, string_to_number (sg ++ ch_zero :: ch_dot :: r2) = Ok p /\ p_kind p = qn_nan.
Proof.
  intros sg r2 Hs Hb.
  destruct (stn_signed sg (ch_zero :: ch_dot :: r2) Hs) as [is_neg [off0 [H Ho]]].
  - intros c0 r E. inversion E; subst. split; reflexivity.
  - discriminate.
  - rewrite H. apply stn_body_bad_tail_zero_dot; auto. rewrite app_length. cbn [length]. lia.
Qed.
