(* ExprBridgeProofs.v -- the bridge theorem: on [bridge_dom] the expression evaluator of the
   end-to-end template statement (TfullModel.q_top) and the faithful model of QExpression
   evaluation (ExprModel.eval_items on the translated list and environment) agree. *)
From Coq Require Import NArith ZArith List Bool Arith Lia Floats.SpecFloat.
From Qv Require Import gen.Tables gen.Tables_tmpl gen.Tables_expr gen.Tables_digit gen.Tables_tparse
  FinderModel EscapeModel TmplModel TmplRender TmplProofs TparseModel TrenderModel TrenderProofs TrenderInst TfullModel.
From Qv Require ExprModel ExprProofs ExprProofs2 ExprProofs3 EscapeProofs.
From Qv Require Import ExprBridgeModel.
Import ListNotations.

Module P3 := ExprProofs3.

(* what "the same answer" means: q_top's exact integer z <-> Ok of a Natural / Integer whose
   value is z ([enc u z]: Natural (Z.to_N z) if u, Integer with the bits of z otherwise);
   q_top's None <-> NoValue *)
Definition rel (o : option Z) (r : E.outcome E.qval) : Prop :=
  match o with
  | Some z => exists u, r = E.Ok (P3.enc u z) /\ P3.okv u z
  | None => r = E.NoValue
  end.

Lemma in63b_in63 : forall z, in63b z = true -> P3.in63 z.
Proof. intros z H. apply P3.in63b_spec. exact H. Qed.

Lemma zb_b2z : forall b, zb b = P3.b2z b.
Proof. intros [|]; reflexivity. Qed.

Lemma rel_bool : forall b, rel (Some (zb b)) (E.Ok (E.of_bool b)).
Proof. intros b. exists true. rewrite zb_b2z, P3.enc_b2z. split; [reflexivity|apply P3.okv_b2z]. Qed.

(* ---- the evaluation of a one- and of a two-item list ---- *)
Section Ev.
  Context {A : Type}.
  Variable leaf : N -> N -> E.operand -> E.outcome A.
  Variable apply : N -> A -> A -> E.outcome A.
  Variable isnan : A -> bool.
  Lemma ev_top_one : forall oa,
    E.ev_top leaf apply isnan [(oa, op_NoOp)] =
    E.bind (leaf op_NoOp op_NoOp oa) (fun x => if isnan x then E.NoValue else E.Ok x).
  Proof.
    intros oa. unfold E.ev_top, E.ev_fuel. cbn [length Nat.mul Nat.add].
    rewrite (ExprProofs.ev_S leaf apply isnan). destruct (leaf op_NoOp op_NoOp oa) as [x| |e]; cbn [E.bind]; try reflexivity.
    rewrite (ExprProofs.loop_S leaf apply isnan). cbn. destruct (isnan x); reflexivity.
  Qed.
  Lemma ev_top_two : forall oa ob o, o <> 0%N ->
    E.ev_top leaf apply isnan [(oa, o); (ob, op_NoOp)] =
    E.bind (leaf o o oa) (fun x => E.bind (leaf o op_NoOp ob) (fun r => apply o x r)).
  Proof.
    intros oa ob o Ho. unfold E.ev_top, E.ev_fuel. cbn [length Nat.mul Nat.add].
    rewrite (ExprProofs.ev_S leaf apply isnan). destruct (leaf o o oa) as [x| |e]; cbn [E.bind]; try reflexivity.
    rewrite (ExprProofs.loop_S leaf apply isnan).
    replace (N.eqb o op_NoOp) with false by (symmetry; apply N.eqb_neq; exact Ho).
    replace (N.leb op_NoOp o) with true by (symmetry; apply N.leb_le; unfold op_NoOp; lia).
    destruct (leaf o op_NoOp ob) as [r| |e]; cbn [E.bind]; try reflexivity.
    destruct (apply o x r) as [v| |e]; cbn [E.bind]; reflexivity.
  Qed.
End Ev.

(* ---- the bridged environment ---- *)
Lemma vkey_inj : forall a b, E.list_eqb (vkey a) (vkey b) = true -> a = b.
Proof.
  intros [ao al ai av] [bo bl bi bv] H. apply ExprProofs2.list_eqb_spec in H. unfold vkey in H. cbn in H.
  inversion H as [[H1 H2 H3 H4]]. apply Nat2N.inj in H1. subst. reflexivity.
Qed.
Lemma vkey_refl : forall a, E.list_eqb (vkey a) (vkey a) = true.
Proof. intros a. apply ExprProofs2.list_eqb_spec. reflexivity. Qed.

Section Bridge.
  Variable content : list N.
  Variable root : jv.
  Variable items : list (item jv).
  Notation qvar := (q_var content root items).
  Notation qv := (q_val content root items).

  Lemma lookup_benv : forall vs v,
    E.lookup (benv_of content root items vs) (vkey v) =
    if existsb (fun a => E.list_eqb (vkey a) (vkey v)) vs then option_map vval_of (qvar v) else None.
  Proof.
    induction vs as [|a r IH]; intros v; [reflexivity|].
    cbn [benv_of flat_map existsb]. fold (benv_of content root items r).
    destruct (E.list_eqb (vkey a) (vkey v)) eqn:Ek.
    - apply vkey_inj in Ek. subst a. cbn [orb].
      destruct (qvar v) as [x|] eqn:Ev; cbn [app option_map].
      + cbn [E.lookup]. rewrite vkey_refl. reflexivity.
      + rewrite IH. rewrite Ev. destruct (existsb _ r); reflexivity.
    - cbn [orb]. destruct (qvar a) as [x|]; cbn [app]; [cbn [E.lookup]; rewrite Ek|]; apply IH.
  Qed.

  Definition agrees (be : E.env) (vs : list vtag) : Prop :=
    forall v, In v vs -> E.get_value be (vkey v) = E.Ok (option_map vval_of (qvar v)).
  Definition vok (vs : list vtag) : Prop := forall v x, In v vs -> qvar v = Some x -> jv_ok x = true.

  Lemma benv_agrees : forall vs, agrees (benv_of content root items vs) vs.
  Proof.
    intros vs v Hin. unfold E.get_value. cbn [vkey rev app].
    replace (N.eqb 0 tp_VariableIndexSuffix) with false by reflexivity.
    change [N.of_nat (v_off v); v_len v; v_idlen v; v_level v; 0%N] with (vkey v).
    rewrite lookup_benv. replace (existsb _ vs) with true; [reflexivity|].
    symmetry. apply existsb_exists. exists v. split; [exact Hin|apply vkey_refl].
  Qed.
  Lemma agrees_sub : forall be vs ws, agrees be vs -> (forall v, In v ws -> In v vs) -> agrees be ws.
  Proof. intros be vs ws H S v Hv. apply H, S, Hv. Qed.
  Lemma vok_sub : forall vs ws, vok vs -> (forall v, In v ws -> In v vs) -> vok ws.
  Proof. intros vs ws H S v x Hv. apply H, S, Hv. Qed.

  (* ---- values ---- *)
  Lemma set_number_rel : forall x, jv_ok x = true -> rel (num_of x) (E.set_number (vval_of x)).
  Proof.
    intros x Hok. destruct x as [| | | |n|z|b|s|l|l]; cbn [jv_ok] in Hok; cbn [num_of vval_of E.set_number rel]; try reflexivity.
    - exists true. split; [reflexivity|]. split; [unfold P3.in63; lia|intros _; lia].
    - exists true. split; [reflexivity|]. split; [unfold P3.in63; lia|intros _; lia].
    - exists true. split; [reflexivity|]. split; [unfold P3.in63; lia|intros _; lia].
    - exists true. cbn [P3.enc]. rewrite N2Z.id. split; [reflexivity|]. split; [apply in63b_in63; exact Hok|intros _; lia].
    - exists false. split; [reflexivity|]. split; [apply in63b_in63; exact Hok|discriminate].
    - discriminate Hok.
    - unfold str_ok in Hok. destruct (E.numeral s) as [n|b|f| |]; try discriminate Hok;
        destruct (nat_of_string s) as [m|]; try discriminate Hok; cbn [E.qval_of_numres rel]; [|reflexivity].
      apply andb_true_iff in Hok. destruct Hok as [Hn Hb]. apply N.eqb_eq in Hn. subst m.
      exists true. cbn [P3.enc]. rewrite N2Z.id. split; [reflexivity|]. split; [apply in63b_in63; exact Hb|intros _; lia].
  Qed.

  Lemma number_kind_agrees : forall x, E.is_number_value (vval_of x) = is_number_kind x.
  Proof. intros x; destruct x; reflexivity. Qed.
  Lemma chars_agree : forall x, E.char_and_length (vval_of x) = char_and_length x.
  Proof. intros x; destruct x; reflexivity. Qed.
  Lemma number_kind_num : forall x, jv_ok x = true -> is_number_kind x = true -> exists z, num_of x = Some z.
  Proof. intros x Hok H. destruct x; try discriminate H; try discriminate Hok; cbn [num_of]; eauto. Qed.
End Bridge.

(* ---- arithmetic, comparisons, logic on exact values ---- *)
Ltac ceqb := repeat match goal with
  | |- context [N.eqb ?a ?b] => let r := eval vm_compute in (N.eqb a b) in progress change (N.eqb a b) with r
  end; cbv beta iota.
Ltac ceqb_in H := repeat match type of H with
  | context [N.eqb ?a ?b] => let r := eval vm_compute in (N.eqb a b) in progress change (N.eqb a b) with r in H
  end; cbv beta iota in H.

Lemma covered_cases : forall o, op_covered o = true ->
  o = op_Addition \/ o = op_Subtraction \/ o = op_Multiplication \/ o = op_Equal \/ o = op_NotEqual \/
  o = op_Less \/ o = op_Greater \/ o = op_LessOrEqual \/ o = op_GreaterOrEqual \/ o = op_And \/ o = op_Or.
Proof.
  intros o H. unfold op_covered in H. repeat (apply orb_true_iff in H; destruct H as [H|H]);
    apply N.eqb_eq in H; subst o; tauto.
Qed.
Lemma covered_nonzero : forall o, op_covered o = true -> o <> 0%N.
Proof. intros o H. destruct (covered_cases o H) as [E|[E|[E|[E|[E|[E|[E|[E|[E|[E|E]]]]]]]]]]; subst o; discriminate. Qed.

Lemma arith_rel : forall be o ux x uy y, op_covered o = true -> N.eqb o op_Equal = false -> N.eqb o op_NotEqual = false ->
  P3.okv ux x -> P3.okv uy y -> (forall z, q_arith o x y = Some z -> P3.in63 z) ->
  rel (q_arith o x y) (E.apply_op be o (P3.enc ux x) (P3.enc uy y)).
Proof.
  intros be o ux x uy y Hc He Hn Hx Hy Hfit.
  assert (Hux : ux = true -> (0 <= x)%Z) by (destruct Hx; auto).
  assert (Huy : uy = true -> (0 <= y)%Z) by (destruct Hy; auto).
  destruct (covered_cases o Hc) as [E|[E|[E|[E|[E|[E|[E|[E|[E|[E|E]]]]]]]]]]; subst o;
    try discriminate He; try discriminate Hn; unfold q_arith in *; unfold E.apply_op; ceqb; cbn [rel].
  - (* + *) assert (Hz : P3.in63 (x + y)) by (apply Hfit; ceqb; reflexivity).
    exists (ux && uy). split; [apply P3.add_exact; assumption|].
    split; [exact Hz|]. intros Hk. apply andb_true_iff in Hk. destruct Hk as [H1 H2]. specialize (Hux H1). specialize (Huy H2). lia.
  - (* - *) assert (Hz : P3.in63 (x - y)) by (apply Hfit; ceqb; reflexivity).
    exists (ux && uy && (y <=? x)%Z). split; [apply P3.sub_exact; assumption|].
    split; [exact Hz|]. intros Hk. apply andb_true_iff in Hk. destruct Hk as [_ Hk]. apply Z.leb_le in Hk. lia.
  - (* * *) assert (Hz : P3.in63 (x * y)) by (apply Hfit; ceqb; reflexivity).
    exists (ux && uy). split; [apply P3.mul_exact; assumption|].
    split; [exact Hz|]. intros Hk. apply andb_true_iff in Hk. destruct Hk as [H1 H2]. apply Z.mul_nonneg_nonneg; auto.
  - (* < *) unfold E.q_lt. rewrite P3.cmp_exact by (assumption || apply P3.cmp_like_ltb). cbn [E.bind]. apply rel_bool.
  - (* > *) unfold E.q_gt. rewrite P3.cmp_exact by (assumption || apply P3.cmp_like_gtb). cbn [E.bind]. apply rel_bool.
  - (* <= *) unfold E.q_le. rewrite P3.cmp_exact by (assumption || apply P3.cmp_like_leb). cbn [E.bind]. apply rel_bool.
  - (* >= *) unfold E.q_ge. rewrite P3.cmp_exact by (assumption || apply P3.cmp_like_geb). cbn [E.bind]. apply rel_bool.
  - (* && *) rewrite !P3.true_exact by assumption. cbn [E.bind]. rewrite !Z.gtb_ltb. apply rel_bool.
  - (* || *) rewrite !P3.true_exact by assumption. cbn [E.bind]. rewrite !Z.gtb_ltb. apply rel_bool.
Qed.

(* ---- == and != ---- *)
Lemma list_eqb_same : forall a b, list_eqb a b = E.list_eqb a b.
Proof.
  intros a b. apply Bool.eq_iff_eq_true. rewrite EscapeProofs.list_eqb_eq, ExprProofs2.list_eqb_spec. tauto.
Qed.

Definition eq_body (sl sr : E.eq_side) : E.outcome E.qval :=
  match sl, sr with
  | E.SideText a _, E.SideText b _ => E.Ok (E.of_bool (E.list_eqb a b))
  | _, _ =>
    E.bind (E.eq_force_number sl) (fun a =>
    E.bind (E.eq_force_number sr) (fun b =>
    E.bind (E.q_eq a b) (fun c => E.Ok (E.of_bool c))))
  end.
Lemma is_equal_unfold : forall be l r,
  E.is_equal be l r = E.bind (E.eq_classify be l) (fun sl => E.bind (E.eq_classify be r) (fun sr => eq_body sl sr)).
Proof. reflexivity. Qed.

(* a side of TmplModel.eq_sides against a classified side of isEqual *)
Inductive side_rel : side -> E.outcome E.eq_side -> Prop :=
| SR_none : side_rel SNone E.NoValue
| SR_num : forall z u, P3.okv u z -> side_rel (SNum z) (E.Ok (E.SideNum (P3.enc u z)))
| SR_vnum : forall x z u, is_number_kind x = true -> num_of x = Some z -> P3.okv u z ->
    side_rel (SVal x) (E.Ok (E.SideNum (P3.enc u z)))
| SR_vtext : forall x s, is_number_kind x = false -> char_and_length x = Some s -> jv_ok x = true ->
    side_rel (SVal x) (E.Ok (E.SideText s (Some (vval_of x))))
| SR_vbad : forall x, is_number_kind x = false -> char_and_length x = None -> num_of x = None ->
    side_rel (SVal x) E.NoValue.

Definition relb (o : option bool) (r : E.outcome E.qval) : Prop :=
  match o with Some t => r = E.Ok (E.of_bool t) | None => r = E.NoValue end.

Lemma q_eq_enc : forall u x v y, P3.okv u x -> P3.okv v y ->
  E.bind (E.q_eq (P3.enc u x) (P3.enc v y)) (fun c => E.Ok (E.of_bool c)) = E.Ok (E.of_bool (x =? y)%Z).
Proof. intros u x v y Hx Hy. unfold E.q_eq. rewrite P3.cmp_exact by (assumption || apply P3.cmp_like_eqb). reflexivity. Qed.

Lemma force_text : forall x s, jv_ok x = true ->
  rel (num_of x) (E.eq_force_number (E.SideText s (Some (vval_of x)))).
Proof. intros x s H. cbn [E.eq_force_number]. apply set_number_rel. exact H. Qed.

Lemma enc_force : forall u z, E.eq_force_number (E.SideNum (P3.enc u z)) = E.Ok (P3.enc u z).
Proof. reflexivity. Qed.

Lemma eq_body_num_l : forall u z sr, eq_body (E.SideNum (P3.enc u z)) sr =
  E.bind (E.eq_force_number sr) (fun b => E.bind (E.q_eq (P3.enc u z) b) (fun c => E.Ok (E.of_bool c))).
Proof. intros u z sr. destruct sr; reflexivity. Qed.
Lemma eq_body_num_r : forall u z sl, eq_body sl (E.SideNum (P3.enc u z)) =
  E.bind (E.eq_force_number sl) (fun a => E.bind (E.q_eq a (P3.enc u z)) (fun c => E.Ok (E.of_bool c))).
Proof. intros u z sl. destruct sl; reflexivity. Qed.

Lemma eq_rel : forall sa ca sb cb, side_rel sa ca -> side_rel sb cb ->
  relb (eq_sides sa sb) (E.bind ca (fun sl => E.bind cb (fun sr => eq_body sl sr))).
Proof.
  intros sa ca sb cb Ha Hb.
  destruct Ha as [|z u Hz|x z u Hk Hn Hz|x s Hk Hc Hok|x Hk Hc Hn].
  - (* left none *) reflexivity.
  - (* left number *)
    destruct Hb as [|z' u' Hz'|x' z' u' Hk' Hn' Hz'|x' s' Hk' Hc' Hok'|x' Hk' Hc' Hn']; cbn [E.bind eq_sides relb].
    + reflexivity.
    + rewrite eq_body_num_l, enc_force. cbn [E.bind]. rewrite q_eq_enc by assumption. reflexivity.
    + rewrite Hn'. rewrite eq_body_num_l, enc_force. cbn [E.bind relb]. rewrite q_eq_enc by assumption. reflexivity.
    + rewrite eq_body_num_l. pose proof (force_text x' s' Hok') as Hf.
      destruct (num_of x') as [y|]; cbn [rel] in Hf.
      * destruct Hf as (v & -> & Hv). cbn [E.bind relb]. rewrite q_eq_enc by assumption. reflexivity.
      * rewrite Hf. reflexivity.
    + rewrite Hn'. reflexivity.
  - (* left: a variable holding a number *)
    destruct Hb as [|z' u' Hz'|x' z' u' Hk' Hn' Hz'|x' s' Hk' Hc' Hok'|x' Hk' Hc' Hn']; cbn [E.bind eq_sides relb].
    + reflexivity.
    + rewrite Hn. rewrite eq_body_num_l, enc_force. cbn [E.bind relb]. rewrite q_eq_enc by assumption. reflexivity.
    + rewrite Hk, Hn, Hn'. cbn [orb relb]. rewrite eq_body_num_l, enc_force. cbn [E.bind]. rewrite q_eq_enc by assumption. reflexivity.
    + rewrite Hk, Hn. cbn [orb]. rewrite eq_body_num_l. pose proof (force_text x' s' Hok') as Hf.
      destruct (num_of x') as [y|]; cbn [rel] in Hf.
      * destruct Hf as (v & -> & Hv). cbn [E.bind relb]. rewrite q_eq_enc by assumption. reflexivity.
      * rewrite Hf. reflexivity.
    + rewrite Hk, Hn, Hn'. reflexivity.
  - (* left: a variable holding text *)
    destruct Hb as [|z' u' Hz'|x' z' u' Hk' Hn' Hz'|x' s' Hk' Hc' Hok'|x' Hk' Hc' Hn']; cbn [E.bind eq_sides relb].
    + reflexivity.
    + rewrite eq_body_num_r. pose proof (force_text x s Hok) as Hf.
      destruct (num_of x) as [y|]; cbn [rel] in Hf.
      * destruct Hf as (v & -> & Hv). cbn [E.bind relb]. rewrite q_eq_enc by assumption. reflexivity.
      * rewrite Hf. reflexivity.
    + rewrite Hk, Hk', Hn'. cbn [orb]. rewrite eq_body_num_r. pose proof (force_text x s Hok) as Hf.
      destruct (num_of x) as [y|]; cbn [rel] in Hf.
      * destruct Hf as (v & -> & Hv). cbn [E.bind relb]. rewrite q_eq_enc by assumption. reflexivity.
      * rewrite Hf. reflexivity.
    + rewrite Hk, Hk', Hc, Hc'. cbn [orb relb eq_body]. rewrite (list_eqb_same s s'). reflexivity.
    + rewrite Hk, Hk', Hc, Hc'. reflexivity.
  - (* left: array / object / undefined *)
    cbn [E.bind]. destruct sb as [y|v|]; cbn [eq_sides]; [rewrite Hn; reflexivity| |reflexivity].
    rewrite Hk, Hn, Hc. cbn [orb]. destruct (is_number_kind v); [|reflexivity]. destruct (num_of v); reflexivity.
Qed.

Lemma eq_sides_none_r : forall a, eq_sides a SNone = None.
Proof. intros [z|v|]; reflexivity. Qed.

(* ---- operands, pairs, whole lists ---- *)
Section Main.
  Variable content : list N.
  Variable root : jv.
  Variable items : list (item jv).
  Variable be : E.env.
  Notation qvar := (q_var content root items).
  Notation qv := (q_val content root items).
  Notation ag := (agrees content root items be).
  Notation vk := (vok content root items).
  Notation top := (to_operand content).
  Notation fits := (q_fits content root items).
  Definition lf (d : nat) := E.leaf_value be (E.eval_items be d).

  Definition side_of (a : qexpr) : side :=
    match a with
    | QVar _ v => match qvar v with Some y => SVal y | None => SNone end
    | _ => num_side (qv a)
    end.

  Lemma leaf_var_num : forall d v c own, ag [v] -> vk [v] ->
    N.eqb c op_Equal = false -> N.eqb c op_NotEqual = false -> (N.eqb c op_NoOp && N.eqb own op_NoOp) = false ->
    rel (match qvar v with Some x => num_of x | None => None end) (lf d c own (E.OVar (vkey v))).
  Proof.
    intros d v c own Hag Hok H1 H2 Hl. unfold lf. cbn [E.leaf_value]. rewrite H1, H2. cbn [negb andb].
    rewrite (Hag v (or_introl eq_refl)). cbn [E.bind]. rewrite Hl.
    destruct (qvar v) as [x|] eqn:Ev; cbn [option_map]; [|reflexivity].
    pose proof (set_number_rel x (Hok v x (or_introl eq_refl) Ev)) as Hs.
    destruct (num_of x) as [z|]; cbn [rel] in Hs |- *.
    - destruct Hs as (u & -> & Hu). exists u. split; [reflexivity|exact Hu].
    - rewrite Hs. reflexivity.
  Qed.

  Lemma leaf_var_eq : forall d v c own, N.eqb c op_Equal || N.eqb c op_NotEqual = true ->
    lf d c own (E.OVar (vkey v)) = E.Ok (E.QVar (vkey v)).
  Proof.
    intros d v c own H. unfold lf. cbn [E.leaf_value].
    destruct (N.eqb c op_Equal); [reflexivity|]. cbn [orb] in H. rewrite H. reflexivity.
  Qed.

  Lemma classify_var : forall v, ag [v] -> vk [v] ->
    side_rel (match qvar v with Some y => SVal y | None => SNone end) (E.eq_classify be (E.QVar (vkey v))).
  Proof.
    intros v Hag Hok. cbn [E.eq_classify]. rewrite (Hag v (or_introl eq_refl)). cbn [E.bind].
    destruct (qvar v) as [x|] eqn:Ev; cbn [option_map]; [|constructor].
    pose proof (Hok v x (or_introl eq_refl) Ev) as Hx.
    rewrite number_kind_agrees, chars_agree.
    destruct (is_number_kind x) eqn:Ek.
    - destruct (number_kind_num x Hx Ek) as [z Hz]. pose proof (set_number_rel x Hx) as Hs. rewrite Hz in Hs.
      destruct Hs as (u & -> & Hu). cbn [E.bind]. eapply SR_vnum; eauto.
    - destruct (char_and_length x) as [s|] eqn:Ec.
      + apply SR_vtext; assumption.
      + apply SR_vbad; [assumption|assumption|]. destruct x; try discriminate Ec; try discriminate Ek; reflexivity.
  Qed.

  Lemma classify_enc : forall u z, E.eq_classify be (P3.enc u z) = E.Ok (E.SideNum (P3.enc u z)).
  Proof. intros [|] z; reflexivity. Qed.

  Definition var_ctx (q : qexpr) (c own : N) : Prop :=
    match q with
    | QVar _ _ => N.eqb c op_Equal = false /\ N.eqb c op_NotEqual = false /\ (N.eqb c op_NoOp && N.eqb own op_NoOp) = false
    | _ => True
    end.
  Definition operand_ok (d : nat) : Prop := forall q c own,
    q_shape1 q = true -> fits q = true -> ag (qvars q) -> vk (qvars q) -> qdepth q <= d -> var_ctx q c own ->
    rel (qv q) (lf d c own (top q)).

  (* a side of == / != *)
  Lemma leaf_side : forall d a c own, operand_ok d ->
    q_shape1 a = true -> fits a = true -> ag (qvars a) -> vk (qvars a) -> qdepth a <= d ->
    N.eqb c op_Equal || N.eqb c op_NotEqual = true ->
    (lf d c own (top a) = E.NoValue /\ side_of a = SNone) \/
    (exists xv, lf d c own (top a) = E.Ok xv /\ side_rel (side_of a) (E.eq_classify be xv)).
  Proof.
    intros d a c own IH Hs Hf Hag Hok Hd Hc.
    assert (Hnv : match a with QVar _ _ => False | _ => True end ->
                  (lf d c own (top a) = E.NoValue /\ num_side (qv a) = SNone) \/
                  (exists xv, lf d c own (top a) = E.Ok xv /\ side_rel (num_side (qv a)) (E.eq_classify be xv))).
    { intros Hnot. assert (Hr : rel (qv a) (lf d c own (top a))) by (apply IH; auto; destruct a; try exact I; destruct Hnot).
      destruct (qv a) as [z|]; cbn [rel num_side] in Hr |- *.
      - destruct Hr as (u & Hr & Hu). right. exists (P3.enc u z). split; [exact Hr|]. rewrite classify_enc. constructor. exact Hu.
      - left. split; [exact Hr|reflexivity]. }
    destruct a as [o k b|o off len|o v|o l]; try (apply Hnv; exact I).
    right. exists (E.QVar (vkey v)). split; [apply leaf_var_eq; exact Hc|].
    cbn [side_of]. apply classify_var; cbn [qvars] in Hag, Hok; assumption.
  Qed.

  Lemma qvars_pair_l : forall o a b v, In v (qvars a) -> In v (qvars (QSub o [a; b])).
  Proof. intros o a b v H. cbn [qvars flat_map]. apply in_or_app. left. exact H. Qed.
  Lemma qvars_pair_r : forall o a b v, In v (qvars b) -> In v (qvars (QSub o [a; b])).
  Proof. intros o a b v H. cbn [qvars flat_map]. apply in_or_app. right. rewrite app_nil_r. exact H. Qed.

  (* a <op> b, both operands at depth d *)
  Lemma pair_rel : forall d o' a b, operand_ok d ->
    op_covered (q_op a) = true -> q_shape1 a = true -> q_shape1 b = true ->
    fits (QSub o' [a; b]) = true -> ag (qvars (QSub o' [a; b])) -> vk (qvars (QSub o' [a; b])) ->
    qdepth a <= d -> qdepth b <= d ->
    rel (qv (QSub o' [a; b]))
        (E.bind (lf d (q_op a) (q_op a) (top a)) (fun x =>
         E.bind (lf d (q_op a) op_NoOp (top b)) (fun r => E.apply_op be (q_op a) x r))).
  Proof.
    intros d o' a b IH Hc Hsa Hsb Hf Hag Hok Hda Hdb.
    set (o := q_op a) in *.
    cbn [q_fits] in Hf. apply andb_true_iff in Hf. destruct Hf as [Hf Hfz]. apply andb_true_iff in Hf. destruct Hf as [Hfa Hfb].
    assert (Haga : ag (qvars a)) by (eapply agrees_sub; [exact Hag|apply qvars_pair_l]).
    assert (Hagb : ag (qvars b)) by (eapply agrees_sub; [exact Hag|apply qvars_pair_r]).
    assert (Hoka : vk (qvars a)) by (eapply vok_sub; [exact Hok|apply qvars_pair_l]).
    assert (Hokb : vk (qvars b)) by (eapply vok_sub; [exact Hok|apply qvars_pair_r]).
    pose proof (covered_nonzero o Hc) as Hnz.
    cbn [q_val]. fold o.
    destruct (N.eqb o op_Equal || N.eqb o op_NotEqual) eqn:Eeq.
    - (* == / != *)
      change (match a with QVar _ v => match qvar v with Some y => SVal y | None => SNone end | _ => num_side (qv a) end) with (side_of a).
      change (match b with QVar _ v => match qvar v with Some y => SVal y | None => SNone end | _ => num_side (qv b) end) with (side_of b).
      destruct (leaf_side d a o o IH Hsa Hfa Haga Hoka Hda Eeq) as [[La Sa]|(xa & La & Ra)]; rewrite La; cbn [E.bind].
      { rewrite Sa. reflexivity. }
      destruct (leaf_side d b o op_NoOp IH Hsb Hfb Hagb Hokb Hdb Eeq) as [[Lb Sb]|(xb & Lb & Rb)]; rewrite Lb; cbn [E.bind].
      { rewrite Sb, eq_sides_none_r. reflexivity. }
      pose proof (eq_rel _ _ _ _ Ra Rb) as Hr. rewrite <- is_equal_unfold in Hr.
      unfold E.apply_op.
      destruct (N.eqb o op_Equal) eqn:E1.
      + apply N.eqb_eq in E1. rewrite E1. ceqb.
        destruct (eq_sides (side_of a) (side_of b)) as [t|]; cbn [relb] in Hr; rewrite Hr; [apply rel_bool|reflexivity].
      + cbn [orb] in Eeq. apply N.eqb_eq in Eeq. rewrite Eeq. ceqb.
        destruct (eq_sides (side_of a) (side_of b)) as [t|]; cbn [relb] in Hr; rewrite Hr; cbn [E.bind]; [|reflexivity].
        destruct t; cbn [E.of_bool negb]; [apply (rel_bool false)|apply (rel_bool true)].
    - (* arithmetic, comparison, logic *)
      apply orb_false_iff in Eeq. destruct Eeq as [E1 E2].
      assert (Hva : var_ctx a o o).
      { destruct a; try exact I. repeat split; try assumption.
        replace (N.eqb o op_NoOp) with false; [reflexivity|]. symmetry. apply N.eqb_neq. exact Hnz. }
      assert (Hvb : var_ctx b o op_NoOp).
      { destruct b; try exact I. repeat split; try assumption.
        replace (N.eqb o op_NoOp) with false; [reflexivity|]. symmetry. apply N.eqb_neq. exact Hnz. }
      pose proof (IH a o o Hsa Hfa Haga Hoka Hda Hva) as Ra.
      pose proof (IH b o op_NoOp Hsb Hfb Hagb Hokb Hdb Hvb) as Rb.
      destruct (qv a) as [x|] eqn:Ea; cbn [rel] in Ra.
      2:{ rewrite Ra. reflexivity. }
      destruct Ra as (ux & -> & Hx). cbn [E.bind].
      destruct (qv b) as [y|] eqn:Eb; cbn [rel] in Rb.
      2:{ rewrite Rb. reflexivity. }
      destruct Rb as (uy & -> & Hy). cbn [E.bind].
      apply arith_rel; try assumption.
      intros z Hz. unfold o in Hz. rewrite ?Ea, ?Eb in Hfz. rewrite Hz in Hfz. apply in63b_in63. exact Hfz.
  Qed.

  Lemma max_le : forall a b d, S (Nat.max a (Nat.max b 0)) <= S d -> a <= d /\ b <= d.
  Proof. intros; lia. Qed.

  Theorem operand_rel : forall d, operand_ok d.
  Proof.
    induction d as [|d IH]; intros q c own Hs Hf Hag Hok Hd Hv.
    - destruct q as [o k b|o off len|o v|o l]; cbn [q_shape1] in Hs; try discriminate Hs.
      + cbn [q_val]. rewrite Hs. unfold lf. cbn [to_operand E.leaf_value]. unfold num_of_kind. rewrite Hs.
        cbn [q_fits] in Hf. exists true. cbn [P3.enc]. rewrite N2Z.id. split; [reflexivity|].
        split; [apply in63b_in63; exact Hf|intros _; lia].
      + cbn [q_val to_operand]. destruct Hv as (H1 & H2 & H3). apply leaf_var_num; cbn [qvars] in *; assumption.
      + cbn [qdepth] in Hd. lia.
    - destruct q as [o k b|o off len|o v|o l]; cbn [q_shape1] in Hs; try discriminate Hs.
      + cbn [q_val]. rewrite Hs. unfold lf. cbn [to_operand E.leaf_value]. unfold num_of_kind. rewrite Hs.
        cbn [q_fits] in Hf. exists true. cbn [P3.enc]. rewrite N2Z.id. split; [reflexivity|].
        split; [apply in63b_in63; exact Hf|intros _; lia].
      + cbn [q_val to_operand]. destruct Hv as (H1 & H2 & H3). apply leaf_var_num; cbn [qvars] in *; assumption.
      + destruct l as [|a [|b [|c' r]]]; try discriminate Hs.
        apply andb_true_iff in Hs. destruct Hs as [Hs Hsb]. apply andb_true_iff in Hs. destruct Hs as [Hs Hsa].
        apply andb_true_iff in Hs. destruct Hs as [Hc Hb0]. apply N.eqb_eq in Hb0.
        cbn [qdepth fold_right] in Hd. apply max_le in Hd. destruct Hd as [Hda Hdb].
        unfold lf. cbn [to_operand E.leaf_value map]. cbn [E.eval_items]. rewrite Hb0.
        rewrite ev_top_two by (apply covered_nonzero; exact Hc).
        apply (pair_rel d o a b IH); assumption.
  Qed.
End Main.

Lemma enc_not_nan : forall u z, E.is_nan_type (P3.enc u z) = false.
Proof. intros [|] z; reflexivity. Qed.

Lemma rel_nan_check : forall o r, rel o r ->
  rel o (E.bind r (fun x => if E.is_nan_type x then E.NoValue else E.Ok x)).
Proof.
  intros [z|] r H; cbn [rel] in *.
  - destruct H as (u & -> & Hu). exists u. cbn [E.bind]. rewrite enc_not_nan. split; [reflexivity|exact Hu].
  - rewrite H. reflexivity.
Qed.

Lemma nonempty_agrees : forall x,
  match vval_of x with E.EvStr (_ :: _) => true | _ => false end = match x with JStr (_ :: _) => true | _ => false end.
Proof. intros x; destruct x; reflexivity. Qed.

(* THE BRIDGE.  On [bridge_dom] (TfullModel's expression fragment, exact values inside 64 bits,
   no 64-bit overflow in q_arith's integers) the faithful evaluator answers, on the translated
   list and environment, exactly what q_top answers: q_top = Some z  <->  Ok of the Natural /
   Integer with value z (truth values are the Naturals 0 / 1);  q_top = None  <->  NoValue. *)
Theorem bridge_q_top : forall content root items l d,
  bridge_dom content root items l = true -> qdepth_list l <= d ->
  rel (q_top content root items l) (E.eval_items (benv content root items l) d (to_items content l)).
Proof.
  intros content root items l d Hdom Hd. unfold bridge_dom in Hdom.
  apply andb_true_iff in Hdom. destruct Hdom as [Hdom Hfit]. apply andb_true_iff in Hdom. destruct Hdom as [Hshape Hvars].
  set (be := benv content root items l).
  assert (Hag : agrees content root items be (qvars_list l)) by apply benv_agrees.
  assert (Hok : vok content root items (qvars_list l)).
  { intros v x Hin Ev. unfold vars_ok in Hvars. rewrite forallb_forall in Hvars. specialize (Hvars v Hin). rewrite Ev in Hvars. exact Hvars. }
  destruct d as [|d]; [unfold qdepth_list in Hd; lia|].
  pose proof (operand_rel content root items be d) as IH.
  destruct l as [|a [|b [|c r]]]; cbn [q_shape] in Hshape; try discriminate Hshape.
  - (* one operand *)
    apply andb_true_iff in Hshape. destruct Hshape as [H0 Hs]. apply N.eqb_eq in H0.
    assert (Hda : qdepth a <= d) by (unfold qdepth_list in Hd; cbn [fold_right] in Hd; lia).
    cbn [to_items map E.eval_items]. unfold to_item. rewrite H0. rewrite ev_top_one.
    fold (lf be d).
    destruct a as [o k bits|o off len|o v|o sub].
    + cbn [q_top]. apply rel_nan_check. apply IH; [exact Hs| | | |exact Hda|exact I].
      * cbn [q_fits_list forallb] in Hfit. apply andb_true_iff in Hfit. apply Hfit.
      * intros v Hv. destruct Hv.
      * intros v x Hv. destruct Hv.
    + discriminate Hs.
    + (* the lone variable *)
      cbn [q_top to_operand]. unfold lf. cbn [E.leaf_value]. ceqb. cbn [negb andb].
      rewrite (Hag v (or_introl eq_refl)). cbn [E.bind].
      destruct (q_var content root items v) as [x|] eqn:Ev; cbn [option_map].
      * pose proof (set_number_rel x (Hok v x (or_introl eq_refl) Ev)) as Hs'.
        destruct (num_of x) as [z|]; cbn [rel] in Hs'.
        -- destruct Hs' as (u & -> & Hu). cbn [E.bind]. rewrite enc_not_nan. exists u. split; [reflexivity|exact Hu].
        -- rewrite Hs'. rewrite nonempty_agrees. cbn [E.bind]. apply rel_bool.
      * cbn [E.bind]. apply (rel_bool false).
    + cbn [q_top]. apply rel_nan_check. apply IH; [exact Hs| | | |exact Hda|exact I].
      * cbn [q_fits_list forallb] in Hfit. apply andb_true_iff in Hfit. apply Hfit.
      * intros v Hv. apply Hag. unfold qvars_list. cbn [flat_map]. rewrite app_nil_r. exact Hv.
      * intros v x Hv. apply Hok. unfold qvars_list. cbn [flat_map]. rewrite app_nil_r. exact Hv.
  - (* a <op> b *)
    apply andb_true_iff in Hshape. destruct Hshape as [Hs Hsb]. apply andb_true_iff in Hs. destruct Hs as [Hs Hsa].
    apply andb_true_iff in Hs. destruct Hs as [Hc Hb0]. apply N.eqb_eq in Hb0.
    assert (Hdab : qdepth a <= d /\ qdepth b <= d) by (unfold qdepth_list in Hd; cbn [fold_right] in Hd; lia).
    destruct Hdab as [Hda Hdb].
    cbn [to_items map E.eval_items]. unfold to_item. rewrite Hb0.
    rewrite ev_top_two by (apply covered_nonzero; exact Hc).
    replace (q_top content root items [a; b]) with (q_val content root items (QSub op_NoOp [a; b])) by (destruct a; reflexivity).
    apply (pair_rel content root items be d op_NoOp a b IH); try assumption.
Qed.
