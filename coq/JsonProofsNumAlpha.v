(* JsonProofsNumAlpha.v -- the number scanner uses up only "plain" units: no quote and no bracket.
   (Same development as JsonProofsNum.v with the consumed piece tracked; used by the bracket count.) *)
From Coq Require Import NArith ZArith List Bool Lia.
From Qv Require Import gen.Tables_json JsonModel JsonSpec JsonProofsBase JsonProofsNum.
Import ListNotations.
Local Open Scope N_scope.

Definition plain (c : N) : bool :=
  negb ((c =? jc_quote) || (c =? jc_ssquare) || (c =? jc_esquare) || (c =? jc_scurly) || (c =? jc_ecurly)).

Lemma dig_plain : forall c, is_dig c = true -> plain c = true.
Proof.
  intros c H. unfold is_dig in H. apply andb_true_iff in H. destruct H as [H1 H2]. apply N.leb_le in H1. apply N.leb_le in H2.
  change dc_zero with 48 in H1. change dc_nine with 57 in H2. unfold plain.
  replace (c =? jc_quote) with false by (symmetry; apply N.eqb_neq; change jc_quote with 34; lia).
  replace (c =? jc_ssquare) with false by (symmetry; apply N.eqb_neq; change jc_ssquare with 91; lia).
  replace (c =? jc_esquare) with false by (symmetry; apply N.eqb_neq; change jc_esquare with 93; lia).
  replace (c =? jc_scurly) with false by (symmetry; apply N.eqb_neq; change jc_scurly with 123; lia).
  replace (c =? jc_ecurly) with false by (symmetry; apply N.eqb_neq; change jc_ecurly with 125; lia). reflexivity.
Qed.
Lemma dig19_plain : forall c, is_dig19 c = true -> plain c = true.
Proof.
  intros c H. apply dig_plain. unfold is_dig19 in H. unfold is_dig. apply andb_true_iff in H. destruct H as [H1 H2].
  rewrite H2. apply N.ltb_lt in H1. replace (dc_zero <=? c) with true by (symmetry; apply N.leb_le; lia). reflexivity.
Qed.
Lemma eqb_plain : forall c k, (c =? k) = true -> plain k = true -> plain c = true.
Proof. intros c k H Hk. apply N.eqb_eq in H. subst. exact Hk. Qed.
Lemma hex_plain : forall c v, hexval c = Some v -> plain c = true.
Proof.
  intros c v H. unfold hexval in H.
  destruct ((dc_zero <=? c) && (c <=? dc_nine)) eqn:E1; [apply dig_plain; exact E1|].
  destruct ((dc_ua <=? c) && (c <=? dc_uf)) eqn:E2.
  { apply andb_true_iff in E2. destruct E2 as [H1 H2]. apply N.leb_le in H1. apply N.leb_le in H2.
    change dc_ua with 65 in H1. change dc_uf with 70 in H2. unfold plain.
    replace (c =? jc_quote) with false by (symmetry; apply N.eqb_neq; change jc_quote with 34; lia).
    replace (c =? jc_ssquare) with false by (symmetry; apply N.eqb_neq; change jc_ssquare with 91; lia).
    replace (c =? jc_esquare) with false by (symmetry; apply N.eqb_neq; change jc_esquare with 93; lia).
    replace (c =? jc_scurly) with false by (symmetry; apply N.eqb_neq; change jc_scurly with 123; lia).
    replace (c =? jc_ecurly) with false by (symmetry; apply N.eqb_neq; change jc_ecurly with 125; lia). reflexivity. }
  destruct ((dc_a <=? c) && (c <=? dc_f)) eqn:E3; [|discriminate].
  apply andb_true_iff in E3. destruct E3 as [H1 H2]. apply N.leb_le in H1. apply N.leb_le in H2.
  change dc_a with 97 in H1. change dc_f with 102 in H2. unfold plain.
  replace (c =? jc_quote) with false by (symmetry; apply N.eqb_neq; change jc_quote with 34; lia).
  replace (c =? jc_ssquare) with false by (symmetry; apply N.eqb_neq; change jc_ssquare with 91; lia).
  replace (c =? jc_esquare) with false by (symmetry; apply N.eqb_neq; change jc_esquare with 93; lia).
  replace (c =? jc_scurly) with false by (symmetry; apply N.eqb_neq; change jc_scurly with 123; lia).
  replace (c =? jc_ecurly) with false by (symmetry; apply N.eqb_neq; change jc_ecurly with 125; lia). reflexivity.
Qed.

(* [PSuf r' r]: r' is what is left of r after dropping some PLAIN units from the front *)
Definition PSuf (r' r : list N) : Prop := exists b, r = b ++ r' /\ forallb plain b = true.
Lemma PSuf_refl : forall r, PSuf r r. Proof. intros r. exists []. split; reflexivity. Qed.
Lemma PSuf_trans : forall a b c, PSuf a b -> PSuf b c -> PSuf a c.
Proof. intros a b c [x [Hx Px]] [y [Hy Py]]. exists (y ++ x). subst. rewrite app_assoc, forallb_app, Py, Px. split; reflexivity. Qed.
Lemma PSuf_tl : forall c t, plain c = true -> PSuf t (c :: t).
Proof. intros c t H. exists [c]. cbn. rewrite H. split; reflexivity. Qed.
Lemma PSuf_cons : forall r' c t, plain c = true -> PSuf r' t -> PSuf r' (c :: t).
Proof. intros r' c t Hc H. eapply PSuf_trans; [exact H|apply PSuf_tl; exact Hc]. Qed.

Lemma adv_inv_p : forall s r r', adv s r = JOk r' -> exists c, r = c :: r'.
Proof. intros s [|c t] r' H; cbn in H; [discriminate|]. inversion H. eauto. Qed.

Lemma skip_zeros_suf_p : forall r i d i' r' d', skip_zeros i r d = (i', r', d') -> PSuf r' r.
Proof.
  induction r as [|c t IH]; intros i d i' r' d' H; cbn in H.
  - inversion H. apply PSuf_refl.
  - destruct (c =? dc_zero) eqn:E; [apply PSuf_cons; [apply (eqb_plain _ _ E); reflexivity|eauto]|inversion H; apply PSuf_refl].
Qed.

Lemma hex_loop_suf_p : forall r n n' r', hex_loop r n = (n', r') -> PSuf r' r.
Proof.
  induction r as [|c t IH]; intros n n' r' H; cbn in H.
  - inversion H. apply PSuf_refl.
  - destruct (hexval c) eqn:E; [apply PSuf_cons; [eapply hex_plain; eauto|eauto]|inversion H; apply PSuf_refl].
Qed.

Lemma pexp_digits_suf_p : forall r i ex i' r' ex', pexp_digits i r ex = (i', r', ex') -> PSuf r' r.
Proof.
  induction r as [|c t IH]; intros i ex i' r' ex' H; cbn in H.
  - inversion H. apply PSuf_refl.
  - destruct (is_dig c) eqn:E; [apply PSuf_cons; [apply dig_plain; exact E|eauto]|inversion H; apply PSuf_refl].
Qed.

Lemma pexp_suf_p : forall i r ok ex neg i' r', pexp i r = (ok, ex, neg, i', r') -> ok = true -> PSuf r' r.
Proof.
  intros i r ok ex neg i' r' H Hok. unfold pexp, pexp_tail in H.
  destruct r as [|c t]; [inversion H; congruence|].
  destruct ((c =? dc_pos) || (c =? dc_neg)) eqn:Es.
  - destruct t as [|c2 t2]; [inversion H; congruence|].
    destruct ((c2 =? dc_pos) || (c2 =? dc_neg)); [inversion H; congruence|].
    destruct (pexp_digits (S i) (c2 :: t2) 0) as [[i2 r2] ex2] eqn:E. inversion H; subst.
    apply PSuf_cons; [|eapply pexp_digits_suf_p; eauto].
    apply orb_true_iff in Es. destruct Es as [Es|Es]; apply (eqb_plain _ _ Es); reflexivity.
  - destruct (pexp_digits i (c :: t) 0) as [[i2 r2] ex2] eqn:E. inversion H; subst.
    eapply pexp_digits_suf_p; eauto.
Qed.

Lemma tail_loop_suf_p : forall r i hd dot eo t, tail_loop i r hd dot eo = Some t -> PSuf (t_r t) r.
Proof.
  induction r as [|c r IH]; intros i hd dot eo t H; cbn in H.
  - inversion H. apply PSuf_refl.
  - destruct (is_dig c) eqn:Ed; [apply PSuf_cons; [apply dig_plain; exact Ed|eauto]|].
    destruct (c =? dc_dot) eqn:Edot.
    { destruct (negb hd); [apply PSuf_cons; [apply (eqb_plain _ _ Edot); reflexivity|eauto]|discriminate]. }
    destruct ((c =? dc_e) || (c =? dc_ue)) eqn:Ee.
    { destruct (pexp (S i) r) as [[[[ok ex] neg] i'] r'] eqn:E.
      destruct ok; [|discriminate]. inversion H; subst. cbn. apply PSuf_cons; [|eapply pexp_suf_p; eauto].
      apply orb_true_iff in Ee. destruct Ee as [Ee|Ee]; apply (eqb_plain _ _ Ee); reflexivity. }
    inversion H. apply PSuf_refl.
Qed.

Lemma real_tail_suf_p : forall num i r hd fo dot start tmp r',
  real_tail num i r hd fo dot start tmp = NumReal r' -> PSuf r' r.
Proof.
  intros num i r hd fo dot start tmp r' H. unfold real_tail in H.
  destruct (tail_loop i r hd dot 0) as [t|] eqn:E; [|discriminate].
  apply tail_loop_suf_p in E.
  repeat match type of H with
         | context [let '(_, _) := ?x in _] => destruct x
         end.
  repeat match type of H with
         | context [if ?b then _ else _] => destruct b
         end; try discriminate; try (inversion H; subst; assumption).
  all: destruct (DigitModel.power_of_positive_ten _ _) as [[?|]|?]; try discriminate; inversion H; subst; assumption.
Qed.

Lemma real_tail_not_nat_p : forall num i r hd fo dot start tmp,
  match real_tail num i r hd fo dot start tmp with NumNat _ _ | NumInt _ _ => False | _ => True end.
Proof.
  intros. unfold real_tail.
  destruct (tail_loop i r hd dot 0) as [t|]; [|exact I].
  repeat match goal with
         | |- context [let '(_, _) := ?x in _] => destruct x
         end.
  repeat match goal with
         | |- context [if ?b then _ else _] => destruct b
         end; try exact I.
  all: destruct (DigitModel.power_of_positive_ten _ _) as [[?|]|?]; exact I.
Qed.

(* ---------------- the mantissa loop ---------------- *)
Definition winv_p (m : nat) (s : mst) : Prop :=
  (m <= m_i s + length (m_r s))%nat /\ (m_hasdot s = false -> m_digit s <> dc_dot).

Lemma is_dig_not_dot_p : forall d, is_dig d = true -> d <> dc_dot.
Proof. intros d H E. subst d. discriminate. Qed.

Lemma digits_upto_spec_p : forall r m i d n,
  (m <= i + length r)%nat ->
  exists i' r' d' n', digits_upto m i r d n = JOk (i', r', d', n') /\ PSuf r' r /\
     (m <= i' + length r')%nat /\ (d' = d \/ is_dig d' = true \/ exists t, r' = d' :: t).
Proof.
  induction r as [|c t IH]; intros m i d n Hm; cbn [digits_upto].
  - destruct (i <? m)%nat eqn:E; [apply Nat.ltb_lt in E; cbn in Hm; lia|].
    exists i, [], d, n. repeat split; auto using PSuf_refl.
  - destruct (i <? m)%nat eqn:E.
    + destruct (is_dig c) eqn:Ed.
      * destruct (IH m (S i) c (m64 (n * 10 + c - dc_zero))) as (i' & r' & d' & n' & H1 & H2 & H3 & H4); [cbn in Hm; lia|].
        exists i', r', d', n'. rewrite H1. repeat split; auto.
        -- apply PSuf_cons; [apply dig_plain; exact Ed|exact H2].
        -- destruct H4 as [H4|H4]; [subst d'; auto|auto].
      * exists i, (c :: t), c, n. repeat split; auto using PSuf_refl. right. right. eauto.
    + exists i, (c :: t), d, n. repeat split; auto using PSuf_refl.
Qed.

Definition mstep_ok_p (m : nat) (s : mst) (st : mstep) : Prop :=
  match st with
  | MNaN => True
  | MCont s' => PSuf (m_r s') (m_r s) /\ winv_p m s' /\ m_hasdot s' = true /\ m_hasdot s = false
  | MBreak s' => PSuf (m_r s') (m_r s)
  end.

Lemma mant_iter_spec_p : forall m s, winv_p m s -> exists st, mant_iter m s = JOk st /\ mstep_ok_p m s st.
Proof.
  intros m s [Hw Hd]. unfold mant_iter.
  destruct (digits_upto_spec_p (m_r s) m (m_i s) (m_digit s) (m_num s) Hw) as (i1 & r1 & dg1 & n1 & H1 & H2 & H3 & H4).
  rewrite H1. cbn [bind].
  destruct (dg1 =? dc_dot) eqn:Edot; [|eexists; split; [reflexivity|exact H2]].
  apply N.eqb_eq in Edot. subst dg1.
  destruct (m_hasdot s) eqn:Eh; cbn [negb]; [eexists; split; [reflexivity|exact I]|].
  destruct H4 as [H4|[H4|[t H4]]]; [exfalso; apply Hd; auto|discriminate|].
  subst r1. cbn [adv bind].
  assert (Hsuf : PSuf t (m_r s)) by (eapply PSuf_trans; [apply (PSuf_tl dc_dot t); reflexivity|exact H2]).
  assert (Hcont : forall d, mstep_ok_p m s (MCont {| m_i := S i1; m_r := t; m_digit := d; m_num := n1; m_hasdot := true; m_real := true; m_dot := i1 |})).
  { intros d. cbn. split; [assumption|]. split; [|split; [reflexivity|assumption]].
    split; cbn; [cbn in H3; lia|discriminate]. }
  destruct (S i1 <? m)%nat eqn:E2.
  - apply Nat.ltb_lt in E2. destruct t as [|d t2]; [cbn in H3; lia|]. cbn [rd bind].
    destruct (is_dig19 d).
    + eexists; split; [reflexivity|apply Hcont].
    + destruct ((d =? dc_zero) && (S (S i1) <? m)%nat) eqn:E3.
      * apply andb_true_iff in E3. destruct E3 as [_ E3]. apply Nat.ltb_lt in E3.
        destruct t2 as [|d2 t3]; [cbn in H3; lia|]. cbn [tl rd bind].
        destruct (is_dig d2); eexists; (split; [reflexivity|]); [apply Hcont|exact Hsuf].
      * eexists; split; [reflexivity|exact Hsuf].
  - eexists; split; [reflexivity|exact Hsuf].
Qed.

Lemma mant_loop_spec_p : forall m s, winv_p m s ->
  exists st, mant_loop 3 m s = JOk st /\ (st = MNaN \/ exists s', st = MBreak s' /\ PSuf (m_r s') (m_r s)).
Proof.
  intros m s Hw. cbn [mant_loop].
  destruct (has (m_r s)); [|eexists; split; [reflexivity|right; eexists; split; [reflexivity|apply PSuf_refl]]].
  destruct (mant_iter_spec_p m s Hw) as (st & H1 & H2). rewrite H1. cbn [bind].
  destruct st as [s1|s1|]; [|eexists; split; [reflexivity|right; eauto]|eexists; split; [reflexivity|left; reflexivity]].
  destruct H2 as (Hs1 & Hw1 & Hh1 & _).
  destruct (has (m_r s1)); [|eexists; split; [reflexivity|right; eexists; split; [reflexivity|assumption]]].
  destruct (mant_iter_spec_p m s1 Hw1) as (st2 & H3 & H4). rewrite H3. cbn [bind].
  destruct st2 as [s2|s2|].
  - destruct H4 as (_ & _ & _ & H4). congruence.
  - eexists; split; [reflexivity|right]. eexists; split; [reflexivity|]. eapply PSuf_trans; eauto.
  - eexists; split; [reflexivity|left; reflexivity].
Qed.

(* the result of scan_go: never an error; what is left is a suffix of the state's rest *)
Definition numres_ok_p (r : list N) (n : numres) : Prop :=
  match num_rest n with Some r' => PSuf r' r | None => True end.

Lemma real_tail_ok_p : forall num i r hd fo dot start tmp r0, PSuf r r0 ->
  numres_ok_p r0 (real_tail num i r hd fo dot start tmp).
Proof.
  intros. unfold numres_ok_p.
  pose proof (real_tail_not_nat_p num i r hd fo dot start tmp) as Hn.
  destruct (real_tail num i r hd fo dot start tmp) eqn:E; cbn; try exact I; try contradiction.
  apply real_tail_suf_p in E. eapply PSuf_trans; eauto.
Qed.

Lemma scan_go_spec_p : forall neg s m fo start, winv_p m s ->
  exists n, scan_go neg s m fo start = JOk n /\ numres_ok_p (m_r s) n.
Proof.
  intros neg s m fo start Hw. unfold scan_go.
  destruct (mant_loop_spec_p m s Hw) as (st & H1 & H2). rewrite H1. cbn [bind].
  destruct H2 as [H2|(s1 & H2 & H3)]; subst st; [eexists; split; [reflexivity|exact I]|].
  set (r1 := m_r s1) in *.
  assert (Hstep : exists i2 r2 num2 tmp2 real2,
     (if negb (m_real s1) && has r1
      then dg <- rd 3363 r1;;
           (if is_dee dg then JOk (m_i s1, r1, m_num s1, m_i s1, true)
            else if is_dig dg
                 then if (nat_max_div10 <? m_num s1) || (m_num s1 =? nat_max_div10) && (dc_five <? dg)
                      then JOk (m_i s1, r1, m_num s1, m_i s1, true)
                      else r' <- adv 3384 r1;;
                           (if has r'
                            then dg2 <- rd 3388 r';;
                                 JOk (S (m_i s1), r', m64 (m_num s1 * 10 + dg - dc_zero), S (m_i s1), is_dee dg2 || is_dig dg2)
                            else JOk (S (m_i s1), r', m64 (m_num s1 * 10 + dg - dc_zero), S (m_i s1), false))
                 else JOk (m_i s1, r1, m_num s1, m_i s1, false))
      else JOk (m_i s1, r1, m_num s1, m_i s1, m_real s1)) = JOk (i2, r2, num2, tmp2, real2) /\ PSuf r2 r1).
  { destruct (negb (m_real s1) && has r1) eqn:E; [|do 5 eexists; split; [reflexivity|apply PSuf_refl]].
    apply andb_true_iff in E. destruct E as [_ E]. destruct r1 as [|dg t]; [discriminate|]. cbn [rd bind adv].
    destruct (is_dee dg); [do 5 eexists; split; [reflexivity|apply PSuf_refl]|].
    destruct (is_dig dg) eqn:Edg; [|do 5 eexists; split; [reflexivity|apply PSuf_refl]].
    destruct ((nat_max_div10 <? m_num s1) || (m_num s1 =? nat_max_div10) && (dc_five <? dg)); [do 5 eexists; split; [reflexivity|apply PSuf_refl]|].
    destruct t as [|dg2 t2]; cbn [has rd bind]; do 5 eexists; (split; [reflexivity|apply PSuf_tl; apply dig_plain; exact Edg]). }
  destruct Hstep as (i2 & r2 & num2 & tmp2 & real2 & Hs & Hsuf). rewrite Hs. cbn [bind].
  assert (Hr2 : PSuf r2 (m_r s)) by (eapply PSuf_trans; eauto).
  destruct (negb real2 && negb neg); [eexists; split; [reflexivity|exact Hr2]|].
  destruct (negb real2 && (num2 =? 0)); [eexists; split; [reflexivity|exact Hr2]|].
  destruct (negb real2 && (num2 <=? int_min_abs)); [eexists; split; [reflexivity|exact Hr2]|].
  destruct (negb (num2 =? 0) || real2); [|eexists; split; [reflexivity|exact Hr2]].
  eexists; split; [reflexivity|]. apply real_tail_ok_p. assumption.
Qed.

Lemma window_ge_p : forall i r, (window i r <= i + length r)%nat.
Proof. intros i r. unfold window. destruct (length r <? 19)%nat eqn:E; [lia|]. apply Nat.ltb_ge in E. lia. Qed.

Lemma numres_ok_suf_p : forall r r0 n, numres_ok_p r n -> PSuf r r0 -> numres_ok_p r0 n.
Proof. intros r r0 n H Hs. unfold numres_ok_p in *. destruct (num_rest n); [eapply PSuf_trans; eauto|exact I]. Qed.

Lemma lone_zero_p : forall neg i,
  exists n, scan_go neg {| m_i := i; m_r := [dc_zero]; m_digit := dc_zero; m_num := 0; m_hasdot := false; m_real := false; m_dot := O |}
                    (window i [dc_zero]) false O = JOk n /\ numres_ok_p [] n.
Proof.
  intros neg i.
  assert (Hw : window i [dc_zero] = S i) by (unfold window; cbn; lia).
  rewrite Hw.
  assert (Hm : mant_loop 3 (S i) {| m_i := i; m_r := [dc_zero]; m_digit := dc_zero; m_num := 0; m_hasdot := false; m_real := false; m_dot := O |}
               = JOk (MBreak {| m_i := S i; m_r := []; m_digit := dc_zero; m_num := 0; m_hasdot := false; m_real := false; m_dot := O |})).
  { cbn [mant_loop m_r has]. unfold mant_iter. cbn [m_i m_r m_digit m_num m_hasdot m_real m_dot digits_upto].
    assert (E1 : (i <? S i)%nat = true) by (apply Nat.ltb_lt; lia).
    assert (E2 : (S i <? S i)%nat = false) by (apply Nat.ltb_irrefl).
    rewrite E1. change (is_dig dc_zero) with true. cbn iota. rewrite E2. cbn [bind].
    change (dc_zero =? dc_dot) with false. cbn iota. reflexivity. }
  unfold scan_go. rewrite Hm. cbn [bind m_r m_i m_num m_real m_hasdot m_dot has negb andb].
  destruct neg; cbn [negb andb]; vm_compute; eexists; (split; [reflexivity|exists []; split; reflexivity]).
Qed.

(* after the sign: no error; what is left is a suffix of the tail (at least one unit is used) *)
Definition first_ok (c : N) (t : list N) (n : numres) : Prop :=
  match num_rest n with Some r' => plain c = true /\ PSuf r' t | None => True end.

Lemma first_ok_intro : forall c t n, plain c = true -> numres_ok_p t n -> first_ok c t n.
Proof. intros c t n Hc H. unfold first_ok, numres_ok_p in *. destruct (num_rest n); auto. Qed.

Lemma scan_unsigned_spec_p : forall neg i c t,
  exists n, scan_unsigned neg i (c :: t) = JOk n /\ first_ok c t n.
Proof.
  intros neg i c t. unfold scan_unsigned. cbn [has negb rd bind adv].
  destruct (is_dig19 c) eqn:E19.
  { edestruct (scan_go_spec_p neg) as (n & H1 & H2); [|rewrite H1; eexists; split; [reflexivity|apply first_ok_intro; [apply dig19_plain; exact E19|exact H2]]].
    split; cbn; [pose proof (window_ge_p i (c :: t)); cbn in *; lia|].
    intros _ E. subst c. discriminate. }
  destruct ((c =? dc_zero) || (c =? dc_dot)) eqn:Ezd; [|eexists; split; [reflexivity|exact I]].
  assert (Hpc : plain c = true) by (apply orb_true_iff in Ezd; destruct Ezd as [Ezd|Ezd]; apply (eqb_plain _ _ Ezd); reflexivity).
  unfold scan_zero. cbn [tl].
  destruct ((c =? dc_zero) && has t) eqn:Ez.
  - apply andb_true_iff in Ez. destruct Ez as [Ez Eh]. destruct t as [|d1 t2]; [discriminate|].
    cbn [adv rd bind].
    destruct ((d1 =? dc_x) || (d1 =? dc_ux)) eqn:Ex.
    { cbn [adv bind]. destruct (hex_loop t2 0) as [n rr] eqn:Eh2. eexists; split; [reflexivity|].
      unfold first_ok. cbn. split; [exact Hpc|]. apply PSuf_cons; [|eapply hex_loop_suf_p; eauto].
      apply orb_true_iff in Ex. destruct Ex as [Ex|Ex]; apply (eqb_plain _ _ Ex); reflexivity. }
    destruct (is_dig d1) eqn:Ed1; cbn [bind]; [eexists; split; [reflexivity|exact I]|].
    destruct (d1 =? dc_dot) eqn:Edot.
    + cbn [adv bind]. destruct (skip_zeros (S (S i)) t2 d1) as [[i3 r3] d3] eqn:Esk.
      pose proof (skip_zeros_suf_p _ _ _ _ _ _ Esk) as Hsk.
      destruct ((S (S i) =? i3)%nat && (S i =? i)%nat && ((d3 <? dc_zero) || (dc_nine <? d3))); [eexists; split; [reflexivity|exact I]|].
      edestruct (scan_go_spec_p neg) as (n & H1 & H2); [|rewrite H1; eexists; split; [reflexivity|]].
      * split; cbn; [apply window_ge_p|discriminate].
      * cbn in H2. apply first_ok_intro; [exact Hpc|]. eapply numres_ok_suf_p; [exact H2|].
        apply PSuf_cons; [apply (eqb_plain _ _ Edot); reflexivity|assumption].
    + edestruct (scan_go_spec_p neg) as (n & H1 & H2); [|rewrite H1; eexists; split; [reflexivity|apply first_ok_intro; [exact Hpc|exact H2]]].
      split; cbn; [apply window_ge_p|]. intros _ E. subst d1. rewrite N.eqb_refl in Edot. discriminate.
  - cbn [bind].
    destruct (c =? dc_dot) eqn:Edot.
    + cbn [adv bind]. destruct (skip_zeros (S i) t c) as [[i3 r3] d3] eqn:Esk.
      pose proof (skip_zeros_suf_p _ _ _ _ _ _ Esk) as Hsk.
      destruct ((S i =? i3)%nat && (i =? i)%nat && ((d3 <? dc_zero) || (dc_nine <? d3))); [eexists; split; [reflexivity|exact I]|].
      edestruct (scan_go_spec_p neg) as (n & H1 & H2); [|rewrite H1; eexists; split; [reflexivity|]].
      * split; cbn; [apply window_ge_p|discriminate].
      * cbn in H2. apply first_ok_intro; [exact Hpc|]. eapply numres_ok_suf_p; [exact H2|]. assumption.
    + (* a lone zero at the very end of the text *)
      assert (Hc : c = dc_zero).
      { apply orb_true_iff in Ezd. destruct Ezd as [Ezd|Ezd]; [apply N.eqb_eq in Ezd; assumption|congruence]. }
      subst c. cbn [N.eqb andb] in Ez. assert (Ht : t = []) by (destruct t; [reflexivity|discriminate]). subst t.
      destruct (lone_zero_p neg i) as (n & H1 & H2). rewrite H1. eexists; split; [reflexivity|apply first_ok_intro; [reflexivity|exact H2]].
Qed.

Theorem scan_number_plain : forall r n r', scan_number r = JOk n -> num_rest n = Some r' -> exists body, r = body ++ r' /\ forallb plain body = true.
Proof.
  intros r n r' H Hn. unfold scan_number in H. destruct r as [|d0 t]; cbn [has negb rd bind adv] in H.
  { inversion H; subst. discriminate. }
  assert (Hfin : forall pre c t0, d0 :: t = pre ++ c :: t0 -> forallb plain pre = true -> first_ok c t0 n ->
                 exists body, d0 :: t = body ++ r' /\ forallb plain body = true).
  { intros pre c t0 E Hp Hok. unfold first_ok in Hok. rewrite Hn in Hok. destruct Hok as [Hc [b2 [Hb2 Pb2]]]. subst t0.
    exists (pre ++ c :: b2). split; [rewrite E, <- app_assoc; reflexivity|].
    rewrite forallb_app. cbn [forallb]. rewrite Hp, Hc, Pb2. reflexivity. }
  destruct (d0 =? dc_neg) eqn:En.
  { cbn [bind] in H. destruct t as [|c t2]; [cbn in H; inversion H; subst; discriminate|].
    destruct (scan_unsigned_spec_p true 1 c t2) as (n2 & H1 & H2). rewrite H1 in H. inversion H; subst.
    apply (Hfin [d0] c t2 eq_refl); [|assumption]. cbn. rewrite (eqb_plain _ _ En eq_refl). reflexivity. }
  destruct (d0 =? dc_pos) eqn:Ep.
  { cbn [bind] in H. destruct t as [|c t2]; [cbn in H; inversion H; subst; discriminate|].
    destruct (scan_unsigned_spec_p false 1 c t2) as (n2 & H1 & H2). rewrite H1 in H. inversion H; subst.
    apply (Hfin [d0] c t2 eq_refl); [|assumption]. cbn. rewrite (eqb_plain _ _ Ep eq_refl). reflexivity. }
  destruct (scan_unsigned_spec_p false 0 d0 t) as (n2 & H1 & H2). rewrite H1 in H. inversion H; subst.
  apply (Hfin [] d0 t eq_refl eq_refl). assumption.
Qed.
