(* HtabProofsBase.v -- C13: list updates, chain segments, the frame and write lemmas,
   specification of find / walk_end on a chain.  No hash-table invariant yet. *)
From Coq Require Import List NArith Arith Bool Lia.
From Qv Require Import HtabModel.
Import ListNotations.

(* ---------- upd ---------- *)
Lemma nth_upd_same {A} (l : list A) i x d : i < length l -> nth i (upd l i x) d = x.
Proof. revert i; induction l as [|a l IH]; intros [|i] Hi; simpl in *; try lia; auto. apply IH; lia. Qed.
Lemma nth_upd_other {A} (l : list A) i j x d : i <> j -> nth j (upd l i x) d = nth j l d.
Proof. revert i j; induction l as [|a l IH]; intros [|i] [|j] Hij; simpl; auto; try lia. Qed.
Lemma length_upd {A} (l : list A) i x : length (upd l i x) = length l.
Proof. revert i; induction l as [|a l IH]; intros [|i]; simpl; auto. Qed.
Lemma upd_out {A} (l : list A) i x : length l <= i -> upd l i x = l.
Proof. revert i; induction l as [|a l IH]; intros [|i] Hi; simpl in *; try lia; auto. f_equal. apply IH. lia. Qed.
Lemma upd_split {A} (l : list A) i x : i < length l -> upd l i x = firstn i l ++ x :: skipn (S i) l.
Proof.
  revert i; induction l as [|a l IH]; intros [|i] Hi; simpl in *; try lia; auto.
  f_equal. apply IH. lia.
Qed.
Lemma nth_split_at {A} (l : list A) i d : i < length l -> l = firstn i l ++ nth i l d :: skipn (S i) l.
Proof.
  revert i; induction l as [|a l IH]; intros [|i] Hi; simpl in *; try lia; auto.
  f_equal. apply IH. lia.
Qed.
Lemma upd_app_l {A} (l r : list A) i x : i < length l -> upd (l ++ r) i x = upd l i x ++ r.
Proof. revert i; induction l as [|a l IH]; intros [|i] Hi; simpl in *; try lia; auto. f_equal. apply IH. lia. Qed.

Lemma link_eq_dec : forall a b : link, {a = b} + {a <> b}.
Proof. decide equality; apply Nat.eq_dec. Qed.

Definition link_after (l : link) (pre : list nat) : link := fold_left (fun _ p => NextOf p) pre l.
Lemma link_after_cons l i c : link_after l (i :: c) = link_after (NextOf i) c.
Proof. reflexivity. Qed.
Lemma link_after_snoc l c i : link_after l (c ++ [i]) = NextOf i.
Proof. unfold link_after. rewrite fold_left_app. reflexivity. Qed.
Lemma link_after_app l a b : link_after l (a ++ b) = link_after (link_after l a) b.
Proof. unfold link_after. apply fold_left_app. Qed.
(* the link after a non-empty prefix is the Next field of its last member *)
Lemma link_after_in l c : c <> [] -> exists p, In p c /\ link_after l c = NextOf p.
Proof.
  intros Hc. destruct (exists_last Hc) as (c' & p & ->). exists p. split.
  - apply in_or_app. right. left. reflexivity.
  - apply link_after_snoc.
Qed.

Section Base.
Context {K V : Type}.
Variable keqb : K -> K -> bool.
Variable kdef : K.
Variable vdef : V.

Notation ht := (ht K V).
Notation item := (item K V).
Notation it := (@it K V kdef vdef).
Notation find := (@find K V keqb kdef vdef).
Notation walk_end := (@walk_end K V kdef vdef).
Notation rd_link := (@rd_link K V kdef vdef).
Notation wr_link := (@wr_link K V kdef vdef).

Definition link_ok (s : ht) (l : link) : Prop :=
  match l with Head b => b < length (heads s) | NextOf p => p < size s end.

(* ---------- reads after writes ---------- *)
Lemma size_wr s l v : size (wr_link s l v) = size s.
Proof. destruct l; unfold size; simpl; auto. apply length_upd. Qed.
Lemma cap_wr s l v : cap (wr_link s l v) = cap s.
Proof. destruct l; reflexivity. Qed.
Lemma heads_len_wr s l v : length (heads (wr_link s l v)) = length (heads s).
Proof. destruct l; simpl; auto. apply length_upd. Qed.
Lemma it_wr_other s j v i : i <> j -> it (wr_link s (NextOf j) v) i = it s i.
Proof. intros Hij. unfold HtabModel.it; simpl. apply nth_upd_other. auto. Qed.
Lemma it_wr_head s b v i : it (wr_link s (Head b) v) i = it s i.
Proof. reflexivity. Qed.
Lemma it_wr_fields s l v i :
  ikey (it (wr_link s l v) i) = ikey (it s i) /\ ihash (it (wr_link s l v) i) = ihash (it s i) /\
  ival (it (wr_link s l v) i) = ival (it s i).
Proof.
  destruct l as [b|j]; [auto|].
  destruct (Nat.eq_dec i j) as [->|Hij]; [|rewrite it_wr_other by auto; auto].
  destruct (Nat.lt_ge_cases j (size s)) as [Hj|Hj].
  - unfold HtabModel.it at 1 3 5; simpl. rewrite nth_upd_same by exact Hj. simpl. auto.
  - unfold HtabModel.it at 1 3 5; simpl. rewrite upd_out by exact Hj. auto.
Qed.
Lemma it_wr_next_other s l v i : l <> NextOf i -> inext (it (wr_link s l v) i) = inext (it s i).
Proof.
  intros Hl. destruct l as [b|j]; [reflexivity|].
  rewrite it_wr_other; [reflexivity|]. intros ->. apply Hl. reflexivity.
Qed.
Lemma rd_wr_same s l v : link_ok s l -> rd_link (wr_link s l v) l = v.
Proof.
  destruct l as [b|p]; simpl; intros Hl.
  - apply nth_upd_same. exact Hl.
  - unfold HtabModel.it; simpl. rewrite nth_upd_same by exact Hl. reflexivity.
Qed.
Lemma rd_wr_other s l l' v : l <> l' -> rd_link (wr_link s l' v) l = rd_link s l.
Proof.
  intros Hne. destruct l as [b|p], l' as [b'|p']; simpl; auto.
  - apply nth_upd_other. intros ->. apply Hne. reflexivity.
  - assert (Hpp : p' <> p) by (intros ->; apply Hne; reflexivity).
    unfold HtabModel.it; simpl. rewrite nth_upd_other by exact Hpp. reflexivity.
Qed.

(* ---------- chain segments ---------- *)
Fixpoint Seg (s : ht) (start : nat) (c : list nat) (stop : nat) : Prop :=
  match c with
  | [] => start = stop
  | i :: c' => start = S i /\ i < size s /\ Seg s (inext (it s i)) c' stop
  end.

Lemma Seg_app s a c1 c2 z : Seg s a (c1 ++ c2) z <-> exists m, Seg s a c1 m /\ Seg s m c2 z.
Proof.
  revert a; induction c1 as [|i c1 IH]; intros a; simpl.
  - split; [intros Hs; exists a; auto|intros (m & -> & Hs); exact Hs].
  - split.
    + intros (Ha & Hi & Hs). apply IH in Hs. destruct Hs as (m & H1 & H2). exists m. auto.
    + intros (m & (Ha & Hi & H1) & H2). repeat split; auto. apply IH. exists m. auto.
Qed.

Lemma Seg_bound s a c z : Seg s a c z -> forall i, In i c -> i < size s.
Proof.
  revert a; induction c as [|j c IH]; intros a Hs i Hi; [destruct Hi|].
  destruct Hs as (_ & Hj & Hs). destruct Hi as [<-|Hi]; [exact Hj|]. eapply IH; eauto.
Qed.

(* Frame: a segment depends only on the Next fields of its members *)
Lemma Seg_frame s s' a c z :
  (forall i, In i c -> i < size s -> i < size s' /\ inext (it s' i) = inext (it s i)) ->
  Seg s a c z -> Seg s' a c z.
Proof.
  revert a; induction c as [|i c IH]; intros a Hf Hs; simpl in *; auto.
  destruct Hs as (-> & Hi & Hs). destruct (Hf i (or_introl eq_refl) Hi) as (Hi' & Hn).
  repeat split; auto. rewrite Hn. apply IH; auto.
Qed.

Lemma Seg_rd_after s l c z : Seg s (rd_link s l) c z -> rd_link s (link_after l c) = z.
Proof.
  revert l; induction c as [|i c IH]; intros l Hs; [exact Hs|].
  destruct Hs as (_ & _ & Hs). rewrite link_after_cons. apply IH. exact Hs.
Qed.

Lemma Seg_functional s a c c' : Seg s a c 0 -> Seg s a c' 0 -> c = c'.
Proof.
  revert a c'; induction c as [|i c IH]; intros a [|i' c'] H1 H2; simpl in *; auto.
  - destruct H2 as (H2 & _). lia.
  - destruct H1 as (H1 & _). lia.
  - destruct H1 as (H1 & _ & H1'), H2 as (H2 & _ & H2'). assert (i = i') by lia. subst i'.
    f_equal. eapply IH; eauto.
Qed.

(* writing v into the link that ends the segment `pre` *)
Lemma Seg_wr : forall pre s l m v,
  Seg s (rd_link s l) pre m -> NoDup pre -> link_ok s l ->
  (forall p, l = NextOf p -> ~ In p pre) ->
  Seg (wr_link s (link_after l pre) v) (rd_link (wr_link s (link_after l pre) v) l) pre v.
Proof.
  induction pre as [|i pre IH]; intros s l m v Hs Hnd Hok Hl.
  - simpl. apply rd_wr_same. exact Hok.
  - destruct Hs as (Hrd & Hi & Hs). rewrite link_after_cons.
    inversion Hnd as [|? ? Hni Hnd']; subst.
    assert (Hne : l <> link_after (NextOf i) pre).
    { destruct pre as [|j pre'].
      - simpl. intros ->. apply (Hl i eq_refl). left. reflexivity.
      - destruct (link_after_in (NextOf i) (j :: pre') ltac:(discriminate)) as (p & Hp & ->).
        intros ->. apply (Hl p eq_refl). right. exact Hp. }
    cbn [Seg]. rewrite rd_wr_other by exact Hne. split; [exact Hrd|]. split; [rewrite size_wr; exact Hi|].
    apply (IH s (NextOf i) m v); auto.
    intros p Hp. inversion Hp; subst. exact Hni.
Qed.

(* ---------- find and walk_end on a chain ---------- *)
Definition matches (s : ht) (k : K) (h : N) (i : nat) : Prop :=
  N.eqb (ihash (it s i)) h && keqb (ikey (it s i)) k = true.

Lemma find_spec : forall c fuel s l k h,
  Seg s (rd_link s l) c 0 -> length c < fuel ->
  (exists pre i post, c = pre ++ i :: post /\ matches s k h i /\
       (forall j, In j pre -> ~ matches s k h j) /\
       find fuel s l k h = Some (link_after l pre, Some i))
  \/
  ((forall j, In j c -> ~ matches s k h j) /\
   find fuel s l k h = Some (link_after l c, None)).
Proof.
  induction c as [|i c IH]; intros fuel s l k h Hc Hf.
  - right. split; [intros j []|]. destruct fuel; [simpl in Hf; lia|]. simpl in *. rewrite Hc. reflexivity.
  - destruct fuel as [|fuel]; [simpl in Hf; lia|].
    simpl in Hc. destruct Hc as (Hs & Hi & Hc).
    cbn [HtabModel.find]. rewrite Hs.
    destruct (N.eqb (ihash (it s i)) h && keqb (ikey (it s i)) k) eqn:E.
    + left. exists [], i, c. simpl. split; [reflexivity|]. split; [exact E|]. split; [intros j []|reflexivity].
    + specialize (IH fuel s (NextOf i) k h Hc ltac:(simpl in Hf; lia)).
      destruct IH as [(pre & m & post & -> & Hm & Hpre & Hfind)|(Hno & Hfind)].
      * left. exists (i :: pre), m, post. split; [reflexivity|]. split; [exact Hm|]. split.
        -- intros j [<-|Hj]; [unfold matches; rewrite E; discriminate|auto].
        -- exact Hfind.
      * right. split.
        -- intros j [<-|Hj]; [unfold matches; rewrite E; discriminate|auto].
        -- exact Hfind.
Qed.

Lemma walk_end_spec : forall c fuel s l,
  Seg s (rd_link s l) c 0 -> length c < fuel -> walk_end fuel s l = Some (link_after l c).
Proof.
  induction c as [|i c IH]; intros fuel s l Hc Hf.
  - destruct fuel; [simpl in Hf; lia|]. simpl in *. rewrite Hc. reflexivity.
  - destruct fuel as [|fuel]; [simpl in Hf; lia|].
    destruct Hc as (Hs & Hi & Hc). cbn [HtabModel.walk_end]. rewrite Hs.
    rewrite link_after_cons. apply IH; auto. simpl in Hf. lia.
Qed.

Lemma chain_length_bound (c : list nat) n : NoDup c -> (forall i, In i c -> i < n) -> length c <= n.
Proof.
  intros Hnd Hb. rewrite <- (seq_length n 0). apply NoDup_incl_length; auto.
  intros i Hi. apply in_seq. specialize (Hb i Hi). lia.
Qed.

End Base.
