(* TparseRound.v -- C02, parser side: the parser model returns, for the printed text of a well-formed
   AST, exactly the tag tree [lay_nodes] assigns to it (TmplRender.v) -- proved here for the fragment
   text + {var:...} + {raw:...} ([parse_print_leaves]).  Loops, ifs, math, svar and inline if are tied by
   the correspondence run only. *)
From Coq Require Import NArith ZArith List Bool Arith Lia ZifyBool ZifyNat ZifyN.
From Qv Require Import gen.Tables_tmpl gen.Tables_expr gen.Tables_tparse FinderModel FinderProofs
  TmplModel TmplRender TparseModel TparseFinder.
Import ListNotations.
Ltac Zify.zify_post_hook ::= Z.div_mod_to_equations.

(* projection of the C02 tag tree to the parser's records (leaves; containers are not translated yet) *)
Definition tag_of_leaf (g : gtag) : list tag :=
  match g with
  | GVar off len _ => [PVar (mkV off (N.of_nat len) 0 0)]
  | GRaw off len _ => [PRaw (mkV off (N.of_nat len) 0 0)]
  | _ => []
  end.
Definition tree_of (l : list gtag) : list tag := flat_map tag_of_leaf l.

(* well-formedness of the printed fragment: no tag character in texts and names, names of 1..255 units *)
Definition plain_char (c : N) : bool := negb (N.eqb c 123) && negb (N.eqb c 60) && negb (N.eqb c 125).
Definition wf_path (p : path) : bool :=
  forallb plain_char (print_path p) && (1 <=? length (print_path p)) && (length (print_path p) <=? 255).
Fixpoint wf_print (l : list tnode) : bool :=
  match l with
  | [] => true
  | TText s :: r => forallb plain_char s && wf_print r
  | TVar p :: r => wf_path p && wf_print r
  | TRaw p :: r => wf_path p && wf_print r
  | _ => false
  end.

(* ---- the Finder on printed pieces ---- *)
Lemma spec_plain : forall s r off, forallb plain_char s = true ->
  next_spec_c8 (s ++ r) off = next_spec_c8 r (off + length s).
Proof.
  intros s; induction s as [|c s IH]; intros r off H; [cbn [app length]; rewrite Nat.add_0_r; reflexivity|].
  cbn [forallb] in H. apply andb_prop in H. destruct H as [Hc Hs].
  unfold plain_char in Hc. apply andb_prop in Hc. destruct Hc as [Hc H125]. apply andb_prop in Hc. destruct Hc as [H123 H60].
  apply negb_true_iff in H123, H60, H125.
  cbn [app length]. unfold next_spec_c8. rewrite next_spec_cons.
  cbn [index_of finder_first_chars_c8]. rewrite (N.eqb_sym 123 c), H123, (N.eqb_sym 60 c), H60.
  unfold finder_single_char_c8. rewrite H125.
  fold next_spec_c8. rewrite IH by exact Hs. unfold next_spec_c8, finder_single_char_c8.
  replace (S off + length s) with (off + S (length s)) by lia. reflexivity.
Qed.

Lemma spec_var : forall r off, next_spec_c8 (s_var_open ++ r) off = (2%N, off + 5).
Proof. intros r off. cbn. f_equal. lia. Qed.
Lemma spec_raw : forall r off, next_spec_c8 (s_raw_open ++ r) off = (3%N, off + 5).
Proof. intros r off. cbn. f_equal. lia. Qed.
Lemma spec_close : forall r off, next_spec_c8 (s_close ++ r) off = (1%N, S off).
Proof. intros r off. reflexivity. Qed.

Lemma fnext_at : forall w pre suf, fnext w (pre ++ suf) (length pre) =
  let (m, o) := next_spec_c8 suf (length pre) in Ok (m, o).
Proof.
  intros w pre suf. unfold fnext. rewrite next_w_c8, next_c8_is_spec by (rewrite app_length; lia).
  rewrite skipn_app, skipn_all, Nat.sub_diag. cbn [skipn app].
  destruct (next_spec_c8 suf (length pre)) as [m o]. reflexivity.
Qed.

Lemma csub_eq : forall site a b, b <= a -> csub site a b = Ok (a - b).
Proof. intros site a b H. unfold csub. destruct (Nat.leb_spec b a); [reflexivity|lia]. Qed.

Lemma t8_small : forall n, n <= 255 -> t8 n = N.of_nat n.
Proof. intros n H. unfold t8. lia. Qed.

Section Round.
  Variable numf : list N -> N * N * nat.
  Variable w : N.

  (* case VariableID / RawVariableID on "{var:" name "}" *)
  Lemma do_var_sim : forall mk content p n fm cur,
    fnext w content (p + 5) = Ok (1%N, S (p + 5 + n)) -> 1 <= n <= 255 ->
    do_var w content mk (mkS (p + 5) fm [] cur false []) =
    bind (fnext w content (S (p + 5 + n)))
         (fun mo2 => Ok (mkS (snd mo2) (fst mo2) [] (cur ++ [mk (mkV (p + 5) (N.of_nat n) 0 0)]) false [])).
  Proof.
    intros mk content p n fm cur Hf Hn. unfold do_var. cbn [ps_fo]. rewrite Hf. cbn [bind fst snd].
    change (N.eqb 1 tpp_LineEndID) with true. cbv iota.
    rewrite csub_eq by lia. cbn [bind].
    replace (S (p + 5 + n) - (p + 5)) with (S n) by lia.
    rewrite csub_eq by (unfold tpp_InLineSuffixLength; lia). cbn [bind].
    replace (S n - tpp_InLineSuffixLength) with n by (unfold tpp_InLineSuffixLength; lia).
    rewrite t8_small by lia.
    destruct (N.eqb_spec (N.of_nat n) 0) as [E|E]; [lia|].
    cbn [ps_chain check_loop_variable bind ps_cur]. unfold with_finder, with_cur. cbn [ps_stack ps_cur ps_child ps_chain].
    reflexivity.
  Qed.

  Lemma main_loop_done : forall content fuel st, ps_fm st = 0%N -> main_loop numf w content fuel st = Ok st.
  Proof. intros content fuel st H. destruct fuel; cbn [main_loop]; rewrite H; reflexivity. Qed.

  Lemma sim : forall l content pre cur fuel,
    content = pre ++ print_nodes l -> wf_print l = true -> length (print_nodes l) < fuel ->
    exists mo st', fnext w content (length pre) = Ok mo /\
      main_loop numf w content fuel (mkS (snd mo) (fst mo) [] cur false []) = Ok st' /\
      ps_stack st' = [] /\ ps_cur st' = cur ++ tree_of (lay_nodes (length pre) l).
  Proof.
    intros l; induction l as [|x r IH]; intros content pre cur fuel Hc Hw Hf.
    - cbn [print_nodes] in Hc. subst content. rewrite fnext_at. cbn.
      eexists (0%N, length pre), _. split; [reflexivity|]. split; [apply main_loop_done; reflexivity|].
      cbn. split; [reflexivity|]. rewrite app_nil_r. reflexivity.
    - destruct x as [s|p|p|e|p sb|c t f|c b m|st v g so b]; cbn [wf_print] in Hw; try discriminate Hw.
      + (* text *)
        apply andb_prop in Hw. destruct Hw as [Hs Hr].
        cbn [print_nodes print_node] in Hc, Hf. rewrite app_length in Hf.
        destruct (IH content (pre ++ s) cur fuel) as (mo & st' & H1 & H2 & H3 & H4);
          [rewrite Hc, app_assoc; reflexivity|exact Hr|lia|].
        exists mo, st'. split; [|split; [exact H2|split; [exact H3|]]].
        * rewrite <- H1. rewrite Hc at 1. rewrite fnext_at, spec_plain by exact Hs.
          rewrite Hc, app_assoc, fnext_at, app_length. reflexivity.
        * rewrite H4, app_length. cbn [lay_nodes lay_node app print_node]. reflexivity.
      + (* {var:...} *)
        apply andb_prop in Hw. destruct Hw as [Hp Hr]. unfold wf_path in Hp.
        apply andb_prop in Hp. destruct Hp as [Hp H255]. apply andb_prop in Hp. destruct Hp as [Hpl H1n].
        apply Nat.leb_le in H255, H1n.
        cbn [print_nodes print_node] in Hc, Hf. repeat rewrite app_length in Hf. cbn [length s_var_open s_close] in Hf.
        set (name := print_path p) in *. set (n := length name) in *.
        assert (Hc5 : content = (pre ++ s_var_open) ++ name ++ s_close ++ print_nodes r)
          by (rewrite Hc; repeat rewrite <- app_assoc; reflexivity).
        assert (Hl5 : length (pre ++ s_var_open) = length pre + 5) by (rewrite app_length; reflexivity).
        assert (Hfn : fnext w content (length pre + 5) = Ok (1%N, S (length pre + 5 + n))).
        { rewrite <- Hl5. rewrite Hc5 at 1. rewrite fnext_at, spec_plain by exact Hpl. rewrite spec_close.
          rewrite Hl5. reflexivity. }
        destruct fuel as [|f]; [lia|].
        destruct (IH content (pre ++ s_var_open ++ name ++ s_close) (cur ++ [PVar (mkV (length pre + 5) (N.of_nat n) 0 0)]) f)
          as (mo & st' & H1 & H2 & H3 & H4); [rewrite Hc; repeat rewrite <- app_assoc; reflexivity|exact Hr|lia|].
        assert (Hlen : length (pre ++ s_var_open ++ name ++ s_close) = S (length pre + 5 + n)).
        { repeat rewrite app_length. cbn [length s_var_open s_close]. fold n. lia. }
        rewrite Hlen in H1, H4.
        exists (2%N, length pre + 5), st'. split; [|split; [|split; [exact H3|]]].
        * rewrite Hc at 1. repeat rewrite <- app_assoc. rewrite fnext_at, spec_var. reflexivity.
        * cbn [fst snd main_loop ps_fm]. change (N.eqb 2 0) with false. cbv iota.
          unfold step. cbn [ps_fm]. change (N.eqb 2 tpp_LineEndID) with false. change (N.eqb 2 tpp_VariableID) with true. cbv iota.
          rewrite (do_var_sim PVar content (length pre) n 2 cur Hfn) by lia.
          rewrite H1. cbn [bind]. exact H2.
        * rewrite H4. cbn [lay_nodes lay_node]. unfold tree_of. cbn [flat_map tag_of_leaf app].
          rewrite <- app_assoc. cbn [app]. fold name. fold n.
          replace (length pre + length (print_node (TVar p))) with (S (length pre + 5 + n)).
          2:{ cbn [print_node]. repeat rewrite app_length. cbn [length s_var_open s_close]. fold name. fold n. lia. }
          reflexivity.
      + (* {raw:...} *)
        apply andb_prop in Hw. destruct Hw as [Hp Hr]. unfold wf_path in Hp.
        apply andb_prop in Hp. destruct Hp as [Hp H255]. apply andb_prop in Hp. destruct Hp as [Hpl H1n].
        apply Nat.leb_le in H255, H1n.
        cbn [print_nodes print_node] in Hc, Hf. repeat rewrite app_length in Hf. cbn [length s_raw_open s_close] in Hf.
        set (name := print_path p) in *. set (n := length name) in *.
        assert (Hc5 : content = (pre ++ s_raw_open) ++ name ++ s_close ++ print_nodes r)
          by (rewrite Hc; repeat rewrite <- app_assoc; reflexivity).
        assert (Hl5 : length (pre ++ s_raw_open) = length pre + 5) by (rewrite app_length; reflexivity).
        assert (Hfn : fnext w content (length pre + 5) = Ok (1%N, S (length pre + 5 + n))).
        { rewrite <- Hl5. rewrite Hc5 at 1. rewrite fnext_at, spec_plain by exact Hpl. rewrite spec_close.
          rewrite Hl5. reflexivity. }
        destruct fuel as [|f]; [lia|].
        destruct (IH content (pre ++ s_raw_open ++ name ++ s_close) (cur ++ [PRaw (mkV (length pre + 5) (N.of_nat n) 0 0)]) f)
          as (mo & st' & H1 & H2 & H3 & H4); [rewrite Hc; repeat rewrite <- app_assoc; reflexivity|exact Hr|lia|].
        assert (Hlen : length (pre ++ s_raw_open ++ name ++ s_close) = S (length pre + 5 + n)).
        { repeat rewrite app_length. cbn [length s_raw_open s_close]. fold n. lia. }
        rewrite Hlen in H1, H4.
        exists (3%N, length pre + 5), st'. split; [|split; [|split; [exact H3|]]].
        * rewrite Hc at 1. repeat rewrite <- app_assoc. rewrite fnext_at, spec_raw. reflexivity.
        * cbn [fst snd main_loop ps_fm]. change (N.eqb 3 0) with false. cbv iota.
          unfold step. cbn [ps_fm]. change (N.eqb 3 tpp_LineEndID) with false. change (N.eqb 3 tpp_VariableID) with false.
          change (N.eqb 3 tpp_RawVariableID) with true. cbv iota.
          rewrite (do_var_sim PRaw content (length pre) n 3 cur Hfn) by lia.
          rewrite H1. cbn [bind]. exact H2.
        * rewrite H4. cbn [lay_nodes lay_node]. unfold tree_of. cbn [flat_map tag_of_leaf app].
          rewrite <- app_assoc. cbn [app]. fold name. fold n.
          replace (length pre + length (print_node (TRaw p))) with (S (length pre + 5 + n)).
          2:{ cbn [print_node]. repeat rewrite app_length. cbn [length s_raw_open s_close]. fold name. fold n. lia. }
          reflexivity.
  Qed.

  Theorem parse_print_leaves_gen : forall ast, wf_print ast = true ->
    parse_gen numf w (print_nodes ast) = Ok (tree_of (lay_nodes 0 ast)).
  Proof.
    intros ast Hw.
    destruct (sim ast (print_nodes ast) [] [] (S (S (length (print_nodes ast)))) eq_refl Hw) as (mo & st' & H1 & H2 & H3 & H4); [lia|].
    unfold parse_gen, parse_state. cbn [length] in H1. rewrite H1. cbn [bind]. rewrite H2. cbn [bind].
    unfold unwind. rewrite H3, H4. reflexivity.
  Qed.
End Round.

(* C02, parser side, fragment text + var + raw: parsing the printed text of a well-formed AST yields
   exactly the tag tree the C02 model assigns to it *)
Theorem parse_print_leaves : forall w ast, wf_print ast = true ->
  parse_model w (print_nodes ast) = Ok (tree_of (lay_nodes 0 ast)).
Proof. intros w ast H. apply parse_print_leaves_gen. exact H. Qed.

(* non-vacuity: "a {var:n1} b{raw:list[0]}" *)
Example wf_print_example :
  wf_print [TText [97; 32]%N; TVar ([110; 49]%N, []); TText [32; 98]%N; TRaw ([108; 105; 115; 116]%N, [[48]%N])] = true.
Proof. reflexivity. Qed.
