(* TfullModel.v -- C02 on the faithful models: definitions for the statement
     render_all_jv auto w (print_nodes ast) root = ROk (expand auto w root ast)
   (parser model TparseModel.v + renderer model TrenderModel.v instantiated with the value model of
   TmplModel.v).  DEFINITIONS ONLY.

   * [wf_template]: the well-formedness of a template AST under which the statement is proved.
     Fragment covered so far: text, {var:}, {raw:}, <loop ...> (set / value / group / sort), nested
     without bound other than the 8-bit Level.  Every other constructor is rejected ([false]).
       - texts contain no '}', and a '{' / '<' in a text is followed, inside the text, by units that rule out every
         tag word ("1 < 2", "</b>" are fine; "<lo" at the end of a text is not)
       - names (variable names, indices, loop value names, group names) contain none of
         '{' '<' '}' '>' '[' ']' and the double quote; a variable name is not empty
       - a printed path is at most 255 units long (VariableTag::Length is limited to 8 bits by parse)
       - a loop head is at most 255 units long (ValueOffset / GroupOffset are 8-bit fields)
       - a loop is opened with at most 255 tags (loops, ifs) open around it (Level is an 8-bit field; since findings/D91
         a deeper loop is left as text by parse)
       - "choose a unique name": if the value name of an enclosing loop is a prefix of the printed
         path of a variable (or of a loop's set) with an index in its body, it IS the variable's name
   * [build]: the tag tree (TparseModel.tag) the parser builds for the printed text of such an AST:
     offsets from the printer, IDLength / Level of a variable from the innermost enclosing loop whose
     value name is a prefix of its printed path ([annot], what checkLoopVariable computes). *)
From Coq Require Import NArith ZArith List Bool Arith.
From Qv Require Import gen.Tables gen.Tables_tmpl gen.Tables_expr gen.Tables_digit gen.Tables_tparse FinderModel EscapeModel TmplModel TmplRender TmplProofs TparseModel TrenderModel TrenderProofs TrenderInst.
Import ListNotations.

Definition tagc (c : N) : bool := N.eqb c 123 || N.eqb c 60 || N.eqb c 125.
Definition namec (c : N) : bool :=
  negb (tagc c) && negb (N.eqb c 34) && negb (N.eqb c 62) && negb (N.eqb c 91) && negb (N.eqb c 93).
(* a text holds no token of the Finder: no '}', and after a '{' / '<' the text itself differs from every word of that
   character's group before the word or the text ends (so no token can start there, whatever follows the text) *)
Fixpoint clash (wd r : list N) : bool :=
  match wd, r with
  | x :: wd', y :: r' => negb (N.eqb x y) || clash wd' r'
  | _, _ => false
  end.
Definition free_after (g : list (N * list N)) (r : list N) : bool := forallb (fun iw => clash (snd iw) r) g.
Fixpoint wf_text (s : list N) : bool :=
  match s with
  | [] => true
  | c :: r =>
    (if N.eqb c 125 then false
     else if N.eqb c 123 then free_after (nth 0 finder_groups_c8 []) r
     else if N.eqb c 60 then free_after (nth 1 finder_groups_c8 []) r
     else true) && wf_text r
  end.
Definition wf_name (s : list N) : bool := forallb namec s.
Definition wf_path (p : path) : bool :=
  wf_name (fst p) && negb (match fst p with [] => true | _ => false end) && forallb wf_name (snd p) &&
  (length (print_path p) <=? 255).

(* the unique-name rule against the value names of the enclosing loops *)
Definition uniq (names : list (list N)) (p : path) : bool :=
  match snd p with
  | [] => true       (* without an index the loop item itself is taken: same in renderer and interpreter *)
  | _ => forallb (fun nm => match nm with
                            | [] => true
                            | _ => negb (is_pfx nm (print_path p)) || list_eqb (fst p) nm
                            end) names
  end.

Definition head_len (set : option path) (val group : list N) (sort : N) : nat := length (loop_head set val group sort).

(* expressions (integer fragment): naturals below 10^19 (at most 19 digits), variables whose names hold no parenthesis,
   parenthesised binary expressions with the operators 0..10 of TmplModel *)
Definition wf_epath (p : path) : bool :=
  wf_path p && forallb (fun c => negb (N.eqb c 40) && negb (N.eqb c 41)) (print_path p).
Fixpoint wf_expr (names : list (list N)) (e : expr) : bool :=
  match e with
  | ENum n => N.ltb n 10000000000000000000
  | EVar p => wf_epath p && uniq names p
  | EBin op a b => N.leb op 10 && wf_expr names a && wf_expr names b
  end.

(* what the values of an inline if may hold: text without a double quote, {var:}, {raw:}, {math:} *)
Definition inl_ok (x : tnode) : bool :=
  match x with
  | TText s => forallb (fun c => negb (N.eqb c 34)) s
  | TVar _ | TRaw _ | TMath _ => true
  | _ => false
  end.
Definition ntags (l : list tnode) : nat := length (filter (fun x => negb (is_text x)) l).

(* the values of a super variable are tags; its own name is looked up in the root value only (parse does not call
   checkLoopVariable for it), so no value name of an enclosing loop may be a prefix of it; no comma in it *)
Definition sub_ok (x : tnode) : bool := match x with TVar _ | TRaw _ | TMath _ => true | _ => false end.
Definition fresh (names : list (list N)) (p : path) : bool :=
  forallb (fun nm => match nm with [] => true | _ => negb (is_pfx nm (print_path p)) end) names.
Definition no44 (s : list N) : bool := forallb (fun c => negb (N.eqb c 44)) s.

Fixpoint wf_node1 (names : list (list N)) (depth : nat) (n : tnode) {struct n} : bool :=
  match n with
  | TText s => wf_text s
  | TVar p => wf_path p && uniq names p
  | TRaw p => wf_path p && uniq names p
  | TMath e => wf_expr names e
  | TIf c body more =>
    wf_expr names c && forallb (wf_node1 names (S depth)) body &&
    (fix wm (l : list (option expr * list tnode)) : bool :=
       match l with
       | [] => true
       | (Some e, b) :: r => wf_expr names e && forallb (wf_node1 names (S depth)) b && wm r
       | (None, b) :: r => forallb (wf_node1 names (S depth)) b && match r with [] => true | _ => false end
       end) more
  | TSVar p subs =>
    wf_path p && no44 (print_path p) && fresh names p && negb (match subs with [] => true | _ => false end) &&
    forallb sub_ok subs && forallb (wf_node1 names (S depth)) subs
  | TIIf c t f =>
    wf_expr names c && forallb inl_ok t && forallb (wf_node1 names (S depth)) t &&
    match f with Some fl => forallb inl_ok fl && forallb (wf_node1 names (S depth)) fl | None => true end &&
    N.leb (N.of_nat (length (print_node n))) 65535 && (ntags t + match f with Some fl => ntags fl | None => 0 end <=? 255)
  | TLoop set val group sort body =>
    (depth <=? 255) &&
    match set with Some p => wf_path p && uniq names p | None => true end &&
    wf_name val && wf_name group && N.leb sort 2 && (head_len set val group sort <=? 255) &&
    forallb (wf_node1 (val :: names) (S depth)) body
  end.
Definition wf_template (ast : list tnode) : bool := forallb (wf_node1 [] 0) ast.

(* ---- the tree the parser builds ---- *)
(* IDLength, Level of a variable whose printed path is [text] *)
Fixpoint annot (env : list (list N * loopinfo)) (text : list N) : N * N :=
  match env with
  | [] => (0%N, 0%N)
  | (nm, li) :: r =>
    match nm with
    | [] => annot r text
    | _ => if is_pfx nm text then (N.of_nat (length nm), li_level li) else annot r text
    end
  end.
Definition vt_of (env : list (list N * loopinfo)) (off : nat) (p : path) : vtag :=
  mkV off (N.of_nat (length (print_path p))) (fst (annot env (print_path p))) (snd (annot env (print_path p))).

(* the QExpression array parseExpressions builds for a printed expression that starts at [off] *)
Definition opq (op : N) : N :=
  match op with
  | 0 => op_Addition | 1 => op_Subtraction | 2 => op_Multiplication | 3 => op_Equal | 4 => op_NotEqual
  | 5 => op_Less | 6 => op_Greater | 7 => op_LessOrEqual | 8 => op_GreaterOrEqual | 9 => op_And | _ => op_Or
  end%N.
Fixpoint q_operand (env : list (list N * loopinfo)) (oper : N) (off : nat) (e : expr) {struct e} : qexpr :=
  match e with
  | ENum n => QNum oper qn_natural n
  | EVar p => QVar oper (vt_of env (off + 5) p)
  | EBin op a b =>
    QSub oper [q_operand env (opq op) (off + 1) a;
               q_operand env op_NoOp (off + 1 + length (print_operand a) + 1 + length (op_text op) + 1) b]
  end.
Definition qexpr_of (env : list (list N * loopinfo)) (off : nat) (e : expr) : list qexpr :=
  match e with
  | EBin op a b =>
    [q_operand env (opq op) off a; q_operand env op_NoOp (off + length (print_operand a) + 1 + length (op_text op) + 1) b]
  | _ => [q_operand env op_NoOp off e]
  end.

(* the fields of the LoopTag of a loop printed at [off] *)
Definition loop_rec (env : list (list N * loopinfo)) (depth off : nat)
           (set : option path) (val group : list N) (sort : N) (body_len : nat) : looprec :=
  let a0 := off + 5 in
  let a1 := match set with Some p => a0 + 6 + length (print_path p) + 1 | None => a0 end in
  let a2 := match val with [] => a1 | _ => a1 + 8 + length val + 1 end in
  let a3 := match group with [] => a2 | _ => a2 + 8 + length group + 1 end in
  let a4 := match sort with 0%N => a3 | 1%N => a3 + 14 | _ => a3 + 15 end in
  mkL off (a4 + 1 + body_len) (N.of_nat (a4 + 1 - off))
      (match val with [] => 0%N | _ => N.of_nat (a1 + 8 - off) end) (N.of_nat (length val))
      (match group with [] => 0%N | _ => N.of_nat (a2 + 8 - off) end) (N.of_nat (length group))
      (match sort with 0%N => 0%N | 1%N => tpp_SortAscend | _ => tpp_SortDescend end)
      (N.of_nat depth)
      (match set with Some p => vt_of env (a0 + 6) p | None => mkV 0 0 0 0 end)
      (map snd env).

Fixpoint build (env : list (list N * loopinfo)) (depth off : nat) (n : tnode) {struct n} : list tag :=
  let bl := fix bl (env : list (list N * loopinfo)) (depth off : nat) (l : list tnode) {struct l} : list tag :=
              match l with
              | [] => []
              | x :: r => build env depth off x ++ bl env depth (off + length (print_node x)) r
              end in
  match n with
  | TVar p => [PVar (vt_of env (off + 5) p)]
  | TRaw p => [PRaw (vt_of env (off + 5) p)]
  | TMath e => [PMath off (off + length (print_node n)) (qexpr_of env (off + 6) e)]
  | TIf c body more =>
    let co := off + 10 + length (print_expr c) + 2 in
    let ce := co + length (print_nodes body) in
    [PIf off (off + length (print_node n))
         (PCase co ce (qexpr_of env (off + 10) c) (bl env (S depth) co body) ::
          (fix bm (o : nat) (l : list (option expr * list tnode)) {struct l} : list ifcase :=
             match l with
             | [] => []
             | (Some e, b) :: r =>
               let bo := o + 15 + length (print_expr e) + 2 in
               PCase bo (bo + length (print_nodes b)) (qexpr_of env (o + 15) e) (bl env (S depth) bo b) ::
               bm (bo + length (print_nodes b)) r
             | (None, b) :: r =>
               let bo := o + 6 in
               PCase bo (bo + length (print_nodes b)) [] (bl env (S depth) bo b) :: bm (bo + length (print_nodes b)) r
             end) ce more)]
  | TSVar p subs =>
    [PSVar off (off + length (print_node n)) (mkV (off + 6) (N.of_nat (length (print_path p))) 0 0)
           ((fix bs (o : nat) (l : list tnode) {struct l} : list tag :=
               match l with
               | [] => []
               | x :: r => build env (S depth) (o + 2) x ++ bs (o + 2 + length (print_node x)) r
               end) (off + 6 + length (print_path p)) subs)]
  | TIIf c t f =>
    let ts := off + 10 + length (print_expr c) + 8 in
    let tl := length (print_nodes t) in
    match f with
    | Some fl =>
      let fs := ts + tl + 9 in
      [PIIf (mkI off (N.of_nat (length (print_node n))) (N.of_nat (ts - off)) (N.of_nat tl) (N.of_nat (fs - off))
                 (N.of_nat (length (print_nodes fl))) 0 (N.of_nat (ntags t)))
            (qexpr_of env (off + 10) c) (bl env (S depth) ts t ++ bl env (S depth) fs fl)]
    | None =>
      [PIIf (mkI off (N.of_nat (length (print_node n))) (N.of_nat (ts - off)) (N.of_nat tl) 0 0 0 0)
            (qexpr_of env (off + 10) c) (bl env (S depth) ts t)]
    end
  | TLoop set val group sort body =>
    let l := loop_rec env depth off set val group sort (length (print_nodes body)) in
    [PLoop l (bl ((val, info_of l) :: env) (S depth) (off + N.to_nat (l_coff l)) body)]
  | _ => []
  end.
Fixpoint build_list (env : list (list N * loopinfo)) (depth off : nat) (l : list tnode) {struct l} : list tag :=
  match l with
  | [] => []
  | x :: r => build env depth off x ++ build_list env depth (off + length (print_node x)) r
  end.
(* top-level names for the local fixpoints of [wf_node1] / [build] over the else-cases *)
Definition build_subs (env : list (list N * loopinfo)) (d : nat) : nat -> list tnode -> list tag :=
  fix bs (o : nat) (l : list tnode) {struct l} : list tag :=
    match l with
    | [] => []
    | x :: r => build env d (o + 2) x ++ bs (o + 2 + length (print_node x)) r
    end.
Definition wf_more (names : list (list N)) (depth : nat) : list (option expr * list tnode) -> bool :=
  fix wm (l : list (option expr * list tnode)) : bool :=
    match l with
    | [] => true
    | (Some e, b) :: r => wf_expr names e && forallb (wf_node1 names (S depth)) b && wm r
    | (None, b) :: r => forallb (wf_node1 names (S depth)) b && match r with [] => true | _ => false end
    end.
Definition build_more (env : list (list N * loopinfo)) (depth : nat) : nat -> list (option expr * list tnode) -> list ifcase :=
  fix bm (o : nat) (l : list (option expr * list tnode)) {struct l} : list ifcase :=
    match l with
    | [] => []
    | (Some e, b) :: r =>
      let bo := o + 15 + length (print_expr e) + 2 in
      PCase bo (bo + length (print_nodes b)) (qexpr_of env (o + 15) e) (build_list env (S depth) bo b) ::
      bm (bo + length (print_nodes b)) r
    | (None, b) :: r =>
      let bo := o + 6 in
      PCase bo (bo + length (print_nodes b)) [] (build_list env (S depth) bo b) :: bm (bo + length (print_nodes b)) r
    end.
Definition tree_of_full (ast : list tnode) : list tag := build_list [] 0 0 ast.

(* ---- the instance of render_all the statement is about ---- *)
(* expression evaluation of the instance: TmplModel.eval_expr transcribed to the QExpression arrays the parser builds for
   the integer fragment ([qexpr_of]); variables are read with getValue of the renderer model *)
Definition q_op (q : qexpr) : N := match q with QNum o _ _ | QText o _ _ | QVar o _ | QSub o _ => o end.
Definition q_arith (op : N) (x y : Z) : option Z :=
  if N.eqb op op_Addition then Some (x + y)%Z else if N.eqb op op_Subtraction then Some (x - y)%Z
  else if N.eqb op op_Multiplication then Some (x * y)%Z
  else if N.eqb op op_Less then Some (zb (x <? y)%Z) else if N.eqb op op_Greater then Some (zb (x >? y)%Z)
  else if N.eqb op op_LessOrEqual then Some (zb (x <=? y)%Z) else if N.eqb op op_GreaterOrEqual then Some (zb (x >=? y)%Z)
  else if N.eqb op op_And then Some (zb ((x >? 0)%Z && (y >? 0)%Z))
  else if N.eqb op op_Or then Some (zb ((x >? 0)%Z || (y >? 0)%Z)) else None.
Section QEval.
  Variable content : list N.
  Variable root : jv.
  Variable items : list (item jv).
  Definition q_var (v : vtag) : option jv :=
    match get_value jv get_key content root v items with ROk o => o | RError _ => None end.
  Fixpoint q_val (q : qexpr) {struct q} : option Z :=
    match q with
    | QNum _ k b => if N.eqb k qn_natural then Some (Z.of_N b) else None
    | QVar _ v => match q_var v with Some x => num_of x | None => None end
    | QSub _ (a :: b :: nil) =>
      let op := q_op a in
      if N.eqb op op_Equal || N.eqb op op_NotEqual then
        let side (x : qexpr) (vx : option Z) :=
          match x with QVar _ v => match q_var v with Some y => SVal y | None => SNone end | _ => num_side vx end in
        match eq_sides (side a (q_val a)) (side b (q_val b)) with
        | Some t => Some (if N.eqb op op_Equal then zb t else zb (negb t))
        | None => None
        end
      else match q_val a, q_val b with Some x, Some y => q_arith op x y | _, _ => None end
    | _ => None
    end.
  Definition q_top (l : list qexpr) : option Z :=
    match l with
    | [QVar _ v] =>
      match q_var v with
      | Some x => match num_of x with Some z => Some z | None => Some (zb (match x with JStr (_ :: _) => true | _ => false end)) end
      | None => Some 0%Z
      end
    | [q] => q_val q
    | [a; b] => q_val (QSub op_NoOp [a; b])
    | _ => None
    end.
End QEval.
Definition jv_math (content : list N) (root : jv) (k : nat) (ex : list qexpr) (items : list (item jv)) : option (list N) :=
  match q_top content root items ex with Some z => Some (dec_z z) | None => None end.
Definition jv_cond (content : list N) (root : jv) (k : nat) (ex : list qexpr) (items : list (item jv)) : option bool :=
  match q_top content root items ex with Some z => Some (z >? 0)%Z | None => None end.

Definition render_tree_jv (auto : bool) (w : N) (content : list N) (root : jv) (tags : list tag) : rres (list N) :=
  render_model jv get_key jv_members (jv_text auto w) char_and_length (fun v k => group_by k v) sort_set
               (var_text_cfg auto w) (jv_math content root) (jv_cond content root) content root tags.
Definition render_all_jv (auto : bool) (w : N) (content : list N) (root : jv) : rres (list N) :=
  render_all jv get_key jv_members (jv_text auto w) char_and_length (fun v k => group_by k v) sort_set
             (var_text_cfg auto w) (jv_math content root) (jv_cond content root) w content root.

(* the full statement (all constructors): not proved yet *)
Definition c02_full_statement (wf : list tnode -> bool) : Prop :=
  forall auto w root ast, wf ast = true -> render_all_jv auto w (print_nodes ast) root = ROk (expand auto w root ast).
