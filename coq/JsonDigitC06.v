(* JsonDigitC06.v -- C06 with the reals discharged: the hypothesis reals_ok of c06_parse_print becomes a boolean
   computed on the numeral texts (the scanner takes the text whole and classifies it Real), and that boolean holds
   for every RFC numeral with a fraction or an exponent that passes the scanner's range tests.  The value of a real
   leaf is DigitModel.string_to_number of its text. *)
From Coq Require Import NArith ZArith List Bool Lia.
From Qv Require Import gen.Tables_json JsonModel JsonSpec JsonProofsBase JsonProofsStr JsonProofsNum JsonProofsParse
  JsonProofsComplete JsonProofsDoc JsonProofsCst JsonProofsInt JsonProofsC06 JsonProofsPrefix JsonDigitExt JsonDigitRfc.
From Qv Require gen.Tables_digit DigitModel.
Import ListNotations.
Local Open Scope N_scope.

(* every real leaf of the tree: the scanner, run on the numeral alone, takes it whole and says Real *)
Fixpoint reals_okb (c : cval) : bool :=
  match c with
  | CRealT txt => real_wholeb txt
  | CArr _ items =>
    (fix go (l : list (list N * cval * list N)) : bool :=
       match l with [] => true | (_, x, _) :: t => reals_okb x && go t end) items
  | CObj _ ms =>
    (fix go (l : list (list N * list cchar * list N * list N * cval * list N)) : bool :=
       match l with [] => true | (_, _, _, _, x, _) :: t => reals_okb x && go t end) ms
  | _ => true
  end.

Lemma reals_okb_ok : forall n c, (csize c < n)%nat -> reals_okb c = true -> reals_ok c.
Proof.
  induction n as [|n IH]; intros c Hn H; [lia|].
  destruct c as [| | |ds|ds|txt|s|w0 items|w0 ms]; cbn [reals_okb reals_ok] in *; try exact I.
  - apply real_numeral_decided. exact H.
  - cbn [csize] in Hn. induction items as [|[[wb x] wa] t IHt]; [exact I|]. apply andb_true_iff in H. destruct H as [H1 H2]. split.
    + apply IH; [lia|assumption].
    + apply IHt; [lia|assumption].
  - cbn [csize] in Hn. induction ms as [|[[[[[wb k] w1] w2] x] wa] t IHt]; [exact I|]. apply andb_true_iff in H. destruct H as [H1 H2]. split.
    + apply IH; [lia|assumption].
    + apply IHt; [lia|assumption].
Qed.

Theorem parse_print_decided : forall w c ws1 ws2,
  cval_wf w c = true -> reals_okb c = true -> is_container c = true -> ws_wf ws1 = true -> ws_wf ws2 = true ->
  parse w (ws1 ++ cprint w c ++ ws2) = JOk (cdenote w c).
Proof.
  intros w c ws1 ws2 Hw Hr Hc H1 H2. apply parse_print_all; auto.
  apply (reals_okb_ok (S (csize c))); [apply Nat.lt_succ_diag_r|exact Hr].
Qed.

(* the guard holds for the reals of the RFC grammar that are in range *)
Theorem real_leaf_ok : forall txt, RfcFrac txt -> real_in_range txt = true -> real_wholeb txt = true.
Proof.
  intros txt Hf Hr. unfold real_wholeb. unfold real_in_range in Hr.
  destruct (scan_number_rfc_real txt Hf) as [E|E]; rewrite E in *; [|discriminate].
  destruct Hf as (sg & d & rem & _ & _ & _ & _ & ->). destruct sg; reflexivity.
Qed.

(* ---------------- values: a real leaf denotes the bits DigitModel.string_to_number assigns to its text -------- *)
Inductive vjv :=
| WNull | WTrue | WFalse | WNat (n : N) | WInt (z : Z)
| WReal (bits : option N)          (* None: the digit model does not classify the text as a real *)
| WStr (s : list N) | WArr (l : list vjv) | WObj (l : list (list N * vjv)) | WUndef.

Definition real_bits (txt : list N) : option N :=
  match DigitModel.string_to_number txt with
  | DigitModel.Ok p => if DigitModel.p_kind p =? Tables_digit.qn_real then Some (DigitModel.p_bits p) else None
  | DigitModel.Err _ => None
  end.

Fixpoint values (v : jv) : vjv :=
  match v with
  | JUndef => WUndef | JNull => WNull | JTrue => WTrue | JFalse => WFalse
  | JNat n => WNat n | JInt z => WInt z
  | JReal txt => WReal (real_bits txt)
  | JStr s => WStr s
  | JArr l => WArr (map values l)
  | JObj l => WObj (map (fun kv => (fst kv, values (snd kv))) l)
  end.

Definition parse_values (w : N) (s : list N) : option vjv :=
  match parse w s with JOk v => Some (values v) | JErr _ => None end.

Theorem parse_print_values : forall w c ws1 ws2,
  cval_wf w c = true -> reals_okb c = true -> is_container c = true -> ws_wf ws1 = true -> ws_wf ws2 = true ->
  parse_values w (ws1 ++ cprint w c ++ ws2) = Some (values (cdenote w c)).
Proof. intros. unfold parse_values. rewrite parse_print_decided by assumption. reflexivity. Qed.

(* non-vacuity: a document with reals of every spelling *)
Definition real_ex : cval :=
  CArr [] [([], CRealT [49; 46; 53], []);                                     (* 1.5 *)
           ([32], CRealT [45; 48; 46; 48; 48; 49; 50; 53; 101; 43; 51], []);    (* -0.00125e+3 *)
           ([], CRealT [49; 69; 50; 50], [32]);                                (* 1E22 *)
           ([], CRealT [49; 50; 51; 52; 53; 54; 55; 56; 57; 48; 49; 50; 51; 52; 53; 54; 55; 56; 57; 48; 49; 46; 50; 53; 101; 45; 55], []);
           ([], CRealT [48; 101; 53], []);                                     (* 0e5 *)
           ([], CObj [] [([], [CRaw 120], [], [], CRealT [50; 46; 50; 50; 53; 48; 55; 51; 56; 53; 56; 53; 48; 55; 50; 48; 49; 52; 101; 45; 51; 48; 56], [])], [])].

Example real_ex_ok : cval_wf 0 real_ex = true /\ reals_okb real_ex = true.
Proof. split; vm_compute; reflexivity. Qed.
Example real_ex_parses : parse 0 (cprint 0 real_ex) = JOk (cdenote 0 real_ex).
Proof.
  rewrite <- (app_nil_r (cprint 0 real_ex)).
  apply (parse_print_decided 0 real_ex [] []); try reflexivity; apply real_ex_ok.
Qed.
Example real_ex_values : real_bits [49; 46; 53] = Some 4609434218613702656 /\ real_bits [49; 69; 50; 50] = Some 4936209963552724370.
Proof. split; vm_compute; reflexivity. Qed.
Example real_ex_grammar : RfcFrac [49; 46; 53] /\ real_in_range [49; 46; 53] = true /\ real_in_range [49; 101; 52; 48; 48] = false.
Proof.
  split; [|split; vm_compute; reflexivity].
  exists [], 49, [46; 53]. split; [left; reflexivity|]. split; [reflexivity|]. split; [|split; [|reflexivity]].
  - exists [], []. split; [reflexivity|]. split; [constructor|]. right. split; [reflexivity|]. exists [53]. split; reflexivity.
  - intros H. discriminate.
Qed.
