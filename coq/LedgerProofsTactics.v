(* LedgerProofsTactics.v -- C16: the tactics shared by the per-container ledger proofs. *)
From Coq Require Import NArith List Arith Bool Lia.
From Qv Require Import SeqModel SeqProofs LedgerModel LedgerProofs.
Import ListNotations.

(* turn every successful primitive in the context into its effect on liveness *)
Ltac prim_inv :=
  repeat match goal with
  | H : bind _ _ = Ok _ |- _ => let t := fresh "t" in let E := fresh "E" in apply bind_ok in H as (t & E & H)
  | H : free _ _ = Ok _ |- _ => let Hn := fresh "Hn" in let Ha := fresh "Ha" in let Hl := fresh "Hlive" in apply free_inv in H as (Hn & Ha & Hl)
  | H : wr_range _ _ _ _ = Ok _ |- _ => let Hn := fresh "Hn" in let Ha := fresh "Ha" in apply wr_range_inv in H as (Hn & Ha)
  | H : wr1 _ _ _ _ = Ok _ |- _ => let Hn := fresh "Hn" in let Ha := fresh "Ha" in apply wr1_inv in H as (Hn & Ha)
  | H : mcopy _ _ _ _ _ _ = Ok _ |- _ => let Hn := fresh "Hn" in let Ha := fresh "Ha" in apply mcopy_inv in H as (Hn & Ha)
  | H : copy_in _ _ _ _ _ = Ok _ |- _ => let Hn := fresh "Hn" in let Ha := fresh "Ha" in apply copy_in_inv in H as (Hn & Ha)
  | H : Ok _ = Ok _ |- _ => injection H as H; try subst
  end.

(* rewrite liveness of the final heap down to liveness of the initial one *)
Ltac al_rw :=
  repeat first [ rewrite al_halloc
               | match goal with H : forall x, al ?h x = _ |- context [al ?h _] => rewrite H end ].

Ltac ledger_facts Hl :=
  repeat match goal with E : pis _ _ = true |- _ => apply pis_true in E end;
  repeat match goal with
         | E : blk (ob ?w ?k) = Some ?b |- _ =>
             lazymatch goal with
             | _ : al (hp w) b = true |- _ => fail
             | _ => pose proof (li_owned_live w Hl k b E)
             end
         end;
  repeat match goal with
         | E1 : blk (ob ?w ?k) = Some ?b, E2 : blk (ob ?w ?k') = Some ?b |- _ =>
             lazymatch k with
             | k' => fail
             | _ => lazymatch goal with
                    | _ : k = k' |- _ => fail
                    | _ => pose proof (li_one_owner w Hl k k' b E1 E2)
                    end
             end
         end;
  repeat match goal with
         | E : al (hp ?w) ?b = true |- _ =>
             lazymatch goal with
             | _ : b < next (hp w) |- _ => fail
             | _ => pose proof (li_lt w b Hl E)
             end
         end.

(* decide a boolean identity over liveness / pointer tests by cases; contradictory cases by the ledger *)
Ltac al_cases Hl :=
  cbn [pis blk null_obj];
  repeat match goal with
         | |- context [Nat.eqb ?a ?b] => destruct (Nat.eqb_spec a b); try subst
         | |- context [pis ?p ?x] => let E := fresh "E" in destruct (pis p x) eqn:E
         | |- context [al ?h ?x] => let E := fresh "E" in destruct (al h x) eqn:E
         end;
  cbn [orb andb negb]; try reflexivity; try lia; exfalso; ledger_facts Hl; try lia; try congruence.

Ltac al_solve Hl := let x := fresh "x" in intros x; al_rw; al_cases Hl.

Ltac next_rw :=
  repeat first [ rewrite halloc_next
               | match goal with H : next ?h = _ |- context [next ?h] => rewrite H end ].

(* the block of the new state of an object: none, or one that was not live before *)
Ltac fresh_new Hl :=
  let b := fresh "b" in let Hb := fresh "Hb" in
  next_rw; intros b Hb; cbn [blk null_obj] in Hb;
  first [ discriminate Hb
        | injection Hb as <-; split;
          [ lia
          | left; match goal with
                  | |- al (hp ?w) ?c = false =>
                      let E := fresh "E" in destruct (al (hp w) c) eqn:E; [pose proof (li_lt w c Hl E); lia | reflexivity]
                  end ] ].

Ltac frame_tac :=
  let k := fresh "k" in let Hk := fresh "Hk" in
  intros k Hk; cbn [sidx tidx aidx In] in Hk; cbn [ob];
  rewrite ?upd_other by (intros ->; apply Hk; auto); try reflexivity;
  repeat match goal with
         | Hf : forall k, k <> _ -> ob _ k = ob _ k |- _ => rewrite Hf by (intros ->; apply Hk; auto)
         end; try reflexivity.
